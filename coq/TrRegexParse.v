(* TrRegexParse.v -- the recursive-descent parser of /repo/regex.c on the translated C text (part 2 of the compiler side):
   rnode_atom (with the repetition suffixes * ? + {m,n}: the digit accumulation saturating at NREPS+1), rnode_grp, rnode_seq,
   rnode_parse ARE the threaded parser model ReStateDefs.rnode_parse_st (the static flag re_bad is the threaded boolean):
   the malloc'd tree is the model's tree (TrRegexComp.tree_in), *pat ends where the model stops, every load is inside the
   pattern string and its terminator, the call depth is linear in what is left of the pattern. *)
From Coq Require Import List ZArith NArith Bool Lia.
From NV Require Import Bytes GenConsts ReSyntax ReParse ReEmit ReVM RsetDefs ReStateDefs CLite CLiteProps GenCFuncs CLiteTac CLiteExt TrRegex TrRegexAtom TrRegexComp.
Import ListNotations.
Local Open Scope Z_scope.

(* ------------------------------------------------------------------ facts about one byte *)
Lemma isdigit_builtin (m : mem) c : (c < 256)%N -> do_builtin_m BIsdigit [VInt (Z.of_N c)] m = Ok (VInt (b2z (isdigit c)), m).
Proof.
  intro Hc. cbn [do_builtin_m do_builtin]. rewrite ct_arg_ok by lia. cbn [bind].
  assert (E : ct_isdigit (Z.of_N c) = isdigit c) by (revert c Hc; byte_fact). rewrite E. reflexivity.
Qed.
Lemma isdigit_sx : forall c, (c < 256)%N -> (negb (isdigit c) || (sx c =? Z.of_N c)) = true.  Proof. byte_fact. Qed.
Lemma isdigit_range : forall c, (c < 256)%N -> (negb (isdigit c) || ((48 <=? Z.of_N c) && (Z.of_N c <=? 57))) = true.  Proof. byte_fact. Qed.
Lemma isdigit_nz : forall c, (c < 256)%N -> (negb (isdigit c) || negb (c =? 0)%N) = true.  Proof. byte_fact. Qed.
Lemma sx_eq_40 : forall c, (c < 256)%N -> (sx c =? 40) = (c =? 40)%N.  Proof. byte_fact. Qed.
Lemma sx_eq_41 : forall c, (c < 256)%N -> (sx c =? 41) = (c =? 41)%N.  Proof. byte_fact. Qed.
Lemma sx_eq_42 : forall c, (c < 256)%N -> (sx c =? 42) = (c =? 42)%N.  Proof. byte_fact. Qed.
Lemma sx_eq_43 : forall c, (c < 256)%N -> (sx c =? 43) = (c =? 43)%N.  Proof. byte_fact. Qed.
Lemma sx_eq_44 : forall c, (c < 256)%N -> (sx c =? 44) = (c =? 44)%N.  Proof. byte_fact. Qed.
Lemma sx_eq_63 : forall c, (c < 256)%N -> (sx c =? 63) = (c =? 63)%N.  Proof. byte_fact. Qed.
Lemma sx_eq_123 : forall c, (c < 256)%N -> (sx c =? 123) = (c =? 123)%N.  Proof. byte_fact. Qed.
Lemma sx_eq_124 : forall c, (c < 256)%N -> (sx c =? 124) = (c =? 124)%N.  Proof. byte_fact. Qed.
Lemma sx_eq_125 : forall c, (c < 256)%N -> (sx c =? 125) = (c =? 125)%N.  Proof. byte_fact. Qed.

(* ------------------------------------------------------------------ the statements of rnode_atom *)
Definition ra_rep : stmt := match fn_body cf_rnode_atom with SSeq _ (SSeq _ (SSeq _ (SSeq _ t))) => t | _ => SSkip end.
Definition ra_brace : stmt := match ra_rep with SSeq _ (SSeq _ (SSeq (SIf _ t _) _)) => t | _ => SSkip end.
Definition dig_loop (k : Z) : stmt :=
  SWhile (EBuiltin BIsdigit [(ECast I32 (ECast U8 (ELoad (Some I8) (ELoad None (ELocal 0)))))])
    (SSeq (SExpr (EStore (Some I32) (EPtrAdd 1 (ELocal 1) (EConst k))
                   (EBin OSub I32 (EBin OAdd I32 (EBin OMul I32 (ELoad (Some I32) (EPtrAdd 1 (ELocal 1) (EConst k))) (EConst 10))
                                                 (ECast I32 (ELoad (Some I8) (EIncMem true None 1 (ELocal 0))))) (EConst 48))))
          (SIf (EBin OGt I32 (ELoad (Some I32) (EPtrAdd 1 (ELocal 1) (EConst k))) (EConst 128))
               (SExpr (EStore (Some I32) (EPtrAdd 1 (ELocal 1) (EConst k)) (EBin OAdd I32 (EConst 128) (EConst 1)))) SSkip)).
Definition ra_comma : stmt := match ra_brace with SSeq _ (SSeq _ (SSeq _ (SSeq _ (SSeq c _)))) => c | _ => SSkip end.
Definition ra_check : stmt := match ra_brace with SSeq _ (SSeq _ (SSeq _ (SSeq _ (SSeq _ t)))) => t | _ => SSkip end.
Lemma ra_brace_eq : ra_brace =
  SSeq (SExpr (EStore (Some I32) (EPtrAdd 1 (ELocal 1) (EConst 4)) (EConst 0)))
    (SSeq (SExpr (EStore (Some I32) (EPtrAdd 1 (ELocal 1) (EConst 5)) (EConst 0)))
      (SSeq (SExpr (EIncMem false None 1 (ELocal 0))) (SSeq (dig_loop 4) (SSeq ra_comma ra_check)))).
Proof. reflexivity. Qed.
Lemma ra_comma_eq : ra_comma =
  SIf (EBin OEq I32 (ECast I32 (ELoad (Some I8) (ELoad None (ELocal 0)))) (EConst 44))
    (SSeq (SExpr (EIncMem true None 1 (ELocal 0)))
      (SSeq (SIf (EBin OEq I32 (ECast I32 (ELoad (Some I8) (EPtrAdd 1 (ELoad None (ELocal 0)) (EConst 0)))) (EConst 125))
                 (SExpr (EStore (Some I32) (EPtrAdd 1 (ELocal 1) (EConst 5)) (EUn ONeg I32 (EConst 1)))) SSkip)
            (dig_loop 5)))
    (SExpr (EStore (Some I32) (EPtrAdd 1 (ELocal 1) (EConst 5)) (ELoad (Some I32) (EPtrAdd 1 (ELocal 1) (EConst 4))))).
Proof. reflexivity. Qed.

(* ------------------------------------------------------------------ the model's rep_suffix in stages *)
Definition rep1 (s : bytes) : Z * Z * bytes :=
  if ((hd0 s =? 42) || (hd0 s =? 63))%N then (0, if (hd0 s =? 42)%N then -1 else 1, tl s) else (1, 1, s).
Definition rep2 (x : Z * Z * bytes) : Z * Z * bytes :=
  let '(mn, mx, s) := x in if (hd0 s =? 43)%N then (1, -1, tl s) else (mn, mx, s).
Definition brace_counts (s : bytes) : Z * Z * bytes :=
  let '(mn, s) := digits s 0 in
  let '(mx, s) := if (hd0 s =? 44)%N then digits (tl s) (if (hd0 (tl s) =? 125)%N then -1 else 0) else (mn, s) in
  (mn, mx, s).
Definition brace_bad (x : Z * Z * bytes) : bool :=
  let '(mn, mx, s) := x in negb (hd0 s =? 125)%N || (NREPS <? mn) || (NREPS <? mx) || ((0 <=? mx) && (mx <? mn)).
Definition rep3 (x : Z * Z * bytes) : ReSyntax.res (option (Z * Z) * bytes) :=
  let '(mn, mx, s) := x in
  if (hd0 s =? 123)%N then
    let y := brace_counts (tl s) in
    if brace_bad y then ReSyntax.Ok (None, snd y) else ReSyntax.Ok (Some (fst (fst y), snd (fst y)), tl (snd y))
  else ReSyntax.Ok (Some (mn, mx), s).
Lemma rep_suffix_stages s : rep_suffix s = rep3 (rep2 (rep1 s)).
Proof.
  unfold rep_suffix, rep3, rep2, rep1, brace_bad, brace_counts.
  destruct ((hd0 s =? 42)%N || (hd0 s =? 63)%N);
    repeat match goal with
           | |- context [if ?c then _ else _] => destruct c eqn:?
           | |- context [digits ?a ?b] => destruct (digits a b) eqn:?
           end; cbn [fst snd] in *; try reflexivity; try congruence.
Qed.
Lemma tl_skipn {A} (s : list A) o : tl (skipn o s) = skipn (S o) s.
Proof. revert s; induction o as [|o IH]; intros [|x s]; try reflexivity. cbn [skipn]. rewrite IH. reflexivity. Qed.

Definition ra_star : stmt := match ra_rep with SSeq a _ => a | _ => SSkip end.
Definition ra_plus : stmt := match ra_rep with SSeq _ (SSeq a _) => a | _ => SSkip end.
Definition ra_bcond : expr := match ra_rep with SSeq _ (SSeq _ (SSeq (SIf c _ _) _)) => c | _ => EConst 0 end.
Definition ra_ret : stmt := match ra_rep with SSeq _ (SSeq _ (SSeq _ r)) => r | _ => SSkip end.
Definition ra_ccheck : expr := match ra_check with SSeq (SIf c _ _) _ => c | _ => EConst 0 end.
Definition ra_fail : stmt := match ra_check with SSeq (SIf _ f _) _ => f | _ => SSkip end.
Definition ra_inc : stmt := match ra_check with SSeq _ i => i | _ => SSkip end.
Lemma ra_rep_eq : ra_rep = SSeq ra_star (SSeq ra_plus (SSeq (SIf ra_bcond ra_brace SSkip) ra_ret)).
Proof. reflexivity. Qed.
Lemma ra_check_eq : ra_check = SSeq (SIf ra_ccheck ra_fail SSkip) ra_inc.
Proof. reflexivity. Qed.

(* ------------------------------------------------------------------ the memory while a repetition suffix is read *)
Section Rep.
  Variables (bl : nat) (pat : bytes) (bpp : nat).
  Hypothesis Hnn : nonul pat.
  Hypothesis Nlp : bl <> bpp.
  Hypothesis Hmax : Z.of_nat (length pat) < 2147483647.
  Let H256 : bytes_lt256 pat := nonul_lt256 pat Hnn.

  (* m is m0 with the node block b holding blk and *pat at offset o *)
  Definition rmem (m0 : mem) (b : nat) (blk : block) (o : nat) (m : mem) : Prop :=
    length m = length m0 /\ nth_error m b = Some blk /\ nth_error m bpp = Some [VPtr bl (Z.of_nat o)] /\
    forall i, i <> b -> i <> bpp -> nth_error m i = nth_error m0 i.

  Variables (m0 : mem) (b : nat).
  Hypothesis Hs0 : str_at m0 bl pat.
  Hypothesis Nb1 : b <> bpp.
  Hypothesis Nb2 : b <> bl.
  Hypothesis Lb : (b < length m0)%nat.
  Hypothesis Lp : (bpp < length m0)%nat.

  Lemma rmem_str blk o m : rmem m0 b blk o m -> str_at m bl pat.
  Proof. intros [_ [_ [_ F]]]. unfold str_at. rewrite F by congruence. exact Hs0. Qed.
  Lemma rmem_store_b blk o m k v : rmem m0 b blk o m -> (k < length blk)%nat ->
    store m b (0 + 1 * Z.of_nat k) v = Ok (upd m b (upd blk k v)) /\ rmem m0 b (upd blk k v) o (upd m b (upd blk k v)).
  Proof.
    intros [L [Hb [Hp F]]] Hk. split.
    - rewrite (store_ok m b blk _ _ Hb) by lia. repeat f_equal. lia.
    - split; [rewrite upd_length by lia; exact L|]. split; [apply mem_upd_same; lia|].
      split; [rewrite mem_upd_other by (try lia; congruence); exact Hp|]. intros i N1 N2. rewrite mem_upd_other by (try lia; congruence). apply F; assumption.
  Qed.
  Lemma rmem_store_p blk o m o' : rmem m0 b blk o m ->
    store m bpp 0 (VPtr bl (Z.of_nat o')) = Ok (upd m bpp [VPtr bl (Z.of_nat o')]) /\ rmem m0 b blk o' (upd m bpp [VPtr bl (Z.of_nat o')]).
  Proof.
    intros [L [Hb [Hp F]]]. split.
    - rewrite (store_ok m bpp _ _ _ Hp) by (cbn [length]; lia). reflexivity.
    - split; [rewrite upd_length by lia; exact L|]. split; [rewrite mem_upd_other by (try lia; congruence); exact Hb|].
      split; [apply mem_upd_same; lia|]. intros i N1 N2. rewrite mem_upd_other by (try lia; congruence). apply F; assumption.
  Qed.
  Lemma rmem_load_b blk o m k v : rmem m0 b blk o m -> nth_error blk k = Some v -> load m b (0 + 1 * Z.of_nat k) = Ok v.
  Proof. intros [_ [Hb _]] Hk. apply (load_cell m b blk); [exact Hb| |lia]. replace (Z.to_nat (0 + 1 * Z.of_nat k)) with k by lia. exact Hk. Qed.
  Lemma rmem_load_bz blk o m (k : Z) v : rmem m0 b blk o m -> nth_error blk (Z.to_nat k) = Some v -> 0 <= k -> load m b (0 + 1 * k) = Ok v.
  Proof. intros [_ [Hb _]] Hk H0. apply (load_cell m b blk); [exact Hb| |lia]. replace (Z.to_nat (0 + 1 * k)) with (Z.to_nat k) by lia. exact Hk. Qed.
  Lemma rmem_load_p blk o m : rmem m0 b blk o m -> load m bpp 0 = Ok (VPtr bl (Z.of_nat o)).
  Proof. intros [_ [_ [Hp _]]]. exact (load_cell m bpp _ 0 _ Hp eq_refl ltac:(lia)). Qed.
  (* the byte *pat points to *)
  Lemma rmem_load_c blk o m k : rmem m0 b blk o m -> (k <= length pat)%nat -> load m bl (Z.of_nat k) = Ok (VInt (Z.of_N (nthb pat k))).
  Proof. intros R Ho. apply (load_str m bl pat _ k (rmem_str _ _ _ R) eq_refl Ho). Qed.

  Variable call : nat -> list val -> mem -> res (val * mem).

  (* the digit loop: while the byte under the pattern pointer is a digit, cnt = cnt * 10 + digit (the pointer steps on); if (cnt > NREPS) cnt = NREPS + 1;
     on cell kn of the node *)
  Lemma dig_loop_ok (kn : nat) : forall n o blk m cnt lf cnt' s',
    (length pat - o = n)%nat -> (o <= length pat)%nat -> (n < lf)%nat ->
    rmem m0 b blk o m -> nth_error blk kn = Some (VInt cnt) -> (0 <= cnt <= 129 \/ isdigit (nthb pat o) = false) ->
    digits (skipn o pat) cnt = (cnt', s') ->
    exists m' o', exec call lf (dig_loop (Z.of_nat kn)) (mkst [VPtr bpp 0; VPtr b 0] m) = ONormal (mkst [VPtr bpp 0; VPtr b 0] m') /\
      rmem m0 b (upd blk kn (VInt cnt')) o' m' /\ s' = skipn o' pat /\ (o <= o' <= length pat)%nat /\
      (cnt' = cnt \/ 0 <= cnt' <= 129) /\ isdigit (nthb pat o') = false.
  Proof.
    induction n as [|n IH]; intros o blk m cnt lf cnt' s' Hn Ho Hlf R Hk Hc Hd; (destruct lf as [|lf]; [lia|]);
      unfold dig_loop; rewrite exec_while; xs; rewrite (rmem_load_p _ _ _ R); xs; rewrite (rmem_load_c _ _ _ o R Ho); xs;
      pose proof (nthb_lt256 pat o H256) as H8; rewrite (wrap_byte_chain _ H8); rewrite (isdigit_builtin m _ H8); xs.
    - (* at the terminator *)
      assert (o = length pat) as -> by lia. rewrite nthb_end by lia. cbn [isdigit N.leb N.compare andb b2z]. xs.
      rewrite skipn_end in Hd by lia. cbn [digits] in Hd. injection Hd as <- <-.
      exists m, (length pat). split; [reflexivity|]. rewrite (upd_self blk kn _ Hk). split; [exact R|].
      split; [rewrite skipn_end by lia; reflexivity|]. split; [lia|]. split; [left; reflexivity|]. rewrite nthb_end by lia. reflexivity.
    - assert (Hlt : (o < length pat)%nat) by lia. rewrite (skipn_cons_nthb pat o Hlt) in Hd. cbn [digits] in Hd.
      set (c := nthb pat o) in *. destruct (isdigit c) eqn:Edig; xs.
      2:{ injection Hd as <- <-. exists m, o. split; [reflexivity|]. rewrite (upd_self blk kn _ Hk). split; [exact R|].
          split; [symmetry; apply skipn_cons_nthb; exact Hlt|]. split; [lia|]. split; [left; reflexivity|]. exact Edig. }
      destruct Hc as [Hc|Hc]; [|congruence].
      pose proof (isdigit_sx c H8) as E1. pose proof (isdigit_range c H8) as E2. rewrite Edig in E1, E2. cbn [negb orb] in E1, E2.
      apply Z.eqb_eq in E1. apply andb_true_iff in E2. destruct E2 as [E2 E3]. apply Z.leb_le in E2. apply Z.leb_le in E3.
      assert (Hkl : (kn < length blk)%nat) by (apply nth_error_Some; congruence).
      rewrite (rmem_load_b _ _ _ _ _ R Hk). xs. rewrite (wrap_I32_id cnt) by lia. rewrite (chk_I32 (cnt * 10)) by lia. xs.
      rewrite (rmem_load_p _ _ _ R). xs.
      destruct (rmem_store_p _ _ _ (S o) R) as [Sp Rp]. cbn [fst snd]. replace (Z.of_nat o + 1) with (Z.of_nat (S o)) by lia. rewrite Sp. xs.
      rewrite (rmem_load_c _ _ _ o Rp) by lia. xs. fold_sx. fold c. rewrite E1.
      rewrite (chk_I32 (cnt * 10 + Z.of_N c)) by lia. xs. rewrite (chk_I32 (cnt * 10 + Z.of_N c - 48)) by lia. xs.
      set (v := cnt * 10 + Z.of_N c - 48) in *. rewrite (wrap_I32_id v) by (unfold v; lia).
      destruct (rmem_store_b _ _ _ kn (VInt v) Rp Hkl) as [Sb Rb]. rewrite Sb. xs.
      assert (Hk1 : nth_error (upd blk kn (VInt v)) kn = Some (VInt v)) by (apply nth_error_upd_same; exact Hkl).
      rewrite (rmem_load_b _ _ _ _ _ Rb Hk1). xs. rewrite (wrap_I32_id v) by (unfold v; lia).
      unfold NREPS in Hd. change (128 + 1) with 129 in Hd.
      assert (Hkl1 : (kn < length (upd blk kn (VInt v)))%nat) by (rewrite upd_length; exact Hkl).
      destruct (Z.ltb_spec 128 v) as [Hv|Hv]; xs.
      + destruct (rmem_store_b _ _ _ kn (VInt 129) Rb Hkl1) as [Sb2 Rb2]. rewrite Sb2. xs.
        change (SWhile _ _) with (dig_loop (Z.of_nat kn)).
        destruct (IH (S o) _ _ 129 lf cnt' s' ltac:(lia) ltac:(lia) ltac:(lia) Rb2 (nth_error_upd_same _ _ _ Hkl1) ltac:(left; lia) Hd)
          as [m' [o' [X [R' [Es [Ho' [Hc' Hnd]]]]]]].
        exists m', o'. split; [exact X|]. rewrite !upd_upd in R' by (rewrite ?upd_length; exact Hkl). split; [exact R'|]. split; [exact Es|]. split; [lia|].
        split; [right; lia|exact Hnd].
      + change (SWhile _ _) with (dig_loop (Z.of_nat kn)).
        destruct (IH (S o) _ _ v lf cnt' s' ltac:(lia) ltac:(lia) ltac:(lia) Rb Hk1 ltac:(left; unfold v; lia) Hd)
          as [m' [o' [X [R' [Es [Ho' [Hc' Hnd]]]]]]].
        exists m', o'. split; [exact X|]. rewrite upd_upd in R' by exact Hkl. split; [exact R'|]. split; [exact Es|]. split; [lia|].
        split; [right; unfold v in *; lia|exact Hnd].
  Qed.


  (* ---- the three stages on the node block [c0; c1; c2; c3; mincnt; maxcnt; c6; c7] *)
  Variables (c0 c1 c2 c3 c6 c7 : val).
  Notation cells mn mx := [c0; c1; c2; c3; VInt mn; VInt mx; c6; c7].
  Notation lcl := [VPtr bpp 0; VPtr b 0].

  Lemma hd0_at o : hd0 (skipn o pat) = nthb pat o.
  Proof. apply hd0_skipn. Qed.
  Lemma nz_lt o : nthb pat o <> 0%N -> (o < length pat)%nat.
  Proof. apply nthb_nz_lt. Qed.

  (* loading the byte under the pattern pointer as an int *)
  Ltac ld_c R :=
    rewrite (rmem_load_p _ _ _ R); xs; rewrite ?Z.add_0_r; rewrite (rmem_load_c _ _ _ _ R) by lia; xs; fold_sx.

  Lemma star_ok lf o m : rmem m0 b (cells 1 1) o m -> (o <= length pat)%nat ->
    let '(mn, mx, s) := rep1 (skipn o pat) in
    exists m' o', exec call lf ra_star (mkst lcl m) = ONormal (mkst lcl m') /\ rmem m0 b (cells mn mx) o' m' /\
      s = skipn o' pat /\ (o <= o' <= length pat)%nat.
  Proof.
    intros R Ho. unfold rep1. rewrite hd0_at. pose proof (nthb_lt256 pat o H256) as H8. set (c := nthb pat o) in *.
    assert (Body : ((c =? 42)%N || (c =? 63)%N) = true ->
      exists m' o', exec call lf
        (SSeq (SExpr (EStore (Some I32) (EPtrAdd 1 (ELocal 1) (EConst 4)) (EConst 0)))
          (SSeq (SExpr (EStore (Some I32) (EPtrAdd 1 (ELocal 1) (EConst 5))
                   (ECond (EBin OEq I32 (ECast I32 (ELoad (Some I8) (EPtrAdd 1 (ELoad None (ELocal 0)) (EConst 0)))) (EConst 42)) (EUn ONeg I32 (EConst 1)) (EConst 1))))
                (SExpr (EIncMem false None 1 (ELocal 0))))) (mkst lcl m) = ONormal (mkst lcl m') /\
        rmem m0 b (cells 0 (if (c =? 42)%N then -1 else 1)) o' m' /\ tl (skipn o pat) = skipn o' pat /\ (o <= o' <= length pat)%nat).
    { intro E. assert (c <> 0%N) by (intro Z0; rewrite Z0 in E; discriminate). pose proof (nz_lt o H).
      xs. destruct (rmem_store_b _ _ _ 4%nat (VInt 0) R ltac:(cbn; lia)) as [S1 R1]. change (Z.of_nat 4) with 4 in S1. rewrite S1. xs.
      rewrite ?upd_cons_S, ?upd_cons_0 in *.
      ld_c R1. fold c. rewrite (sx_eq_42 c H8).
      destruct (rmem_store_b _ _ _ 5%nat (VInt (if (c =? 42)%N then -1 else 1)) R1 ltac:(cbn; lia)) as [S2 R2]. change (Z.of_nat 5) with 5 in S2.
      rewrite ?upd_cons_S, ?upd_cons_0 in *.
      destruct (c =? 42)%N; xs; rewrite S2; xs; rewrite (rmem_load_p _ _ _ R2); xs;
        (destruct (rmem_store_p _ _ _ (S o) R2) as [S3 R3]); replace (Z.of_nat o + 1) with (Z.of_nat (S o)) by lia; cbn [fst snd]; rewrite S3; xs;
        eexists; exists (S o); (split; [reflexivity|]); (split; [exact R3|]); (split; [apply tl_skipn|lia]). }
    unfold ra_star, ra_rep. cbn [fn_body cf_rnode_atom].
    match goal with |- context [SIf _ ?body SSkip] => remember body as sb eqn:Esb end.
    xs. ld_c R. fold c. rewrite (sx_eq_42 c H8).
    destruct (c =? 42)%N eqn:E42; cbn [orb]; xs.
    - destruct (Body eq_refl) as [m' [o' [X [R' [Es Ho']]]]]. exists m', o'. subst sb. split; [exact X|]. split; [exact R'|]. split; [exact Es|exact Ho'].
    - ld_c R. fold c. rewrite (sx_eq_63 c H8). destruct (c =? 63)%N eqn:E63; xs.
      + destruct (Body eq_refl) as [m' [o' [X [R' [Es Ho']]]]]. exists m', o'. subst sb. split; [exact X|]. split; [exact R'|]. split; [exact Es|exact Ho'].
      + exists m, o. split; [reflexivity|]. split; [exact R|]. split; [reflexivity|lia].
  Qed.

  Lemma plus_ok lf o m mn mx : rmem m0 b (cells mn mx) o m -> (o <= length pat)%nat ->
    let '(mn', mx', s) := rep2 (@pair (Z * Z) bytes (mn, mx) (skipn o pat)) in
    exists m' o', exec call lf ra_plus (mkst lcl m) = ONormal (mkst lcl m') /\ rmem m0 b (cells mn' mx') o' m' /\
      s = skipn o' pat /\ (o <= o' <= length pat)%nat.
  Proof.
    intros R Ho. unfold rep2. rewrite hd0_at. pose proof (nthb_lt256 pat o H256) as H8. set (c := nthb pat o) in *.
    unfold ra_plus, ra_rep. cbn [fn_body cf_rnode_atom]. xs. ld_c R. fold c. rewrite (sx_eq_43 c H8).
    destruct (c =? 43)%N eqn:E43; xs.
    - assert (c <> 0%N) by (intro Z0; rewrite Z0 in E43; discriminate). pose proof (nz_lt o H).
      destruct (rmem_store_b _ _ _ 4%nat (VInt 1) R ltac:(cbn; lia)) as [S1 R1]. change (Z.of_nat 4) with 4 in S1. rewrite S1. xs.
      rewrite ?upd_cons_S, ?upd_cons_0 in *.
      destruct (rmem_store_b _ _ _ 5%nat (VInt (-1)) R1 ltac:(cbn; lia)) as [S2 R2]. change (Z.of_nat 5) with 5 in S2. rewrite S2. xs.
      rewrite ?upd_cons_S, ?upd_cons_0 in *.
      rewrite (rmem_load_p _ _ _ R2). xs.
      destruct (rmem_store_p _ _ _ (S o) R2) as [S3 R3]. replace (Z.of_nat o + 1) with (Z.of_nat (S o)) by lia. cbn [fst snd]. rewrite S3. xs.
      eexists. exists (S o). split; [reflexivity|]. split; [exact R3|]. split; [apply tl_skipn|lia].
    - exists m, o. split; [reflexivity|]. split; [exact R|]. split; [reflexivity|lia].
  Qed.

  (* `{`: mincnt = maxcnt = 0, the digits of the minimum, then `,` and the digits of the maximum (or maxcnt = mincnt) *)
  Lemma brace_pre_ok lf o m mn mx : rmem m0 b (cells mn mx) o m -> nthb pat o = 123%N -> (length pat < lf)%nat ->
    let '(mn', mx', s) := brace_counts (tl (skipn o pat)) in
    exists m' o',
      (forall rest, exec call lf
         (SSeq (SExpr (EStore (Some I32) (EPtrAdd 1 (ELocal 1) (EConst 4)) (EConst 0)))
           (SSeq (SExpr (EStore (Some I32) (EPtrAdd 1 (ELocal 1) (EConst 5)) (EConst 0)))
             (SSeq (SExpr (EIncMem false None 1 (ELocal 0))) (SSeq (dig_loop 4) (SSeq ra_comma rest))))) (mkst lcl m)
         = exec call lf rest (mkst lcl m')) /\
      rmem m0 b (cells mn' mx') o' m' /\ s = skipn o' pat /\ (o < o' <= length pat)%nat /\ 0 <= mn' <= 129 /\ -1 <= mx' <= 129.
  Proof.
    intros R Hc Hlf. assert (Ho : (o < length pat)%nat) by (apply nz_lt; rewrite Hc; discriminate).
    rewrite tl_skipn. unfold brace_counts.
    destruct (digits (skipn (S o) pat) 0) as [mn1 s1] eqn:D1.
    destruct (rmem_store_b _ _ _ 4%nat (VInt 0) R ltac:(cbn; lia)) as [S1 R1]. change (Z.of_nat 4) with 4 in S1.
    rewrite ?upd_cons_S, ?upd_cons_0 in *.
    destruct (rmem_store_b _ _ _ 5%nat (VInt 0) R1 ltac:(cbn; lia)) as [S2 R2]. change (Z.of_nat 5) with 5 in S2.
    rewrite ?upd_cons_S, ?upd_cons_0 in *.
    destruct (rmem_store_p _ _ _ (S o) R2) as [S3 R3].
    destruct (dig_loop_ok 4 (length pat - S o) (S o) _ _ 0 lf mn1 s1 eq_refl ltac:(lia) ltac:(lia) R3 eq_refl ltac:(left; lia) D1)
      as [m4 [o4 [X4 [R4 [Es4 [Ho4 [Hc4 Hd4]]]]]]].
    change (Z.of_nat 4) with 4 in X4. rewrite ?upd_cons_S, ?upd_cons_0 in R4.
    assert (Hmn1 : 0 <= mn1 <= 129) by (destruct Hc4; lia).
    subst s1. rewrite hd0_at. rewrite tl_skipn. rewrite ?hd0_at.
    pose proof (nthb_lt256 pat o4 H256) as H8. set (c := nthb pat o4) in *.
    (* the part in front of the comma test, for every continuation *)
    assert (Pre : forall rest, exec call lf
         (SSeq (SExpr (EStore (Some I32) (EPtrAdd 1 (ELocal 1) (EConst 4)) (EConst 0)))
           (SSeq (SExpr (EStore (Some I32) (EPtrAdd 1 (ELocal 1) (EConst 5)) (EConst 0)))
             (SSeq (SExpr (EIncMem false None 1 (ELocal 0))) (SSeq (dig_loop 4) rest)))) (mkst lcl m)
         = exec call lf rest (mkst lcl m4)).
    { intro rest. xs. rewrite S1. xs. rewrite S2. xs. rewrite (rmem_load_p _ _ _ R2). xs.
      replace (Z.of_nat o + 1) with (Z.of_nat (S o)) by lia. cbn [fst snd]. rewrite S3. xs. rewrite X4. reflexivity. }
    destruct (c =? 44)%N eqn:E44.
    - assert (c <> 0%N) by (intro Z0; rewrite Z0 in E44; discriminate). pose proof (nz_lt o4 H).
      set (i0 := if (nthb pat (S o4) =? 125)%N then -1 else 0).
      destruct (digits (skipn (S o4) pat) i0) as [mx1 s2] eqn:D2.
      destruct (rmem_store_p _ _ _ (S o4) R4) as [S5 R5].
      assert (Hi0 : exists m6, (forall rest, exec call lf (SSeq (SIf (EBin OEq I32 (ECast I32 (ELoad (Some I8) (EPtrAdd 1 (ELoad None (ELocal 0)) (EConst 0)))) (EConst 125))
                 (SExpr (EStore (Some I32) (EPtrAdd 1 (ELocal 1) (EConst 5)) (EUn ONeg I32 (EConst 1)))) SSkip) rest) (mkst lcl (upd m4 bpp [VPtr bl (Z.of_nat (S o4))]))
                 = exec call lf rest (mkst lcl m6)) /\ rmem m0 b (cells mn1 i0) (S o4) m6).
      { pose proof (nthb_lt256 pat (S o4) H256) as H9. unfold i0.
        destruct (nthb pat (S o4) =? 125)%N eqn:E125.
        - destruct (rmem_store_b _ _ _ 5%nat (VInt (-1)) R5 ltac:(cbn; lia)) as [S6 R6]. change (Z.of_nat 5) with 5 in S6.
          rewrite ?upd_cons_S, ?upd_cons_0 in *. eexists. split; [|exact R6]. intro rest. xs. ld_c R5.
          rewrite (sx_eq_125 _ H9), E125. xs. rewrite S6. xs. reflexivity.
        - exists (upd m4 bpp [VPtr bl (Z.of_nat (S o4))]). split; [|exact R5]. intro rest. xs. ld_c R5.
          rewrite (sx_eq_125 _ H9), E125. xs. reflexivity. }
      destruct Hi0 as [m6 [X6 R6]].
      destruct (dig_loop_ok 5 (length pat - S o4) (S o4) _ _ i0 lf mx1 s2 eq_refl ltac:(lia) ltac:(lia) R6 eq_refl) as [m7 [o7 [X7 [R7 [Es7 [Ho7 [Hc7 Hd7]]]]]]].
      { unfold i0. destruct (nthb pat (S o4) =? 125)%N eqn:E125; [right|left; lia]. apply N.eqb_eq in E125. rewrite E125. reflexivity. }
      { exact D2. }
      change (Z.of_nat 5) with 5 in X7. rewrite ?upd_cons_S, ?upd_cons_0 in R7.
      exists m7, o7. split.
      { intro rest. rewrite Pre. rewrite ra_comma_eq. xs. rewrite (rmem_load_p _ _ _ R4). xs. rewrite (rmem_load_c _ _ _ o4 R4) by lia. xs. fold_sx. fold c.
        rewrite (sx_eq_44 c H8), E44. xs. rewrite (rmem_load_p _ _ _ R4). xs. replace (Z.of_nat o4 + 1) with (Z.of_nat (S o4)) by lia. cbn [fst snd].
        rewrite S5. xcbn. rewrite X6. rewrite X7. reflexivity. }
      split; [exact R7|]. split; [exact Es7|]. split; [lia|]. split; [exact Hmn1|]. unfold i0 in Hc7. destruct (nthb pat (S o4) =? 125)%N; lia.
    - destruct (rmem_store_b _ _ _ 5%nat (VInt mn1) R4 ltac:(cbn; lia)) as [S5 R5]. change (Z.of_nat 5) with 5 in S5.
      rewrite ?upd_cons_S, ?upd_cons_0 in *.
      exists (upd m4 b (cells mn1 mn1)), o4. split.
      { intro rest. rewrite Pre. rewrite ra_comma_eq. xs. rewrite (rmem_load_p _ _ _ R4). xs. rewrite (rmem_load_c _ _ _ o4 R4) by lia. xs. fold_sx. fold c.
        rewrite (sx_eq_44 c H8), E44. xs. rewrite (rmem_load_bz _ _ _ 4 _ R4 eq_refl ltac:(lia)). xs. rewrite !(wrap_I32_id mn1) by lia. rewrite S5. xs. reflexivity. }
      split; [exact R5|]. split; [reflexivity|]. split; [lia|]. split; [exact Hmn1|lia].
  Qed.

  (* the rejection test behind the counts *)
  Lemma ccheck_ok o m mn mx : rmem m0 b (cells mn mx) o m -> (o <= length pat)%nat -> -1 <= mn <= 129 -> -1 <= mx <= 129 ->
    eval call ra_ccheck (mkst lcl m) = Ok (VInt (b2z (brace_bad (@pair (Z * Z) bytes (mn, mx) (skipn o pat)))), mkst lcl m).
  Proof.
    intros R Ho Hmn Hmx. unfold brace_bad, NREPS. rewrite hd0_at. pose proof (nthb_lt256 pat o H256) as H8. set (c := nthb pat o) in *.
    unfold ra_ccheck, ra_check, ra_brace, ra_rep. cbn [fn_body cf_rnode_atom]. xs.
    rewrite (rmem_load_p _ _ _ R). xs. rewrite (rmem_load_c _ _ _ o R Ho). xs. fold_sx. fold c. rewrite (sx_eq_125 c H8).
    destruct (c =? 125)%N; cbn [negb orb b2z]; xs; [|reflexivity].
    rewrite (rmem_load_bz _ _ _ 4 _ R eq_refl ltac:(lia)). xs. rewrite (wrap_I32_id mn) by lia.
    destruct (128 <? mn); cbn [orb b2z]; xs; [reflexivity|].
    rewrite (rmem_load_bz _ _ _ 5 _ R eq_refl ltac:(lia)). xs. rewrite (wrap_I32_id mx) by lia.
    destruct (128 <? mx); cbn [orb b2z]; xs; [reflexivity|].
    rewrite (rmem_load_bz _ _ _ 5 _ R eq_refl ltac:(lia)). xs. rewrite (wrap_I32_id mx) by lia.
    destruct (0 <=? mx); cbn [andb b2z]; xs; [|reflexivity].
    rewrite (rmem_load_bz _ _ _ 5 _ R eq_refl ltac:(lia)). xs. rewrite (wrap_I32_id mx) by lia.
    rewrite (rmem_load_bz _ _ _ 4 _ R eq_refl ltac:(lia)). xs. rewrite (wrap_I32_id mn) by lia.
    destruct (mx <? mn); reflexivity.
  Qed.
End Rep.

(* ------------------------------------------------------------------ the root block of an atom / group node *)
Definition rep_node (t : node) : Prop := match t with NAtom _ _ _ | NGrp _ _ _ _ => True | _ => False end.
Definition node_counts (t : node) : Z * Z := match t with NAtom _ mn mx | NGrp _ _ mn mx => (mn, mx) | _ => (1, 1) end.
Lemma height_set_rep t mn mx : height (set_rep t mn mx) = height t.
Proof. destruct t; reflexivity. Qed.
Lemma tree_root (m : mem) t lo hi p : tree_in m t lo hi p -> rep_node t ->
  exists b c0 c1 c2 c3 c6 c7, p = VPtr b 0 /\ (lo <= b < hi)%nat /\
    nth_error m b = Some [c0; c1; c2; c3; VInt (fst (node_counts t)); VInt (snd (node_counts t)); c6; c7] /\
    forall (m' : mem) mn' mx', i32 mn' -> i32 mx' ->
      (forall i, (lo <= i < hi)%nat -> i <> b -> nth_error m' i = nth_error m i) ->
      nth_error m' b = Some [c0; c1; c2; c3; VInt mn'; VInt mx'; c6; c7] -> tree_in m' (set_rep t mn' mx') lo hi p.
Proof.
  intros H Hr. destruct t as [|a mn mx|x g mn mx|x y|x y]; try destruct Hr; cbn [tree_in node_counts fst snd set_rep] in *.
  - destruct H as [-> [I1 [I2 H]]]. destruct (ra_str a) as [s|] eqn:Es.
    + destruct H as [Hn [Hl [Hs Hd]]]. do 7 eexists. split; [reflexivity|]. split; [lia|]. split; [exact Hn|].
      intros m' mn' mx' J1 J2 F Hb'. split; [reflexivity|]. split; [exact J1|]. split; [exact J2|].
      split; [exact Hb'|]. split; [exact Hl|]. split; [unfold str_at; rewrite F by lia; exact Hs|].
      apply (dead_same m); [exact Hd|]. intros i Hi. apply F; lia.
    + destruct H as [Hn [Hl Hd]]. do 7 eexists. split; [reflexivity|]. split; [lia|]. split; [exact Hn|].
      intros m' mn' mx' J1 J2 F Hb'. split; [reflexivity|]. split; [exact J1|]. split; [exact J2|].
      split; [exact Hb'|]. split; [exact Hl|]. apply (dead_same m); [exact Hd|]. intros i Hi. apply F; lia.
  - destruct H as [b [px [-> [I1 [I2 [I3 [Hx [Hb [Hn Hd]]]]]]]]]. pose proof (tree_in_le _ _ _ _ _ Hx) as Lx.
    do 7 eexists. split; [reflexivity|]. split; [lia|]. split; [exact Hn|].
    intros m' mn' mx' J1 J2 F Hb'. exists b, px. split; [reflexivity|]. split; [exact J1|]. split; [exact J2|]. split; [exact I3|].
    split; [apply (tree_in_same m); [exact Hx|intros i Hi; apply F; lia]|]. split; [exact Hb|]. split; [exact Hb'|].
    apply (dead_same m); [exact Hd|]. intros i Hi. apply F; lia.
Qed.

(* ------------------------------------------------------------------ the parser *)
Fixpoint ngrp (t : node) : nat :=
  match t with
  | NNil | NAtom _ _ _ => 0%nat
  | NGrp x _ _ _ => S (ngrp x)
  | NCat x y | NAlt x y => (ngrp x + ngrp y)%nat
  end.
Lemma ngrp_set_rep t mn mx : ngrp (set_rep t mn mx) = ngrp t.
Proof. destruct t; reflexivity. Qed.

Section Parser.
  Variables (bl : nat) (pat : bytes) (bpp : nat) (fuel : nat).
  Hypothesis Hnn : nonul pat.
  Hypothesis Nlp : bl <> bpp.
  Hypothesis Nlb : bl <> G_re_bad.
  Hypothesis Hgp : (length cglobals <= bpp)%nat.
  Hypothesis Hmax : Z.of_nat (length pat) < 2147483647.
  Hypothesis Hf : (length pat + 2 <= fuel)%nat.
  Hypothesis Hf4 : (4 <= fuel)%nat.

  Definition bad_at (m : mem) (st : bool) : Prop := nth_error m G_re_bad = Some [VInt (b2z st)].
  Definition pmem (m : mem) (o : nat) (st : bool) : Prop := pat_at m bl pat bpp o /\ bad_at m st /\ lits_at m.
  Definition atom_ok (a : atom) : Prop :=
    match ra_str a with Some s => nonul s /\ (length s <= length pat)%nat | None => True end /\ forall sb, a = ABrk sb -> sb <> [].
  Fixpoint atoms_ok (t : node) : Prop :=
    match t with
    | NNil => True
    | NAtom a _ _ => atom_ok a
    | NGrp x _ _ _ => atoms_ok x
    | NCat x y | NAlt x y => atoms_ok x /\ atoms_ok y
    end.
  Lemma atoms_ok_set_rep t mn mx : atoms_ok t -> atoms_ok (set_rep t mn mx).
  Proof. destruct t; exact (fun H => H). Qed.
  (* the blocks below lo, except *pat and the flag, are untouched *)
  Definition below (m m' : mem) (lo : nat) : Prop :=
    forall i, (i < lo)%nat -> i <> bpp -> i <> G_re_bad -> nth_error m' i = nth_error m i.

  Lemma pmem_lt m o st : pmem m o st -> (bl < length m)%nat /\ (bpp < length m)%nat /\ (G_re_bad < length m)%nat.
  Proof. intros [[A [B _]] [C _]]. repeat split; eapply nth_lt; eassumption. Qed.
  Lemma G_bad_ne_bpp : G_re_bad <> bpp.
  Proof. pose proof G_re_bad_lt. lia. Qed.

  (* the repetition suffix behind a fresh atom / group node (counts 1, 1) *)
  Lemma ra_rep_ok (m1 : mem) o1 st1 t lo v d rp s2 :
    pmem m1 o1 st1 -> tree_in m1 t lo (length m1) v -> rep_node t -> node_counts t = (1, 1) ->
    (bl < lo)%nat -> (bpp < lo)%nat -> (G_re_bad < lo)%nat -> (height t <= d)%nat ->
    rep_suffix (skipn o1 pat) = ReSyntax.Ok (rp, s2) ->
    exists v' m' o2, exec (callf cprog fuel d) fuel ra_rep (mkst [VPtr bpp 0; v] m1) = OReturn v' (mkst [VPtr bpp 0; v] m') /\
      s2 = skipn o2 pat /\ (o1 <= o2)%nat /\ length m' = length m1 /\ below m1 m' lo /\
      match rp with
      | Some (mn, mx) => v' = v /\ tree_in m' (set_rep t mn mx) lo (length m1) v /\ pmem m' o2 st1
      | None => v' = VInt 0 /\ dead m' lo (length m1) /\ pmem m' o2 true
      end.
  Proof.
    intros [[Hs1 [Hp1 Ho1]] [Hbad1 Hl1]] Ht Hrn Hc11 Llo Lpo Lgo Hd Hrep.
    destruct (tree_root m1 t lo (length m1) v Ht Hrn) as [b [c0 [c1 [c2 [c3 [c6 [c7 [-> [Hb [Hblk Hset]]]]]]]]]].
    rewrite Hc11 in Hblk. cbn [fst snd] in Hblk.
    assert (N1 : b <> bpp) by lia. assert (N2 : b <> bl) by lia. assert (N3 : b <> G_re_bad) by lia.
    assert (Lb : (b < length m1)%nat) by lia. assert (Lp : (bpp < length m1)%nat) by lia.
    assert (R1 : rmem bl bpp m1 b [c0; c1; c2; c3; VInt 1; VInt 1; c6; c7] o1 m1) by (split; [reflexivity|]; split; [exact Hblk|]; split; [exact Hp1|reflexivity]).
    set (call := callf cprog fuel d).
    rewrite rep_suffix_stages in Hrep.
    pose proof (star_ok bl pat bpp Hnn Nlp m1 b Hs1 N1 N2 Lb Lp call c0 c1 c2 c3 c6 c7 fuel o1 m1 R1 Ho1) as X.
    destruct (rep1 (skipn o1 pat)) as [[mn1 mx1] s1] eqn:E1. destruct X as [m2 [o2 [X2 [R2 [-> Ho2]]]]].
    pose proof (plus_ok bl pat bpp Hnn Nlp m1 b Hs1 N1 N2 Lb Lp call c0 c1 c2 c3 c6 c7 fuel o2 m2 mn1 mx1 R2 ltac:(lia)) as X.
    destruct (rep2 (@pair (Z * Z) bytes (mn1, mx1) (skipn o2 pat))) as [[mn2 mx2] s2'] eqn:E2. destruct X as [m3 [o3 [X3 [R3 [-> Ho3]]]]].
    assert (I2 : -1 <= mn2 <= 1 /\ -1 <= mx2 <= 1).
    { unfold rep1 in E1. unfold rep2 in E2.
      destruct ((hd0 (skipn o1 pat) =? 42)%N || (hd0 (skipn o1 pat) =? 63)%N); injection E1 as <- <- _;
        destruct (hd0 (skipn o2 pat) =? 43)%N; injection E2 as <- <- _; try destruct (hd0 (skipn o1 pat) =? 42)%N; lia. }
    try rewrite E2 in Hrep. unfold rep3 in Hrep. rewrite hd0_skipn in Hrep.
    pose proof (nthb_lt256 pat o3 (nonul_lt256 pat Hnn)) as H8. set (c := nthb pat o3) in *.
    (* a memory with the final counts in the node is the tree with those counts *)
    assert (Tree : forall (m' : mem) mn mx o', rmem bl bpp m1 b [c0; c1; c2; c3; VInt mn; VInt mx; c6; c7] o' m' -> i32 mn -> i32 mx -> (o' <= length pat)%nat ->
      tree_in m' (set_rep t mn mx) lo (length m1) (VPtr b 0) /\ pmem m' o' st1 /\ length m' = length m1 /\ below m1 m' lo).
    { intros m' mn mx o' [L' [Hb' [Hp' F']]] J1 J2 Ho'. split; [|split; [|split]].
      - apply Hset; [exact J1|exact J2| |exact Hb']. intros i Hi Hne. apply F'; [exact Hne|lia].
      - split; [split; [unfold str_at; rewrite F' by congruence; exact Hs1|split; [exact Hp'|exact Ho']]|].
        split; [unfold bad_at; rewrite F' by (try congruence; apply G_bad_ne_bpp); exact Hbad1|].
        destruct Hl1 as [A B]. pose proof G_meta_lt. pose proof G_rep_lt. split; rewrite F' by lia; assumption.
      - exact L'.
      - intros i Hi Q1 Q2. apply F'; [lia|exact Q1]. }
    rewrite ra_rep_eq. rewrite exec_seq, X2, exec_seq, X3, exec_seq, exec_if.
    assert (Ec : eval call ra_bcond (mkst [VPtr bpp 0; VPtr b 0] m3) = Ok (VInt (b2z (c =? 123)%N), mkst [VPtr bpp 0; VPtr b 0] m3)).
    { unfold ra_bcond, ra_rep. cbn [fn_body cf_rnode_atom]. xs. rewrite (rmem_load_p bl pat bpp Nlp m1 b N1 N2 Lb Lp _ _ _ R3). xs. rewrite ?Z.add_0_r.
      replace (Z.of_nat o3 + 1 * 0) with (Z.of_nat o3) by lia.
      rewrite (rmem_load_c bl pat bpp Nlp m1 b Hs1 N2 _ _ _ o3 R3) by lia. xs. fold_sx. fold c. rewrite (sx_eq_123 c H8). reflexivity. }
    rewrite Ec. rewrite truth_b2z.
    destruct (c =? 123)%N eqn:E123.
    2:{ (* no brace: return rnode *)
      injection Hrep as <- <-. rewrite exec_skip. unfold ra_ret, ra_rep. cbn [fn_body cf_rnode_atom]. xs.
      destruct (Tree m3 mn2 mx2 o3 R3 ltac:(unfold i32; lia) ltac:(unfold i32; lia) ltac:(lia)) as [T1 [T2 [T3 T4]]].
      exists (VPtr b 0), m3, o3. split; [reflexivity|]. split; [reflexivity|]. split; [lia|]. split; [exact T3|]. split; [exact T4|].
      split; [reflexivity|]. split; [exact T1|exact T2]. }
    apply N.eqb_eq in E123.
    pose proof (brace_pre_ok bl pat bpp Hnn Nlp m1 b Hs1 N1 N2 Lb Lp call c0 c1 c2 c3 c6 c7 fuel o3 m3 mn2 mx2 R3 E123 ltac:(lia)) as X.
    destruct (brace_counts (tl (skipn o3 pat))) as [[mn4 mx4] s4] eqn:E4. destruct X as [m4 [o4 [X4 [R4 [-> [Ho4 [J1 J2]]]]]]].
    cbn [fst snd] in Hrep.
    rewrite ra_brace_eq, X4, ra_check_eq, exec_seq, exec_if.
    rewrite (ccheck_ok bl pat bpp Hnn Nlp m1 b Hs1 N1 N2 Lb Lp call c0 c1 c2 c3 c6 c7 o4 m4 mn4 mx4 R4 ltac:(lia) ltac:(lia) J2).
    rewrite truth_b2z.
    destruct (Tree m4 mn4 mx4 o4 R4 ltac:(unfold i32; lia) ltac:(unfold i32; lia) ltac:(lia)) as [T1 [T2 [T3 T4]]].
    destruct (brace_bad (@pair (Z * Z) bytes (mn4, mx4) (skipn o4 pat))) eqn:Ebad; injection Hrep as <- <-.
    - (* a bad count: rnode_free, re_bad = 1, return NULL *)
      assert (Hne : set_rep t mn4 mx4 <> NNil) by (destruct t; try destruct Hrn; discriminate).
      destruct (tr_rnode_free fuel (set_rep t mn4 mx4) m4 lo (length m1) (VPtr b 0) d T1 Hne ltac:(rewrite height_set_rep; exact Hd))
        as [m5 [C5 [D5 [L5 F5]]]].
      destruct T2 as [[Hs4 [Hp4 _]] [Hbad4 Hl4]].
      assert (Hbad5 : nth_error m5 G_re_bad = Some [VInt (b2z st1)]) by (rewrite F5 by lia; exact Hbad4).
      unfold ra_fail, ra_check, ra_brace, ra_rep. cbn [fn_body cf_rnode_atom]. xs. fold call. unfold call at 1. rewrite C5. xs.
      xst Hbad5. xs.
      exists (VInt 0), (upd m5 G_re_bad [VInt 1]), o4. split; [reflexivity|]. split; [reflexivity|]. split; [lia|].
      split; [rewrite upd_length by lia; lia|]. split.
      { intros i Hi Q1 Q2. rewrite mem_upd_other by (try lia; exact Q2). rewrite F5 by lia. apply T4; assumption. }
      split; [reflexivity|]. split.
      { intros i Hi. rewrite mem_upd_other by lia. apply D5. exact Hi. }
      pose proof G_meta_lt. pose proof G_rep_lt. pose proof G_re_bad_lt. pose proof G_bad_ne_bpp.
      split; [split; [unfold str_at; rewrite mem_upd_other by (try lia; congruence); rewrite F5 by lia; exact Hs4|]|].
      { split; [rewrite mem_upd_other by (try lia; congruence); rewrite F5 by lia; exact Hp4|lia]. }
      split; [unfold bad_at; apply mem_upd_same; lia|].
      destruct Hl4 as [A B]. assert (G_meta <> G_re_bad) by (vm_compute; discriminate). assert (G_rep <> G_re_bad) by (vm_compute; discriminate).
      split; rewrite mem_upd_other by (try lia; assumption); rewrite F5 by lia; assumption.
    - (* accepted: step over the closing brace, return rnode *)
      assert (Hc4 : nthb pat o4 = 125%N).
      { unfold brace_bad in Ebad. rewrite hd0_skipn in Ebad. destruct (nthb pat o4 =? 125)%N eqn:E; [apply N.eqb_eq; exact E|discriminate Ebad]. }
      assert (Ho4' : (o4 < length pat)%nat) by (apply nthb_nz_lt; rewrite Hc4; discriminate).
      rewrite exec_skip. unfold ra_inc, ra_check, ra_brace, ra_rep. cbn [fn_body cf_rnode_atom]. xs.
      rewrite (rmem_load_p bl pat bpp Nlp m1 b N1 N2 Lb Lp _ _ _ R4). xs. cbn [fst snd].
      destruct (rmem_store_p bl pat bpp Nlp m1 b N1 N2 Lb Lp _ _ _ (S o4) R4) as [S5 R5]. replace (Z.of_nat o4 + 1) with (Z.of_nat (S o4)) by lia. rewrite S5. xs.
      unfold ra_ret, ra_rep. cbn [fn_body cf_rnode_atom]. xs.
      destruct (Tree _ mn4 mx4 (S o4) R5 ltac:(unfold i32; lia) ltac:(unfold i32; lia) ltac:(lia)) as [U1 [U2 [U3 U4]]].
      exists (VPtr b 0). eexists. exists (S o4). split; [reflexivity|]. split; [apply tl_skipn|]. split; [lia|]. split; [exact U3|]. split; [exact U4|].
      split; [reflexivity|]. split; [exact U1|exact U2].
  Qed.

  (* ---- the state of the parser between two calls *)
  Definition rem (o : nat) : nat := (length pat - o)%nat.
  Definition ppost (m : mem) (o : nat) (r : option node) (s' : bytes) (st' : bool) (v : val) (m' : mem) : Prop :=
    exists o', s' = skipn o' pat /\ (o <= o')%nat /\ pmem m' o' st' /\ below m m' (length m) /\ (length m <= length m')%nat /\
      tree_in m' (of_opt r) (length m) (length m') v /\ (match r with Some t => t <> NNil | None => True end) /\
      atoms_ok (of_opt r) /\ (height (of_opt r) <= o' - o)%nat /\ (ngrp (of_opt r) <= o' - o)%nat.
  Definition fspec (P : bytes -> bool -> stres (option node * bytes)) (F K : nat) : Prop :=
    forall m o st d r s' st', pmem m o st -> (4 * rem o + K <= d)%nat -> P (skipn o pat) st = ReSyntax.Ok ((r, s'), st') ->
      exists v m', callf cprog fuel d F [VPtr bpp 0] m = Ok (v, m') /\ ppost m o r s' st' v m'.

  Lemma pm_load_p m o st : pmem m o st -> load m bpp 0 = Ok (VPtr bl (Z.of_nat o)).
  Proof. intros [[_ [Hp _]] _]. exact (load_cell m bpp _ 0 _ Hp eq_refl ltac:(lia)). Qed.
  Lemma pm_load_c m o st k : pmem m o st -> (k <= length pat)%nat -> load m bl (Z.of_nat k) = Ok (VInt (Z.of_N (nthb pat k))).
  Proof. intros [[Hs _] _] Hk. exact (load_str m bl pat _ k Hs eq_refl Hk). Qed.
  Lemma pm_le m o st : pmem m o st -> (o <= length pat)%nat.
  Proof. intros [[_ [_ H]] _]. exact H. Qed.
  (* a store into *pat or into the flag *)
  Lemma pm_upd_p m o st o' : pmem m o st -> (o' <= length pat)%nat -> pmem (upd m bpp [VPtr bl (Z.of_nat o')]) o' st.
  Proof.
    intros Hm Ho'. destruct (pmem_lt _ _ _ Hm) as [L1 [L2 L3]]. destruct Hm as [[Hs [Hp Ho]] [Hb Hl]]. pose proof G_bad_ne_bpp.
    split; [split; [unfold str_at; rewrite mem_upd_other by (try lia; congruence); exact Hs|split; [apply mem_upd_same; lia|exact Ho']]|].
    split; [unfold bad_at; rewrite mem_upd_other by (try lia; congruence); exact Hb|]. apply lits_at_upd; assumption.
  Qed.
  Lemma pm_store_p m o st o' : pmem m o st -> store m bpp 0 (VPtr bl (Z.of_nat o')) = Ok (upd m bpp [VPtr bl (Z.of_nat o')]).
  Proof. intros [[_ [Hp _]] _]. rewrite (store_ok m bpp _ _ _ Hp) by (cbn [length]; lia). reflexivity. Qed.
  Lemma pm_upd_bad m o st : pmem m o st -> pmem (upd m G_re_bad [VInt 1]) o true.
  Proof.
    intros Hm. destruct (pmem_lt _ _ _ Hm) as [L1 [L2 L3]]. destruct Hm as [[Hs [Hp Ho]] [Hb [A B]]]. pose proof G_bad_ne_bpp.
    assert (G_meta <> G_re_bad) by (vm_compute; discriminate). assert (G_rep <> G_re_bad) by (vm_compute; discriminate).
    split; [split; [unfold str_at; rewrite mem_upd_other by (try lia; congruence); exact Hs|split; [rewrite mem_upd_other by (try lia; congruence); exact Hp|exact Ho]]|].
    split; [unfold bad_at; apply mem_upd_same; lia|]. split; rewrite mem_upd_other by (try lia; assumption); assumption.
  Qed.
  Lemma pm_store_bad m o st : pmem m o st -> store m G_re_bad 0 (VInt 1) = Ok (upd m G_re_bad [VInt 1]).
  Proof. intros [_ [Hb _]]. rewrite (store_ok m G_re_bad _ _ _ Hb) by (cbn [length]; lia). reflexivity. Qed.

  Lemma below_refl m lo : below m m lo.
  Proof. intros i _ _ _. reflexivity. Qed.
  Lemma below_trans m1 m2 m3 lo lo' : below m1 m2 lo -> below m2 m3 lo' -> (lo <= lo')%nat -> below m1 m3 lo.
  Proof. intros A B L i Hi Q1 Q2. rewrite B by (try lia; assumption). apply A; assumption. Qed.
  Lemma below_upd_p (m : mem) lo blk : (bpp < length m)%nat -> below m (upd m bpp blk) lo.
  Proof. intros L i Hi Q1 Q2. apply mem_upd_other; [exact L|exact Q1]. Qed.
  Lemma below_upd_bad (m : mem) lo blk : (G_re_bad < length m)%nat -> below m (upd m G_re_bad blk) lo.
  Proof. intros L i Hi Q1 Q2. apply mem_upd_other; [exact L|exact Q2]. Qed.
  Lemma below_app (m : mem) lo x : (lo <= length m)%nat -> below m (m ++ [x]) lo.
  Proof. intros L i Hi Q1 Q2. apply nth_error_app_old. lia. Qed.

  Lemma tree_in_ptr (m : mem) t lo hi v : tree_in m t lo hi v -> t <> NNil -> exists b, v = VPtr b 0.
  Proof.
    destruct t; cbn [tree_in]; intros H Hne; [congruence| | | |].
    - destruct H as [-> _]. eexists; reflexivity.
    - destruct H as [b [px [-> _]]]. eexists; reflexivity.
    - destruct H as [k [b [px [py [-> _]]]]]. eexists; reflexivity.
    - destruct H as [k [b [px [py [-> _]]]]]. eexists; reflexivity.
  Qed.
  Lemma tree_upd_low (m : mem) t lo hi v i blk : tree_in m t lo hi v -> (i < lo)%nat -> (i < length m)%nat -> tree_in (upd m i blk) t lo hi v.
  Proof. intros H Hi Hl. apply (tree_in_same m); [exact H|]. intros j Hj. apply mem_upd_other; [exact Hl|lia]. Qed.
  Lemma tree_app (m : mem) t lo hi v x : tree_in m t lo hi v -> (hi <= length m)%nat -> tree_in (m ++ [x]) t lo hi v.
  Proof. intros H Hl. apply (tree_in_same m); [exact H|]. intros j Hj. apply nth_error_app_old. lia. Qed.
  Lemma dead_upd_low (m : mem) lo hi i blk : dead m lo hi -> (i < lo)%nat -> (i < length m)%nat -> dead (upd m i blk) lo hi.
  Proof. intros H Hi Hl. apply (dead_same m); [exact H|]. intros j Hj. apply mem_upd_other; [exact Hl|lia]. Qed.

  Lemma ppost_none m o st : pmem m o st -> ppost m o None (skipn o pat) st (VInt 0) m.
  Proof.
    intro Hm. exists o. split; [reflexivity|]. split; [lia|]. split; [exact Hm|]. split; [apply below_refl|]. split; [lia|].
    cbn [of_opt tree_in atoms_ok height ngrp]. split; [split; [reflexivity|split; [lia|apply dead_empty; lia]]|]. repeat split; lia.
  Qed.

  (* ---- rnode_grp *)
  Lemma grp_ok P : fspec P F_rnode_parse 8 -> fspec (rnode_grp_st P) F_rnode_grp 5.
  Proof.
    intros IHP m o st d r s' st' Hm Hd Hr.
    destruct (pmem_lt _ _ _ Hm) as [L1 [L2 L3]]. pose proof (pm_le _ _ _ Hm) as Ho. pose proof (nonul_lt256 pat Hnn) as H256.
    destruct d as [|d]; [lia|]. destruct d as [|d]; [lia|]. unfold rnode_grp_st in Hr. rewrite hd0_skipn in Hr.
    pose proof (nthb_lt256 pat o H256) as H8. set (c := nthb pat o) in *.
    enter F_rnode_grp cf_rnode_grp.
    match goal with |- context [SSeq (SIf _ (SSeq (SExpr (ESetLocal 1 (ECall F_rnode_parse _))) _) SSkip) ?tl] => remember tl as tail eqn:Etail end.
    xs. rewrite (pm_load_p _ _ _ Hm). xs. replace (Z.of_nat o + 1 * 0) with (Z.of_nat o) by lia.
    rewrite (pm_load_c _ _ _ o Hm Ho). xs. fold_sx. fold c. rewrite (sx_eq_40 c H8).
    destruct (c =? 40)%N eqn:E40; cbn [negb] in Hr; xs.
    2:{ injection Hr as <- <- <-. exists (VInt 0), m. split; [reflexivity|]. apply ppost_none. exact Hm. }
    assert (Hlt : (o < length pat)%nat) by (apply nthb_nz_lt; fold c; intro Z0; rewrite Z0 in E40; discriminate).
    rewrite tl_skipn in Hr. rewrite hd0_skipn in Hr.
    rewrite (pm_load_p _ _ _ Hm). xs. cbn [fst snd]. replace (Z.of_nat o + 1) with (Z.of_nat (S o)) by lia.
    rewrite (pm_store_p _ _ _ (S o) Hm). xs.
    set (ma := upd m bpp [VPtr bl (Z.of_nat (S o))]).
    assert (Hma : pmem ma (S o) st) by (apply (pm_upd_p m o); [exact Hm|lia]).
    assert (Lma : length ma = length m) by (unfold ma; apply upd_length; exact L2).
    assert (Bma : below m ma (length m)) by (apply below_upd_p; exact L2).
    rewrite (pm_load_p _ _ _ Hma). xs. replace (Z.of_nat (S o) + 1 * 0) with (Z.of_nat (S o)) by lia.
    rewrite (pm_load_c _ _ _ (S o) Hma) by lia. xs. fold_sx.
    pose proof (nthb_lt256 pat (S o) H256) as H9. set (c1 := nthb pat (S o)) in *. rewrite (sx_eq_41 c1 H9).
    assert (Hrem : (rem (S o) + 1 = rem o)%nat) by (unfold rem; lia).
    (* the tail: the test for the closing parenthesis, the step over it, rnode_make *)
    assert (Close : forall (m1 : mem) o1 st1 x v1, pmem m1 o1 st1 -> (S o <= o1)%nat -> below m m1 (length m) -> (length m <= length m1)%nat ->
      tree_in m1 x (length m) (length m1) v1 -> atoms_ok x -> (height x <= o1 - S o)%nat -> (ngrp x <= o1 - S o)%nat ->
      (x = NNil \/ (height x <= S d)%nat) ->
      (if negb (nthb pat o1 =? 41)%N then ReSyntax.Ok ((None, skipn o1 pat), true) else ReSyntax.Ok ((Some (NGrp x 0 1 1), tl (skipn o1 pat)), st1))
        = ReSyntax.Ok ((r, s'), st') ->
      (x = NNil -> nthb pat o1 = 41%N) ->
      exists v m',
        match exec (callf cprog fuel (S d)) fuel
          (SSeq (SIf (EBin ONe I32 (ECast I32 (ELoad (Some I8) (EPtrAdd 1 (ELoad None (ELocal 0)) (EConst 0)))) (EConst 41))
                     (SSeq (SExpr (ECall F_rnode_free [(ELocal 1)])) (SSeq (SExpr (EStore (Some I32) (EGlob G_re_bad) (EConst 1))) (SReturn (Some (EConst 0))))) SSkip)
                (SSeq (SExpr (EIncMem false None 1 (ELocal 0))) (SReturn (Some (ECall F_rnode_make [(EConst 40); (ELocal 1); (EConst 0)])))))
          (mkst [VPtr bpp 0; v1] m1) with
        | OReturn v st => Ok (v, memm st) | ONormal st => Ok (VUndef, memm st) | OErr x => Err x | _ => Err EShape end = Ok (v, m') /\
        ppost m o r s' st' v m').
    { intros m1 o1 st1 x v1 Hm1 Ho1 B1 Ll1 Tx Ax Hx Gx Hfree Hres Hnil.
      destruct (pmem_lt _ _ _ Hm1) as [M1 [M2 M3]]. pose proof (pm_le _ _ _ Hm1) as Ho1'.
      pose proof (nthb_lt256 pat o1 H256) as H10. set (c2 := nthb pat o1) in *.
      pose proof (tree_in_ptr0 _ _ _ _ _ Tx) as Pv.
      assert (Gl : forall st0, get_local (mkst [VPtr bpp 0; v1] st0) 1 = Ok v1).
      { intro st0. destruct v1 as [|z|bb oo]; [destruct Pv|reflexivity|reflexivity]. }
      xs. rewrite (pm_load_p _ _ _ Hm1). xs. replace (Z.of_nat o1 + 1 * 0) with (Z.of_nat o1) by lia.
      rewrite (pm_load_c _ _ _ o1 Hm1 Ho1'). xs. fold_sx. fold c2. rewrite (sx_eq_41 c2 H10).
      destruct (c2 =? 41)%N eqn:E41; cbn [negb] in Hres; xs.
      - (* closed: ++*pat; return rnode_make(RN_GRP, rnode, NULL) *)
        injection Hres as <- <- <-.
        assert (Hlt1 : (o1 < length pat)%nat) by (apply nthb_nz_lt; fold c2; intro Z0; rewrite Z0 in E41; discriminate).
        rewrite (pm_load_p _ _ _ Hm1). xs. cbn [fst snd]. replace (Z.of_nat o1 + 1) with (Z.of_nat (S o1)) by lia.
        rewrite (pm_store_p _ _ _ (S o1) Hm1). xs.
        set (mb := upd m1 bpp [VPtr bl (Z.of_nat (S o1))]).
        assert (Hmb : pmem mb (S o1) st1) by (apply (pm_upd_p m1 o1); [exact Hm1|lia]).
        assert (Lmb : length mb = length m1) by (unfold mb; apply upd_length; exact M2).
        change (match v1 with VUndef => Err EUndef | _ => Ok v1 end) with (get_local (mkst [VPtr bpp 0; v1] mb) 1). rewrite Gl. xs.
        rewrite (tr_rnode_make mb 40 v1 (VInt 0) _ fuel) by (try exact Pv; try exact I; unfold i32; lia). xs.
        eexists. eexists. split; [reflexivity|]. cbn [memm].
        exists (S o1). split; [apply tl_skipn|]. split; [lia|].
        destruct (pmem_lt _ _ _ Hmb) as [Q1 [Q2 Q3]].
        split.
        { destruct Hmb as [[A1 [A2 A3]] [A4 A5]]. pose proof G_meta_lt. pose proof G_rep_lt.
          split; [split; [unfold str_at; rewrite nth_error_app_old by lia; exact A1|split; [rewrite nth_error_app_old by lia; exact A2|exact A3]]|].
          split; [unfold bad_at; rewrite nth_error_app_old by lia; exact A4|]. destruct A5 as [A5 A6]. split; rewrite nth_error_app_old by lia; assumption. }
        split.
        { apply (below_trans m m1 _ (length m) (length m)); [exact B1| |lia].
          apply (below_trans m1 mb _ (length m) (length m)); [unfold mb; apply below_upd_p; exact M2|apply below_app; lia|lia]. }
        split; [rewrite app_length; cbn [length]; lia|].
        cbn [of_opt tree_in atoms_ok height ngrp]. rewrite app_length. cbn [length]. rewrite Lmb.
        split.
        { exists (length m1), v1. split; [reflexivity|]. split; [unfold i32; lia|]. split; [unfold i32; lia|]. split; [cbn; lia|].
          split; [apply tree_app; [unfold mb; apply tree_upd_low; [exact Tx|lia|exact M2]|lia]|]. split; [lia|].
          split; [rewrite <- Lmb; apply nth_error_app_new|]. apply dead_empty. lia. }
        split; [discriminate|]. split; [exact Ax|]. split; lia.
      - (* not closed *)
        injection Hres as <- <- <-.
        assert (Hne : x <> NNil) by (intro E; specialize (Hnil E); fold c2 in Hnil; rewrite Hnil in E41; discriminate).
        destruct Hfree as [Hfree|Hfree]; [congruence|].
        destruct (tr_rnode_free fuel x m1 (length m) (length m1) v1 (S d) Tx Hne Hfree) as [m2 [C2 [D2 [Ll2 F2]]]].
        change (match v1 with VUndef => Err EUndef | _ => Ok v1 end) with (get_local (mkst [VPtr bpp 0; v1] m1) 1). rewrite Gl. xs.
        rewrite C2. xs.
        assert (Hm2 : pmem m2 o1 st1).
        { destruct Hm1 as [[A1 [A2 A3]] [A4 [A5 A6]]]. pose proof G_meta_lt. pose proof G_rep_lt.
          split; [split; [unfold str_at; rewrite F2 by lia; exact A1|split; [rewrite F2 by lia; exact A2|exact A3]]|].
          split; [unfold bad_at; rewrite F2 by lia; exact A4|]. split; rewrite F2 by lia; assumption. }
        rewrite (pm_store_bad _ _ _ Hm2). xs.
        eexists. eexists. split; [reflexivity|]. cbn [memm].
        exists o1. split; [reflexivity|]. split; [lia|]. split; [exact (pm_upd_bad _ _ _ Hm2)|].
        split.
        { apply (below_trans m m1 _ (length m) (length m)); [exact B1| |lia].
          apply (below_trans m1 m2 _ (length m) (length m)); [intros i Hi _ _; apply F2; lia|apply below_upd_bad; lia|lia]. }
        rewrite upd_length by lia. split; [lia|]. cbn [of_opt tree_in atoms_ok height ngrp].
        split; [split; [reflexivity|split; [lia|rewrite Ll2; apply dead_upd_low; [exact D2|lia|lia]]]|]. repeat split; lia. }
    destruct (c1 =? 41)%N eqn:E41; cbn [negb] in Hr; xs.
    - (* "()" *)
      subst tail. apply (Close ma (S o) st NNil (VInt 0) Hma ltac:(lia) Bma ltac:(lia)).
      + cbn [tree_in]. split; [reflexivity|]. split; [lia|apply dead_empty; lia].
      + exact I.
      + cbn; lia.
      + cbn; lia.
      + left; reflexivity.
      + fold c1. rewrite E41. cbn [negb]. exact Hr.
      + intros _. apply N.eqb_eq. exact E41.
    - (* a group with something inside: rnode_parse *)
      destruct (P (skipn (S o) pat) st) as [[[r1 s1] st1]| |] eqn:EP; try discriminate Hr. cbn [ReSyntax.bind] in Hr.
      destruct (IHP ma (S o) st (S d) r1 s1 st1 Hma ltac:(lia) EP) as [v1 [m1 [C1 [o1 [-> [Ho1 [Hm1 [B1 [Ll1 [T1 [Ne1 [A1 [Hh1 Hg1]]]]]]]]]]]]].
      rewrite C1. xs. rewrite Lma in *.
      destruct r1 as [x|]; cbn [of_opt] in *.
      + destruct (tree_in_ptr _ _ _ _ _ T1 Ne1) as [b1 ->]. xs.
        rewrite hd0_skipn in Hr. subst tail.
        apply (Close m1 o1 st1 x (VPtr b1 0) Hm1 Ho1); try assumption.
        * apply (below_trans m ma m1 (length m) (length m)); [exact Bma|exact B1|lia].
        * right. pose proof (pm_le _ _ _ Hm1). unfold rem in Hd. lia.
        * intro E. congruence.
      + (* nothing inside the group: re_bad = 1; return NULL *)
        cbn [tree_in] in T1. destruct T1 as [-> [_ D1]]. xs. injection Hr as <- <- <-.
        rewrite (pm_store_bad _ _ _ Hm1). xs. destruct (pmem_lt _ _ _ Hm1) as [M1 [M2 M3]].
        eexists. eexists. split; [reflexivity|]. cbn [memm].
        exists o1. split; [reflexivity|]. split; [lia|]. split; [exact (pm_upd_bad _ _ _ Hm1)|].
        split.
        { apply (below_trans m ma _ (length m) (length m)); [exact Bma| |lia].
          apply (below_trans ma m1 _ (length m) (length m)); [exact B1|apply below_upd_bad; lia|lia]. }
        rewrite upd_length by lia. split; [lia|]. cbn [of_opt tree_in atoms_ok height ngrp].
        split; [split; [reflexivity|split; [lia|apply dead_upd_low; [exact D1|lia|lia]]]|]. repeat split; lia.
  Qed.

  (* ---- rnode_atom *)
  Lemma grp_shape P s st n s1 st1 : rnode_grp_st P s st = ReSyntax.Ok ((Some n, s1), st1) -> exists x, n = NGrp x 0 1 1.
  Proof.
    unfold rnode_grp_st. destruct (negb (hd0 s =? 40)%N); [discriminate|]. destruct (negb (hd0 (tl s) =? 41)%N).
    - destruct (P (tl s) st) as [[[[x|] s2] st2]| |]; cbn [ReSyntax.bind]; try discriminate.
      destruct (negb (hd0 s2 =? 41)%N); [discriminate|]. intro H. injection H as <- _ _. eexists; reflexivity.
    - intro H. injection H as <- _ _. eexists; reflexivity.
  Qed.
  Lemma cc_z0' : forall c, (c < 256)%N -> (wrap I8 (Z.of_N c) =? 0) = (c =? 0)%N.
  Proof. exact cc_z0. Qed.

  Lemma ratom_ok P : fspec P F_rnode_parse 8 -> fspec (rnode_atom_st P) F_rnode_atom 6.
  Proof.
    intros IHP m o st d r s' st' Hm Hd Hr.
    destruct (pmem_lt _ _ _ Hm) as [L1 [L2 L3]]. pose proof (pm_le _ _ _ Hm) as Ho. pose proof (nonul_lt256 pat Hnn) as H256.
    do 4 (destruct d as [|d]; [lia|]). unfold rnode_atom_st in Hr. rewrite !hd0_skipn in Hr.
    pose proof (nthb_lt256 pat o H256) as H8. set (c := nthb pat o) in *.
    enter F_rnode_atom cf_rnode_atom.
    match goal with |- context [SSeq (SIf (ELNot (ELocal 1)) ?r0 SSkip) ?tl] =>
      change tl with ra_rep; remember (SSeq (SIf (ELNot (ELocal 1)) r0 SSkip) ra_rep) as tl2 eqn:Etl2 end.
    xs. rewrite (pm_load_p _ _ _ Hm). xs. rewrite (pm_load_c _ _ _ o Hm Ho). xs. fold c. rewrite (cc_z0' c H8).
    destruct (c =? 0)%N eqn:E0; cbn [orb negb b2z] in *; xs.
    { injection Hr as <- <- <-. exists (VInt 0), m. split; [reflexivity|]. apply ppost_none. exact Hm. }
    assert (Hlt : (o < length pat)%nat) by (apply nthb_nz_lt; fold c; intro Z0; rewrite Z0 in E0; discriminate).
    rewrite (pm_load_p _ _ _ Hm). xs. replace (Z.of_nat o + 1 * 0) with (Z.of_nat o) by lia.
    rewrite (pm_load_c _ _ _ o Hm Ho). xs. fold_sx. fold c. rewrite (sx_eq_124 c H8).
    destruct (c =? 124)%N eqn:E124; cbn [orb] in *; xs.
    { injection Hr as <- <- <-. exists (VInt 0), m. split; [reflexivity|]. apply ppost_none. exact Hm. }
    rewrite (pm_load_p _ _ _ Hm). xs. replace (Z.of_nat o + 1 * 0) with (Z.of_nat o) by lia.
    rewrite (pm_load_c _ _ _ o Hm Ho). xs. fold_sx. fold c. rewrite (sx_eq_41 c H8).
    destruct (c =? 41)%N eqn:E41; cbn [orb] in *; xs.
    { injection Hr as <- <- <-. exists (VInt 0), m. split; [reflexivity|]. apply ppost_none. exact Hm. }
    rewrite (pm_load_p _ _ _ Hm). xs. replace (Z.of_nat o + 1 * 0) with (Z.of_nat o) by lia.
    rewrite (pm_load_c _ _ _ o Hm Ho). xs. fold_sx. fold c. rewrite (sx_eq_40 c H8).
    (* once the node exists: the NULL test and the repetition suffix *)
    assert (Rep : forall (m1 : mem) o1 st1 n v1, pmem m1 o1 st1 -> (o < o1)%nat -> below m m1 (length m) -> (length m <= length m1)%nat ->
      tree_in m1 n (length m) (length m1) v1 -> rep_node n -> node_counts n = (1, 1) -> atoms_ok n ->
      (height n <= o1 - o)%nat -> (ngrp n <= o1 - o)%nat ->
      (ReSyntax.bind (rep_suffix (skipn o1 pat)) (fun rp => match rp with
         | (None, s2) => ReSyntax.Ok ((None, s2), true)
         | (Some (mn, mx), s2) => ReSyntax.Ok ((Some (set_rep n mn mx), s2), st1) end)) = ReSyntax.Ok ((r, s'), st') ->
      exists v m',
        match exec (callf cprog fuel (S (S (S d)))) fuel tl2 (mkst [VPtr bpp 0; v1] m1) with
        | OReturn v st => Ok (v, memm st) | ONormal st => Ok (VUndef, memm st) | OErr x => Err x | _ => Err EShape end = Ok (v, m') /\
        ppost m o r s' st' v m').
    { intros m1 o1 st1 n v1 Hm1 Ho1 B1 Ll1 Tn Hrn Hc11 An Hh Hg Hres.
      assert (Nn : n <> NNil) by (destruct n; try destruct Hrn; discriminate).
      destruct (tree_in_ptr _ _ _ _ _ Tn Nn) as [b1 ->]. subst tl2. rewrite exec_seq, exec_if. xcbn. cbn [b2z negb Z.eqb]. rewrite exec_skip.
      destruct (rep_suffix (skipn o1 pat)) as [[rp s2]| |] eqn:Erp; try discriminate Hres. cbn [ReSyntax.bind] in Hres.
      pose proof (pm_le _ _ _ Hm1) as Ho1'.
      destruct (ra_rep_ok m1 o1 st1 n (length m) (VPtr b1 0) (S (S (S d))) rp s2 Hm1 Tn Hrn Hc11 L1 L2 L3 ltac:(unfold rem in Hd; lia) Erp)
        as [v' [m' [o2 [X [-> [Ho2 [Ll' [B' Hcase]]]]]]]].
      rewrite X. exists v', m'. split; [reflexivity|].
      destruct rp as [[mn mx]|]; injection Hres as <- <- <-.
      - destruct Hcase as [-> [T' Hm']]. exists o2. split; [reflexivity|]. split; [lia|]. split; [exact Hm'|].
        split; [apply (below_trans m m1 m' (length m) (length m)); [exact B1|exact B'|lia]|]. split; [lia|]. rewrite Ll'.
        cbn [of_opt]. split; [exact T'|]. split; [destruct n; try destruct Hrn; discriminate|]. split; [apply atoms_ok_set_rep; exact An|].
        rewrite height_set_rep, ngrp_set_rep. split; lia.
      - destruct Hcase as [-> [D' Hm']]. exists o2. split; [reflexivity|]. split; [lia|]. split; [exact Hm'|].
        split; [apply (below_trans m m1 m' (length m) (length m)); [exact B1|exact B'|lia]|]. split; [lia|]. rewrite Ll'.
        cbn [of_opt tree_in atoms_ok height ngrp]. split; [split; [reflexivity|split; [lia|exact D']]|]. repeat split; lia. }
    destruct (c =? 40)%N eqn:E40; xs.
    - (* a group *)
      destruct (rnode_grp_st P (skipn o pat) st) as [[[rg s1] st1]| |] eqn:Eg; try discriminate Hr. cbn [ReSyntax.bind] in Hr.
      destruct (grp_ok P IHP m o st (S (S (S d))) rg s1 st1 Hm ltac:(lia) Eg) as [v1 [m1 [C1 [o1 [-> [Ho1 [Hm1 [B1 [Ll1 [T1 [Ne1 [A1 [Hh1 Hg1]]]]]]]]]]]]].
      rewrite C1. xs.
      destruct rg as [n|]; cbn [of_opt] in *.
      + destruct (grp_shape _ _ _ _ _ _ Eg) as [x ->].
        assert (o < o1)%nat by (cbn [height] in Hh1; lia).
        apply (Rep m1 o1 st1 (NGrp x 0 1 1) v1 Hm1); try assumption; try exact I; try reflexivity.
      + injection Hr as <- <- <-. cbn [tree_in] in T1. destruct T1 as [-> [_ D1]]. subst tl2. rewrite exec_seq, exec_if. xcbn. cbn [b2z negb Z.eqb]. rewrite exec_return. xcbn.
        exists (VInt 0), m1. split; [reflexivity|]. exists o1. split; [reflexivity|]. split; [lia|]. split; [exact Hm1|]. split; [exact B1|]. split; [lia|].
        cbn [of_opt tree_in atoms_ok height ngrp]. split; [split; [reflexivity|split; [lia|exact D1]]|]. repeat split; lia.
    - (* a plain atom: rnode_make, ratom_read *)
      destruct (ReParse.ratom_read (skipn o pat)) as [[a s1]| |] eqn:Ea; try discriminate Hr. cbn [ReSyntax.bind fst snd] in Hr.
      rewrite (tr_rnode_make m 0 (VInt 0) (VInt 0) _ fuel) by (try exact I; unfold i32; lia). xs.
      set (N0 := node_cells 0 (VInt 0) (VInt 0) (VInt 0) 1 1 0 0). set (ma := m ++ [N0]).
      destruct Hm as [[Hs [Hp _]] [Hbad [Hlm Hlr]]].
      assert (Hsa : pat_at ma bl pat bpp o) by (split; [unfold str_at, ma; rewrite nth_error_app_old by lia; exact Hs|split; [unfold ma; rewrite nth_error_app_old by lia; exact Hp|exact Ho]]).
      assert (Hla : lits_at ma) by (pose proof G_meta_lt; pose proof G_rep_lt; split; unfold ma; rewrite nth_error_app_old by (eapply nth_lt; eassumption); assumption).
      assert (Gm : (G_meta < length m)%nat) by (eapply nth_lt; exact Hlm). assert (Gr : (G_rep < length m)%nat) by (eapply nth_lt; exact Hlr).
      destruct (tr_ratom_read ma (length m) (VInt 0) [VInt 0; VInt 0; VInt 1; VInt 1; VInt 0; VInt 0] bl pat bpp o d fuel a s1
                  ltac:(unfold ma; apply nth_error_app_new) Hsa Hnn Hla ltac:(lia) ltac:(lia) Nlp ltac:(split; lia) Hgp Hf Hf4 Hmax Ea)
        as [o1 [m1 [C1 [Ho1 [-> [S1 [Hp1 Hstr]]]]]]].
      rewrite C1. xs.
      assert (Lma : length ma = S (length m)) by (unfold ma; rewrite app_length; cbn [length]; lia).
      rewrite Lma in Hstr.
      assert (Fr : forall i, (i < length m)%nat -> i <> bpp -> nth_error m1 i = nth_error m i).
      { intros i Hi Q. rewrite S1; [unfold ma; apply nth_error_app_old; exact Hi|lia|]. cbn [In]. intros [E|[E|[]]]; lia. }
      assert (Ll1 : (S (length m) <= length m1)%nat) by (destruct (ra_str a); destruct Hstr as [E _]; lia).
      assert (Hm1 : pmem m1 o1 st).
      { pose proof G_bad_ne_bpp. pose proof G_meta_lt. pose proof G_rep_lt.
        split; [split; [unfold str_at; rewrite Fr by (try lia; congruence); exact Hs|split; [exact Hp1|lia]]|].
        split; [unfold bad_at; rewrite Fr by (try lia; congruence); exact Hbad|]. split; rewrite Fr by lia; assumption. }
      apply (Rep m1 o1 st (NAtom a 1 1) (VPtr (length m) 0) Hm1); try exact I; try reflexivity; try (cbn [height ngrp]; lia).
      + intros i Hi Q1 Q2. apply Fr; assumption.
      + cbn [tree_in]. split; [reflexivity|]. split; [unfold i32; lia|]. split; [unfold i32; lia|].
        destruct (ra_str a) as [sa|].
        * destruct Hstr as [E1 [E2 [E3 _]]]. rewrite E1. split; [exact E2|]. split; [lia|]. split; [exact E3|]. apply dead_empty. lia.
        * destruct Hstr as [E1 E2]. rewrite E1. split; [exact E2|]. split; [lia|]. apply dead_empty. lia.
      + cbn [atoms_ok]. unfold atom_ok. destruct (ra_str a) as [sa|] eqn:Es.
        * destruct Hstr as [_ [_ [_ [E4 [E5 E6]]]]]. split; [split; assumption|exact E6].
        * split; [exact I|]. intros sb E. subst a. discriminate Es.
      + exact Hr.
  Qed.

  (* ---- rnode_seq and rnode_parse *)
  Lemma pmem_app m o st x : pmem m o st -> pmem (m ++ [x]) o st.
  Proof.
    intros Hm. destruct (pmem_lt _ _ _ Hm) as [Q1 [Q2 Q3]]. destruct Hm as [[A1 [A2 A3]] [A4 [A5 A6]]].
    assert (G_meta < length m)%nat by (eapply nth_lt; exact A5). assert (G_rep < length m)%nat by (eapply nth_lt; exact A6).
    split; [split; [unfold str_at; rewrite nth_error_app_old by lia; exact A1|split; [rewrite nth_error_app_old by lia; exact A2|exact A3]]|].
    split; [unfold bad_at; rewrite nth_error_app_old by lia; exact A4|]. split; rewrite nth_error_app_old by lia; assumption.
  Qed.
  Lemma tree_keep (m1 m2 : mem) x lo k k' v : tree_in m1 x lo k v -> below m1 m2 k' -> (k <= k')%nat -> (bpp < lo)%nat -> (G_re_bad < lo)%nat ->
    tree_in m2 x lo k v.
  Proof. intros T B L Q1 Q2. apply (tree_in_same m1); [exact T|]. intros i Hi. apply B; lia. Qed.
  Lemma height_pos t : t <> NNil -> (1 <= height t)%nat.
  Proof. destruct t; cbn [height]; intro; try lia. congruence. Qed.

  Lemma seq_ok P : fspec P F_rnode_parse 8 -> forall f, fspec (rnode_seq_st P f) F_rnode_seq 7.
  Proof.
    intros IHP f. induction f as [|f IH]; intros m o st d r s' st' Hm Hd Hr; [discriminate Hr|].
    destruct (pmem_lt _ _ _ Hm) as [L1 [L2 L3]]. pose proof (pm_le _ _ _ Hm) as Ho.
    do 2 (destruct d as [|d]; [lia|]). cbn [rnode_seq_st] in Hr.
    destruct (rnode_atom_st P (skipn o pat) st) as [[[r1 s1] st1]| |] eqn:Ea; try discriminate Hr. cbn [ReSyntax.bind] in Hr.
    destruct (ratom_ok P IHP m o st (S d) r1 s1 st1 Hm ltac:(lia) Ea) as [v1 [m1 [C1 [o1 [-> [Ho1 [Hm1 [B1 [Ll1 [T1 [Ne1 [A1 [Hh1 Hg1]]]]]]]]]]]]].
    enter F_rnode_seq cf_rnode_seq. xs. rewrite C1. xs.
    destruct r1 as [x|]; cbn [of_opt] in *.
    2:{ injection Hr as <- <- <-. cbn [tree_in] in T1. destruct T1 as [-> [_ D1]]. xs.
        exists (VInt 0), m1. split; [reflexivity|]. exists o1. split; [reflexivity|]. split; [lia|]. split; [exact Hm1|]. split; [exact B1|]. split; [lia|].
        cbn [of_opt tree_in atoms_ok height ngrp]. split; [split; [reflexivity|split; [lia|exact D1]]|]. repeat split; lia. }
    destruct (tree_in_ptr _ _ _ _ _ T1 Ne1) as [b1 ->]. xs. pose proof (height_pos x Ne1) as Hp1. pose proof (pm_le _ _ _ Hm1) as Ho1'.
    destruct (rnode_seq_st P f (skipn o1 pat) st1) as [[[r2 s2] st2]| |] eqn:Es; try discriminate Hr. cbn [ReSyntax.bind] in Hr.
    destruct (IH m1 o1 st1 (S d) r2 s2 st2 Hm1 ltac:(unfold rem in *; lia) Es) as [v2 [m2 [C2 [o2 [-> [Ho2 [Hm2 [B2 [Ll2 [T2 [Ne2 [A2 [Hh2 Hg2]]]]]]]]]]]]].
    rewrite C2. xs. destruct (pmem_lt _ _ _ Hm2) as [M1 [M2 M3]].
    destruct r2 as [y|]; cbn [of_opt] in *; injection Hr as <- <- <-.
    - destruct (tree_in_ptr _ _ _ _ _ T2 Ne2) as [b2 ->]. xs. pose proof (height_pos y Ne2) as Hp2.
      rewrite (tr_rnode_make m2 99 (VPtr b1 0) (VPtr b2 0) _ fuel) by (try exact I; unfold i32; lia). xs.
      eexists. eexists. split; [reflexivity|]. cbn [memm].
      exists o2. split; [reflexivity|]. split; [lia|]. split; [apply pmem_app; exact Hm2|].
      split; [apply (below_trans m m1 _ (length m) (length m)); [exact B1| |lia]; apply (below_trans m1 m2 _ (length m) (length m1)); [intros i Hi Q1 Q2; apply B2; [lia|exact Q1|exact Q2]|apply below_app; lia|lia]|].
      rewrite app_length. cbn [length]. split; [lia|]. cbn [of_opt tree_in atoms_ok height ngrp].
      split.
      { exists (length m1), (length m2), (VPtr b1 0), (VPtr b2 0). split; [reflexivity|].
        split; [apply tree_app; [apply (tree_keep m1 m2 x _ _ (length m1)); [exact T1|exact B2|lia|lia|lia]|lia]|].
        split; [apply tree_app; [exact T2|lia]|]. split; [lia|]. split; [apply nth_error_app_new|]. apply dead_empty. lia. }
      split; [discriminate|]. split; [split; assumption|]. split; lia.
    - cbn [tree_in] in T2. destruct T2 as [-> [_ D2]]. xs.
      exists (VPtr b1 0), m2. split; [reflexivity|]. exists o2. split; [reflexivity|]. split; [lia|]. split; [exact Hm2|].
      split; [apply (below_trans m m1 m2 (length m) (length m1)); [exact B1|exact B2|lia]|]. split; [lia|]. cbn [of_opt].
      split; [apply (tree_in_widen m2 x _ (length m1)); [apply (tree_keep m1 m2 x _ _ (length m1)); [exact T1|exact B2|lia|lia|lia]|exact D2|lia]|].
      split; [exact Ne1|]. split; [exact A1|]. split; lia.
  Qed.

  Theorem parse_ok : forall f, fspec (rnode_parse_st f) F_rnode_parse 8.
  Proof.
    induction f as [|f IH]; intros m o st d r s' st' Hm Hd Hr; [discriminate Hr|].
    destruct (pmem_lt _ _ _ Hm) as [L1 [L2 L3]]. pose proof (pm_le _ _ _ Hm) as Ho. pose proof (nonul_lt256 pat Hnn) as H256.
    do 2 (destruct d as [|d]; [lia|]). cbn [rnode_parse_st] in Hr.
    destruct (rnode_seq_st (rnode_parse_st f) f (skipn o pat) st) as [[[x s1] st1]| |] eqn:Es; try discriminate Hr. cbn [ReSyntax.bind] in Hr.
    destruct (seq_ok (rnode_parse_st f) IH f m o st (S d) x s1 st1 Hm ltac:(lia) Es) as [v1 [m1 [C1 [o1 [-> [Ho1 [Hm1 [B1 [Ll1 [T1 [Ne1 [A1 [Hh1 Hg1]]]]]]]]]]]]].
    enter F_rnode_parse cf_rnode_parse. xs. rewrite C1. xs.
    pose proof (pm_le _ _ _ Hm1) as Ho1'. destruct (pmem_lt _ _ _ Hm1) as [K1 [K2 K3]].
    rewrite hd0_skipn in Hr. pose proof (nthb_lt256 pat o1 H256) as H8. set (c := nthb pat o1) in *.
    pose proof (tree_in_ptr0 _ _ _ _ _ T1) as P1.
    assert (Gl : forall mm l2, get_local (mkst [VPtr bpp 0; v1; l2] mm) 1 = Ok v1).
    { intros mm l2. destruct v1 as [|z|bb oo]; [destruct P1|reflexivity|reflexivity]. }
    rewrite (pm_load_p _ _ _ Hm1). xs. replace (Z.of_nat o1 + 1 * 0) with (Z.of_nat o1) by lia.
    rewrite (pm_load_c _ _ _ o1 Hm1 Ho1'). xs. fold_sx. fold c. rewrite (sx_eq_124 c H8).
    destruct (c =? 124)%N eqn:E124; cbn [negb] in Hr; xs.
    2:{ injection Hr as <- <- <-.
        change (match v1 with VUndef => Err EUndef | _ => Ok v1 end) with (get_local (mkst [VPtr bpp 0; v1; VUndef] m1) 1). rewrite Gl. xs.
        exists v1, m1. split; [reflexivity|]. exists o1. repeat (split; [first [reflexivity|assumption|lia]|]). lia. }
    assert (Hlt : (o1 < length pat)%nat) by (apply nthb_nz_lt; fold c; intro Z0; rewrite Z0 in E124; discriminate).
    rewrite (pm_load_p _ _ _ Hm1). xs. cbn [fst snd]. replace (Z.of_nat o1 + 1) with (Z.of_nat (S o1)) by lia.
    rewrite (pm_store_p _ _ _ (S o1) Hm1). xs.
    set (ma := upd m1 bpp [VPtr bl (Z.of_nat (S o1))]).
    assert (Hma : pmem ma (S o1) st1) by (apply (pm_upd_p m1 o1); [exact Hm1|lia]).
    assert (Lma : length ma = length m1) by (unfold ma; apply upd_length; exact K2).
    assert (Bma : below m1 ma (length m1)) by (apply below_upd_p; exact K2).
    rewrite tl_skipn in Hr.
    destruct (rnode_parse_st f (skipn (S o1) pat) st1) as [[[r2 s2] st2]| |] eqn:Ep; try discriminate Hr. cbn [ReSyntax.bind] in Hr.
    destruct (IH ma (S o1) st1 (S d) r2 s2 st2 Hma ltac:(unfold rem in *; lia) Ep) as [v2 [m2 [C2 [o2 [-> [Ho2 [Hm2 [B2 [Ll2 [T2 [Ne2 [A2 [Hh2 Hg2]]]]]]]]]]]]].
    rewrite C2. xs. destruct (pmem_lt _ _ _ Hm2) as [M1 [M2 M3]]. rewrite Lma in *.
    assert (B12 : below m1 m2 (length m1)) by (apply (below_trans m1 ma m2 (length m1) (length m1)); [exact Bma|exact B2|lia]).
    assert (T1' : tree_in m2 (of_opt x) (length m) (length m1) v1) by (apply (tree_keep m1 m2 _ _ _ (length m1)); [exact T1|exact B12|lia|lia|lia]).
    destruct r2 as [y|]; cbn [of_opt] in *; injection Hr as <- <- <-.
    - destruct (tree_in_ptr _ _ _ _ _ T2 Ne2) as [b2 ->]. xs.
      change (match v1 with VUndef => Err EUndef | _ => Ok v1 end) with (get_local (mkst [VPtr bpp 0; v1; VPtr b2 0] m2) 1). rewrite Gl. xs.
      rewrite (tr_rnode_make m2 124 v1 (VPtr b2 0) _ fuel) by (try exact I; try exact P1; unfold i32; lia). xs.
      eexists. eexists. split; [reflexivity|]. cbn [memm].
      exists o2. split; [reflexivity|]. split; [lia|]. split; [apply pmem_app; exact Hm2|].
      split; [apply (below_trans m m1 _ (length m) (length m)); [exact B1| |lia]; apply (below_trans m1 m2 _ (length m) (length m1)); [intros i Hi Q1 Q2; apply B12; [lia|exact Q1|exact Q2]|apply below_app; lia|lia]|].
      rewrite app_length. cbn [length]. split; [lia|]. cbn [of_opt tree_in atoms_ok height ngrp].
      split.
      { exists (length m1), (length m2), v1, (VPtr b2 0). split; [reflexivity|].
        split; [apply tree_app; [exact T1'|lia]|]. split; [apply tree_app; [exact T2|lia]|]. split; [lia|].
        split; [apply nth_error_app_new|]. apply dead_empty. lia. }
      split; [discriminate|]. split; [split; assumption|]. split; lia.
    - cbn [tree_in] in T2. destruct T2 as [-> [_ D2]]. xs.
      change (match v1 with VUndef => Err EUndef | _ => Ok v1 end) with (get_local (mkst [VPtr bpp 0; v1; VInt 0] m2) 1). rewrite Gl. xs.
      exists v1, m2. split; [reflexivity|]. exists o2. split; [reflexivity|]. split; [lia|]. split; [exact Hm2|].
      split; [apply (below_trans m m1 m2 (length m) (length m1)); [exact B1|exact B12|lia]|]. split; [lia|].
      split; [apply (tree_in_widen m2 _ _ (length m1)); [exact T1'|exact D2|lia]|].
      split; [exact Ne1|]. split; [exact A1|]. split; lia.
  Qed.
End Parser.
