(* IoTableDefs.v -- the overwrite guards of ec_write over the whole buffer table bufs[] of ex.c (C03).
   Extends IoLinkDefs.v: the editor holds up to LEN(bufs) buffers; bufs[0] is the current one, bufs[1] the
   alternate one (`#`), every slot remembers its own path and its own time stamp (bufs[i].mtime).
   ec_write picks the time stamp that lbuf_save compares with the file on disk:
       long ts = !strcmp(ex_path(), path) ? bufs[0].mtime : 0;
   i.e. the stamp of the CURRENT slot, and only when the target is the current slot's own path; every other
   target -- a path that is open in another slot included -- gets 0 = "foreign".  The table is the list of
   occupied slots in slot order (bufs_shift and bufs_switch keep the occupied slots a prefix of bufs[]);
   every buffer has a name (unnamed buffers are outside the model).  No proofs here (IoTableProps.v). *)
From Coq Require Import List NArith ZArith Bool Arith.
From NV Require Import Bytes GenConsts IoDefs IoLinkDefs.
Import ListNotations.

(* the path argument of :w / :wq / :x / :e *)
Inductive parg :=
| ANone                (* no argument *)
| ACur                 (* %  *)
| AAlt                 (* #  *)
| AName (p : nat).     (* a literal name *)

(* ex_pathexpand: % = bufs[0].path, # = bufs[1].path; None = `pathname "%" or "#" is not set` *)
Definition path_of_arg (bufs : list buf) (a : parg) : option nat :=
  match a with
  | ANone | ACur => match bufs with b0 :: _ => Some (b_path b0) | [] => None end
  | AAlt => match bufs with _ :: b1 :: _ => Some (b_path b1) | _ => None end
  | AName p => Some p
  end.

(* bufs_find(path): the first slot with that path *)
Fixpoint bufs_find (bufs : list buf) (p : nat) : option nat :=
  match bufs with
  | [] => None
  | b :: r => if Nat.eqb (b_path b) p then Some 0 else match bufs_find r p with Some i => Some (S i) | None => None end
  end.
(* bufs_switch(idx): slot idx becomes slot 0, slots 0 .. idx-1 move one down *)
Definition bufs_switch (bufs : list buf) (i : nat) : list buf :=
  match nth_error bufs i with
  | Some b => b :: firstn i bufs ++ skipn (S i) bufs
  | None => bufs
  end.
Definition NB : nat := Z.to_nat NBUFS.       (* LEN(bufs), translated from ex.c *)
(* bufs_open + bufs_switch for a new buffer: the first free slot, or the last slot (its buffer is dropped)
   when the table is full; the new buffer becomes slot 0 *)
Definition bufs_push (bufs : list buf) (b : buf) : list buf :=
  b :: (if NB <=? length bufs then firstn (NB - 1) bufs else bufs).

(* the time stamp that may excuse an existing target of a write without `!` (the specification of the
   line quoted above): the recorded stamp of the current buffer when the target is its own path, else 0 *)
Definition excuse_stamp (bufs : list buf) (path : nat) : Z :=
  match bufs with
  | b0 :: _ => if Nat.eqb (b_path b0) path then b_mtime b0 else 0%Z
  | [] => 0%Z
  end.
(* NOT what the code does: the stamp of whichever slot has the target open (the lookup a "use the buffer
   table" refactoring of that line would make).  Only used to show that the theorems tell the two apart. *)
Definition stamp_by_find (bufs : list buf) (path : nat) : Z :=
  match bufs_find bufs path with
  | Some i => match nth_error bufs i with Some b => b_mtime b | None => 0%Z end
  | None => 0%Z
  end.

(* ec_write(loc, cmd, arg): the argument is expanded first, :x on an unmodified buffer returns before the
   missing-path test; the write itself and the bookkeeping afterwards touch slot 0 only *)
Definition ec_write_t (now : Z) (isx force : bool) (rng : option (nat * nat)) (lk : links) (a : parg) (bufs : list buf)
                      (fs : fsys) (sch : list outcome) : status * list buf * fsys * list outcome :=
  match bufs with
  | [] => (SFailed, bufs, fs, sch)                      (* xb is never NULL once ex_init has run *)
  | b0 :: rest =>
    if isx && negb (b_dirty b0) then (SOk, bufs, fs, sch)
    else match path_of_arg bufs a with
    | None => (SRefused, bufs, fs, sch)                 (* the expansion has shown its message: return 1 *)
    | Some path =>
      let '(st, b0', fs', r) := ec_write_l now isx force rng lk path b0 fs sch in
      (st, b0' :: rest, fs', r)
    end
  end.

(* ec_quit(loc, cmd, arg) for wq / x / xa [!] [path], q [!]: the write part gets the argument *)
Definition ec_quit_t (now : Z) (wr isx all bang : bool) (lk : links) (a : parg) (bufs : list buf) (fs : fsys) (sch : list outcome)
  : bool * status * list buf * fsys * list outcome :=
  if wr then
    let '(st, bufs1, fs', r) := ec_write_t now isx bang None lk a bufs fs sch in
    match st with
    | SOk => let '(q, st2, fs2, r2) := quit_loop_l now all bang lk bufs1 fs' r in (q, st2, quit_marks_l now all bang lk bufs1 fs' r, fs2, r2)
    | _ => (false, st, bufs, fs', r)
    end
  else let '(q, st2, fs2, r2) := quit_loop_l now all bang lk bufs fs sch in (q, st2, quit_marks_l now all bang lk bufs fs sch, fs2, r2).

(* ec_edit(loc, cmd, arg) for e / e! with "", %, #, name (xwa off):
   - without `!` a modified current buffer refuses ("buffer modified");
   - a path that is open in some slot: bufs_switch to it, nothing is read, its recorded stamp stays;
   - a new path: a fresh buffer in front (ec_edit_l: lines and stamp of the file the name denotes);
   - no argument: the current buffer is read again from its own path (its lines stay when the file cannot
     be opened), marked saved, stamp recorded again *)
Definition ec_edit_t (bang : bool) (lk : links) (fs : fsys) (a : parg) (bufs : list buf) : status * list buf :=
  let blocked := match bufs with b0 :: _ => negb bang && b_dirty b0 | [] => false end in
  if blocked then (SRefused, bufs)
  else match a, bufs with
  | ANone, b0 :: rest =>
    (SOk, {| b_lines := match target lk fs (b_path b0) with Some (c, _) => split_lines c | None => b_lines b0 end;
             b_path := b_path b0; b_mtime := mtime_of lk fs (b_path b0); b_dirty := false |} :: rest)
  | _, _ =>
    match path_of_arg bufs a with
    | None => (SRefused, bufs)
    | Some p =>
      match bufs_find bufs p with
      | Some i => (SOk, bufs_switch bufs i)
      | None => (SOk, bufs_push bufs (ec_edit_l lk fs p))
      end
    end
  end.
