(* DrawCurDefs.v -- C19, the column of the terminal cursor: ren.c pos_prev / pos_next / ren_off / ren_noeol / ren_cursor over
   the visual positions ren_position() gives the characters of a line (the line's newline included: it is never reordered and
   has the largest position), the tail of vi() -- since fix 216c15e the cursor is computed from the OFFSET commands act on,
       term_pos(xrow - xtop, vi_pos(ln, ren_cursor(ln, vi_off2col(xb, xrow, xoff))));
   before it from the remembered column xcol, which j / k / n| keep -- and the xleft rule applied before the first paint
   (fix 11b9bf2).  Executable; no proofs here (DrawCurProps.v). *)
From Coq Require Import List Arith ZArith Bool.
From NV Require Import TermEmu DrawDefs DrawDirDefs.
Import ListNotations.
Local Open Scope Z_scope.

(* pos_prev(pos, n, p, cur): the largest position <= p (cur) or < p (!cur); -1 if there is none
     for (i = 0; i < n; i++) if (pos[i] + !cur <= p && (ret < 0 || pos[i] > pos[ret])) ret = i;
     return ret >= 0 ? pos[ret] : -1;                      (the value is tracked instead of the index) *)
Definition pos_prev (ps : list Z) (p : Z) (cur : bool) : Z :=
  fold_left (fun ret q => if (q + (if cur then 0 else 1) <=? p) && ((ret <? 0) || (ret <? q)) then q else ret) ps (-1).
(* pos_next(pos, n, p, cur): the smallest position >= p (cur) or > p (!cur); -1 if there is none *)
Definition pos_next (ps : list Z) (p : Z) (cur : bool) : Z :=
  fold_left (fun ret q => if (p <=? q - (if cur then 0 else 1)) && ((ret <? 0) || (q <? ret)) then q else ret) ps (-1).

(* A line of n characters + its newline: ps = the positions of the n characters (buffer order), the newline at eol.
   all_pos = what ren_position() returns for the n + 1 characters; pos[n + 1] = eol + 1 is the width. *)
Definition all_pos (ps : list Z) (eol : Z) : list Z := ps ++ [eol].

(* ren_off(s, p): the (last) character whose position is pos_prev(p, cur); 0 if none *)
Fixpoint last_index (ps : list Z) (p : Z) (i : nat) (dflt : nat) : nat :=
  match ps with
  | [] => dflt
  | q :: r => last_index r p (S i) (if q =? p then i else dflt)
  end.
Definition ren_off (ps : list Z) (eol p : Z) : nat := last_index (all_pos ps eol) (pos_prev (all_pos ps eol) p true) 0%nat 0%nat.
(* ren_noeol(s, o): an offset before the newline (characters 0 .. n-1 are text, character n is the newline) *)
Definition ren_noeol (n o : nat) : nat :=
  let o := if (S n <=? o)%nat then n else o in                 (* o >= uc_slen(s): MAX(0, slen - 1) = n *)
  if (0 <? o)%nat && (o =? n)%nat then (o - 1)%nat else o.        (* on the newline: one back *)
(* the offset a vertical motion with the remembered column xcol ends on: vi_col2off() = ren_off(), then vi_wfix(): ren_noeol() *)
Definition col2off (ps : list Z) (eol xcol : Z) : nat := ren_noeol (length ps) (ren_off ps eol xcol).

(* ren_cursor(s, p): the last cell of the character at (or before) position p, never the newline's
     p = pos_prev(pos, n, p, 1);
     if (uc_code(uc_chr(s, ren_off(s, p))) == '\n') p = pos_prev(pos, n, p, 0);
     next = pos_next(pos, n, p, 0);  p = (next >= 0 ? next : pos[n]) - 1;  return p >= 0 ? p : 0;
   The character at position p is the newline exactly when p = eol (positions are distinct). *)
Definition ren_cursor (ps : list Z) (eol p : Z) : Z :=
  let a := all_pos ps eol in
  let p1 := pos_prev a p true in
  let p2 := if p1 =? eol then pos_prev a p1 false else p1 in
  let nx := pos_next a p2 false in
  let r := (if 0 <=? nx then nx else eol + 1) - 1 in
  if 0 <=? r then r else 0.

(* vi_off2col(xb, xrow, xoff) = ren_pos(ln, off): the position of character off *)
Definition off2col (ps : list Z) (off : nat) : Z := nth off ps 0.

(* the visual position the tail of vi() hands to vi_pos(): vi.c today (from the offset) and before 216c15e (from xcol) *)
Definition cursor_pos (ps : list Z) (eol : Z) (xoff : nat) : Z := ren_cursor ps eol (off2col ps xoff).
Definition cursor_pos_xcol (ps : list Z) (eol xcol : Z) : Z := ren_cursor ps eol xcol.

(* start-up (top of vi()): xleft = 0, xoff = 0, xcol = vi_off2col(xb, xrow, 0);
     if (xcol >= xleft + xcols) xleft = xcol - xcols / 2;                      (fix 11b9bf2)
   and the cursor goes to term_pos(.., vi_pos(ln, xcol)) *)
Definition init_left (xcol xcols : Z) : Z := if 0 + xcols <=? xcol then xcol - xcols / 2 else 0.
