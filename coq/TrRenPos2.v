(* TrRenPos2.v -- the FAST PATH of ren_position (ren.c) is RenDefs.ren_fast; with it the theorems of TrRen2.v
   that are relative to a call of ren_position become unconditional for lines that are not reordered
   (ren_off, ren_pos, ren_next, ren_cursor).  Continues TrRenPos.v (uc_chop, ren_placeholder, ren_cwid). *)
From Coq Require Import List ZArith NArith Bool Lia Permutation.
From NV Require Import Bytes UcDefs GenUcTables GenConf GenConsts RenDefs RenProps CLite CLiteProps GenCFuncs CLiteTac TrUc TrUcTab TrRen TrRen2 TrRenPos.
Import ListNotations.
Local Open Scope Z_scope.

(* every multi-byte sequence of the line is complete: the bytes its lead byte announces lie before the terminator.
   ren_position steps by uc_len(s) and ren_cwid decodes with uc_code(s), which reads uc_len(s) bytes: on a line
   that ends inside a sequence both go past the terminator (see the Example in Properties_C17.v) *)
Definition no_trunc (s : bytes) : Prop := forall q, (q < length s)%nat -> (q + uc_len_b (nthb s q) <= length s)%nat.

Lemma no_trunc_step s p : no_trunc s -> (p <= length s)%nat ->
  (p + uc_len_b (nthb s p) <= length s)%nat /\ (p + uc_len_b (nthb s p) - 1 <= length s)%nat.
Proof.
  intros H Hp. destruct (Nat.eq_dec p (length s)) as [->|Hne].
  - rewrite nthb_end by lia. cbn. lia.
  - specialize (H p ltac:(lia)). lia.
Qed.

Lemma ren_frame_upd_new m M g x : bits_ok m -> ren_frame m M -> (length m <= g)%nat -> (g < length M)%nat -> ren_frame m (upd M g x).
Proof.
  intros Bm [L [O B]] Hg HgM. pose proof (bits_lt m Bm) as LB. split; [rewrite upd_length; lia|]. split.
  - intros g' Hg' Ng'. rewrite mem_upd_other by lia. apply O; assumption.
  - destruct B as [B|B]; [left|right]; unfold cell_at in *; rewrite mem_upd_other by lia; exact B.
Qed.
Lemma ren_frame_bits m M : ren_frame m M -> bits_ok M.
Proof. intros [_ [_ B]]. exact B. Qed.

(* ------------------------------------------------------------------ ren_position, fast path *)
Definition rp_loop : stmt :=
  match fn_body cf_ren_position with SSeq _ (SSeq _ (SSeq _ (SSeq _ (SSeq (SSeq _ w) _)))) => w | _ => SSkip end.
Definition rp_rest : stmt :=
  match fn_body cf_ren_position with SSeq _ (SSeq _ (SSeq _ (SSeq _ (SSeq _ r)))) => r | _ => SSkip end.

Lemma map_VInt_snoc pre x : map VInt pre ++ [VInt x] = map VInt (pre ++ [x]).
Proof. rewrite map_app. reflexivity. Qed.

Lemma rp_loop_ok F d m b s n fuel2 : ro_at m -> bits_ok m -> str_at m b s -> bytes_lt256 s -> no_trunc s ->
  (nph < F)%nat -> (fuel_tabs <= F)%nat -> 8 * Z.of_nat n <= 2147483647 ->
  forall k i p cpos pre M fuel, (i + k = n)%nat -> length pre = i -> (p <= length s)%nat -> 0 <= cpos <= 8 * Z.of_nat i ->
  ren_frame m M -> nth_error M (length m) = Some (map VInt pre ++ repeat VUndef (S k)) -> (k < fuel)%nat ->
  exists M' loc',
    match exec (callf cprog F (S (S (S (S (S d)))))) fuel rp_loop
            (mkst [VPtr b (Z.of_nat p); VInt cpos; VPtr (length m) 0; VInt (Z.of_nat i); VInt (Z.of_nat n)] M) with
    | ONormal st1 => exec (callf cprog F (S (S (S (S (S d)))))) fuel2 rp_rest st1
    | o => o
    end = OReturn (VPtr (length m) 0) (mkst loc' M') /\
    ren_frame m M' /\ nth_error M' (length m) = Some (map VInt (pre ++ ren_fast k (skipn p s) cpos)).
Proof.
  intros Hro Hbits Hs H256 Hnt HF1 HF2 Hmax.
  induction k as [|k IH]; intros i p cpos pre M fuel Hik Hpre Hp Hc Hfr Hblk Hf; (destruct fuel as [|fuel]; [lia|]);
    unfold rp_loop, rp_rest; cbn [fn_body cf_ren_position]; rewrite exec_for; xstep.
  - destruct (Z.ltb_spec (Z.of_nat i) (Z.of_nat n)); [lia|]. xstep.
    replace (0 + 1 * Z.of_nat i) with (Z.of_nat (length pre)) by lia.
    assert (HgM : (length m < length M)%nat) by (apply nth_error_Some; congruence).
    rewrite (store_ok M (length m) _ _ _ Hblk) by (rewrite app_length, map_length; cbn [length repeat]; lia). xstep.
    rewrite (wrap_I32_id cpos) by lia.
    rewrite Nat2Z.id. rewrite <- (map_length VInt pre). cbn [repeat]. rewrite upd_mid. rewrite app_nil_r, map_VInt_snoc.
    eexists; eexists. split; [reflexivity|]. split.
    + apply ren_frame_upd_new; try assumption; lia.
    + cbn [ren_fast]. apply mem_upd_same. lia.
  - destruct (Z.ltb_spec (Z.of_nat i) (Z.of_nat n)); [|lia]. xstep.
    replace (0 + 1 * Z.of_nat i) with (Z.of_nat (length pre)) by lia.
    assert (HgM : (length m < length M)%nat) by (apply nth_error_Some; congruence).
    rewrite (store_ok M (length m) _ _ _ Hblk) by (rewrite app_length, map_length; cbn [length repeat]; lia). xstep.
    rewrite (wrap_I32_id cpos) by lia.
    rewrite Nat2Z.id. rewrite <- (map_length VInt pre). cbn [repeat]. rewrite upd_mid, map_VInt_snoc.
    set (M1 := upd M (length m) (map VInt (pre ++ [cpos]) ++ VUndef :: repeat VUndef k)).
    assert (Hfr1 : ren_frame m M1) by (apply ren_frame_upd_new; try assumption; lia).
    assert (Hblk1 : nth_error M1 (length m) = Some (map VInt (pre ++ [cpos]) ++ repeat VUndef (S k))) by (apply mem_upd_same; lia).
    destruct (no_trunc_step s p Hnt Hp) as [Hstep Hcode].
    destruct (tr_ren_cwid M1 b s p cpos d F (ren_frame_ro _ _ Hfr1 Hro) (ren_frame_bits _ _ Hfr1)
                (ren_frame_str _ _ _ _ Hfr1 Hbits Hs) H256 Hcode Hp HF1 HF2) as [M2 [X Hfr12]].
    rewrite X. xstep.
    pose proof (ren_cwid_range (skipn p s) cpos ltac:(lia)) as Hw.
    rewrite chk_I32 by lia. xstep. rewrite chk_I32 by lia. xstep.
    assert (Hfr2 : ren_frame m M2) by (apply (ren_frame_trans m M1 M2); assumption).
    rewrite (tr_uc_len M2 b s p _ F (ren_frame_str _ _ _ _ Hfr2 Hbits Hs) H256 Hp). xstep.
    replace (Z.of_nat p + 1 * Z.of_nat (uc_len_b (nthb s p))) with (Z.of_nat (p + uc_len_b (nthb s p))) by lia.
    replace (Z.of_nat i + 1) with (Z.of_nat (S i)) by lia.
    assert (Hblk2 : nth_error M2 (length m) = Some (map VInt (pre ++ [cpos]) ++ repeat VUndef (S k))).
    { destruct Hfr12 as [_ [O _]]. rewrite O; [exact Hblk1| |].
      - unfold M1. rewrite upd_length; lia.
      - pose proof (bits_lt m Hbits). lia. }
    destruct (IH (S i) (p + uc_len_b (nthb s p))%nat (cpos + ren_cwid (skipn p s) cpos) (pre ++ [cpos]) M2 fuel
                ltac:(lia) ltac:(rewrite app_length; cbn [length]; lia) ltac:(lia) ltac:(lia) Hfr2 Hblk2 ltac:(lia))
      as [M' [loc' [Y [Hfr' Hblk']]]].
    unfold rp_loop, rp_rest in Y; cbn [fn_body cf_ren_position] in Y.
    exists M', loc'. split; [refine (eq_trans _ Y); reflexivity|]. split; [exact Hfr'|].
    rewrite Hblk'. cbn [ren_fast]. rewrite <- app_assoc. cbn [app]. unfold uc_len. rewrite hd0_skipn, skipn_skipn.
    replace (uc_len_b (nthb s p) + p)%nat with (p + uc_len_b (nthb s p))%nat by lia. reflexivity.
Qed.

(* the memory a call of ren_position needs: the read-only data, the static bits, the line, the two options *)
Definition fast_mem (o : ropts) (m : mem) (b : nat) (s : bytes) : Prop :=
  ro_at m /\ bits_ok m /\ str_at m b s /\ cell_at m G_xlim (xlim o) /\ cell_at m G_xorder (xorder o).
(* the line: NUL-free, complete sequences, short enough that 8 columns per character fit an int; and the
   condition that selects the fast path in ren_position: !(n <= xlim && (xorder == 2 || (xorder == 1 && n < strlen(s)))) *)
Definition fast_line (o : ropts) (s : bytes) : Prop :=
  nonul s /\ no_trunc s /\ Z.of_nat (length s) <= 268435454 /\ int_ok (xlim o) /\ int_ok (xorder o) /\
  use_reorder o s = false.

Lemma xlim_ne : G_xlim <> G_bits. Proof. intro H. vm_compute in H. discriminate H. Qed.
Lemma xorder_ne : G_xorder <> G_bits. Proof. intro H. vm_compute in H. discriminate H. Qed.
Lemma fast_mem_frame o m M b s : fast_mem o m b s -> ren_frame m M -> fast_mem o M b s.
Proof.
  intros [A [B [C [D E]]]] H. split; [apply (ren_frame_ro m); assumption|]. split; [apply (ren_frame_bits m); exact H|].
  split; [apply (ren_frame_str m); assumption|]. split; apply (ren_frame_cell m); try assumption; [apply xlim_ne|apply xorder_ne].
Qed.

Theorem tr_ren_position_fast o m b s d fuel : fast_mem o m b s -> fast_line o s ->
  (length s < fuel)%nat -> (nph < fuel)%nat -> (fuel_tabs <= fuel)%nat ->
  exists M, callf cprog fuel (S (S (S (S (S (S d)))))) F_ren_position [VPtr b 0] m = Ok (VPtr (length m) 0, M) /\
            int_arr_at M (length m) (ren_fast (uc_slen s) s 0) /\ ren_frame m M.
Proof.
  intros [Hro [Hbits [Hs [Hxl Hxo]]]] [Hnn [Hnt [Hmax [Il [Io Hfast]]]]] Hf HF1 HF2.
  pose proof (nonul_lt256 s Hnn) as H256. pose proof (uc_slen_le s) as Hn.
  enter F_ren_position cf_ren_position.
  rewrite exec_seq, exec_expr. xcbn. rewrite exec_seq, exec_expr. xcbn.
  pose proof (tr_uc_slen m b s 0 (S (S (S d))) fuel Hs Hnn ltac:(lia) Hf ltac:(lia)) as E. change (Z.of_nat 0) with 0 in E.
  rewrite E; clear E. cbn [skipn]. xcbn. set (n := uc_slen s) in *.
  rewrite exec_seq, exec_if. xcbn.
  rewrite (load_cell m G_xlim _ Hxl). xcbn. rewrite (wrap_int_ok _ Il).
  unfold use_reorder in Hfast. fold n in Hfast.
  assert (Hgo : exists M,
    match
      match exec (callf cprog fuel (S (S (S (S (S d)))))) fuel SSkip (mkst [VPtr b 0; VInt 0; VUndef; VUndef; VInt (Z.of_nat n)] m) with
      | ONormal st1 => exec (callf cprog fuel (S (S (S (S (S d)))))) fuel
          (match fn_body cf_ren_position with SSeq _ (SSeq _ (SSeq _ r)) => r | _ => SSkip end) st1
      | o => o
      end
    with
    | ONormal st => Ok (VUndef, memm st)
    | OReturn v st => Ok (v, memm st)
    | OErr x => Err x
    | _ => Err EShape
    end = Ok (VPtr (length m) 0, M) /\ int_arr_at M (length m) (ren_fast n s 0) /\ ren_frame m M).
  { rewrite exec_skip. cbn [fn_body cf_ren_position].
    rewrite exec_seq, exec_expr. xcbn. rewrite chk_I32 by lia. xcbn.
    unfold wrap at 1. cbn [ity_bits ity_signed andb]. rewrite (Z.mod_small (Z.of_nat n + 1)) by (change (2 ^ 64) with 18446744073709551616; lia).
    unfold chk. cbn [ity_signed]. rewrite (wrap_U64_id ((Z.of_nat n + 1) * 4)) by lia. xcbn.
    destruct (Z.eqb_spec 4 0); [lia|]. rewrite Z.quot_mul by lia. rewrite (wrap_U64_id (Z.of_nat n + 1)) by lia. xcbn.
    rewrite malloc_ok by lia. xcbn. replace (Z.to_nat (Z.of_nat n + 1)) with (S n) by lia.
    rewrite exec_seq, exec_seq, exec_expr. xcbn.
    match goal with |- context [mkst _ ?M] => remember M as m1 eqn:Em1 end.
    assert (Hfr1 : ren_frame m m1).
    { rewrite Em1. split; [rewrite app_length; lia|]. split; [intros g Hg _; apply nth_error_app1; exact Hg|].
      pose proof (bits_lt m Hbits) as Lbits.
      destruct Hbits as [H|H]; [left|right]; unfold cell_at in *; rewrite nth_error_app1 by exact Lbits; exact H. }
    assert (Hblk1 : nth_error m1 (length m) = Some (map VInt [] ++ repeat VUndef (S n))) by (rewrite Em1; apply nth_error_app_new).
    destruct (rp_loop_ok fuel d m b s n fuel Hro Hbits Hs H256 Hnt HF1 HF2 ltac:(lia) n 0%nat 0%nat 0 [] m1 fuel
                ltac:(lia) eq_refl ltac:(lia) ltac:(lia) Hfr1 Hblk1 ltac:(lia)) as [M' [loc' [X [Hfr' Hblk']]]].
    unfold rp_loop, rp_rest in X; cbn [fn_body cf_ren_position] in X. change (Z.of_nat 0) with 0 in X.
    exists M'. split; [rewrite X; reflexivity|]. split; [exact Hblk'|exact Hfr']. }
  cbn [fn_body cf_ren_position] in Hgo.
  rewrite nb2z. destruct (Z.of_nat n <=? xlim o) eqn:E1; cbn [andb] in Hfast; xcbn; [|exact Hgo].
  rewrite (load_cell m G_xorder _ Hxo). xcbn. rewrite (wrap_int_ok _ Io). rewrite nb2z.
  destruct (xorder o =? 2) eqn:E2; cbn [orb] in Hfast; [discriminate Hfast|]. xcbn.
  rewrite (load_cell m G_xorder _ Hxo). xcbn. rewrite (wrap_int_ok _ Io). rewrite nb2z.
  destruct (xorder o =? 1) eqn:E3; cbn [andb] in Hfast; xcbn; [|exact Hgo].
  pose proof (builtin_strlen m b s 0 Hs Hnn ltac:(lia)) as E. change (Z.of_nat 0) with 0 in E. rewrite E; clear E. xcbn.
  rewrite wrap_U64_id by lia. rewrite Nat.sub_0_r. rewrite Hfast. xcbn. exact Hgo.
Qed.

(* ------------------------------------------------------------------ the functions built on the array, unconditionally *)
Lemma ren_position_is_fast dr o s : use_reorder o s = false -> RenDefs.ren_position dr o s = ren_fast (uc_slen s) s 0.
Proof. intro H. unfold RenDefs.ren_position. rewrite H. reflexivity. Qed.
Lemma ren_fast_bound n : forall t c, 0 <= c -> Forall (fun x => c <= x <= c + 8 * Z.of_nat n) (ren_fast n t c).
Proof.
  induction n as [|n IH]; intros t c Hc; cbn [ren_fast].
  - constructor; [cbn beta; lia|constructor].
  - pose proof (ren_cwid_range t c Hc) as Hw. constructor; [cbn beta; lia|].
    eapply Forall_impl; [|apply IH; lia]. cbn beta. intros x Hx. lia.
Qed.
Lemma fast_cols_ok o s : fast_line o s -> let l := ren_fast (uc_slen s) s 0 in
  ints_ok l /\ next_ok l false /\ prev_ok l false /\ (uc_slen s < length l)%nat.
Proof.
  intros [_ [_ [Hmax _]]] l. pose proof (uc_slen_le s) as Hn. pose proof (ren_fast_bound (uc_slen s) s 0 ltac:(lia)) as B. fold l in B.
  unfold ints_ok, next_ok, prev_ok.
  split; [eapply Forall_impl; [|exact B]; cbn beta; intros; lia|].
  split; [eapply Forall_impl; [|exact B]; cbn beta; intros; lia|].
  split; [eapply Forall_impl; [|exact B]; cbn beta; intros; lia|].
  unfold l. rewrite ren_fast_length. lia.
Qed.
Lemma lit0_ro M : ro_at M -> nth_error M G_lit__0 = Some gb_lit__0.
Proof. intro H. rewrite (H G_lit__0 eq_refl). reflexivity. Qed.

(* pos_call of TrRen2.v holds for every memory / line that takes the fast path *)
Lemma pos_call_fast o m b s d fuel : fast_mem o m b s -> fast_line o s ->
  (length s < fuel)%nat -> (nph < fuel)%nat -> (fuel_tabs <= fuel)%nat ->
  exists m1, pos_call fuel (S (S (S (S (S (S d)))))) m b s (ren_fast (uc_slen s) s 0) (length m) m1 /\ ren_frame m m1.
Proof.
  intros Hm Hl Hf HF1 HF2. destruct (tr_ren_position_fast o m b s d fuel Hm Hl Hf HF1 HF2) as [m1 [X [A Hfr]]].
  exists m1. split; [|exact Hfr]. destruct Hm as [Hro [Hbits [Hs _]]].
  assert (Lb : (b < length m)%nat) by (apply nth_error_Some; unfold str_at in Hs; congruence).
  unfold pos_call. repeat split.
  - exact X.
  - exact A.
  - apply (ren_frame_str m); assumption.
  - lia.
  - apply lit0_ro. apply (ren_frame_ro m); assumption.
  - pose proof (ro_lt m G_lit__0 Hro eq_refl). lia.
Qed.

Section Fast.
  Variables (dr : bytes -> list nat -> list nat) (o : ropts).

  Theorem tr_ren_off_fast m b s p d fuel : fast_mem o m b s -> fast_line o s ->
    (length s < fuel)%nat -> (nph < fuel)%nat -> (fuel_tabs <= fuel)%nat ->
    exists M, callf cprog fuel (S (S (S (S (S (S (S d))))))) F_ren_off [VPtr b 0; VInt p] m
              = Ok (VInt (Z.of_nat (RenDefs.ren_off dr o s p)), M) /\ ren_frame m M.
  Proof.
    intros Hm Hl Hf HF1 HF2. destruct (pos_call_fast o m b s d fuel Hm Hl Hf HF1 HF2) as [m1 [[P [A [S1 _]]] Hfr]].
    destruct (fast_cols_ok o s Hl) as [Hok [_ [_ Hlen]]].
    pose proof Hl as [Hnn [_ [Hmax [_ [_ Hfast]]]]]. destruct Hm as [_ [Hbits [Hs _]]].
    exists (upd m1 (length m) []). split.
    - rewrite (tr_ren_off_rel m m1 b s (length m) _ p (S (S (S (S d)))) fuel Hs Hnn Hf ltac:(lia) P A Hok Hlen).
      unfold RenDefs.ren_off. rewrite (ren_position_is_fast dr o s Hfast). reflexivity.
    - apply ren_frame_upd_new; try assumption; [lia|apply (lt_length_of_arr _ _ _ A)].
  Qed.

  Theorem tr_ren_pos_fast m b s off d fuel : fast_mem o m b s -> fast_line o s -> 0 <= off ->
    (length s < fuel)%nat -> (nph < fuel)%nat -> (fuel_tabs <= fuel)%nat ->
    exists M, callf cprog fuel (S (S (S (S (S (S (S d))))))) F_ren_pos [VPtr b 0; VInt off] m
              = Ok (VInt (RenDefs.ren_pos dr o s off), M) /\ ren_frame m M.
  Proof.
    intros Hm Hl Hoff Hf HF1 HF2. destruct (pos_call_fast o m b s d fuel Hm Hl Hf HF1 HF2) as [m1 [[P [A [S1 _]]] Hfr]].
    destruct (fast_cols_ok o s Hl) as [Hok [_ [_ Hlen]]].
    pose proof Hl as [Hnn [_ [Hmax [_ [_ Hfast]]]]]. destruct Hm as [_ [Hbits [Hs _]]].
    exists (upd m1 (length m) []). split.
    - rewrite (tr_ren_pos_rel m m1 b s (length m) _ off (S (S (S (S d)))) fuel Hs Hnn Hf ltac:(lia) P A Hok Hlen Hoff).
      rewrite <- (ren_position_is_fast dr o s Hfast). rewrite (ren_pos_model dr o s off Hoff). reflexivity.
    - apply ren_frame_upd_new; try assumption; [lia|apply (lt_length_of_arr _ _ _ A)].
  Qed.

  Theorem tr_ren_next_fast m b s p dir d fuel : fast_mem o m b s -> fast_line o s ->
    (length s < fuel)%nat -> (nph < fuel)%nat -> (fuel_tabs <= fuel)%nat ->
    exists M, callf cprog fuel (S (S (S (S (S (S (S (S d)))))))) F_ren_next [VPtr b 0; VInt p; VInt dir] m
              = Ok (VInt (RenDefs.ren_next dr o s p dir), M) /\ ren_frame m M.
  Proof.
    intros Hm Hl Hf HF1 HF2.
    destruct (pos_call_fast o m b s (S d) fuel Hm Hl Hf HF1 HF2) as [m1 [P1 Hfr1]].
    pose proof P1 as [_ [A1 _]].
    pose proof Hm as [_ [Hbits [Hs _]]].
    assert (Hfr1' : ren_frame m (upd m1 (length m) [])) by (apply ren_frame_upd_new; try assumption; [lia|apply (lt_length_of_arr _ _ _ A1)]).
    pose proof (fast_mem_frame o m _ b s Hm Hfr1') as Hm1'.
    destruct (pos_call_fast o (upd m1 (length m) []) b s d fuel Hm1' Hl Hf HF1 HF2) as [m3 [P2 Hfr3]].
    pose proof P2 as [_ [A3 _]].
    destruct (fast_cols_ok o s Hl) as [Hok [Hnx [Hpv Hlen]]].
    pose proof Hl as [Hnn [_ [Hmax [_ [_ Hfast]]]]].
    exists (upd m3 (length (upd m1 (length m) [])) []). split.
    - rewrite (tr_ren_next_rel m m1 m3 b s (length m) _ _ p dir (S (S (S (S d)))) fuel Hs Hnn Hf ltac:(lia) P1 P2 Hok Hlen Hnx Hpv).
      rewrite <- (ren_position_is_fast dr o s Hfast). rewrite ren_next_model. reflexivity.
    - apply (ren_frame_trans m (upd m1 (length m) [])); [exact Hfr1'|].
      destruct Hm1' as [_ [Hb1 _]]. apply ren_frame_upd_new; try assumption; [lia|apply (lt_length_of_arr _ _ _ A3)].
  Qed.

  Theorem tr_ren_cursor_fast m b s p d fuel : fast_mem o m b s -> fast_line o s ->
    (length s < fuel)%nat -> (nph < fuel)%nat -> (fuel_tabs <= fuel)%nat ->
    exists M, callf cprog fuel (S (S (S (S (S (S (S (S d)))))))) F_ren_cursor [VPtr b 0; VInt p] m
              = Ok (VInt (RenDefs.ren_cursor dr o s p), M) /\ ren_frame m M.
  Proof.
    intros Hm Hl Hf HF1 HF2.
    destruct (pos_call_fast o m b s (S d) fuel Hm Hl Hf HF1 HF2) as [m1 [P1 Hfr1]].
    pose proof P1 as [_ [A1 _]].
    pose proof Hm as [_ [Hbits [Hs _]]].
    pose proof (fast_mem_frame o m _ b s Hm Hfr1) as Hm1.
    destruct (pos_call_fast o m1 b s d fuel Hm1 Hl Hf HF1 HF2) as [m3 [P2 Hfr3]].
    pose proof P2 as [_ [A3 _]].
    destruct (fast_cols_ok o s Hl) as [Hok [Hnx [Hpv Hlen]]].
    pose proof Hl as [Hnn [Hnt [Hmax [_ [_ Hfast]]]]].
    pose proof (lt_length_of_arr _ _ _ A1) as L1. pose proof (lt_length_of_arr _ _ _ A3) as L3.
    pose proof (bits_lt m Hbits) as LB.
    assert (A3g : int_arr_at m3 (length m) (ren_fast (uc_slen s) s 0)).
    { unfold int_arr_at. destruct Hfr3 as [_ [O _]]. rewrite O by lia. exact A1. }
    exists (upd (upd m3 (length m1) []) (length m) []). split.
    - rewrite (tr_ren_cursor_rel m m1 m3 b s (length m) (length m1) _ p (S (S (S (S d)))) fuel Hs Hnn Hf ltac:(lia)
                 ltac:(intros q Hq; apply (no_trunc_step s q Hnt Hq)) P1 P2 A3g ltac:(lia) Hok Hlen Hnx Hpv).
      rewrite <- (ren_position_is_fast dr o s Hfast). rewrite ren_cursor_model. reflexivity.
    - pose proof (ren_frame_trans m m1 m3 Hfr1 Hfr3) as H13.
      apply ren_frame_upd_new; try assumption; [|lia|rewrite upd_length; destruct H13; lia].
      apply ren_frame_upd_new; try assumption. destruct Hfr1; lia.
  Qed.
End Fast.

(* the round trip of C17_roundtrip on the C text: the column the translated ren_pos returns for character off, given
   to the translated ren_off, comes back as off *)
Theorem tr_roundtrip_fast o m b s off d fuel : fast_mem o m b s -> fast_line o s -> 0 <= off < Z.of_nat (uc_slen s) ->
  (length s < fuel)%nat -> (nph < fuel)%nat -> (fuel_tabs <= fuel)%nat ->
  exists v M1 M2,
    callf cprog fuel (S (S (S (S (S (S (S d))))))) F_ren_pos [VPtr b 0; VInt off] m = Ok (VInt v, M1) /\
    callf cprog fuel (S (S (S (S (S (S (S d))))))) F_ren_off [VPtr b 0; VInt v] M1 = Ok (VInt off, M2) /\ ren_frame m M2.
Proof.
  intros Hm Hl Hoff Hf HF1 HF2. set (dr := fun (_ : bytes) (ord : list nat) => ord).
  destruct (tr_ren_pos_fast dr o m b s off d fuel Hm Hl ltac:(lia) Hf HF1 HF2) as [M1 [X1 F1]].
  destruct (tr_ren_off_fast dr o M1 b s (RenDefs.ren_pos dr o s off) d fuel (fast_mem_frame o m M1 b s Hm F1) Hl Hf HF1 HF2) as [M2 [X2 F2]].
  exists (RenDefs.ren_pos dr o s off), M1, M2. split; [exact X1|]. split; [|apply (ren_frame_trans m M1 M2); assumption].
  rewrite X2. destruct (roundtrip dr o (fun s0 => Permutation_refl _) s) as [R _]. rewrite (R off Hoff). reflexivity.
Qed.

(* ------------------------------------------------------------------ deciding the hypotheses on concrete memories / lines (for the Examples) *)
Lemma ro_at_upd m g x : ro_at m -> ro_g g = false -> ro_at (upd m g x).
Proof.
  intros H Hg g' Hg'. destruct (Nat.lt_ge_cases g (length m)) as [L|L].
  - rewrite mem_upd_other; [apply H; exact Hg'|exact L|intro E; subst g'; congruence].
  - unfold upd. rewrite firstn_all2, skipn_all2 by lia. pose proof (ro_lt m g' H Hg').
    rewrite nth_error_app1 by lia. apply H. exact Hg'.
Qed.
Lemma globals_at_self : globals_at cglobals.
Proof. intros g blk H. exact H. Qed.
Lemma no_trunc_dec s : forallb (fun q => (q + uc_len_b (nthb s q) <=? length s)%nat) (seq 0 (length s)) = true -> no_trunc s.
Proof. intros H q Hq. rewrite forallb_forall in H. apply Nat.leb_le. apply H. apply in_seq. lia. Qed.
