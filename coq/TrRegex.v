(* TrRegex.v -- the byte-level leaf functions of the regex engine model (ReSyntax.v, ReParse.v, ReVM.v) are
   what the C text of /repo/regex.c says: running the CLite term that tools/c2clite.py generated from regex.c
   (GenCFuncs.v: cf_re_uc_len, cf_re_uc_dec, cf_re_uc_beg, cf_re_isword, cf_brk_len, ...) gives, for ALL strings
   in memory and ALL offsets, the value of the model -- and no checked load leaves the block of the string
   (bytes + terminator), no signed operation overflows, no fuel runs out.
   Since fix 6b15ed7 regex.c's uc_len / uc_dec stop at the terminator of a truncated multi-byte sequence: the
   theorems below need NO hypothesis about complete sequences. *)
From Coq Require Import List ZArith NArith Bool Lia.
From NV Require Import Bytes GenConsts ReSyntax ReParse ReVM CLite CLiteProps GenCFuncs CLiteTac.
Import ListNotations.
Local Open Scope Z_scope.

(* regex.c has private copies of the UTF-8 helpers: nothing here depends on the theorems about uc.c (TrUc*.v); the
   facts about one byte (decided by trying the 256 values) are restated here *)
Lemma cc_c0 : forall c, (c < 256)%N ->
  negb (Z.land (Z.lnot (Z.of_N c)) 192 =? 0) = negb (bit c 128 && bit c 64).
Proof. byte_fact. Qed.
Lemma cc_20 : forall c, (c < 256)%N -> negb (Z.land (Z.lnot (Z.of_N c)) 32 =? 0) = negb (bit c 32).
Proof. byte_fact. Qed.
Lemma cc_10 : forall c, (c < 256)%N -> negb (Z.land (Z.lnot (Z.of_N c)) 16 =? 0) = negb (bit c 16).
Proof. byte_fact. Qed.
Lemma cc_08 : forall c, (c < 256)%N -> negb (Z.land (Z.lnot (Z.of_N c)) 8 =? 0) = negb (bit c 8).
Proof. byte_fact. Qed.
Lemma sh_1f_6 : forall c, (c < 256)%N ->
  shl32 (Z.land (Z.of_N c) 31) 6 = Ok (Z.of_N (N.shiftl (N.land c 31) 6)).
Proof. byte_fact. Qed.
Lemma sh_0f_12 : forall c, (c < 256)%N ->
  shl32 (Z.land (Z.of_N c) 15) 12 = Ok (Z.of_N (N.shiftl (N.land c 15) 12)).
Proof. byte_fact. Qed.
Lemma sh_07_18 : forall c, (c < 256)%N ->
  shl32 (Z.land (Z.of_N c) 7) 18 = Ok (Z.of_N (N.shiftl (N.land c 7) 18)).
Proof. byte_fact. Qed.
Lemma sx_3f : forall c, (c < 256)%N -> Z.land (wrap I32 (wrap I8 (Z.of_N c))) 63 = Z.of_N (N.land c 63).
Proof. byte_fact. Qed.
Lemma sh_3f_6 : forall c, (c < 256)%N ->
  shl32 (Z.of_N (N.land c 63)) 6 = Ok (Z.of_N (N.shiftl (N.land c 63) 6)).
Proof. byte_fact. Qed.
Lemma sh_3f_12 : forall c, (c < 256)%N ->
  shl32 (Z.of_N (N.land c 63)) 12 = Ok (Z.of_N (N.shiftl (N.land c 63) 12)).
Proof. byte_fact. Qed.
Lemma cc_z0 : forall c, (c < 256)%N -> (wrap I8 (Z.of_N c) =? 0) = (c =? 0)%N.
Proof. byte_fact. Qed.
Lemma nonul_nthb_nz s p : nonul s -> (p < length s)%nat -> (nthb s p =? 0)%N = false.
Proof.
  intros H Hp. unfold nonul in H. rewrite Forall_forall in H.
  assert (byte_ok (nthb s p)) as [Hb _] by (apply H; unfold nthb; apply nth_In; exact Hp).
  apply N.eqb_neq. lia.
Qed.

(* ------------------------------------------------------------------ uc_len (regex.c) *)
Lemma cc_gt0 : forall c, (c < 256)%N -> (0 <? Z.of_N c) = negb (c =? 0)%N.
Proof. byte_fact. Qed.

(* nthb past a nonzero byte stays inside the string *)
Lemma nthb_nz_lt (s : bytes) p : nthb s p <> 0%N -> (p < length s)%nat.
Proof. intro H. destruct (Nat.lt_ge_cases p (length s)); [assumption|]. rewrite nthb_end in H by lia. congruence. Qed.

Definition re_uc_len_loop : stmt :=
  match fn_body cf_re_uc_len with SSeq _ (SSeq _ (SSeq _ (SSeq _ (SSeq (SSeq _ w) _)))) => w | _ => SSkip end.
Definition re_uc_len_ret : stmt :=
  match fn_body cf_re_uc_len with SSeq _ (SSeq _ (SSeq _ (SSeq _ (SSeq _ r)))) => r | _ => SSkip end.

(* the scan of the continuation bytes: for (i = 1; i < n; i++) if (!s[i]) return i;  return n; *)
Lemma re_uc_len_tail_ok call m b s o c n fuel2 : str_at m b s -> bytes_lt256 s ->
  forall k i fuel, (n - i = k)%nat -> (1 <= i <= n)%nat -> (n <= 4)%nat -> (o + i <= length s)%nat -> (k < fuel)%nat ->
  exists st',
  match exec call fuel re_uc_len_loop (mkst [VPtr b (Z.of_nat o); VInt c; VInt (Z.of_nat n); VInt (Z.of_nat i)] m) with
  | ONormal st1 => exec call fuel2 re_uc_len_ret st1
  | o => o
  end = OReturn (VInt (Z.of_nat (ucl_scan k (skipn (o + i) s) i))) st' /\ memm st' = m.
Proof.
  intros Hs H256. induction k as [|k IH]; intros i fuel Hk Hi Hn Ho Hf; (destruct fuel as [|fuel]; [lia|]);
    unfold re_uc_len_loop, re_uc_len_ret; cbn [fn_body cf_re_uc_len]; rewrite exec_for; xstep.
  - destruct (Z.ltb_spec (Z.of_nat i) (Z.of_nat n)); [lia|]. xstep.
    assert (i = n) as -> by lia. cbn [ucl_scan]. eexists; split; reflexivity.
  - destruct (Z.ltb_spec (Z.of_nat i) (Z.of_nat n)); [|lia]. xstep.
    replace (Z.of_nat o + 1 * Z.of_nat i) with (Z.of_nat (o + i)) by lia.
    xload Hs H256 (o + i)%nat.
    pose proof (nthb_lt256 s (o + i) H256) as Hc. rewrite (cc_z0 _ Hc).
    destruct (Nat.eq_dec (o + i) (length s)) as [E|E].
    + rewrite nthb_end by lia. rewrite skipn_end by lia. cbn [N.eqb ucl_scan negb]. xstep.
      eexists; split; reflexivity.
    + rewrite (skipn_cons_nthb s (o + i)) by lia. cbn [ucl_scan].
      destruct (N.eqb_spec (nthb s (o + i)) 0) as [E0|E0]; xstep.
      * eexists; split; reflexivity.
      * rewrite (chk_I32 (Z.of_nat i + 1)) by lia. xstep.
        replace (Z.of_nat i + 1) with (Z.of_nat (S i)) by lia.
        change (SFor _ _ _) with re_uc_len_loop.
        destruct (IH (S i) fuel) as [st' [X Y]]; try lia.
        replace (o + S i)%nat with (S (o + i)) in X by lia.
        exists st'. split; [|exact Y]. rewrite <- X. reflexivity.
Qed.

Lemma re_ucfull_le c : (re_ucfull c <= 4)%nat.
Proof. unfold re_ucfull. repeat match goal with |- context [if ?b then _ else _] => destruct b end; lia. Qed.

Theorem tr_re_uc_len m b s o d fuel :
  str_at m b s -> bytes_lt256 s -> (o <= length s)%nat -> (4 <= fuel)%nat ->
  callf cprog fuel (S d) F_re_uc_len [VPtr b (Z.of_nat o)] m
  = Ok (VInt (Z.of_nat (re_uclen_at s o)), m).
Proof.
  intros Hs H256 Ho Hf. enter F_re_uc_len cf_re_uc_len. xstep.
  replace (Z.of_nat o + 1 * 0) with (Z.of_nat o) by lia.
  xload Hs H256 o. pose proof (nthb_lt256 s o H256) as Hc.
  rewrite (cc_c0 _ Hc). unfold re_uclen_at.
  destruct (Nat.eq_dec o (length s)) as [E|E].
  { rewrite nthb_end by lia. rewrite skipn_end by lia. cbn. reflexivity. }
  rewrite (skipn_cons_nthb s o) by lia. cbn [re_uclen].
  set (c := nthb s o) in *.
  destruct (negb (bit c 128 && bit c 64)) eqn:E1; xstep.
  { rewrite (cc_gt0 _ Hc). destruct (c =? 0)%N; reflexivity. }
  assert (Hnz : c <> 0%N) by (intro Z0; rewrite Z0 in E1; cbn in E1; discriminate).
  pose proof (nthb_nz_lt s o Hnz) as Hlt.
  assert (Tail : forall n, (1 <= n <= 4)%nat -> n = re_ucfull c ->
    exists st',
    match exec (callf cprog fuel d) fuel re_uc_len_loop
                (mkst [VPtr b (Z.of_nat o); VInt (Z.of_N c); VInt (Z.of_nat n); VInt 1] m) with
    | ONormal st1 => exec (callf cprog fuel d) fuel re_uc_len_ret st1
    | o => o
    end = OReturn (VInt (Z.of_nat (ucl_scan (re_ucfull c - 1) (skipn (S o) s) 1))) st' /\ memm st' = m).
  { intros n Hn En. rewrite <- En.
    destruct (re_uc_len_tail_ok (callf cprog fuel d) m b s o (Z.of_N c) n fuel Hs H256 (n - 1) 1 fuel) as [st' [X Y]]; try lia.
    replace (o + 1)%nat with (S o) in X by lia. exists st'. split; assumption. }
  unfold re_uc_len_loop, re_uc_len_ret in Tail; cbn [fn_body cf_re_uc_len] in Tail.
  rewrite (cc_20 _ Hc), (cc_10 _ Hc), (cc_08 _ Hc).
  unfold re_ucfull in Tail at 1. rewrite E1 in Tail.
  destruct (negb (bit c 32)) eqn:E2; xstep.
  { destruct (Tail 2%nat ltac:(lia) eq_refl) as [st' [X Y]]. change (Z.of_nat 2) with 2 in X. rewrite X, Y. reflexivity. }
  destruct (negb (bit c 16)) eqn:E3; xstep.
  { destruct (Tail 3%nat ltac:(lia) eq_refl) as [st' [X Y]]. change (Z.of_nat 3) with 3 in X. rewrite X, Y. reflexivity. }
  destruct (negb (bit c 8)) eqn:E4; xstep.
  { destruct (Tail 4%nat ltac:(lia) eq_refl) as [st' [X Y]]. change (Z.of_nat 4) with 4 in X. rewrite X, Y. reflexivity. }
  destruct (Tail 1%nat ltac:(lia) eq_refl) as [st' [X Y]]. change (Z.of_nat 1) with 1 in X. rewrite X, Y. reflexivity.
Qed.

(* ------------------------------------------------------------------ uc_dec (regex.c) *)
Lemma rdk_in w (s : bytes) k : (k <= length s)%nat -> rdk w s k = ReSyntax.Ok (nthb s k).
Proof.
  intro H. unfold rdk, nthb. destruct (nth_error s k) as [x|] eqn:E.
  - rewrite (nth_error_nth s k 0%N E). reflexivity.
  - apply nth_error_None in E. replace (Nat.eqb k (length s)) with true by (symmetry; apply Nat.eqb_eq; lia).
    rewrite nth_overflow by lia. reflexivity.
Qed.
Lemma ucl_scan_le k : forall r i, (ucl_scan k r i <= i + length r)%nat.
Proof.
  induction k as [|k IH]; intros r i; cbn [ucl_scan]; [lia|]. destruct r as [|x r]; cbn [length]; [lia|].
  destruct (x =? 0)%N; [lia|]. specialize (IH r (S i)). lia.
Qed.
(* the sequence uc_len reports lies inside the string *)
Lemma re_uclen_at_in (s : bytes) o : (o <= length s)%nat -> (o + re_uclen_at s o <= length s)%nat.
Proof.
  intro Ho. unfold re_uclen_at. destruct (Nat.eq_dec o (length s)) as [E|E].
  - rewrite skipn_end by lia. cbn. lia.
  - rewrite (skipn_cons_nthb s o) by lia. cbn [re_uclen].
    destruct (negb _); [destruct (_ =? 0)%N; lia|].
    pose proof (ucl_scan_le (re_ucfull (nthb s o) - 1) (skipn (S o) s) 1) as L. rewrite skipn_length in L. lia.
Qed.

Lemma lor_trunc c : Z.lor 2097152 (Z.of_N c) = Z.of_N (N.lor 2097152 c).
Proof. exact (of_N_lor 2097152 c). Qed.

Theorem tr_re_uc_dec m b s o d fuel :
  str_at m b s -> bytes_lt256 s -> (o <= length s)%nat -> (4 <= fuel)%nat ->
  exists v, re_ucdec s o = ReSyntax.Ok v /\
  callf cprog fuel (S (S d)) F_re_uc_dec [VPtr b (Z.of_nat o)] m = Ok (VInt (Z.of_N v), m).
Proof.
  intros Hs H256 Ho Hf. enter F_re_uc_dec cf_re_uc_dec. xstep.
  replace (Z.of_nat o + 1 * 0) with (Z.of_nat o) by lia.
  xload Hs H256 o. pose proof (nthb_lt256 s o H256) as Hc.
  pose proof (nthb_lt256 s (o + 1) H256) as H1. pose proof (nthb_lt256 s (o + 2) H256) as H2.
  pose proof (nthb_lt256 s (o + 3) H256) as H3.
  pose proof (re_uclen_at_in s o Ho) as Hin.
  unfold re_ucdec. rewrite (rdk_in _ s o Ho). cbn [ReSyntax.bind].
  set (c := nthb s o) in *. set (b1 := nthb s (o + 1)) in *. set (b2 := nthb s (o + 2)) in *. set (b3 := nthb s (o + 3)) in *.
  rewrite (cc_c0 c Hc).
  destruct (negb (bit c 128 && bit c 64)) eqn:E1; xstep; [eexists; split; reflexivity|].
  rewrite (tr_re_uc_len m b s o d fuel Hs H256 Ho Hf). xstep.
  rewrite (cc_20 c Hc), (cc_10 c Hc), (cc_08 c Hc).
  unfold re_ucfull. rewrite E1.
  destruct (negb (bit c 32)) eqn:E2; xstep.
  { destruct (Nat.ltb_spec (re_uclen_at s o) 2) as [L|L];
      (destruct (Z.ltb_spec (Z.of_nat (re_uclen_at s o)) 2) as [L'|L']; [|lia]) || (destruct (Z.ltb_spec (Z.of_nat (re_uclen_at s o)) 2) as [L'|L']; [lia|]); xstep.
    - rewrite (lor_trunc c). eexists; split; reflexivity.
    - repeat (progress (rewrite ?(cc_20 c Hc), ?E2; xstep)).
      rewrite (rdk_in _ s (o + 1)) by lia. cbn [ReSyntax.bind].
      fold_shl. rewrite (sh_1f_6 c Hc). xstep.
      rewrite (load_str m b s _ (o + 1) Hs) by lia. xstep. fold b1.
      rewrite (sx_3f b1 H1), of_N_lor. eexists; split; reflexivity. }
  destruct (negb (bit c 16)) eqn:E3; xstep.
  { destruct (Nat.ltb_spec (re_uclen_at s o) 3) as [L|L];
      (destruct (Z.ltb_spec (Z.of_nat (re_uclen_at s o)) 3) as [L'|L']; [|lia]) || (destruct (Z.ltb_spec (Z.of_nat (re_uclen_at s o)) 3) as [L'|L']; [lia|]); xstep.
    - rewrite (lor_trunc c). eexists; split; reflexivity.
    - repeat (progress (rewrite ?(cc_20 c Hc), ?(cc_10 c Hc), ?E2, ?E3; xstep)).
      rewrite (rdk_in _ s (o + 1)), (rdk_in _ s (o + 2)) by lia. cbn [ReSyntax.bind].
      fold_shl. rewrite (sh_0f_12 c Hc). xstep.
      rewrite (load_str m b s _ (o + 1) Hs) by lia. xstep. fold b1. rewrite (sx_3f b1 H1).
      fold_shl. rewrite (sh_3f_6 b1 H1). xstep.
      rewrite (load_str m b s _ (o + 2) Hs) by lia. xstep. fold b2.
      rewrite (sx_3f b2 H2), !of_N_lor. eexists; split; reflexivity. }
  destruct (negb (bit c 8)) eqn:E4; xstep.
  { destruct (Nat.ltb_spec (re_uclen_at s o) 4) as [L|L];
      (destruct (Z.ltb_spec (Z.of_nat (re_uclen_at s o)) 4) as [L'|L']; [|lia]) || (destruct (Z.ltb_spec (Z.of_nat (re_uclen_at s o)) 4) as [L'|L']; [lia|]); xstep.
    - rewrite (lor_trunc c). eexists; split; reflexivity.
    - repeat (progress (rewrite ?(cc_20 c Hc), ?(cc_10 c Hc), ?(cc_08 c Hc), ?E2, ?E3, ?E4; xstep)).
      rewrite (rdk_in _ s (o + 1)), (rdk_in _ s (o + 2)), (rdk_in _ s (o + 3)) by lia. cbn [ReSyntax.bind].
      fold_shl. rewrite (sh_07_18 c Hc). xstep.
      rewrite (load_str m b s _ (o + 1) Hs) by lia. xstep. fold b1. rewrite (sx_3f b1 H1).
      fold_shl. rewrite (sh_3f_12 b1 H1). xstep.
      rewrite (load_str m b s _ (o + 2) Hs) by lia. xstep. fold b2. rewrite (sx_3f b2 H2).
      fold_shl. rewrite (sh_3f_6 b2 H2). xstep.
      rewrite (load_str m b s _ (o + 3) Hs) by lia. xstep. fold b3.
      rewrite (sx_3f b3 H3), !of_N_lor. eexists; split; reflexivity. }
  (* 0xf8..0xff: uc_len is 1 *)
  assert (re_uclen_at s o = 1%nat) as L1.
  { unfold re_uclen_at. assert (c <> 0%N) as Hnz by (intro Z0; rewrite Z0 in E1; cbn in E1; discriminate).
    pose proof (nthb_nz_lt s o Hnz). rewrite (skipn_cons_nthb s o) by lia. cbn [re_uclen]. fold c. rewrite E1.
    unfold re_ucfull. rewrite E1, E2, E3, E4. reflexivity. }
  rewrite L1. cbn [Nat.ltb Nat.leb Z.of_nat Pos.of_succ_nat]. xstep.
  repeat (progress (rewrite ?(cc_20 c Hc), ?(cc_10 c Hc), ?(cc_08 c Hc), ?E2, ?E3, ?E4; xstep)).
  eexists; split; reflexivity.
Qed.

(* ------------------------------------------------------------------ uc_beg (regex.c) *)
Lemma cc_cont_re : forall c, (c < 256)%N -> (Z.land (Z.of_N c) 192 =? 128) = ReVM.is_cont c.
Proof. byte_fact. Qed.

Definition re_uc_beg_loop : stmt := match fn_body cf_re_uc_beg with SSeq w _ => w | _ => SSkip end.

(* ReVM.uc_beg line i is the index, counted from beg, of the first byte of the character that contains byte i *)
Lemma re_uc_beg_loop_ok call m b s ob : str_at m b s -> bytes_lt256 s ->
  forall k o fuel, (o - ob = k)%nat -> (ob <= o <= length s)%nat -> (k < fuel)%nat ->
  exec call fuel re_uc_beg_loop (mkst [VPtr b (Z.of_nat ob); VPtr b (Z.of_nat o)] m)
  = ONormal (mkst [VPtr b (Z.of_nat ob); VPtr b (Z.of_nat (ob + ReVM.uc_beg (skipn ob s) k))] m).
Proof.
  intros Hs H256. induction k as [|k IH]; intros o fuel Hk Ho Hf; (destruct fuel as [|fuel]; [lia|]);
    unfold re_uc_beg_loop; cbn [fn_body cf_re_uc_beg]; rewrite exec_while; xstep; cbn [ptr_cmp Nat.eqb]; rewrite Nat.eqb_refl; xstep.
  - assert (o = ob) as -> by lia. cbn [ReVM.uc_beg]. rewrite Nat.add_0_r.
    destruct (Z.ltb_spec (Z.of_nat ob) (Z.of_nat ob)); [lia|]. reflexivity.
  - destruct (Z.ltb_spec (Z.of_nat ob) (Z.of_nat o)); [|lia]. xstep.
    xload Hs H256 o. rewrite (cc_cont_re _ (nthb_lt256 s o H256)).
    cbn [ReVM.uc_beg]. rewrite nthb_skipn. replace (ob + S k)%nat with o by lia.
    destruct (ReVM.is_cont (nthb s o)); xstep; [|repeat f_equal; lia].
    replace (Z.of_nat o + -1) with (Z.of_nat (o - 1)) by lia.
    change (SWhile _ _) with re_uc_beg_loop. rewrite (IH (o - 1)%nat fuel) by lia. reflexivity.
Qed.

Theorem tr_re_uc_beg m b s ob o d fuel :
  str_at m b s -> bytes_lt256 s -> (ob <= o <= length s)%nat -> (length s < fuel)%nat ->
  callf cprog fuel (S d) F_re_uc_beg [VPtr b (Z.of_nat ob); VPtr b (Z.of_nat o)] m
  = Ok (VPtr b (Z.of_nat (ob + ReVM.uc_beg (skipn ob s) (o - ob))), m).
Proof.
  intros Hs H256 Ho Hf. enter F_re_uc_beg cf_re_uc_beg. xstep.
  change (SWhile _ _) with re_uc_beg_loop.
  rewrite (re_uc_beg_loop_ok _ m b s ob Hs H256 _ o fuel eq_refl) by lia. xstep. reflexivity.
Qed.
(* the form the matcher uses: beg = the start of the line *)
Corollary tr_re_uc_beg_line m b s o d fuel :
  str_at m b s -> bytes_lt256 s -> (o <= length s)%nat -> (length s < fuel)%nat ->
  callf cprog fuel (S d) F_re_uc_beg [VPtr b 0; VPtr b (Z.of_nat o)] m
  = Ok (VPtr b (Z.of_nat (ReVM.uc_beg s o)), m).
Proof.
  intros Hs H256 Ho Hf. pose proof (tr_re_uc_beg m b s 0 o d fuel Hs H256 ltac:(lia) Hf) as T.
  cbn [skipn Z.of_nat Nat.add] in T. rewrite Nat.sub_0_r in T. exact T.
Qed.

(* ------------------------------------------------------------------ isword (regex.c) *)
Theorem tr_re_isword m b s o d fuel : str_at m b s -> bytes_lt256 s -> (o <= length s)%nat ->
  callf cprog fuel (S d) F_re_isword [VPtr b (Z.of_nat o)] m = Ok (VInt (b2z (ReVM.isword (nthb s o))), m).
Proof.
  intros Hs H256 Ho. enter F_re_isword cf_re_isword. xstep.
  replace (Z.of_nat o + 1 * 0) with (Z.of_nat o) by lia. xload Hs H256 o.
  pose proof (nthb_lt256 s o H256) as Hc. generalize dependent (nthb s o). intros c Hc.
  sweep_byte c Hc.
Qed.

(* ------------------------------------------------------------------ brk_len (regex.c) *)
(* a char promoted to int compared with an ASCII constant *)
Lemma sx_eq_93 : forall c, (c < 256)%N -> (sx c =? 93) = (c =? 93)%N.  Proof. byte_fact. Qed.
Lemma sx_eq_94 : forall c, (c < 256)%N -> (sx c =? 94) = (c =? 94)%N.  Proof. byte_fact. Qed.
Lemma sx_eq_91 : forall c, (c < 256)%N -> (sx c =? 91) = (c =? 91)%N.  Proof. byte_fact. Qed.
Lemma sx_eq_58 : forall c, (c < 256)%N -> (sx c =? 58) = (c =? 58)%N.  Proof. byte_fact. Qed.
Lemma sx_eq_61 : forall c, (c < 256)%N -> (sx c =? 61) = (c =? 61)%N.  Proof. byte_fact. Qed.
Lemma sx_eq_0 : forall c, (c < 256)%N -> (sx c =? 0) = (c =? 0)%N.  Proof. byte_fact. Qed.
Ltac fold_sx := repeat match goal with |- context [wrap I32 (wrap I8 (Z.of_N ?c))] => change (wrap I32 (wrap I8 (Z.of_N c))) with (sx c) end.

Lemma hd0_skipn (s : bytes) o : hd0 (skipn o s) = nthb s o.
Proof. rewrite <- (Nat.add_0_r o) at 2. rewrite <- nthb_skipn. destruct (skipn o s); reflexivity. Qed.

(* while (s[n] && s[n] != ']') n++;   -- how far it moves *)
Fixpoint span93 (r : bytes) : nat :=
  match r with [] => 0%nat | c :: r' => if (c =? 93)%N then 0%nat else S (span93 r') end.
Lemma span93_le r : (span93 r <= length r)%nat.
Proof. induction r as [|c r IH]; cbn; [lia|]. destruct (c =? 93)%N; lia. Qed.
Lemma brk_body_true r :
  brk_body true r = match skipn (span93 r) r with [] => span93 r | _ :: r' => S (span93 r + brk_body false r') end.
Proof.
  induction r as [|c r IH]; [reflexivity|]. cbn [brk_body span93]. destruct (c =? 93)%N; [reflexivity|].
  cbn [skipn]. rewrite IH. destruct (skipn (span93 r) r); reflexivity.
Qed.
Lemma brk_body_le inner r : (brk_body inner r <= length r)%nat.
Proof.
  revert inner; induction r as [|c r IH]; intro inner; cbn [brk_body length]; [lia|].
  pose proof (IH true); pose proof (IH false).
  destruct inner; [destruct (c =? 93)%N; lia|]. destruct (c =? 93)%N; [lia|]. destruct (_ && _); lia.
Qed.

Definition brk_len_outer : stmt :=
  match fn_body cf_brk_len with SSeq _ (SSeq _ (SSeq _ (SSeq w _))) => w | _ => SSkip end.
Definition brk_len_inner : stmt :=
  match brk_len_outer with SWhile _ (SSeq (SIf _ w _) _) => w | _ => SSkip end.

Lemma nonul_nz (s : bytes) p : nonul s -> (p < length s)%nat -> (nthb s p =? 0)%N = false.
Proof. apply nonul_nthb_nz. Qed.

Lemma brk_len_inner_ok call m b s o : str_at m b s -> nonul s ->
  forall j n fuel, span93 (skipn (o + n) s) = j -> (o + n <= length s)%nat -> (j < fuel)%nat ->
  Z.of_nat (length s) < 2147483647 ->
  exec call fuel brk_len_inner (mkst [VPtr b (Z.of_nat o); VInt (Z.of_nat n)] m)
  = ONormal (mkst [VPtr b (Z.of_nat o); VInt (Z.of_nat (n + j))] m).
Proof.
  intros Hs Hnn. pose proof (nonul_lt256 s Hnn) as H256.
  induction j as [|j IH]; intros n fuel Hj Hp Hf Hmax; (destruct fuel as [|fuel]; [lia|]);
    unfold brk_len_inner, brk_len_outer; cbn [fn_body cf_brk_len]; rewrite exec_while; xstep;
    replace (Z.of_nat o + 1 * Z.of_nat n) with (Z.of_nat (o + n)) by lia;
    rewrite (load_str m b s _ (o + n)%nat Hs) by lia; xstep; fold_sx;
    pose proof (nthb_lt256 s (o + n) H256) as Hc; rewrite (sx_eq_0 _ Hc).
  - destruct (Nat.eq_dec (o + n) (length s)) as [E|E].
    + rewrite nthb_end by lia. cbn [N.eqb negb]. rewrite Nat.add_0_r. reflexivity.
    + rewrite nonul_nz by (auto; lia). cbn [negb].
      rewrite (load_str m b s _ (o + n)%nat Hs) by lia. xstep. fold_sx. rewrite (sx_eq_93 _ Hc).
      rewrite (skipn_cons_nthb s (o + n)) in Hj by lia. cbn [span93] in Hj.
      destruct (nthb s (o + n) =? 93)%N; [|discriminate]. cbn. rewrite Nat.add_0_r. reflexivity.
  - destruct (Nat.eq_dec (o + n) (length s)) as [E|E]; [rewrite skipn_end in Hj by lia; discriminate|].
    rewrite nonul_nz by (auto; lia). cbn [negb].
    rewrite (load_str m b s _ (o + n)%nat Hs) by lia. xstep. fold_sx. rewrite (sx_eq_93 _ Hc).
    rewrite (skipn_cons_nthb s (o + n)) in Hj by lia. cbn [span93] in Hj.
    destruct (nthb s (o + n) =? 93)%N; [discriminate|]. injection Hj as Hj. cbn [negb b2z]. xstep.
    rewrite (chk_I32 (Z.of_nat n + 1)) by lia. xstep.
    replace (Z.of_nat n + 1) with (Z.of_nat (S n)) by lia.
    change (SWhile _ _) with brk_len_inner.
    rewrite (IH (S n) fuel) by (try lia; replace (o + S n)%nat with (S (o + n)) by lia; exact Hj).
    replace (S n + j)%nat with (n + S j)%nat by lia. reflexivity.
Qed.
Lemma brk_len_outer_ok call m b s o : str_at m b s -> nonul s -> Z.of_nat (length s) < 2147483647 ->
  forall k n fuel, (length s - (o + n) <= k)%nat -> (o + n <= length s)%nat -> (k < fuel)%nat ->
  exec call fuel brk_len_outer (mkst [VPtr b (Z.of_nat o); VInt (Z.of_nat n)] m)
  = ONormal (mkst [VPtr b (Z.of_nat o); VInt (Z.of_nat (n + brk_body false (skipn (o + n) s)))] m).
Proof.
  intros Hs Hnn Hmax. pose proof (nonul_lt256 s Hnn) as H256.
  induction k as [|k IH]; intros n fuel Hk Hp Hf; (destruct fuel as [|fuel]; [lia|]);
    unfold brk_len_outer; cbn [fn_body cf_brk_len]; rewrite exec_while; xstep;
    replace (Z.of_nat o + 1 * Z.of_nat n) with (Z.of_nat (o + n)) by lia;
    rewrite (load_str m b s _ (o + n)%nat Hs) by lia; xstep; fold_sx;
    pose proof (nthb_lt256 s (o + n) H256) as Hc; rewrite (sx_eq_0 _ Hc).
  - assert (o + n = length s)%nat as E by lia. rewrite nthb_end by lia. rewrite skipn_end by lia.
    cbn. rewrite Nat.add_0_r. reflexivity.
  - destruct (Nat.eq_dec (o + n) (length s)) as [E|E].
    { rewrite nthb_end by lia. rewrite skipn_end by lia. cbn. rewrite Nat.add_0_r. reflexivity. }
    rewrite nonul_nz by (auto; lia). cbn [negb].
    rewrite (load_str m b s _ (o + n)%nat Hs) by lia. xstep. fold_sx. rewrite (sx_eq_93 _ Hc).
    rewrite (skipn_cons_nthb s (o + n)) by lia. cbn [brk_body]. rewrite hd0_skipn.
    destruct (nthb s (o + n) =? 93)%N eqn:E93; cbn [negb b2z]; xstep.
    { rewrite Nat.add_0_r. reflexivity. }
    rewrite (load_str m b s _ (o + n)%nat Hs) by lia. xstep. fold_sx. rewrite (sx_eq_91 _ Hc).
    assert (IH' := IH). unfold brk_len_outer in IH'; cbn [fn_body cf_brk_len] in IH'.
    pose proof (nthb_lt256 s (S (o + n)) H256) as Hc1.
    (* the tail of an iteration: if (s[n']) n'++; then the loop again *)
    assert (Tail : forall n', (n < n' \/ n = n')%nat -> (o + n' <= length s)%nat ->
      forall r, r = (match skipn (o + n') s with [] => n' | _ :: r' => S (n' + brk_body false r') end) ->
      match
        exec call (S fuel) (SIf (ELoad (Some I8) (EPtrAdd 1 (ELocal 0) (ELocal 1))) (SExpr (EIncLocal true 1 (Some I32) 1)) SSkip)
             (mkst [VPtr b (Z.of_nat o); VInt (Z.of_nat n')] m)
      with
      | ONormal st2 | OContinue st2 => exec call fuel brk_len_outer st2
      | OBreak st2 => ONormal st2
      | o => o
      end = ONormal (mkst [VPtr b (Z.of_nat o); VInt (Z.of_nat r)] m)).
    { intros n' Hn' Hp' r ->. xstep.
      replace (Z.of_nat o + 1 * Z.of_nat n') with (Z.of_nat (o + n')) by lia.
      rewrite (load_str m b s _ (o + n')%nat Hs) by lia. xstep.
      rewrite (cc_z0 _ (nthb_lt256 s (o + n') H256)).
      destruct (Nat.eq_dec (o + n') (length s)) as [E'|E'].
      - rewrite nthb_end by lia. cbn [N.eqb negb]. xstep. rewrite (IH n' fuel) by lia.
        rewrite skipn_end by lia. cbn [brk_body]. rewrite Nat.add_0_r. reflexivity.
      - rewrite nonul_nz by (auto; lia). cbn [negb]. xstep.
        rewrite (chk_I32 (Z.of_nat n' + 1)) by lia. xstep.
        replace (Z.of_nat n' + 1) with (Z.of_nat (S n')) by lia.
        rewrite (IH (S n') fuel) by lia.
        rewrite (skipn_cons_nthb s (o + n')) by lia.
        replace (o + S n')%nat with (S (o + n')) by lia. reflexivity. }
    unfold brk_len_outer in Tail; cbn [fn_body cf_brk_len] in Tail.
    (* the inner scan, when it is entered *)
    assert (Inner : ((nthb s (o + n) =? 91)%N && ((nthb s (S (o + n)) =? 58)%N || (nthb s (S (o + n)) =? 61)%N)) = true ->
      match
        match exec call (S fuel) brk_len_inner (mkst [VPtr b (Z.of_nat o); VInt (Z.of_nat n)] m) with
        | ONormal st1 => exec call (S fuel) (SIf (ELoad (Some I8) (EPtrAdd 1 (ELocal 0) (ELocal 1))) (SExpr (EIncLocal true 1 (Some I32) 1)) SSkip) st1
        | o => o
        end
      with
      | ONormal st2 | OContinue st2 => exec call fuel brk_len_outer st2
      | OBreak st2 => ONormal st2
      | o => o
      end = ONormal (mkst [VPtr b (Z.of_nat o); VInt (Z.of_nat (n + S (brk_body true (skipn (S (o + n)) s))))] m)).
    { intros _.
      pose proof (span93_le (skipn (o + n) s)) as Lj. rewrite skipn_length in Lj.
      rewrite (brk_len_inner_ok call m b s o Hs Hnn _ n (S fuel) eq_refl) by lia.
      assert (Ej : span93 (skipn (o + n) s) = S (span93 (skipn (S (o + n)) s))).
      { rewrite (skipn_cons_nthb s (o + n)) by lia. cbn [span93]. rewrite E93. reflexivity. }
      apply (Tail (n + span93 (skipn (o + n) s))%nat); [left; lia|lia|].
      rewrite brk_body_true, skipn_skipn.
      replace (o + (n + span93 (skipn (o + n) s)))%nat with (S (o + n) + span93 (skipn (S (o + n)) s))%nat by lia.
      destruct (skipn (S (o + n) + span93 (skipn (S (o + n)) s)) s); lia. }
    unfold brk_len_inner, brk_len_outer in Inner; cbn [fn_body cf_brk_len] in Inner.
    assert (Plain :
      match
        exec call (S fuel) (SIf (ELoad (Some I8) (EPtrAdd 1 (ELocal 0) (ELocal 1))) (SExpr (EIncLocal true 1 (Some I32) 1)) SSkip)
             (mkst [VPtr b (Z.of_nat o); VInt (Z.of_nat n)] m)
      with
      | ONormal st2 | OContinue st2 => exec call fuel brk_len_outer st2
      | OBreak st2 => ONormal st2
      | o => o
      end = ONormal (mkst [VPtr b (Z.of_nat o); VInt (Z.of_nat (n + S (brk_body false (skipn (S (o + n)) s))))] m)).
    { apply (Tail n); [right; reflexivity|lia|]. rewrite (skipn_cons_nthb s (o + n)) by lia. lia. }
    unfold brk_len_outer in Plain; cbn [fn_body cf_brk_len] in Plain.
    destruct (nthb s (o + n) =? 91)%N eqn:E91; cbn [andb] in *.
    2:{ exact Plain. }
    rewrite (chk_I32 (Z.of_nat n + 1)) by lia. xstep.
    replace (Z.of_nat o + 1 * (Z.of_nat n + 1)) with (Z.of_nat (S (o + n))) by lia.
    rewrite (load_str m b s _ (S (o + n)) Hs) by lia. xstep. fold_sx. rewrite (sx_eq_58 _ Hc1).
    destruct (nthb s (S (o + n)) =? 58)%N eqn:E58; cbn [orb] in *.
    { exact (Inner eq_refl). }
    xstep.
    rewrite (chk_I32 (Z.of_nat n + 1)) by lia. xstep.
    replace (Z.of_nat o + 1 * (Z.of_nat n + 1)) with (Z.of_nat (S (o + n))) by lia.
    rewrite (load_str m b s _ (S (o + n)) Hs) by lia. xstep. fold_sx. rewrite (sx_eq_61 _ Hc1).
    destruct (nthb s (S (o + n)) =? 61)%N eqn:E61; cbn [orb] in *.
    { exact (Inner eq_refl). }
    exact Plain.
Qed.

Theorem tr_brk_len m b s o d fuel :
  str_at m b s -> nonul s -> (o < length s)%nat -> (length s < fuel)%nat -> Z.of_nat (length s) < 2147483647 ->
  callf cprog fuel (S d) F_brk_len [VPtr b (Z.of_nat o)] m
  = Ok (VInt (Z.of_nat (brk_len (skipn o s))), m).
Proof.
  intros Hs Hnn Ho Hf Hmax. pose proof (nonul_lt256 s Hnn) as H256.
  destruct fuel as [|fuel0]; [lia|]. remember (S fuel0) as fuel eqn:Efuel.
  pose proof (brk_len_outer_ok (callf cprog fuel d) m b s o Hs Hnn Hmax) as Outer.
  unfold brk_len_outer in Outer; cbn [fn_body cf_brk_len] in Outer.
  enter F_brk_len cf_brk_len. xstep.
  unfold brk_len. rewrite !nthb_skipn.
  (* s[1] == '^' *)
  replace (Z.of_nat o + 1 * 1) with (Z.of_nat (o + 1)) by lia.
  rewrite (load_str m b s _ (o + 1)%nat Hs) by lia. xstep. fold_sx.
  rewrite (sx_eq_94 _ (nthb_lt256 s (o + 1) H256)).
  assert (Step2 : forall n1 : nat, (1 <= n1 <= 2)%nat -> (o + n1 <= length s)%nat ->
    match
      match exec (callf cprog fuel d) fuel
              (SIf (EBin OEq I32 (ECast I32 (ELoad (Some I8) (EPtrAdd 1 (ELocal 0) (ELocal 1)))) (EConst 93))
                   (SExpr (EIncLocal true 1 (Some I32) 1)) SSkip)
              (mkst [VPtr b (Z.of_nat o); VInt (Z.of_nat n1)] m)
      with
      | ONormal st1 =>
          match exec (callf cprog fuel d) fuel brk_len_outer st1 with
          | ONormal st2 =>
              exec (callf cprog fuel d) fuel
                (SReturn (Some (ECond (EBin OEq I32 (ECast I32 (ELoad (Some I8) (EPtrAdd 1 (ELocal 0) (ELocal 1)))) (EConst 93))
                                      (EBin OAdd I32 (ELocal 1) (EConst 1)) (ELocal 1)))) st2
          | o => o
          end
      | o => o
      end
    with
    | OReturn v st => Ok (v, memm st)
    | ONormal st => Ok (VUndef, memm st)
    | OErr x => Err x
    | _ => Err EShape
    end = Ok (VInt (Z.of_nat
          (let n2 := if (nthb s (o + n1) =? 93)%N then S n1 else n1 in
           let n := (n2 + brk_body false (skipn n2 (skipn o s)))%nat in
           if (nthb s (o + n) =? 93)%N then S n else n)), m)).
  { intros n1 Hn1 Hp1. xstep.
    replace (Z.of_nat o + 1 * Z.of_nat n1) with (Z.of_nat (o + n1)) by lia.
    rewrite (load_str m b s _ (o + n1)%nat Hs) by lia. xstep. fold_sx.
    rewrite (sx_eq_93 _ (nthb_lt256 s (o + n1) H256)).
    assert (Fin : forall n2 : nat, (n1 <= n2 <= S n1)%nat -> (o + n2 <= length s)%nat ->
      match
        match exec (callf cprog fuel d) fuel brk_len_outer (mkst [VPtr b (Z.of_nat o); VInt (Z.of_nat n2)] m) with
        | ONormal st2 =>
            exec (callf cprog fuel d) fuel
              (SReturn (Some (ECond (EBin OEq I32 (ECast I32 (ELoad (Some I8) (EPtrAdd 1 (ELocal 0) (ELocal 1)))) (EConst 93))
                                    (EBin OAdd I32 (ELocal 1) (EConst 1)) (ELocal 1)))) st2
        | o => o
        end
      with
      | OReturn v st => Ok (v, memm st)
      | ONormal st => Ok (VUndef, memm st)
      | OErr x => Err x
      | _ => Err EShape
      end = Ok (VInt (Z.of_nat
            (let n := (n2 + brk_body false (skipn n2 (skipn o s)))%nat in
             if (nthb s (o + n) =? 93)%N then S n else n)), m)).
    { intros n2 Hn2 Hp2. rewrite (brk_len_outer_ok (callf cprog fuel d) m b s o Hs Hnn Hmax (length s) n2 fuel) by lia.
      rewrite skipn_skipn. cbv zeta.
      pose proof (brk_body_le false (skipn (o + n2) s)) as Lb. rewrite skipn_length in Lb.
      set (n := (n2 + brk_body false (skipn (o + n2) s))%nat) in *.
      xstep. replace (Z.of_nat o + 1 * Z.of_nat n) with (Z.of_nat (o + n)) by lia.
      rewrite (load_str m b s _ (o + n)%nat Hs) by lia. xstep. fold_sx.
      rewrite (sx_eq_93 _ (nthb_lt256 s (o + n) H256)).
      destruct (nthb s (o + n) =? 93)%N; cbn [b2z negb Z.eqb]; xstep; [|reflexivity].
      rewrite (chk_I32 (Z.of_nat n + 1)) by lia. xstep. repeat f_equal. lia. }
    unfold brk_len_outer in Fin; cbn [fn_body cf_brk_len] in Fin.
    cbv zeta.
    destruct (nthb s (o + n1) =? 93)%N eqn:E93; cbn [b2z negb Z.eqb]; xstep.
    - rewrite (chk_I32 (Z.of_nat n1 + 1)) by lia. xstep.
      replace (Z.of_nat n1 + 1) with (Z.of_nat (S n1)) by lia.
      assert (nthb s (o + n1) <> 0%N) by (intro Z0; rewrite Z0 in E93; discriminate).
      pose proof (nthb_nz_lt s (o + n1) H).
      exact (Fin (S n1) ltac:(lia) ltac:(lia)).
    - exact (Fin n1 ltac:(lia) ltac:(lia)). }
  unfold brk_len_outer in Step2; cbn [fn_body cf_brk_len] in Step2. cbv zeta in Step2.
  cbv zeta. rewrite Efuel in *.
  destruct (nthb s (o + 1) =? 94)%N eqn:E94; cbn [b2z negb Z.eqb]; xstep.
  - rewrite (chk_I32 (1 + 1)) by lia. xstep.
    assert (nthb s (o + 1) <> 0%N) by (intro Z0; rewrite Z0 in E94; discriminate).
    pose proof (nthb_nz_lt s (o + 1) H).
    exact (Step2 2%nat ltac:(lia) ltac:(lia)).
  - exact (Step2 1%nat ltac:(lia) ltac:(lia)).
Qed.
