(* TrRegex.v -- the byte-level leaf functions of the regex engine model (ReSyntax.v, ReParse.v, ReVM.v) are
   what the C text of /repo/regex.c says: running the CLite term that tools/c2clite.py generated from regex.c
   (GenCFuncs.v: cf_re_uc_len, cf_re_uc_dec, cf_re_uc_beg, cf_re_isword, cf_brk_len, ...) gives, for ALL strings
   in memory and ALL offsets, the value of the model -- and no checked load leaves the block of the string
   (bytes + terminator), no signed operation overflows, no fuel runs out.
   Since fix 6b15ed7 regex.c's uc_len / uc_dec stop at the terminator of a truncated multi-byte sequence: the
   theorems below need NO hypothesis about complete sequences. *)
From Coq Require Import List ZArith NArith Bool Lia.
From NV Require Import Bytes UcDefs GenConsts ReSyntax ReParse ReVM CLite CLiteProps GenCFuncs TrUc.
Import ListNotations.
Local Open Scope Z_scope.

(* ------------------------------------------------------------------ uc_len (regex.c) *)
Lemma cc_gt0 : forall c, (c < 256)%N -> (0 <? Z.of_N c) = negb (c =? 0)%N.
Proof. byte_fact. Qed.

(* nthb past a nonzero byte stays inside the string *)
Lemma nthb_nz_lt (s : bytes) p : nthb s p <> 0%N -> (p < length s)%nat.
Proof. intro H. destruct (Nat.lt_ge_cases p (length s)); [assumption|]. rewrite nthb_end in H by lia. congruence. Qed.

Definition re_uc_len_loop : stmt :=
  match fn_body cf_re_uc_len with SSeq _ (SSeq _ (SSeq _ (SSeq _ (SSeq (SSeq _ w) _)))) => w | _ => SSkip end.
Definition re_uc_len_ret : stmt :=
  match fn_body cf_re_uc_len with SSeq _ (SSeq _ (SSeq _ (SSeq _ (SSeq _ r)))) => r | _ => SSkip end.

(* the scan of the continuation bytes: for (i = 1; i < n; i++) if (!s[i]) return i;  return n; *)
Lemma re_uc_len_tail_ok call m b s o c n fuel2 : str_at m b s -> bytes_lt256 s ->
  forall k i fuel, (n - i = k)%nat -> (1 <= i <= n)%nat -> (n <= 4)%nat -> (o + i <= length s)%nat -> (k < fuel)%nat ->
  exists st',
  match exec call fuel re_uc_len_loop (mkst [VPtr b (Z.of_nat o); VInt c; VInt (Z.of_nat n); VInt (Z.of_nat i)] m) with
  | ONormal st1 => exec call fuel2 re_uc_len_ret st1
  | o => o
  end = OReturn (VInt (Z.of_nat (ucl_scan k (skipn (o + i) s) i))) st' /\ memm st' = m.
Proof.
  intros Hs H256. induction k as [|k IH]; intros i fuel Hk Hi Hn Ho Hf; (destruct fuel as [|fuel]; [lia|]);
    unfold re_uc_len_loop, re_uc_len_ret; cbn [fn_body cf_re_uc_len]; rewrite exec_for; xstep.
  - destruct (Z.ltb_spec (Z.of_nat i) (Z.of_nat n)); [lia|]. xstep.
    assert (i = n) as -> by lia. cbn [ucl_scan]. eexists; split; reflexivity.
  - destruct (Z.ltb_spec (Z.of_nat i) (Z.of_nat n)); [|lia]. xstep.
    replace (Z.of_nat o + 1 * Z.of_nat i) with (Z.of_nat (o + i)) by lia.
    xload Hs H256 (o + i)%nat.
    pose proof (nthb_lt256 s (o + i) H256) as Hc. rewrite (cc_z0 _ Hc).
    destruct (Nat.eq_dec (o + i) (length s)) as [E|E].
    + rewrite nthb_end by lia. rewrite skipn_end by lia. cbn [N.eqb ucl_scan negb]. xstep.
      eexists; split; reflexivity.
    + rewrite (skipn_cons_nthb s (o + i)) by lia. cbn [ucl_scan].
      destruct (N.eqb_spec (nthb s (o + i)) 0) as [E0|E0]; xstep.
      * eexists; split; reflexivity.
      * rewrite (chk_I32 (Z.of_nat i + 1)) by lia. xstep.
        replace (Z.of_nat i + 1) with (Z.of_nat (S i)) by lia.
        change (SFor _ _ _) with re_uc_len_loop.
        destruct (IH (S i) fuel) as [st' [X Y]]; try lia.
        replace (o + S i)%nat with (S (o + i)) in X by lia.
        exists st'. split; [|exact Y]. rewrite <- X. reflexivity.
Qed.

Lemma re_ucfull_le c : (re_ucfull c <= 4)%nat.
Proof. unfold re_ucfull. repeat match goal with |- context [if ?b then _ else _] => destruct b end; lia. Qed.

Theorem tr_re_uc_len m b s o d fuel :
  str_at m b s -> bytes_lt256 s -> (o <= length s)%nat -> (4 <= fuel)%nat ->
  callf cprog fuel (S d) F_re_uc_len [VPtr b (Z.of_nat o)] m
  = Ok (VInt (Z.of_nat (re_uclen_at s o)), m).
Proof.
  intros Hs H256 Ho Hf. enter F_re_uc_len cf_re_uc_len. xstep.
  replace (Z.of_nat o + 1 * 0) with (Z.of_nat o) by lia.
  xload Hs H256 o. pose proof (nthb_lt256 s o H256) as Hc.
  rewrite (cc_c0 _ Hc). unfold re_uclen_at.
  destruct (Nat.eq_dec o (length s)) as [E|E].
  { rewrite nthb_end by lia. rewrite skipn_end by lia. cbn. reflexivity. }
  rewrite (skipn_cons_nthb s o) by lia. cbn [re_uclen].
  set (c := nthb s o) in *.
  destruct (negb (bit c 128 && bit c 64)) eqn:E1; xstep.
  { rewrite (cc_gt0 _ Hc). destruct (c =? 0)%N; reflexivity. }
  assert (Hnz : c <> 0%N) by (intro Z0; rewrite Z0 in E1; cbn in E1; discriminate).
  pose proof (nthb_nz_lt s o Hnz) as Hlt.
  assert (Tail : forall n, (1 <= n <= 4)%nat -> n = re_ucfull c ->
    exists st',
    match exec (callf cprog fuel d) fuel re_uc_len_loop
                (mkst [VPtr b (Z.of_nat o); VInt (Z.of_N c); VInt (Z.of_nat n); VInt 1] m) with
    | ONormal st1 => exec (callf cprog fuel d) fuel re_uc_len_ret st1
    | o => o
    end = OReturn (VInt (Z.of_nat (ucl_scan (re_ucfull c - 1) (skipn (S o) s) 1))) st' /\ memm st' = m).
  { intros n Hn En. rewrite <- En.
    destruct (re_uc_len_tail_ok (callf cprog fuel d) m b s o (Z.of_N c) n fuel Hs H256 (n - 1) 1 fuel) as [st' [X Y]]; try lia.
    replace (o + 1)%nat with (S o) in X by lia. exists st'. split; assumption. }
  unfold re_uc_len_loop, re_uc_len_ret in Tail; cbn [fn_body cf_re_uc_len] in Tail.
  rewrite (cc_20 _ Hc), (cc_10 _ Hc), (cc_08 _ Hc).
  unfold re_ucfull in Tail at 1. rewrite E1 in Tail.
  destruct (negb (bit c 32)) eqn:E2; xstep.
  { destruct (Tail 2%nat ltac:(lia) eq_refl) as [st' [X Y]]. change (Z.of_nat 2) with 2 in X. rewrite X, Y. reflexivity. }
  destruct (negb (bit c 16)) eqn:E3; xstep.
  { destruct (Tail 3%nat ltac:(lia) eq_refl) as [st' [X Y]]. change (Z.of_nat 3) with 3 in X. rewrite X, Y. reflexivity. }
  destruct (negb (bit c 8)) eqn:E4; xstep.
  { destruct (Tail 4%nat ltac:(lia) eq_refl) as [st' [X Y]]. change (Z.of_nat 4) with 4 in X. rewrite X, Y. reflexivity. }
  destruct (Tail 1%nat ltac:(lia) eq_refl) as [st' [X Y]]. change (Z.of_nat 1) with 1 in X. rewrite X, Y. reflexivity.
Qed.

(* ------------------------------------------------------------------ uc_dec (regex.c) *)
Lemma rdk_in w (s : bytes) k : (k <= length s)%nat -> rdk w s k = ReSyntax.Ok (nthb s k).
Proof.
  intro H. unfold rdk, nthb. destruct (nth_error s k) as [x|] eqn:E.
  - rewrite (nth_error_nth s k 0%N E). reflexivity.
  - apply nth_error_None in E. replace (Nat.eqb k (length s)) with true by (symmetry; apply Nat.eqb_eq; lia).
    rewrite nth_overflow by lia. reflexivity.
Qed.
Lemma ucl_scan_le k : forall r i, (ucl_scan k r i <= i + length r)%nat.
Proof.
  induction k as [|k IH]; intros r i; cbn [ucl_scan]; [lia|]. destruct r as [|x r]; cbn [length]; [lia|].
  destruct (x =? 0)%N; [lia|]. specialize (IH r (S i)). lia.
Qed.
(* the sequence uc_len reports lies inside the string *)
Lemma re_uclen_at_in (s : bytes) o : (o <= length s)%nat -> (o + re_uclen_at s o <= length s)%nat.
Proof.
  intro Ho. unfold re_uclen_at. destruct (Nat.eq_dec o (length s)) as [E|E].
  - rewrite skipn_end by lia. cbn. lia.
  - rewrite (skipn_cons_nthb s o) by lia. cbn [re_uclen].
    destruct (negb _); [destruct (_ =? 0)%N; lia|].
    pose proof (ucl_scan_le (re_ucfull (nthb s o) - 1) (skipn (S o) s) 1) as L. rewrite skipn_length in L. lia.
Qed.

Lemma lor_trunc c : Z.lor 2097152 (Z.of_N c) = Z.of_N (N.lor 2097152 c).
Proof. exact (of_N_lor 2097152 c). Qed.

Theorem tr_re_uc_dec m b s o d fuel :
  str_at m b s -> bytes_lt256 s -> (o <= length s)%nat -> (4 <= fuel)%nat ->
  exists v, re_ucdec s o = ReSyntax.Ok v /\
  callf cprog fuel (S (S d)) F_re_uc_dec [VPtr b (Z.of_nat o)] m = Ok (VInt (Z.of_N v), m).
Proof.
  intros Hs H256 Ho Hf. enter F_re_uc_dec cf_re_uc_dec. xstep.
  replace (Z.of_nat o + 1 * 0) with (Z.of_nat o) by lia.
  xload Hs H256 o. pose proof (nthb_lt256 s o H256) as Hc.
  pose proof (nthb_lt256 s (o + 1) H256) as H1. pose proof (nthb_lt256 s (o + 2) H256) as H2.
  pose proof (nthb_lt256 s (o + 3) H256) as H3.
  pose proof (re_uclen_at_in s o Ho) as Hin.
  unfold re_ucdec. rewrite (rdk_in _ s o Ho). cbn [ReSyntax.bind].
  set (c := nthb s o) in *. set (b1 := nthb s (o + 1)) in *. set (b2 := nthb s (o + 2)) in *. set (b3 := nthb s (o + 3)) in *.
  rewrite (cc_c0 c Hc).
  destruct (negb (bit c 128 && bit c 64)) eqn:E1; xstep; [eexists; split; reflexivity|].
  rewrite (tr_re_uc_len m b s o d fuel Hs H256 Ho Hf). xstep.
  rewrite (cc_20 c Hc), (cc_10 c Hc), (cc_08 c Hc).
  unfold re_ucfull. rewrite E1.
  destruct (negb (bit c 32)) eqn:E2; xstep.
  { destruct (Nat.ltb_spec (re_uclen_at s o) 2) as [L|L];
      (destruct (Z.ltb_spec (Z.of_nat (re_uclen_at s o)) 2) as [L'|L']; [|lia]) || (destruct (Z.ltb_spec (Z.of_nat (re_uclen_at s o)) 2) as [L'|L']; [lia|]); xstep.
    - rewrite (lor_trunc c). eexists; split; reflexivity.
    - repeat (progress (rewrite ?(cc_20 c Hc), ?E2; xstep)).
      rewrite (rdk_in _ s (o + 1)) by lia. cbn [ReSyntax.bind].
      fold_shl. rewrite (sh_1f_6 c Hc). xstep.
      rewrite (load_str m b s _ (o + 1) Hs) by lia. xstep. fold b1.
      rewrite (sx_3f b1 H1), of_N_lor. eexists; split; reflexivity. }
  destruct (negb (bit c 16)) eqn:E3; xstep.
  { destruct (Nat.ltb_spec (re_uclen_at s o) 3) as [L|L];
      (destruct (Z.ltb_spec (Z.of_nat (re_uclen_at s o)) 3) as [L'|L']; [|lia]) || (destruct (Z.ltb_spec (Z.of_nat (re_uclen_at s o)) 3) as [L'|L']; [lia|]); xstep.
    - rewrite (lor_trunc c). eexists; split; reflexivity.
    - repeat (progress (rewrite ?(cc_20 c Hc), ?(cc_10 c Hc), ?E2, ?E3; xstep)).
      rewrite (rdk_in _ s (o + 1)), (rdk_in _ s (o + 2)) by lia. cbn [ReSyntax.bind].
      fold_shl. rewrite (sh_0f_12 c Hc). xstep.
      rewrite (load_str m b s _ (o + 1) Hs) by lia. xstep. fold b1. rewrite (sx_3f b1 H1).
      fold_shl. rewrite (sh_3f_6 b1 H1). xstep.
      rewrite (load_str m b s _ (o + 2) Hs) by lia. xstep. fold b2.
      rewrite (sx_3f b2 H2), !of_N_lor. eexists; split; reflexivity. }
  destruct (negb (bit c 8)) eqn:E4; xstep.
  { destruct (Nat.ltb_spec (re_uclen_at s o) 4) as [L|L];
      (destruct (Z.ltb_spec (Z.of_nat (re_uclen_at s o)) 4) as [L'|L']; [|lia]) || (destruct (Z.ltb_spec (Z.of_nat (re_uclen_at s o)) 4) as [L'|L']; [lia|]); xstep.
    - rewrite (lor_trunc c). eexists; split; reflexivity.
    - repeat (progress (rewrite ?(cc_20 c Hc), ?(cc_10 c Hc), ?(cc_08 c Hc), ?E2, ?E3, ?E4; xstep)).
      rewrite (rdk_in _ s (o + 1)), (rdk_in _ s (o + 2)), (rdk_in _ s (o + 3)) by lia. cbn [ReSyntax.bind].
      fold_shl. rewrite (sh_07_18 c Hc). xstep.
      rewrite (load_str m b s _ (o + 1) Hs) by lia. xstep. fold b1. rewrite (sx_3f b1 H1).
      fold_shl. rewrite (sh_3f_12 b1 H1). xstep.
      rewrite (load_str m b s _ (o + 2) Hs) by lia. xstep. fold b2. rewrite (sx_3f b2 H2).
      fold_shl. rewrite (sh_3f_6 b2 H2). xstep.
      rewrite (load_str m b s _ (o + 3) Hs) by lia. xstep. fold b3.
      rewrite (sx_3f b3 H3), !of_N_lor. eexists; split; reflexivity. }
  (* 0xf8..0xff: uc_len is 1 *)
  assert (re_uclen_at s o = 1%nat) as L1.
  { unfold re_uclen_at. assert (c <> 0%N) as Hnz by (intro Z0; rewrite Z0 in E1; cbn in E1; discriminate).
    pose proof (nthb_nz_lt s o Hnz). rewrite (skipn_cons_nthb s o) by lia. cbn [re_uclen]. fold c. rewrite E1.
    unfold re_ucfull. rewrite E1, E2, E3, E4. reflexivity. }
  rewrite L1. cbn [Nat.ltb Nat.leb Z.of_nat Pos.of_succ_nat]. xstep.
  repeat (progress (rewrite ?(cc_20 c Hc), ?(cc_10 c Hc), ?(cc_08 c Hc), ?E2, ?E3, ?E4; xstep)).
  eexists; split; reflexivity.
Qed.

(* ------------------------------------------------------------------ uc_beg (regex.c) *)
Lemma cc_cont_re : forall c, (c < 256)%N -> (Z.land (Z.of_N c) 192 =? 128) = ReVM.is_cont c.
Proof. byte_fact. Qed.

Definition re_uc_beg_loop : stmt := match fn_body cf_re_uc_beg with SSeq w _ => w | _ => SSkip end.

(* ReVM.uc_beg line i is the index, counted from beg, of the first byte of the character that contains byte i *)
Lemma re_uc_beg_loop_ok call m b s ob : str_at m b s -> bytes_lt256 s ->
  forall k o fuel, (o - ob = k)%nat -> (ob <= o <= length s)%nat -> (k < fuel)%nat ->
  exec call fuel re_uc_beg_loop (mkst [VPtr b (Z.of_nat ob); VPtr b (Z.of_nat o)] m)
  = ONormal (mkst [VPtr b (Z.of_nat ob); VPtr b (Z.of_nat (ob + ReVM.uc_beg (skipn ob s) k))] m).
Proof.
  intros Hs H256. induction k as [|k IH]; intros o fuel Hk Ho Hf; (destruct fuel as [|fuel]; [lia|]);
    unfold re_uc_beg_loop; cbn [fn_body cf_re_uc_beg]; rewrite exec_while; xstep; cbn [ptr_cmp Nat.eqb]; rewrite Nat.eqb_refl; xstep.
  - assert (o = ob) as -> by lia. cbn [ReVM.uc_beg]. rewrite Nat.add_0_r.
    destruct (Z.ltb_spec (Z.of_nat ob) (Z.of_nat ob)); [lia|]. reflexivity.
  - destruct (Z.ltb_spec (Z.of_nat ob) (Z.of_nat o)); [|lia]. xstep.
    xload Hs H256 o. rewrite (cc_cont_re _ (nthb_lt256 s o H256)).
    cbn [ReVM.uc_beg]. rewrite nthb_skipn. replace (ob + S k)%nat with o by lia.
    destruct (ReVM.is_cont (nthb s o)); xstep; [|repeat f_equal; lia].
    replace (Z.of_nat o + -1) with (Z.of_nat (o - 1)) by lia.
    change (SWhile _ _) with re_uc_beg_loop. rewrite (IH (o - 1)%nat fuel) by lia. reflexivity.
Qed.

Theorem tr_re_uc_beg m b s ob o d fuel :
  str_at m b s -> bytes_lt256 s -> (ob <= o <= length s)%nat -> (length s < fuel)%nat ->
  callf cprog fuel (S d) F_re_uc_beg [VPtr b (Z.of_nat ob); VPtr b (Z.of_nat o)] m
  = Ok (VPtr b (Z.of_nat (ob + ReVM.uc_beg (skipn ob s) (o - ob))), m).
Proof.
  intros Hs H256 Ho Hf. enter F_re_uc_beg cf_re_uc_beg. xstep.
  change (SWhile _ _) with re_uc_beg_loop.
  rewrite (re_uc_beg_loop_ok _ m b s ob Hs H256 _ o fuel eq_refl) by lia. xstep. reflexivity.
Qed.
(* the form the matcher uses: beg = the start of the line *)
Corollary tr_re_uc_beg_line m b s o d fuel :
  str_at m b s -> bytes_lt256 s -> (o <= length s)%nat -> (length s < fuel)%nat ->
  callf cprog fuel (S d) F_re_uc_beg [VPtr b 0; VPtr b (Z.of_nat o)] m
  = Ok (VPtr b (Z.of_nat (ReVM.uc_beg s o)), m).
Proof.
  intros Hs H256 Ho Hf. pose proof (tr_re_uc_beg m b s 0 o d fuel Hs H256 ltac:(lia) Hf) as T.
  cbn [skipn Z.of_nat Nat.add] in T. rewrite Nat.sub_0_r in T. exact T.
Qed.

(* ------------------------------------------------------------------ isword (regex.c) *)
Theorem tr_re_isword m b s o d fuel : str_at m b s -> bytes_lt256 s -> (o <= length s)%nat ->
  callf cprog fuel (S d) F_re_isword [VPtr b (Z.of_nat o)] m = Ok (VInt (b2z (ReVM.isword (nthb s o))), m).
Proof.
  intros Hs H256 Ho. enter F_re_isword cf_re_isword. xstep.
  replace (Z.of_nat o + 1 * 0) with (Z.of_nat o) by lia. xload Hs H256 o.
  pose proof (nthb_lt256 s o H256) as Hc. generalize dependent (nthb s o). intros c Hc.
  sweep_byte c Hc.
Qed.
