(* TrCmp14.v -- C14, composition (part 2): ec_substitute's per-line loop with rstr_find NO LONGER AN ORACLE, literal path.

   For every call semantics `ext` whose answer for X_rstr_find IS the run of the translated rstr_find of rstr.c
   (ext_is_find: ext X_rstr_find args m = callf cprog fuelF _ F_rstr_find args m -- the calls written in ex.c are on the oracle
   index because of `@extern ex.c rstr_find` in 99z_subst.list), and a memory in which re points to a struct rstr of the fast
   path (rs == NULL, str -> the literal: what rstr_make leaves for a pattern rstr_simple accepts, TrRstrMake.tr_rstr_make_model),
   the translated loop (TrSubst.es_while, then sbuf_str) leaves in r exactly the bytes SubstDefs.subst_line computes with the
   matcher lit_find rs = RstrDefs.rstr_find rs, sixteen groups -- i.e. SubstEngineDefs.engine_find for that pattern
   (engine_find_simple).  Scan (ec_substitute), gap / replacement / stepping (replace, sbuf), and MATCHING (rstr_find, match_case,
   isword) are all the C text; nothing about the matcher is assumed.

   TrSubst.find_oracle is FALSE of the real rstr_find (find_oracle_false below); the variant that is true is
   TrCmp14Loop.find_oracle_ctx (lit_oracle proves it from TrRstr.tr_rstr_find).
   The side condition TrSubst.find_ptr_ok stays: with the literal path groups 1..15 are always unset, and replace() forms
   ln + (-1) for \N of an unset group (length 0, but a pointer before the block when ln is the start of the line): it holds when
   the replacement refers to no group but \0 (lit_find_ptr_ok). *)
From Coq Require Import List ZArith NArith Bool Lia.
From NV Require Import Bytes UcDefs GenConsts CLite CLiteProps GenCFuncs CLiteTac CLiteExt TrSbuf SubstDefs TrSubst TrCmp14Loop.
From NV Require RstrDefs RstrProps SubstEngineDefs TrRstr.
Import ListNotations.
Local Open Scope Z_scope.

(* ------------------------------------------------------------------ the matcher of the literal path *)
Definition lit_find (rs : RstrDefs.rstr) (ln : bytes) (nb : bool) : option (list grp) :=
  match RstrDefs.rstr_find rs ln nb false with
  | RstrDefs.Found so eo => Some (RstrDefs.rstr_groups 16 so eo)
  | _ => None
  end.

(* it is the modelled engine of Properties_C14 (C14_structure_engine, C14_utf8_engine) for a pattern the classifier accepts *)
Lemma engine_find_simple d ic pat rs : RstrDefs.rstr_simple ic pat = Some rs ->
  forall ln nb, SubstEngineDefs.engine_find d ic pat ln nb = lit_find rs ln nb.
Proof. intros H ln nb. unfold SubstEngineDefs.engine_find, RstrDefs.rstr_make. rewrite H. reflexivity. Qed.

(* and, on a newline-terminated rest, the declarative spec of C12: the LEFTMOST position at which the anchored literal holds *)
Lemma lit_find_spec rs content nb : ~ In 0%N content -> ~ In 10%N content -> ~ In 10%N (RstrDefs.r_str rs) ->
  lit_find rs (content ++ [10%N]) nb =
  match RstrDefs.spec_find (RstrDefs.spat_of rs) (RstrDefs.r_icase rs) nb content with
  | Some i => Some (RstrDefs.rstr_groups 16 (Z.of_nat i) (Z.of_nat (i + length (RstrDefs.r_str rs))))
  | None => None
  end.
Proof.
  intros Hz H10 Hl. unfold lit_find. rewrite (RstrProps.equiv_spec rs content nb false Hz H10 Hl). unfold RstrDefs.spec_res.
  destruct (RstrDefs.spec_find _ _ _ _); reflexivity.
Qed.

Lemma scan_found rs s : forall k r so eo, RstrDefs.scan rs s r k = RstrDefs.Found so eo ->
  r <= so < r + Z.of_nat k /\ eo = so + Z.of_nat (length (RstrDefs.r_str rs)).
Proof.
  induction k as [|k IH]; intros r so eo H; cbn [RstrDefs.scan] in H; [discriminate|].
  destruct (RstrDefs.find_at rs s r) as [x|] eqn:E.
  - subst x. unfold RstrDefs.find_at in E.
    destruct (if RstrDefs.r_wbeg rs then RstrDefs.wbeg_skip s r else Some false) as [[|]|]; try discriminate.
    destruct (if RstrDefs.r_wend rs then RstrDefs.wend_skip s r (Z.of_nat (length (RstrDefs.r_str rs))) else Some false) as [[|]|]; try discriminate.
    destruct (RstrDefs.rd s r); [|discriminate]. destruct (RstrDefs.match_case _ _ _); [|discriminate].
    injection E as <- <-. lia.
  - apply IH in H. lia.
Qed.
Lemma rstr_find_range rs s nb ne so eo : RstrDefs.rstr_find rs s nb ne = RstrDefs.Found so eo ->
  0 <= so /\ eo = so + Z.of_nat (length (RstrDefs.r_str rs)) /\ eo <= Z.of_nat (length s).
Proof.
  unfold RstrDefs.rstr_find. destruct (RstrDefs.r_lbeg rs && nb); [discriminate|].
  set (len := Z.of_nat (length (RstrDefs.r_str rs))). set (e := Z.of_nat (length s) - len - 1).
  destruct (Z.ltb_spec e 0) as [He|He]; [discriminate|]. intro Hs. apply scan_found in Hs. fold len in Hs.
  destruct (RstrDefs.r_lend rs), (RstrDefs.r_lbeg rs); lia.
Qed.

(* sixteen pairs of ints *)
Lemma lit_find_wf16 rs : (forall ln nb offs, Z.of_nat (length ln) <= 2147483647 -> lit_find rs ln nb = Some offs ->
  length offs = 16%nat /\ ints_ok (unpairs offs)).
Proof.
  intros ln nb offs Hl H. unfold lit_find in H. destruct (RstrDefs.rstr_find rs ln nb false) as [so eo| |] eqn:E; try discriminate.
  injection H as <-. apply rstr_find_range in E. split; [reflexivity|].
  unfold unpairs. cbn [RstrDefs.rstr_groups repeat flat_map app fst snd]. repeat constructor; lia.
Qed.

(* the pointers replace() forms stay inside the block of the line when the replacement refers to group 0 only *)
Lemma lit_find_ptr_ok rs line rep : Forall (fun g => g = 0%nat) (refs rep) -> find_ptr_ok (lit_find rs) line rep.
Proof.
  intros H o nb offs Ho Hf. unfold lit_find in Hf. destruct (RstrDefs.rstr_find rs (skipn o line) nb false) as [so eo| |] eqn:E; try discriminate.
  injection Hf as <-. apply rstr_find_range in E. destruct E as (H0 & H1 & H2). rewrite skipn_length in H2.
  unfold refs_ptr_ok. revert H. apply Forall_impl. intros g ->. cbn [RstrDefs.rstr_groups nth]. unfold grp_ptr_ok. cbn [fst snd]. lia.
Qed.

(* ------------------------------------------------------------------ the oracle IS the translated rstr_find *)
Definition ext_is_find (ext : nat -> list val -> mem -> res (val * mem)) (fuelF dF : nat) : Prop :=
  forall args m, ext X_rstr_find args m = callf cprog fuelF (S (S dF)) F_rstr_find args m.
(* the smallest such call semantics: rstr_find linked in, every other untranslated callee still outside *)
Definition ext_link (fuelF dF : nat) : nat -> list val -> mem -> res (val * mem) :=
  fun f args m => if Nat.eqb f X_rstr_find then callf cprog fuelF (S (S dF)) F_rstr_find args m else Err EShape.
Lemma ext_link_is_find fuelF dF : ext_is_find (ext_link fuelF dF) fuelF dF.
Proof. intros args m. unfold ext_link. rewrite Nat.eqb_refl. reflexivity. Qed.

(* TrSubst.find_oracle does not hold of it: in the memory that holds the line "a\n" (block 0) and offs (block 1) and nothing
   else, rstr_find(re = block 2, ...) fails at its first load (rs->rs), whatever the matcher `find` is *)
Lemma find_oracle_false ext fuelF dF find : ext_is_find ext fuelF dF -> ~ find_oracle ext find 0 1 2 0 [97; 10]%N.
Proof.
  intros Hext H.
  destruct (H [cstr_block (zb [97; 10]%N); repeat VUndef 32] 0%nat false (repeat VUndef 32) eq_refl ltac:(cbn; lia) eq_refl eq_refl)
    as (r & blk' & E & _).
  rewrite Hext in E. revert E. enter F_rstr_find cf_rstr_find. xstep. discriminate.
Qed.

(* find_oracle_ctx holds of it, from TrRstr.tr_rstr_find: the struct and the literal are blocks of the entry memory other than
   offs, so they are in every memory the loop reaches *)
Lemma lit_oracle ext fuelF dF (m0 : mem) bl bo rb bsl line lit ic lb le wb we :
  ext_is_find ext fuelF dF ->
  nth_error m0 rb = Some (TrRstr.rstr_block bsl ic lb le wb we) -> str_at m0 bsl lit -> nonul lit -> nonul line ->
  rb <> bo -> bsl <> bo ->
  int_ok ic -> int_ok lb -> int_ok le -> int_ok wb -> int_ok we ->
  Z.of_nat (length lit) <= 2147483647 -> Z.of_nat (length line) <= 500000000 ->
  (length lit < fuelF)%nat -> (length line + 17 < fuelF)%nat ->
  find_oracle_ctx ext (lit_find (TrRstr.rs_of lit ic lb le wb we)) m0 bl bo rb 0 line.
Proof.
  intros Hext Hrb Hbs Hnl Hnn Nrb Nbs Iic Ilb Ile Iwb Iwe Hlm Hl5 Hf1 Hf2 m o nb blk (CL & CF & _) Hs Ho Hb Hl.
  assert (Lrb : (rb < length m0)%nat) by (apply nth_error_Some; congruence).
  assert (Lbs : (bsl < length m0)%nat) by (apply nth_error_Some; unfold str_at in Hbs; congruence).
  assert (Hrbm : nth_error m rb = Some (TrRstr.rstr_block bsl ic lb le wb we)) by (rewrite CF by assumption; exact Hrb).
  assert (Hbsm : str_at m bsl lit) by (unfold str_at; rewrite CF by assumption; exact Hbs).
  set (flg := if nb then 2 else 0).
  destruct (TrRstr.tr_rstr_find m rb bsl bl bo lit line o ic lb le wb we 16 flg blk false dF fuelF
              Hrbm Hbsm Hs Hb ltac:(rewrite Hl; reflexivity) Hnl Hnn Ho Iic Ilb Ile Iwb Iwe ltac:(lia) Hlm ltac:(lia) Hf1 ltac:(cbn; lia))
    as [E Hoob].
  assert (Hnb : TrRstr.nz (Z.land flg RE_NOTBOL) = nb) by (unfold flg; destruct nb; reflexivity).
  rewrite Hnb in E, Hoob. rewrite Hext. unfold lit_find.
  destruct (RstrDefs.rstr_find (TrRstr.rs_of lit ic lb le wb we) (skipn o line) nb false) as [so eo| |] eqn:ER.
  - destruct (rstr_find_range _ _ _ _ _ _ ER) as (H0 & H1 & H2). rewrite skipn_length in H2.
    exists 0, (TrRstr.grp_block (RstrDefs.rstr_groups 16 so eo)). split; [exact E|]. split; [reflexivity|]. split; [lia|].
    exists (so :: eo :: repeat (-1) 30). split; [reflexivity|]. split; [|reflexivity].
    cbn [repeat]. repeat constructor; lia.
  - exists (-1), blk. split; [|split; [exact Hl|lia]]. rewrite E. cbn [TrRstr.ret_of TrRstr.mem_of]. rewrite (upd_self m bo blk Hb). reflexivity.
  - congruence.
Qed.

(* ------------------------------------------------------------------ THE THEOREM, struct given *)
Theorem tr_subst_line_literal ext fuelF dF (m0 : mem) bl bo bsp bs rb bsl fo (line rep flags lit : bytes) ic lb le wb we d fuel
    a0 a1 a2 a3 a6 a7 a8 a9 a11 :
  ext_is_find ext fuelF dF ->
  str_at m0 bl line -> nonul line -> Z.of_nat (length line) <= 500000000 ->
  cstr_in m0 G_xrep 0 rep -> nonul rep ->
  nth_error m0 bsp = Some [VPtr bs fo] -> cstr_in m0 bs fo flags -> nonul flags ->
  (bo < length m0)%nat -> (exists blk0, nth_error m0 bo = Some blk0 /\ length blk0 = 32%nat) ->
  bl <> bo /\ G_xrep <> bo /\ bsp <> bo /\ bs <> bo ->
  (* re: a struct rstr of the fast path *)
  nth_error m0 rb = Some (TrRstr.rstr_block bsl ic lb le wb we) -> str_at m0 bsl lit -> nonul lit -> rb <> bo -> bsl <> bo ->
  int_ok ic -> int_ok lb -> int_ok le -> int_ok wb -> int_ok we -> Z.of_nat (length lit) <= 2147483647 ->
  (length lit < fuelF)%nat -> (length line + 17 < fuelF)%nat ->
  let find := lit_find (TrRstr.rs_of lit ic lb le wb we) in
  find_ptr_ok find line rep ->
  forall lv, (S (length line) <= fuel)%nat -> (length rep < fuel)%nat ->
  let st o r l m := mkst [a0; a1; a2; a3; VPtr rb 0; VPtr bo 0; a6; a7; a8; a9; VPtr bsp 0; a11; VPtr bl (Z.of_nat o); r; l] m in
  match subst_line find rep (has_g flags) line with
  | Unchanged =>
      exists lv' mk', exec (callx ext cprog fuel (S (S (S d)))) fuel es_while (st 0%nat (VInt 0) lv m0)
                      = ONormal (st 0%nat (VInt 0) lv' mk') /\ Ctx m0 bo mk'
  | Changed new =>
      Z.of_nat (length new) <= 500000000 ->
      exists o' p lv' mk' cells,
        exec (callx ext cprog fuel (S (S (S d)))) fuel (SSeq es_while es_str) (st 0%nat (VInt 0) lv m0)
        = ONormal (st o' (VPtr p 0) lv' mk') /\ Ctx m0 bo mk' /\ Rinv m0 mk' p cells /\ map byte_of cells = new
  | SOOB | SFuel => True
  end.
Proof.
  intros Hext Hline Hnline Hl5 Hrep Hnrep Hsp Hflags Hnflags Hbo Hob Hne Hrb Hbs Hnl Nrb Nbs Iic Ilb Ile Iwb Iwe Hlm Hf1 Hf2 find Hptr lv Hfu Hfr.
  apply (subst_line_ok_c ext find m0 bl bo bsp bs rb 0 fo line rep flags d fuel a0 a1 a2 a3 a6 a7 a8 a9 a11); try assumption.
  apply (lit_oracle ext fuelF dF m0 bl bo rb bsl line lit ic lb le wb we); assumption.
Qed.
