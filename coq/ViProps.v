(* ViProps.v -- C08: proofs about the region rule and the delete / yank / put text operations. *)
From Coq Require Import List NArith ZArith Lia Bool ZifyN ZifyBool ZifyNat.
From NV Require Import Bytes UcDefs UcSpec UcSegProps MotDefs MotProps RegDefs RegProps ViDefs.
Import ListNotations.
Local Open Scope Z_scope.

(* ---------- the region rule ---------- *)
Lemma vc_region_rows b k r1 o1 r2 o2 : let g := vc_region b k r1 o1 r2 o2 in
  g_r1 g = Z.min r1 r2 /\ g_r2 g = Z.max r1 r2 /\ g_ln g = (o2 <? 0).
Proof. cbv zeta. unfold vc_region. cbn [g_r1 g_r2 g_ln]. destruct (Z.ltb_spec r2 r1); repeat split; lia. Qed.

Lemma lbuf_eol_some b r l : getl b r = Some l -> line_wf l -> lbuf_eol b r = slen l - 1.
Proof. intros E H. unfold lbuf_eol. rewrite E. pose proof (wf_slen_pos l H). destruct (Z.eqb_spec (slen l) 0); lia. Qed.

(* character-wise region inside one line: exactly the span between cursor and target, the smaller
   offset first; one character longer for f F t T e E % unless the larger end is already the end of line *)
Lemma vc_region_same_row b k r o1 o2 l : buf_wf b -> getl b r = Some l -> 0 <= o2 -> off_ok l (Z.min o1 o2) ->
  let g := vc_region b k r o1 r o2 in
  g_ln g = false /\ g_r1 g = r /\ g_r2 g = r /\ g_o1 g = Z.min o1 o2 /\
  g_o2 g = if incl_key k && (Z.max o1 o2 <? slen l - 1) then ren_noeol (Some l) (Z.max o1 o2) + 1 else Z.max o1 o2.
Proof.
  intros HW El Ho2 Hmin. cbv zeta. pose proof (getl_wf _ _ _ HW El) as Hl.
  unfold vc_region. cbn [g_r1 g_r2 g_ln g_o1 g_o2].
  destruct (Z.ltb_spec o2 0); [lia|]. rewrite Z.ltb_irrefl, Z.eqb_refl. cbn [andb negb].
  rewrite El, (lbuf_eol_some b r l El Hl).
  destruct (Z.ltb_spec o2 o1).
  - replace (Z.min o1 o2) with o2 in * by lia. replace (Z.max o1 o2) with o1 by lia.
    rewrite (ren_noeol_id l o2 Hl Hmin). repeat split.
  - replace (Z.min o1 o2) with o1 in * by lia. replace (Z.max o1 o2) with o2 by lia.
    rewrite (ren_noeol_id l o1 Hl Hmin). repeat split.
Qed.

(* ---------- delete / yank / put on the character view ---------- *)
Lemma sub_l_split (l : line) o1 o2 : 0 <= o1 <= o2 -> o2 <= slen l ->
  sub_l l 0 o1 ++ sub_l l o1 o2 ++ sub_l l o2 (-1) = l.
Proof.
  intros H1 H2. unfold sub_l, slen in *.
  destruct (Z.ltb_spec 0 0); [lia|]. destruct (Z.ltb_spec o1 0); [lia|]. destruct (Z.ltb_spec o2 0); [lia|].
  cbn [Z.ltb]. change (-1 <? 0) with true. cbv iota.
  rewrite !Z.min_l by lia.
  destruct (Z.leb_spec 0 o1); [|lia]. destruct (Z.leb_spec o1 o2); [|lia]. destruct (Z.leb_spec o2 (Z.of_nat (length l))); [|lia].
  cbn [Z.to_nat skipn]. rewrite Z.sub_0_r.
  replace (Z.to_nat (Z.of_nat (length l) - o2)) with (length l - Z.to_nat o2)%nat by lia.
  rewrite (firstn_all2 (skipn (Z.to_nat o2) l)) by (rewrite skipn_length; lia).
  rewrite <- (firstn_skipn (Z.to_nat o1) l) at 4. f_equal.
  rewrite <- (firstn_skipn (Z.to_nat (o2 - o1)) (skipn (Z.to_nat o1) l)) at 2. f_equal.
  rewrite skipn_skipn. f_equal. lia.
Qed.

Lemma getl_nth b r l : getl b r = Some l -> 0 <= r /\ nth_error b (Z.to_nat r) = Some l.
Proof. unfold getl. destruct (Z.ltb_spec r 0); [discriminate|]. auto. Qed.

Lemma sub_l_app_left (x y : list chr) : sub_l (x ++ y) 0 (slen x) = x.
Proof.
  unfold sub_l, slen. rewrite app_length. destruct (Z.ltb_spec 0 0); [lia|]. destruct (Z.ltb_spec (Z.of_nat (length x)) 0); [lia|].
  rewrite !Z.min_l by lia. destruct (Z.leb_spec 0 (Z.of_nat (length x))); [|lia]. cbn [Z.to_nat skipn].
  rewrite Z.sub_0_r, Nat2Z.id. apply firstn_app_exact.
Qed.
Lemma sub_l_app_right (x y : list chr) : sub_l (x ++ y) (slen x) (-1) = y.
Proof.
  unfold sub_l, slen. rewrite app_length. destruct (Z.ltb_spec (Z.of_nat (length x)) 0); [lia|]. change (-1 <? 0) with true. cbv iota.
  rewrite Z.min_l by lia. destruct (Z.leb_spec (Z.of_nat (length x)) (Z.of_nat (length x + length y))); [|lia].
  rewrite Nat2Z.id, skipn_app_exact. apply firstn_all2. lia.
Qed.
Lemma sub_l_len (l : line) o : 0 <= o <= slen l -> slen (sub_l l 0 o) = o.
Proof.
  intro H. unfold sub_l, slen in *. destruct (Z.ltb_spec 0 0); [lia|]. destruct (Z.ltb_spec o 0); [lia|].
  rewrite !Z.min_l by lia. destruct (Z.leb_spec 0 o); [|lia]. cbn [Z.to_nat skipn]. rewrite firstn_length. lia.
Qed.


(* ---------- lbuf_edit and the cut into lines ---------- *)
Lemma split_text_line l : line_wf l -> split_text l = [l].
Proof.
  intros (body & -> & Hb). induction Hb as [|c body Hc Hb IH]; cbn [app split_text].
  - reflexivity.
  - unfold is_nlb. destruct (N.eqb_spec (b0 c) 10); [contradiction|]. rewrite IH. reflexivity.
Qed.
Lemma split_text_app_line l t : line_wf l -> split_text (l ++ t) = l :: split_text t.
Proof.
  intros (body & -> & Hb). induction Hb as [|c body Hc Hb IH]; cbn [app split_text].
  - reflexivity.
  - unfold is_nlb. destruct (N.eqb_spec (b0 c) 10); [contradiction|]. fold (is_nlb c). rewrite IH. reflexivity.
Qed.
Lemma split_text_concat ls : Forall line_wf ls -> split_text (concat ls) = ls.
Proof. induction 1 as [|l ls Hl _ IH]; cbn [concat]; [reflexivity|]. rewrite split_text_app_line by assumption. rewrite IH. reflexivity. Qed.

Lemma sub_l_firstn (l : line) o : 0 <= o <= slen l -> sub_l l 0 o = firstn (Z.to_nat o) l.
Proof.
  intro H. unfold sub_l, slen in *. destruct (Z.ltb_spec 0 0); [lia|]. destruct (Z.ltb_spec o 0); [lia|].
  rewrite !Z.min_l by lia. destruct (Z.leb_spec 0 o); [|lia]. cbn [Z.to_nat skipn]. rewrite Z.sub_0_r. reflexivity.
Qed.
Lemma sub_l_skipn (l : line) o : 0 <= o <= slen l -> sub_l l o (-1) = skipn (Z.to_nat o) l.
Proof.
  intro H. unfold sub_l, slen in *. destruct (Z.ltb_spec o 0); [lia|]. change (-1 <? 0) with true. cbv iota.
  rewrite Z.min_l by lia. destruct (Z.leb_spec o (Z.of_nat (length l))); [|lia].
  apply firstn_all2. rewrite skipn_length. lia.
Qed.
Lemma sub_l_mid (l : line) o1 o2 : 0 <= o1 <= o2 -> o2 <= slen l -> sub_l l o1 o2 = firstn (Z.to_nat (o2 - o1)) (skipn (Z.to_nat o1) l).
Proof.
  intros H1 H2. unfold sub_l, slen in *. destruct (Z.ltb_spec o1 0); [lia|]. destruct (Z.ltb_spec o2 0); [lia|].
  rewrite !Z.min_l by lia. destruct (Z.leb_spec o1 o2); [|lia]. reflexivity.
Qed.
(* before ++ after of a well-formed line pair is one well-formed line *)
Lemma cut_wf (l1 l2 : line) o1 o2 : line_wf l1 -> line_wf l2 -> 0 <= o1 <= slen l1 - 1 -> 0 <= o2 <= slen l2 - 1 ->
  line_wf (sub_l l1 0 o1 ++ sub_l l2 o2 (-1)).
Proof.
  intros (b1 & -> & H1) (b2 & -> & H2) Ho1 Ho2. unfold slen in *. rewrite app_length in *. cbn [length] in *.
  rewrite sub_l_firstn by (unfold slen; rewrite app_length; cbn [length]; lia).
  rewrite sub_l_skipn by (unfold slen; rewrite app_length; cbn [length]; lia).
  rewrite firstn_app. replace (Z.to_nat o1 - length b1)%nat with 0%nat by lia. cbn [firstn]. rewrite app_nil_r.
  rewrite skipn_app. replace (Z.to_nat o2 - length b2)%nat with 0%nat by lia. cbn [skipn].
  exists (firstn (Z.to_nat o1) b1 ++ skipn (Z.to_nat o2) b2). split; [rewrite app_assoc; reflexivity|].
  apply Forall_app. split; [apply Forall_firstn'|apply Forall_skipn']; assumption.
Qed.
Lemma lbuf_edit_some b t r n : 0 <= r -> 0 <= n -> r + n <= blen b -> lbuf_edit b (Some t) r (r + n) = set_row b r (split_text t) n.
Proof. intros. unfold lbuf_edit. rewrite !Z.min_l by lia. f_equal. lia. Qed.
Lemma lbuf_edit_none b r n : 0 <= r -> 0 < n -> r + n <= blen b -> lbuf_edit b None r (r + n) = set_row b r [] n.
Proof. intros. unfold lbuf_edit. rewrite !Z.min_l by lia. destruct (Z.eqb_spec r (r + n)); [lia|]. f_equal. lia. Qed.

(* character-wise delete inside one line: the register holds exactly the region's text, the line is
   before ++ after, and putting that text back before offset o1 (P) restores the buffer *)
Lemma delete_put_chars b R y r o1 o2 l : getl b r = Some l -> line_wf l -> 0 <= o1 <= o2 -> o2 <= slen l - 1 -> c_isupper y = false -> y <> 34%N ->
  let g := mk_region r o1 r o2 false in
  let '(b', R') := vi_delete b R y g in
  reg_get R' y = Some (flat (sub_l l o1 o2), false) /\
  getl b' r = Some (sub_l l 0 o1 ++ sub_l l o2 (-1)) /\
  put_chars b' r o1 (sub_l l o1 o2) = b.
Proof.
  intros El Hwf H1 H2 Hy Hq. cbv zeta. unfold vi_delete. cbn [g_ln g_r1 g_r2 g_o1 g_o2]. rewrite El. cbn [optl].
  unfold lbuf_region. rewrite El, Z.eqb_refl.
  split; [apply put_get_plain; assumption|].
  pose proof (getl_nth _ _ _ El) as [Hr En].
  assert (Hlen : (Z.to_nat r < length b)%nat) by (apply nth_error_Some; congruence).
  rewrite lbuf_edit_some by (unfold blen; lia).
  rewrite (split_text_line _ (cut_wf l l o1 o2 Hwf Hwf ltac:(lia) ltac:(lia))).
  set (nl := sub_l l 0 o1 ++ sub_l l o2 (-1)).
  assert (G : getl (set_row b r (@cons line nl nil) 1) r = Some nl).
  { unfold getl, set_row. destruct (Z.ltb_spec r 0); [lia|].
    rewrite nth_error_app2 by (rewrite firstn_length; lia). rewrite firstn_length, Nat.min_l by lia.
    rewrite Nat.sub_diag. reflexivity. }
  split; [exact G|].
  unfold put_chars. rewrite G.
  assert (E1 : sub_l nl 0 o1 = sub_l l 0 o1 /\ sub_l nl o1 (-1) = sub_l l o2 (-1)).
  { pose proof (sub_l_len l o1 ltac:(lia)) as L1. unfold nl.
    pose proof (sub_l_app_left (sub_l l 0 o1) (sub_l l o2 (-1))) as A1.
    pose proof (sub_l_app_right (sub_l l 0 o1) (sub_l l o2 (-1))) as A2.
    rewrite L1 in A1, A2. split; assumption. }
  destruct E1 as [E1 E2]. rewrite E1, E2.
  unfold set_row. replace (Z.to_nat (r + 1)) with (S (Z.to_nat r)) by lia.
  rewrite (sub_l_split l o1 o2) by lia.
  (* the buffer with row r replaced twice *)
  apply nth_error_split in En. destruct En as (l1 & l2 & Eb & Ell).
  rewrite Eb, <- Ell. rewrite !firstn_app_exact.
  replace (S (length l1)) with (length (l1 ++ [l])) by (rewrite app_length; cbn; lia).
  change (l1 ++ l :: l2) with (l1 ++ [l] ++ l2). rewrite (app_assoc l1 [l] l2), skipn_app_exact.
  replace (length (l1 ++ [l])) with (length (l1 ++ (@cons line nl nil))) by (rewrite !app_length; reflexivity).
  rewrite (app_assoc l1 (@cons line nl nil) l2), skipn_app_exact. rewrite <- app_assoc. reflexivity.
Qed.

(* line-wise delete: the register holds the lines' text, the lines are removed, and putting them back
   above row r1 (P) restores the buffer *)
Lemma delete_put_lines b R y r1 r2 : 0 <= r1 <= r2 -> r2 < blen b -> c_isupper y = false -> y <> 34%N ->
  let g := mk_region r1 0 r2 0 true in
  let ls := rows_between b r1 (r2 + 1) in
  let '(b', R') := vi_delete b R y g in
  reg_get R' y = Some (flat (lbuf_region b r1 0 r2 (-1)), true) /\
  b' = firstn (Z.to_nat r1) b ++ skipn (Z.to_nat (r2 + 1)) b /\
  put_lines b' r1 ls = b.
Proof.
  intros H1 H2 Hy Hq. cbv zeta. unfold vi_delete. cbn [g_ln g_r1 g_r2 g_o1 g_o2].
  split; [apply put_get_plain; assumption|].
  assert (E : lbuf_edit b None r1 (r2 + 1) = firstn (Z.to_nat r1) b ++ skipn (Z.to_nat (r2 + 1)) b).
  { replace (r2 + 1) with (r1 + (r2 - r1 + 1)) at 1 by lia. rewrite lbuf_edit_none by lia. unfold set_row. cbn [app].
    replace (r1 + (r2 - r1 + 1)) with (r2 + 1) by lia. reflexivity. }
  rewrite E. split; [reflexivity|].
  unfold put_lines, set_row, rows_between, blen in *.
  assert (Hl : (Z.to_nat r1 <= length b)%nat) by lia.
  rewrite firstn_app, firstn_firstn, Nat.min_id, firstn_length, Nat.min_l by lia. rewrite Nat.sub_diag. cbn [firstn]. rewrite app_nil_r.
  replace (Z.to_nat (r1 + 0)) with (Z.to_nat r1) by lia.
  rewrite skipn_app, firstn_length, Nat.min_l by lia. rewrite Nat.sub_diag. cbn [skipn].
  rewrite (skipn_all2 (firstn (Z.to_nat r1) b)) by (rewrite firstn_length; lia). cbn [app].
  rewrite <- (firstn_skipn (Z.to_nat r1) b) at 4. f_equal.
  rewrite <- (firstn_skipn (Z.to_nat (r2 + 1 - r1)) (skipn (Z.to_nat r1) b)) at 2. f_equal.
  rewrite skipn_skipn. f_equal. lia.
Qed.

(* ---------- valid UTF-8 is preserved by the splices of delete and put ---------- *)
Lemma sub_l_valid l b e : line_valid l -> line_valid (sub_l l b e).
Proof.
  intro H. unfold sub_l, line_valid in *. destruct (_ <=? _); [|constructor].
  apply Forall_firstn', Forall_skipn', H.
Qed.
Lemma flat_valid cs : line_valid cs -> valid (flat cs).
Proof.
  unfold line_valid, flat. induction 1 as [|c cs (k & Hk & ->) _ IH]; cbn [concat].
  - exists []. split; [constructor|reflexivity].
  - destruct IH as (ks & Hks & E). exists (k :: ks). split; [constructor; assumption|]. rewrite chars_cons, E. reflexivity.
Qed.
Lemma put_chars_valid b r off txt : buf_valid b -> line_valid txt -> buf_valid (put_chars b r off txt).
Proof.
  intros Hb Ht. unfold put_chars. destruct (getl b r) as [l|] eqn:E; [|exact Hb].
  assert (Hl : line_valid l). { apply getl_some in E. unfold buf_valid in Hb. rewrite Forall_forall in Hb. apply Hb, E. }
  unfold set_row, buf_valid in *. apply Forall_app. split; [apply Forall_firstn', Hb|].
  apply Forall_app. split; [|apply Forall_skipn', Hb]. constructor; [|constructor].
  unfold line_valid. apply Forall_app. split; [apply sub_l_valid, Hl|]. apply Forall_app. split; [exact Ht|apply sub_l_valid, Hl].
Qed.
Lemma nlc_valid : chr_valid nlc.
Proof. exists 10%N. split; [unfold scalar; lia|reflexivity]. Qed.
Lemma split_text_valid t : line_valid t -> Forall line_valid (split_text t).
Proof.
  unfold line_valid. induction 1 as [|c t Hc Ht IH]; cbn [split_text]; [constructor|].
  destruct (is_nlb c).
  - constructor; [repeat constructor; assumption|exact IH].
  - destruct (split_text t) as [|l ls].
    + repeat constructor; [assumption|apply nlc_valid].
    + inversion IH; subst. constructor; [constructor; assumption|assumption].
Qed.
Lemma set_row_valid b r ls n : buf_valid b -> Forall line_valid ls -> buf_valid (set_row b r ls n).
Proof.
  intros Hb Hl. unfold set_row, buf_valid in *. apply Forall_app. split; [apply Forall_firstn', Hb|].
  apply Forall_app. split; [exact Hl|apply Forall_skipn', Hb].
Qed.
Lemma lbuf_edit_valid b t beg en : buf_valid b -> match t with Some t => line_valid t | None => True end -> buf_valid (lbuf_edit b t beg en).
Proof.
  intros Hb Ht. unfold lbuf_edit. destruct t as [t|].
  - apply set_row_valid; [exact Hb|apply split_text_valid, Ht].
  - destruct (_ =? _); [exact Hb|apply set_row_valid; [exact Hb|constructor]].
Qed.
Lemma optl_valid b r : buf_valid b -> line_valid (optl (getl b r)).
Proof.
  intro Hb. destruct (getl b r) as [l|] eqn:E; cbn [optl]; [|constructor].
  apply getl_some in E. unfold buf_valid in Hb. rewrite Forall_forall in Hb. apply Hb, E.
Qed.
Lemma vi_delete_valid b R y g : buf_valid b -> buf_valid (fst (vi_delete b R y g)).
Proof.
  intro Hb. unfold vi_delete. destruct (g_ln g); cbn [fst]; apply lbuf_edit_valid; try exact Hb; [exact I|].
  unfold line_valid. apply Forall_app. split; apply sub_l_valid, optl_valid, Hb.
Qed.
