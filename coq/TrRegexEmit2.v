(* TrRegexEmit2.v -- the emitter of /repo/regex.c on the translated C text, part 2: rnode_emitnorep for the four node kinds and, by
   induction on the tree, rnode_emit = ReEmit.emit_n (emit_ok): for every tree in memory with counts inside 0..NREPS the call
   appends exactly the model's code at instruction b, touches nothing below it, and EVERY store lands inside the 6*N cells of
   the array whenever b + nlen t <= N. *)
From Coq Require Import List ZArith NArith Bool Lia.
From NV Require Import Bytes GenConsts ReSyntax ReParse ReEmit ReVM ReSem ReProps ReProps2 ReProps3 ReCountBound CLite CLiteProps GenCFuncs CLiteTac CLiteExt TrRegex TrRegexAtom TrRegexComp TrRegexParse TrRegexCount TrRegexEmit.
Import ListNotations.
Local Open Scope Z_scope.

(* ------------------------------------------------------------------ the unrepeated code of a node *)
Definition nnorep (t : node) : nat :=
  match t with
  | NNil => 0%nat
  | NAtom _ _ _ => 1%nat
  | NGrp x _ _ _ => (nlen x + 2)%nat
  | NCat x y => (nlen x + nlen y)%nat
  | NAlt x y => (nlen x + nlen y + 2)%nat
  end.
Definition enorep (t : node) (b : nat) : list instr :=
  match t with
  | NNil => []
  | NAtom a _ _ => [IAtom a]
  | NGrp x g _ _ => [IMark (2 * g)] ++ emit_n x (b + 1) ++ [IMark (2 * g + 1)]
  | NCat x y => emit_n x b ++ emit_n y (b + nlen x)
  | NAlt x y => [IFork (b + 1) (b + 2 + nlen x)] ++ emit_n x (b + 1) ++ [IJump (b + 2 + nlen x + nlen y)] ++ emit_n y (b + 2 + nlen x)
  end%nat.
Lemma emit_n_norep t b : t <> NNil ->
  emit_n t b = emit_rep (enorep t) (nnorep t) (fst (node_counts t)) (snd (node_counts t)) b /\
  nlen t = rep_len (nnorep t) (fst (node_counts t)) (snd (node_counts t)).
Proof. destruct t; intro H; try congruence; split; reflexivity. Qed.

(* what the emitter needs of the tree: counts inside 0..NREPS (the jmpend[] array has NREPS entries), strings that strlen can
   measure in an int, group numbers whose marks fit an int *)
Definition repok (mn mx : Z) : Prop := 0 <= mn <= 128 /\ mx <= 128 /\ -2147483648 <= mx /\ (mx < 0 \/ mn <= mx).
Fixpoint eok (t : node) : Prop :=
  match t with
  | NNil => True
  | NAtom a mn mx => repok mn mx /\ match ra_str a with Some s => nonul s /\ Z.of_nat (length s) < 2147483647 | None => True end
  | NGrp x g mn mx => repok mn mx /\ Z.of_nat (2 * g + 1) <= 2147483647 /\ eok x
  | NCat x y | NAlt x y => eok x /\ eok y
  end.
Lemma eok_wf t : eok t -> wf_node t.
Proof.
  induction t as [|a mn mx|x IHx g mn mx|x IHx y IHy|x IHx y IHy]; cbn [eok wf_node]; intro H; auto.
  - destruct H as [[A [B [C D]]] _]. split; lia.
  - destruct H as [[A [B [C D]]] [_ Hx]]. split; [split; lia|auto].
  - destruct H; split; auto.
  - destruct H; split; auto.
Qed.
Lemma enorep_length t b : eok t -> length (enorep t b) = nnorep t.
Proof.
  intro H. destruct t as [|a mn mx|x g mn mx|x y|x y]; cbn [enorep nnorep eok] in *; try reflexivity.
  - destruct H as [_ [_ Hx]]. rewrite !app_length, (emit_n_length x (eok_wf x Hx)). cbn [length]. lia.
  - destruct H as [Hx Hy]. rewrite !app_length, (emit_n_length x (eok_wf x Hx)), (emit_n_length y (eok_wf y Hy)). reflexivity.
  - destruct H as [Hx Hy]. rewrite !app_length, (emit_n_length x (eok_wf x Hx)), (emit_n_length y (eok_wf y Hy)). cbn [length]. lia.
Qed.

Section Emit2.
  Variables (bre bp N fuel : nat).
  Hypothesis Nbp : bre <> bp.
  Hypothesis HN : Z.of_nat N <= 1048576.
  Hypothesis Hfuel : (130 < fuel)%nat.
  Notation est := (est bre bp N).
  Notation emit_post := (emit_post bre bp N).

  Definition emit_spec (t : node) : Prop := forall (m : mem) lo hi p b cells d,
    tree_in m t lo hi p -> eok t -> est m b cells -> (b + nlen t <= N)%nat -> (hi <= bre)%nat -> (hi <= bp)%nat -> (2 * height t + 2 <= d)%nat ->
    exists m', callf cprog fuel d F_rnode_emit [p; VPtr bre 0] m = Ok (VUndef, m') /\ emit_post m cells b (emit_n t b) m'.
  Definition norep_spec (t : node) : Prop := forall (m : mem) lo hi bt b cells d,
    tree_in m t lo hi (VPtr bt 0) -> eok t -> est m b cells -> (b + nnorep t <= N)%nat -> (hi <= bre)%nat -> (hi <= bp)%nat -> (2 * height t + 1 <= d)%nat ->
    exists m', callf cprog fuel d F_rnode_emitnorep [VPtr bt 0; VPtr bre 0] m = Ok (VUndef, m') /\ emit_post m cells b (enorep t b) m'.

  Lemma post_weaken (m m0 : mem) cells b P m' : (length m <= length m0)%nat ->
    (forall j, (j < length m)%nat -> nth_error m0 j = nth_error m j) -> emit_post m0 cells b P m' -> emit_post m cells b P m'.
  Proof.
    intros L F [c' [E1 [F1 [C1 [L1 M1]]]]]. exists c'. split; [exact E1|]. split; [exact F1|].
    split; [apply (code_ok_same bre bp N Nbp m' m' c' c' (length m0) (length m')); [exact C1|reflexivity|reflexivity|lia|lia]|]. split; [lia|].
    intros j Hj N1 N2. rewrite M1 by (try lia; assumption). apply F. exact Hj.
  Qed.

  (* rnode_emit(NULL, p): only the local array is allocated *)
  Lemma emit_nil : emit_spec NNil.
  Proof.
    intros m lo hi p b cells d H _ Es _ _ _ Hd. cbn [tree_in] in H. destruct H as [-> _]. destruct d as [|d]; [lia|].
    enter F_rnode_emit cf_rnode_emit. xs. rewrite malloc_ok by lia. xs.
    eexists. split; [reflexivity|]. cbn [emit_n].
    apply (post_weaken m (m ++ [repeat VUndef (Z.to_nat 128)])); [rewrite app_length; cbn [length]; lia|intros j Hj; apply nth_error_app_old; exact Hj|].
    apply (emit_post_nil bre bp N Nbp). destruct (est_lt _ _ _ _ _ _ Es). destruct Es as [A [B C]].
    split; [rewrite nth_error_app_old by lia; exact A|split; [rewrite nth_error_app_old by lia; exact B|exact C]].
  Qed.

  (* ---- RN_ATOM: atom = re_insert(p, RI_ATOM); ratom_copy(&p->p[atom].ra, &n->ra) *)
  Definition en_cond (k : Z) : expr := EBin OEq I32 (ELoad (Some I32) (EPtrAdd 1 (ELocal 0) (EConst 7))) (EConst k).
  Lemma norep_atom a mn mx : norep_spec (NAtom a mn mx).
  Proof.
    intros m lo hi bt b cells d H Hok Es Hfit Hh1 Hh2 Hd. cbn [tree_in eok nnorep height enorep] in *.
    destruct H as [Ebt [_ [_ H]]]. injection Ebt as ->. destruct Hok as [_ Hs].
    do 2 (destruct d as [|d]; [lia|]).
    destruct (est_lt _ _ _ _ _ _ Es) as [B1 B2].
    assert (Hn : exists sv, nth_error m lo = Some (VInt (ra_code a) :: sv :: [VInt 0; VInt 0; VInt mn; VInt mx; VInt 0; VInt 0]) /\ (lo < hi)%nat /\
              (sv = VInt 0 \/ exists bs s, sv = VPtr bs 0 /\ str_at m bs s /\ nonul s /\ bs <> bp /\ Z.of_nat (length s) < 2147483647) /\
              match ra_str a with Some s => sv = VPtr (S lo) 0 /\ str_at m (S lo) s | None => sv = VInt 0 end).
    { destruct (ra_str a) as [s|].
      - destruct H as [Hn [Hl [Hst _]]]. exists (VPtr (S lo) 0). split; [exact Hn|]. split; [lia|]. split; [|split; [reflexivity|exact Hst]].
        right. exists (S lo), s. destruct Hs as [Hs1 Hs2]. repeat split; try assumption. lia.
      - destruct H as [Hn [Hl _]]. exists (VInt 0). split; [exact Hn|]. split; [lia|]. split; [left; reflexivity|reflexivity]. }
    destruct Hn as [sv [Hn [Hlo [Hsv Hsv']]]].
    destruct (tr_re_insert bre bp N fuel Nbp HN m b cells 0 d Es ltac:(lia) ltac:(unfold i32; lia)) as [C1 E1].
    set (cA := upd cells (6 * b + 2) (VInt 0)) in *. set (m1 := upd (upd m bre [VPtr bp 0; VInt (Z.of_nat (S b)); VInt 0]) bp cA) in *.
    assert (Lm1 : length m1 = length m) by (unfold m1; mlen).
    assert (Hn1 : nth_error m1 lo = Some (VInt (ra_code a) :: sv :: [VInt 0; VInt 0; VInt mn; VInt mx; VInt 0; VInt 0])) by (unfold m1; mnth; exact Hn).
    assert (Hsv1 : sv = VInt 0 \/ exists bs s, sv = VPtr bs 0 /\ str_at m1 bs s /\ nonul s /\ bs <> bp /\ Z.of_nat (length s) < 2147483647).
    { destruct Hsv as [->|[bs [s [-> [A1 [A2 [A3 A4]]]]]]]; [left; reflexivity|]. right. exists bs, s. split; [reflexivity|].
      split; [|auto]. assert (bs < length m)%nat by (eapply nth_lt; exact A1).
      assert (bs <> bre) by (destruct (ra_str a); [destruct Hsv' as [E _]; injection E as ->; lia|discriminate Hsv']).
      unfold str_at, m1. mnth. exact A1. }
    destruct (tr_ratom_copy bre bp N fuel Nbp m1 (S b) cA b lo (ra_code a) sv _ d E1 ltac:(lia) Hn1 ltac:(lia) ltac:(unfold i32; destruct a; cbn; lia) Hsv1)
      as [m2 [sv' [C2 [E2 [F2 Hcase]]]]].
    assert (LcA : length cA = (6 * N)%nat) by (unfold cA; rewrite upd_length by (destruct Es as [_ [_ C]]; lia); apply Es).
    assert (Hn2 : nth_error m2 lo = Some (VInt (ra_code a) :: sv :: [VInt 0; VInt 0; VInt mn; VInt mx; VInt 0; VInt 0])) by (rewrite F2 by lia; exact Hn1).
    exists m2. split.
    - enter F_rnode_emitnorep cf_rnode_emitnorep. xs. xld Hn. xs. zeqb_const. xs. xld Hn. xs. zeqb_const. xs. xld Hn. xs. zeqb_const. xs. xld Hn. xs.
      rewrite C1. xs. fold cA m1. rewrite (ld_p bre bp N Nbp _ _ _ E1). xs. rewrite C2. xs. reflexivity.
    - set (cB := upd (upd cA (6 * b) (VInt (ra_code a))) (6 * b + 1) sv') in *.
      assert (Lm2 : (length m <= length m2)%nat) by (destruct sv as [|z|bs o]; destruct Hcase as [_ Hc]; try destruct Hc as [Hc _]; lia).
      exists cB. cbn [length]. replace (b + 1)%nat with (S b) by lia. split; [exact E2|]. split.
      { intros j Hj. unfold cB, cA. rewrite !nth_upd_other by (rewrite ?upd_length by (rewrite ?upd_length by (destruct Es as [_ [_ C]]; lia); destruct Es as [_ [_ C]]; lia); destruct Es as [_ [_ C]]; lia). reflexivity. }
      split.
      { apply code_ok_one. split; [|split].
        - unfold cB. rewrite !nth_upd_other by (rewrite ?upd_length by lia; lia). unfold cA. apply nth_upd_same. destruct Es as [_ [_ C]]. lia.
        - unfold cB. rewrite nth_upd_other by (rewrite ?upd_length by lia; lia). apply nth_upd_same. lia.
        - destruct (ra_str a) as [s|].
          + destruct Hsv' as [-> Hst]. destruct Hcase as [-> [Ll2 Hcp]]. exists (length m1). split; [unfold cB; apply nth_upd_same; rewrite upd_length by lia; lia|].
            split; [unfold str_at; rewrite Hcp; unfold m1; mnth; exact Hst|lia].
          + subst sv. destruct Hcase as [-> _]. unfold cB. apply nth_upd_same. rewrite upd_length by lia. lia. }
      split; [exact Lm2|]. intros j Hj N1 N2. rewrite F2 by lia. unfold m1. mnth. reflexivity.
  Qed.

  (* an instruction inserted and one of its fields set: the memory and the cells afterwards *)
  Lemma ins_field (m : mem) b cells ri (f : nat) v d : est m b cells -> (b < N)%nat -> i32 ri -> (f < 6)%nat -> f <> 2%nat ->
    exists m1 m2 cA cB,
      callf cprog fuel (S d) F_re_insert [VPtr bre 0; VInt ri] m = Ok (VInt (Z.of_nat b), m1) /\ est m1 (S b) cA /\
      store m1 bp (Z.of_nat (6 * b + f)) (VInt v) = Ok m2 /\ est m2 (S b) cB /\
      length m2 = length m /\ (forall j, j <> bre -> j <> bp -> nth_error m2 j = nth_error m j) /\
      nth_error cB (6 * b + 2) = Some (VInt ri) /\ nth_error cB (6 * b + f) = Some (VInt v) /\
      (forall j, j <> (6 * b + 2)%nat -> j <> (6 * b + f)%nat -> nth_error cB j = nth_error cells j) /\
      (forall j, j <> bre -> j <> bp -> nth_error m1 j = nth_error m j) /\ length m1 = length m.
  Proof.
    intros Es Hb Hri Hf Hf2. destruct (est_lt _ _ _ _ _ _ Es) as [B1 B2]. pose proof Es as [_ [_ C]].
    destruct (tr_re_insert bre bp N fuel Nbp HN m b cells ri d Es Hb Hri) as [C1 E1].
    set (cA := upd cells (6 * b + 2) (VInt ri)) in *. set (m1 := upd (upd m bre [VPtr bp 0; VInt (Z.of_nat (S b)); VInt 0]) bp cA) in *.
    assert (LcA : length cA = (6 * N)%nat) by (unfold cA; rewrite upd_length by lia; exact C).
    destruct (st_cell bre bp N Nbp m1 (S b) cA (6 * b + f) (VInt v) E1 ltac:(lia)) as [S2 E2].
    exists m1, (upd m1 bp (upd cA (6 * b + f) (VInt v))), cA, (upd cA (6 * b + f) (VInt v)).
    split; [exact C1|]. split; [exact E1|]. split; [exact S2|]. split; [exact E2|].
    split; [unfold m1; mlen|]. split; [intros j N1 N2; unfold m1; mnth; reflexivity|].
    split; [rewrite nth_upd_other by lia; unfold cA; apply nth_upd_same; lia|]. split; [apply nth_upd_same; lia|].
    split; [intros j N1 N2; rewrite nth_upd_other by lia; unfold cA; apply nth_upd_other; lia|].
    split; [intros j N1 N2; unfold m1; mnth; reflexivity|unfold m1; mlen].
  Qed.

  (* ---- RN_GRP: MARK 2*grp, the body, MARK 2*grp+1 *)
  Lemma norep_grp x g mn mx : emit_spec x -> norep_spec (NGrp x g mn mx).
  Proof.
    intros IHx m lo hi bt b cells d H Hok Es Hfit Hh1 Hh2 Hd. cbn [tree_in eok nnorep height enorep] in *.
    destruct H as [b0 [px [Ebt [_ [_ [_ [Hx [Hb0 [Hn Hdd]]]]]]]]]. injection Ebt as ->. destruct Hok as [_ [Hg Hokx]].
    do 2 (destruct d as [|d]; [lia|]). pose proof (tree_in_le _ _ _ _ _ Hx) as Lx.
    destruct (est_lt _ _ _ _ _ _ Es) as [B1 B2]. pose proof Es as [_ [_ Cl]].
    assert (Wx : length (emit_n x (S b)) = nlen x) by (apply emit_n_length, eok_wf; exact Hokx).
    (* MARK 2*grp *)
    destruct (ins_field m b cells 109 5 (Z.of_nat (2 * g)) d Es ltac:(lia) ltac:(unfold i32; lia) ltac:(lia) ltac:(lia))
      as [m1 [m2 [cA [cB [C1 [E1 [S2 [E2 [L2 [F2 [K21 [K22 [K23 [F1 L1]]]]]]]]]]]]]].
    assert (Hn2 : nth_error m2 b0 = Some (node_cells 0 (VInt 0) px (VInt 0) mn mx (Z.of_nat g) 40)) by (rewrite F2 by lia; exact Hn).
    assert (Hn1 : nth_error m1 b0 = Some (node_cells 0 (VInt 0) px (VInt 0) mn mx (Z.of_nat g) 40)) by (rewrite F1 by lia; exact Hn).
    assert (Hx2 : tree_in m2 x lo b0 px) by (apply (tree_in_same m); [exact Hx|intros j Hj; apply F2; lia]).
    (* the body *)
    destruct (IHx m2 lo b0 px (S b) cB (S d) Hx2 Hokx E2 ltac:(lia) ltac:(lia) ltac:(lia) ltac:(lia)) as [m3 [C3 P3]].
    pose proof P3 as [c3 [E3 [G3 [K3 [L3 M3]]]]]. rewrite Wx in E3. set (q := (S b + nlen x)%nat) in *.
    assert (Hn3 : nth_error m3 b0 = Some (node_cells 0 (VInt 0) px (VInt 0) mn mx (Z.of_nat g) 40)) by (rewrite M3 by lia; exact Hn2).
    (* MARK 2*grp+1 *)
    destruct (ins_field m3 q c3 109 5 (Z.of_nat (2 * g + 1)) d E3 ltac:(unfold q; lia) ltac:(unfold i32; lia) ltac:(lia) ltac:(lia))
      as [m4 [m5 [cD [cE [C4 [E4 [S5 [E5 [L5 [F5 [K51 [K52 [K53 [F4 L4]]]]]]]]]]]]]].
    assert (Hn4 : nth_error m4 b0 = Some (node_cells 0 (VInt 0) px (VInt 0) mn mx (Z.of_nat g) 40)) by (rewrite F4 by lia; exact Hn3).
    assert (Hn5 : nth_error m5 b0 = Some (node_cells 0 (VInt 0) px (VInt 0) mn mx (Z.of_nat g) 40)) by (rewrite F5 by lia; exact Hn3).
    exists m5. split.
    - destruct (ptr0_cases px (tree_in_ptr0 _ _ _ _ _ Hx)) as [->|[bx ->]];
      (enter F_rnode_emitnorep cf_rnode_emitnorep; xs; xld Hn; xs; zeqb_const; xs; xld Hn; xs; zeqb_const; xs; xld Hn; xs; zeqb_const; xs;
       rewrite C1; xs; rewrite (ld_p bre bp N Nbp _ _ _ E1); xs; xld Hn1; xs; rewrite (wrap_I32_id (Z.of_nat g)) by lia;
       rewrite (chk_I32 (2 * Z.of_nat g)) by lia; xs; rewrite (wrap_I32_id (2 * Z.of_nat g)) by lia;
       replace (0 + 6 * Z.of_nat b + 1 * 5) with (Z.of_nat (6 * b + 5)) by lia; replace (2 * Z.of_nat g) with (Z.of_nat (2 * g)) by lia; rewrite S2; xs;
       xld Hn2; xs; rewrite C3; xs; rewrite C4; xs; rewrite (ld_p bre bp N Nbp _ _ _ E4); xs; xld Hn4; xs; rewrite (wrap_I32_id (Z.of_nat g)) by lia;
       rewrite (chk_I32 (2 * Z.of_nat g)) by lia; xs; rewrite (chk_I32 (2 * Z.of_nat g + 1)) by lia; xs; rewrite (wrap_I32_id (2 * Z.of_nat g + 1)) by lia;
       replace (0 + 6 * Z.of_nat q + 1 * 5) with (Z.of_nat (6 * q + 5)) by lia; replace (2 * Z.of_nat g + 1) with (Z.of_nat (2 * g + 1)) by lia; rewrite S5; xs;
       xld Hn5; xs; zeqb_const; xs; reflexivity).
    - exists cE. replace (b + 1)%nat with (S b) by lia. rewrite !app_length, Wx. cbn [length]. replace (b + (1 + (nlen x + 1)))%nat with (S q) by (unfold q; lia). split; [exact E5|].
      split; [intros j Hj; rewrite K53 by (unfold q; lia); rewrite G3 by lia; apply K23; lia|].
      split.
      { apply (code_ok_app bre bp N Nbp); [apply code_ok_one|apply (code_ok_app bre bp N Nbp); [|apply code_ok_one]].
        - split; [rewrite K53 by (unfold q; lia); rewrite G3 by lia; exact K21|]. rewrite K53 by (unfold q; lia). rewrite G3 by lia. exact K22.
        - cbn [length]. replace (b + 1)%nat with (S b) by lia.
          apply (code_ok_same bre bp N Nbp m3 m5 c3 cE (length m2) (length m3)); [exact K3| | |lia|lia].
          + intros j Hj. apply F5; lia.
          + intros j Hj. rewrite Wx in Hj. apply K53; unfold q; lia.
        - cbn [length]. rewrite Wx. replace (b + 1 + nlen x)%nat with q by (unfold q; lia). split; [exact K51|exact K52]. }
      split; [lia|]. intros j Hj N1 N2. rewrite F5 by assumption. rewrite M3 by (try lia; assumption). apply F2; assumption.
  Qed.

  (* ---- RN_CAT: the two children one behind the other *)
  Lemma norep_cat x y : emit_spec x -> emit_spec y -> norep_spec (NCat x y).
  Proof.
    intros IHx IHy m lo hi bt b cells d H Hok Es Hfit Hh1 Hh2 Hd. cbn [tree_in eok nnorep height enorep] in *.
    destruct H as [k [b0 [px [py [Ebt [Hx [Hy [Hb0 [Hn Hdd]]]]]]]]]. injection Ebt as ->. destruct Hok as [Hokx Hoky].
    destruct d as [|d]; [lia|]. pose proof (tree_in_le _ _ _ _ _ Hx) as Lx. pose proof (tree_in_le _ _ _ _ _ Hy) as Ly.
    destruct (est_lt _ _ _ _ _ _ Es) as [B1 B2].
    assert (Wx : length (emit_n x b) = nlen x) by (apply emit_n_length, eok_wf; exact Hokx).
    destruct (IHx m lo k px b cells d Hx Hokx Es ltac:(lia) ltac:(lia) ltac:(lia) ltac:(lia)) as [m1 [C1 P1]].
    pose proof P1 as [c1 [E1 [G1 [K1 [L1 M1]]]]]. rewrite Wx in E1.
    assert (Hn1 : nth_error m1 b0 = Some (node_cells 0 (VInt 0) px py 1 1 0 99)) by (rewrite M1 by lia; exact Hn).
    assert (Hy1 : tree_in m1 y k b0 py) by (apply (tree_in_same m); [exact Hy|intros j Hj; apply M1; lia]).
    destruct (IHy m1 k b0 py (b + nlen x)%nat c1 d Hy1 Hoky E1 ltac:(lia) ltac:(lia) ltac:(lia) ltac:(lia)) as [m2 [C2 P2]].
    pose proof P2 as [c2 [E2 [G2 [K2 [L2 M2]]]]].
    assert (Hn2 : nth_error m2 b0 = Some (node_cells 0 (VInt 0) px py 1 1 0 99)) by (rewrite M2 by lia; exact Hn1).
    exists m2. split.
    - destruct (ptr0_cases px (tree_in_ptr0 _ _ _ _ _ Hx)) as [->|[bx ->]]; destruct (ptr0_cases py (tree_in_ptr0 _ _ _ _ _ Hy)) as [->|[bz ->]];
      (enter F_rnode_emitnorep cf_rnode_emitnorep; xs; xld Hn; xs; zeqb_const; xs; xld Hn; xs; zeqb_const; xs; xld Hn; xs; rewrite C1; xs;
       xld Hn1; xs; rewrite C2; xs; xld Hn2; xs; zeqb_const; xs; xld Hn2; xs; zeqb_const; xs; reflexivity).
    - apply (emit_post_app bre bp N Nbp m cells b (emit_n x b) (emit_n y (b + nlen x)) m1 m2 c1 Es P1); rewrite Wx; assumption.
  Qed.

End Emit2.
