(* SubstAddrProps.v -- C14: which pattern :s compiles and remembers when its ADDRESS contains searches (model: SubstAddrDefs.v). *)
From Coq Require Import List NArith ZArith Bool Lia.
From NV Require Import Bytes SubstDefs SubstProps SubstAddrDefs.
Import ListNotations.
Local Open Scope Z_scope.

(* ------------------------------------------------------------------------------------------ *)
(* the head of ec_substitute behind an accepted address *)

(* it is SubstDefs.subst_setup (the argument handling TrSubstArgs.v ties to the C text) run on the state the ADDRESS left *)
Theorem head_is_setup valid find buf loc arg k b e k1 :
  a_region valid find buf loc k = Some (false, b, e, k1) ->
  exists k', subst_head valid find buf loc arg k =
               Some (k', match snd (fst (subst_setup (to_sstate k1) arg)) with
                         | Some p => Some (b, e, p, snd (subst_setup (to_sstate k1) arg))
                         | None => None
                         end) /\
             to_sstate k' = fst (fst (subst_setup (to_sstate k1) arg)) /\ k_row k' = k_row k1.
Proof.
  intros H. unfold subst_head, subst_setup. rewrite H.
  destruct (subst_args arg) as [[pat rep] flags].
  destruct pat as [[|c p]|]; destruct rep as [r|]; cbn [fst snd];
    unfold to_sstate; cbn [k_dir k_kwd k_rep k_row set_rep kwdset st_kwd st_rep Z.eqb];
    try (eexists; split; [reflexivity|]; cbn; split; reflexivity);
    destruct (k_dir k1 =? 0) eqn:D; eexists; (split; [reflexivity|]);
    cbn [k_dir k_kwd k_rep k_row set_rep kwdset st_kwd st_rep]; rewrite ?D; split; reflexivity.
Qed.

(* a NON-EMPTY own pattern: the lines are those of the address, the pattern compiled and remembered is the own one; the
   state the address left (k1: whatever its searches stored in xkwd / xkwddir) shows only in the current row *)
Theorem own_pattern valid find buf loc arg k c p rep flags b e k1 :
  subst_args arg = (Some (c :: p), rep, flags) ->
  a_region valid find buf loc k = Some (false, b, e, k1) ->
  subst_head valid find buf loc arg k =
    Some (mk_kst (c :: p) 1 (match rep with Some r => r | None => [] end) (k_row k1),
          Some (b, e, c :: p, has_g flags)).
Proof.
  intros A H. unfold subst_head. rewrite H, A. destruct rep; reflexivity.
Qed.

Theorem own_pattern_cmd valid find buf loc arg k c p rep flags b e k1 :
  subst_args arg = (Some (c :: p), rep, flags) ->
  a_region valid find buf loc k = Some (false, b, e, k1) ->
  let r := match rep with Some r => r | None => [] end in
  ec_subst valid find buf loc arg k =
    Some (mk_kst (c :: p) 1 r (k_row k1),
          if valid (c :: p) then subst_rows find 0 b e (c :: p) r (has_g flags) buf else buf,
          if valid (c :: p) then 0 else 1).
Proof.
  intros A H r. unfold ec_subst. rewrite (own_pattern _ _ _ _ _ _ _ _ _ _ _ _ _ A H).
  destruct (valid (c :: p)); reflexivity.
Qed.

(* ... hence: two addresses (with or without searches, typed in any state of the remembered pattern) that designate the
   same lines give the same buffer, the same remembered pattern, direction and replacement *)
Theorem own_pattern_any_address valid find buf loc loc' arg k k' c p rep flags b e k1 k1' :
  subst_args arg = (Some (c :: p), rep, flags) ->
  a_region valid find buf loc k = Some (false, b, e, k1) ->
  a_region valid find buf loc' k' = Some (false, b, e, k1') ->
  exists s s' buf' ret,
    ec_subst valid find buf loc arg k = Some (s, buf', ret) /\
    ec_subst valid find buf loc' arg k' = Some (s', buf', ret) /\
    k_kwd s = c :: p /\ k_kwd s' = c :: p /\ k_dir s = 1 /\ k_dir s' = 1 /\ k_rep s = k_rep s'.
Proof.
  intros A H H'.
  pose proof (own_pattern_cmd _ _ _ _ _ _ _ _ _ _ _ _ _ A H) as E.
  pose proof (own_pattern_cmd _ _ _ _ _ _ _ _ _ _ _ _ _ A H') as E'.
  cbv zeta in E, E'. do 4 eexists. split; [exact E|]. split; [exact E'|]. cbn. repeat split; reflexivity.
Qed.

(* an EMPTY own pattern (s//rep/): what the address left is compiled, and stays remembered *)
Theorem empty_pattern valid find buf loc arg k rep flags b e k1 :
  subst_args arg = (Some [], rep, flags) ->
  a_region valid find buf loc k = Some (false, b, e, k1) ->
  subst_head valid find buf loc arg k =
    Some (set_rep k1 (match rep with Some r => r | None => [] end),
          if k_dir k1 =? 0 then None else Some (b, e, k_kwd k1, has_g flags)).
Proof.
  intros A H. unfold subst_head. rewrite H, A. destruct rep; cbn [set_rep k_dir k_kwd]; destruct (k_dir k1 =? 0); reflexivity.
Qed.

(* no argument at all (a bare s): the remembered pattern AND the remembered replacement, no flag *)
Theorem bare_command valid find buf loc k b e k1 :
  a_region valid find buf loc k = Some (false, b, e, k1) ->
  subst_head valid find buf loc [] k =
    Some (k1, if k_dir k1 =? 0 then None else Some (b, e, k_kwd k1, false)).
Proof.
  intros H. unfold subst_head. rewrite H. cbn. destruct (k_dir k1 =? 0); reflexivity.
Qed.

(* a rejected address: nothing of the command is remembered (but what the searches of the address stored is) *)
Theorem rejected_address valid find buf loc arg k b e k1 :
  a_region valid find buf loc k = Some (true, b, e, k1) ->
  ec_subst valid find buf loc arg k = Some (k1, buf, 1).
Proof. intros H. unfold ec_subst, subst_head. rewrite H. reflexivity. Qed.

(* ------------------------------------------------------------------------------------------ *)
(* what an address leaves behind *)

Definition nosearch (s : bytes) : Prop := Forall (fun c => c <> 47%N /\ c <> 63%N) s.
Definition sfx (s r : bytes) : Prop := exists pre, s = pre ++ r.
Definition same_kwd (k k' : kst) : Prop := k_kwd k' = k_kwd k /\ k_dir k' = k_dir k /\ k_rep k' = k_rep k.

Lemma sfx_refl s : sfx s s. Proof. exists []. reflexivity. Qed.
Lemma sfx_cons c s r : sfx s r -> sfx (c :: s) r.
Proof. intros [pre ->]. exists (c :: pre). reflexivity. Qed.
Lemma sfx_trans a b c : sfx a b -> sfx b c -> sfx a c.
Proof. intros [p ->] [q ->]. exists (p ++ q). now rewrite app_assoc. Qed.
Lemma nosearch_sfx s r : nosearch s -> sfx s r -> nosearch r.
Proof. intros H [pre ->]. apply Forall_app in H. tauto. Qed.
Lemma same_refl k : same_kwd k k. Proof. repeat split. Qed.
Lemma same_trans a b c : same_kwd a b -> same_kwd b c -> same_kwd a c.
Proof. unfold same_kwd. intuition congruence. Qed.
Lemma same_set_row k r : same_kwd k (set_row k r). Proof. repeat split. Qed.

Lemma digits_sfx : forall s acc, sfx s (snd (digits s acc)).
Proof.
  induction s as [|c s IH]; intros acc; cbn; [apply sfx_refl|].
  destruct (is_dig c); [apply sfx_cons, IH | apply sfx_refl].
Qed.
Lemma offsets_sfx : forall fuel s n, sfx s (snd (offsets fuel s n)).
Proof.
  induction fuel as [|f IH]; intros s n; cbn; [apply sfx_refl|].
  destruct s as [|c r]; [apply sfx_refl|].
  destruct ((c =? 45) || (c =? 43))%N; [|apply sfx_refl].
  apply sfx_cons. eapply sfx_trans; [apply digits_sfx | apply IH].
Qed.
Lemma skip_to_sep_sfx : forall s, sfx s (skip_to_sep s).
Proof.
  induction s as [|c s IH]; cbn; [apply sfx_refl|].
  destruct ((c =? 59) || (c =? 44))%N; [apply sfx_refl | apply sfx_cons, IH].
Qed.
Lemma fin_sfx (n : Z) (rest : bytes) (k : kst) x y z :
  (let (n', rest') := offsets (S (length rest)) rest n in (n', rest', k)) = (x, y, z) -> z = k /\ sfx rest y.
Proof.
  pose proof (offsets_sfx (S (length rest)) rest n) as HS.
  destruct (offsets (S (length rest)) rest n) as [n' rest']. intros E. inversion E; subst. split; [reflexivity | exact HS].
Qed.

(* an address piece that does not begin with / or ? leaves the state alone *)
Lemma lineno_other valid find buf k c r n rest k' :
  c <> 47%N -> c <> 63%N ->
  a_lineno valid find buf k (c :: r) = (n, rest, k') -> k' = k /\ sfx (c :: r) rest.
Proof.
  intros N1 N2. unfold a_lineno.
  destruct (c =? 46)%N. { intros E. apply fin_sfx in E. destruct E. split; [assumption | now apply sfx_cons]. }
  destruct (c =? 36)%N. { intros E. apply fin_sfx in E. destruct E. split; [assumption | now apply sfx_cons]. }
  destruct (c =? 39)%N. { intros E. inversion E; subst. split; [reflexivity | apply sfx_cons, sfx_refl]. }
  apply N.eqb_neq in N1. apply N.eqb_neq in N2. rewrite N1, N2. cbn [orb].
  destruct (is_dig c).
  - intros E. apply fin_sfx in E. destruct E as [-> HS]. split; [reflexivity|].
    eapply sfx_trans; [apply (digits_sfx (c :: r) 0) | exact HS].
  - intros E. apply fin_sfx in E. destruct E. split; assumption.
Qed.

(* an address without any search leaves the remembered pattern, its direction and the replacement alone *)
Lemma loop_nosearch valid find buf : forall fuel s first b e k r,
  nosearch s -> a_loop valid find buf fuel s first b e k = Some r -> same_kwd k (snd r).
Proof.
  induction fuel as [|f IH]; intros s first b e k r NS; cbn [a_loop]; [discriminate|].
  destruct s as [|c s']. { intros E. inversion E. apply same_refl. }
  destruct (a_lineno valid find buf k (c :: s')) as [[n rest] k1] eqn:L.
  inversion NS as [|? ? [N1 N2] NS']; subst.
  destruct (lineno_other _ _ _ _ _ _ _ _ _ N1 N2 L) as [-> HS].
  destruct (n + 1 <? 0). { intros E. inversion E. apply same_refl. }
  pose proof (skip_to_sep_sfx rest) as HS2.
  destruct (skip_to_sep rest) as [|c2 rest2]. { intros E. inversion E. apply same_refl. }
  intros E. apply IH in E.
  - eapply same_trans; [|exact E]. destruct (c2 =? 59)%N; [apply same_set_row | apply same_refl].
  - eapply nosearch_sfx; [exact NS|]. eapply sfx_trans; [exact HS|]. eapply sfx_trans; [exact HS2|]. apply sfx_cons, sfx_refl.
Qed.

Theorem region_nosearch valid find buf loc k bad b e k1 :
  nosearch loc -> a_region valid find buf loc k = Some (bad, b, e, k1) -> same_kwd k k1.
Proof.
  intros NS. unfold a_region.
  destruct (beqb loc [37%N]). { intros E. inversion E. apply same_refl. }
  destruct loc as [|c s]. { intros E. inversion E. apply same_refl. }
  destruct (a_loop valid find buf (S (length (c :: s))) (c :: s) true 0 0 k) as [[[[bad' b'] e'] k']|] eqn:L; [|discriminate].
  apply loop_nosearch in L; [|exact NS]. cbn [snd] in L.
  destruct bad'. { intros E. inversion E; subst. exact L. }
  destruct ((if (b' <? 0) && (e' =? 0) then 0 else b') <? 0) ; destruct (blen buf <=? (if (b' <? 0) && (e' =? 0) then 0 else b')); cbn [orb];
    try (intros E; inversion E; subst; exact L).
  destruct ((e' <? (if (b' <? 0) && (e' =? 0) then 0 else b')) || (blen buf <? e')); intros E; inversion E; subst; exact L.
Qed.

(* a search /re/ or ?re? with a non-empty re (free of its delimiter and of backslashes) stores re and its direction *)
Definition dir_of (d : N) : Z := if (d =? 47)%N then 1 else -1.

Lemma lineno_search valid find buf k d re tail n rest k' :
  (d = 47%N \/ d = 63%N) -> plain d re -> re <> [] ->
  a_lineno valid find buf k (d :: re ++ d :: tail) = (n, rest, k') ->
  k' = kwdset k re (dir_of d) /\ sfx tail rest.
Proof.
  intros D P NE. unfold a_lineno.
  assert (E1 : (d =? 46)%N = false) by (destruct D; subst; reflexivity).
  assert (E2 : (d =? 36)%N = false) by (destruct D; subst; reflexivity).
  assert (E3 : (d =? 39)%N = false) by (destruct D; subst; reflexivity).
  assert (E4 : ((d =? 47) || (d =? 63))%N = true) by (destruct D; subst; reflexivity).
  rewrite E1, E2, E3, E4. unfold a_search. rewrite (re_read_loop_plain d re tail P).
  destruct re as [|c0 re0]; [congruence|].
  set (k1 := kwdset k (c0 :: re0) (if (d =? 47)%N then 1 else -1)).
  assert (Dk : (k_dir k1 =? 0) = false) by (unfold k1; cbn; destruct (d =? 47)%N; reflexivity).
  rewrite Dk.
  destruct (negb (valid (k_kwd k1))).
  - cbn. intros E. inversion E; subst. split; [reflexivity | apply sfx_refl].
  - destruct (search_rows find buf (S (length buf)) (k_kwd k1) (k_row k1 + k_dir k1) (k_dir k1) <? 0).
    + intros E. inversion E; subst. split; [reflexivity | apply sfx_refl].
    + intros E. apply fin_sfx in E. destruct E as [-> HS]. split; [reflexivity | exact HS].
Qed.

(* the address  /re/<rest>  or  ?re?<rest>  where <rest> holds no further search (offsets, a second numeric address, ; and ,):
   re is what it leaves behind, found or not, accepted or not *)
Theorem region_search_first valid find buf k d re tail bad b e k1 :
  (d = 47%N \/ d = 63%N) -> plain d re -> re <> [] -> nosearch tail ->
  a_region valid find buf (d :: re ++ d :: tail) k = Some (bad, b, e, k1) ->
  k_kwd k1 = re /\ k_dir k1 = dir_of d /\ k_rep k1 = k_rep k.
Proof.
  intros D P NE NS. unfold a_region.
  assert (E0 : beqb (d :: re ++ d :: tail) [37%N] = false) by (destruct D; subst; reflexivity).
  rewrite E0.
  assert (G : forall r, a_loop valid find buf (S (length (d :: re ++ d :: tail))) (d :: re ++ d :: tail) true 0 0 k = Some r ->
              same_kwd (kwdset k re (dir_of d)) (snd r)).
  { intros r. cbn [a_loop].
    destruct (a_lineno valid find buf k (d :: re ++ d :: tail)) as [[n rest] k'] eqn:L.
    destruct (lineno_search _ _ _ _ _ _ _ _ _ _ D P NE L) as [-> HS].
    destruct (n + 1 <? 0). { intros E. inversion E. apply same_refl. }
    pose proof (skip_to_sep_sfx rest) as HS2.
    destruct (skip_to_sep rest) as [|c2 rest2]. { intros E. inversion E. apply same_refl. }
    intros E. apply loop_nosearch in E.
    - eapply same_trans; [|exact E]. destruct (c2 =? 59)%N; [apply same_set_row | apply same_refl].
    - eapply nosearch_sfx; [exact NS|]. eapply sfx_trans; [exact HS|]. eapply sfx_trans; [exact HS2|]. apply sfx_cons, sfx_refl. }
  destruct (a_loop valid find buf (S (length (d :: re ++ d :: tail))) (d :: re ++ d :: tail) true 0 0 k) as [[[[bad' b'] e'] k']|]; [|discriminate].
  specialize (G _ eq_refl). cbn [snd] in G. destruct G as (G1 & G2 & G3). cbn in G1, G2, G3.
  assert (R : k_kwd k' = re /\ k_dir k' = dir_of d /\ k_rep k' = k_rep k) by tauto.
  destruct bad'. { intros E. inversion E; subst. exact R. }
  destruct ((if (b' <? 0) && (e' =? 0) then 0 else b') <? 0) ; destruct (blen buf <=? (if (b' <? 0) && (e' =? 0) then 0 else b')); cbn [orb];
    try (intros E; inversion E; subst; exact R).
  destruct ((e' <? (if (b' <? 0) && (e' =? 0) then 0 else b')) || (blen buf <? e')); intros E; inversion E; subst; exact R.
Qed.

(* the idiom  /re/s//new/ : the address pattern IS what is compiled (and it stays remembered) *)
Theorem search_then_empty_pattern valid find buf k d re tail arg rep flags b e k1 :
  (d = 47%N \/ d = 63%N) -> plain d re -> re <> [] -> nosearch tail ->
  subst_args arg = (Some [], rep, flags) ->
  a_region valid find buf (d :: re ++ d :: tail) k = Some (false, b, e, k1) ->
  exists k', subst_head valid find buf (d :: re ++ d :: tail) arg k = Some (k', Some (b, e, re, has_g flags)) /\ k_kwd k' = re.
Proof.
  intros D P NE NS A H.
  destruct (region_search_first _ _ _ _ _ _ _ _ _ _ _ D P NE NS H) as (K1 & K2 & _).
  rewrite (empty_pattern _ _ _ _ _ _ _ _ _ _ _ A H).
  assert (Z0 : (k_dir k1 =? 0) = false) by (rewrite K2; unfold dir_of; destruct (d =? 47)%N; reflexivity).
  rewrite Z0, K1. eexists. split; [reflexivity | exact K1].
Qed.

(* ------------------------------------------------------------------------------------------ *)
(* a search as the SECOND address:  <first>,/re/<tail>  and  <first>;/re/<tail>  where <first> is one address without a search *)

Definition nosep (s : bytes) : Prop := Forall (fun c => c <> 44%N /\ c <> 59%N) s.
Definition eats (s r : bytes) : Prop := exists p, s = p ++ r /\ nosep p.      (* r is s without a separator-free prefix *)

Lemma eats_refl s : eats s s. Proof. exists []. split; [reflexivity | constructor]. Qed.
Lemma eats_cons c s r : c <> 44%N -> c <> 59%N -> eats s r -> eats (c :: s) r.
Proof. intros A B (p & -> & N). exists (c :: p). split; [reflexivity | constructor; [split|]; assumption]. Qed.
Lemma eats_trans a b c : eats a b -> eats b c -> eats a c.
Proof. intros (p & -> & P) (q & -> & Q). exists (p ++ q). split; [now rewrite app_assoc | apply Forall_app; split; assumption]. Qed.

Lemma is_dig_nosep c : is_dig c = true -> c <> 44%N /\ c <> 59%N.
Proof. intros H. split; intros ->; cbn in H; discriminate. Qed.
Lemma digits_eats : forall s acc, eats s (snd (digits s acc)).
Proof.
  induction s as [|c s IH]; intros acc; cbn; [apply eats_refl|].
  destruct (is_dig c) eqn:D; [|apply eats_refl]. destruct (is_dig_nosep c D). apply eats_cons; [assumption..|apply IH].
Qed.
Lemma offsets_eats : forall fuel s n, eats s (snd (offsets fuel s n)).
Proof.
  induction fuel as [|f IH]; intros s n; cbn; [apply eats_refl|].
  destruct s as [|c r]; [apply eats_refl|].
  destruct ((c =? 45) || (c =? 43))%N eqn:E; [|apply eats_refl].
  assert (c <> 44%N /\ c <> 59%N) as [A B].
  { apply orb_prop in E. destruct E as [E|E]; apply N.eqb_eq in E; subst; split; discriminate. }
  apply eats_cons; [assumption..|]. eapply eats_trans; [apply digits_eats | apply IH].
Qed.
Lemma fin_eats (n : Z) (rest : bytes) (k : kst) x y z :
  (let (n', rest') := offsets (S (length rest)) rest n in (n', rest', k)) = (x, y, z) -> eats rest y.
Proof.
  pose proof (offsets_eats (S (length rest)) rest n) as HS.
  destruct (offsets (S (length rest)) rest n) as [n' rest']. intros E. inversion E; subst. exact HS.
Qed.
(* one address without a search never steps over a separator *)
Lemma lineno_eats valid find buf k c r n rest k' :
  c <> 47%N -> c <> 63%N ->
  a_lineno valid find buf k (c :: r) = (n, rest, k') -> eats (c :: r) rest.
Proof.
  intros N1 N2. unfold a_lineno.
  destruct (c =? 46)%N eqn:E1. { apply N.eqb_eq in E1; subst. intros E. apply fin_eats in E. apply eats_cons; [discriminate..|exact E]. }
  destruct (c =? 36)%N eqn:E2. { apply N.eqb_eq in E2; subst. intros E. apply fin_eats in E. apply eats_cons; [discriminate..|exact E]. }
  destruct (c =? 39)%N eqn:E3. { apply N.eqb_eq in E3; subst. intros E. inversion E; subst. apply eats_cons; [discriminate..|apply eats_refl]. }
  apply N.eqb_neq in N1. apply N.eqb_neq in N2. rewrite N1, N2. cbn [orb].
  destruct (is_dig c).
  - intros E. apply fin_eats in E. eapply eats_trans; [apply (digits_eats (c :: r) 0) | exact E].
  - intros E. apply fin_eats in E. exact E.
Qed.

(* what is left of  pre ++ sep :: rest  after a separator-free prefix was eaten still ends in  sep :: rest *)
Lemma eats_before_sep : forall p pre sep rest r,
  nosep pre -> (sep = 44%N \/ sep = 59%N) -> nosep p -> p ++ r = pre ++ sep :: rest ->
  exists q, r = q ++ sep :: rest /\ nosep q.
Proof.
  induction p as [|x p IH]; intros pre sep rest r NP HSEP NQ E.
  - cbn in E. subst. exists pre. split; [reflexivity | exact NP].
  - destruct pre as [|y pre].
    + cbn in E. inversion E; subst. inversion NQ as [|? ? [A B] _]; subst. destruct HSEP; subst; congruence.
    + cbn in E. injection E as E1 E2. inversion NP as [|? ? _ NP']; inversion NQ as [|? ? _ NQ']; subst.
      exact (IH pre sep rest r NP' HSEP NQ' E2).
Qed.
Lemma skip_to_sep_at : forall q sep rest, nosep q -> (sep = 44%N \/ sep = 59%N) -> skip_to_sep (q ++ sep :: rest) = sep :: rest.
Proof.
  induction q as [|c q IH]; intros sep rest N HSEP; cbn.
  - destruct HSEP; subst; reflexivity.
  - inversion N as [|? ? [A B] N']; subst. apply N.eqb_neq in A. apply N.eqb_neq in B. rewrite A, B. cbn. apply IH; assumption.
Qed.

Theorem region_search_second valid find buf k c pre sep d re tail bad b e k1 :
  nosearch (c :: pre) -> nosep (c :: pre) -> (sep = 44%N \/ sep = 59%N) ->
  (d = 47%N \/ d = 63%N) -> plain d re -> re <> [] -> nosearch tail ->
  a_region valid find buf ((c :: pre) ++ sep :: d :: re ++ d :: tail) k = Some (bad, b, e, k1) ->
  (* the first address was refused (row below -1: only an unset mark does that here) and the search never ran ... *)
  (bad = true /\ same_kwd k k1) \/
  (* ... or re is what the address leaves behind, found or not, accepted or not *)
  (k_kwd k1 = re /\ k_dir k1 = dir_of d /\ k_rep k1 = k_rep k).
Proof.
  intros NS NP HSEP D P NE NT. unfold a_region.
  set (loc := (c :: pre) ++ sep :: d :: re ++ d :: tail).
  assert (E0 : beqb loc [37%N] = false).
  { unfold loc. cbn. destruct (c =? 37)%N; [|reflexivity]. destruct pre; reflexivity. }
  rewrite E0. unfold loc at 1. cbn [app].
  assert (G : forall r, a_loop valid find buf (S (length loc)) loc true 0 0 k = Some r ->
              (fst (fst (fst r)) = true /\ same_kwd k (snd r)) \/ same_kwd (kwdset k re (dir_of d)) (snd r)).
  { intros r. unfold loc at 2. cbn [app a_loop].
    destruct (a_lineno valid find buf k (c :: pre ++ sep :: d :: re ++ d :: tail)) as [[n rest] k'] eqn:L.
    inversion NS as [|? ? [N1 N2] NS']; subst.
    destruct (lineno_other _ _ _ _ _ _ _ _ _ N1 N2 L) as [-> _].
    pose proof (lineno_eats _ _ _ _ _ _ _ _ _ N1 N2 L) as (p & EP & NPp).
    destruct (n + 1 <? 0). { intros E. inversion E. left. split; [reflexivity | apply same_refl]. }
    destruct (eats_before_sep p (c :: pre) sep (d :: re ++ d :: tail) rest NP HSEP NPp (eq_sym EP)) as (q & -> & NQ).
    rewrite (skip_to_sep_at q sep _ NQ HSEP).
    set (k2 := if (sep =? 59)%N then set_row k (n + 1 - 1) else k).
    assert (K2 : same_kwd k k2) by (unfold k2; destruct (sep =? 59)%N; [apply same_set_row | apply same_refl]).
    (* the second round: the search *)
    assert (LEN : exists f', length loc = S f').
    { unfold loc. cbn. eexists. reflexivity. }
    destruct LEN as [f' LEN]. rewrite LEN. cbn [a_loop].
    destruct (a_lineno valid find buf k2 (d :: re ++ d :: tail)) as [[n2 rest2] k3] eqn:L2.
    destruct (lineno_search _ _ _ _ _ _ _ _ _ _ D P NE L2) as [-> HS].
    assert (K3 : same_kwd (kwdset k re (dir_of d)) (kwdset k2 re (dir_of d))).
    { destruct K2 as (_ & _ & R). repeat split. cbn. exact R. }
    destruct (n2 + 1 <? 0). { intros E. inversion E. right. exact K3. }
    pose proof (skip_to_sep_sfx rest2) as HS2.
    destruct (skip_to_sep rest2) as [|c2 rest3]. { intros E. inversion E. right. exact K3. }
    intros E. apply loop_nosearch in E.
    - right. eapply same_trans; [exact K3|]. eapply same_trans; [|exact E].
      destruct (c2 =? 59)%N; [apply same_set_row | apply same_refl].
    - eapply nosearch_sfx; [exact NT|]. eapply sfx_trans; [exact HS|]. eapply sfx_trans; [exact HS2|]. apply sfx_cons, sfx_refl. }
  fold loc.
  destruct (a_loop valid find buf (S (length loc)) loc true 0 0 k) as [[[[bad' b'] e'] k']|]; [|discriminate].
  specialize (G _ eq_refl). cbn [fst snd] in G.
  assert (R : bad' = true /\ same_kwd k k' \/ (k_kwd k' = re /\ k_dir k' = dir_of d /\ k_rep k' = k_rep k)).
  { destruct G as [G|(G1 & G2 & G3)]; [left; exact G | right; cbn in G1, G2, G3; tauto]. }
  destruct bad'. { intros E. inversion E; subst. destruct R as [[_ R]|R]; [left; split; [reflexivity|exact R] | right; exact R]. }
  assert (R' : k_kwd k' = re /\ k_dir k' = dir_of d /\ k_rep k' = k_rep k) by (destruct R as [[R _]|R]; [discriminate | exact R]).
  destruct ((if (b' <? 0) && (e' =? 0) then 0 else b') <? 0) ; destruct (blen buf <=? (if (b' <? 0) && (e' =? 0) then 0 else b')); cbn [orb];
    try (intros E; inversion E; subst; right; exact R').
  destruct ((e' <? (if (b' <? 0) && (e' =? 0) then 0 else b')) || (blen buf <? e')); intros E; inversion E; subst; right; exact R'.
Qed.

(* ------------------------------------------------------------------------------------------ *)
(* the fuel of the address loop is never exhausted: every round consumes at least the separator *)

Lemma sfx_len s r : sfx s r -> (length r <= length s)%nat.
Proof. intros [p ->]. rewrite app_length. lia. Qed.
Lemma rrl_len : forall n s d, (length s <= n)%nat -> (length (snd (re_read_loop d s)) <= length s)%nat.
Proof.
  induction n as [|n IH]; intros s d L.
  - destruct s; [cbn; lia | cbn in L; lia].
  - destruct s as [|c s1]; [cbn; lia|]. cbn [re_read_loop].
    destruct (c =? d)%N; [cbn; lia|].
    destruct (c =? 92)%N.
    + destruct s1 as [|x s2].
      * cbn. lia.
      * specialize (IH s2 d). cbn in L. destruct (re_read_loop d s2) as [t r]. cbn [snd] in IH.
        destruct (x =? d)%N; cbn [snd length]; lia.
    + specialize (IH s1 d). cbn in L. destruct (re_read_loop d s1) as [t r]. cbn [snd length] in *. lia.
Qed.
Lemma fin_len (n : Z) (rest : bytes) (k : kst) x y z :
  (let (n', rest') := offsets (S (length rest)) rest n in (n', rest', k)) = (x, y, z) -> (length y <= length rest)%nat.
Proof. intros E. apply fin_sfx in E. destruct E as [_ E]. apply sfx_len, E. Qed.
Lemma lineno_len valid find buf k s n rest k' :
  a_lineno valid find buf k s = (n, rest, k') -> (length rest <= length s)%nat.
Proof.
  unfold a_lineno. destruct s as [|c r]. { intros E. apply fin_len in E. exact E. }
  destruct (c =? 46)%N. { intros E. apply fin_len in E. cbn. lia. }
  destruct (c =? 36)%N. { intros E. apply fin_len in E. cbn. lia. }
  destruct (c =? 39)%N. { intros E. inversion E; subst. cbn. lia. }
  destruct ((c =? 47) || (c =? 63))%N.
  - unfold a_search. pose proof (rrl_len (length r) r c (le_n _)) as R.
    destruct (re_read_loop c r) as [kw rest0]. cbn [snd] in R.
    set (k1 := match kw with [] => k | _ :: _ => kwdset k kw (if (c =? 47)%N then 1 else -1) end).
    destruct (k_dir k1 =? 0). { cbn. intros E. inversion E; subst. cbn. lia. }
    destruct (negb (valid (k_kwd k1))). { cbn. intros E. inversion E; subst. cbn. lia. }
    destruct (search_rows find buf (S (length buf)) (k_kwd k1) (k_row k1 + k_dir k1) (k_dir k1) <? 0).
    + intros E. inversion E; subst. cbn. lia.
    + intros E. apply fin_len in E. cbn. lia.
  - destruct (is_dig c).
    + intros E. apply fin_len in E. pose proof (sfx_len _ _ (digits_sfx (c :: r) 0)). lia.
    + intros E. apply fin_len in E. exact E.
Qed.
Lemma loop_fuel valid find buf : forall fuel s first b e k,
  (length s < fuel)%nat -> a_loop valid find buf fuel s first b e k <> None.
Proof.
  induction fuel as [|f IH]; intros s first b e k L; [lia|]. cbn [a_loop].
  destruct s as [|c s']; [discriminate|].
  destruct (a_lineno valid find buf k (c :: s')) as [[n rest] k1] eqn:E. apply lineno_len in E.
  destruct (n + 1 <? 0); [discriminate|].
  pose proof (sfx_len _ _ (skip_to_sep_sfx rest)) as L2.
  destruct (skip_to_sep rest) as [|c2 rest2]; [discriminate|].
  apply IH. cbn [length] in *. lia.
Qed.
Theorem region_total valid find buf loc k : a_region valid find buf loc k <> None.
Proof.
  unfold a_region. destruct (beqb loc [37%N]); [discriminate|]. destruct loc as [|c s]; [discriminate|].
  pose proof (loop_fuel valid find buf (S (length (c :: s))) (c :: s) true 0 0 k (Nat.lt_succ_diag_r _)) as F.
  destruct (a_loop valid find buf (S (length (c :: s))) (c :: s) true 0 0 k) as [[[[bad b] e] k1]|]; [|congruence].
  destruct bad; [discriminate|].
  destruct ((if (b <? 0) && (e =? 0) then 0 else b) <? 0); destruct (blen buf <=? (if (b <? 0) && (e =? 0) then 0 else b)); cbn [orb]; try discriminate.
  destruct ((e <? (if (b <? 0) && (e =? 0) then 0 else b)) || (blen buf <? e)); discriminate.
Qed.
Theorem ec_subst_total valid find buf loc arg k : ec_subst valid find buf loc arg k <> None.
Proof.
  unfold ec_subst, subst_head. pose proof (region_total valid find buf loc k) as R.
  destruct (a_region valid find buf loc k) as [[[[bad b] e] k1]|]; [|congruence].
  destruct bad; [discriminate|].
  destruct (subst_args arg) as [[pat rep] flags].
  match goal with |- context [if ?c then Some (?a, None) else _] => destruct c end; [discriminate|].
  match goal with |- context [if valid ?p then _ else _] => destruct (valid p) end; discriminate.
Qed.
