(* TrExIdx.v -- C06 / C05: ex_idx of /repo/ex.c (the lookup of a command name in excmds[]) as translated by tools/c2clite.py
   (cf_ex_idx of GenCFuncs.v, whitelist tools/c2clite.d/99zzzzz_exparse.list) returns the index CapDefs.ex_idx computes over the
   generated table GenExCmds.excmds_tab (tools/translate.py), for EVERY command-name string; memory unchanged.

   The table in memory: G_excmds is the block of struct excmd[52] = 52 * 3 cells (abbr, name, ec); abbr and name point to string
   literals, each a block of its own; ec is a pointer to function: no CLite value (VUndef), never loaded -- the one use, the indirect
   call in ex_exec, is a call to the oracle index X_indirect with the ADDRESS of the cell (TrExParse.v).
   `excmds_at m` states the table over GenExCmds.excmds_tab; `excmds_at_globals` shows by computation that the initial memory the
   translator prints (cglobals) satisfies it: the two generated artefacts (translate.py's table, c2clite.py's blocks) agree.
   The argument is a string at the start of a larger block (cmd[EXLEN] of ex_exec): `pstr_at`. *)
From Coq Require Import List ZArith NArith Bool Lia.
From NV Require Import Bytes GenConsts GenExCmds CLite CLiteProps GenCFuncs CLiteTac CLiteExt TrLbufBase.
From NV Require CapDefs.
Import ListNotations.
Local Open Scope Z_scope.

(* ------------------------------------------------------------------ strings at the start of a block, strcmp *)
Definition pstr_at (m : mem) (b : nat) (s : bytes) : Prop := exists rest, nth_error m b = Some (cstr_block (zb s) ++ rest).
Lemma str_pstr m b s : str_at m b s -> pstr_at m b s.
Proof. intro H. exists []. rewrite app_nil_r. exact H. Qed.

Fixpoint str_cmp (a b : bytes) : Z :=
  match a, b with
  | [], [] => 0
  | [], _ :: _ => -1
  | _ :: _, [] => 1
  | x :: a', y :: b' => if (x <? y)%N then -1 else if (y <? x)%N then 1 else str_cmp a' b'
  end.
Lemma wrap_u8_byte : forall c, (c < 256)%N -> wrap U8 (Z.of_N c) = Z.of_N c.
Proof. byte_fact. Qed.
Lemma cmp_cells_pstr (a : bytes) : nonul a -> forall (b : bytes) r1 r2 n, nonul b -> (Nat.min (length a) (length b) < n)%nat ->
  cmp_cells (cstr_block (zb a) ++ r1) (cstr_block (zb b) ++ r2) n = Ok (str_cmp a b).
Proof.
  intro Ha. induction a as [|x a IH]; intros b r1 r2 n Hb Hn; (destruct n as [|n]; [cbn in Hn; lia|]).
  - destruct b as [|y b]; [reflexivity|]. inversion Hb as [|? ? [Hy0 Hy] Hb']; subst.
    cbn [cstr_block zb map app cmp_cells str_cmp]. rewrite (wrap_u8_byte y Hy). change (wrap U8 0) with 0.
    destruct (Z.ltb_spec 0 (Z.of_N y)); [reflexivity|lia].
  - inversion Ha as [|? ? [Hx0 Hx] Ha']; subst. destruct b as [|y b].
    + cbn [cstr_block zb map app cmp_cells str_cmp]. rewrite (wrap_u8_byte x Hx). change (wrap U8 0) with 0.
      destruct (Z.ltb_spec (Z.of_N x) 0); [lia|]. destruct (Z.ltb_spec 0 (Z.of_N x)); [reflexivity|lia].
    + inversion Hb as [|? ? [Hy0 Hy] Hb']; subst. cbn [cstr_block zb map app cmp_cells str_cmp].
      rewrite (wrap_u8_byte x Hx), (wrap_u8_byte y Hy).
      destruct (Z.ltb_spec (Z.of_N x) (Z.of_N y)); destruct (N.ltb_spec x y); try lia; [reflexivity|].
      destruct (Z.ltb_spec (Z.of_N y) (Z.of_N x)); destruct (N.ltb_spec y x); try lia; [reflexivity|].
      destruct (Z.eqb_spec (Z.of_N x) 0); [lia|]. apply (IH Ha' b r1 r2 n Hb'). cbn [length] in Hn. lia.
Qed.
Lemma str_cmp_eqb a b : (str_cmp a b =? 0) = CapDefs.bytes_eqb a b.
Proof.
  revert b; induction a as [|x a IH]; intros [|y b]; try reflexivity. cbn [str_cmp CapDefs.bytes_eqb].
  destruct (N.ltb_spec x y); [destruct (N.eqb_spec x y); [lia|reflexivity]|].
  destruct (N.ltb_spec y x); [destruct (N.eqb_spec x y); [lia|reflexivity]|].
  destruct (N.eqb_spec x y); [apply IH|lia].
Qed.
Lemma builtin_strcmp_p m b1 s1 b2 s2 : pstr_at m b1 s1 -> pstr_at m b2 s2 -> nonul s1 -> nonul s2 ->
  do_builtin_m BStrcmp [VPtr b1 0; VPtr b2 0] m = Ok (VInt (str_cmp s1 s2), m).
Proof.
  intros [r1 H1] [r2 H2] N1 N2. cbn [do_builtin_m do_builtin]. unfold blk_from. rewrite H1, H2.
  change (0 <? 0) with false. cbn [orb].
  destruct (Z.ltb_spec (Z.of_nat (length (cstr_block (zb s1) ++ r1))) 0); [lia|].
  destruct (Z.ltb_spec (Z.of_nat (length (cstr_block (zb s2) ++ r2))) 0); [lia|].
  change (Z.to_nat 0) with 0%nat. cbn [skipn bind].
  rewrite cmp_cells_pstr; [reflexivity|assumption|assumption|].
  rewrite !app_length. unfold cstr_block, zb. rewrite !app_length, !map_length. cbn [length]. lia.
Qed.

(* ------------------------------------------------------------------ the table *)
Definition NCMDS : nat := length excmds_tab.
Definition excmds_at (m : mem) : Prop :=
  exists gblk, nth_error m G_excmds = Some gblk /\
  forall k ab nm, nth_error excmds_tab k = Some (ab, nm) ->
    exists ga gn, nth_error gblk (3 * k) = Some (VPtr ga 0) /\ nth_error gblk (3 * k + 1) = Some (VPtr gn 0) /\
                  str_at m ga ab /\ str_at m gn nm /\ (ga < length cglobals)%nat /\ (gn < length cglobals)%nat.
Definition names_nonul : Prop := Forall (fun e : bytes * bytes => nonul (fst e) /\ nonul (snd e)) excmds_tab.
Lemma excmds_nonul : names_nonul.
Proof. unfold names_nonul, excmds_tab. repeat (apply Forall_cons; [split; repeat (apply Forall_cons; [unfold byte_ok; lia|]); apply Forall_nil|]). apply Forall_nil. Qed.

(* the memory the translator prints satisfies excmds_at: translate.py's table and c2clite.py's blocks say the same *)
Definition entry_okb (k : nat) (e : bytes * bytes) : Prop :=
  exists ga gn, nth_error gb_excmds (3 * k) = Some (VPtr ga 0) /\ nth_error gb_excmds (3 * k + 1) = Some (VPtr gn 0) /\
                nth_error cglobals ga = Some (cstr_block (zb (fst e))) /\ nth_error cglobals gn = Some (cstr_block (zb (snd e))).
Fixpoint entries_ok (k : nat) (l : list (bytes * bytes)) : Prop :=
  match l with [] => True | e :: r => entry_okb k e /\ entries_ok (S k) r end.
Lemma entries_ok_nth : forall l k0 k e, entries_ok k0 l -> nth_error l k = Some e -> entry_okb (k0 + k) e.
Proof.
  induction l as [|x l IH]; intros k0 k e H Hn; [destruct k; discriminate|]. destruct H as [Hx Hr]. destruct k as [|k].
  - injection Hn as <-. rewrite Nat.add_0_r. exact Hx.
  - replace (k0 + S k)%nat with (S k0 + k)%nat by lia. apply IH; assumption.
Qed.
Lemma excmds_entries : entries_ok 0 excmds_tab.
Proof.
  unfold excmds_tab. cbn [entries_ok].
  repeat (split; [eexists; eexists; split; [vm_compute; reflexivity|]; split; [vm_compute; reflexivity|]; split; vm_compute; reflexivity|]).
  exact I.
Qed.
Theorem excmds_at_globals m : globals_at m -> excmds_at m.
Proof.
  intro G. exists gb_excmds. split; [apply G; reflexivity|]. intros k ab nm Hk.
  destruct (entries_ok_nth excmds_tab 0 k (ab, nm) excmds_entries Hk) as (ga & gn & H1 & H2 & H3 & H4).
  exists ga, gn. cbn [Nat.add] in H1, H2. repeat split; try assumption; try (unfold str_at; apply G; assumption);
    apply nth_error_Some; congruence.
Qed.

(* ------------------------------------------------------------------ the loop *)
Definition idx_loop : stmt := match fn_body cf_ex_idx with SSeq (SSeq _ w) _ => w | _ => SSkip end.
Definition idx_res (r : option (nat * bytes)) : Z := match r with Some (k, _) => Z.of_nat k | None => -1 end.

Ltac lenN :=
  match goal with
  | |- context [if ?a =? 0 then Err EDivZero else chk U64 (?x ÷ ?a)] =>
      let v := eval vm_compute in (if a =? 0 then @Err Z EDivZero else chk U64 (x ÷ a)) in
      change (if a =? 0 then Err EDivZero else chk U64 (x ÷ a)) with v
  end.

Lemma NCMDS_52 : Z.of_nat NCMDS = 52.
Proof. reflexivity. Qed.

Lemma skipn_S_tail {A} (l : list A) : forall i x r, skipn i l = x :: r -> skipn (S i) l = r.
Proof. induction l as [|a l IH]; intros [|i] x r H; cbn in H |- *; try discriminate; [injection H as _ <-; reflexivity|exact (IH i x r H)]. Qed.

Lemma idx_loop_ok call m bc cmd : excmds_at m -> pstr_at m bc cmd -> nonul cmd ->
  forall rest i fuel, skipn i excmds_tab = rest -> (i <= NCMDS)%nat -> (length rest < fuel)%nat ->
  exec call fuel idx_loop (mkst [VPtr bc 0; VInt (Z.of_nat i)] m) =
  match CapDefs.idx_from rest cmd i with
  | Some (j, _) => OReturn (VInt (Z.of_nat j)) (mkst [VPtr bc 0; VInt (Z.of_nat j)] m)
  | None => ONormal (mkst [VPtr bc 0; VInt (Z.of_nat NCMDS)] m)
  end.
Proof.
  intros (gblk & Hg & Htab) Hc Nc. pose proof excmds_nonul as Hnn.
  induction rest as [|[ab nm] rest IH]; intros i fuel Hsk Hi Hf; (destruct fuel as [|fuel]; [cbn [length] in Hf; lia|]);
    unfold idx_loop; cbn [fn_body cf_ex_idx]; rewrite exec_for; xstep; lenN; xstep;
    rewrite wrap_U64_id by (pose proof NCMDS_52; lia); change (wrap U64 52) with 52.
  - assert (i = NCMDS) as -> by (apply (f_equal (@length _)) in Hsk; rewrite skipn_length in Hsk; cbn [length] in Hsk; unfold NCMDS in *; lia).
    rewrite NCMDS_52. change (52 <? 52) with false. xstep. reflexivity.
  - assert (Hlt : (i < NCMDS)%nat).
    { apply (f_equal (@length _)) in Hsk. rewrite skipn_length in Hsk. cbn [length] in Hsk. unfold NCMDS in *. lia. }
    destruct (Z.ltb_spec (Z.of_nat i) 52); [|pose proof NCMDS_52; lia]. xstep.
    assert (Hk : nth_error excmds_tab i = Some (ab, nm)).
    { rewrite <- (firstn_skipn i excmds_tab) at 1. rewrite nth_error_app2 by (rewrite firstn_length; unfold NCMDS in Hlt; lia).
      rewrite firstn_length, Nat.min_l by (unfold NCMDS in Hlt; lia). rewrite Nat.sub_diag, Hsk. reflexivity. }
    destruct (Htab i ab nm Hk) as (ga & gn & H1 & H2 & Sa & Sn & _ & _).
    assert (Nab : nonul ab /\ nonul nm).
    { unfold names_nonul in Hnn. rewrite Forall_forall in Hnn. apply (Hnn (ab, nm)). eapply nth_error_In; exact Hk. }
    destruct Nab as [Nab Nnm].
    assert (Hnext : exec call fuel idx_loop (mkst [VPtr bc 0; VInt (Z.of_nat (S i))] m) =
                    match CapDefs.idx_from rest cmd (S i) with
                    | Some (j, _) => OReturn (VInt (Z.of_nat j)) (mkst [VPtr bc 0; VInt (Z.of_nat j)] m)
                    | None => ONormal (mkst [VPtr bc 0; VInt (Z.of_nat NCMDS)] m) end).
    { apply IH; [|lia|cbn [length] in Hf; lia].
      exact (skipn_S_tail _ _ _ _ Hsk). }
    unfold idx_loop in Hnext; cbn [fn_body cf_ex_idx] in Hnext.
    replace (0 + 3 * Z.of_nat i) with (Z.of_nat (3 * i)) by lia.
    rewrite (fld_load m G_excmds gblk (3 * i) _ _ Hg H1) by reflexivity. xstep.
    rewrite (builtin_strcmp_p m ga ab bc cmd (str_pstr _ _ _ Sa) Hc Nab Nc). xstep.
    cbn [CapDefs.idx_from]. rewrite <- !str_cmp_eqb.
    destruct (str_cmp ab cmd =? 0); xstep; cbn [orb].
    + reflexivity.
    + replace (0 + 3 * Z.of_nat i + 1 * 1) with (Z.of_nat (3 * i + 1)) by lia.
      rewrite (fld_load m G_excmds gblk (3 * i + 1) _ _ Hg H2) by reflexivity. xstep.
      rewrite (builtin_strcmp_p m gn nm bc cmd (str_pstr _ _ _ Sn) Hc Nnm Nc). xstep.
      destruct (str_cmp nm cmd =? 0); xstep.
      * reflexivity.
      * rewrite chk_I32 by (pose proof NCMDS_52; lia). xstep. replace (Z.of_nat i + 1) with (Z.of_nat (S i)) by lia.
        rewrite Hnext. reflexivity.
Qed.

(* ex_idx(cmd): the index of the first entry of excmds[] whose abbreviation or name is cmd, else -1 *)
Theorem tr_ex_idx m bc cmd d fuel : excmds_at m -> pstr_at m bc cmd -> nonul cmd -> (S NCMDS < fuel)%nat ->
  callf cprog fuel (S d) F_ex_idx [VPtr bc 0] m = Ok (VInt (idx_res (CapDefs.ex_idx cmd)), m).
Proof.
  intros Ht Hc Nc Hf. enter F_ex_idx cf_ex_idx. rewrite exec_seq, exec_seq, exec_expr. xcbn.
  pose proof (idx_loop_ok (callf cprog fuel d) m bc cmd Ht Hc Nc excmds_tab 0 fuel eq_refl ltac:(lia) ltac:(unfold NCMDS in Hf; lia)) as Hloop.
  unfold idx_loop in Hloop; cbn [fn_body cf_ex_idx] in Hloop. change (Z.of_nat 0) with 0 in Hloop. rewrite Hloop.
  unfold CapDefs.ex_idx. destruct (CapDefs.idx_from excmds_tab cmd 0) as [[j ab]|]; cbn [idx_res]; [reflexivity|].
  xstep. reflexivity.
Qed.

(* what the entry found is: for ex_exec, which reads excmds[idx].abbr *)
Lemma idx_from_nth cmd : forall tab k j ab, CapDefs.idx_from tab cmd k = Some (j, ab) ->
  (k <= j)%nat /\ exists nm, nth_error tab (j - k) = Some (ab, nm).
Proof.
  induction tab as [|[a n] tab IH]; intros k j ab H; cbn [CapDefs.idx_from] in H; [discriminate|].
  destruct (CapDefs.bytes_eqb a cmd || CapDefs.bytes_eqb n cmd).
  - injection H as <- <-. split; [lia|]. rewrite Nat.sub_diag. exists n. reflexivity.
  - destruct (IH (S k) j ab H) as [L [nm E]]. split; [lia|]. exists nm. replace (j - k)%nat with (S (j - S k)) by lia. exact E.
Qed.
Lemma ex_idx_nth cmd j ab : CapDefs.ex_idx cmd = Some (j, ab) -> exists nm, nth_error excmds_tab j = Some (ab, nm).
Proof. intro H. destruct (idx_from_nth cmd excmds_tab 0 j ab H) as [_ [nm E]]. rewrite Nat.sub_0_r in E. eauto. Qed.
Print Assumptions tr_ex_idx. Print Assumptions excmds_at_globals.
