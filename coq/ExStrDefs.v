(* ExStrDefs.v -- C06: the text block of an `rs` that is executed from a command STRING (a register run by @), on LINES.
   ex.c ex_txt() finds the text block of `rs` in two ways: a typed `rs` reads the following input lines up to the lone "."
   (ExDefs.read_block); an `rs` inside a multi-line command string takes the bytes that follow it in the string up to
   "\n.\n" (ExDefs.inline_block, a byte scan) and execution goes on behind those three bytes.  This file says what the byte
   scan must amount to without bytes: the string after the `rs x` line is a list of lines; the first of them is text
   whatever it is, the block ends before the first later line that is a lone "."; that line is consumed; the lines
   after it are the commands still to run.  (No "." line: everything is text and an empty line is added.)
   Definitions only; the proofs are in ExStrProps.v. *)
From Coq Require Import List NArith ZArith Bool.
From NV Require Import Bytes ExDefs.
Import ListNotations.

(* a line: no newline inside *)
Definition nonl (l : bytes) : bool := negb (mem nl l).
Definition is_dot (l : bytes) : bool := bytes_eqb l [46%N].

(* the lines before the first lone "." and the lines after it *)
Fixpoint cut_dot (l : list bytes) : option (list bytes * list bytes) :=
  match l with
  | [] => None
  | x :: l' =>
    if is_dot x then Some ([], l')
    else match cut_dot l' with Some (a, b) => Some (x :: a, b) | None => None end
  end.

(* the lines t0 :: tl that follow `rs x` in a command string: (text block, command lines still to run) *)
Definition str_block (t0 : bytes) (tl : list bytes) : list bytes * list bytes :=
  match cut_dot tl with
  | Some (pre, post) => (t0 :: pre, post)
  | None => (t0 :: tl ++ [[]], [])
  end.

(* the command line `rs` / `rs c` with its newline; c: a register name that ex_arg copies as it is *)
Definition rs_line (c : option N) : bytes :=
  match c with Some c => [114; 115; 32; c; 10]%N | None => [114; 115; 10]%N end.
Definition rs_reg (c : option N) : N := match c with Some c => c | None => 0%N end.
Definition regch (c : option N) : bool :=
  match c with Some c => negb (mem c (str [32; 9; 10; 124; 34; 92]%N)) | None => true end.

(* a register text: `rs c`, the lines t0 :: tl (text block, lone ".", further command lines) *)
Definition rs_string (c : option N) (t0 : bytes) (tl : list bytes) : bytes := rs_line c ++ join_lines (t0 :: tl).

(* the seeded variant of the scan (strstr + `end + 2`): the newline that ends the "." line is left in the string.
   For the example in Properties_C06.v only. *)
Fixpoint inline_block_short (src acc : bytes) : bytes * bytes :=
  match src with
  | [] => (rev acc, [])
  | 10%N :: 46%N :: 10%N :: rest => (rev acc, 10%N :: rest)
  | c :: src' => inline_block_short src' (c :: acc)
  end.
