(* ExAddrDefs.v -- the position-based model of ex_region with everything the C function leaves behind (definitions only;
   used by TrExAddr.v, which ties it to the C text, and ExCapAddr.v, which ties it to the list-based model ExDefs.ex_region) *)
From Coq Require Import List NArith ZArith Bool.
From NV Require Import Bytes.
From NV Require CapDefs.
Import ListNotations.
Local Open Scope Z_scope.

(* no search in the address string *)
Definition nosearch (s : bytes) : Prop := Forall (fun c => c <> 47%N /\ c <> 63%N) s.

(* (rejected, beg, end, xrow'): the value returned (true = 1), *beg, *end (also when the address is rejected: the callers
   a/i/r/pu look at them) and xrow *)
Definition sep_pre (c : N) : bool := (negb (c =? 0) && negb (c =? 59) && negb (c =? 44))%N.
Fixpoint rloop (lineno : Z -> bytes -> nat -> CapDefs.res (Z * nat)) (fuel : nat) (s : bytes) (i : nat) (xrow : Z)
    (naddr : nat) (b e : Z) : CapDefs.res (bool * Z * Z * Z) :=
  match fuel with
  | O => CapDefs.NoFuel
  | S f =>
      CapDefs.bind (CapDefs.rd s i) (fun c =>
      if (c =? 0)%N then CapDefs.Ok (false, b, e, xrow) else
      CapDefs.bind (lineno xrow s i) (fun r =>
      let e1 := fst r + 1 in
      let b1 := match naddr with O => e1 - 1 | _ => e - 1 end in
      if e1 <? 0 then CapDefs.Ok (true, b1, e1, xrow) else
      CapDefs.bind (CapDefs.skip_while (S (length s)) sep_pre s (snd r)) (fun j =>
      CapDefs.bind (CapDefs.rd s j) (fun c2 =>
      if (c2 =? 0)%N then CapDefs.Ok (false, b1, e1, xrow) else
      rloop lineno f s (S j) (if (c2 =? 59)%N then e1 - 1 else xrow) (S naddr) b1 e1))))
  end.
Definition region_full (len : Z) (lineno : Z -> bytes -> nat -> CapDefs.res (Z * nat)) (loc : bytes) (xrow : Z)
    : CapDefs.res (bool * Z * Z * Z) :=
  if CapDefs.bytes_eqb loc [37%N] then CapDefs.Ok (false, 0, Z.max 0 len, xrow) else
  CapDefs.bind (CapDefs.rd loc 0) (fun c =>
  if (c =? 0)%N then CapDefs.Ok ((xrow <? 0) || (len <? xrow), xrow, (if xrow =? len then xrow else xrow + 1), xrow) else
  CapDefs.bind (rloop lineno (S (length loc)) loc 0 xrow 0 0 0) (fun r =>
  let '(bad, b, e, xr) := r in
  if bad then CapDefs.Ok (true, b, e, xr) else
  let b := if (b <? 0) && (e =? 0) then 0 else b in
  if (b <? 0) || (len <=? b) then CapDefs.Ok (true, b, e, xr) else
  if (e <? b) || (len <? e) then CapDefs.Ok (true, b, e, xr) else CapDefs.Ok (false, b, e, xr))).

