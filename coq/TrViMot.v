(* TrViMot.v -- the remaining motion code of C07 on the translated C text (tools/c2clite.d/89_vimot.list):
   mot.c lbuf_findchar (f F t T ; ,) and lbuf_pair (%), vi.c vi_col2off / vi_off2col / vi_nextoff / vi_nextcol (the column
   machinery of h l | j k), vi_cnt and vi_motionln (the line motions + - _ G H M L j k N%).
   For each function: running the CLite term c2clite generated from /repo on a memory that holds the buffer as
   TrMot.lbuf_at describes gives, for ALL buffers whose lines are valid UTF-8, ALL cursors inside them and ALL counts inside
   int, the value of the hand-written model MotDefs.v and the memory the model predicts (the int cells *row / *off rewritten,
   the address-taken locals of the C function left behind as fresh blocks at the end of memory -- CLite never reclaims them --
   nothing else changed).
   The model works on the character view of a line (MotDefs.chop); the C text on byte pointers (uc_chr / uc_next / uc_prev /
   uc_off / uc_code).  On a valid UTF-8 line s = chars cs (UcSpec.valid) the characters are the encodings of the scalar values
   cs and a byte pointer to character k is the offset off_of cs k: section "valid lines" below, on top of UcSegProps.v. *)
From Coq Require Import List ZArith NArith Bool Lia.
From NV Require Import Bytes UcDefs UcSpec UcProps UcSegProps CLite CLiteProps GenCFuncs CLiteTac CLiteExt TrLbufBase TrUcCode TrUc TrUcClass
                       MotDefs TrMot.
Import ListNotations.
Local Open Scope Z_scope.

(* ------------------------------------------------------------------ valid lines: characters = encoded scalar values *)
Lemma chop_f_chars cs : Forall scalar cs -> forall fuel, (length (chars cs) <= fuel)%nat -> chop_f fuel (chars cs) = map encode cs.
Proof.
  induction 1 as [|c cs Hc Hcs IH]; intros fuel Hf; [destruct fuel; reflexivity|].
  rewrite chars_cons in *. pose proof (encode_nonempty c Hc) as Hn. rewrite app_length in Hf.
  destruct fuel as [|fuel]; [lia|]. cbn [chop_f map].
  destruct (encode c ++ chars cs) eqn:E. { apply (f_equal (@length N)) in E. rewrite app_length in E. cbn in E. lia. }
  rewrite <- E. rewrite uc_next_encode by (auto using chars_hd_noncont).
  replace (Nat.max 1 (length (encode c))) with (length (encode c)) by lia.
  rewrite firstn_app_exact, skipn_app_exact. f_equal. apply IH. lia.
Qed.
Lemma chop_chars cs : Forall scalar cs -> chop (chars cs) = map encode cs.
Proof. intro H. apply chop_f_chars; [exact H|lia]. Qed.

Definition nthc (cs : list N) (k : nat) : N := nth k cs 0%N.
Lemma off_of_succ cs k : (k < length cs)%nat -> off_of cs (S k) = (off_of cs k + length (encode (nthc cs k)))%nat.
Proof.
  revert k; induction cs as [|c cs IH]; intros k Hk; cbn [length] in Hk; [lia|].
  destruct k as [|k]; [rewrite off_of_S, !off_of_0; cbn [nthc nth]; lia|].
  rewrite !off_of_S, IH by lia. cbn [nthc nth]. unfold nthc. lia.
Qed.
Lemma off_of_all cs k : (length cs <= k)%nat -> off_of cs k = length (chars cs).
Proof. intro H. unfold off_of. rewrite firstn_all2 by exact H. reflexivity. Qed.
Lemma skipn_nthc (cs : list N) k : (k < length cs)%nat -> skipn k cs = nthc cs k :: skipn (S k) cs.
Proof.
  revert k; induction cs as [|c cs IH]; intros k Hk; cbn [length] in Hk; [lia|].
  destruct k as [|k]; [reflexivity|]. cbn [skipn]. rewrite IH by lia. reflexivity.
Qed.
Lemma scalar_nthc cs k : Forall scalar cs -> (k < length cs)%nat -> scalar (nthc cs k).
Proof. intros H Hk. rewrite Forall_forall in H. apply H. apply nth_In. exact Hk. Qed.
Lemma Forall_skipn'' {A} (P : A -> Prop) l n : Forall P l -> Forall P (skipn n l).
Proof. revert l; induction n as [|n IH]; intros l H; [exact H|]. destruct l; [exact H|]. inversion H; subst. apply IH. assumption. Qed.
Lemma Forall_firstn'' {A} (P : A -> Prop) l n : Forall P l -> Forall P (firstn n l).
Proof. revert l; induction n as [|n IH]; intros l H; [constructor|]. destruct l; [constructor|]. inversion H; subst. constructor; [assumption|apply IH; assumption]. Qed.

(* uc_next at the start of character k moves to the start of character k + 1 *)
Lemma next_at cs k : Forall scalar cs -> (k < length cs)%nat ->
  (off_of cs k + uc_next (skipn (off_of cs k) (chars cs)) = off_of cs (S k))%nat.
Proof.
  intros H Hk. rewrite skipn_off_of, (skipn_nthc cs k Hk), chars_cons.
  rewrite uc_next_encode; [rewrite off_of_succ by exact Hk; reflexivity|apply scalar_nthc; assumption|].
  apply chars_hd_noncont. apply Forall_skipn''. exact H.
Qed.
(* uc_prev at the start of character k + 1 moves back to the start of character k *)
Lemma firstn_S_nthc (cs : list N) k : (k < length cs)%nat -> firstn (S k) cs = firstn k cs ++ [nthc cs k].
Proof.
  revert k; induction cs as [|c cs IH]; intros k Hk; cbn [length] in Hk; [lia|].
  destruct k as [|k]; [reflexivity|]. cbn [firstn app]. f_equal. apply IH. lia.
Qed.
Lemma prev_at cs k : Forall scalar cs -> (k < length cs)%nat ->
  (off_of cs (S k) - uc_prev (pre_of (chars cs) 0 (off_of cs (S k))) = off_of cs k)%nat.
Proof.
  intros H Hk. unfold pre_of. cbn [skipn]. rewrite Nat.sub_0_r, firstn_off_of, (firstn_S_nthc cs k Hk), chars_app, rev_app_distr.
  cbn [chars flat_map]. rewrite app_nil_r. rewrite uc_prev_encode by (apply scalar_nthc; assumption).
  rewrite off_of_succ by exact Hk. lia.
Qed.
(* uc_code at the start of character k reads inside the line and returns the scalar value *)
Lemma hd0_nthb0 (s : bytes) : hd0 s = nthb s 0.
Proof. destruct s; reflexivity. Qed.
Lemma code_at cs k : Forall scalar cs -> (k < length cs)%nat ->
  (off_of cs k + uc_len_b (nthb (chars cs) (off_of cs k)) - 1 <= length (chars cs))%nat /\
  uc_code (skipn (off_of cs k) (chars cs)) = nthc cs k.
Proof.
  intros H Hk. pose proof (scalar_nthc cs k H Hk) as Hc.
  destruct (uc_len_code_encode (nthc cs k) (chars (skipn (S k) cs)) Hc) as [E1 E2].
  assert (Es : skipn (off_of cs k) (chars cs) = encode (nthc cs k) ++ chars (skipn (S k) cs))
    by (rewrite skipn_off_of, (skipn_nthc cs k Hk), chars_cons; reflexivity).
  split; [|rewrite Es; exact E2].
  replace (nthb (chars cs) (off_of cs k)) with (hd0 (skipn (off_of cs k) (chars cs))) by (rewrite hd0_nthb0, nthb_skipn, Nat.add_0_r; reflexivity).
  rewrite Es. unfold uc_len in E1. rewrite E1.
  apply (f_equal (@length N)) in Es. rewrite skipn_length, app_length in Es. pose proof (encode_nonempty _ Hc). lia.
Qed.
Lemma off_of_le cs k : (off_of cs k <= length (chars cs))%nat.
Proof.
  destruct (Nat.le_gt_cases (length cs) k) as [L|L]; [rewrite off_of_all by exact L; lia|].
  rewrite <- (off_of_all cs (length cs)) by lia. apply off_of_mono. lia.
Qed.
Lemma off_of_lt cs k : Forall scalar cs -> (k < length cs)%nat -> (off_of cs k < length (chars cs))%nat.
Proof.
  intros H Hk. pose proof (off_of_succ cs k Hk) as E. pose proof (encode_nonempty _ (scalar_nthc cs k H Hk)). pose proof (off_of_le cs (S k)). lia.
Qed.
(* the byte at a character start is the terminator exactly at the end of the line *)
Lemma nthb_off_of_z cs k : Forall scalar cs -> (k <= length cs)%nat ->
  (nthb (chars cs) (off_of cs k) =? 0)%N = Nat.eqb k (length cs).
Proof.
  intros H Hk. destruct (Nat.eqb_spec k (length cs)) as [->|Hne].
  - rewrite off_of_all by lia. rewrite nthb_end by lia. reflexivity.
  - apply nonul_nthb_nz; [apply chars_nonul; exact H|apply off_of_lt; [exact H|lia]].
Qed.
Lemma code_encode c : scalar c -> code (encode c) = c.
Proof. intro H. destruct (uc_len_code_encode c [] H) as [_ E]. rewrite app_nil_r in E. exact E. Qed.

(* ------------------------------------------------------------------ memory with fresh blocks appended (address-taken locals) *)
Lemma app_old {A} (m x : list A) g : (g < length m)%nat -> nth_error (m ++ x) g = nth_error m g.
Proof. intro H. apply nth_error_app1. exact H. Qed.
Lemma str_at_app m x b s : str_at m b s -> str_at (m ++ x) b s.
Proof. intro H. unfold str_at in *. rewrite app_old; [exact H|apply nth_error_Some; congruence]. Qed.
Lemma cell_at_app m x g v : cell_at m g v -> cell_at (m ++ x) g v.
Proof. intro H. unfold cell_at in *. rewrite app_old; [exact H|apply nth_error_Some; congruence]. Qed.
Lemma lbuf_at_lt m lb bln lbs lines k : lbuf_at m lb bln lbs lines -> In k (lb :: bln :: lbs) -> (k < length m)%nat.
Proof.
  intros [(blk & Hb & _) (lnblk & Hl & _) Hlen Hs _ _] [<-|[<-|Hin]]; try (apply nth_error_Some; congruence).
  destruct (In_nth _ _ O Hin) as (i & Hi & <-). specialize (Hs i ltac:(lia)). unfold str_at in Hs. apply nth_error_Some. congruence.
Qed.
Lemma lbuf_at_app m x lb bln lbs lines : lbuf_at m lb bln lbs lines -> lbuf_at (m ++ x) lb bln lbs lines.
Proof. intro R. apply (lbuf_at_other m); [exact R|]. intros k Hk. apply app_old. apply (lbuf_at_lt _ _ _ _ _ _ R Hk). Qed.
Lemma of_N_eqb (a b : N) : (Z.of_N a =? Z.of_N b) = (a =? b)%N.
Proof. destruct (N.eqb_spec a b) as [->|E]; [apply Z.eqb_refl|]. apply Z.eqb_neq. lia. Qed.

(* ------------------------------------------------------------------ lbuf_findchar *)
(* the scan of lbuf_findchar on the scalar values of the line: from character k, n matches of tc still wanted;
   result = (matches still wanted, character reached) *)
Fixpoint fwd_scan (tc : N) (n : nat) (rest : list N) (k : nat) {struct rest} : nat * nat :=
  match n with
  | O => (O, k)
  | S _ => match rest with
           | [] => (n, S k)
           | c :: r => if (c =? tc)%N then fwd_scan tc (n - 1) r (S k) else fwd_scan tc n r (S k)
           end
  end.
Fixpoint bwd_scan (cs : list N) (tc : N) (n : nat) (k : nat) {struct k} : nat * nat :=
  match n with
  | O => (O, k)
  | S _ => match k with
           | O => (n, O)
           | S k' => if (nthc cs k' =? tc)%N then bwd_scan cs tc (n - 1) k' else bwd_scan cs tc n k'
           end
  end.

Lemma fwd_find cst : forall rest n k i, Forall scalar rest -> (1 <= n)%nat ->
  find_nth cst n (map encode rest) i
  = (let '(n', k') := fwd_scan (code cst) n rest k in if Nat.eqb n' 0 then Some (i + Z.of_nat k' - Z.of_nat (S k)) else None).
Proof.
  induction rest as [|c r IH]; intros n k i Hs Hn; (destruct n as [|n]; [lia|]).
  - reflexivity.
  - inversion Hs as [|? ? Hc Hr]; subst. cbn [map find_nth fwd_scan]. rewrite (code_encode c Hc).
    destruct (c =? code cst)%N.
    + replace (S n - 1)%nat with n by lia. destruct n as [|n].
      * destruct r; cbn [fwd_scan Nat.eqb]; f_equal; lia.
      * rewrite (IH (S n) (S k) (i + 1) Hr ltac:(lia)). destruct (fwd_scan (code cst) (S n) r (S k)) as [n' k'].
        destruct (Nat.eqb n' 0); [f_equal; lia|reflexivity].
    + rewrite (IH (S n) (S k) (i + 1) Hr ltac:(lia)). destruct (fwd_scan (code cst) (S n) r (S k)) as [n' k'].
      destruct (Nat.eqb n' 0); [f_equal; lia|reflexivity].
Qed.
Lemma rev_firstn_S (cs : list N) k : (k < length cs)%nat -> rev (firstn (S k) cs) = nthc cs k :: rev (firstn k cs).
Proof. intro H. rewrite firstn_S_nthc by exact H. rewrite rev_app_distr. reflexivity. Qed.
Lemma bwd_find cst cs : Forall scalar cs -> forall k n i, (k <= length cs)%nat -> (1 <= n)%nat ->
  find_nth cst n (map encode (rev (firstn k cs))) i
  = (let '(n', k') := bwd_scan cs (code cst) n k in if Nat.eqb n' 0 then Some (i + Z.of_nat k - 1 - Z.of_nat k') else None).
Proof.
  intro Hs. induction k as [|k IH]; intros n i Hk Hn; (destruct n as [|n]; [lia|]).
  - reflexivity.
  - rewrite rev_firstn_S by lia. cbn [map find_nth bwd_scan]. rewrite (code_encode _ (scalar_nthc cs k Hs ltac:(lia))).
    destruct (nthc cs k =? code cst)%N.
    + replace (S n - 1)%nat with n by lia. destruct n as [|n].
      * destruct k; cbn [bwd_scan Nat.eqb]; f_equal; lia.
      * rewrite (IH (S n) (i + 1) ltac:(lia) ltac:(lia)). destruct (bwd_scan cs (code cst) (S n) k) as [n' k'].
        destruct (Nat.eqb n' 0); [f_equal; lia|reflexivity].
    + rewrite (IH (S n) (i + 1) ltac:(lia) ltac:(lia)). destruct (bwd_scan cs (code cst) (S n) k) as [n' k'].
      destruct (Nat.eqb n' 0); [f_equal; lia|reflexivity].
Qed.
(* where a successful scan ends *)
Lemma fwd_scan_range tc : forall rest n k, (1 <= n)%nat ->
  (fst (fwd_scan tc n rest k) <= n)%nat /\ (snd (fwd_scan tc n rest k) <= S k + length rest)%nat /\
  (fst (fwd_scan tc n rest k) = O -> (S k <= snd (fwd_scan tc n rest k) <= k + length rest)%nat).
Proof.
  induction rest as [|c r IH]; intros n k Hn; (destruct n as [|n]; [lia|]); cbn [fwd_scan].
  - cbn [fst snd length]. split; [lia|]. split; [lia|]. intro; lia.
  - destruct (c =? tc)%N.
    + replace (S n - 1)%nat with n by lia. destruct n as [|n].
      * destruct r; cbn [fwd_scan fst snd length]; repeat split; lia.
      * destruct (IH (S n) (S k) ltac:(lia)) as [A [A2 B]]. cbn [length]. split; [lia|]. split; [lia|]. intro E. specialize (B E). lia.
    + destruct (IH (S n) (S k) ltac:(lia)) as [A [A2 B]]. cbn [length]. split; [lia|]. split; [lia|]. intro E. specialize (B E). lia.
Qed.
Lemma bwd_scan_range cs tc : forall k n, (1 <= n)%nat ->
  (fst (bwd_scan cs tc n k) <= n)%nat /\ (snd (bwd_scan cs tc n k) <= k)%nat /\ (fst (bwd_scan cs tc n k) = O -> (snd (bwd_scan cs tc n k) < k)%nat).
Proof.
  induction k as [|k IH]; intros n Hn; (destruct n as [|n]; [lia|]); cbn [bwd_scan].
  - cbn [fst snd]. split; [lia|]. split; [lia|]. intro; lia.
  - destruct (nthc cs k =? tc)%N.
    + replace (S n - 1)%nat with n by lia. destruct n as [|n].
      * destruct k; cbn [bwd_scan fst snd]; repeat split; lia.
      * destruct (IH (S n) ltac:(lia)) as [A [A2 B]]. split; [lia|]. split; [lia|]. intro E. specialize (B E). lia.
    + destruct (IH (S n) ltac:(lia)) as [A [A2 B]]. split; [lia|]. split; [lia|]. intro E. specialize (B E). lia.
Qed.

Definition fc_rest : stmt :=
  match fn_body cf_lbuf_findchar with SSeq _ (SSeq _ (SSeq _ (SSeq _ (SSeq _ (SSeq _ r))))) => r | _ => SSkip end.
Definition fc_mid : stmt :=
  match fn_body cf_lbuf_findchar with SSeq _ (SSeq _ (SSeq _ r)) => r | _ => SSkip end.
Definition fc_loop : stmt := match fc_rest with SSeq _ (SSeq w _) => w | _ => SSkip end.
Definition fc_fin : stmt := match fc_rest with SSeq _ (SSeq _ r) => r | _ => SSkip end.
Definition fc_end : stmt := match fc_fin with SSeq _ r => r | _ => SSkip end.

Section FindChar.
  Variables (F d : nat) (m : mem) (b bc : nat) (cs : list N) (cst : bytes).
  Let s := chars cs.
  Let bs := length m.
  (* the memory while the scan runs: the caller's memory and, behind it, the cell of the local char *s pointing at character k *)
  Definition fc_mem (k : nat) : mem := m ++ [[VPtr b (Z.of_nat (off_of cs k))]].
  Hypothesis Hcs : Forall scalar cs.
  Hypothesis Hs : str_at m b s.
  Hypothesis Hc : str_at m bc cst.
  Hypothesis Hc256 : bytes_lt256 cst.
  Hypothesis Hclen : (uc_len_b (nthb cst 0) - 1 <= length cst)%nat.
  Hypothesis HF : (length s < F)%nat.

  Let Hnn : nonul s := chars_nonul cs Hcs.
  Let H256 : bytes_lt256 s := nonul_lt256 s Hnn.
  Lemma fc_b_lt : (b < bs)%nat.
  Proof. apply nth_error_Some. unfold str_at in Hs. congruence. Qed.
  Lemma fc_cell k : nth_error (fc_mem k) bs = Some [VPtr b (Z.of_nat (off_of cs k))].
  Proof. apply nth_error_app_new. Qed.
  Lemma fc_load k : load (fc_mem k) bs 0 = Ok (VPtr b (Z.of_nat (off_of cs k))).
  Proof. unfold load. rewrite fc_cell. reflexivity. Qed.

  Lemma nextdir_fwd k : (k < length cs)%nat ->
    callf cprog F (S (S (S d))) F_uc_nextdir [VPtr bs 0; VPtr b 0; VInt 1] (fc_mem k)
    = Ok (VInt (b2z (Nat.eqb (S k) (length cs))), fc_mem (S k)).
  Proof.
    intro Hk. pose proof fc_b_lt as Lb. change (VPtr b 0) with (VPtr b (Z.of_nat 0)).
    rewrite (tr_uc_nextdir (fc_mem k) b bs s 0 (off_of cs k) 1 d F (str_at_app _ _ _ _ Hs) H256 (fc_cell k) ltac:(lia)
               ltac:(pose proof (off_of_le cs k); unfold s; lia) HF).
    unfold nextdir_model. change (1 <? 0) with false. cbv iota. unfold s. rewrite (next_at cs k Hcs Hk).
    rewrite (nthb_off_of_z cs (S k) Hcs ltac:(lia)). unfold fc_mem, bs. rewrite upd_app_new. reflexivity.
  Qed.
  Lemma off_of_pos k : (1 <= k <= length cs)%nat -> (1 <= off_of cs k)%nat.
  Proof.
    intro Hk. pose proof (off_of_mono cs 1 k ltac:(lia)) as Hm. pose proof (off_of_succ cs 0 ltac:(lia)) as E. rewrite off_of_0 in E.
    pose proof (encode_nonempty _ (scalar_nthc cs 0 Hcs ltac:(lia))). lia.
  Qed.
  Lemma nextdir_bwd k : (k <= length cs)%nat ->
    callf cprog F (S (S (S d))) F_uc_nextdir [VPtr bs 0; VPtr b 0; VInt (-1)] (fc_mem k)
    = Ok (VInt (b2z (Nat.eqb k 0)), fc_mem (k - 1)).
  Proof.
    intro Hk. pose proof fc_b_lt as Lb. change (VPtr b 0) with (VPtr b (Z.of_nat 0)).
    rewrite (tr_uc_nextdir (fc_mem k) b bs s 0 (off_of cs k) (-1) d F (str_at_app _ _ _ _ Hs) H256 (fc_cell k) ltac:(lia)
               ltac:(pose proof (off_of_le cs k); unfold s; lia) HF).
    unfold nextdir_model. change (-1 <? 0) with true. cbv iota.
    destruct k as [|k].
    - rewrite off_of_0. cbn [Nat.eqb Nat.sub]. unfold fc_mem, bs. rewrite upd_app_new, off_of_0. reflexivity.
    - pose proof (off_of_pos (S k) ltac:(lia)). destruct (Nat.eqb_spec (off_of cs (S k)) 0); [lia|].
      unfold s. rewrite (prev_at cs k Hcs ltac:(lia)). cbn [Nat.eqb]. replace (S k - 1)%nat with k by lia.
      unfold fc_mem, bs. rewrite upd_app_new. reflexivity.
  Qed.
  (* uc_code(s) == uc_code(cs) with s at character k *)
  Lemma code_s k : (k < length cs)%nat ->
    callf cprog F (S (S (S d))) F_uc_code [VPtr b (Z.of_nat (off_of cs k))] (fc_mem k) = Ok (VInt (Z.of_N (nthc cs k)), fc_mem k).
  Proof.
    intro Hk. destruct (code_at cs k Hcs Hk) as [A B].
    rewrite (tr_uc_code (fc_mem k) b s (off_of cs k) (S (S d)) F (str_at_app _ _ _ _ Hs) H256 A (off_of_le cs k)). unfold s. rewrite B. reflexivity.
  Qed.
  Lemma code_c k : callf cprog F (S (S (S d))) F_uc_code [VPtr bc 0] (fc_mem k) = Ok (VInt (Z.of_N (code cst)), fc_mem k).
  Proof.
    change (VPtr bc 0) with (VPtr bc (Z.of_nat 0)).
    rewrite (tr_uc_code (fc_mem k) bc cst 0 (S (S d)) F (str_at_app _ _ _ _ Hc) Hc256 ltac:(cbn [Nat.add]; exact Hclen) ltac:(lia)). reflexivity.
  Qed.

  Variables (lb br bo : nat) (cmd : Z).
  Definition fc_loc (n : nat) (dir : Z) : list val :=
    [VPtr lb 0; VPtr bc 0; VInt cmd; VInt (Z.of_nat n); VPtr br 0; VPtr bo 0; VPtr b 0; VPtr bs 0; VInt dir].

  Lemma fc_loop_fwd : forall rest k n fuel, skipn (S k) cs = rest -> (k < length cs)%nat -> (length rest < fuel)%nat ->
    Z.of_nat n <= 2147483647 ->
    exec (callf cprog F (S (S (S d)))) fuel fc_loop (mkst (fc_loc n 1) (fc_mem k))
    = let '(n', k') := fwd_scan (code cst) n rest k in ONormal (mkst (fc_loc n' 1) (fc_mem k')).
  Proof.
    induction rest as [|c r IH]; intros k n fuel Hr Hk Hf Hn; (destruct fuel as [|fuel]; [cbn [length] in Hf; lia|]);
      unfold fc_loop, fc_loc; cbn [fc_rest fn_body cf_lbuf_findchar]; rewrite exec_while; xstep.
    - destruct n as [|n]; [reflexivity|]. destruct (Z.ltb_spec 0 (Z.of_nat (S n))); [|lia]. xstep.
      rewrite (nextdir_fwd k Hk). xstep.
      assert (S k = length cs) as E by (apply (f_equal (@length N)) in Hr; rewrite skipn_length in Hr; cbn in Hr; lia).
      rewrite E, Nat.eqb_refl. xstep. rewrite <- E. reflexivity.
    - destruct n as [|n]; [reflexivity|]. destruct (Z.ltb_spec 0 (Z.of_nat (S n))); [|lia]. xstep.
      rewrite (nextdir_fwd k Hk). xstep.
      assert (S k < length cs)%nat as Hk1 by (apply (f_equal (@length N)) in Hr; rewrite skipn_length in Hr; cbn [length] in Hr; lia).
      destruct (Nat.eqb_spec (S k) (length cs)); [lia|]. xstep.
      rewrite (fc_load (S k)). xstep. rewrite (code_s (S k) Hk1). xstep. rewrite (code_c (S k)). xstep.
      rewrite of_N_eqb. assert (nthc cs (S k) = c) as -> by (rewrite (skipn_nthc cs (S k) Hk1) in Hr; congruence).
      assert (Hr' : skipn (S (S k)) cs = r) by (rewrite (skipn_nthc cs (S k) Hk1) in Hr; congruence).
      cbn [fwd_scan length] in Hf |- *.
      destruct (c =? code cst)%N; xstep.
      + rewrite chk_I32 by lia. xstep. replace (Z.of_nat (S n) + -1) with (Z.of_nat (S n - 1)) by lia.
        specialize (IH (S k) (S n - 1)%nat fuel Hr' Hk1 ltac:(lia) ltac:(lia)). unfold fc_loop, fc_loc in IH; cbn [fc_rest fn_body cf_lbuf_findchar] in IH.
        exact IH.
      + specialize (IH (S k) (S n) fuel Hr' Hk1 ltac:(lia) ltac:(lia)). unfold fc_loop, fc_loc in IH; cbn [fc_rest fn_body cf_lbuf_findchar] in IH.
        exact IH.
  Qed.

  Lemma fc_loop_bwd : forall k n fuel, (k <= length cs)%nat -> (k < fuel)%nat -> Z.of_nat n <= 2147483647 ->
    exec (callf cprog F (S (S (S d)))) fuel fc_loop (mkst (fc_loc n (-1)) (fc_mem k))
    = let '(n', k') := bwd_scan cs (code cst) n k in ONormal (mkst (fc_loc n' (-1)) (fc_mem k')).
  Proof.
    induction k as [|k IH]; intros n fuel Hk Hf Hn; (destruct fuel as [|fuel]; [lia|]);
      unfold fc_loop, fc_loc; cbn [fc_rest fn_body cf_lbuf_findchar]; rewrite exec_while; xstep.
    - destruct n as [|n]; [reflexivity|]. destruct (Z.ltb_spec 0 (Z.of_nat (S n))); [|lia]. xstep.
      rewrite (nextdir_bwd 0 Hk). xstep. reflexivity.
    - destruct n as [|n]; [reflexivity|]. destruct (Z.ltb_spec 0 (Z.of_nat (S n))); [|lia]. xstep.
      rewrite (nextdir_bwd (S k) Hk). xstep. replace (S k - 1)%nat with k by lia.
      rewrite (fc_load k). xstep. rewrite (code_s k ltac:(lia)). xstep. rewrite (code_c k). xstep.
      rewrite of_N_eqb. cbn [bwd_scan].
      destruct (nthc cs k =? code cst)%N; xstep.
      + rewrite chk_I32 by lia. xstep. replace (Z.of_nat (S n) + -1) with (Z.of_nat (S n - 1)) by lia.
        specialize (IH (S n - 1)%nat fuel ltac:(lia) ltac:(lia) ltac:(lia)). unfold fc_loop, fc_loc in IH; cbn [fc_rest fn_body cf_lbuf_findchar] in IH.
        exact IH.
      + specialize (IH (S n) fuel ltac:(lia) ltac:(lia) ltac:(lia)). unfold fc_loop, fc_loc in IH; cbn [fc_rest fn_body cf_lbuf_findchar] in IH.
        exact IH.
  Qed.

  (* t / T: one character back towards the start of the scan *)
  Definition fc_adjust (dir : Z) (k : nat) : nat :=
    if (cmd =? 116) || (cmd =? 84) then (if 0 <? dir then (k - 1)%nat else S k) else k.
  Variable o : Z.
  Hypothesis Ho : cell_at m bo o.
  Hypothesis Hsmall : Z.of_nat (length s) <= 2147483647.
  Lemma fc_fin_ok n k dir fuel : dir_ok dir -> (k <= length cs)%nat ->
    (n = O -> if 0 <? dir then (1 <= k)%nat else (k < length cs)%nat) ->
    exec (callf cprog F (S (S (S d)))) fuel fc_fin (mkst (fc_loc n dir) (fc_mem k))
    = if Nat.eqb n 0
      then OReturn (VInt 0) (mkst (fc_loc 0 dir) (upd m bo [VInt (Z.of_nat (fc_adjust dir k))] ++ [[VPtr b (Z.of_nat (off_of cs (fc_adjust dir k)))]]))
      else OReturn (VInt 1) (mkst (fc_loc n dir) (fc_mem k)).
  Proof.
    intros Hd Hk Hrange. unfold fc_fin, fc_loc; cbn [fc_rest fn_body cf_lbuf_findchar].
    destruct n as [|n]; cbn [Nat.eqb].
    2:{ xstep. destruct (Z.eqb_spec (Z.of_nat (S n)) 0); [lia|]. cbn [negb b2z]. xstep.
        destruct (Z.eqb_spec (Z.of_nat (S n)) 0); [lia|]. cbn [negb b2z]. xstep.
        destruct (Z.eqb_spec (Z.of_nat (S n)) 0); [lia|]. reflexivity. }
    specialize (Hrange eq_refl). change (Z.of_nat 0) with 0.
    (* the store of uc_off(ln, s - ln) and the return, with s at character kf *)
    assert (Hend : forall kf, (kf <= length cs)%nat ->
      exec (callf cprog F (S (S (S d)))) fuel fc_end
        (mkst [VPtr lb 0; VPtr bc 0; VInt cmd; VInt 0; VPtr br 0; VPtr bo 0; VPtr b 0; VPtr bs 0; VInt dir] (fc_mem kf))
      = OReturn (VInt 0) (mkst [VPtr lb 0; VPtr bc 0; VInt cmd; VInt 0; VPtr br 0; VPtr bo 0; VPtr b 0; VPtr bs 0; VInt dir]
                               (upd m bo [VInt (Z.of_nat kf)] ++ [[VPtr b (Z.of_nat (off_of cs kf))]]))).
    { intros kf Hkf. unfold fc_end, fc_fin; cbn [fc_rest fn_body cf_lbuf_findchar]. xstep. rewrite (fc_load kf). xstep. rewrite Nat.eqb_refl. xstep.
      rewrite Z.sub_0_r, Z.quot_1_r. pose proof (off_of_le cs kf) as Hle. fold s in Hle. rewrite wrap_I32_id by lia.
      change (VPtr b 0) with (VPtr b (Z.of_nat 0)).
      rewrite (tr_uc_off (fc_mem kf) b s 0 (off_of cs kf) d F (str_at_app _ _ _ _ Hs) Hnn ltac:(lia) HF Hsmall ltac:(lia)). xstep.
      cbn [skipn]. unfold s. rewrite (uc_off_chars cs kf Hcs Hkf).
      pose proof (length_cs_le_chars cs Hcs) as Hlc. fold s in Hlc. rewrite wrap_I32_id by lia.
      rewrite (store_cell (fc_mem kf) bo o _ (cell_at_app _ _ _ _ Ho)). xstep.
      unfold fc_mem. rewrite upd_app_old by (apply (cell_lt _ _ _ Ho)). reflexivity. }
    (let t := eval cbv [fc_end fc_fin fc_rest fn_body cf_lbuf_findchar] in fc_end in change t with fc_end).
    remember fc_end as tl eqn:Etl. unfold fc_adjust. xstep.
    destruct (Z.eqb_spec cmd 116) as [E1|E1]; xstep.
    - cbn [orb]. destruct Hd as [-> | ->].
      + change (0 <? 1) with true in *. cbv iota in *. xstep. rewrite chk_I32 by lia. xstep. change (- (1)) with (-1). rewrite (nextdir_bwd k Hk). xstep. apply Hend. lia.
      + change (0 <? -1) with false in *. cbv iota in *. xstep. rewrite chk_I32 by lia. xstep. change (- -1) with 1. rewrite (nextdir_fwd k Hrange). xstep. apply Hend. lia.
    - destruct (Z.eqb_spec cmd 84) as [E2|E2]; xstep.
      + cbn [orb]. destruct Hd as [-> | ->].
        * change (0 <? 1) with true in *. cbv iota in *. xstep. rewrite chk_I32 by lia. xstep. change (- (1)) with (-1). rewrite (nextdir_bwd k Hk). xstep. apply Hend. lia.
        * change (0 <? -1) with false in *. cbv iota in *. xstep. rewrite chk_I32 by lia. xstep. change (- -1) with 1. rewrite (nextdir_fwd k Hrange). xstep. apply Hend. lia.
      + cbn [orb]. apply Hend. exact Hk.
  Qed.

  (* from "s = uc_chr(ln, *off)" to the end, the cursor on character k0 of the line *)
  Definition fc_scan (dir : Z) (n k0 : nat) : nat * nat :=
    if 0 <? dir then fwd_scan (code cst) n (skipn (S k0) cs) k0 else bwd_scan cs (code cst) n k0.
  Lemma fc_rest_ok n k0 dir fuel : dir_ok dir -> (1 <= n)%nat -> Z.of_nat n <= 2147483647 -> (k0 < length cs)%nat -> o = Z.of_nat k0 ->
    (length s < fuel)%nat ->
    exec (callf cprog F (S (S (S d)))) fuel fc_rest (mkst (fc_loc n dir) (m ++ [[VUndef]]))
    = let '(n', k') := fc_scan dir n k0 in
      if Nat.eqb n' 0
      then OReturn (VInt 0) (mkst (fc_loc 0 dir) (upd m bo [VInt (Z.of_nat (fc_adjust dir k'))] ++ [[VPtr b (Z.of_nat (off_of cs (fc_adjust dir k')))]]))
      else OReturn (VInt 1) (mkst (fc_loc n' dir) (fc_mem k')).
  Proof.
    intros Hd Hn Hn2 Hk0 Eo Hf. pose proof (length_cs_le_chars cs Hcs) as Hlc. fold s in Hlc.
    unfold fc_rest; cbn [fn_body cf_lbuf_findchar].
    (let t := eval cbv [fc_loop fc_rest fn_body cf_lbuf_findchar] in fc_loop in change t with fc_loop).
    (let t := eval cbv [fc_fin fc_rest fn_body cf_lbuf_findchar] in fc_fin in change t with fc_fin).
    remember fc_loop as lp eqn:Elp. remember fc_fin as fn eqn:Efn. unfold fc_loc.
    xstep. rewrite (load_cell _ bo o (cell_at_app _ _ _ _ Ho)). xstep. rewrite wrap_I32_id by lia.
    change (VPtr b 0) with (VPtr b (Z.of_nat 0)).
    rewrite (tr_uc_chr (m ++ [[VUndef]]) b s 0 o d F (str_at_app _ _ _ _ Hs) Hnn ltac:(lia) HF Hsmall). xstep.
    cbn [skipn]. rewrite Eo. unfold s. rewrite (uc_chr_chars cs k0 Hcs ltac:(lia)). cbn [option_map chr_val Nat.add]. xstep. change (Z.of_nat 0) with 0.
    rewrite (store_ok (m ++ [[VUndef]]) bs [VUndef] 0 _ (nth_error_app_new m [VUndef])) by (cbn; lia). xstep.
    change (upd [VUndef] (Z.to_nat 0) (VPtr b (Z.of_nat (off_of cs k0)))) with [VPtr b (Z.of_nat (off_of cs k0))].
    unfold bs. rewrite upd_app_new. fold bs. fold (fc_mem k0). subst lp.
    change (mkst [VPtr lb 0; VPtr bc 0; VInt cmd; VInt (Z.of_nat n); VPtr br 0; VPtr bo 0; VPtr b 0; VPtr bs 0; VInt dir] (m ++ [[VPtr b (Z.of_nat (off_of cs k0))]]))
      with (mkst (fc_loc n dir) (fc_mem k0)).
    unfold fc_scan. destruct Hd as [-> | ->].
    - change (0 <? 1) with true. cbv iota.
      pose proof (fwd_scan_range (code cst) (skipn (S k0) cs) n k0 Hn) as [Hr1 [Hr3 Hr2]].
      rewrite (fc_loop_fwd (skipn (S k0) cs) k0 n fuel eq_refl Hk0 ltac:(rewrite skipn_length; lia) Hn2).
      destruct (fwd_scan (code cst) n (skipn (S k0) cs) k0) as [n' k']. cbn [fst snd] in *. subst fn.
      rewrite skipn_length in Hr2, Hr3.
      apply fc_fin_ok; [left; reflexivity|lia|].
      + intro E. change (0 <? 1) with true. cbv iota. specialize (Hr2 E). lia.
    - change (0 <? -1) with false. cbv iota.
      pose proof (bwd_scan_range cs (code cst) k0 n Hn) as [Hr1 [Hr3 Hr2]].
      rewrite (fc_loop_bwd k0 n fuel ltac:(lia) ltac:(lia) Hn2).
      destruct (bwd_scan cs (code cst) n k0) as [n' k']. cbn [fst snd] in *. subst fn.
      apply fc_fin_ok; [right; reflexivity|lia|].
      + intro E. change (0 <? -1) with false. cbv iota. specialize (Hr2 E). lia.
  Qed.
End FindChar.

Definition lines_valid (lines : list bytes) : Prop := Forall valid lines.
Lemma nthl_valid lines i : lines_valid lines -> (i < length lines)%nat -> valid (nthl lines i).
Proof. intros H Hi. unfold lines_valid in H. rewrite Forall_forall in H. apply H. apply nth_In. exact Hi. Qed.

(* lbuf_findchar(lb, cs, cmd, n, row, off): for every buffer in memory whose lines are valid UTF-8, every cursor on a character
   of its line, every command letter and every count n <> 0 inside int (n < 0: the direction reversed, as `,` passes it):
   returns 0 and stores the model's landing offset in *off, or returns 1 and stores nothing; the local `char *s` stays behind
   as one fresh block at the end of memory *)
Theorem tr_lbuf_findchar m lb bln lbs lines br bo bc cst (cmdN : N) n r o d fuel :
  lbuf_at m lb bln lbs lines -> lines_small lines -> lines_valid lines ->
  cell_at m br r -> cell_at m bo o -> i32 r -> i32 o ->
  str_at m bc cst -> bytes_lt256 cst -> (uc_len_b (nthb cst 0) - 1 <= length cst)%nat ->
  Z.of_N cmdN <= 2147483647 -> -2147483647 <= n <= 2147483647 -> n <> 0 ->
  (forall l, getl (map chop lines) r = Some l -> 0 <= o < slen l) ->
  (maxlen lines < fuel)%nat ->
  exists sv,
  callf cprog fuel (S (S (S (S d)))) F_lbuf_findchar [VPtr lb 0; VPtr bc 0; VInt (Z.of_N cmdN); VInt n; VPtr br 0; VPtr bo 0] m
  = match lbuf_findchar (map chop lines) cst cmdN n r o with
    | Some o' => Ok (VInt 0, upd m bo [VInt o'] ++ [[sv]])
    | None => Ok (VInt 1, m ++ [[sv]])
    end.
Proof.
  intros R Hsm Hval Hr Ho Ir Io Hc Hc256 Hclen Hcmd Hn Hn0 Hcur Hf.
  unfold lbuf_findchar. rewrite getl_rowidx in *.
  destruct (rowidx lines r) as [i|] eqn:Ei; cbn [option_map] in *.
  2:{ exists VUndef. enter F_lbuf_findchar cf_lbuf_findchar. xstep.
      rewrite (load_cell m br r Hr). xstep. rewrite wrap_I32_id by exact Ir.
      rewrite (tr_lbuf_get m lb bln lbs lines r (S (S d)) fuel R Hsm). unfold line_ptr. rewrite Ei. xstep.
      rewrite malloc_ok by lia. xstep. change (repeat VUndef (Z.to_nat 1)) with [VUndef].
      destruct (Z.of_N cmdN =? 102); xstep; [reflexivity|]. destruct (Z.of_N cmdN =? 116); xstep; [reflexivity|].
      rewrite chk_I32 by lia. xstep. reflexivity. }
  destruct (rowidx_lt _ _ _ Ei) as [Hi Er].
  destruct (nthl_valid lines i Hval Hi) as (cs & Hcs & Es).
  pose proof (la_str _ _ _ _ _ R i Hi) as Hs. rewrite Es in Hs.
  pose proof (maxlen_ge lines i) as Hml. pose proof (nthl_small lines i Hsm) as Hsmall. rewrite Es in Hml, Hsmall.
  specialize (Hcur _ eq_refl). rewrite Es, (chop_chars cs Hcs) in Hcur |- *. unfold slen in Hcur. rewrite map_length in Hcur.
  set (b := nth i lbs O) in *. set (k0 := Z.to_nat o).
  assert (Eo : o = Z.of_nat k0) by (unfold k0; lia). assert (Hk0 : (k0 < length cs)%nat) by lia.
  set (dir0 := if is_ft cmdN then 1 else -1). set (dir := if n <? 0 then - dir0 else dir0).
  set (nn := Z.to_nat (Z.abs n)).
  assert (Hd : dir_ok dir) by (unfold dir, dir0; destruct (is_ft cmdN), (n <? 0); [right|left|left|right]; reflexivity).
  assert (Hnn1 : (1 <= nn)%nat) by (unfold nn; lia). assert (Hnn2 : Z.of_nat nn <= 2147483647) by (unfold nn; lia).
  destruct (Z.eqb_spec (Z.abs n) 0) as [E0|_]; [lia|].
  (* the rest of the function against the model, for the direction dir *)
  pose proof (fc_rest_ok fuel d m b bc cs cst Hcs Hs Hc Hc256 Hclen ltac:(lia) lb br bo (Z.of_N cmdN) o Ho Hsmall
                nn k0 dir fuel Hd Hnn1 Hnn2 Hk0 Eo ltac:(lia)) as Hrest.
  assert (Hmodel : exists sv,
    match exec (callf cprog fuel (S (S (S d)))) fuel fc_rest (mkst (fc_loc m b bc lb br bo (Z.of_N cmdN) nn dir) (m ++ [[VUndef]])) with
    | OReturn v st => Ok (v, memm st) | ONormal st => Ok (VUndef, memm st) | OErr x => Err x | _ => Err EShape end
    = match (if 0 <? dir
             then match find_nth cst nn (skipn (Z.to_nat (o + 1)) (map encode cs)) 0 with
                  | Some k => Some (if is_tT cmdN then o + 1 + k - 1 else o + 1 + k) | None => None end
             else match find_nth cst nn (rev (firstn (Z.to_nat o) (map encode cs))) 0 with
                  | Some k => Some (if is_tT cmdN then o - 1 - k + 1 else o - 1 - k) | None => None end) with
      | Some o' => Ok (VInt 0, upd m bo [VInt o'] ++ [[sv]])
      | None => Ok (VInt 1, m ++ [[sv]])
      end).
  { rewrite Hrest. unfold fc_scan, fc_adjust.
    assert (EtT : (Z.of_N cmdN =? 116) || (Z.of_N cmdN =? 84) = is_tT cmdN)
      by (unfold is_tT; change 116 with (Z.of_N 116); change 84 with (Z.of_N 84); rewrite !of_N_eqb; reflexivity).
    rewrite EtT. destruct Hd as [Ed | Ed]; rewrite Ed.
    - change (0 <? 1) with true. cbv iota.
      replace (Z.to_nat (o + 1)) with (S k0) by lia. rewrite skipn_map.
      rewrite (fwd_find cst (skipn (S k0) cs) nn k0 0 (Forall_skipn'' _ _ _ Hcs) Hnn1).
      pose proof (fwd_scan_range (code cst) (skipn (S k0) cs) nn k0 Hnn1) as [_ [_ Hr2]].
      destruct (fwd_scan (code cst) nn (skipn (S k0) cs) k0) as [n' k']. cbn [fst snd] in Hr2.
      destruct (Nat.eqb_spec n' 0) as [En|En]; [|eexists; reflexivity]. specialize (Hr2 En).
      cbn [memm]. destruct (is_tT cmdN).
      + replace (o + 1 + (0 + Z.of_nat k' - Z.of_nat (S k0)) - 1) with (Z.of_nat (k' - 1)) by lia. eexists; reflexivity.
      + replace (o + 1 + (0 + Z.of_nat k' - Z.of_nat (S k0))) with (Z.of_nat k') by lia. eexists; reflexivity.
    - change (0 <? -1) with false. cbv iota.
      replace (Z.to_nat o) with k0 by reflexivity. rewrite firstn_map, <- map_rev.
      rewrite (bwd_find cst cs Hcs k0 nn 0 ltac:(lia) Hnn1).
      pose proof (bwd_scan_range cs (code cst) k0 nn Hnn1) as [_ [_ Hr2]].
      destruct (bwd_scan cs (code cst) nn k0) as [n' k']. cbn [fst snd] in Hr2.
      destruct (Nat.eqb_spec n' 0) as [En|En]; [|eexists; reflexivity]. specialize (Hr2 En).
      cbn [memm]. destruct (is_tT cmdN).
      + replace (o - 1 - (0 + Z.of_nat k0 - 1 - Z.of_nat k') + 1) with (Z.of_nat (S k')) by lia. eexists; reflexivity.
      + replace (o - 1 - (0 + Z.of_nat k0 - 1 - Z.of_nat k')) with (Z.of_nat k') by lia. eexists; reflexivity. }
  destruct Hmodel as [sv Hmodel]. exists sv. etransitivity; [|exact Hmodel]. clear Hmodel Hrest.
  assert (Hgo : forall v8, v8 = VInt dir0 ->
    match exec (callf cprog fuel (S (S (S d)))) fuel fc_mid
             (mkst [VPtr lb 0; VPtr bc 0; VInt (Z.of_N cmdN); VInt n; VPtr br 0; VPtr bo 0; VPtr b 0; VPtr (length m) 0; v8] (m ++ [[VUndef]])) with
    | OReturn v st => Ok (v, memm st) | ONormal st => Ok (VUndef, memm st) | OErr x => Err x | _ => Err EShape end
    = match exec (callf cprog fuel (S (S (S d)))) fuel fc_rest
              (mkst [VPtr lb 0; VPtr bc 0; VInt (Z.of_N cmdN); VInt (Z.of_nat nn); VPtr br 0; VPtr bo 0; VPtr b 0; VPtr (length m) 0; VInt dir] (m ++ [[VUndef]])) with
      | OReturn v st => Ok (v, memm st) | ONormal st => Ok (VUndef, memm st) | OErr x => Err x | _ => Err EShape end).
  { intros v8 ->. unfold fc_mid; cbn [fn_body cf_lbuf_findchar].
    (let t := eval cbv [fc_rest fn_body cf_lbuf_findchar] in fc_rest in change t with fc_rest).
    remember fc_rest as tl eqn:Etl. xstep. unfold dir, nn. destruct (Z.ltb_spec n 0) as [Ln|Ln]; xstep.
    - rewrite chk_I32 by (unfold dir0; destruct (is_ft cmdN); lia). xstep. destruct (Z.ltb_spec n 0); [|lia]. xstep. rewrite chk_I32 by lia. xstep.
      replace (Z.of_nat (Z.to_nat (Z.abs n))) with (- n) by lia. reflexivity.
    - destruct (Z.ltb_spec n 0); [lia|]. xstep. replace (Z.of_nat (Z.to_nat (Z.abs n))) with n by lia. reflexivity. }
  enter F_lbuf_findchar cf_lbuf_findchar.
  (let t := eval cbv [fc_mid fn_body cf_lbuf_findchar] in fc_mid in change t with fc_mid).
  remember fc_mid as md eqn:Emd. xstep.
  rewrite (load_cell m br r Hr). xstep. rewrite wrap_I32_id by exact Ir.
  rewrite (tr_lbuf_get m lb bln lbs lines r (S (S d)) fuel R Hsm). unfold line_ptr. rewrite Ei. xstep. fold b.
  rewrite malloc_ok by lia. xstep. change (repeat VUndef (Z.to_nat 1)) with [VUndef].
  assert (Eft : (Z.of_N cmdN =? 102) || (Z.of_N cmdN =? 116) = is_ft cmdN)
    by (unfold is_ft; change 102 with (Z.of_N 102); change 116 with (Z.of_N 116); rewrite !of_N_eqb; reflexivity).
  unfold fc_loc. unfold dir0 in Hgo. rewrite <- Eft in Hgo. subst md.
  destruct (Z.of_N cmdN =? 102); xstep; [cbn [orb] in Hgo; apply Hgo; reflexivity|].
  destruct (Z.of_N cmdN =? 116); xstep; [cbn [orb] in Hgo; apply Hgo; reflexivity|].
  rewrite chk_I32 by lia. xstep. cbn [orb] in Hgo. apply Hgo. reflexivity.
Qed.

(* ------------------------------------------------------------------ lbuf_pair *)
Definition pairs_b : bytes := [40; 41; 91; 93; 123; 125]%N.          (* "()[]{}" *)
Definition G_pairs : nat := G_lit_28295b5d7b7d_6.
Lemma index_of_find (c : N) : forall l i, index_of c l i = option_map (fun k => (i + k)%nat) (find_byte c l).
Proof.
  induction l as [|x l IH]; intro i; [reflexivity|]. cbn [index_of find_byte]. rewrite (N.eqb_sym c x).
  destruct (x =? c)%N; [cbn; f_equal; lia|]. rewrite IH. destruct (find_byte c l); cbn; [f_equal; lia|reflexivity].
Qed.
Lemma pairs_small j : (nthb pairs_b j < 128)%N.
Proof. do 7 (destruct j as [|j]; [reflexivity|]). reflexivity. Qed.
Lemma sx_small : forall c, (c < 256)%N -> (if (c <? 128)%N then wrap I32 (wrap I8 (Z.of_N c)) else Z.of_N c) = Z.of_N c.
Proof. byte_fact. Qed.
Lemma pidx_land p : (p < 6)%nat -> Z.land (Z.of_nat p) 1 = if Nat.odd p then 1 else 0.
Proof. intro H. do 6 (destruct p as [|p]; [reflexivity|]). lia. Qed.
Lemma pidx_lxor p : (p < 6)%nat -> Z.lxor (Z.of_nat p) 1 = Z.of_nat (if Nat.odd p then p - 1 else p + 1).
Proof. intro H. do 6 (destruct p as [|p]; [reflexivity|]). lia. Qed.

Lemma upd_app_at {A} (m x : list A) i y : upd (m ++ x) (length m + i) y = m ++ upd x i y.
Proof. induction m as [|a m IH]; [reflexivity|]. cbn [length Nat.add app]. change (upd (a :: m ++ x) (S (length m + i)) y) with (a :: upd (m ++ x) (length m + i) y). rewrite IH. reflexivity. Qed.
Lemma upd_app_old_l {A} (m x : list A) b y : (b < length m)%nat -> upd (m ++ x) b y = upd m b y ++ x.
Proof.
  intro H. unfold upd. rewrite firstn_app, skipn_app. replace (b - length m)%nat with 0%nat by lia.
  replace (S b - length m)%nat with 0%nat by lia. cbn [firstn skipn]. rewrite app_nil_r, <- app_assoc. reflexivity.
Qed.
Lemma store_any M bo w : (exists x, cell_at M bo x) -> store M bo 0 (VInt w) = Ok (upd M bo [VInt w]).
Proof. intros [x Hx]. apply (store_cell M bo x w Hx). Qed.
Lemma b0_lchr_range b r o : b0 (lchr b r o) <> 0%N -> exists l, getl b r = Some l /\ 0 <= o < slen l.
Proof.
  unfold lchr. destruct (getl b r) as [l|]; [|intro H; exfalso; apply H; reflexivity]. intro H. exists l. split; [reflexivity|].
  unfold chr_at in H. destruct (Z.ltb_spec o 0); [exfalso; apply H; reflexivity|]. split; [lia|]. unfold slen.
  destruct (Z_lt_ge_dec o (Z.of_nat (length l))); [assumption|]. exfalso. apply H. rewrite nth_overflow by lia. reflexivity.
Qed.

Definition lp_scan : stmt := match fn_body cf_lbuf_pair with SSeq _ (SSeq _ (SSeq _ (SSeq w _))) => w | _ => SSkip end.
Definition lp_after : stmt := match fn_body cf_lbuf_pair with SSeq _ (SSeq _ (SSeq _ (SSeq _ r))) => r | _ => SSkip end.
Definition lp_loop : stmt := match lp_after with SSeq _ (SSeq _ (SSeq w _)) => w | _ => SSkip end.
Definition lp_ret : stmt := match lp_after with SSeq _ (SSeq _ (SSeq _ r)) => r | _ => SSkip end.
Definition lp_test : stmt := match lp_loop with SWhile _ (SSeq _ (SSeq _ (SSeq _ t))) => t | _ => SSkip end.

Section Pair.
  Variables (F d : nat) (m : mem) (lb bln : nat) (lbs : list nat) (lines : list bytes) (br bo : nat).
  Let b := map chop lines.
  Let Rb := length m.
  Let Ob := S (length m).
  Hypothesis R : lbuf_at m lb bln lbs lines.
  Hypothesis Hlit0 : str_at m G_lit__0 [].
  Hypothesis Hpairs : str_at m G_pairs pairs_b.
  Hypothesis Hsm : lines_small lines.
  Hypothesis HF : (maxlen lines < F)%nat.
  (* the caller's memory and, behind it, the cells of the address-taken locals r and o *)
  Definition pm (r o : Z) : mem := m ++ [[VInt r]; [VInt o]].

  Lemma pm_cells r o : cell_at (pm r o) Rb r /\ cell_at (pm r o) Ob o.
  Proof.
    unfold cell_at, pm, Rb, Ob. split.
    - rewrite nth_error_app2 by lia. rewrite Nat.sub_diag. reflexivity.
    - rewrite nth_error_app2 by lia. replace (S (length m) - length m)%nat with 1%nat by lia. reflexivity.
  Qed.
  Lemma pm_set_pos r o r' o' : set_pos (pm r o) Rb Ob r' o' = pm r' o'.
  Proof.
    unfold set_pos, pm, Rb, Ob. replace (length m) with (length m + 0)%nat at 1 by lia. rewrite upd_app_at.
    replace (S (length m)) with (length m + 1)%nat by lia. rewrite upd_app_at. reflexivity.
  Qed.
  Lemma pm_mot r o : mot_mem (pm r o) lb bln lbs lines Rb Ob.
  Proof.
    assert (Hin : forall k, In k (G_lit__0 :: lb :: bln :: lbs) -> (k < length m)%nat).
    { intros k [<-|Hk]; [apply nth_error_Some; unfold str_at in Hlit0; congruence|apply (lbuf_at_lt _ _ _ _ _ _ R Hk)]. }
    constructor.
    - apply lbuf_at_app. exact R.
    - apply str_at_app. exact Hlit0.
    - unfold Rb, Ob. lia.
    - intro H. specialize (Hin _ H). unfold Rb in Hin. lia.
    - intro H. specialize (Hin _ H). unfold Ob in Hin. lia.
    - unfold pm, Rb. rewrite app_length. cbn [length]. lia.
    - unfold pm, Ob. rewrite app_length. cbn [length]. lia.
  Qed.
  (* (unsigned char) lbuf_chr(lb, r, o)[0] *)
  Lemma first_byte M r o : lbuf_at M lb bln lbs lines -> str_at M G_lit__0 [] ->
    exists cb q, chr_ptr lbs lines r o = VPtr cb (Z.of_nat q) /\
                 load M cb (Z.of_nat q + 1 * 0) = Ok (VInt (Z.of_N (b0 (lchr b r o)))) /\ (b0 (lchr b r o) < 256)%N.
  Proof.
    intros RM HM. destruct (chr_ptr_view M lb bln lbs lines r o RM HM) as (cb & cs & q & E & Hs & Hnn & Hq & Hv & _).
    exists cb, q. split; [exact E|]. fold b in Hv. rewrite <- Hv. unfold b0. rewrite hd0_hd_chr, hd0_skipn'.
    split; [|apply nthb_lt256; apply nonul_lt256; exact Hnn].
    apply (load_str M cb cs _ q Hs); lia.
  Qed.

  Variables (r0 o0 : Z).
  Hypothesis Hr : cell_at m br r0.
  Hypothesis Ho : cell_at m bo o0.
  Definition lp_loc (v6 v7 v8 v9 : val) : list val :=
    [VPtr lb 0; VPtr br 0; VPtr bo 0; VPtr Rb 0; VPtr Ob 0; VPtr G_pairs 0; v6; v7; v8; v9].
  Definition rowlen (r : Z) : Z := match getl b r with Some l => slen l | None => 0 end.

  Lemma lp_scan_ok v7 v8 v9 r : i32 r -> forall k o mf fuel v6, (Z.to_nat (rowlen r - o) <= k)%nat -> (k < mf)%nat -> (k < fuel)%nat -> i32 o ->
    exists o' pc,
      exec (callf cprog F (S (S (S (S d))))) fuel lp_scan (mkst (lp_loc v6 v7 v8 v9) (pm r o))
      = ONormal (mkst (lp_loc (VInt (Z.of_N pc)) v7 v8 v9) (pm r o')) /\
      pair_scan mf b r o = (if (pc =? 0)%N then None else Some (o', pc)) /\ i32 o' /\
      (pc <> 0%N -> index_of pc pairs 0 <> None /\ o <= o' < rowlen r).
  Proof.
    intro Ir. induction k as [|k IH]; intros o mf fuel v6 Hk Hmf Hf Io;
      (destruct fuel as [|fuel]; [lia|]); (destruct mf as [|mf]; [lia|]);
      unfold lp_scan, lp_loc; cbn [fn_body cf_lbuf_pair]; rewrite exec_while; xstep;
      destruct (pm_cells r o) as [Cr Co]; pose proof (pm_mot r o) as [RM HM _ _ _ _ _];
      rewrite (load_cell _ _ _ Cr); xstep; rewrite wrap_I32_id by exact Ir;
      rewrite (load_cell _ _ _ Co); xstep; rewrite wrap_I32_id by exact Io;
      rewrite (tr_lbuf_chr _ _ _ _ _ r o d F RM Hsm HF); xstep;
      destruct (first_byte (pm r o) r o RM HM) as (cb & q & -> & Hld & Hc); xstep; rewrite Hld; xstep;
      rewrite (wrap_byte_chain _ Hc); cbn [pair_scan]; cbv zeta; fold b;
      set (c := b0 (lchr b r o)) in *;
      (destruct (N.eqb_spec c 0) as [Ec|Ec];
       [rewrite Ec; xstep; exists o, 0%N; split; [reflexivity|]; split; [reflexivity|]; split; [exact Io|]; intro X; congruence|]);
      (replace (Z.of_N c =? 0) with false by (symmetry; apply Z.eqb_neq; lia)); cbn [negb]; xstep;
      change (VPtr G_pairs 0) with (VPtr G_pairs (Z.of_nat 0));
      rewrite (builtin_strchr (pm r o) G_pairs pairs_b 0 c (str_at_app _ _ _ _ Hpairs)
                 ltac:(repeat constructor; cbv; intuition discriminate) ltac:(cbn; lia) Hc Ec);
      xstep; cbn [skipn]; rewrite (index_of_find c pairs 0); change pairs with pairs_b;
      destruct (b0_lchr_range b r o Ec) as (l & El & Hol); assert (Hrl : rowlen r = slen l) by (unfold rowlen; rewrite El; reflexivity);
      (destruct (find_byte c pairs_b) as [j|] eqn:Ej; cbn [option_map]; xstep;
       [exists o, c; destruct (N.eqb_spec c 0); [contradiction|]; split; [reflexivity|]; split; [reflexivity|]; split; [exact Io|];
        intros _; split; [rewrite ?(index_of_find c pairs_b 0), ?Ej; cbn [option_map]; discriminate|lia]|]).
    - exfalso. lia.
    - rewrite (load_cell _ _ _ Co). xstep. rewrite wrap_I32_id by exact Io.
      assert (Hl31 : slen l <= 2147483647).
      { destruct (getl_some lines r l El) as (i & Ei & ->). apply slen_small; [exact Hsm|exact (la_nonul _ _ _ _ _ R)]. }
      rewrite chk_I32 by lia. xstep. cbn [fst snd]. rewrite (store_cell _ _ _ _ Co). xstep.
      replace (upd (pm r o) Ob [VInt (o + 1)]) with (pm r (o + 1))
        by (rewrite <- (pm_set_pos r o r (o + 1)); unfold set_pos; rewrite (upd_self _ _ _ Cr); reflexivity).
      destruct (IH (o + 1) mf fuel (VInt (Z.of_N c)) ltac:(lia) ltac:(lia) ltac:(lia) ltac:(unfold i32 in *; lia)) as (o' & pc & E1 & E2 & E3 & E4).
      unfold lp_scan, lp_loc in E1; cbn [fn_body cf_lbuf_pair] in E1. exists o', pc. split; [exact E1|]. split; [exact E2|]. split; [exact E3|].
      intro X. destruct (E4 X). split; [assumption|lia].
  Qed.

  Lemma pm_app_set r' o' r1 o1 : set_pos (pm r1 o1) br bo r' o' = set_pos m br bo r' o' ++ [[VInt r1]; [VInt o1]].
  Proof.
    pose proof (cell_lt _ _ _ Hr) as Lr. pose proof (cell_lt _ _ _ Ho) as Lo.
    unfold set_pos, pm. rewrite (upd_app_old_l m _ br) by exact Lr. apply upd_app_old_l. rewrite upd_length by exact Lr. exact Lo.
  Qed.

  (* the nesting loop: pidx = the index of the bracket under the cursor in "()[]{}" *)
  Variable pidx : nat.
  Hypothesis Hpidx : (pidx < 6)%nat.
  Let dirz : Z := if Nat.odd pidx then -1 else 1.
  Let opn : N := nthb pairs_b pidx.
  Let cls : N := nth (if Nat.odd pidx then pidx - 1 else pidx + 1)%nat pairs 0%N.

  Lemma lp_loop_ok v6 fuel2 : (0 < fuel2)%nat -> forall mf r o dep fuel v9 res,
    pair_loop mf b dirz opn cls dep r o = Some res -> pos_ok r o -> 1 <= dep -> dep + Z.of_nat mf <= 2147483647 -> (mf < fuel)%nat ->
    exists st' r1 o1,
      match exec (callf cprog F (S (S (S (S d))))) fuel lp_loop (mkst (lp_loc v6 (VInt (Z.of_nat pidx)) (VInt dep) v9) (pm r o)) with
      | ONormal st1 => exec (callf cprog F (S (S (S (S d))))) fuel2 lp_ret st1
      | o => o
      end = OReturn (VInt (match res with Some _ => 0 | None => 1 end)) st' /\
      memm st' = match res with
                 | Some (r', o') => set_pos m br bo r' o' ++ [[VInt r1]; [VInt o1]]
                 | None => m ++ [[VInt r1]; [VInt o1]]
                 end.
  Proof.
    intro Hf2. destruct fuel2 as [|fuel2']; [lia|].
    assert (Hdir : dir_ok dirz) by (unfold dirz; destruct (Nat.odd pidx); [right|left]; reflexivity).
    induction mf as [|mf IH]; intros r o dep fuel v9 res Hres Hp Hdep Hbound Hf; [discriminate|].
    destruct fuel as [|fuel]; [lia|]. cbn [pair_loop] in Hres.
    unfold lp_loop, lp_ret, lp_loc; cbn [lp_after fn_body cf_lbuf_pair]. rewrite exec_while.
    (let t := eval cbv [lp_test lp_loop lp_after fn_body cf_lbuf_pair] in lp_test in change t with lp_test).
    xstep. rewrite (pidx_land pidx Hpidx).
    assert (Hcall : callf cprog F (S (S (S (S d)))) F_lbuf_next [VPtr lb 0; VInt dirz; VPtr Rb 0; VPtr Ob 0] (pm r o)
                    = let '(s, r', o') := lbuf_next b dirz r o in Ok (st_val s, pm r' o')).
    { destruct (pm_cells r o) as [Cr Co].
      rewrite (next_call (pm r o) lb bln lbs lines Rb Ob r o dirz d F (pm_mot r o) Hsm HF Cr Co Hp Hdir). fold b.
      destruct (lbuf_next b dirz r o) as [[s r'] o']. rewrite pm_set_pos. reflexivity. }
    assert (Hcond : forall st, (if Nat.odd pidx then (do r <- chk I32 (- (1)); Ok (VInt r, st)) else Ok (VInt 1, st)) = Ok (VInt dirz, st : state)).
    { intro st. unfold dirz. destruct (Nat.odd pidx); [rewrite chk_I32 by lia|]; reflexivity. }
    destruct (Nat.odd pidx) eqn:Eodd; xstep; [rewrite chk_I32 by lia; xstep; change (- (1)) with dirz|change 1 with dirz at 1];
      rewrite Hcall; (destruct (lbuf_next b dirz r o) as [[s r'] o'] eqn:En); xstep;
      pose proof (lbuf_next_pos_ok lines dirz r o _ _ _ Hsm (la_nonul _ _ _ _ _ R) Hdir Hp En) as Hp1;
      (destruct s; unfold st_val; xstep;
       [injection Hres as <-; eexists _, r', o'; split; reflexivity|]).
    all: destruct (pm_cells r' o') as [Cr Co]; pose proof (pm_mot r' o') as [RM HM _ _ _ _ _]; destruct Hp1 as [Pr1 Po1].
    all: rewrite (load_cell _ _ _ Cr); xstep; rewrite wrap_I32_id by lia;
         rewrite (load_cell _ _ _ Co); xstep; rewrite wrap_I32_id by lia;
         rewrite (tr_lbuf_chr _ _ _ _ _ r' o' d F RM Hsm HF); xstep;
         destruct (first_byte (pm r' o') r' o' RM HM) as (cb & q & -> & Hld & Hc); xstep; rewrite Hld; xstep;
         rewrite (wrap_byte_chain _ Hc); fold b in Hres; set (c := b0 (lchr b r' o')) in *.
    all: rewrite (pidx_lxor pidx Hpidx), Eodd.
    all: match goal with |- context [load (pm ?rr ?oo) G_pairs (0 + 1 * Z.of_nat ?j)] =>
           rewrite (load_str (pm rr oo) G_pairs pairs_b _ j (str_at_app _ _ _ _ Hpairs)) by (cbn [length pairs_b]; lia); xstep;
           pose proof (sx_small (nthb pairs_b j) ltac:(pose proof (pairs_small j); lia)) as Hsx;
           destruct (N.ltb_spec (nthb pairs_b j) 128) as [_|X]; [|pose proof (pairs_small j); lia]; rewrite Hsx; clear Hsx;
           rewrite of_N_eqb; change (nthb pairs_b j) with cls
         end.
    all: set (dep1 := if (c =? cls)%N then dep - 1 else dep) in *.
    all: assert (Hd1 : 0 <= dep1 <= dep) by (unfold dep1; destruct (c =? cls)%N; lia).
    all: set (dep2 := if (c =? opn)%N then dep1 + 1 else dep1) in *.
    all: assert (Hd2 : 0 <= dep2 <= dep + 1) by (unfold dep2; destruct (c =? opn)%N; lia).
    (* the two conditional updates of dep and the test, once for both directions *)
    all: assert (Hfin : forall v9',
      exists st' r1 o1,
        match
          match exec (callf cprog F (S (S (S (S d))))) (S fuel) lp_test
                  (mkst (lp_loc v6 (VInt (Z.of_nat pidx)) (VInt dep2) v9') (pm r' o')) with
          | ONormal st2 | OContinue st2 => exec (callf cprog F (S (S (S (S d))))) fuel lp_loop st2
          | OBreak st2 => ONormal st2
          | o => o
          end
        with
        | ONormal st1 => exec (callf cprog F (S (S (S (S d))))) (S fuel2') lp_ret st1
        | o => o
        end = OReturn (VInt (match res with Some _ => 0 | None => 1 end)) st' /\
        memm st' = match res with
                   | Some (r'', o'') => set_pos m br bo r'' o'' ++ [[VInt r1]; [VInt o1]]
                   | None => m ++ [[VInt r1]; [VInt o1]]
                   end).
    1,3: (intro v9'; unfold lp_test, lp_loc; cbn [lp_loop lp_after fn_body cf_lbuf_pair]; xstep;
      destruct (Z.eqb_spec dep2 0) as [E0|E0]; fold dep1 dep2 in Hres;
      [ replace (dep2 =? 0) with true in Hres by (symmetry; apply Z.eqb_eq; exact E0); injection Hres as <-;
        cbn [negb b2z]; xstep;
        rewrite (load_cell _ _ _ Cr); xstep; rewrite !(wrap_I32_id r') by lia;
        rewrite (store_cell (pm r' o') br r0 r' (cell_at_app _ _ _ _ Hr : cell_at (pm r' o') br r0)); xstep;
        rewrite load_upd_other_block by (try (unfold pm; rewrite app_length; cbn [length]); pose proof (cell_lt _ _ _ Hr); unfold Ob; lia);
        rewrite (load_cell _ _ _ Co); xstep; rewrite !(wrap_I32_id o') by lia;
        assert (E : store (upd (pm r' o') br [VInt r']) bo 0 (VInt o') = Ok (upd (upd (pm r' o') br [VInt r']) bo [VInt o']))
          by (apply store_any; destruct (Nat.eq_dec bo br) as [->|Nb];
              [exists r'; apply cell_at_upd_same; unfold pm; rewrite app_length; pose proof (cell_lt _ _ _ Hr); lia
              |exists o0; apply cell_at_upd_other; [unfold pm; rewrite app_length; pose proof (cell_lt _ _ _ Hr); lia|exact Nb|apply cell_at_app; exact Ho]]);
        rewrite E; xstep; eexists _, r', o'; split; [reflexivity|]; cbn [memm]; rewrite <- pm_app_set; reflexivity
      | replace (dep2 =? 0) with false in Hres by (symmetry; apply Z.eqb_neq; exact E0);
        cbn [negb b2z]; xstep;
        destruct (IH r' o' dep2 fuel v9' res Hres (conj Pr1 Po1) ltac:(lia) ltac:(lia) ltac:(lia)) as (st' & r1 & o1 & E1 & E2);
        exists st', r1, o1; split; [|exact E2]; unfold lp_loop, lp_ret, lp_loc in E1; cbn [lp_after fn_body cf_lbuf_pair] in E1; exact E1 ]).
    all: destruct (c =? cls)%N eqn:Ecl; xstep; [rewrite chk_I32 by lia; xstep|].
    all: match goal with |- context [load (pm ?rr ?oo) G_pairs (0 + 1 * Z.of_nat pidx)] =>
           rewrite (load_str (pm rr oo) G_pairs pairs_b _ pidx (str_at_app _ _ _ _ Hpairs)) by (cbn [length pairs_b]; lia); xstep;
           pose proof (sx_small (nthb pairs_b pidx) ltac:(pose proof (pairs_small pidx); lia)) as Hsx;
           (destruct (N.ltb_spec (nthb pairs_b pidx) 128) as [_|X]; [|pose proof (pairs_small pidx); lia]); rewrite Hsx; clear Hsx;
           rewrite of_N_eqb; fold opn;
           (destruct (c =? opn)%N eqn:Eop; xstep; [rewrite chk_I32 by (unfold dep1 in *; lia); xstep|])
         end.
    all: unfold dep2, dep1 in Hfin; rewrite ?Ecl, ?Eop in Hfin;
         match goal with |- context [mkst (?a :: ?b' :: ?c' :: ?d' :: ?e :: ?f :: ?g :: ?h :: ?i :: [?v]) _] => apply (Hfin v) end.
  Qed.
End Pair.

Lemma pidx_pairs c p : index_of c pairs 0 = Some p -> (p < 6)%nat /\ nthb pairs_b p = c.
Proof.
  rewrite index_of_find. change pairs with pairs_b. destruct (find_byte c pairs_b) as [k|] eqn:E; [|discriminate].
  cbn [option_map Nat.add]. intro X. injection X as <-. destruct (find_byte_lt c pairs_b k E) as [H1 H2]. split; [exact H1|exact H2].
Qed.

(* lbuf_pair(lb, row, off): for every buffer in memory and every position inside int: returns 0 and stores the model's matching
   position in *row, *off, or returns 1 and stores nothing; the two address-taken locals r and o stay behind as fresh blocks.
   mf = the model's fuel; dep + mf inside int (the nesting depth is counted in an int) *)
Theorem tr_lbuf_pair m lb bln lbs lines br bo r o mf res d fuel :
  lbuf_at m lb bln lbs lines -> str_at m G_lit__0 [] -> str_at m G_pairs pairs_b -> lines_small lines ->
  cell_at m br r -> cell_at m bo o -> pos_ok r o -> 0 <= o ->
  lbuf_pair mf (map chop lines) r o = Some res -> Z.of_nat mf <= 2147483645 ->
  (mf < fuel)%nat -> (S (maxlen lines) < fuel)%nat ->
  exists r1 o1,
  callf cprog fuel (S (S (S (S (S d))))) F_lbuf_pair [VPtr lb 0; VPtr br 0; VPtr bo 0] m
  = match res with
    | Some (r', o') => Ok (VInt 0, set_pos m br bo r' o' ++ [[VInt r1]; [VInt o1]])
    | None => Ok (VInt 1, m ++ [[VInt r1]; [VInt o1]])
    end.
Proof.
  intros R Hlit0 Hpairs Hsm Hr Ho [Pr Po] Ho0 Hres Hmf Hf HF. set (b := map chop lines) in *.
  unfold lbuf_pair in Hres.
  (* the scan for the first bracket at or behind the cursor *)
  set (n := match getl b r with Some l => S (length l) | None => 1%nat end) in *.
  assert (Hn : (Z.to_nat (rowlen lines r - o) < n)%nat /\ (n <= S (maxlen lines))%nat).
  { unfold rowlen, n. fold b. destruct (getl b r) as [l|] eqn:El; [|cbn; lia].
    destruct (getl_some lines r l El) as (i & Ei & ->). unfold slen. pose proof (chop_length_le _ (nthl_nonul lines i (la_nonul _ _ _ _ _ R))).
    pose proof (maxlen_ge lines i). lia. }
  destruct Hn as [Hn1 Hn2].
  destruct (lp_scan_ok fuel d m lb bln lbs lines br bo R Hlit0 Hpairs Hsm ltac:(lia) (VUndef) (VInt 1) VUndef r ltac:(unfold i32; lia)
              (Z.to_nat (rowlen lines r - o)) o n fuel VUndef ltac:(lia) Hn1 ltac:(lia) ltac:(unfold i32; lia))
    as (o' & pc & Escan & Eps & Io' & Hpc).
  fold b in Eps. rewrite Eps in Hres.
  enter F_lbuf_pair cf_lbuf_pair.
  (let t := eval cbv [lp_scan fn_body cf_lbuf_pair] in lp_scan in change t with lp_scan).
  (let t := eval cbv [lp_after fn_body cf_lbuf_pair] in lp_after in change t with lp_after).
  remember lp_scan as sc eqn:Esc. remember lp_after as af eqn:Eaf.
  xstep. rewrite malloc_ok by lia. xstep. change (repeat VUndef (Z.to_nat 1)) with [VUndef].
  rewrite (load_cell _ br r (cell_at_app _ _ _ _ Hr)). xstep. rewrite !(wrap_I32_id r) by lia.
  rewrite (store_ok (m ++ [[VUndef]]) (length m) [VUndef] 0 _ (nth_error_app_new m [VUndef])) by (cbn; lia). xstep.
  change (upd [VUndef] (Z.to_nat 0) (VInt r)) with [VInt r]. rewrite upd_app_new.
  rewrite malloc_ok by lia. xstep. change (repeat VUndef (Z.to_nat 1)) with [VUndef].
  rewrite app_length. cbn [length]. replace (length m + 1)%nat with (S (length m)) by lia.
  rewrite (load_cell _ bo o (cell_at_app _ _ _ _ (cell_at_app _ _ _ _ Ho))). xstep. rewrite !(wrap_I32_id o) by lia.
  assert (Hnew : nth_error ((m ++ [[VInt r]]) ++ [[VUndef]]) (S (length m)) = Some [VUndef]).
  { replace (S (length m)) with (length (m ++ [[VInt r]])) by (rewrite app_length; cbn; lia). apply nth_error_app_new. }
  rewrite (store_ok _ (S (length m)) [VUndef] 0 _ Hnew) by (cbn; lia). xstep.
  change (upd [VUndef] (Z.to_nat 0) (VInt o)) with [VInt o].
  replace (upd ((m ++ [[VInt r]]) ++ [[VUndef]]) (S (length m)) [VInt o]) with (pm m r o).
  2:{ replace (S (length m)) with (length (m ++ [[VInt r]])) by (rewrite app_length; cbn; lia). rewrite upd_app_new, <- app_assoc. reflexivity. }
  subst sc. unfold lp_loc in Escan. change (VPtr G_lit_28295b5d7b7d_6 0) with (VPtr G_pairs 0). rewrite Escan.
  subst af. unfold lp_after; cbn [fn_body cf_lbuf_pair].
  (let t := eval cbv [lp_loop lp_after fn_body cf_lbuf_pair] in lp_loop in change t with lp_loop).
  (let t := eval cbv [lp_ret lp_after fn_body cf_lbuf_pair] in lp_ret in change t with lp_ret).
  remember lp_loop as lo eqn:Elo. remember lp_ret as rt eqn:Ert. xstep.
  destruct (N.eqb_spec pc 0) as [E0|E0].
  { subst pc. cbn [Z.of_N Z.eqb negb b2z]. xstep. subst rt. unfold lp_ret; cbn [lp_after fn_body cf_lbuf_pair]. xstep.
    injection Hres as <-. exists r, o'. reflexivity. }
  replace (Z.of_N pc =? 0) with false by (symmetry; apply Z.eqb_neq; lia). cbn [negb b2z]. xstep.
  destruct (Hpc E0) as [Hidx Hrange].
  destruct (index_of pc pairs 0) as [pidx|] eqn:Eidx; [|congruence].
  destruct (pidx_pairs pc pidx Eidx) as [Hp6 Hpn].
  assert (Hc : (pc < 256)%N) by (rewrite <- Hpn; pose proof (pairs_small pidx); lia).
  change (VPtr G_pairs 0) with (VPtr G_pairs (Z.of_nat 0)).
  rewrite (builtin_strchr (pm m r o') G_pairs pairs_b 0 pc (str_at_app _ _ _ _ Hpairs)
             ltac:(repeat constructor; cbv; intuition discriminate) ltac:(cbn; lia) Hc E0).
  cbn [skipn]. rewrite index_of_find in Eidx. change pairs with pairs_b in Eidx.
  destruct (find_byte pc pairs_b) as [k|]; [|discriminate]. cbn [option_map Nat.add] in Eidx. injection Eidx as ->. xstep.
  rewrite Nat.eqb_refl. xstep. replace (Z.of_nat 0 + Z.of_nat pidx - Z.of_nat 0) with (Z.of_nat pidx) by lia. rewrite Z.quot_1_r.
  rewrite wrap_I32_id by lia. change (Z.of_nat 0) with 0.
  assert (Hrl : rowlen lines r <= 2147483647).
  { unfold rowlen. fold b. destruct (getl b r) as [l|] eqn:El; [|lia]. destruct (getl_some lines r l El) as (i & Ei & ->).
    apply slen_small; [exact Hsm|exact (la_nonul _ _ _ _ _ R)]. }
  subst lo rt. rewrite <- Hpn in Hres.
  destruct (lp_loop_ok fuel d m lb bln lbs lines br bo R Hlit0 Hpairs Hsm ltac:(lia) r o Hr Ho pidx Hp6 (VInt (Z.of_N pc)) fuel ltac:(lia)
              mf r o' 1 fuel VUndef res Hres ltac:(split; lia) ltac:(lia) ltac:(lia) Hf) as (st' & r1 & o1 & E1 & E2).
  exists r1, o1. unfold lp_loc in E1. rewrite E1, E2. destruct res as [[r' o'']|]; reflexivity.
Qed.

(* ------------------------------------------------------------------ vi.c: vi_nextoff (space / backspace) *)
Theorem tr_vi_nextoff m lb bln lbs lines br bo r o dir d fuel : lbuf_at m lb bln lbs lines -> lines_small lines ->
  (maxlen lines < fuel)%nat -> cell_at m br r -> cell_at m bo o -> i32 r -> i32 o -> i32 (o + dir) ->
  callf cprog fuel (S (S (S d))) F_vi_nextoff [VPtr lb 0; VInt dir; VPtr br 0; VPtr bo 0] m
  = match vi_nextoff (map chop lines) dir (r, o) with
    | Some (false, (_, o')) => Ok (VInt 0, upd m bo [VInt o'])
    | _ => Ok (VInt 1, m)
    end.
Proof.
  intros R Hsm Hf Hr Ho Ir Io Iod. unfold vi_nextoff, lbuf_lnnext. rewrite getl_rowidx.
  enter F_vi_nextoff cf_vi_nextoff. xstep.
  rewrite (load_cell m bo o Ho). xstep. rewrite wrap_I32_id by exact Io. rewrite chk_I32 by exact Iod. xstep.
  destruct (Z.ltb_spec (o + dir) 0) as [L|L]; xstep.
  { destruct (rowidx lines r); reflexivity. }
  rewrite (load_cell m br r Hr). xstep. rewrite wrap_I32_id by exact Ir.
  rewrite (tr_lbuf_get m lb bln lbs lines r (S d) fuel R Hsm). unfold line_ptr.
  destruct (rowidx lines r) as [i|] eqn:Ei; xstep; [|reflexivity].
  destruct (rowidx_lt _ _ _ Ei) as [Hi _].
  rewrite (load_cell m br r Hr). xstep. rewrite wrap_I32_id by exact Ir.
  rewrite (tr_lbuf_get m lb bln lbs lines r (S d) fuel R Hsm). unfold line_ptr. rewrite Ei. xstep.
  rewrite (slen_line m lb bln lbs lines i d fuel R Hsm Hf Hi). xstep. cbn [option_map orb].
  rewrite Z.geb_leb. destruct (Z.leb_spec (slen (chop (nthl lines i))) (o + dir)); xstep; [reflexivity|].
  rewrite wrap_I32_id by exact Iod. rewrite (store_cell m bo o _ Ho). xstep. reflexivity.
Qed.

(* ------------------------------------------------------------------ vi.c: vi_cnt (the saturated count, fix 164b6b4) *)
Definition vi_cnt_m (a1 a2 : Z) : Z :=
  let n := (if a1 =? 0 then 1 else a1) * (if a2 =? 0 then 1 else a2) in
  if (0 <? n) && (n <? 1073741824) then n else 1073741824.
Lemma wrap_I64_id' z : -9223372036854775808 <= z <= 9223372036854775807 -> wrap I64 z = z.
Proof.
  intro H. unfold wrap. cbn [ity_bits ity_signed andb].
  change (2 ^ 64) with 18446744073709551616. change (2 ^ (64 - 1)) with 9223372036854775808.
  destruct (Z.leb_spec 9223372036854775808 (z mod 18446744073709551616)) as [L|L].
  - assert (z < 0) by (destruct (Z.lt_ge_cases z 0); [assumption|rewrite Z.mod_small in L by lia; lia]).
    rewrite <- (Z.mod_add z 1 18446744073709551616) by lia. rewrite Z.mod_small by lia. lia.
  - assert (0 <= z) by (destruct (Z.lt_ge_cases z 0); [|assumption]; exfalso;
      rewrite <- (Z.mod_add z 1 18446744073709551616) in L by lia; rewrite Z.mod_small in L by lia; lia).
    apply Z.mod_small. lia.
Qed.
Lemma chk_I64' z : -9223372036854775808 <= z <= 9223372036854775807 -> chk I64 z = Ok z.
Proof.
  intro H. unfold chk, in_range, ity_min, ity_max, ity_signed, ity_bits.
  change (- 2 ^ (64 - 1)) with (-9223372036854775808). change (2 ^ (64 - 1) - 1) with 9223372036854775807.
  destruct (Z.leb_spec (-9223372036854775808) z); [|lia]. destruct (Z.leb_spec z 9223372036854775807); [|lia]. reflexivity.
Qed.
Theorem tr_vi_cnt m a1 a2 d fuel : cell_at m G_vi_arg1 a1 -> cell_at m G_vi_arg2 a2 -> i32 a1 -> i32 a2 ->
  callf cprog fuel (S d) F_vi_cnt [] m = Ok (VInt (vi_cnt_m a1 a2), m).
Proof.
  intros H1 H2 I1 I2. unfold i32 in *. enter F_vi_cnt cf_vi_cnt. xstep. unfold vi_cnt_m.
  rewrite (load_cell m _ _ H1). xstep. rewrite !(wrap_I32_id a1) by lia.
  destruct (Z.eqb_spec a1 0) as [E1|E1]; cbn [negb]; xstep;
    [|rewrite (load_cell m _ _ H1); xstep; rewrite !(wrap_I32_id a1) by lia];
    rewrite (load_cell m _ _ H2); xstep; rewrite !(wrap_I32_id a2) by lia;
    (destruct (Z.eqb_spec a2 0) as [E2|E2]; cbn [negb]; xstep;
     [|rewrite (load_cell m _ _ H2); xstep; rewrite !(wrap_I32_id a2) by lia]);
    rewrite !wrap_I64_id' by lia;
    match goal with |- context [chk I64 (?x * ?y)] => rewrite (chk_I64' (x * y)) by nia end; xstep;
    rewrite (chk_I32 (Z.shiftl 1 30)) by (cbn; lia); xstep;
    change (Z.shiftl 1 30) with 1073741824; rewrite !wrap_I64_id' by lia;
    match goal with |- context [0 <? ?n] => destruct (Z.ltb_spec 0 n); xstep; [|reflexivity] end;
    match goal with |- context [?n <? 1073741824] => destruct (Z.ltb_spec n 1073741824); xstep; [|reflexivity] end;
    rewrite wrap_I32_id by lia; reflexivity.
Qed.

(* ------------------------------------------------------------------ vi.c: vi_findchar (f F t T: the search is recorded, then lbuf_findchar) *)
Lemma cstr_block_length' (s : bytes) : length (cstr_block (zb s)) = S (length s).
Proof. unfold cstr_block, zb. rewrite app_length, !map_length. cbn. lia. Qed.
Lemma builtin_strcpy' m bd (dblk : block) bsrc (t : bytes) :
  nth_error m bd = Some dblk -> str_at m bsrc t -> nonul t -> (S (length t) <= length dblk)%nat ->
  do_builtin_m BStrcpy [VPtr bd 0; VPtr bsrc 0] m = Ok (VPtr bd 0, upd m bd (put_cells dblk 0 (cstr_block (zb t)))).
Proof.
  intros Hd Hs Hn Hl. cbn [do_builtin_m]. change (blk_from m bsrc 0) with (blk_from m bsrc (Z.of_nat 0)). rewrite (blk_from_str m bsrc t 0 Hs ltac:(lia)). cbn [bind skipn].
  rewrite scan0_cstr by exact Hn. cbn [bind Nat.add].
  rewrite firstn_all2 by (rewrite cstr_block_length'; lia).
  rewrite (write_cells_ok m bd dblk); [reflexivity|exact Hd|lia|]. rewrite cstr_block_length'. cbn. lia.
Qed.
(* the memory after the search was recorded: vi_charlast holds cs, vi_charcmd holds cmd *)
Definition fc_recorded (m : mem) (last : block) (cst : bytes) (cmd : Z) : mem :=
  upd (upd m G_vi_charlast (put_cells last 0 (cstr_block (zb cst)))) G_vi_charcmd [VInt cmd].
Lemma charlast_ne_cmd : G_vi_charlast <> G_vi_charcmd. Proof. intro H. vm_compute in H. discriminate H. Qed.

Theorem tr_vi_findchar m lb bln lbs lines br bo bc cst (cmdN : N) n r o last cmd0 d fuel :
  lbuf_at m lb bln lbs lines -> lines_small lines -> lines_valid lines ->
  cell_at m br r -> cell_at m bo o -> i32 r -> i32 o ->
  str_at m bc cst -> nonul cst -> (uc_len_b (nthb cst 0) - 1 <= length cst)%nat ->
  nth_error m G_vi_charlast = Some last -> (S (length cst) <= length last)%nat -> cell_at m G_vi_charcmd cmd0 ->
  ~ In G_vi_charlast (bc :: br :: bo :: lb :: bln :: lbs) -> ~ In G_vi_charcmd (bc :: br :: bo :: lb :: bln :: lbs) ->
  Z.of_N cmdN <= 2147483647 -> -2147483647 <= n <= 2147483647 -> n <> 0 ->
  (forall l, getl (map chop lines) r = Some l -> 0 <= o < slen l) ->
  (maxlen lines < fuel)%nat ->
  exists sv,
  callf cprog fuel (S (S (S (S (S d))))) F_vi_findchar [VPtr lb 0; VPtr bc 0; VInt (Z.of_N cmdN); VInt n; VPtr br 0; VPtr bo 0] m
  = match lbuf_findchar (map chop lines) cst cmdN n r o with
    | Some o' => Ok (VInt 0, upd (fc_recorded m last cst (Z.of_N cmdN)) bo [VInt o'] ++ [[sv]])
    | None => Ok (VInt 1, fc_recorded m last cst (Z.of_N cmdN) ++ [[sv]])
    end.
Proof.
  intros R Hsm Hval Hr Ho Ir Io Hc Hcn Hclen Hlast Hll Hcc N1 N2 Hcmd Hn Hn0 Hcur Hf.
  assert (L1 : (G_vi_charlast < length m)%nat) by (apply nth_error_Some; congruence).
  assert (L2 : (G_vi_charcmd < length m)%nat) by (apply (cell_lt _ _ _ Hcc)).
  set (m1 := upd m G_vi_charlast (put_cells last 0 (cstr_block (zb cst)))).
  assert (L2' : (G_vi_charcmd < length m1)%nat) by (unfold m1; rewrite upd_length by exact L1; exact L2).
  set (m2 := fc_recorded m last cst (Z.of_N cmdN)).
  assert (Hother : forall k, k <> G_vi_charlast -> k <> G_vi_charcmd -> nth_error m2 k = nth_error m k).
  { intros k K1 K2. unfold m2, fc_recorded. fold m1. rewrite mem_upd_other by assumption. unfold m1. apply mem_upd_other; assumption. }
  assert (R2 : lbuf_at m2 lb bln lbs lines).
  { apply (lbuf_at_other m); [exact R|]. intros k Hk. apply Hother; intros ->; [apply N1|apply N2]; right; right; right; exact Hk. }
  assert (Hr2 : cell_at m2 br r) by (unfold cell_at; rewrite Hother; [exact Hr| |]; intros E; [apply N1|apply N2]; rewrite <- E; right; left; reflexivity).
  assert (Ho2 : cell_at m2 bo o) by (unfold cell_at; rewrite Hother; [exact Ho| |]; intros E; [apply N1|apply N2]; rewrite <- E; right; right; left; reflexivity).
  assert (Hc2 : str_at m2 bc cst) by (unfold str_at; rewrite Hother; [exact Hc| |]; intros E; [apply N1|apply N2]; rewrite <- E; left; reflexivity).
  destruct (tr_lbuf_findchar m2 lb bln lbs lines br bo bc cst cmdN n r o d fuel R2 Hsm Hval Hr2 Ho2 Ir Io Hc2 (nonul_lt256 _ Hcn) Hclen Hcmd Hn Hn0 Hcur Hf) as [sv Hsv].
  exists sv. enter F_vi_findchar cf_vi_findchar. xstep. cbn [ptr_cmp].
  destruct (Nat.eqb_spec bc G_vi_charlast) as [E|_]; [exfalso; apply N1; left; rewrite E; reflexivity|]. xstep.
  rewrite (builtin_strcpy' m G_vi_charlast last bc cst Hlast Hc Hcn Hll). xstep. fold m1.
  rewrite (store_cell m1 G_vi_charcmd cmd0 _ (cell_at_upd_other m _ _ _ _ L1 (fun E => charlast_ne_cmd (eq_sym E)) Hcc)). xstep.
  rewrite wrap_I32_id by (pose proof (N2Z.is_nonneg cmdN); lia). change (upd m1 G_vi_charcmd [VInt (Z.of_N cmdN)]) with m2.
  rewrite Hsv. destruct (lbuf_findchar (map chop lines) cst cmdN n r o); reflexivity.
Qed.
