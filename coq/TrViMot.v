(* TrViMot.v -- the remaining motion code of C07 on the translated C text (tools/c2clite.d/89_vimot.list):
   mot.c lbuf_findchar (f F t T ; ,) and lbuf_pair (%), vi.c vi_col2off / vi_off2col / vi_nextoff / vi_nextcol (the column
   machinery of h l | j k), vi_cnt and vi_motionln (the line motions + - _ G H M L j k N%).
   For each function: running the CLite term c2clite generated from /repo on a memory that holds the buffer as
   TrMot.lbuf_at describes gives, for ALL buffers whose lines are valid UTF-8, ALL cursors inside them and ALL counts inside
   int, the value of the hand-written model MotDefs.v and the memory the model predicts (the int cells *row / *off rewritten,
   the address-taken locals of the C function left behind as fresh blocks at the end of memory -- CLite never reclaims them --
   nothing else changed).
   The model works on the character view of a line (MotDefs.chop); the C text on byte pointers (uc_chr / uc_next / uc_prev /
   uc_off / uc_code).  On a valid UTF-8 line s = chars cs (UcSpec.valid) the characters are the encodings of the scalar values
   cs and a byte pointer to character k is the offset off_of cs k: section "valid lines" below, on top of UcSegProps.v. *)
From Coq Require Import List ZArith NArith Bool Lia.
From NV Require Import Bytes UcDefs UcSpec UcProps UcSegProps CLite CLiteProps GenCFuncs CLiteTac CLiteExt TrLbufBase TrUcCode TrUc TrUcClass
                       MotDefs TrMot.
Import ListNotations.
Local Open Scope Z_scope.

(* ------------------------------------------------------------------ valid lines: characters = encoded scalar values *)
Lemma chop_f_chars cs : Forall scalar cs -> forall fuel, (length (chars cs) <= fuel)%nat -> chop_f fuel (chars cs) = map encode cs.
Proof.
  induction 1 as [|c cs Hc Hcs IH]; intros fuel Hf; [destruct fuel; reflexivity|].
  rewrite chars_cons in *. pose proof (encode_nonempty c Hc) as Hn. rewrite app_length in Hf.
  destruct fuel as [|fuel]; [lia|]. cbn [chop_f map].
  destruct (encode c ++ chars cs) eqn:E. { apply (f_equal (@length N)) in E. rewrite app_length in E. cbn in E. lia. }
  rewrite <- E. rewrite uc_next_encode by (auto using chars_hd_noncont).
  replace (Nat.max 1 (length (encode c))) with (length (encode c)) by lia.
  rewrite firstn_app_exact, skipn_app_exact. f_equal. apply IH. lia.
Qed.
Lemma chop_chars cs : Forall scalar cs -> chop (chars cs) = map encode cs.
Proof. intro H. apply chop_f_chars; [exact H|lia]. Qed.

Definition nthc (cs : list N) (k : nat) : N := nth k cs 0%N.
Lemma off_of_succ cs k : (k < length cs)%nat -> off_of cs (S k) = (off_of cs k + length (encode (nthc cs k)))%nat.
Proof.
  revert k; induction cs as [|c cs IH]; intros k Hk; cbn [length] in Hk; [lia|].
  destruct k as [|k]; [rewrite off_of_S, !off_of_0; cbn [nthc nth]; lia|].
  rewrite !off_of_S, IH by lia. cbn [nthc nth]. unfold nthc. lia.
Qed.
Lemma off_of_all cs k : (length cs <= k)%nat -> off_of cs k = length (chars cs).
Proof. intro H. unfold off_of. rewrite firstn_all2 by exact H. reflexivity. Qed.
Lemma skipn_nthc (cs : list N) k : (k < length cs)%nat -> skipn k cs = nthc cs k :: skipn (S k) cs.
Proof.
  revert k; induction cs as [|c cs IH]; intros k Hk; cbn [length] in Hk; [lia|].
  destruct k as [|k]; [reflexivity|]. cbn [skipn]. rewrite IH by lia. reflexivity.
Qed.
Lemma scalar_nthc cs k : Forall scalar cs -> (k < length cs)%nat -> scalar (nthc cs k).
Proof. intros H Hk. rewrite Forall_forall in H. apply H. apply nth_In. exact Hk. Qed.
Lemma Forall_skipn'' {A} (P : A -> Prop) l n : Forall P l -> Forall P (skipn n l).
Proof. revert l; induction n as [|n IH]; intros l H; [exact H|]. destruct l; [exact H|]. inversion H; subst. apply IH. assumption. Qed.
Lemma Forall_firstn'' {A} (P : A -> Prop) l n : Forall P l -> Forall P (firstn n l).
Proof. revert l; induction n as [|n IH]; intros l H; [constructor|]. destruct l; [constructor|]. inversion H; subst. constructor; [assumption|apply IH; assumption]. Qed.

(* uc_next at the start of character k moves to the start of character k + 1 *)
Lemma next_at cs k : Forall scalar cs -> (k < length cs)%nat ->
  (off_of cs k + uc_next (skipn (off_of cs k) (chars cs)) = off_of cs (S k))%nat.
Proof.
  intros H Hk. rewrite skipn_off_of, (skipn_nthc cs k Hk), chars_cons.
  rewrite uc_next_encode; [rewrite off_of_succ by exact Hk; reflexivity|apply scalar_nthc; assumption|].
  apply chars_hd_noncont. apply Forall_skipn''. exact H.
Qed.
(* uc_prev at the start of character k + 1 moves back to the start of character k *)
Lemma firstn_S_nthc (cs : list N) k : (k < length cs)%nat -> firstn (S k) cs = firstn k cs ++ [nthc cs k].
Proof.
  revert k; induction cs as [|c cs IH]; intros k Hk; cbn [length] in Hk; [lia|].
  destruct k as [|k]; [reflexivity|]. cbn [firstn app]. f_equal. apply IH. lia.
Qed.
Lemma prev_at cs k : Forall scalar cs -> (k < length cs)%nat ->
  (off_of cs (S k) - uc_prev (pre_of (chars cs) 0 (off_of cs (S k))) = off_of cs k)%nat.
Proof.
  intros H Hk. unfold pre_of. cbn [skipn]. rewrite Nat.sub_0_r, firstn_off_of, (firstn_S_nthc cs k Hk), chars_app, rev_app_distr.
  cbn [chars flat_map]. rewrite app_nil_r. rewrite uc_prev_encode by (apply scalar_nthc; assumption).
  rewrite off_of_succ by exact Hk. lia.
Qed.
(* uc_code at the start of character k reads inside the line and returns the scalar value *)
Lemma hd0_nthb0 (s : bytes) : hd0 s = nthb s 0.
Proof. destruct s; reflexivity. Qed.
Lemma code_at cs k : Forall scalar cs -> (k < length cs)%nat ->
  (off_of cs k + uc_len_b (nthb (chars cs) (off_of cs k)) - 1 <= length (chars cs))%nat /\
  uc_code (skipn (off_of cs k) (chars cs)) = nthc cs k.
Proof.
  intros H Hk. pose proof (scalar_nthc cs k H Hk) as Hc.
  destruct (uc_len_code_encode (nthc cs k) (chars (skipn (S k) cs)) Hc) as [E1 E2].
  assert (Es : skipn (off_of cs k) (chars cs) = encode (nthc cs k) ++ chars (skipn (S k) cs))
    by (rewrite skipn_off_of, (skipn_nthc cs k Hk), chars_cons; reflexivity).
  split; [|rewrite Es; exact E2].
  replace (nthb (chars cs) (off_of cs k)) with (hd0 (skipn (off_of cs k) (chars cs))) by (rewrite hd0_nthb0, nthb_skipn, Nat.add_0_r; reflexivity).
  rewrite Es. unfold uc_len in E1. rewrite E1.
  apply (f_equal (@length N)) in Es. rewrite skipn_length, app_length in Es. pose proof (encode_nonempty _ Hc). lia.
Qed.
Lemma off_of_le cs k : (off_of cs k <= length (chars cs))%nat.
Proof.
  destruct (Nat.le_gt_cases (length cs) k) as [L|L]; [rewrite off_of_all by exact L; lia|].
  rewrite <- (off_of_all cs (length cs)) by lia. apply off_of_mono. lia.
Qed.
Lemma off_of_lt cs k : Forall scalar cs -> (k < length cs)%nat -> (off_of cs k < length (chars cs))%nat.
Proof.
  intros H Hk. pose proof (off_of_succ cs k Hk) as E. pose proof (encode_nonempty _ (scalar_nthc cs k H Hk)). pose proof (off_of_le cs (S k)). lia.
Qed.
(* the byte at a character start is the terminator exactly at the end of the line *)
Lemma nthb_off_of_z cs k : Forall scalar cs -> (k <= length cs)%nat ->
  (nthb (chars cs) (off_of cs k) =? 0)%N = Nat.eqb k (length cs).
Proof.
  intros H Hk. destruct (Nat.eqb_spec k (length cs)) as [->|Hne].
  - rewrite off_of_all by lia. rewrite nthb_end by lia. reflexivity.
  - apply nonul_nthb_nz; [apply chars_nonul; exact H|apply off_of_lt; [exact H|lia]].
Qed.
Lemma code_encode c : scalar c -> code (encode c) = c.
Proof. intro H. destruct (uc_len_code_encode c [] H) as [_ E]. rewrite app_nil_r in E. exact E. Qed.

(* ------------------------------------------------------------------ memory with fresh blocks appended (address-taken locals) *)
Lemma app_old {A} (m x : list A) g : (g < length m)%nat -> nth_error (m ++ x) g = nth_error m g.
Proof. intro H. apply nth_error_app1. exact H. Qed.
Lemma str_at_app m x b s : str_at m b s -> str_at (m ++ x) b s.
Proof. intro H. unfold str_at in *. rewrite app_old; [exact H|apply nth_error_Some; congruence]. Qed.
Lemma cell_at_app m x g v : cell_at m g v -> cell_at (m ++ x) g v.
Proof. intro H. unfold cell_at in *. rewrite app_old; [exact H|apply nth_error_Some; congruence]. Qed.
Lemma lbuf_at_lt m lb bln lbs lines k : lbuf_at m lb bln lbs lines -> In k (lb :: bln :: lbs) -> (k < length m)%nat.
Proof.
  intros [(blk & Hb & _) (lnblk & Hl & _) Hlen Hs _ _] [<-|[<-|Hin]]; try (apply nth_error_Some; congruence).
  destruct (In_nth _ _ O Hin) as (i & Hi & <-). specialize (Hs i ltac:(lia)). unfold str_at in Hs. apply nth_error_Some. congruence.
Qed.
Lemma lbuf_at_app m x lb bln lbs lines : lbuf_at m lb bln lbs lines -> lbuf_at (m ++ x) lb bln lbs lines.
Proof. intro R. apply (lbuf_at_other m); [exact R|]. intros k Hk. apply app_old. apply (lbuf_at_lt _ _ _ _ _ _ R Hk). Qed.
Lemma of_N_eqb (a b : N) : (Z.of_N a =? Z.of_N b) = (a =? b)%N.
Proof. destruct (N.eqb_spec a b) as [->|E]; [apply Z.eqb_refl|]. apply Z.eqb_neq. lia. Qed.

(* ------------------------------------------------------------------ lbuf_findchar *)
(* the scan of lbuf_findchar on the scalar values of the line: from character k, n matches of tc still wanted;
   result = (matches still wanted, character reached) *)
Fixpoint fwd_scan (tc : N) (n : nat) (rest : list N) (k : nat) {struct rest} : nat * nat :=
  match n with
  | O => (O, k)
  | S _ => match rest with
           | [] => (n, S k)
           | c :: r => if (c =? tc)%N then fwd_scan tc (n - 1) r (S k) else fwd_scan tc n r (S k)
           end
  end.
Fixpoint bwd_scan (cs : list N) (tc : N) (n : nat) (k : nat) {struct k} : nat * nat :=
  match n with
  | O => (O, k)
  | S _ => match k with
           | O => (n, O)
           | S k' => if (nthc cs k' =? tc)%N then bwd_scan cs tc (n - 1) k' else bwd_scan cs tc n k'
           end
  end.

Lemma fwd_find cst : forall rest n k i, Forall scalar rest -> (1 <= n)%nat ->
  find_nth cst n (map encode rest) i
  = (let '(n', k') := fwd_scan (code cst) n rest k in if Nat.eqb n' 0 then Some (i + Z.of_nat k' - Z.of_nat (S k)) else None).
Proof.
  induction rest as [|c r IH]; intros n k i Hs Hn; (destruct n as [|n]; [lia|]).
  - reflexivity.
  - inversion Hs as [|? ? Hc Hr]; subst. cbn [map find_nth fwd_scan]. rewrite (code_encode c Hc).
    destruct (c =? code cst)%N.
    + replace (S n - 1)%nat with n by lia. destruct n as [|n].
      * destruct r; cbn [fwd_scan Nat.eqb]; f_equal; lia.
      * rewrite (IH (S n) (S k) (i + 1) Hr ltac:(lia)). destruct (fwd_scan (code cst) (S n) r (S k)) as [n' k'].
        destruct (Nat.eqb n' 0); [f_equal; lia|reflexivity].
    + rewrite (IH (S n) (S k) (i + 1) Hr ltac:(lia)). destruct (fwd_scan (code cst) (S n) r (S k)) as [n' k'].
      destruct (Nat.eqb n' 0); [f_equal; lia|reflexivity].
Qed.
Lemma rev_firstn_S (cs : list N) k : (k < length cs)%nat -> rev (firstn (S k) cs) = nthc cs k :: rev (firstn k cs).
Proof. intro H. rewrite firstn_S_nthc by exact H. rewrite rev_app_distr. reflexivity. Qed.
Lemma bwd_find cst cs : Forall scalar cs -> forall k n i, (k <= length cs)%nat -> (1 <= n)%nat ->
  find_nth cst n (map encode (rev (firstn k cs))) i
  = (let '(n', k') := bwd_scan cs (code cst) n k in if Nat.eqb n' 0 then Some (i + Z.of_nat k - 1 - Z.of_nat k') else None).
Proof.
  intro Hs. induction k as [|k IH]; intros n i Hk Hn; (destruct n as [|n]; [lia|]).
  - reflexivity.
  - rewrite rev_firstn_S by lia. cbn [map find_nth bwd_scan]. rewrite (code_encode _ (scalar_nthc cs k Hs ltac:(lia))).
    destruct (nthc cs k =? code cst)%N.
    + replace (S n - 1)%nat with n by lia. destruct n as [|n].
      * destruct k; cbn [bwd_scan Nat.eqb]; f_equal; lia.
      * rewrite (IH (S n) (i + 1) ltac:(lia) ltac:(lia)). destruct (bwd_scan cs (code cst) (S n) k) as [n' k'].
        destruct (Nat.eqb n' 0); [f_equal; lia|reflexivity].
    + rewrite (IH (S n) (i + 1) ltac:(lia) ltac:(lia)). destruct (bwd_scan cs (code cst) (S n) k) as [n' k'].
      destruct (Nat.eqb n' 0); [f_equal; lia|reflexivity].
Qed.
(* where a successful scan ends *)
Lemma fwd_scan_range tc : forall rest n k, (1 <= n)%nat ->
  (fst (fwd_scan tc n rest k) <= n)%nat /\ (snd (fwd_scan tc n rest k) <= S k + length rest)%nat /\
  (fst (fwd_scan tc n rest k) = O -> (S k <= snd (fwd_scan tc n rest k) <= k + length rest)%nat).
Proof.
  induction rest as [|c r IH]; intros n k Hn; (destruct n as [|n]; [lia|]); cbn [fwd_scan].
  - cbn [fst snd length]. split; [lia|]. split; [lia|]. intro; lia.
  - destruct (c =? tc)%N.
    + replace (S n - 1)%nat with n by lia. destruct n as [|n].
      * destruct r; cbn [fwd_scan fst snd length]; repeat split; lia.
      * destruct (IH (S n) (S k) ltac:(lia)) as [A [A2 B]]. cbn [length]. split; [lia|]. split; [lia|]. intro E. specialize (B E). lia.
    + destruct (IH (S n) (S k) ltac:(lia)) as [A [A2 B]]. cbn [length]. split; [lia|]. split; [lia|]. intro E. specialize (B E). lia.
Qed.
Lemma bwd_scan_range cs tc : forall k n, (1 <= n)%nat ->
  (fst (bwd_scan cs tc n k) <= n)%nat /\ (snd (bwd_scan cs tc n k) <= k)%nat /\ (fst (bwd_scan cs tc n k) = O -> (snd (bwd_scan cs tc n k) < k)%nat).
Proof.
  induction k as [|k IH]; intros n Hn; (destruct n as [|n]; [lia|]); cbn [bwd_scan].
  - cbn [fst snd]. split; [lia|]. split; [lia|]. intro; lia.
  - destruct (nthc cs k =? tc)%N.
    + replace (S n - 1)%nat with n by lia. destruct n as [|n].
      * destruct k; cbn [bwd_scan fst snd]; repeat split; lia.
      * destruct (IH (S n) ltac:(lia)) as [A [A2 B]]. split; [lia|]. split; [lia|]. intro E. specialize (B E). lia.
    + destruct (IH (S n) ltac:(lia)) as [A [A2 B]]. split; [lia|]. split; [lia|]. intro E. specialize (B E). lia.
Qed.

Definition fc_rest : stmt :=
  match fn_body cf_lbuf_findchar with SSeq _ (SSeq _ (SSeq _ (SSeq _ (SSeq _ (SSeq _ r))))) => r | _ => SSkip end.
Definition fc_mid : stmt :=
  match fn_body cf_lbuf_findchar with SSeq _ (SSeq _ (SSeq _ r)) => r | _ => SSkip end.
Definition fc_loop : stmt := match fc_rest with SSeq _ (SSeq w _) => w | _ => SSkip end.
Definition fc_fin : stmt := match fc_rest with SSeq _ (SSeq _ r) => r | _ => SSkip end.
Definition fc_end : stmt := match fc_fin with SSeq _ r => r | _ => SSkip end.

Section FindChar.
  Variables (F d : nat) (m : mem) (b bc : nat) (cs : list N) (cst : bytes).
  Let s := chars cs.
  Let bs := length m.
  (* the memory while the scan runs: the caller's memory and, behind it, the cell of the local char *s pointing at character k *)
  Definition fc_mem (k : nat) : mem := m ++ [[VPtr b (Z.of_nat (off_of cs k))]].
  Hypothesis Hcs : Forall scalar cs.
  Hypothesis Hs : str_at m b s.
  Hypothesis Hc : str_at m bc cst.
  Hypothesis Hc256 : bytes_lt256 cst.
  Hypothesis Hclen : (uc_len_b (nthb cst 0) - 1 <= length cst)%nat.
  Hypothesis HF : (length s < F)%nat.

  Let Hnn : nonul s := chars_nonul cs Hcs.
  Let H256 : bytes_lt256 s := nonul_lt256 s Hnn.
  Lemma fc_b_lt : (b < bs)%nat.
  Proof. apply nth_error_Some. unfold str_at in Hs. congruence. Qed.
  Lemma fc_cell k : nth_error (fc_mem k) bs = Some [VPtr b (Z.of_nat (off_of cs k))].
  Proof. apply nth_error_app_new. Qed.
  Lemma fc_load k : load (fc_mem k) bs 0 = Ok (VPtr b (Z.of_nat (off_of cs k))).
  Proof. unfold load. rewrite fc_cell. reflexivity. Qed.

  Lemma nextdir_fwd k : (k < length cs)%nat ->
    callf cprog F (S (S (S d))) F_uc_nextdir [VPtr bs 0; VPtr b 0; VInt 1] (fc_mem k)
    = Ok (VInt (b2z (Nat.eqb (S k) (length cs))), fc_mem (S k)).
  Proof.
    intro Hk. pose proof fc_b_lt as Lb. change (VPtr b 0) with (VPtr b (Z.of_nat 0)).
    rewrite (tr_uc_nextdir (fc_mem k) b bs s 0 (off_of cs k) 1 d F (str_at_app _ _ _ _ Hs) H256 (fc_cell k) ltac:(lia)
               ltac:(pose proof (off_of_le cs k); unfold s; lia) HF).
    unfold nextdir_model. change (1 <? 0) with false. cbv iota. unfold s. rewrite (next_at cs k Hcs Hk).
    rewrite (nthb_off_of_z cs (S k) Hcs ltac:(lia)). unfold fc_mem, bs. rewrite upd_app_new. reflexivity.
  Qed.
  Lemma off_of_pos k : (1 <= k <= length cs)%nat -> (1 <= off_of cs k)%nat.
  Proof.
    intro Hk. pose proof (off_of_mono cs 1 k ltac:(lia)) as Hm. pose proof (off_of_succ cs 0 ltac:(lia)) as E. rewrite off_of_0 in E.
    pose proof (encode_nonempty _ (scalar_nthc cs 0 Hcs ltac:(lia))). lia.
  Qed.
  Lemma nextdir_bwd k : (k <= length cs)%nat ->
    callf cprog F (S (S (S d))) F_uc_nextdir [VPtr bs 0; VPtr b 0; VInt (-1)] (fc_mem k)
    = Ok (VInt (b2z (Nat.eqb k 0)), fc_mem (k - 1)).
  Proof.
    intro Hk. pose proof fc_b_lt as Lb. change (VPtr b 0) with (VPtr b (Z.of_nat 0)).
    rewrite (tr_uc_nextdir (fc_mem k) b bs s 0 (off_of cs k) (-1) d F (str_at_app _ _ _ _ Hs) H256 (fc_cell k) ltac:(lia)
               ltac:(pose proof (off_of_le cs k); unfold s; lia) HF).
    unfold nextdir_model. change (-1 <? 0) with true. cbv iota.
    destruct k as [|k].
    - rewrite off_of_0. cbn [Nat.eqb Nat.sub]. unfold fc_mem, bs. rewrite upd_app_new, off_of_0. reflexivity.
    - pose proof (off_of_pos (S k) ltac:(lia)). destruct (Nat.eqb_spec (off_of cs (S k)) 0); [lia|].
      unfold s. rewrite (prev_at cs k Hcs ltac:(lia)). cbn [Nat.eqb]. replace (S k - 1)%nat with k by lia.
      unfold fc_mem, bs. rewrite upd_app_new. reflexivity.
  Qed.
  (* uc_code(s) == uc_code(cs) with s at character k *)
  Lemma code_s k : (k < length cs)%nat ->
    callf cprog F (S (S (S d))) F_uc_code [VPtr b (Z.of_nat (off_of cs k))] (fc_mem k) = Ok (VInt (Z.of_N (nthc cs k)), fc_mem k).
  Proof.
    intro Hk. destruct (code_at cs k Hcs Hk) as [A B].
    rewrite (tr_uc_code (fc_mem k) b s (off_of cs k) (S (S d)) F (str_at_app _ _ _ _ Hs) H256 A (off_of_le cs k)). unfold s. rewrite B. reflexivity.
  Qed.
  Lemma code_c k : callf cprog F (S (S (S d))) F_uc_code [VPtr bc 0] (fc_mem k) = Ok (VInt (Z.of_N (code cst)), fc_mem k).
  Proof.
    change (VPtr bc 0) with (VPtr bc (Z.of_nat 0)).
    rewrite (tr_uc_code (fc_mem k) bc cst 0 (S (S d)) F (str_at_app _ _ _ _ Hc) Hc256 ltac:(cbn [Nat.add]; exact Hclen) ltac:(lia)). reflexivity.
  Qed.

  Variables (lb br bo : nat) (cmd : Z).
  Definition fc_loc (n : nat) (dir : Z) : list val :=
    [VPtr lb 0; VPtr bc 0; VInt cmd; VInt (Z.of_nat n); VPtr br 0; VPtr bo 0; VPtr b 0; VPtr bs 0; VInt dir].

  Lemma fc_loop_fwd : forall rest k n fuel, skipn (S k) cs = rest -> (k < length cs)%nat -> (length rest < fuel)%nat ->
    Z.of_nat n <= 2147483647 ->
    exec (callf cprog F (S (S (S d)))) fuel fc_loop (mkst (fc_loc n 1) (fc_mem k))
    = let '(n', k') := fwd_scan (code cst) n rest k in ONormal (mkst (fc_loc n' 1) (fc_mem k')).
  Proof.
    induction rest as [|c r IH]; intros k n fuel Hr Hk Hf Hn; (destruct fuel as [|fuel]; [cbn [length] in Hf; lia|]);
      unfold fc_loop, fc_loc; cbn [fc_rest fn_body cf_lbuf_findchar]; rewrite exec_while; xstep.
    - destruct n as [|n]; [reflexivity|]. destruct (Z.ltb_spec 0 (Z.of_nat (S n))); [|lia]. xstep.
      rewrite (nextdir_fwd k Hk). xstep.
      assert (S k = length cs) as E by (apply (f_equal (@length N)) in Hr; rewrite skipn_length in Hr; cbn in Hr; lia).
      rewrite E, Nat.eqb_refl. xstep. rewrite <- E. reflexivity.
    - destruct n as [|n]; [reflexivity|]. destruct (Z.ltb_spec 0 (Z.of_nat (S n))); [|lia]. xstep.
      rewrite (nextdir_fwd k Hk). xstep.
      assert (S k < length cs)%nat as Hk1 by (apply (f_equal (@length N)) in Hr; rewrite skipn_length in Hr; cbn [length] in Hr; lia).
      destruct (Nat.eqb_spec (S k) (length cs)); [lia|]. xstep.
      rewrite (fc_load (S k)). xstep. rewrite (code_s (S k) Hk1). xstep. rewrite (code_c (S k)). xstep.
      rewrite of_N_eqb. assert (nthc cs (S k) = c) as -> by (rewrite (skipn_nthc cs (S k) Hk1) in Hr; congruence).
      assert (Hr' : skipn (S (S k)) cs = r) by (rewrite (skipn_nthc cs (S k) Hk1) in Hr; congruence).
      cbn [fwd_scan length] in Hf |- *.
      destruct (c =? code cst)%N; xstep.
      + rewrite chk_I32 by lia. xstep. replace (Z.of_nat (S n) + -1) with (Z.of_nat (S n - 1)) by lia.
        specialize (IH (S k) (S n - 1)%nat fuel Hr' Hk1 ltac:(lia) ltac:(lia)). unfold fc_loop, fc_loc in IH; cbn [fc_rest fn_body cf_lbuf_findchar] in IH.
        exact IH.
      + specialize (IH (S k) (S n) fuel Hr' Hk1 ltac:(lia) ltac:(lia)). unfold fc_loop, fc_loc in IH; cbn [fc_rest fn_body cf_lbuf_findchar] in IH.
        exact IH.
  Qed.

  Lemma fc_loop_bwd : forall k n fuel, (k <= length cs)%nat -> (k < fuel)%nat -> Z.of_nat n <= 2147483647 ->
    exec (callf cprog F (S (S (S d)))) fuel fc_loop (mkst (fc_loc n (-1)) (fc_mem k))
    = let '(n', k') := bwd_scan cs (code cst) n k in ONormal (mkst (fc_loc n' (-1)) (fc_mem k')).
  Proof.
    induction k as [|k IH]; intros n fuel Hk Hf Hn; (destruct fuel as [|fuel]; [lia|]);
      unfold fc_loop, fc_loc; cbn [fc_rest fn_body cf_lbuf_findchar]; rewrite exec_while; xstep.
    - destruct n as [|n]; [reflexivity|]. destruct (Z.ltb_spec 0 (Z.of_nat (S n))); [|lia]. xstep.
      rewrite (nextdir_bwd 0 Hk). xstep. reflexivity.
    - destruct n as [|n]; [reflexivity|]. destruct (Z.ltb_spec 0 (Z.of_nat (S n))); [|lia]. xstep.
      rewrite (nextdir_bwd (S k) Hk). xstep. replace (S k - 1)%nat with k by lia.
      rewrite (fc_load k). xstep. rewrite (code_s k ltac:(lia)). xstep. rewrite (code_c k). xstep.
      rewrite of_N_eqb. cbn [bwd_scan].
      destruct (nthc cs k =? code cst)%N; xstep.
      + rewrite chk_I32 by lia. xstep. replace (Z.of_nat (S n) + -1) with (Z.of_nat (S n - 1)) by lia.
        specialize (IH (S n - 1)%nat fuel ltac:(lia) ltac:(lia) ltac:(lia)). unfold fc_loop, fc_loc in IH; cbn [fc_rest fn_body cf_lbuf_findchar] in IH.
        exact IH.
      + specialize (IH (S n) fuel ltac:(lia) ltac:(lia) ltac:(lia)). unfold fc_loop, fc_loc in IH; cbn [fc_rest fn_body cf_lbuf_findchar] in IH.
        exact IH.
  Qed.

  (* t / T: one character back towards the start of the scan *)
  Definition fc_adjust (dir : Z) (k : nat) : nat :=
    if (cmd =? 116) || (cmd =? 84) then (if 0 <? dir then (k - 1)%nat else S k) else k.
  Variable o : Z.
  Hypothesis Ho : cell_at m bo o.
  Hypothesis Hsmall : Z.of_nat (length s) <= 2147483647.
  Lemma fc_fin_ok n k dir fuel : dir_ok dir -> (k <= length cs)%nat ->
    (n = O -> if 0 <? dir then (1 <= k)%nat else (k < length cs)%nat) ->
    exec (callf cprog F (S (S (S d)))) fuel fc_fin (mkst (fc_loc n dir) (fc_mem k))
    = if Nat.eqb n 0
      then OReturn (VInt 0) (mkst (fc_loc 0 dir) (upd m bo [VInt (Z.of_nat (fc_adjust dir k))] ++ [[VPtr b (Z.of_nat (off_of cs (fc_adjust dir k)))]]))
      else OReturn (VInt 1) (mkst (fc_loc n dir) (fc_mem k)).
  Proof.
    intros Hd Hk Hrange. unfold fc_fin, fc_loc; cbn [fc_rest fn_body cf_lbuf_findchar].
    destruct n as [|n]; cbn [Nat.eqb].
    2:{ xstep. destruct (Z.eqb_spec (Z.of_nat (S n)) 0); [lia|]. cbn [negb b2z]. xstep.
        destruct (Z.eqb_spec (Z.of_nat (S n)) 0); [lia|]. cbn [negb b2z]. xstep.
        destruct (Z.eqb_spec (Z.of_nat (S n)) 0); [lia|]. reflexivity. }
    specialize (Hrange eq_refl). change (Z.of_nat 0) with 0.
    (* the store of uc_off(ln, s - ln) and the return, with s at character kf *)
    assert (Hend : forall kf, (kf <= length cs)%nat ->
      exec (callf cprog F (S (S (S d)))) fuel fc_end
        (mkst [VPtr lb 0; VPtr bc 0; VInt cmd; VInt 0; VPtr br 0; VPtr bo 0; VPtr b 0; VPtr bs 0; VInt dir] (fc_mem kf))
      = OReturn (VInt 0) (mkst [VPtr lb 0; VPtr bc 0; VInt cmd; VInt 0; VPtr br 0; VPtr bo 0; VPtr b 0; VPtr bs 0; VInt dir]
                               (upd m bo [VInt (Z.of_nat kf)] ++ [[VPtr b (Z.of_nat (off_of cs kf))]]))).
    { intros kf Hkf. unfold fc_end, fc_fin; cbn [fc_rest fn_body cf_lbuf_findchar]. xstep. rewrite (fc_load kf). xstep. rewrite Nat.eqb_refl. xstep.
      rewrite Z.sub_0_r, Z.quot_1_r. pose proof (off_of_le cs kf) as Hle. fold s in Hle. rewrite wrap_I32_id by lia.
      change (VPtr b 0) with (VPtr b (Z.of_nat 0)).
      rewrite (tr_uc_off (fc_mem kf) b s 0 (off_of cs kf) d F (str_at_app _ _ _ _ Hs) Hnn ltac:(lia) HF Hsmall ltac:(lia)). xstep.
      cbn [skipn]. unfold s. rewrite (uc_off_chars cs kf Hcs Hkf).
      pose proof (length_cs_le_chars cs Hcs) as Hlc. fold s in Hlc. rewrite wrap_I32_id by lia.
      rewrite (store_cell (fc_mem kf) bo o _ (cell_at_app _ _ _ _ Ho)). xstep.
      unfold fc_mem. rewrite upd_app_old by (apply (cell_lt _ _ _ Ho)). reflexivity. }
    (let t := eval cbv [fc_end fc_fin fc_rest fn_body cf_lbuf_findchar] in fc_end in change t with fc_end).
    remember fc_end as tl eqn:Etl. unfold fc_adjust. xstep.
    destruct (Z.eqb_spec cmd 116) as [E1|E1]; xstep.
    - cbn [orb]. destruct Hd as [-> | ->].
      + change (0 <? 1) with true in *. cbv iota in *. xstep. rewrite chk_I32 by lia. xstep. change (- (1)) with (-1). rewrite (nextdir_bwd k Hk). xstep. apply Hend. lia.
      + change (0 <? -1) with false in *. cbv iota in *. xstep. rewrite chk_I32 by lia. xstep. change (- -1) with 1. rewrite (nextdir_fwd k Hrange). xstep. apply Hend. lia.
    - destruct (Z.eqb_spec cmd 84) as [E2|E2]; xstep.
      + cbn [orb]. destruct Hd as [-> | ->].
        * change (0 <? 1) with true in *. cbv iota in *. xstep. rewrite chk_I32 by lia. xstep. change (- (1)) with (-1). rewrite (nextdir_bwd k Hk). xstep. apply Hend. lia.
        * change (0 <? -1) with false in *. cbv iota in *. xstep. rewrite chk_I32 by lia. xstep. change (- -1) with 1. rewrite (nextdir_fwd k Hrange). xstep. apply Hend. lia.
      + cbn [orb]. apply Hend. exact Hk.
  Qed.

  (* from "s = uc_chr(ln, *off)" to the end, the cursor on character k0 of the line *)
  Definition fc_scan (dir : Z) (n k0 : nat) : nat * nat :=
    if 0 <? dir then fwd_scan (code cst) n (skipn (S k0) cs) k0 else bwd_scan cs (code cst) n k0.
  Lemma fc_rest_ok n k0 dir fuel : dir_ok dir -> (1 <= n)%nat -> Z.of_nat n <= 2147483647 -> (k0 < length cs)%nat -> o = Z.of_nat k0 ->
    (length s < fuel)%nat ->
    exec (callf cprog F (S (S (S d)))) fuel fc_rest (mkst (fc_loc n dir) (m ++ [[VUndef]]))
    = let '(n', k') := fc_scan dir n k0 in
      if Nat.eqb n' 0
      then OReturn (VInt 0) (mkst (fc_loc 0 dir) (upd m bo [VInt (Z.of_nat (fc_adjust dir k'))] ++ [[VPtr b (Z.of_nat (off_of cs (fc_adjust dir k')))]]))
      else OReturn (VInt 1) (mkst (fc_loc n' dir) (fc_mem k')).
  Proof.
    intros Hd Hn Hn2 Hk0 Eo Hf. pose proof (length_cs_le_chars cs Hcs) as Hlc. fold s in Hlc.
    unfold fc_rest; cbn [fn_body cf_lbuf_findchar].
    (let t := eval cbv [fc_loop fc_rest fn_body cf_lbuf_findchar] in fc_loop in change t with fc_loop).
    (let t := eval cbv [fc_fin fc_rest fn_body cf_lbuf_findchar] in fc_fin in change t with fc_fin).
    remember fc_loop as lp eqn:Elp. remember fc_fin as fn eqn:Efn. unfold fc_loc.
    xstep. rewrite (load_cell _ bo o (cell_at_app _ _ _ _ Ho)). xstep. rewrite wrap_I32_id by lia.
    change (VPtr b 0) with (VPtr b (Z.of_nat 0)).
    rewrite (tr_uc_chr (m ++ [[VUndef]]) b s 0 o d F (str_at_app _ _ _ _ Hs) Hnn ltac:(lia) HF Hsmall). xstep.
    cbn [skipn]. rewrite Eo. unfold s. rewrite (uc_chr_chars cs k0 Hcs ltac:(lia)). cbn [option_map chr_val Nat.add]. xstep. change (Z.of_nat 0) with 0.
    rewrite (store_ok (m ++ [[VUndef]]) bs [VUndef] 0 _ (nth_error_app_new m [VUndef])) by (cbn; lia). xstep.
    change (upd [VUndef] (Z.to_nat 0) (VPtr b (Z.of_nat (off_of cs k0)))) with [VPtr b (Z.of_nat (off_of cs k0))].
    unfold bs. rewrite upd_app_new. fold bs. fold (fc_mem k0). subst lp.
    change (mkst [VPtr lb 0; VPtr bc 0; VInt cmd; VInt (Z.of_nat n); VPtr br 0; VPtr bo 0; VPtr b 0; VPtr bs 0; VInt dir] (m ++ [[VPtr b (Z.of_nat (off_of cs k0))]]))
      with (mkst (fc_loc n dir) (fc_mem k0)).
    unfold fc_scan. destruct Hd as [-> | ->].
    - change (0 <? 1) with true. cbv iota.
      pose proof (fwd_scan_range (code cst) (skipn (S k0) cs) n k0 Hn) as [Hr1 [Hr3 Hr2]].
      rewrite (fc_loop_fwd (skipn (S k0) cs) k0 n fuel eq_refl Hk0 ltac:(rewrite skipn_length; lia) Hn2).
      destruct (fwd_scan (code cst) n (skipn (S k0) cs) k0) as [n' k']. cbn [fst snd] in *. subst fn.
      rewrite skipn_length in Hr2, Hr3.
      apply fc_fin_ok; [left; reflexivity|lia|].
      + intro E. change (0 <? 1) with true. cbv iota. specialize (Hr2 E). lia.
    - change (0 <? -1) with false. cbv iota.
      pose proof (bwd_scan_range cs (code cst) k0 n Hn) as [Hr1 [Hr3 Hr2]].
      rewrite (fc_loop_bwd k0 n fuel ltac:(lia) ltac:(lia) Hn2).
      destruct (bwd_scan cs (code cst) n k0) as [n' k']. cbn [fst snd] in *. subst fn.
      apply fc_fin_ok; [right; reflexivity|lia|].
      + intro E. change (0 <? -1) with false. cbv iota. specialize (Hr2 E). lia.
  Qed.
End FindChar.

Definition lines_valid (lines : list bytes) : Prop := Forall valid lines.
Lemma nthl_valid lines i : lines_valid lines -> (i < length lines)%nat -> valid (nthl lines i).
Proof. intros H Hi. unfold lines_valid in H. rewrite Forall_forall in H. apply H. apply nth_In. exact Hi. Qed.

(* lbuf_findchar(lb, cs, cmd, n, row, off): for every buffer in memory whose lines are valid UTF-8, every cursor on a character
   of its line, every command letter and every count n <> 0 inside int (n < 0: the direction reversed, as `,` passes it):
   returns 0 and stores the model's landing offset in *off, or returns 1 and stores nothing; the local `char *s` stays behind
   as one fresh block at the end of memory *)
Theorem tr_lbuf_findchar m lb bln lbs lines br bo bc cst (cmdN : N) n r o d fuel :
  lbuf_at m lb bln lbs lines -> lines_small lines -> lines_valid lines ->
  cell_at m br r -> cell_at m bo o -> i32 r -> i32 o ->
  str_at m bc cst -> bytes_lt256 cst -> (uc_len_b (nthb cst 0) - 1 <= length cst)%nat ->
  Z.of_N cmdN <= 2147483647 -> -2147483647 <= n <= 2147483647 -> n <> 0 ->
  (forall l, getl (map chop lines) r = Some l -> 0 <= o < slen l) ->
  (maxlen lines < fuel)%nat ->
  exists sv,
  callf cprog fuel (S (S (S (S d)))) F_lbuf_findchar [VPtr lb 0; VPtr bc 0; VInt (Z.of_N cmdN); VInt n; VPtr br 0; VPtr bo 0] m
  = match lbuf_findchar (map chop lines) cst cmdN n r o with
    | Some o' => Ok (VInt 0, upd m bo [VInt o'] ++ [[sv]])
    | None => Ok (VInt 1, m ++ [[sv]])
    end.
Proof.
  intros R Hsm Hval Hr Ho Ir Io Hc Hc256 Hclen Hcmd Hn Hn0 Hcur Hf.
  unfold lbuf_findchar. rewrite getl_rowidx in *.
  destruct (rowidx lines r) as [i|] eqn:Ei; cbn [option_map] in *.
  2:{ exists VUndef. enter F_lbuf_findchar cf_lbuf_findchar. xstep.
      rewrite (load_cell m br r Hr). xstep. rewrite wrap_I32_id by exact Ir.
      rewrite (tr_lbuf_get m lb bln lbs lines r (S (S d)) fuel R Hsm). unfold line_ptr. rewrite Ei. xstep.
      rewrite malloc_ok by lia. xstep. change (repeat VUndef (Z.to_nat 1)) with [VUndef].
      destruct (Z.of_N cmdN =? 102); xstep; [reflexivity|]. destruct (Z.of_N cmdN =? 116); xstep; [reflexivity|].
      rewrite chk_I32 by lia. xstep. reflexivity. }
  destruct (rowidx_lt _ _ _ Ei) as [Hi Er].
  destruct (nthl_valid lines i Hval Hi) as (cs & Hcs & Es).
  pose proof (la_str _ _ _ _ _ R i Hi) as Hs. rewrite Es in Hs.
  pose proof (maxlen_ge lines i) as Hml. pose proof (nthl_small lines i Hsm) as Hsmall. rewrite Es in Hml, Hsmall.
  specialize (Hcur _ eq_refl). rewrite Es, (chop_chars cs Hcs) in Hcur |- *. unfold slen in Hcur. rewrite map_length in Hcur.
  set (b := nth i lbs O) in *. set (k0 := Z.to_nat o).
  assert (Eo : o = Z.of_nat k0) by (unfold k0; lia). assert (Hk0 : (k0 < length cs)%nat) by lia.
  set (dir0 := if is_ft cmdN then 1 else -1). set (dir := if n <? 0 then - dir0 else dir0).
  set (nn := Z.to_nat (Z.abs n)).
  assert (Hd : dir_ok dir) by (unfold dir, dir0; destruct (is_ft cmdN), (n <? 0); [right|left|left|right]; reflexivity).
  assert (Hnn1 : (1 <= nn)%nat) by (unfold nn; lia). assert (Hnn2 : Z.of_nat nn <= 2147483647) by (unfold nn; lia).
  destruct (Z.eqb_spec (Z.abs n) 0) as [E0|_]; [lia|].
  (* the rest of the function against the model, for the direction dir *)
  pose proof (fc_rest_ok fuel d m b bc cs cst Hcs Hs Hc Hc256 Hclen ltac:(lia) lb br bo (Z.of_N cmdN) o Ho Hsmall
                nn k0 dir fuel Hd Hnn1 Hnn2 Hk0 Eo ltac:(lia)) as Hrest.
  assert (Hmodel : exists sv,
    match exec (callf cprog fuel (S (S (S d)))) fuel fc_rest (mkst (fc_loc m b bc lb br bo (Z.of_N cmdN) nn dir) (m ++ [[VUndef]])) with
    | OReturn v st => Ok (v, memm st) | ONormal st => Ok (VUndef, memm st) | OErr x => Err x | _ => Err EShape end
    = match (if 0 <? dir
             then match find_nth cst nn (skipn (Z.to_nat (o + 1)) (map encode cs)) 0 with
                  | Some k => Some (if is_tT cmdN then o + 1 + k - 1 else o + 1 + k) | None => None end
             else match find_nth cst nn (rev (firstn (Z.to_nat o) (map encode cs))) 0 with
                  | Some k => Some (if is_tT cmdN then o - 1 - k + 1 else o - 1 - k) | None => None end) with
      | Some o' => Ok (VInt 0, upd m bo [VInt o'] ++ [[sv]])
      | None => Ok (VInt 1, m ++ [[sv]])
      end).
  { rewrite Hrest. unfold fc_scan, fc_adjust.
    assert (EtT : (Z.of_N cmdN =? 116) || (Z.of_N cmdN =? 84) = is_tT cmdN)
      by (unfold is_tT; change 116 with (Z.of_N 116); change 84 with (Z.of_N 84); rewrite !of_N_eqb; reflexivity).
    rewrite EtT. destruct Hd as [Ed | Ed]; rewrite Ed.
    - change (0 <? 1) with true. cbv iota.
      replace (Z.to_nat (o + 1)) with (S k0) by lia. rewrite skipn_map.
      rewrite (fwd_find cst (skipn (S k0) cs) nn k0 0 (Forall_skipn'' _ _ _ Hcs) Hnn1).
      pose proof (fwd_scan_range (code cst) (skipn (S k0) cs) nn k0 Hnn1) as [_ [_ Hr2]].
      destruct (fwd_scan (code cst) nn (skipn (S k0) cs) k0) as [n' k']. cbn [fst snd] in Hr2.
      destruct (Nat.eqb_spec n' 0) as [En|En]; [|eexists; reflexivity]. specialize (Hr2 En).
      cbn [memm]. destruct (is_tT cmdN).
      + replace (o + 1 + (0 + Z.of_nat k' - Z.of_nat (S k0)) - 1) with (Z.of_nat (k' - 1)) by lia. eexists; reflexivity.
      + replace (o + 1 + (0 + Z.of_nat k' - Z.of_nat (S k0))) with (Z.of_nat k') by lia. eexists; reflexivity.
    - change (0 <? -1) with false. cbv iota.
      replace (Z.to_nat o) with k0 by reflexivity. rewrite firstn_map, <- map_rev.
      rewrite (bwd_find cst cs Hcs k0 nn 0 ltac:(lia) Hnn1).
      pose proof (bwd_scan_range cs (code cst) k0 nn Hnn1) as [_ [_ Hr2]].
      destruct (bwd_scan cs (code cst) nn k0) as [n' k']. cbn [fst snd] in Hr2.
      destruct (Nat.eqb_spec n' 0) as [En|En]; [|eexists; reflexivity]. specialize (Hr2 En).
      cbn [memm]. destruct (is_tT cmdN).
      + replace (o - 1 - (0 + Z.of_nat k0 - 1 - Z.of_nat k') + 1) with (Z.of_nat (S k')) by lia. eexists; reflexivity.
      + replace (o - 1 - (0 + Z.of_nat k0 - 1 - Z.of_nat k')) with (Z.of_nat k') by lia. eexists; reflexivity. }
  destruct Hmodel as [sv Hmodel]. exists sv. etransitivity; [|exact Hmodel]. clear Hmodel Hrest.
  assert (Hgo : forall v8, v8 = VInt dir0 ->
    match exec (callf cprog fuel (S (S (S d)))) fuel fc_mid
             (mkst [VPtr lb 0; VPtr bc 0; VInt (Z.of_N cmdN); VInt n; VPtr br 0; VPtr bo 0; VPtr b 0; VPtr (length m) 0; v8] (m ++ [[VUndef]])) with
    | OReturn v st => Ok (v, memm st) | ONormal st => Ok (VUndef, memm st) | OErr x => Err x | _ => Err EShape end
    = match exec (callf cprog fuel (S (S (S d)))) fuel fc_rest
              (mkst [VPtr lb 0; VPtr bc 0; VInt (Z.of_N cmdN); VInt (Z.of_nat nn); VPtr br 0; VPtr bo 0; VPtr b 0; VPtr (length m) 0; VInt dir] (m ++ [[VUndef]])) with
      | OReturn v st => Ok (v, memm st) | ONormal st => Ok (VUndef, memm st) | OErr x => Err x | _ => Err EShape end).
  { intros v8 ->. unfold fc_mid; cbn [fn_body cf_lbuf_findchar].
    (let t := eval cbv [fc_rest fn_body cf_lbuf_findchar] in fc_rest in change t with fc_rest).
    remember fc_rest as tl eqn:Etl. xstep. unfold dir, nn. destruct (Z.ltb_spec n 0) as [Ln|Ln]; xstep.
    - rewrite chk_I32 by (unfold dir0; destruct (is_ft cmdN); lia). xstep. destruct (Z.ltb_spec n 0); [|lia]. xstep. rewrite chk_I32 by lia. xstep.
      replace (Z.of_nat (Z.to_nat (Z.abs n))) with (- n) by lia. reflexivity.
    - destruct (Z.ltb_spec n 0); [lia|]. xstep. replace (Z.of_nat (Z.to_nat (Z.abs n))) with n by lia. reflexivity. }
  enter F_lbuf_findchar cf_lbuf_findchar.
  (let t := eval cbv [fc_mid fn_body cf_lbuf_findchar] in fc_mid in change t with fc_mid).
  remember fc_mid as md eqn:Emd. xstep.
  rewrite (load_cell m br r Hr). xstep. rewrite wrap_I32_id by exact Ir.
  rewrite (tr_lbuf_get m lb bln lbs lines r (S (S d)) fuel R Hsm). unfold line_ptr. rewrite Ei. xstep. fold b.
  rewrite malloc_ok by lia. xstep. change (repeat VUndef (Z.to_nat 1)) with [VUndef].
  assert (Eft : (Z.of_N cmdN =? 102) || (Z.of_N cmdN =? 116) = is_ft cmdN)
    by (unfold is_ft; change 102 with (Z.of_N 102); change 116 with (Z.of_N 116); rewrite !of_N_eqb; reflexivity).
  unfold fc_loc. unfold dir0 in Hgo. rewrite <- Eft in Hgo. subst md.
  destruct (Z.of_N cmdN =? 102); xstep; [cbn [orb] in Hgo; apply Hgo; reflexivity|].
  destruct (Z.of_N cmdN =? 116); xstep; [cbn [orb] in Hgo; apply Hgo; reflexivity|].
  rewrite chk_I32 by lia. xstep. cbn [orb] in Hgo. apply Hgo. reflexivity.
Qed.
