(* Extract_term.v -- extraction of the terminal emulator (TermEmu.v) and of the executable draw
   model (DrawDefs.v) to OCaml (ExtrOcamlBasic only). *)
From Coq Require Import List NArith ZArith Extraction ExtrOcamlBasic.
From NV Require Import Bytes TermEmu DrawDefs.
Definition all_types : nat * N * Z := (0%nat, 0%N, 0%Z).
Extraction "term_model.ml" all_types term_new feed run interp cp_wid wfix fix_left term_col drawupdate drawfix win.
