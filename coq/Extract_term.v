(* Extract_term.v -- extraction of the terminal emulator (TermEmu.v) and of the executable draw
   model (DrawDefs.v, DrawPutDefs.v) and of the output side of term.c (TermOutDefs.v) to OCaml (ExtrOcamlBasic only). *)
From Coq Require Import List NArith ZArith Extraction ExtrOcamlBasic.
From NV Require Import Bytes TermEmu DrawDefs DrawPutDefs TermOutDefs DrawDirDefs DrawSplitDefs DrawCurDefs.
Definition all_types : nat * N * Z := (0%nat, 0%N, 0%Z).
Extraction "term_model.ml" all_types term_new feed run interp cp_wid wfix fix_left term_col drawupdate drawfix win
  vi_linecount count_nl text_lines vc_put_chars vc_put_lines put_screen
  term_window_out term_done term_init term_init_cached reinit_out region_agrees nextline_bottom_out
  dir_context led_pos vi_pos line_dir render_row led_prompt led_prompt_early prompts geom colon_repaints write_to_command tail_after_wait wswap_tail
  pos_prev pos_next ren_off ren_noeol col2off ren_cursor cursor_pos cursor_pos_xcol init_left.
