(* ReProps.v -- the backtracking machine returns the lexicographically first successful choice
   path when no depth cut happened; the emitter is sound and complete for the set semantics
   (block structure, runs confined to a block, counted repetition through the normal form).
   Ported from the design-round prototype (DESIGN.md Appendix E.1) to the model of ReVM.v: atoms
   may report an out-of-bounds read (outcome OobO), depth cuts are counted. *)
From Coq Require Import List Arith Lia Bool ZArith NArith ZifyN ZifyBool ZifyNat.
From NV Require Import Bytes GenConsts ReSyntax ReParse ReEmit ReVM ReSem.
Import ListNotations.

Lemma pow_length e n : (forall b, length (e b) = n) -> forall k b, length (pow e n k b) = k * n.
Proof. intros H k; induction k; intro b; cbn [pow]; [reflexivity|]. rewrite app_length, H, IHk. lia. Qed.
Lemma opt_length e n : (forall b, length (e b) = n) -> forall j b, length (opt e n j b) = j * (1 + n).
Proof. intros H j; induction j; intro b; cbn [opt]; [reflexivity|]. rewrite !app_length, H, IHj. cbn [length]. lia. Qed.
Lemma emit_len r : forall b, length (emit r b) = len r.
Proof.
  induction r; intro b; cbn [emit len];
    try (rewrite ?app_length; cbn [length]; rewrite ?app_length, ?IHr1, ?IHr2, ?IHr; cbn [length]; lia).
  - apply pow_length. exact IHr.
  - apply opt_length. exact IHr.
Qed.

Lemma emit_len_pow k x : len (RPow k x) = k * len x. Proof. reflexivity. Qed.


Section Code.
Variable P : list instr.
Notation fetch := (ReVM.fetch P).
Notation code_at := (ReSem.code_at P).
Notation closed := (ReSem.closed P).
Lemma code_at_app b l1 l2 : code_at b (l1 ++ l2) <-> code_at b l1 /\ code_at (b + length l1) l2.
Proof.
  unfold code_at. split.
  - intro H. split; intros k Hk.
    + rewrite H by (rewrite app_length; lia). rewrite app_nth1 by lia. reflexivity.
    + replace (b + length l1 + k) with (b + (length l1 + k)) by lia. rewrite H by (rewrite app_length; lia).
      rewrite app_nth2 by lia. f_equal. lia.
  - intros [H1 H2] k Hk. rewrite app_length in Hk. destruct (lt_dec k (length l1)).
    + rewrite app_nth1 by lia. auto.
    + rewrite app_nth2 by lia. replace (b + k) with (b + length l1 + (k - length l1)) by lia. apply H2. lia.
Qed.

Lemma code_at_one b i : code_at b [i] <-> fetch b = i.
Proof.
  unfold code_at. split.
  - intro H. specialize (H 0). cbn in H. rewrite Nat.add_0_r in H. apply H. lia.
  - intros H k Hk. cbn in Hk. assert (k = 0) by lia. subst k. rewrite Nat.add_0_r. exact H.
Qed.

Lemma closed_app lo mid hi : closed lo mid -> closed mid hi -> lo <= mid <= hi -> closed lo hi.
Proof.
  intros C1 C2 Hm pc Hpc. destruct (lt_dec pc mid).
  - specialize (C1 pc ltac:(lia)). destruct (fetch pc); auto; lia.
  - specialize (C2 pc ltac:(lia)). destruct (fetch pc); auto; lia.
Qed.

Lemma closed_one pc i : fetch pc = i -> match i with IJump t => pc <= t <= pc + 1 | IFork a1 a2 => pc <= a1 <= pc + 1 /\ pc <= a2 <= pc + 1 | IMatch => False | _ => True end -> closed pc (pc + 1).
Proof. intros F H q Hq. assert (q = pc) by lia. subst q. rewrite F. exact H. Qed.

Lemma closed_widen lo hi lo' hi' : closed lo hi -> lo' <= lo -> hi <= hi' -> forall pc, lo <= pc < hi ->
  match fetch pc with IJump t => lo' <= t <= hi' | IFork a1 a2 => lo' <= a1 <= hi' /\ lo' <= a2 <= hi' | IMatch => False | _ => True end.
Proof. intros C H1 H2 pc Hpc. specialize (C pc Hpc). destruct (fetch pc); auto; lia. Qed.

Lemma emit_closed r : forall b, code_at b (emit r b) -> closed b (b + len r).
Proof.
  induction r; intros b C; cbn [emit len] in *.
  - apply code_at_one in C. intros q Hq. assert (q = b) by lia. subst. rewrite C. exact I.
  - apply code_at_app in C. destruct C as [C1 C2]. rewrite emit_len in C2.
    replace (b + (len r1 + len r2)) with (b + len r1 + len r2) by lia.
    eapply closed_app; [apply IHr1; eauto | apply IHr2; eauto | lia].
  - apply code_at_app in C. destruct C as [C0 C]. apply code_at_one in C0. cbn [length] in C.
    apply code_at_app in C. destruct C as [C1 C]. rewrite emit_len in C.
    apply code_at_app in C. destruct C as [CJ C2]. apply code_at_one in CJ. cbn [length] in C2.
    replace (b + 1 + len r1 + 1) with (b + 2 + len r1) in C2 by lia.
    pose proof (IHr1 _ C1) as K1. pose proof (IHr2 _ C2) as K2.
    intros q Hq.
    destruct (Nat.eq_dec q b) as [->|]. { rewrite C0. lia. }
    destruct (lt_dec q (b + 1 + len r1)). { pose proof (closed_widen _ _ b (b + (len r1 + len r2 + 2)) K1 ltac:(lia) ltac:(lia) q ltac:(lia)). exact H. }
    destruct (Nat.eq_dec q (b + 1 + len r1)) as [->|]. { rewrite CJ. lia. }
    pose proof (closed_widen _ _ b (b + (len r1 + len r2 + 2)) K2 ltac:(lia) ltac:(lia) q ltac:(lia)). exact H.
  - apply code_at_app in C. destruct C as [C0 C]. apply code_at_one in C0. cbn [length] in C.
    apply code_at_app in C. destruct C as [C1 CF]. rewrite emit_len in CF. apply code_at_one in CF.
    pose proof (IHr _ C1) as K1. intros q Hq.
    destruct (Nat.eq_dec q b) as [->|]. { rewrite C0. lia. }
    destruct (lt_dec q (b + 1 + len r)). { pose proof (closed_widen _ _ b (b + (len r + 2)) K1 ltac:(lia) ltac:(lia) q ltac:(lia)). exact H. }
    assert (q = b + 1 + len r) by lia. subst q. rewrite CF. lia.
  - apply code_at_app in C. destruct C as [C0 C]. apply code_at_one in C0. cbn [length] in C.
    apply code_at_app in C. destruct C as [C1 CM]. rewrite emit_len in CM. apply code_at_one in CM.
    pose proof (IHr _ C1) as K1. intros q Hq.
    destruct (Nat.eq_dec q b) as [->|]. { rewrite C0. exact I. }
    destruct (lt_dec q (b + 1 + len r)). { pose proof (closed_widen _ _ b (b + (len r + 2)) K1 ltac:(lia) ltac:(lia) q ltac:(lia)). exact H. }
    assert (q = b + 1 + len r) by lia. subst q. rewrite CM. exact I.
  - (* pow *) revert b C. induction k as [|k IHk]; intros b C.
    + intros q Hq. lia.
    + cbn [pow] in C. apply code_at_app in C. destruct C as [C1 C2]. rewrite emit_len in C2.
      replace (b + S k * len r) with (b + len r + k * len r) by lia.
      eapply closed_app; [apply IHr; eauto | apply IHk; eauto | lia].
  - (* plus *) apply code_at_app in C. destruct C as [C1 CF]. rewrite emit_len in CF. apply code_at_one in CF.
    pose proof (IHr _ C1) as K1. intros q Hq.
    destruct (lt_dec q (b + len r)). { pose proof (closed_widen _ _ b (b + (len r + 1)) K1 ltac:(lia) ltac:(lia) q ltac:(lia)). exact H. }
    assert (q = b + len r) by lia. subst q. rewrite CF. lia.
  - (* opt *) revert b C. induction j as [|j IHj]; intros b C.
    + intros q Hq. lia.
    + cbn [opt] in C. apply code_at_app in C. destruct C as [C0 C]. apply code_at_one in C0. cbn [length] in C.
      apply code_at_app in C. destruct C as [C1 C2]. rewrite emit_len in C2.
      pose proof (IHr _ C1) as K1. pose proof (IHj _ C2) as K2. intros q Hq.
      destruct (Nat.eq_dec q b) as [->|]. { rewrite C0. lia. }
      destruct (lt_dec q (b + 1 + len r)). { pose proof (closed_widen _ _ b (b + S j * (1 + len r)) K1 ltac:(lia) ltac:(lia) q ltac:(lia)). exact H. }
      pose proof (closed_widen _ _ b (b + S j * (1 + len r)) K2 ltac:(lia) ltac:(lia) q ltac:(lia)). exact H.
Qed.

End Code.

Section VM.
Variable St : Type.
Variable atom_step : atom -> St -> res (option St).
Variable mark_step : nat -> St -> St.
Variable P : list instr.
Notation fetch := (ReVM.fetch P).
Notation path := (ReVM.path St atom_step mark_step P).
Notation loopF := (ReVM.loopF St atom_step mark_step P).
Notation rec := (ReVM.rec St atom_step mark_step P).
Notation run := (ReSem.run St atom_step mark_step P).
Notation rin := (ReSem.rin St atom_step mark_step P).
Notation M := (ReSem.M St atom_step mark_step).
Notation code_at := (ReSem.code_at P).
Notation closed := (ReSem.closed P).
Notation out := (ReVM.out St).

Definition loop (d' : nat) := loopF (rec d').
Lemma rec_unfold d' pc s : rec (S d') pc s = loop d' (S (length P)) pc s.
Proof. reflexivity. Qed.

(* SOUNDNESS: whatever the machine finds is a genuine path (cuts or not) *)
Lemma loop_sound d' (IHd : forall pc s cs r c, rec d' pc s = (Found cs r, c) -> path pc s cs r) :
  forall k pc s cs r c, loop d' k pc s = (Found cs r, c) -> path pc s cs r.
Proof.
  induction k as [|k IH]; intros pc s cs r c H; unfold loop in H; cbn [ReVM.loopF] in H; fold (loop d') in H; [discriminate|].
  destruct (fetch pc) eqn:F.
  - destruct (atom_step a s) as [[s1|]| |] eqn:E; try discriminate. eapply p_atom; eauto.
  - eapply p_mark; eauto.
  - eapply p_jump; eauto.
  - destruct (rec d' a1 s) as [[cs1 r1| | |w1] c1] eqn:R.
    + inversion H; subst. eapply p_left; eauto.
    + destruct (loop d' k a2 s) as [[cs2 r2| | |w2] c2] eqn:L; inversion H; subst. eapply p_right; eauto.
    + discriminate.
    + discriminate.
  - inversion H; subst. apply p_match; assumption.
Qed.

Theorem rec_sound : forall d pc s cs r c, rec d pc s = (Found cs r, c) -> path pc s cs r.
Proof.
  induction d as [|d IH]; intros pc s cs r c H.
  - cbn in H. discriminate.
  - rewrite rec_unfold in H. eapply loop_sound; eauto.
Qed.

(* FIRSTNESS / COMPLETENESS when nothing was cut (the cut counter is 0) *)
Definition first_spec (pc : nat) (s : St) (o : out) : Prop :=
  match o with
  | Found cs r => path pc s cs r /\ forall cs' r', path pc s cs' r' -> lexle cs cs'
  | Fail => forall cs' r', ~ path pc s cs' r'
  | Abort => True
  | OobO _ => True
  end.

Lemma lexle_refl l : lexle l l.
Proof. induction l; constructor; assumption. Qed.

Lemma loop_first d' (IHd : forall pc s o, rec d' pc s = (o, 0%N) -> first_spec pc s o) :
  forall k pc s o, loop d' k pc s = (o, 0%N) -> first_spec pc s o.
Proof.
  induction k as [|k IH]; intros pc s o H; unfold loop in H; cbn [ReVM.loopF] in H; fold (loop d') in H; [discriminate|].
  destruct (fetch pc) eqn:F.
  - destruct (atom_step a s) as [[s1|]| |] eqn:E.
    + apply IH in H. destruct o as [cs r| | |w]; cbn in *; auto.
      * destruct H as [H1 H2]. split; [eapply p_atom; eauto|].
        intros cs' r' Hp. inversion Hp; subst; try congruence.
        rewrite F in H. inversion H; subst. rewrite E in H0. inversion H0; subst. eauto.
      * intros cs' r' Hp. inversion Hp; subst; try congruence.
        rewrite F in H0. inversion H0; subst. rewrite E in H1. inversion H1; subst. eapply H; eauto.
    + inversion H; subst. cbn. intros cs' r' Hp. inversion Hp; subst; try congruence.
    + inversion H; subst. exact I.
    + discriminate.
  - apply IH in H. destruct o as [cs r| | |w]; cbn in *; auto.
    + destruct H as [H1 H2]. split; [eapply p_mark; eauto|].
      intros cs' r' Hp. inversion Hp; subst; try congruence. rewrite F in H. inversion H; subst. eauto.
    + intros cs' r' Hp. inversion Hp; subst; try congruence. rewrite F in H0. inversion H0; subst. eapply H; eauto.
  - apply IH in H. destruct o as [cs r| | |w]; cbn in *; auto.
    + destruct H as [H1 H2]. split; [eapply p_jump; eauto|].
      intros cs' r' Hp. inversion Hp; subst; try congruence. rewrite F in H. inversion H; subst. eauto.
    + intros cs' r' Hp. inversion Hp; subst; try congruence. rewrite F in H0. inversion H0; subst. eapply H; eauto.
  - destruct (rec d' a1 s) as [[cs1 r1| | |w1] c1] eqn:R.
    + inversion H; subst. apply IHd in R. cbn in R. destruct R as [R1 R2]. cbn. split; [eapply p_left; eauto|].
      intros cs' r' Hp. inversion Hp; subst; try congruence.
      * rewrite F in H0. inversion H0; subst. constructor. eauto.
      * constructor.
    + destruct (loop d' k a2 s) as [o2 c2] eqn:L.
      assert (c1 = 0%N /\ c2 = 0%N /\ o = match o2 with Found cs r => Found (true :: cs) r | x => x end) as (-> & -> & ->).
      { destruct o2; inversion H; subst; repeat split; lia. }
      apply IHd in R. cbn in R. apply IH in L.
      destruct o2 as [cs2 r2| | |w2]; cbn in *; auto.
      * destruct L as [L1 L2]. split; [eapply p_right; eauto|].
        intros cs' r' Hp. inversion Hp; subst; try congruence.
        -- rewrite F in H0. inversion H0; subst. exfalso. eapply R; eauto.
        -- rewrite F in H0. inversion H0; subst. constructor. eauto.
      * intros cs' r' Hp. inversion Hp; subst; try congruence.
        -- rewrite F in H0. inversion H0; subst. eapply R; eauto.
        -- rewrite F in H0. inversion H0; subst. eapply L; eauto.
    + inversion H; subst. exact I.
    + inversion H; subst. exact I.
  - inversion H; subst. cbn. split; [apply p_match; assumption|]. intros. constructor.
Qed.

Theorem rec_first : forall d pc s o, rec d pc s = (o, 0%N) -> first_spec pc s o.
Proof.
  induction d as [|d IH]; intros pc s o H.
  - cbn in H. discriminate.
  - rewrite rec_unfold in H. eapply loop_first; eauto.
Qed.

Lemma run_trans pc s cs1 pc1 s1 cs2 pc2 s2 : run pc s cs1 pc1 s1 -> run pc1 s1 cs2 pc2 s2 -> run pc s (cs1 ++ cs2) pc2 s2.
Proof. induction 1; intro H2; cbn [app]; eauto using ReSem.run. Qed.

Lemma run_path pc s cs1 pc1 s1 cs2 r : run pc s cs1 pc1 s1 -> path pc1 s1 cs2 r -> path pc s (cs1 ++ cs2) r.
Proof. induction 1; intro H2; cbn [app]; eauto using ReVM.path. Qed.

(* every declarative match is realised by a run through the emitted block *)
Theorem emit_complete : forall r s s', M r s s' -> forall b, code_at b (emit r b) -> exists cs, run b s cs (b + len r) s'.
Proof.
  induction 1; intros b C; cbn [emit len] in *.
  - apply code_at_one in C. exists []. eapply r_atom; eauto. replace (b + 1) with (S b) by lia. constructor.
  - apply code_at_app in C. destruct C as [C1 C2]. rewrite emit_len in C2.
    destruct (IHM1 _ C1) as [cs1 R1]. destruct (IHM2 _ C2) as [cs2 R2].
    exists (cs1 ++ cs2). replace (b + (len x + len y)) with (b + len x + len y) by lia. eapply run_trans; eauto.
  - apply code_at_app in C. destruct C as [C0 C]. apply code_at_one in C0. cbn [length] in C.
    apply code_at_app in C. destruct C as [C1 C]. rewrite emit_len in C.
    apply code_at_app in C. destruct C as [CJ C2]. apply code_at_one in CJ.
    destruct (IHM _ C1) as [cs1 R1]. exists (false :: cs1 ++ []).
    eapply r_left; eauto. eapply run_trans; eauto.
    eapply r_jump; eauto. replace (b + (len x + len y + 2)) with (b + 2 + len x + len y) by lia. constructor.
  - apply code_at_app in C. destruct C as [C0 C]. apply code_at_one in C0. cbn [length] in C.
    apply code_at_app in C. destruct C as [C1 C]. rewrite emit_len in C.
    apply code_at_app in C. destruct C as [CJ C2]. apply code_at_one in CJ. cbn [length] in C2.
    replace (b + 1 + len x + 1) with (b + 2 + len x) in C2 by lia.
    destruct (IHM _ C2) as [cs2 R2]. exists (true :: cs2).
    eapply r_right; eauto. replace (b + (len x + len y + 2)) with (b + 2 + len x + len y) by lia. exact R2.
  - apply code_at_app in C. destruct C as [C0 _]. apply code_at_one in C0.
    exists [true]. eapply r_right; eauto. replace (b + (len x + 2)) with (b + 2 + len x) by lia. constructor.
  - pose proof C as C'. apply code_at_app in C. destruct C as [C0 C]. apply code_at_one in C0. cbn [length] in C.
    apply code_at_app in C. destruct C as [C1 CF]. rewrite emit_len in CF. apply code_at_one in CF.
    destruct (IHM1 _ C1) as [cs1 R1]. destruct (IHM2 _ C') as [cs2 R2]. cbn [len] in R2.
    (* the run for the rest starts at the first fork; the second fork has the same targets *)
    assert (R2' : run (b + 1 + len x) s1 cs2 (b + (len x + 2)) s2).
    { inversion R2; subst; try congruence.
      - exfalso. lia.
      - rewrite C0 in H1. inversion H1; subst. eapply r_left; eauto.
      - rewrite C0 in H1. inversion H1; subst. eapply r_right; eauto. }
    exists (false :: cs1 ++ cs2). eapply r_left; eauto. eapply run_trans; eauto.
  - apply code_at_app in C. destruct C as [C0 C]. apply code_at_one in C0. cbn [length] in C.
    apply code_at_app in C. destruct C as [C1 CM]. rewrite emit_len in CM. apply code_at_one in CM.
    destruct (IHM _ C1) as [cs1 R1]. exists (cs1 ++ []).
    eapply r_mark; eauto. replace (S b) with (b + 1) by lia. eapply run_trans; eauto.
    eapply r_mark; eauto. replace (S (b + 1 + len x)) with (b + (len x + 2)) by lia. constructor.
  - (* pow 0 *) exists []. replace (b + 0 * len x) with b by lia. constructor.
  - (* pow S *) change (emit x b ++ emit (RPow k x) (b + len x)) with (emit x b ++ emit (RPow k x) (b + len x)) in C.
    apply code_at_app in C. destruct C as [C1 C2]. rewrite emit_len in C2.
    destruct (IHM1 _ C1) as [cs1 R1]. destruct (IHM2 _ C2) as [cs2 R2]. cbn [len] in R2.
    exists (cs1 ++ cs2). replace (b + S k * len x) with (b + len x + k * len x) by lia. eapply run_trans; eauto.
  - (* plus 1 *) apply code_at_app in C. destruct C as [C1 CF]. rewrite emit_len in CF. apply code_at_one in CF.
    destruct (IHM _ C1) as [cs1 R1]. exists (cs1 ++ [true]). eapply run_trans; eauto.
    eapply r_right; eauto. replace (b + (len x + 1)) with (b + len x + 1) by lia. constructor.
  - (* plus S *) pose proof C as C'. apply code_at_app in C. destruct C as [C1 CF]. rewrite emit_len in CF. apply code_at_one in CF.
    destruct (IHM1 _ C1) as [cs1 R1]. destruct (IHM2 _ C') as [cs2 R2].
    exists (cs1 ++ false :: cs2). eapply run_trans; eauto. eapply r_left; eauto.
  - (* opt 0 *) destruct j as [|j].
    + exists []. replace (b + 0 * (1 + len x)) with b by lia. constructor.
    + cbn [opt] in C. apply code_at_app in C. destruct C as [C0 _]. apply code_at_one in C0.
      exists [true]. eapply r_right; eauto. constructor.
  - (* opt S *) cbn [opt] in C. apply code_at_app in C. destruct C as [C0 C]. apply code_at_one in C0. cbn [length] in C.
    apply code_at_app in C. destruct C as [C1 C2]. rewrite emit_len in C2.
    destruct (IHM1 _ C1) as [cs1 R1]. destruct (IHM2 _ C2) as [cs2 R2]. cbn [len] in R2.
    exists (false :: cs1 ++ cs2). eapply r_left; eauto. eapply run_trans; eauto.
    replace (b + S j * (1 + len x)) with (b + 1 + len x + j * (1 + len x)) by lia. exact R2.
Qed.

(* a run inside [lo,hi) that starts inside the closed sub-block [lo',mid) must first arrive at mid *)
Lemma rin_split lo hi lo' mid : closed lo' mid -> lo <= lo' -> mid <= hi ->
  forall pc s cs s', rin lo hi pc s cs s' -> lo' <= pc <= mid ->
  exists cs1 cs2 s1, cs = cs1 ++ cs2 /\ rin lo' mid pc s cs1 s1 /\ rin lo hi mid s1 cs2 s'.
Proof.
  intros C Hlo Hhi pc s cs s' R. induction R; intro Hpc.
  - assert (hi = mid) by lia. subst. exists [], [], s. repeat split; constructor.
  - destruct (Nat.eq_dec pc mid) as [->|]. { exists [], cs, s. repeat split; [constructor | eapply i_atom; eauto]. }
    pose proof (C pc ltac:(lia)) as K. rewrite H0 in K.
    destruct (IHR ltac:(lia)) as (cs1 & cs2 & s1 & -> & R1 & R2).
    exists cs1, cs2, s1. repeat split; auto. eapply i_atom; eauto. lia.
  - destruct (Nat.eq_dec pc mid) as [->|]. { exists [], cs, s. repeat split; [constructor | eapply i_mark; eauto]. }
    destruct (IHR ltac:(lia)) as (cs1 & cs2 & s1 & -> & R1 & R2).
    exists cs1, cs2, s1. repeat split; auto. eapply i_mark; eauto. lia.
  - destruct (Nat.eq_dec pc mid) as [->|]. { exists [], cs, s. repeat split; [constructor | eapply i_jump; eauto]. }
    pose proof (C pc ltac:(lia)) as K. rewrite H0 in K.
    destruct (IHR ltac:(lia)) as (cs1 & cs2 & s1 & -> & R1 & R2).
    exists cs1, cs2, s1. repeat split; auto. eapply i_jump; eauto. lia.
  - destruct (Nat.eq_dec pc mid) as [->|]. { exists [], (false :: cs), s. repeat split; [constructor | eapply i_left; eauto]. }
    pose proof (C pc ltac:(lia)) as K. rewrite H0 in K.
    destruct (IHR ltac:(lia)) as (cs1 & cs2 & s1 & -> & R1 & R2).
    exists (false :: cs1), cs2, s1. repeat split; auto. eapply i_left; eauto. lia.
  - destruct (Nat.eq_dec pc mid) as [->|]. { exists [], (true :: cs), s. repeat split; [constructor | eapply i_right; eauto]. }
    pose proof (C pc ltac:(lia)) as K. rewrite H0 in K.
    destruct (IHR ltac:(lia)) as (cs1 & cs2 & s1 & -> & R1 & R2).
    exists (true :: cs1), cs2, s1. repeat split; auto. eapply i_right; eauto. lia.
Qed.

Lemma rin_at_hi lo hi s cs s' : rin lo hi hi s cs s' -> cs = [] /\ s' = s.
Proof. intro R. inversion R; subst; auto; lia. Qed.

Lemma rin_fork lo hi pc a1 a2 s cs s' : pc < hi -> fetch pc = IFork a1 a2 -> rin lo hi pc s cs s' ->
  (exists cs', cs = false :: cs' /\ rin lo hi a1 s cs' s') \/ (exists cs', cs = true :: cs' /\ rin lo hi a2 s cs' s').
Proof. intros Hp F R. inversion R; subst; try congruence; try lia; rewrite F in *;
  match goal with H : IFork _ _ = IFork _ _ |- _ => inversion H; subst end; eauto. Qed.
Lemma rin_jump lo hi pc t s cs s' : pc < hi -> fetch pc = IJump t -> rin lo hi pc s cs s' -> rin lo hi t s cs s'.
Proof. intros Hp F R. inversion R; subst; try congruence; try lia; rewrite F in *;
  match goal with H : IJump _ = IJump _ |- _ => inversion H; subst end; auto. Qed.
Lemma rin_mark lo hi pc m s cs s' : pc < hi -> fetch pc = IMark m -> rin lo hi pc s cs s' -> rin lo hi (S pc) (mark_step m s) cs s'.
Proof. intros Hp F R. inversion R; subst; try congruence; try lia; rewrite F in *;
  match goal with H : IMark _ = IMark _ |- _ => inversion H; subst end; auto. Qed.
Lemma rin_atom lo hi pc a s cs s' : pc < hi -> fetch pc = IAtom a -> rin lo hi pc s cs s' ->
  exists s1, atom_step a s = Ok (Some s1) /\ rin lo hi (S pc) s1 cs s'.
Proof. intros Hp F R. inversion R; subst; try congruence; try lia; rewrite F in *;
  match goal with H : IAtom _ = IAtom _ |- _ => inversion H; subst end; eauto. Qed.

Theorem emit_sound : forall r b s cs s', code_at b (emit r b) -> rin b (b + len r) b s cs s' -> M r s s'.
Proof.
  induction r; intros b s cs s' C R; cbn [emit len] in *.
  - (* atom *)
    apply code_at_one in C. apply (rin_atom b (b + 1) b _ _ _ _ ltac:(lia) C) in R. destruct R as (s1 & E & R).
    replace (S b) with (b + 1) in R by lia. apply rin_at_hi in R. destruct R as [-> ->]. constructor; assumption.
  - (* cat *)
    apply code_at_app in C. destruct C as [C1 C2]. rewrite emit_len in C2.
    destruct (rin_split b (b + (len r1 + len r2)) b (b + len r1) (emit_closed P _ _ C1) ltac:(lia) ltac:(lia) _ _ _ _ R ltac:(lia))
      as (cs1 & cs2 & s1 & -> & R1 & R2).
    replace (b + (len r1 + len r2)) with (b + len r1 + len r2) in R2 by lia.
    destruct (rin_split b (b + len r1 + len r2) (b + len r1) (b + len r1 + len r2) (emit_closed P _ _ C2) ltac:(lia) ltac:(lia) _ _ _ _ R2 ltac:(lia))
      as (cs3 & cs4 & s2 & -> & R3 & R4).
    apply rin_at_hi in R4. destruct R4 as [-> ->].
    econstructor; eauto.
  - (* alt *)
    apply code_at_app in C. destruct C as [C0 C]. apply code_at_one in C0. cbn [length] in C.
    apply code_at_app in C. destruct C as [C1 C]. rewrite emit_len in C.
    apply code_at_app in C. destruct C as [CJ C2]. apply code_at_one in CJ. cbn [length] in C2.
    replace (b + 1 + len r1 + 1) with (b + 2 + len r1) in C2 by lia.
    destruct (rin_fork b (b + (len r1 + len r2 + 2)) b _ _ _ _ _ ltac:(lia) C0 R) as [(cs' & -> & R')|(cs' & -> & R')].
    + destruct (rin_split b (b + (len r1 + len r2 + 2)) (b + 1) (b + 1 + len r1) (emit_closed P _ _ C1) ltac:(lia) ltac:(lia) _ _ _ _ R' ltac:(lia))
        as (cs1 & cs2 & s1 & -> & R1 & R2).
      apply (rin_jump b (b + (len r1 + len r2 + 2)) (b + 1 + len r1) _ _ _ _ ltac:(lia) CJ) in R2.
      replace (b + 2 + len r1 + len r2) with (b + (len r1 + len r2 + 2)) in R2 by lia.
      apply rin_at_hi in R2. destruct R2 as [-> ->]. apply MAltL. eauto.
    + replace (b + (len r1 + len r2 + 2)) with (b + 2 + len r1 + len r2) in R' by lia.
      destruct (rin_split b (b + 2 + len r1 + len r2) (b + 2 + len r1) (b + 2 + len r1 + len r2) (emit_closed P _ _ C2) ltac:(lia) ltac:(lia) _ _ _ _ R' ltac:(lia))
        as (cs1 & cs2 & s1 & -> & R1 & R2).
      apply rin_at_hi in R2. destruct R2 as [-> ->]. apply MAltR. eauto.
  - (* star *)
    apply code_at_app in C. destruct C as [C0 C]. apply code_at_one in C0. cbn [length] in C.
    apply code_at_app in C. destruct C as [C1 CF]. rewrite emit_len in CF. apply code_at_one in CF.
    assert (G : forall n cs s s', length cs <= n ->
              rin b (b + (len r + 2)) b s cs s' \/ rin b (b + (len r + 2)) (b + 1 + len r) s cs s' -> M (RStar r) s s').
    { induction n as [|n IHn]; intros cs0 s0 s0' Hn R0.
      - assert (F : exists pc, pc < b + (len r + 2) /\ fetch pc = IFork (b + 1) (b + 2 + len r) /\ rin b (b + (len r + 2)) pc s0 cs0 s0').
        { destruct R0; [exists b | exists (b + 1 + len r)]; repeat split; auto; lia. }
        destruct F as (pc & Hp & F & R1).
        destruct (rin_fork _ _ _ _ _ _ _ _ Hp F R1) as [(cs' & -> & _)|(cs' & -> & _)]; cbn in Hn; lia.
      - assert (F : exists pc, pc < b + (len r + 2) /\ fetch pc = IFork (b + 1) (b + 2 + len r) /\ rin b (b + (len r + 2)) pc s0 cs0 s0').
        { destruct R0; [exists b | exists (b + 1 + len r)]; repeat split; auto; lia. }
        destruct F as (pc & Hp & F & R1).
        destruct (rin_fork _ _ _ _ _ _ _ _ Hp F R1) as [(cs' & -> & R')|(cs' & -> & R')].
        + destruct (rin_split b (b + (len r + 2)) (b + 1) (b + 1 + len r) (emit_closed P _ _ C1) ltac:(lia) ltac:(lia) _ _ _ _ R' ltac:(lia))
            as (cs1 & cs2 & s1 & -> & R2 & R3).
          eapply MStarS; [eapply IHr; eauto|]. eapply (IHn cs2); [|right; exact R3].
          cbn in Hn. rewrite app_length in Hn. lia.
        + replace (b + 2 + len r) with (b + (len r + 2)) in R' by lia.
          apply rin_at_hi in R'. destruct R' as [-> ->]. constructor. }
    eapply (G (length cs) cs); [lia | left; exact R].
  - (* group *)
    apply code_at_app in C. destruct C as [C0 C]. apply code_at_one in C0. cbn [length] in C.
    apply code_at_app in C. destruct C as [C1 CM]. rewrite emit_len in CM. apply code_at_one in CM.
    apply (rin_mark b (b + (len r + 2)) b _ _ _ _ ltac:(lia) C0) in R.
    replace (S b) with (b + 1) in R by lia.
    destruct (rin_split b (b + (len r + 2)) (b + 1) (b + 1 + len r) (emit_closed P _ _ C1) ltac:(lia) ltac:(lia) _ _ _ _ R ltac:(lia))
      as (cs1 & cs2 & s1 & -> & R1 & R2).
    apply (rin_mark b (b + (len r + 2)) (b + 1 + len r) _ _ _ _ ltac:(lia) CM) in R2.
    replace (S (b + 1 + len r)) with (b + (len r + 2)) in R2 by lia.
    apply rin_at_hi in R2. destruct R2 as [-> ->]. constructor. eauto.
  - (* pow *) revert b s cs s' C R. induction k as [|k IHk]; intros b s cs s' C R.
    + replace (b + 0 * len r) with b in R by lia. apply rin_at_hi in R. destruct R as [-> ->]. constructor.
    + cbn [pow] in C. apply code_at_app in C. destruct C as [C1 C2]. rewrite emit_len in C2.
      replace (b + S k * len r) with (b + len r + k * len r) in R by lia.
      destruct (rin_split b (b + len r + k * len r) b (b + len r) (emit_closed P _ _ C1) ltac:(lia) ltac:(lia) _ _ _ _ R ltac:(lia))
        as (cs1 & cs2 & s1 & -> & R1 & R2).
      destruct (rin_split b (b + len r + k * len r) (b + len r) (b + len r + k * len r) (emit_closed P (RPow k r) _ C2) ltac:(lia) ltac:(lia) _ _ _ _ R2 ltac:(lia))
        as (cs3 & cs4 & s2 & -> & R3 & R4).
      apply rin_at_hi in R4. destruct R4 as [-> ->].
      eapply MPowS; [eapply IHr; eauto | eapply IHk; eauto].
  - (* plus *) apply code_at_app in C. destruct C as [C1 CF]. rewrite emit_len in CF. apply code_at_one in CF.
    assert (G : forall n cs s s', length cs <= n -> rin b (b + (len r + 1)) b s cs s' -> M (RPlus r) s s').
    { induction n as [|n IHn]; intros cs0 s0 s0' Hn R0;
      destruct (rin_split b (b + (len r + 1)) b (b + len r) (emit_closed P _ _ C1) ltac:(lia) ltac:(lia) _ _ _ _ R0 ltac:(lia))
        as (cs1 & cs2 & s1 & -> & R1 & R2);
      destruct (rin_fork b (b + (len r + 1)) (b + len r) _ _ _ _ _ ltac:(lia) CF R2) as [(cs' & -> & R')|(cs' & -> & R')];
      try (rewrite app_length in Hn; cbn in Hn; lia).
      - eapply MPlusS; [eapply IHr; eauto|]. eapply (IHn cs'); [|exact R']. rewrite app_length in Hn. cbn in Hn. lia.
      - replace (b + len r + 1) with (b + (len r + 1)) in R' by lia. apply rin_at_hi in R'. destruct R' as [-> ->].
        apply MPlus1. eapply IHr; eauto. }
    eapply (G (length cs) cs); [lia | exact R].
  - (* opt *) revert b s cs s' C R. induction j as [|j IHj]; intros b s cs s' C R.
    + replace (b + 0 * (1 + len r)) with b in R by lia. apply rin_at_hi in R. destruct R as [-> ->]. constructor.
    + cbn [opt] in C. apply code_at_app in C. destruct C as [C0 C]. apply code_at_one in C0. cbn [length] in C.
      apply code_at_app in C. destruct C as [C1 C2]. rewrite emit_len in C2.
      destruct (rin_fork b (b + S j * (1 + len r)) b _ _ _ _ _ ltac:(lia) C0 R) as [(cs' & -> & R')|(cs' & -> & R')].
      * destruct (rin_split b (b + S j * (1 + len r)) (b + 1) (b + 1 + len r) (emit_closed P _ _ C1) ltac:(lia) ltac:(lia) _ _ _ _ R' ltac:(lia))
          as (cs1 & cs2 & s1 & -> & R1 & R2).
        replace (b + S j * (1 + len r)) with (b + 1 + len r + j * (1 + len r)) in R2 by lia.
        destruct (rin_split b (b + 1 + len r + j * (1 + len r)) (b + 1 + len r) (b + 1 + len r + j * (1 + len r)) (emit_closed P (ROpt j r) _ C2) ltac:(lia) ltac:(lia) _ _ _ _ R2 ltac:(lia))
          as (cs3 & cs4 & s2 & -> & R3 & R4).
        apply rin_at_hi in R4. destruct R4 as [-> ->].
        eapply MOptS; [eapply IHr; eauto | eapply IHj; eauto].
      * apply rin_at_hi in R'. destruct R' as [-> ->]. constructor.
Qed.

Lemma path_split lo mid : closed lo mid ->
  forall pc s cs r, path pc s cs r -> lo <= pc <= mid ->
  exists cs1 cs2 s1, cs = cs1 ++ cs2 /\ rin lo mid pc s cs1 s1 /\ path mid s1 cs2 r.
Proof.
  intros C pc s cs r Pth. induction Pth; intro Hpc.
  - destruct (Nat.eq_dec pc mid) as [->|]. { exists [], [], s. repeat split; [constructor | apply p_match; assumption]. }
    pose proof (C pc ltac:(lia)) as K. rewrite H in K. contradiction.
  - destruct (Nat.eq_dec pc mid) as [->|]. { exists [], cs, s. repeat split; [constructor | eapply p_atom; eauto]. }
    destruct (IHPth ltac:(lia)) as (cs1 & cs2 & s1 & -> & R1 & R2).
    exists cs1, cs2, s1. repeat split; auto. eapply i_atom; eauto. lia.
  - destruct (Nat.eq_dec pc mid) as [->|]. { exists [], cs, s. repeat split; [constructor | eapply p_mark; eauto]. }
    destruct (IHPth ltac:(lia)) as (cs1 & cs2 & s1 & -> & R1 & R2).
    exists cs1, cs2, s1. repeat split; auto. eapply i_mark; eauto. lia.
  - destruct (Nat.eq_dec pc mid) as [->|]. { exists [], cs, s. repeat split; [constructor | eapply p_jump; eauto]. }
    pose proof (C pc ltac:(lia)) as K. rewrite H in K.
    destruct (IHPth ltac:(lia)) as (cs1 & cs2 & s1 & -> & R1 & R2).
    exists cs1, cs2, s1. repeat split; auto. eapply i_jump; eauto. lia.
  - destruct (Nat.eq_dec pc mid) as [->|]. { exists [], (false :: cs), s. repeat split; [constructor | eapply p_left; eauto]. }
    pose proof (C pc ltac:(lia)) as K. rewrite H in K.
    destruct (IHPth ltac:(lia)) as (cs1 & cs2 & s1 & -> & R1 & R2).
    exists (false :: cs1), cs2, s1. repeat split; auto. eapply i_left; eauto. lia.
  - destruct (Nat.eq_dec pc mid) as [->|]. { exists [], (true :: cs), s. repeat split; [constructor | eapply p_right; eauto]. }
    pose proof (C pc ltac:(lia)) as K. rewrite H in K.
    destruct (IHPth ltac:(lia)) as (cs1 & cs2 & s1 & -> & R1 & R2).
    exists (true :: cs1), cs2, s1. repeat split; auto. eapply i_right; eauto. lia.
Qed.
End VM.
