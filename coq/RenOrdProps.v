(* RenOrdProps.v -- linelimit is a limit on the number of CHARACTERS of a line (C18): whether ren_position
   reorders a line is decided by uc_slen against xlim; the number of bytes enters only as "the line has a
   multi-byte sequence" (order 1).  Within the limit the order array ren_position lays the line out with is
   dir_reorder's result, so every C18 theorem about that result speaks about the columns. *)
From Coq Require Import List NArith ZArith Bool Arith Lia Permutation.
From NV Require Import Bytes UcDefs DirDefs RenDefs RenProps RenOrdDefs.
Import ListNotations.
Local Open Scope Z_scope.

Lemma uc_slen_f_le' fuel : forall t, (uc_slen_f fuel t <= fuel)%nat.
Proof.
  induction fuel as [|f IH]; intro t; cbn [uc_slen_f]; [lia|]. destruct t; [lia|].
  specialize (IH (skipn (S (uc_end (n :: t))) (n :: t))). lia.
Qed.
Lemma uc_slen_le_length s : (uc_slen s <= length s)%nat.
Proof. apply uc_slen_f_le'. Qed.

(* a line of single-byte characters has as many characters as bytes: order 1 never reorders it *)
Lemma ascii_slen s : Forall (fun b => bit b 128 = false) s -> uc_slen s = length s.
Proof.
  induction s as [|b r IH]; intro H; [reflexivity|].
  inversion H as [|? ? Hb Hr]; subst. specialize (IH Hr).
  unfold uc_slen in *. cbn [length uc_slen_f]. unfold uc_end. rewrite Hb. cbn [negb skipn]. rewrite IH. reflexivity.
Qed.
Lemma ascii_not_multibyte s : Forall (fun b => bit b 128 = false) s -> multibyte s = false.
Proof. intro H. unfold multibyte. rewrite (ascii_slen s H). apply Nat.ltb_irrefl. Qed.

(* the gate of ren_position, spelled out: characters against linelimit; bytes only through `multibyte` *)
Lemma use_reorder_chars o s :
  use_reorder o s = (Z.of_nat (uc_slen s) <=? xlim o) && ((xorder o =? 2) || ((xorder o =? 1) && multibyte s)).
Proof.
  unfold use_reorder, multibyte. f_equal. f_equal. f_equal.
  destruct (Nat.ltb_spec (uc_slen s) (length s)); [apply Z.ltb_lt|apply Z.ltb_ge]; lia.
Qed.

(* within the limit in CHARACTERS the line is reordered, however many bytes it has *)
Lemma limit_counts_characters o s : Z.of_nat (uc_slen s) <= xlim o ->
  xorder o = 2 \/ (xorder o = 1 /\ multibyte s = true) -> use_reorder o s = true.
Proof.
  intros Hn Ho. rewrite use_reorder_chars. apply Z.leb_le in Hn. rewrite Hn. cbn [andb].
  destruct Ho as [->|[-> ->]]; reflexivity.
Qed.

(* over the limit in characters it is not, whatever the order *)
Lemma limit_exceeded o s : xlim o < Z.of_nat (uc_slen s) -> use_reorder o s = false.
Proof. intro H. rewrite use_reorder_chars. apply Z.leb_gt in H. rewrite H. reflexivity. Qed.

(* two lines with the same number of characters are gated alike, whatever their numbers of bytes *)
Lemma limit_bytes_irrelevant o s s' : uc_slen s = uc_slen s' -> multibyte s = multibyte s' ->
  use_reorder o s = use_reorder o s'.
Proof. intros H1 H2. rewrite !use_reorder_chars, H1, H2. reflexivity. Qed.

(* in particular a byte count above the limit does not switch reordering off *)
Lemma limit_not_bytes o s : Z.of_nat (uc_slen s) <= xlim o < Z.of_nat (length s) -> xorder o = 1 \/ xorder o = 2 ->
  use_reorder o s = true.
Proof.
  intros [H1 H2] Ho. apply limit_counts_characters; [exact H1|].
  destruct Ho as [Ho|Ho]; [right|left; exact Ho]. split; [exact Ho|]. unfold multibyte. apply Nat.ltb_lt. lia.
Qed.

Section Ord.
Variable dr : bytes -> list nat -> list nat.
Variable o : ropts.

(* the order array of each path *)
Lemma ren_order_reordered s : use_reorder o s = true ->
  ren_order dr o s = the_ord dr o s /\ ren_position dr o s = ren_position_reorder dr o s /\
  vis_order dr o s = inverse (ren_order dr o s) (uc_slen s).
Proof.
  intro H. unfold ren_order, the_ord, ren_position, vis_order. rewrite H. cbn [andb].
  assert (E : (if negb (xorder o =? 0) then dr s (seq 0 (uc_slen s)) else seq 0 (uc_slen s))
              = (if xorder o =? 0 then seq 0 (uc_slen s) else dr s (seq 0 (uc_slen s))))
    by (destruct (xorder o =? 0); reflexivity).
  cbv zeta. rewrite E. repeat split; reflexivity.
Qed.

Lemma ren_order_fast s : use_reorder o s = false ->
  ren_order dr o s = seq 0 (uc_slen s) /\ ren_position dr o s = ren_fast (uc_slen s) s 0 /\
  vis_order dr o s = seq 0 (uc_slen s).
Proof. intro H. unfold ren_order, ren_position, vis_order. rewrite H. repeat split; reflexivity. Qed.

(* within the limit in characters (orders 1 and 2) the array is dir_reorder's result on the identity *)
Lemma ren_order_within_limit s : Z.of_nat (uc_slen s) <= xlim o ->
  xorder o = 2 \/ (xorder o = 1 /\ multibyte s = true) ->
  ren_order dr o s = dr s (seq 0 (uc_slen s)).
Proof.
  intros Hn Ho. unfold ren_order. rewrite (limit_counts_characters o s Hn Ho).
  destruct Ho as [E|[E _]]; rewrite E; reflexivity.
Qed.

(* otherwise it is the identity: order 0, a line over the limit, a single-byte line with order 1 *)
Lemma ren_order_identity s :
  xorder o = 0 \/ xlim o < Z.of_nat (uc_slen s) \/ (xorder o = 1 /\ multibyte s = false) \/ (xorder o <> 1 /\ xorder o <> 2) ->
  ren_order dr o s = seq 0 (uc_slen s).
Proof.
  intro H. unfold ren_order. rewrite use_reorder_chars.
  destruct H as [E|[E|[[E1 E2]|[E1 E2]]]].
  - rewrite E. cbn. rewrite andb_false_r. reflexivity.
  - apply Z.leb_gt in E. rewrite E. reflexivity.
  - rewrite E1, E2. cbn. rewrite andb_false_r. reflexivity.
  - apply Z.eqb_neq in E1, E2. rewrite E1, E2. cbn. rewrite andb_false_r. reflexivity.
Qed.
End Ord.

(* with the model of dir.c as dr: the array is the visual order dir_reorder computes, the object of
   C18_permutation / C18_runs_reversed / C18_identity *)
Lemma ren_order_dir xtd ctxfound raw o s ord : Z.of_nat (uc_slen s) <= xlim o ->
  xorder o = 2 \/ (xorder o = 1 /\ multibyte s = true) ->
  dir_reorder s xtd ctxfound raw (seq 0 (uc_slen s)) = Some ord ->
  ren_order (dr_of xtd ctxfound raw) o s = ord.
Proof.
  intros Hn Ho Hd. rewrite (ren_order_within_limit _ o s Hn Ho). unfold dr_of. rewrite Hd. reflexivity.
Qed.

(* non-vacuity: four two-byte letters (8 bytes), `dr` = reversal of the whole array.  With linelimit 4 the line
   is reordered although it has 8 bytes; with linelimit 3 it is not; the single-byte line of 4 characters is
   reordered with order 2 only; an 8-character line is not reordered with linelimit 4 *)
Definition ex_line : bytes := [216; 168; 216; 170; 216; 171; 216; 172]%N.
Definition ex_dr : bytes -> list nat -> list nat := fun _ ord => rev ord.
Lemma limit_nonvacuous :
  uc_slen ex_line = 4%nat /\ length ex_line = 8%nat /\ multibyte ex_line = true /\
  use_reorder {| xorder := 1; xlim := 4 |} ex_line = true /\
  ren_order ex_dr {| xorder := 1; xlim := 4 |} ex_line = [3; 2; 1; 0]%nat /\
  ren_order ex_dr {| xorder := 2; xlim := 4 |} ex_line = [3; 2; 1; 0]%nat /\
  ren_order ex_dr {| xorder := 1; xlim := 3 |} ex_line = [0; 1; 2; 3]%nat /\
  ren_order ex_dr {| xorder := 0; xlim := 4 |} ex_line = [0; 1; 2; 3]%nat /\
  ren_position ex_dr {| xorder := 1; xlim := 4 |} ex_line = [3; 2; 1; 0; 4] /\
  ren_position ex_dr {| xorder := 1; xlim := 3 |} ex_line = [0; 1; 2; 3; 4] /\
  ren_order ex_dr {| xorder := 1; xlim := 4 |} [97; 98; 99; 100]%N = [0; 1; 2; 3]%nat /\
  ren_order ex_dr {| xorder := 2; xlim := 4 |} [97; 98; 99; 100]%N = [3; 2; 1; 0]%nat /\
  ren_order ex_dr {| xorder := 2; xlim := 4 |} (ex_line ++ ex_line) = seq 0 8.
Proof. repeat split; vm_compute; reflexivity. Qed.
