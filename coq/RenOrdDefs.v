(* RenOrdDefs.v -- the order array ren_position (ren.c) lays a line out with (C18): what its own call of
   dir_reorder leaves in the array on the reordering path (the identity with order 0), the identity on
   the fast path.  Which path is taken is RenDefs.use_reorder: the number of CHARACTERS of the line
   (uc_slen) against linelimit, never its number of bytes.  Only definitions here. *)
From Coq Require Import List NArith ZArith Bool Arith.
From NV Require Import Bytes UcDefs DirDefs RenDefs.
Import ListNotations.
Local Open Scope Z_scope.

Definition ren_order (dr : bytes -> list nat -> list nat) (o : ropts) (s : bytes) : list nat :=
  let ord0 := seq 0 (uc_slen s) in
  if use_reorder o s && negb (xorder o =? 0) then dr s ord0 else ord0.

(* the line has a multi-byte sequence: `n < strlen(s)` of the C condition *)
Definition multibyte (s : bytes) : bool := (uc_slen s <? length s)%nat.
