(* UcSegProps.v -- C16: the string helpers of uc.c agree with code-point segmentation of a
   valid UTF-8 string (chars cs = flat_map encode cs), and splicing at character offsets keeps
   a string valid. *)
From Coq Require Import List NArith ZArith Lia Bool ZifyN ZifyBool ZifyNat.
From NV Require Import Bytes UcDefs UcSpec UcProps.
Import ListNotations.
Local Open Scope N_scope.
Ltac Zify.zify_post_hook ::= Z.div_mod_to_equations.

(* ---------- shape facts about one encoded scalar ---------- *)
Definition hd_noncont (s : bytes) : Prop := match s with [] => True | b :: _ => is_cont b = false end.
Definition all_cont (s : bytes) : Prop := Forall (fun b => is_cont b = true) s.

Lemma skip_cont_app t rest : all_cont t -> hd_noncont rest -> skip_cont (t ++ rest) = length t.
Proof.
  induction 1 as [|b t Hb Ht IH]; intro Hr; cbn [app skip_cont length].
  - destruct rest as [|r rest]; [reflexivity|]. cbn [skip_cont]. cbn in Hr. rewrite Hr. reflexivity.
  - rewrite Hb. f_equal. apply IH, Hr.
Qed.

(* an encoded scalar is one non-continuation byte followed by continuation bytes, all non-zero *)
Lemma encode_decomp c : scalar c ->
  exists l t, encode c = l :: t /\ is_cont l = false /\ all_cont t /\ 0 < l < 256 /\
              (bit l 128 = false -> t = []) /\ (bit l 128 = true -> is_lead l = true) /\
              Forall (fun b => 0 < b < 256) t.
Proof.
  intro Hs. destruct (encode_shape c Hs) as [H | l t H El Et Hl Ht | l t1 t2 H El E1 E2 Hl H1 H2 | l t1 t2 t3 H El E1 E2 E3 Hl H1 H2 H3].
  - destruct (cls_ascii c ltac:(lia)) as (B1 & B2 & B3 & B4).
    exists c, []. repeat split; auto; try lia. { constructor. } { intro K; congruence. }
  - destruct (cls_lead2 l ltac:(lia)) as (B1 & B2 & B3 & B4 & B5 & B6).
    destruct (cls_cont t ltac:(lia)) as (C0 & C1 & _).
    exists l, [t]. repeat split; auto; try lia. { repeat constructor; auto. } { intro K; congruence. }
    repeat constructor; lia.
  - destruct (cls_lead3 l ltac:(lia)) as (B1 & B2 & B3 & B4 & B5 & B6 & B7).
    destruct (cls_cont t1 ltac:(lia)) as (_ & C1 & _). destruct (cls_cont t2 ltac:(lia)) as (_ & C2 & _).
    exists l, [t1; t2]. repeat split; auto; try lia. { repeat constructor; auto. } { intro K; congruence. }
    repeat constructor; lia.
  - destruct (cls_lead4 l ltac:(lia)) as (B1 & B2 & B3 & B4 & B5 & B6 & B7 & B8).
    destruct (cls_cont t1 ltac:(lia)) as (_ & C1 & _). destruct (cls_cont t2 ltac:(lia)) as (_ & C2 & _).
    destruct (cls_cont t3 ltac:(lia)) as (_ & C3 & _).
    exists l, [t1; t2; t3]. repeat split; auto; try lia. { repeat constructor; auto. } { intro K; congruence. }
    repeat constructor; lia.
Qed.

Lemma encode_nonempty c : scalar c -> (0 < length (encode c))%nat.
Proof. intro H. destruct (encode_decomp c H) as (l & t & E & _). rewrite E. cbn. lia. Qed.

Lemma encode_nonul c : scalar c -> nonul (encode c).
Proof.
  intro H. destruct (encode_decomp c H) as (l & t & E & _ & _ & Hl & _ & _ & Ht). rewrite E.
  constructor; [exact Hl|exact Ht].
Qed.

Lemma chars_cons c cs : chars (c :: cs) = encode c ++ chars cs.
Proof. reflexivity. Qed.
Lemma chars_app a b : chars (a ++ b) = chars a ++ chars b.
Proof. unfold chars. apply flat_map_app. Qed.

Lemma chars_hd_noncont cs : Forall scalar cs -> hd_noncont (chars cs).
Proof.
  intros H. destruct H as [|c cs Hc Hcs]; [exact I|].
  rewrite chars_cons. destruct (encode_decomp c Hc) as (l & t & E & Hl & _). rewrite E. cbn. exact Hl.
Qed.

Lemma chars_nonul cs : Forall scalar cs -> nonul (chars cs).
Proof.
  induction 1 as [|c cs Hc Hcs IH]; [constructor|]. rewrite chars_cons. apply Forall_app. split; [apply encode_nonul, Hc|exact IH].
Qed.

(* ---------- uc_end / uc_next on the first character of a valid string ---------- *)
Lemma uc_end_encode c rest : scalar c -> hd_noncont rest ->
  uc_end (encode c ++ rest) = (length (encode c) - 1)%nat.
Proof.
  intros Hs Hr. destruct (encode_decomp c Hs) as (l & t & E & Hl & Ht & Hl0 & Hasc & Hlead & _). rewrite E.
  cbn [app uc_end length]. destruct (bit l 128) eqn:B; cbn [negb].
  - rewrite (Hlead eq_refl). rewrite skip_cont_app by assumption. lia.
  - rewrite (Hasc eq_refl). reflexivity.
Qed.

Lemma nthb_app_l (s r : bytes) i : (i < length s)%nat -> nthb (s ++ r) i = nthb s i.
Proof. intro H. unfold nthb. apply app_nth1, H. Qed.

Lemma uc_next_encode c rest : scalar c -> hd_noncont rest ->
  uc_next (encode c ++ rest) = length (encode c).
Proof.
  intros Hs Hr. unfold uc_next. rewrite uc_end_encode by assumption.
  pose proof (encode_nonempty c Hs) as Hn.
  rewrite nthb_app_l by lia.
  assert (Hz : nthb (encode c) (length (encode c) - 1) <> 0).
  { pose proof (encode_nonul c Hs) as Hnn. unfold nonul in Hnn. rewrite Forall_forall in Hnn.
    unfold nthb. assert (In (nth (length (encode c) - 1) (encode c) 0) (encode c)) as Hin by (apply nth_In; lia).
    specialize (Hnn _ Hin). unfold byte_ok in Hnn. lia. }
  destruct (N.eqb_spec (nthb (encode c) (length (encode c) - 1)) 0); [contradiction|lia].
Qed.

(* ---------- uc_slen ---------- *)
Lemma uc_slen_f_chars cs : Forall scalar cs -> forall fuel, (length (chars cs) <= fuel)%nat ->
  uc_slen_f fuel (chars cs) = length cs.
Proof.
  induction 1 as [|c cs Hc Hcs IH]; intros fuel Hf.
  - destruct fuel; reflexivity.
  - rewrite chars_cons in *. rewrite app_length in Hf. pose proof (encode_nonempty c Hc) as Hn.
    destruct fuel as [|fuel]; [lia|]. cbn [uc_slen_f].
    destruct (encode c ++ chars cs) eqn:E. { apply (f_equal (@length N)) in E. rewrite app_length in E. cbn in E. lia. }
    rewrite <- E. rewrite uc_end_encode by (auto using chars_hd_noncont).
    replace (S (length (encode c) - 1)) with (length (encode c)) by lia.
    rewrite skipn_app_exact. cbn [length]. f_equal. apply IH. lia.
Qed.

Theorem uc_slen_chars cs : Forall scalar cs -> uc_slen (chars cs) = length cs.
Proof. intro H. unfold uc_slen. apply uc_slen_f_chars; [exact H|lia]. Qed.

(* ---------- uc_chop lists exactly the character boundaries ---------- *)
Lemma uc_next_nil : uc_next [] = 0%nat.
Proof. reflexivity. Qed.

Lemma uc_chop_f_chars cs : Forall scalar cs -> forall base,
  uc_chop_f (S (length cs)) (chars cs) base = bounds cs base.
Proof.
  induction 1 as [|c cs Hc Hcs IH]; intro base.
  - reflexivity.
  - cbn [length uc_chop_f bounds]. f_equal. rewrite chars_cons.
    rewrite uc_next_encode by (auto using chars_hd_noncont). rewrite skipn_app_exact. apply IH.
Qed.

Theorem uc_chop_chars cs : Forall scalar cs -> uc_chop (chars cs) = bounds cs 0.
Proof. intro H. unfold uc_chop. rewrite uc_slen_chars by assumption. apply uc_chop_f_chars, H. Qed.

(* ---------- uc_chr: the byte offset of the k-th character ---------- *)
Lemma off_of_0 cs : off_of cs 0 = 0%nat.
Proof. reflexivity. Qed.
Lemma off_of_S c cs k : off_of (c :: cs) (S k) = (length (encode c) + off_of cs k)%nat.
Proof. unfold off_of. cbn [firstn]. rewrite chars_cons, app_length. reflexivity. Qed.

Lemma uc_chr_f_chars cs : Forall scalar cs -> forall fuel k i base,
  (length cs <= fuel)%nat -> (k <= length cs)%nat ->
  uc_chr_f fuel (chars cs) i (i + Z.of_nat k)%Z base = Some (base + off_of cs k)%nat.
Proof.
  induction 1 as [|c cs Hc Hcs IH]; intros fuel k i base Hf Hk.
  - cbn in Hk. assert (k = 0%nat) by lia. subst k. cbn [chars flat_map]. destruct fuel; cbn [uc_chr_f];
    (replace (i =? i + Z.of_nat 0)%Z with true by lia); rewrite orb_true_r; rewrite off_of_0; f_equal; lia.
  - rewrite chars_cons. pose proof (encode_nonempty c Hc) as Hn.
    destruct (encode c ++ chars cs) eqn:E. { apply (f_equal (@length N)) in E. rewrite app_length in E. cbn in E. lia. }
    rewrite <- E. cbn [length] in Hf, Hk. destruct fuel as [|fuel]; [lia|]. destruct k as [|k].
    + rewrite E. cbn [uc_chr_f]. replace (i =? i + Z.of_nat 0)%Z with true by lia. rewrite off_of_0. f_equal. lia.
    + rewrite E. cbn [uc_chr_f]. replace (i =? i + Z.of_nat (S k))%Z with false by lia. rewrite <- E.
      rewrite uc_next_encode by (auto using chars_hd_noncont). rewrite skipn_app_exact.
      replace (i + Z.of_nat (S k))%Z with ((i + 1) + Z.of_nat k)%Z by lia.
      rewrite IH by lia. rewrite off_of_S. f_equal. lia.
Qed.

Theorem uc_chr_chars cs k : Forall scalar cs -> (k <= length cs)%nat ->
  uc_chr (chars cs) (Z.of_nat k) = Some (off_of cs k).
Proof.
  intros H Hk. unfold uc_chr. change (Z.of_nat k) with (0 + Z.of_nat k)%Z.
  rewrite uc_chr_f_chars; auto.
  pose proof (uc_slen_chars cs H). (* length cs <= length (chars cs) *)
  clear - H. induction H as [|c cs Hc Hcs IH]; [cbn; lia|].
  rewrite chars_cons, app_length. pose proof (encode_nonempty c Hc). cbn [length]. lia.
Qed.

(* ---------- uc_off inverts uc_chr ---------- *)
Lemma uc_off_f_chars cs : Forall scalar cs -> forall fuel k pos,
  (length cs <= fuel)%nat -> (k <= length cs)%nat ->
  uc_off_f fuel (chars cs) pos (pos + off_of cs k) = k.
Proof.
  induction 1 as [|c cs Hc Hcs IH]; intros fuel k pos Hf Hk.
  - cbn in Hk. assert (k = 0%nat) by lia. subst k. destruct fuel; reflexivity.
  - rewrite chars_cons. pose proof (encode_nonempty c Hc) as Hn.
    destruct (encode c ++ chars cs) eqn:E. { apply (f_equal (@length N)) in E. rewrite app_length in E. cbn in E. lia. }
    rewrite <- E. cbn [length] in Hf, Hk. destruct fuel as [|fuel]; [lia|]. cbn [uc_off_f]. rewrite E at 1.
    destruct k as [|k].
    + rewrite off_of_0. replace (pos <? pos + 0)%nat with false by lia. reflexivity.
    + rewrite off_of_S. replace (pos <? pos + (length (encode c) + off_of cs k))%nat with true by lia.
      rewrite uc_next_encode by (auto using chars_hd_noncont). rewrite skipn_app_exact.
      replace (pos + (length (encode c) + off_of cs k))%nat with ((pos + length (encode c)) + off_of cs k)%nat by lia.
      f_equal. apply IH; lia.
Qed.

Lemma length_cs_le_chars cs : Forall scalar cs -> (length cs <= length (chars cs))%nat.
Proof.
  induction 1 as [|c cs Hc Hcs IH]; [cbn; lia|].
  rewrite chars_cons, app_length. pose proof (encode_nonempty c Hc). cbn [length]. lia.
Qed.

Theorem uc_off_chars cs k : Forall scalar cs -> (k <= length cs)%nat ->
  uc_off (chars cs) (off_of cs k) = k.
Proof.
  intros H Hk. unfold uc_off. change (off_of cs k) with (0 + off_of cs k)%nat.
  apply uc_off_f_chars; auto using length_cs_le_chars.
Qed.

(* ---------- off_of splits the string at a character boundary ---------- *)
Lemma firstn_off_of cs k : firstn (off_of cs k) (chars cs) = chars (firstn k cs).
Proof.
  unfold off_of. rewrite <- (firstn_skipn k cs) at 2. rewrite chars_app. apply firstn_app_exact.
Qed.
Lemma skipn_off_of cs k : skipn (off_of cs k) (chars cs) = chars (skipn k cs).
Proof.
  unfold off_of. rewrite <- (firstn_skipn k cs) at 2. rewrite chars_app. apply skipn_app_exact.
Qed.
Lemma off_of_mono cs a b : (a <= b)%nat -> (off_of cs a <= off_of cs b)%nat.
Proof.
  intro H. unfold off_of. replace b with (a + (b - a))%nat by lia.
  rewrite <- (firstn_skipn a (firstn (a + (b - a)) cs)). rewrite firstn_firstn.
  replace (Nat.min a (a + (b - a))) with a by lia. rewrite chars_app, app_length. lia.
Qed.

(* ---------- uc_sub returns the characters b .. e-1 ---------- *)
Theorem uc_sub_chars cs b e : Forall scalar cs -> (b <= e)%nat -> (e <= length cs)%nat ->
  uc_sub (chars cs) (Z.of_nat b) (Z.of_nat e) = Some (chars (firstn (e - b) (skipn b cs))).
Proof.
  intros H Hbe He. unfold uc_sub. rewrite !uc_chr_chars by (auto; lia).
  pose proof (off_of_mono cs b e Hbe) as Hm.
  replace (off_of cs b <=? off_of cs e)%nat with true by lia. f_equal.
  rewrite skipn_off_of.
  assert (E : (off_of cs e - off_of cs b)%nat = off_of (skipn b cs) (e - b)).
  { unfold off_of. rewrite <- (firstn_skipn b (firstn e cs)). rewrite firstn_firstn.
    replace (Nat.min b e) with b by lia. rewrite chars_app, app_length.
    rewrite skipn_firstn_comm. lia. }
  rewrite E. apply firstn_off_of.
Qed.

(* ---------- uc_prev undoes uc_next on character boundaries ---------- *)
(* uc_beg walks back over continuation bytes: on (rev t ++ l :: pre) starting at the last byte *)
Lemma uc_beg_back (t : bytes) : all_cont t -> forall l pre cur, is_cont l = false -> is_cont cur = true ->
  uc_beg (rev t ++ l :: pre) cur = S (length t).
Proof.
  intro Ht. induction t as [|b t IH] using rev_ind; intros l pre cur Hl Hc.
  - cbn [rev app uc_beg length]. rewrite Hc. destruct pre; cbn [uc_beg]; rewrite ?Hl; reflexivity.
  - apply Forall_app in Ht. destruct Ht as [Ht Hb]. inversion Hb as [|? ? Hb' _]; subst.
    rewrite rev_app_distr. cbn [rev app]. cbn [uc_beg]. rewrite Hc. rewrite app_length. cbn [length].
    rewrite IH by assumption. lia.
Qed.

Lemma uc_prev_encode c pre : scalar c ->
  uc_prev (rev (encode c) ++ pre) = length (encode c).
Proof.
  intro Hs. destruct (encode_decomp c Hs) as (l & t & E & Hl & Ht & _). rewrite E.
  cbn [rev length]. destruct t as [|b t] using rev_ind.
  - cbn [rev app uc_prev length]. destruct pre; cbn [uc_beg]; rewrite ?Hl; reflexivity.
  - clear IHt. apply Forall_app in Ht. destruct Ht as [Ht Hb]. inversion Hb as [|? ? Hb' _]; subst.
    rewrite rev_app_distr. cbn [rev app uc_prev]. rewrite <- app_assoc. cbn [app].
    rewrite uc_beg_back by assumption. rewrite app_length. cbn [length]. lia.
Qed.

(* next then prev, and prev then next, return to the same boundary *)
Theorem uc_next_prev_inverse cs1 c cs2 : Forall scalar cs1 -> scalar c -> Forall scalar cs2 ->
  uc_next (chars (c :: cs2)) = length (encode c) /\
  uc_prev (rev (chars (cs1 ++ [c]))) = length (encode c).
Proof.
  intros H1 Hc H2. split.
  - rewrite chars_cons. apply uc_next_encode; auto using chars_hd_noncont.
  - rewrite chars_app, rev_app_distr. cbn [chars flat_map]. rewrite app_nil_r. apply uc_prev_encode, Hc.
Qed.

(* lead-byte length and continuation-byte scanning agree on valid input *)
Theorem uc_len_end_agree c cs : scalar c -> Forall scalar cs ->
  uc_len (chars (c :: cs)) = S (uc_end (chars (c :: cs))).
Proof.
  intros Hc Hcs. rewrite chars_cons. rewrite uc_end_encode by (auto using chars_hd_noncont).
  destruct (uc_len_code_encode c (chars cs) Hc) as [-> _]. pose proof (encode_nonempty c Hc). lia.
Qed.

(* ---------- splicing at character offsets keeps validity ---------- *)
Theorem splice_valid cs ins a b : Forall scalar cs -> Forall scalar ins -> (a <= b)%nat -> (b <= length cs)%nat ->
  forall pa pb, uc_chr (chars cs) (Z.of_nat a) = Some pa -> uc_chr (chars cs) (Z.of_nat b) = Some pb ->
  valid (firstn pa (chars cs) ++ chars ins ++ skipn pb (chars cs)).
Proof.
  intros H Hi Hab Hb pa pb Ea Eb. rewrite uc_chr_chars in Ea, Eb by (auto; lia).
  inversion Ea; inversion Eb; subst. rewrite firstn_off_of, skipn_off_of.
  exists (firstn a cs ++ ins ++ skipn b cs). split.
  - apply Forall_app; split; [apply Forall_firstn'; auto|]. apply Forall_app; split; [auto|]. apply Forall_skipn'; auto.
  - rewrite !chars_app. reflexivity.
Qed.

(* ---------- uc_cput is the RFC 3629 encoder ---------- *)
Lemma lor_hi_add (h x : N) k : x < 2 ^ k -> N.land h (N.ones k) = 0 -> N.lor h x = h + x.
Proof.
  intros Hx Hh.
  assert (Hd : N.land h x = 0).
  { apply N.bits_inj_iff. intro n. rewrite N.land_spec, N.bits_0.
    destruct (N.ltb_spec n k) as [Hn|Hn].
    - assert (E : N.testbit (N.land h (N.ones k)) n = false) by (rewrite Hh; apply N.bits_0).
      rewrite N.land_spec, N.ones_spec_low in E by assumption. rewrite andb_true_r in E. rewrite E. reflexivity.
    - destruct (N.eq_dec x 0) as [->|Hx0]. { rewrite N.bits_0. apply andb_false_r. }
      rewrite (N.bits_above_log2 x n). { apply andb_false_r. }
      apply N.log2_lt_pow2 in Hx; [|lia]. lia. }
  rewrite <- N.lxor_lor by exact Hd. rewrite <- N.add_nocarry_lxor by exact Hd. reflexivity.
Qed.

Lemma land63 x : N.land x 63 = x mod 64.
Proof. change 63 with (N.ones 6). rewrite N.land_ones. reflexivity. Qed.

Theorem uc_cput_encode c : scalar c -> uc_cput c = encode c.
Proof.
  intros (H0 & H1 & _). unfold uc_cput, encode.
  rewrite !land63, !shiftr_div.
  change (2 ^ 18) with 262144. change (2 ^ 12) with 4096. change (2 ^ 6) with 64.
  destruct (65535 <? c) eqn:E1.
  - replace (c <? 128) with false by lia. replace (c <? 2048) with false by lia. replace (c <? 65536) with false by lia.
    rewrite (lor_hi_add 240 (c / 262144) 4) by (try reflexivity; change (2 ^ 4) with 16; lia).
    rewrite !(lor_hi_add 128 _ 6) by (try reflexivity; change (2 ^ 6) with 64; lia).
    reflexivity.
  - destruct (2047 <? c) eqn:E2.
    + replace (c <? 128) with false by lia. replace (c <? 2048) with false by lia. replace (c <? 65536) with true by lia.
      rewrite (lor_hi_add 224 (c / 4096) 4) by (try reflexivity; change (2 ^ 4) with 16; lia).
      rewrite !(lor_hi_add 128 _ 6) by (try reflexivity; change (2 ^ 6) with 64; lia).
      reflexivity.
    + destruct (127 <? c) eqn:E3.
      * replace (c <? 128) with false by lia. replace (c <? 2048) with true by lia.
        rewrite (lor_hi_add 192 (c / 64) 5) by (try reflexivity; change (2 ^ 5) with 32; lia).
        rewrite !(lor_hi_add 128 _ 6) by (try reflexivity; change (2 ^ 6) with 64; lia).
        reflexivity.
      * replace (c <? 128) with true by lia. reflexivity.
Qed.
