(* TrSbuf.v -- /repo/sbuf.c, the growable string buffer, tied to its model (coq/IoDefs.v: sbuf_mem / sbuf_chr / sbuf_buf with
   the capacity rule NEXTSZ / ALIGN / SBUFSZ) BY PROOF on the translated C text (coq/GenCFuncs.v, whitelist
   tools/c2clite.d/90_sbuf.list).  The first heap-allocating code proved on the C text: malloc appends a fresh block of
   indeterminate cells, free empties a block (CLite.do_builtin_m; generic lemmas at the end of CLiteProps.v).

   `struct sbuf { char *s; int s_n; int s_sz; }` is a block of three cells.  sbuf_rep m p cs sz: block p of m is a live
   struct sbuf that holds the cells cs (the chars as the ints the C code stored: a `char` cell written by sbuf_chr holds
   wrap I8 c, cells copied by memcpy are copied as they are; the byte the model sees is the cell modulo 256, byte_of) in an
   allocation of sz cells: either s == NULL, s_n == 0, s_sz == 0, or s points to the start of a block of exactly sz cells whose
   first |cs| cells are cs, with |cs| < sz (room for the terminator) and sz inside int.
   Every theorem: the call returns Ok (so every load/store/memcpy/free it made was inside a live block: an access outside is
   Err EOob in CLite), the resulting memory satisfies sbuf_rep for the model's new contents and capacity, and sbuf_step m m' p:
   memory only grew, the data block is the old one or a fresh one (index >= length m), and every block that existed before,
   other than p and the old data block, is unchanged. *)
From Coq Require Import List ZArith NArith Bool Lia.
From NV Require Import Bytes GenConsts IoDefs IoProps CLite CLiteProps GenCFuncs CLiteTac.
Import ListNotations.
Local Open Scope Z_scope.

Definition byte_of (z : Z) : N := Z.to_N (z mod 256).
Definition sb_model (cs : list Z) (sz : Z) : IoDefs.sbuf :=
  {| sb_data := map byte_of cs; sb_n := Z.of_nat (length cs); sb_sz := sz |}.

Definition sbuf_rep (m : mem) (p : nat) (cs : list Z) (sz : Z) : Prop :=
  (sz = 0 /\ cs = [] /\ nth_error m p = Some [VInt 0; VInt 0; VInt 0]) \/
  (exists b rest, b <> p /\ nth_error m p = Some [VPtr b 0; VInt (Z.of_nat (length cs)); VInt sz] /\
     nth_error m b = Some (map VInt cs ++ rest) /\ Z.of_nat (length cs + length rest) = sz /\
     (0 < length rest)%nat /\ sz <= 2147483647).

Definition sbuf_datab (m : mem) (p : nat) : option nat :=
  match nth_error m p with Some (VPtr b _ :: _) => Some b | _ => None end.
Definition sbuf_step (m m' : mem) (p : nat) : Prop :=
  (length m <= length m')%nat /\
  (sbuf_datab m' p = sbuf_datab m p \/ exists b, sbuf_datab m' p = Some b /\ (length m <= b)%nat) /\
  forall b', (b' < length m)%nat -> b' <> p -> sbuf_datab m p <> Some b' -> nth_error m' b' = nth_error m b'.

Lemma sbuf_step_refl m p : sbuf_step m m p.
Proof. split; [lia|]. split; [left; reflexivity|]. reflexivity. Qed.
Lemma sbuf_step_trans m1 m2 m3 p : sbuf_step m1 m2 p -> sbuf_step m2 m3 p -> sbuf_step m1 m3 p.
Proof.
  intros [L1 [D1 F1]] [L2 [D2 F2]]. split; [lia|]. split.
  - destruct D2 as [D2|[b [D2 Hb]]]; [rewrite D2; exact D1|]. right. exists b. split; [exact D2|lia].
  - intros b' Hb Hp Hd. rewrite F2; [apply F1; assumption|lia|exact Hp|].
    destruct D1 as [D1|[b [D1 Hb1]]]; [rewrite D1; exact Hd|]. rewrite D1. intro E. injection E as E. lia.
Qed.

Lemma rep_sz m p cs sz : sbuf_rep m p cs sz -> 0 <= Z.of_nat (length cs) <= sz /\ sz <= 2147483647 /\ (sz = 0 \/ Z.of_nat (length cs) < sz).
Proof.
  intros [[-> [-> _]]|[b [rest [_ [_ [_ [L [R S]]]]]]]]; cbn [length]; lia.
Qed.
Lemma rep_p_lt m p cs sz : sbuf_rep m p cs sz -> (p < length m)%nat.
Proof. intros [[_ [_ H]]|[b [rest [_ [H _]]]]]; apply nth_error_Some; congruence. Qed.

(* closed integer computations left by xstep *)
Ltac has_var z := match z with context [?x] => is_var x end.
Ltac xclosed :=
  repeat match goal with
         | |- context [chk ?t ?z] =>
             tryif has_var z then fail else
             (let v := eval vm_compute in (chk t z) in
              match v with Ok _ => change (chk t z) with v end)
         | |- context [if ?a =? 0 then Err EDivZero else ?x] =>
             tryif has_var a then fail else
             (let v := eval vm_compute in (a =? 0) in
              match v with false => change (if a =? 0 then Err EDivZero else x) with x end)
         end.
Ltac xs := repeat (progress (xstep; xclosed)).
(* loads of the three fields *)
Lemma ld3 (m : mem) p a b c : nth_error m p = Some [a; b; c] ->
  load m p 0 = Ok a /\ load m p (0 + 1 * 1) = Ok b /\ load m p (0 + 1 * 2) = Ok c.
Proof. intro H. unfold load. rewrite H. repeat split. Qed.
Lemma st3 (m : mem) p a b c v : nth_error m p = Some [a; b; c] ->
  store m p 0 v = Ok (upd m p [v; b; c]) /\ store m p (0 + 1 * 1) v = Ok (upd m p [a; v; c]) /\ store m p (0 + 1 * 2) v = Ok (upd m p [a; b; v]).
Proof. intro H. repeat split; rewrite (store_ok m p [a; b; c]) by (try exact H; cbn; lia); reflexivity. Qed.

(* ------------------------------------------------------------------ sbuf_make *)
Theorem tr_sbuf_make m d fuel :
  callf cprog fuel (S d) F_sbuf_make [] m = Ok (VPtr (length m) 0, m ++ [[VInt 0; VInt 0; VInt 0]]).
Proof.
  enter F_sbuf_make cf_sbuf_make. xs.
  rewrite malloc_ok by lia. xs.
  rewrite (memset_ok _ (length m) 0 0 3 (repeat VUndef (Z.to_nat 3))) by (try apply nth_error_app_new; rewrite ?repeat_length; lia).
  xstep. rewrite upd_app_new. reflexivity.
Qed.
Lemma rep_make m : sbuf_rep (m ++ [[VInt 0; VInt 0; VInt 0]]) (length m) [] 0.
Proof. left. split; [reflexivity|]. split; [reflexivity|]. apply nth_error_app_new. Qed.

(* ------------------------------------------------------------------ frame lemmas *)
Lemma datab_upd_p (m : mem) p s' : (p < length m)%nat ->
  sbuf_datab (upd m p s') p = match s' with VPtr b _ :: _ => Some b | _ => None end.
Proof. intro H. unfold sbuf_datab. rewrite mem_upd_same by exact H. reflexivity. Qed.
Lemma datab_upd_other (m : mem) p b blk' : (b < length m)%nat -> b <> p -> sbuf_datab (upd m b blk') p = sbuf_datab m p.
Proof. intros H Hne. unfold sbuf_datab. rewrite mem_upd_other by auto. reflexivity. Qed.
Lemma mlen_upd (m : mem) b blk' : (b < length m)%nat -> length (upd m b blk') = length m.
Proof. apply upd_length. Qed.
Lemma step_upd_p (m : mem) p s' : (p < length m)%nat -> sbuf_datab (upd m p s') p = sbuf_datab m p -> sbuf_step m (upd m p s') p.
Proof.
  intros H E. split; [rewrite mlen_upd by exact H; lia|]. split; [left; exact E|].
  intros b' Hb Hp _. apply mem_upd_other; assumption.
Qed.
Lemma step_upd_data (m : mem) p b blk' : sbuf_datab m p = Some b -> (b < length m)%nat -> b <> p -> sbuf_step m (upd m b blk') p.
Proof.
  intros D H Hne. split; [rewrite mlen_upd by exact H; lia|]. split; [left; apply datab_upd_other; assumption|].
  intros b' Hb Hp Hd. apply mem_upd_other; [exact H|]. intros ->. apply Hd. exact D.
Qed.
Lemma datab_of (m : mem) p b o x y : nth_error m p = Some [VPtr b o; x; y] -> sbuf_datab m p = Some b.
Proof. intro H. unfold sbuf_datab. rewrite H. reflexivity. Qed.
Lemma datab_null (m : mem) p x y : nth_error m p = Some [VInt 0; x; y] -> sbuf_datab m p = None.
Proof. intro H. unfold sbuf_datab. rewrite H. reflexivity. Qed.

(* ------------------------------------------------------------------ sbuf_len *)
Theorem tr_sbuf_len m p cs sz d fuel : sbuf_rep m p cs sz ->
  callf cprog fuel (S d) F_sbuf_len [VPtr p 0] m = Ok (VInt (Z.of_nat (length cs)), m).
Proof.
  intro R. pose proof (rep_sz _ _ _ _ R) as Hs.
  enter F_sbuf_len cf_sbuf_len. xs.
  destruct R as [[-> [-> Hp]]|[b [rest [Hb [Hp _]]]]]; destruct (ld3 _ _ _ _ _ Hp) as [L0 [L1 L2]]; rewrite L1; xs;
    rewrite ?wrap_I32_id by lia; reflexivity.
Qed.

(* ------------------------------------------------------------------ sbuf_cut *)
Theorem tr_sbuf_cut m p cs sz len d fuel : sbuf_rep m p cs sz -> 0 <= len <= 2147483647 ->
  exists m', callf cprog fuel (S d) F_sbuf_cut [VPtr p 0; VInt len] m = Ok (VUndef, m') /\
    sbuf_rep m' p (firstn (Z.to_nat len) cs) sz /\ sbuf_step m m' p /\ sbuf_datab m' p = sbuf_datab m p /\ length m' = length m.
Proof.
  intros R Hlen. pose proof (rep_sz _ _ _ _ R) as Hs. pose proof (rep_p_lt _ _ _ _ R) as Hpl.
  enter F_sbuf_cut cf_sbuf_cut. xs.
  destruct R as [[-> [-> Hp]]|[b [rest [Hb [Hp [Hd [Hl [Hr Hz]]]]]]]]; destruct (ld3 _ _ _ _ _ Hp) as [L0 [L1 L2]]; rewrite L1; xs.
  - change (wrap I32 0) with 0. destruct (Z.ltb_spec len 0); [lia|]. xs.
    exists m. split; [reflexivity|]. split; [rewrite firstn_nil; left; auto|]. split; [apply sbuf_step_refl|]. auto.
  - rewrite wrap_I32_id by lia. destruct (Z.ltb_spec len (Z.of_nat (length cs))) as [L|L]; xs.
    + destruct (st3 m p _ _ _ (VInt (wrap I32 len)) Hp) as [_ [S1 _]]. rewrite S1. xs. rewrite wrap_I32_id by lia.
      eexists. split; [reflexivity|].
      assert (D : sbuf_datab (upd m p [VPtr b 0; VInt len; VInt sz]) p = sbuf_datab m p)
        by (rewrite datab_upd_p by exact Hpl; symmetry; eapply datab_of; exact Hp).
      split; [|split; [apply step_upd_p; assumption|split; [exact D|apply mlen_upd; exact Hpl]]].
      right. exists b, (map VInt (skipn (Z.to_nat len) cs) ++ rest).
      split; [exact Hb|]. rewrite firstn_length, Nat.min_l by lia. rewrite Z2Nat.id by lia.
      split; [apply mem_upd_same; exact Hpl|]. rewrite mem_upd_other by auto.
      split; [rewrite Hd, app_assoc, <- map_app, firstn_skipn; reflexivity|].
      rewrite app_length, map_length, skipn_length. split; [lia|]. split; [lia|exact Hz].
    + exists m. split; [reflexivity|]. rewrite firstn_all2 by lia.
      split; [right; exists b, rest; auto 10|]. split; [apply sbuf_step_refl|]. auto.
Qed.

(* ------------------------------------------------------------------ sbuf_extend *)
Ltac mlen := repeat first [rewrite mlen_upd by mlen | rewrite app_length]; cbn [length]; lia.
Ltac mnth := repeat first [ rewrite mem_upd_same by mlen | rewrite mem_upd_other by (first [mlen | lia | congruence])
                          | rewrite nth_error_app_new | rewrite nth_error_app_old by mlen ].

Theorem tr_sbuf_extend m p cs sz newsz d fuel :
  sbuf_rep m p cs sz -> Z.of_nat (length cs) < newsz <= 2147483647 ->
  exists m', callf cprog fuel (S d) F_sbuf_extend [VPtr p 0; VInt newsz] m = Ok (VUndef, m') /\
    sbuf_rep m' p cs newsz /\ sbuf_step m m' p /\ sbuf_datab m' p = Some (length m) /\ length m' = S (length m) /\
    (forall bo, sbuf_datab m p = Some bo -> nth_error m' bo = Some []).
Proof.
  intros R Hn. pose proof (rep_sz _ _ _ _ R) as Hs. pose proof (rep_p_lt _ _ _ _ R) as Hpl.
  enter F_sbuf_extend cf_sbuf_extend. xs.
  destruct R as [[-> [-> Hp]]|[b [rest [Hb [Hp [Hd [Hl [Hr Hz]]]]]]]]; destruct (ld3 _ _ _ _ _ Hp) as [L0 [L1 L2]]; rewrite L0; xs.
  - destruct (st3 m p _ _ _ (VInt (wrap I32 newsz)) Hp) as [_ [_ S2]]. rewrite S2. xs. rewrite wrap_I32_id by lia.
    set (m1 := upd m p _).
    assert (Hp1 : nth_error m1 p = Some [VInt 0; VInt 0; VInt newsz]) by (apply mem_upd_same; exact Hpl).
    destruct (ld3 _ _ _ _ _ Hp1) as [L10 [L11 L12]]. rewrite L12. xs. rewrite wrap_I32_id by lia.
    rewrite wrap_U64_id by lia. rewrite malloc_ok by lia. xs.
    assert (Hl1 : length m1 = length m) by (apply mlen_upd; exact Hpl). rewrite Hl1.
    set (m2 := m1 ++ _).
    assert (Hp2 : nth_error m2 p = Some [VInt 0; VInt 0; VInt newsz]) by (unfold m2; rewrite nth_error_app_old by lia; exact Hp1).
    destruct (st3 m2 p _ _ _ (VPtr (length m) 0) Hp2) as [S20 _]. rewrite S20. xs.
    set (m3 := upd m2 p _).
    assert (Hp3 : nth_error m3 p = Some [VPtr (length m) 0; VInt 0; VInt newsz]) by (apply mem_upd_same; unfold m2; mlen).
    destruct (ld3 _ _ _ _ _ Hp3) as [L30 [L31 L32]]. rewrite L31. xs. change (wrap I32 0 =? 0) with true. xs.
    rewrite free_null. xs.
    exists m3. split; [reflexivity|].
    assert (D3 : sbuf_datab m3 p = Some (length m)) by (eapply datab_of; exact Hp3).
    assert (Hl3 : length m3 = S (length m)) by (unfold m3, m2, m1; mlen).
    split; [|split; [|split; [exact D3|split; [exact Hl3|]]]].
    + right. exists (length m), (repeat VUndef (Z.to_nat newsz)). split; [lia|]. split; [exact Hp3|].
      split; [unfold m3, m2; rewrite mem_upd_other by mlen; rewrite <- Hl1; apply nth_error_app_new|].
      rewrite repeat_length. cbn [length] in *. lia.
    + split; [lia|]. split; [right; exists (length m); split; [exact D3|lia]|].
      intros b' Hb' Hne _. unfold m3, m2, m1. mnth. reflexivity.
    + intros bo Hbo. rewrite (datab_null _ _ _ _ Hp) in Hbo. discriminate.
  - destruct (st3 m p _ _ _ (VInt (wrap I32 newsz)) Hp) as [_ [_ S2]]. rewrite S2. xs. rewrite wrap_I32_id by lia.
    set (n := Z.of_nat (length cs)) in *.
    set (m1 := upd m p _).
    assert (Hp1 : nth_error m1 p = Some [VPtr b 0; VInt n; VInt newsz]) by (apply mem_upd_same; exact Hpl).
    destruct (ld3 _ _ _ _ _ Hp1) as [L10 [L11 L12]]. rewrite L12. xs. rewrite wrap_I32_id by lia.
    rewrite wrap_U64_id by lia. rewrite malloc_ok by lia. xs.
    assert (Hl1 : length m1 = length m) by (apply mlen_upd; exact Hpl). rewrite Hl1.
    set (m2 := m1 ++ _).
    assert (Hp2 : nth_error m2 p = Some [VPtr b 0; VInt n; VInt newsz]) by (unfold m2; rewrite nth_error_app_old by lia; exact Hp1).
    destruct (st3 m2 p _ _ _ (VPtr (length m) 0) Hp2) as [S20 _]. rewrite S20. xs.
    set (m3 := upd m2 p _).
    assert (Hp3 : nth_error m3 p = Some [VPtr (length m) 0; VInt n; VInt newsz]) by (apply mem_upd_same; unfold m2; mlen).
    destruct (ld3 _ _ _ _ _ Hp3) as [L30 [L31 L32]]. rewrite L31. xs. rewrite wrap_I32_id by lia.
    assert (Hbl : (b < length m)%nat) by (apply nth_error_Some; congruence).
    assert (Hb3 : nth_error m3 b = Some (map VInt cs ++ rest)) by (unfold m3, m2, m1; mnth; exact Hd).
    assert (Hn3 : nth_error m3 (length m) = Some (repeat VUndef (Z.to_nat newsz)))
      by (unfold m3, m2; rewrite mem_upd_other by mlen; rewrite <- Hl1; apply nth_error_app_new).
    assert (Hl3 : length m3 = S (length m)) by (unfold m3, m2, m1; mlen).
    assert (F3 : forall b', (b' < length m)%nat -> b' <> p -> nth_error m3 b' = nth_error m b')
      by (intros b' Hb' Hne; unfold m3, m2, m1; mnth; reflexivity).
    assert (Hne : map VInt cs ++ rest <> []) by (destruct rest; [cbn in Hr; lia|]; intro E; apply app_eq_nil in E; destruct E; discriminate).
    assert (DM : sbuf_datab m p = Some b) by (eapply datab_of; exact Hp).
    assert (Fin : forall (m4 : mem) rest', nth_error m4 p = Some [VPtr (length m) 0; VInt n; VInt newsz] ->
               nth_error m4 (length m) = Some (map VInt cs ++ rest') -> Z.of_nat (length cs + length rest') = newsz ->
               (length m4 = S (length m))%nat -> (forall b', (b' < length m)%nat -> b' <> p -> nth_error m4 b' = nth_error m b') ->
               let m' := upd m4 b [] in
               sbuf_rep m' p cs newsz /\ sbuf_step m m' p /\ sbuf_datab m' p = Some (length m) /\ (length m' = S (length m))%nat /\ (forall bo : nat, sbuf_datab m p = Some bo -> nth_error m' bo = Some [])).
    { intros m4 rest' Hp4 Hn4 Hl4 Hlen4 F4 m'.
      assert (Hp' : nth_error m' p = Some [VPtr (length m) 0; VInt n; VInt newsz]) by (unfold m'; rewrite mem_upd_other by (auto; lia); exact Hp4).
      assert (D' : sbuf_datab m' p = Some (length m)) by (eapply datab_of; exact Hp').
      assert (Hl' : length m' = S (length m)) by (unfold m'; rewrite mlen_upd by lia; exact Hlen4).
      split; [|split; [|split; [exact D'|split; [exact Hl'|]]]].
      - right. exists (length m), rest'. split; [lia|]. split; [exact Hp'|].
        split; [unfold m'; rewrite mem_upd_other by lia; exact Hn4|]. split; [exact Hl4|]. split; [lia|lia].
      - split; [lia|]. split; [right; exists (length m); split; [exact D'|lia]|].
        intros b' Hb' Hne' Hdb. unfold m'. rewrite mem_upd_other by (try lia; intros ->; apply Hdb; exact DM). apply F4; assumption.
      - intros bo Hbo. rewrite DM in Hbo. injection Hbo as <-. unfold m'. apply mem_upd_same. lia. }
    destruct (Z.eqb_spec n 0) as [E0|E0]; xs.
    + rewrite (free_ok m3 b _ Hb3 Hne). xs. eexists. split; [reflexivity|].
      assert (cs = []) as -> by (destruct cs; [reflexivity|cbn in n; lia]).
      apply (Fin m3 (repeat VUndef (Z.to_nat newsz))); try assumption. rewrite repeat_length. cbn [length] in *. lia.
    + rewrite L30. xs. rewrite L31. xs. rewrite wrap_I32_id, wrap_U64_id by lia.
      rewrite (memcpy_ok m3 (length m) 0 b 0 n _ _ Hn3 Hb3) by (rewrite ?repeat_length, ?app_length, ?map_length; lia).
      xs. change (Z.to_nat 0) with 0%nat. cbn [skipn].
      replace (firstn (Z.to_nat n) (map VInt cs ++ rest)) with (map VInt cs)
        by (unfold n; rewrite Nat2Z.id, firstn_app, map_length, Nat.sub_diag; cbn [firstn]; rewrite app_nil_r, <- (map_length VInt cs), firstn_all; reflexivity).
      rewrite put_cells_0. set (m4 := upd m3 (length m) _).
      assert (Hb4 : nth_error m4 b = Some (map VInt cs ++ rest)) by (unfold m4; rewrite mem_upd_other by lia; exact Hb3).
      rewrite (free_ok m4 b _ Hb4 Hne). xs. eexists. split; [reflexivity|].
      apply (Fin m4 (skipn (length (map VInt cs)) (repeat VUndef (Z.to_nat newsz)))).
      * unfold m4. rewrite mem_upd_other by lia. exact Hp3.
      * unfold m4. apply mem_upd_same. lia.
      * rewrite skipn_length, repeat_length, map_length. lia.
      * unfold m4. rewrite mlen_upd by lia. exact Hl3.
      * intros b' Hb' Hne'. unfold m4. rewrite mem_upd_other by lia. apply F3; assumption.
Qed.

(* ------------------------------------------------------------------ sbuf_mem *)
Definition mem_tail : stmt := match fn_body cf_sbuf_mem with SSeq _ t => t | _ => SSkip end.

Lemma mem_tail_ok call fuel m p cs sz bs os sblk src :
  sbuf_rep m p cs sz -> Z.of_nat (length cs) + Z.of_nat (length src) + 1 <= sz ->
  bs <> p -> sbuf_datab m p <> Some bs -> nth_error m bs = Some sblk -> 0 <= os ->
  os + Z.of_nat (length src) <= Z.of_nat (length sblk) ->
  firstn (length src) (skipn (Z.to_nat os) sblk) = map VInt src ->
  let lc := [VPtr p 0; VPtr bs os; VInt (Z.of_nat (length src))] in
  exists m', exec call fuel mem_tail (mkst lc m) = ONormal (mkst lc m') /\
    sbuf_rep m' p (cs ++ src) sz /\ sbuf_step m m' p /\ sbuf_datab m' p = sbuf_datab m p /\ length m' = length m.
Proof.
  intros R Hroom Hbs Hbd Hs Hos Hsl Hsrc lc. pose proof (rep_p_lt _ _ _ _ R) as Hpl.
  destruct R as [[-> [-> Hp]]|[b [rest [Hb [Hp [Hd [Hl [Hr Hz]]]]]]]]; [cbn [length] in Hroom; lia|].
  set (n := Z.of_nat (length cs)) in *. set (len := Z.of_nat (length src)) in *.
  destruct (ld3 _ _ _ _ _ Hp) as [L0 [L1 L2]].
  assert (DM : sbuf_datab m p = Some b) by (eapply datab_of; exact Hp).
  assert (Hbl : (b < length m)%nat) by (apply nth_error_Some; congruence).
  unfold mem_tail, lc. cbn [fn_body cf_sbuf_mem]. xs. rewrite L0. xs. rewrite L1. xs. rewrite wrap_I32_id by lia.
  rewrite wrap_U64_id by lia.
  rewrite (memcpy_ok m b (0 + 1 * n) bs os len _ _ Hd Hs) by (rewrite ?app_length, ?map_length; lia).
  xs. replace (Z.to_nat (0 + 1 * n)) with (length (map VInt cs)) by (rewrite map_length; lia).
  replace (Z.to_nat len) with (length src) by lia. rewrite Hsrc.
  rewrite put_cells_app by (rewrite map_length; lia). rewrite <- map_app, map_length.
  set (m2 := upd m b _).
  assert (Hp2 : nth_error m2 p = Some [VPtr b 0; VInt n; VInt sz]) by (unfold m2; rewrite mem_upd_other by auto; exact Hp).
  destruct (ld3 _ _ _ _ _ Hp2) as [L20 [L21 L22]]. rewrite L21. xs. rewrite wrap_I32_id by lia. rewrite chk_I32 by lia. xs.
  rewrite wrap_I32_id by lia.
  destruct (st3 m2 p _ _ _ (VInt (n + len)) Hp2) as [_ [S21 _]]. rewrite S21. xs.
  eexists. split; [reflexivity|].
  assert (Hl2 : length m2 = length m) by (apply mlen_upd; exact Hbl).
  assert (S12 : sbuf_step m m2 p) by (apply step_upd_data; auto).
  assert (D2 : sbuf_datab m2 p = sbuf_datab m p) by (apply datab_upd_other; auto).
  assert (D3 : sbuf_datab (upd m2 p [VPtr b 0; VInt (n + len); VInt sz]) p = sbuf_datab m2 p)
    by (rewrite datab_upd_p by lia; symmetry; eapply datab_of; exact Hp2).
  split; [|split; [|split; [congruence|rewrite mlen_upd by lia; exact Hl2]]].
  - right. exists b, (skipn (length src) rest). split; [exact Hb|].
    split; [rewrite mem_upd_same by lia; rewrite app_length; unfold n, len; rewrite Nat2Z.inj_add; reflexivity|].
    split; [rewrite mem_upd_other by (auto; lia); apply mem_upd_same; exact Hbl|].
    rewrite skipn_length, app_length. split; [lia|]. split; [lia|exact Hz].
  - apply (sbuf_step_trans _ m2); [exact S12|]. apply step_upd_p; [lia|exact D3].
Qed.

Definition sbuf_fits (sz r : Z) : Prop := Z.max (sz * 2) (sz + r) + SBUFSZ <= 2147483647.
Definition mem_if : stmt := match fn_body cf_sbuf_mem with SSeq i _ => i | _ => SSkip end.
Definition mem_cond : expr := match mem_if with SIf c _ _ => c | _ => EConst 0 end.
Definition mem_newsz : expr := match mem_if with SIf _ (SExpr (ECall _ [_; e])) _ => e | _ => EConst 0 end.

Lemma mem_cond_eval call (m : mem) p a n sz x len :
  nth_error m p = Some [a; VInt n; VInt sz] -> 0 <= n <= sz -> sz <= 2147483647 -> 0 <= len -> sz + len + 1 <= 2147483647 ->
  let st := mkst [VPtr p 0; x; VInt len] m in
  eval call mem_cond st = Ok (VInt (b2z (sz <=? n + len + 1)), st).
Proof.
  intros Hp Hn Hsz Hlen Hfit st. destruct (ld3 _ _ _ _ _ Hp) as [L0 [L1 L2]].
  unfold mem_cond, mem_if, st. cbn [fn_body cf_sbuf_mem]. xstep.
  rewrite L1. xs. rewrite wrap_I32_id by lia. rewrite chk_I32 by lia. xs.
  rewrite chk_I32 by lia. xs. rewrite L2. xs. rewrite wrap_I32_id by lia. reflexivity.
Qed.

Ltac xarith := repeat first [ rewrite wrap_I32_id by lia | rewrite chk_I32 by lia | progress xs ].
Ltac xarithl L := repeat first [ rewrite L | rewrite wrap_I32_id by lia | rewrite chk_I32 by lia | progress xs ].

Lemma NEXTSZ_c sz r : NEXTSZ sz r = Z.land (Z.max (sz * 2) (sz + r) + 128 - 1) (Z.lnot 127).
Proof. reflexivity. Qed.

Lemma mem_newsz_eval call (m : mem) p a n sz x len :
  nth_error m p = Some [a; VInt n; VInt sz] -> 0 <= sz <= 2147483647 -> 0 <= len -> sbuf_fits sz (len + 1) ->
  let st := mkst [VPtr p 0; x; VInt len] m in
  eval call mem_newsz st = Ok (VInt (NEXTSZ sz (len + 1)), st).
Proof.
  intros Hp Hsz Hlen Hfit st. destruct (ld3 _ _ _ _ _ Hp) as [L0 [L1 L2]].
  unfold sbuf_fits in Hfit. change SBUFSZ with 128 in Hfit. rewrite NEXTSZ_c.
  unfold mem_newsz, mem_if, st. cbn [fn_body cf_sbuf_mem]. xarithl L2.
  match goal with |- context [?a <? ?b] => destruct (Z.ltb_spec a b) as [L|L] end; xarithl L2.
  - rewrite Z.max_r by lia. reflexivity.
  - rewrite Z.max_l by lia. reflexivity.
Qed.

Lemma sb_model_mem cs sz src : IoDefs.sbuf_mem (sb_model cs sz) (map byte_of src)
  = sb_model (cs ++ src) (sb_sz (IoDefs.sbuf_mem (sb_model cs sz) (map byte_of src))).
Proof.
  unfold IoDefs.sbuf_mem, sb_model. cbn [sb_data sb_n sb_sz]. rewrite map_app, app_length, map_length, Nat2Z.inj_add. reflexivity.
Qed.

Lemma eval_call2 call f e0 e1 st v0 v1 : eval call e0 st = Ok (v0, st) -> eval call e1 st = Ok (v1, st) ->
  eval call (ECall f [e0; e1]) st = do (v, m') <- call f [v0; v1] (memm st); Ok (v, mkst (locals st) m').
Proof. intros H0 H1. cbn [eval]. rewrite H0. cbn [bind]. rewrite H1. reflexivity. Qed.
Lemma ALIGN_le n : 0 <= n -> ALIGN n SBUFSZ <= n + SBUFSZ - 1.
Proof. intro H. rewrite ALIGN_div by exact H. pose proof SBUFSZ_ge2. rewrite Z.mul_comm. apply Z.mul_div_le. lia. Qed.
Lemma NEXTSZ_le o r : 0 <= o -> 0 <= r -> NEXTSZ o r <= Z.max (o * 2) (o + r) + SBUFSZ - 1.
Proof. intros. unfold NEXTSZ. apply ALIGN_le. lia. Qed.

Theorem tr_sbuf_mem m p cs sz bs os sblk src d fuel :
  sbuf_rep m p cs sz -> bs <> p -> sbuf_datab m p <> Some bs -> nth_error m bs = Some sblk -> 0 <= os ->
  os + Z.of_nat (length src) <= Z.of_nat (length sblk) ->
  firstn (length src) (skipn (Z.to_nat os) sblk) = map VInt src ->
  sbuf_fits sz (Z.of_nat (length src) + 1) ->
  let sb' := IoDefs.sbuf_mem (sb_model cs sz) (map byte_of src) in
  exists m', callf cprog fuel (S (S d)) F_sbuf_mem [VPtr p 0; VPtr bs os; VInt (Z.of_nat (length src))] m = Ok (VUndef, m') /\
    sbuf_rep m' p (cs ++ src) (sb_sz sb') /\ sb' = sb_model (cs ++ src) (sb_sz sb') /\ sbuf_step m m' p.
Proof.
  intros R Hbs Hbd Hs Hos Hsl Hsrc Hfit sb'. pose proof (rep_sz _ _ _ _ R) as Hsz. pose proof (rep_p_lt _ _ _ _ R) as Hpl.
  assert (Hf : exists a, nth_error m p = Some [a; VInt (Z.of_nat (length cs)); VInt sz]).
  { destruct R as [[-> [-> Hp]]|[b [rest [Hb [Hp _]]]]]; eauto. }
  destruct Hf as [a Hp].
  set (n := Z.of_nat (length cs)) in *. set (len := Z.of_nat (length src)) in *.
  assert (Hfit' := Hfit). unfold sbuf_fits in Hfit'.
  pose proof (NEXTSZ_ge sz (len + 1) ltac:(lia) ltac:(lia)) as Hge.
  pose proof (NEXTSZ_le sz (len + 1) ltac:(lia) ltac:(lia)) as Hle.
  pose proof SBUFSZ_ge2 as Hsb.
  pose proof (mem_cond_eval (callf cprog fuel (S d)) m p a n sz (VPtr bs os) len Hp ltac:(lia) ltac:(lia) ltac:(lia) ltac:(lia)) as Hc.
  pose proof (mem_newsz_eval (callf cprog fuel (S d)) m p a n sz (VPtr bs os) len Hp ltac:(lia) ltac:(lia) Hfit) as Hn.
  cbv zeta in Hc, Hn.
  assert (Esz : sb_sz sb' = if sz <=? n + len + 1 then NEXTSZ sz (len + 1) else sz).
  { unfold sb', IoDefs.sbuf_mem, sb_model. cbn [sb_sz sb_n sb_data]. rewrite map_length, Z.geb_leb. reflexivity. }
  cut (exists m', callf cprog fuel (S (S d)) F_sbuf_mem [VPtr p 0; VPtr bs os; VInt (Z.of_nat (length src))] m = Ok (VUndef, m') /\
         sbuf_rep m' p (cs ++ src) (sb_sz sb') /\ sbuf_step m m' p).
  { intros [m' [A [B C]]]. exists m'. split; [exact A|]. split; [exact B|]. split; [apply sb_model_mem|exact C]. }
  rewrite Esz. clear Esz.
  subst len.
  rewrite callf_S. change (nth_error cprog F_sbuf_mem) with (Some cf_sbuf_mem). cbv iota beta.
  change (fn_nparams cf_sbuf_mem) with 3%nat. change (fn_nlocals cf_sbuf_mem) with 3%nat.
  change (fn_body cf_sbuf_mem) with (SSeq (SIf mem_cond (SExpr (ECall F_sbuf_extend [ELocal 0; mem_newsz])) SSkip) mem_tail).
  cbn [length Nat.eqb Nat.sub repeat app].
  rewrite exec_seq, exec_if, Hc, truth_b2z.
  destruct (Z.leb_spec sz (n + Z.of_nat (length src) + 1)) as [G|G].
  - destruct (tr_sbuf_extend m p cs sz (NEXTSZ sz (Z.of_nat (length src) + 1)) d fuel R ltac:(lia)) as [m1 [E1 [R1 [S1 [D1 [Hl1 _]]]]]].
    rewrite exec_expr, (eval_call2 (callf cprog fuel (S d)) F_sbuf_extend (ELocal 0) _ (mkst [VPtr p 0; VPtr bs os; VInt (Z.of_nat (length src))] m) (VPtr p 0) _ eq_refl Hn). cbn [memm locals]. rewrite E1. cbn [bind].
    assert (Hbsl : (bs < length m)%nat) by (apply nth_error_Some; congruence).
    destruct (mem_tail_ok (callf cprog fuel (S d)) fuel m1 p cs (NEXTSZ sz (Z.of_nat (length src) + 1)) bs os sblk src R1 ltac:(lia) Hbs) as [m2 [E2 [R2 [S2 _]]]];
      try assumption.
    + rewrite D1. intro E. injection E as E. lia.
    + destruct S1 as [_ [_ F1]]. rewrite F1; assumption.
    + cbn [locals]. rewrite E2. eexists. split; [reflexivity|]. split; [exact R2|]. apply (sbuf_step_trans _ m1); assumption.
  - rewrite exec_skip.
    destruct (mem_tail_ok (callf cprog fuel (S d)) fuel m p cs sz bs os sblk src R ltac:(lia) Hbs) as [m2 [E2 [R2 [S2 _]]]]; try assumption.
    rewrite E2. eexists. split; [reflexivity|]. split; assumption.
Qed.

(* ------------------------------------------------------------------ sbuf_chr *)
Lemma wrap_I8_mod z : (wrap I8 z) mod 256 = z mod 256.
Proof.
  unfold wrap. cbn [ity_bits ity_signed andb]. change (2 ^ 8) with 256. change (2 ^ (8 - 1)) with 128.
  destruct (128 <=? z mod 256).
  - rewrite <- (Z.mod_add (z mod 256 - 256) 1 256) by lia. replace (z mod 256 - 256 + 1 * 256) with (z mod 256) by lia.
    apply Z.mod_mod. lia.
  - apply Z.mod_mod. lia.
Qed.
Lemma wrap_I8_idem z : wrap I8 (wrap I8 z) = wrap I8 z.
Proof. unfold wrap at 1. rewrite wrap_I8_mod. reflexivity. Qed.
Lemma byte_of_wrap z : byte_of (wrap I8 z) = byte_of z.
Proof. unfold byte_of. rewrite wrap_I8_mod. reflexivity. Qed.
Lemma byte_of_lt z : (byte_of z < 256)%N.
Proof. unfold byte_of. pose proof (Z.mod_pos_bound z 256). lia. Qed.

Definition chr_if : stmt := match fn_body cf_sbuf_chr with SSeq i _ => i | _ => SSkip end.
Definition chr_tail : stmt := match fn_body cf_sbuf_chr with SSeq _ t => t | _ => SSkip end.
Definition chr_cond : expr := match chr_if with SIf c _ _ => c | _ => EConst 0 end.
Definition chr_newsz : expr := match chr_if with SIf _ (SExpr (ECall _ [_; e])) _ => e | _ => EConst 0 end.

Lemma chr_cond_eval call (m : mem) p a n sz x :
  nth_error m p = Some [a; VInt n; VInt sz] -> 0 <= n <= sz -> sz <= 2147483647 -> sz + 2 <= 2147483647 ->
  let st := mkst [VPtr p 0; x] m in
  eval call chr_cond st = Ok (VInt (b2z (sz <=? n + 2)), st).
Proof.
  intros Hp Hn Hsz Hfit st. destruct (ld3 _ _ _ _ _ Hp) as [L0 [L1 L2]].
  unfold chr_cond, chr_if, st. cbn [fn_body cf_sbuf_chr]. xs. rewrite L1. xarithl L2. reflexivity.
Qed.
Lemma chr_newsz_eval call (m : mem) p a n sz x :
  nth_error m p = Some [a; VInt n; VInt sz] -> 0 <= sz <= 2147483647 -> sbuf_fits sz 1 ->
  let st := mkst [VPtr p 0; x] m in
  eval call chr_newsz st = Ok (VInt (NEXTSZ sz 1), st).
Proof.
  intros Hp Hsz Hfit st. destruct (ld3 _ _ _ _ _ Hp) as [L0 [L1 L2]].
  unfold sbuf_fits in Hfit. change SBUFSZ with 128 in Hfit. rewrite NEXTSZ_c.
  unfold chr_newsz, chr_if, st. cbn [fn_body cf_sbuf_chr]. xarithl L2.
  match goal with |- context [?a <? ?b] => destruct (Z.ltb_spec a b) as [L|L] end; xarithl L2.
  - rewrite Z.max_r by lia. reflexivity.
  - rewrite Z.max_l by lia. reflexivity.
Qed.

Lemma chr_tail_ok call fuel m p cs sz c :
  sbuf_rep m p cs sz -> Z.of_nat (length cs) + 2 <= sz ->
  let lc := [VPtr p 0; VInt c] in
  exists m', exec call fuel chr_tail (mkst lc m) = ONormal (mkst lc m') /\
    sbuf_rep m' p (cs ++ [wrap I8 c]) sz /\ sbuf_step m m' p /\ sbuf_datab m' p = sbuf_datab m p /\ length m' = length m.
Proof.
  intros R Hroom lc. pose proof (rep_p_lt _ _ _ _ R) as Hpl.
  destruct R as [[-> [-> Hp]]|[b [rest [Hb [Hp [Hd [Hl [Hr Hz]]]]]]]]; [cbn [length] in Hroom; lia|].
  set (n := Z.of_nat (length cs)) in *.
  destruct (ld3 _ _ _ _ _ Hp) as [L0 [L1 L2]].
  assert (DM : sbuf_datab m p = Some b) by (eapply datab_of; exact Hp).
  assert (Hbl : (b < length m)%nat) by (apply nth_error_Some; congruence).
  unfold chr_tail, lc. cbn [fn_body cf_sbuf_chr]. xs. rewrite L0. xs. rewrite L1. xarith.
  cbn [fst snd]. destruct (st3 m p _ _ _ (VInt (n + 1)) Hp) as [_ [S1 _]]. rewrite S1. xs.
  set (m1 := upd m p _).
  assert (Hd1 : nth_error m1 b = Some (map VInt cs ++ rest)) by (unfold m1; rewrite mem_upd_other by auto; exact Hd).
  rewrite wrap_I8_idem.
  rewrite (store_ok m1 b _ (0 + 1 * n) _ Hd1) by (rewrite app_length, map_length; lia). xs.
  replace (Z.to_nat (0 + 1 * n)) with (length (map VInt cs)) by (rewrite map_length; lia).
  destruct rest as [|r0 rest]; [cbn [length] in Hr; lia|].
  replace (upd (map VInt cs ++ r0 :: rest) (length (map VInt cs)) (VInt (wrap I8 c))) with (map VInt (cs ++ [wrap I8 c]) ++ rest).
  2:{ unfold upd. rewrite firstn_app, Nat.sub_diag, firstn_all. cbn [firstn]. rewrite app_nil_r.
      rewrite skipn_app, skipn_all2 by lia. replace (S (length (map VInt cs)) - length (map VInt cs))%nat with 1%nat by lia.
      cbn [skipn app]. rewrite map_app, <- app_assoc. reflexivity. }
  eexists. split; [reflexivity|].
  assert (Hl1 : length m1 = length m) by (apply mlen_upd; exact Hpl).
  assert (Hp1 : nth_error m1 p = Some [VPtr b 0; VInt (n + 1); VInt sz]) by (apply mem_upd_same; exact Hpl).
  assert (D1 : sbuf_datab m1 p = sbuf_datab m p) by (rewrite DM; eapply datab_of; exact Hp1).
  assert (S01 : sbuf_step m m1 p) by (apply step_upd_p; assumption).
  split; [|split; [|split; [rewrite datab_upd_other by (auto; lia); exact D1|rewrite mlen_upd by lia; exact Hl1]]].
  - right. exists b, rest. split; [exact Hb|].
    split; [rewrite mem_upd_other by (auto; lia); rewrite Hp1, app_length; cbn [length]; unfold n; do 4 f_equal; lia|].
    split; [apply mem_upd_same; lia|]. rewrite app_length. cbn [length] in *. split; [lia|]. split; [lia|exact Hz].
  - apply (sbuf_step_trans _ m1); [exact S01|]. apply step_upd_data; [congruence|lia|exact Hb].
Qed.

Lemma sb_model_chr cs sz c : IoDefs.sbuf_chr (sb_model cs sz) (byte_of c)
  = sb_model (cs ++ [wrap I8 c]) (sb_sz (IoDefs.sbuf_chr (sb_model cs sz) (byte_of c))).
Proof.
  unfold IoDefs.sbuf_chr, sb_model. cbn [sb_data sb_n sb_sz]. rewrite map_app, app_length, Nat2Z.inj_add. cbn [map length].
  rewrite byte_of_wrap. reflexivity.
Qed.
(* the new capacity as a function of the old one and the length *)
Definition chr_sz (n sz : Z) : Z := if sz <=? n + 2 then NEXTSZ sz 1 else sz.
Lemma chr_sz_model cs sz c : sb_sz (IoDefs.sbuf_chr (sb_model cs sz) c) = chr_sz (Z.of_nat (length cs)) sz.
Proof. unfold IoDefs.sbuf_chr, sb_model, chr_sz. cbn [sb_sz sb_n]. rewrite Z.geb_leb. reflexivity. Qed.

Theorem tr_sbuf_chr m p cs sz c d fuel :
  sbuf_rep m p cs sz -> sbuf_fits sz 1 ->
  let sb' := IoDefs.sbuf_chr (sb_model cs sz) (byte_of c) in
  exists m', callf cprog fuel (S (S d)) F_sbuf_chr [VPtr p 0; VInt c] m = Ok (VUndef, m') /\
    sbuf_rep m' p (cs ++ [wrap I8 c]) (sb_sz sb') /\ sb' = sb_model (cs ++ [wrap I8 c]) (sb_sz sb') /\ sbuf_step m m' p.
Proof.
  intros R Hfit sb'. pose proof (rep_sz _ _ _ _ R) as Hsz. pose proof (rep_p_lt _ _ _ _ R) as Hpl.
  assert (Hf : exists a, nth_error m p = Some [a; VInt (Z.of_nat (length cs)); VInt sz]).
  { destruct R as [[-> [-> Hp]]|[b [rest [Hb [Hp _]]]]]; eauto. }
  destruct Hf as [a Hp].
  set (n := Z.of_nat (length cs)) in *.
  assert (Hfit' := Hfit). unfold sbuf_fits in Hfit'.
  pose proof (NEXTSZ_ge sz 1 ltac:(lia) ltac:(lia)) as Hge.
  pose proof (NEXTSZ_le sz 1 ltac:(lia) ltac:(lia)) as Hle.
  pose proof SBUFSZ_ge2 as Hsb.
  assert (Hunit : SBUFSZ <= NEXTSZ sz 1) by (unfold NEXTSZ; apply ALIGN_ge_unit; lia).
  pose proof (chr_cond_eval (callf cprog fuel (S d)) m p a n sz (VInt c) Hp ltac:(lia) ltac:(lia) ltac:(lia)) as Hc.
  pose proof (chr_newsz_eval (callf cprog fuel (S d)) m p a n sz (VInt c) Hp ltac:(lia) Hfit) as Hn.
  cbv zeta in Hc, Hn.
  cut (exists m', callf cprog fuel (S (S d)) F_sbuf_chr [VPtr p 0; VInt c] m = Ok (VUndef, m') /\
         sbuf_rep m' p (cs ++ [wrap I8 c]) (sb_sz sb') /\ sbuf_step m m' p).
  { intros [m' [A [B C]]]. exists m'. split; [exact A|]. split; [exact B|]. split; [apply sb_model_chr|exact C]. }
  unfold sb'. rewrite chr_sz_model. fold n. unfold chr_sz.
  rewrite callf_S. change (nth_error cprog F_sbuf_chr) with (Some cf_sbuf_chr). cbv iota beta.
  change (fn_nparams cf_sbuf_chr) with 2%nat. change (fn_nlocals cf_sbuf_chr) with 2%nat.
  change (fn_body cf_sbuf_chr) with (SSeq (SIf chr_cond (SExpr (ECall F_sbuf_extend [ELocal 0; chr_newsz])) SSkip) chr_tail).
  cbn [length Nat.eqb Nat.sub repeat app].
  rewrite exec_seq, exec_if, Hc, truth_b2z.
  destruct (Z.leb_spec sz (n + 2)) as [G|G].
  - destruct (tr_sbuf_extend m p cs sz (NEXTSZ sz 1) d fuel R ltac:(lia)) as [m1 [E1 [R1 [S1 [D1 [Hl1 _]]]]]].
    rewrite exec_expr, (eval_call2 (callf cprog fuel (S d)) F_sbuf_extend (ELocal 0) _ (mkst [VPtr p 0; VInt c] m) (VPtr p 0) _ eq_refl Hn).
    cbn [memm locals]. rewrite E1. cbn [bind].
    destruct (chr_tail_ok (callf cprog fuel (S d)) fuel m1 p cs (NEXTSZ sz 1) c R1 ltac:(lia)) as [m2 [E2 [R2 [S2 _]]]].
    cbn [locals]. rewrite E2. eexists. split; [reflexivity|]. split; [exact R2|]. apply (sbuf_step_trans _ m1); assumption.
  - rewrite exec_skip.
    destruct (chr_tail_ok (callf cprog fuel (S d)) fuel m p cs sz c R ltac:(lia)) as [m2 [E2 [R2 [S2 _]]]].
    rewrite E2. eexists. split; [reflexivity|]. split; assumption.
Qed.

(* a store into a block other than the struct and its data block keeps the buffer *)
Lemma rep_upd_other (m : mem) p cs sz bb blk' : sbuf_rep m p cs sz -> bb <> p -> sbuf_datab m p <> Some bb -> (bb < length m)%nat ->
  sbuf_rep (upd m bb blk') p cs sz /\ sbuf_datab (upd m bb blk') p = sbuf_datab m p.
Proof.
  intros R Hne Hd Hl. split; [|apply datab_upd_other; assumption].
  destruct R as [[-> [-> Hp]]|[b [rest [Hb [Hp [Hdb R]]]]]].
  - left. split; [reflexivity|]. split; [reflexivity|]. rewrite mem_upd_other by lia. exact Hp.
  - assert (b <> bb) by (intros ->; apply Hd; eapply datab_of; exact Hp).
    right. exists b, rest. split; [exact Hb|]. rewrite !mem_upd_other by lia. auto.
Qed.
(* appending a block (another malloc) keeps the buffer *)
Lemma rep_app (m : mem) p cs sz blk : sbuf_rep m p cs sz ->
  sbuf_rep (m ++ [blk]) p cs sz /\ sbuf_datab (m ++ [blk]) p = sbuf_datab m p.
Proof.
  intro R. pose proof (rep_p_lt _ _ _ _ R) as Hpl.
  split; [|unfold sbuf_datab; rewrite nth_error_app_old by exact Hpl; reflexivity].
  destruct R as [[-> [-> Hp]]|[b [rest [Hb [Hp [Hdb R]]]]]].
  - left. split; [reflexivity|]. split; [reflexivity|]. rewrite nth_error_app_old by exact Hpl. exact Hp.
  - right. exists b, rest. split; [exact Hb|]. rewrite !nth_error_app_old; auto. apply nth_error_Some. congruence.
Qed.

(* ------------------------------------------------------------------ sbuf_buf *)
Definition buf_tail : stmt := match fn_body cf_sbuf_buf with SSeq _ t => t | _ => SSkip end.

Lemma buf_tail_ok call fuel m p cs sz :
  sbuf_rep m p cs sz -> 0 < sz ->
  let lc := [VPtr p 0] in
  exists b m' rest, exec call fuel buf_tail (mkst lc m) = OReturn (VPtr b 0) (mkst lc m') /\
    sbuf_rep m' p cs sz /\ sbuf_datab m p = Some b /\ sbuf_datab m' p = Some b /\
    nth_error m' b = Some (map VInt cs ++ VInt 0 :: rest) /\ Z.of_nat (length cs + S (length rest)) = sz /\
    sbuf_step m m' p /\ length m' = length m.
Proof.
  intros R Hpos lc. pose proof (rep_p_lt _ _ _ _ R) as Hpl.
  destruct R as [[-> _]|[b [rest [Hb [Hp [Hd [Hl [Hr Hz]]]]]]]]; [lia|].
  set (n := Z.of_nat (length cs)) in *.
  destruct (ld3 _ _ _ _ _ Hp) as [L0 [L1 L2]].
  assert (DM : sbuf_datab m p = Some b) by (eapply datab_of; exact Hp).
  assert (Hbl : (b < length m)%nat) by (apply nth_error_Some; congruence).
  unfold buf_tail, lc. cbn [fn_body cf_sbuf_buf]. xs. rewrite L0. xs. rewrite L1. xarith.
  change (wrap I8 (wrap I8 0)) with 0.
  rewrite (store_ok m b _ (0 + 1 * n) _ Hd) by (rewrite app_length, map_length; lia). xs.
  replace (Z.to_nat (0 + 1 * n)) with (length (map VInt cs)) by (rewrite map_length; lia).
  destruct rest as [|r0 rest]; [cbn [length] in Hr; lia|].
  replace (upd (map VInt cs ++ r0 :: rest) (length (map VInt cs)) (VInt 0)) with (map VInt cs ++ VInt 0 :: rest).
  2:{ unfold upd. rewrite firstn_app, Nat.sub_diag, firstn_all. cbn [firstn]. rewrite app_nil_r.
      rewrite skipn_app, skipn_all2 by lia. replace (S (length (map VInt cs)) - length (map VInt cs))%nat with 1%nat by lia.
      reflexivity. }
  set (m1 := upd m b _).
  assert (Hp1 : nth_error m1 p = Some [VPtr b 0; VInt n; VInt sz]) by (unfold m1; rewrite mem_upd_other by auto; exact Hp).
  destruct (ld3 _ _ _ _ _ Hp1) as [L10 _]. rewrite L10. xs.
  exists b, m1, rest. split; [reflexivity|].
  assert (Hd1 : nth_error m1 b = Some (map VInt cs ++ VInt 0 :: rest)) by (apply mem_upd_same; exact Hbl).
  assert (D1 : sbuf_datab m1 p = Some b) by (eapply datab_of; exact Hp1).
  split; [|split; [exact DM|split; [exact D1|split; [exact Hd1|split; [exact Hl|split; [apply step_upd_data; assumption|apply mlen_upd; exact Hbl]]]]]].
  right. exists b, (VInt 0 :: rest). split; [exact Hb|]. split; [exact Hp1|]. split; [exact Hd1|]. cbn [length] in *. auto.
Qed.

Definition buf_sz (sz : Z) : Z := if sz =? 0 then 1 else sz.
Lemma buf_sz_model cs sz : IoDefs.sbuf_buf (sb_model cs sz) = sb_model cs (buf_sz sz).
Proof. unfold IoDefs.sbuf_buf, sb_model, buf_sz. cbn [sb_sz sb_n sb_data]. destruct (sz =? 0); reflexivity. Qed.

(* sbuf_buf: the string is terminated INSIDE the allocation (the store of the terminator is checked: outside the block
   it would be Err EOob), the pointer returned is the start of the data block *)
Theorem tr_sbuf_buf m p cs sz d fuel :
  sbuf_rep m p cs sz ->
  let sz' := sb_sz (IoDefs.sbuf_buf (sb_model cs sz)) in
  exists b m' rest, callf cprog fuel (S (S d)) F_sbuf_buf [VPtr p 0] m = Ok (VPtr b 0, m') /\
    sbuf_rep m' p cs sz' /\ sbuf_datab m' p = Some b /\
    nth_error m' b = Some (map VInt cs ++ VInt 0 :: rest) /\ Z.of_nat (length cs + S (length rest)) = sz' /\
    Z.of_nat (length cs) < sz' /\
    sbuf_step m m' p /\ (sbuf_datab m p = Some b \/ (length m <= b)%nat).
Proof.
  intros R sz'. pose proof (rep_sz _ _ _ _ R) as Hsz. pose proof (rep_p_lt _ _ _ _ R) as Hpl.
  unfold sz'. rewrite buf_sz_model. cbn [sb_sz sb_model]. unfold buf_sz. clear sz'.
  rewrite callf_S. change (nth_error cprog F_sbuf_buf) with (Some cf_sbuf_buf). cbv iota beta.
  change (fn_nparams cf_sbuf_buf) with 1%nat. change (fn_nlocals cf_sbuf_buf) with 1%nat.
  change (fn_body cf_sbuf_buf) with (SSeq (SIf (ELNot (ELoad None (ELocal 0))) (SExpr (ECall F_sbuf_extend [ELocal 0; EConst 1])) SSkip) buf_tail).
  cbn [length Nat.eqb Nat.sub repeat app].
  rewrite exec_seq, exec_if.
  destruct R as [[-> [-> Hp]]|[b [rest [Hb [Hp [Hd [Hl [Hr Hz]]]]]]]].
  - destruct (ld3 _ _ _ _ _ Hp) as [L0 _]. xs. rewrite L0. xs.
    destruct (tr_sbuf_extend m p [] 0 1 d fuel) as [m1 [E1 [R1 [S1 [D1 [Hl1 _]]]]]]; [left; auto|cbn [length]; lia|].
    rewrite E1. xs.
    destruct (buf_tail_ok (callf cprog fuel (S d)) fuel m1 p [] 1 R1 ltac:(lia)) as [b [m2 [rest [E2 [R2 [D1' [D2 [Hd2 [Hl2 [S2 _]]]]]]]]]].
    rewrite E2. exists b, m2, rest. split; [reflexivity|]. change (0 =? 0) with true. cbv iota.
    split; [exact R2|]. split; [exact D2|]. split; [exact Hd2|]. split; [exact Hl2|]. split; [cbn [length]; lia|].
    split; [apply (sbuf_step_trans _ m1); assumption|]. right. rewrite D1 in D1'. injection D1' as <-. lia.
  - destruct (ld3 _ _ _ _ _ Hp) as [L0 _]. xs. rewrite L0. xs.
    assert (R : sbuf_rep m p cs sz) by (right; exists b, rest; auto 10).
    destruct (buf_tail_ok (callf cprog fuel (S d)) fuel m p cs sz R ltac:(lia)) as [b' [m2 [rest' [E2 [R2 [D1' [D2 [Hd2 [Hl2 [S2 _]]]]]]]]]].
    rewrite E2. exists b', m2, rest'. split; [reflexivity|].
    destruct (Z.eqb_spec sz 0) as [E0|E0]; [lia|].
    split; [exact R2|]. split; [exact D2|]. split; [exact Hd2|]. split; [exact Hl2|]. split; [lia|].
    split; [exact S2|]. left. exact D1'.
Qed.

(* ------------------------------------------------------------------ sbuf_done: the terminated string survives, the struct is freed *)
Theorem tr_sbuf_done m p cs sz d fuel :
  sbuf_rep m p cs sz ->
  exists b m' rest, callf cprog fuel (S (S (S d))) F_sbuf_done [VPtr p 0] m = Ok (VPtr b 0, m') /\
    nth_error m' b = Some (map VInt cs ++ VInt 0 :: rest) /\ nth_error m' p = Some [] /\ b <> p /\
    (sbuf_datab m p = Some b \/ (length m <= b)%nat) /\ (length m <= length m')%nat /\
    forall b', (b' < length m)%nat -> b' <> p -> sbuf_datab m p <> Some b' -> nth_error m' b' = nth_error m b'.
Proof.
  intro R. pose proof (rep_p_lt _ _ _ _ R) as Hpl.
  destruct (tr_sbuf_buf m p cs sz d fuel R) as [b [m1 [rest [E1 [R1 [D1 [Hd1 [_ [_ [S1 Hb]]]]]]]]]].
  enter F_sbuf_done cf_sbuf_done. xs. rewrite E1. xs.
  pose proof (rep_p_lt _ _ _ _ R1) as Hpl1.
  assert (Hbp : b <> p).
  { destruct R1 as [[_ [_ Hp]]|[b1 [rest1 [Hb1 [Hp _]]]]]; [rewrite (datab_null _ _ _ _ Hp) in D1; discriminate|].
    rewrite (datab_of _ _ _ _ _ _ Hp) in D1. congruence. }
  assert (Hp1 : exists blk, nth_error m1 p = Some blk /\ blk <> []).
  { destruct R1 as [[_ [_ Hp]]|[b1 [rest1 [Hb1 [Hp _]]]]]; eexists; (split; [exact Hp|discriminate]). }
  destruct Hp1 as [blk [Hp1 Hne]]. rewrite (free_ok m1 p blk Hp1 Hne). xs.
  exists b, (upd m1 p []), rest. split; [reflexivity|].
  split; [rewrite mem_upd_other by lia; exact Hd1|]. split; [apply mem_upd_same; exact Hpl1|]. split; [exact Hbp|].
  split; [exact Hb|]. destruct S1 as [L1 [_ F1]]. split; [rewrite mlen_upd by exact Hpl1; exact L1|].
  intros b' Hb' Hne' Hdb. rewrite mem_upd_other by lia. apply F1; assumption.
Qed.

(* ------------------------------------------------------------------ sbuf_free: both blocks are freed, nothing else changes *)
Theorem tr_sbuf_free m p cs sz d fuel :
  sbuf_rep m p cs sz ->
  exists m', callf cprog fuel (S d) F_sbuf_free [VPtr p 0] m = Ok (VUndef, m') /\
    nth_error m' p = Some [] /\ (forall bo, sbuf_datab m p = Some bo -> nth_error m' bo = Some []) /\
    length m' = length m /\
    forall b', b' <> p -> sbuf_datab m p <> Some b' -> nth_error m' b' = nth_error m b'.
Proof.
  intro R. pose proof (rep_p_lt _ _ _ _ R) as Hpl.
  enter F_sbuf_free cf_sbuf_free. xs.
  destruct R as [[-> [-> Hp]]|[b [rest [Hb [Hp [Hd [Hl [Hr Hz]]]]]]]]; destruct (ld3 _ _ _ _ _ Hp) as [L0 _]; rewrite L0; xs.
  - rewrite free_null. xs. rewrite (free_ok m p _ Hp) by discriminate. xs.
    eexists. split; [reflexivity|]. split; [apply mem_upd_same; exact Hpl|].
    split; [intros bo Hbo; rewrite (datab_null _ _ _ _ Hp) in Hbo; discriminate|]. split; [apply mlen_upd; exact Hpl|].
    intros b' Hne _. apply mem_upd_other; assumption.
  - assert (Hbl : (b < length m)%nat) by (apply nth_error_Some; congruence).
    rewrite (free_ok m b _ Hd) by (destruct rest; [cbn in Hr; lia|]; intro E; apply app_eq_nil in E; destruct E; discriminate).
    xs. assert (Hp1 : nth_error (upd m b []) p = Some [VPtr b 0; VInt (Z.of_nat (length cs)); VInt sz]) by (rewrite mem_upd_other by lia; exact Hp).
    rewrite (free_ok _ p _ Hp1) by discriminate. xs.
    eexists. split; [reflexivity|]. split; [apply mem_upd_same; rewrite mlen_upd by lia; exact Hpl|].
    split; [intros bo Hbo; rewrite (datab_of _ _ _ _ _ _ Hp) in Hbo; injection Hbo as <-; rewrite mem_upd_other by (rewrite ?mlen_upd by lia; lia); apply mem_upd_same; exact Hbl|].
    split; [rewrite !mlen_upd by (rewrite ?mlen_upd by lia; lia); reflexivity|].
    intros b' Hne Hdb. rewrite (datab_of _ _ _ _ _ _ Hp) in Hdb.
    rewrite !mem_upd_other by (rewrite ?mlen_upd by lia; first [lia | congruence]). reflexivity.
Qed.

(* ------------------------------------------------------------------ sbuf_str *)
Lemma byte_of_zb (t : bytes) : bytes_lt256 t -> map byte_of (zb t) = t.
Proof.
  unfold zb. induction 1 as [|x t Hx Ht IH]; [reflexivity|]. cbn [map]. rewrite IH. f_equal.
  unfold byte_of. rewrite Z.mod_small by lia. apply N2Z.id.
Qed.
Lemma firstn_cstr (t : bytes) : firstn (length (zb t)) (cstr_block (zb t)) = map VInt (zb t).
Proof. unfold cstr_block. rewrite <- (map_length VInt (zb t)), firstn_app, Nat.sub_diag, firstn_all. cbn [firstn]. apply app_nil_r. Qed.

Theorem tr_sbuf_str m p cs sz bs s o d fuel :
  sbuf_rep m p cs sz -> bs <> p -> sbuf_datab m p <> Some bs -> str_at m bs s -> nonul s -> (o <= length s)%nat ->
  Z.of_nat (length s) <= 2147483647 ->
  let t := skipn o s in
  sbuf_fits sz (Z.of_nat (length t) + 1) ->
  let sb' := IoDefs.sbuf_mem (sb_model cs sz) t in
  exists m', callf cprog fuel (S (S (S d))) F_sbuf_str [VPtr p 0; VPtr bs (Z.of_nat o)] m = Ok (VUndef, m') /\
    sbuf_rep m' p (cs ++ zb t) (sb_sz sb') /\ sb' = sb_model (cs ++ zb t) (sb_sz sb') /\ sbuf_step m m' p.
Proof.
  intros R Hbs Hbd Hs Hnn Ho Hlen t Hfit sb'.
  assert (Ht : bytes_lt256 t) by (apply nonul_lt256; apply Forall_skipn'; exact Hnn).
  assert (Hlt : length (zb t) = length t) by (unfold zb; apply map_length).
  assert (Hlt' : length t = (length s - o)%nat) by (unfold t; apply skipn_length).
  destruct (tr_sbuf_mem m p cs sz bs (Z.of_nat o) (cstr_block (zb s)) (zb t) d fuel R Hbs Hbd Hs ltac:(lia)) as [m' [E [R' [M' S']]]].
  - unfold cstr_block, zb. rewrite app_length, !map_length. fold t. cbn [length]. lia.
  - rewrite Nat2Z.id, skipn_cstr_block by exact Ho. fold t. apply firstn_cstr.
  - rewrite Hlt. exact Hfit.
  - rewrite byte_of_zb in * by exact Ht. fold sb' in R', M'.
    enter F_sbuf_str cf_sbuf_str. xs. rewrite (builtin_strlen m bs s o Hs Hnn Ho). xs.
    rewrite wrap_I32_id by lia. rewrite Hlt, Hlt' in E. rewrite E. xs.
    exists m'. split; [reflexivity|]. split; [exact R'|]. split; [exact M'|exact S'].
Qed.

(* ------------------------------------------------------------------ any sequence of sbuf_chr / sbuf_mem / sbuf_str calls *)
Inductive sop := OpChr (c : Z) | OpMem (bs : nat) (os : Z) (src : list Z) | OpStr (bs : nat) (o : nat) (s : bytes).
(* the C side: the translated functions called one after the other on the same struct *)
Definition run_op (fuel d p : nat) (op : sop) (m : mem) : res (val * mem) :=
  match op with
  | OpChr c => callf cprog fuel d F_sbuf_chr [VPtr p 0; VInt c] m
  | OpMem bs os src => callf cprog fuel d F_sbuf_mem [VPtr p 0; VPtr bs os; VInt (Z.of_nat (length src))] m
  | OpStr bs o s => callf cprog fuel d F_sbuf_str [VPtr p 0; VPtr bs (Z.of_nat o)] m
  end.
Fixpoint run_ops (fuel d p : nat) (ops : list sop) (m : mem) : res mem :=
  match ops with
  | [] => Ok m
  | op :: r => match run_op fuel d p op m with Ok (_, m1) => run_ops fuel d p r m1 | Err e => Err e end
  end.
(* the model side *)
Definition op_cells (op : sop) : list Z :=
  match op with OpChr c => [wrap I8 c] | OpMem _ _ src => src | OpStr _ o s => zb (skipn o s) end.
Definition op_model (sb : IoDefs.sbuf) (op : sop) : IoDefs.sbuf :=
  match op with
  | OpChr c => IoDefs.sbuf_chr sb (byte_of c)
  | OpMem _ _ src => IoDefs.sbuf_mem sb (map byte_of src)
  | OpStr _ o s => IoDefs.sbuf_mem sb (skipn o s)
  end.
Definition op_need (op : sop) : Z :=
  match op with OpChr _ => 1 | OpMem _ _ src => Z.of_nat (length src) + 1 | OpStr _ o s => Z.of_nat (length (skipn o s)) + 1 end.
(* no int overflow in the size computations along the way (a condition on the model's sizes only) *)
Fixpoint ops_fit (sb : IoDefs.sbuf) (ops : list sop) : Prop :=
  match ops with [] => True | op :: r => sbuf_fits (sb_sz sb) (op_need op) /\ ops_fit (op_model sb op) r end.
(* the source of an operation: a block of the memory the sequence starts from, other than the struct and its data block *)
Definition op_src_ok (m0 : mem) (p : nat) (op : sop) : Prop :=
  match op with
  | OpChr _ => True
  | OpMem bs os src => bs <> p /\ sbuf_datab m0 p <> Some bs /\ 0 <= os /\
      exists sblk, nth_error m0 bs = Some sblk /\ os + Z.of_nat (length src) <= Z.of_nat (length sblk) /\
                   firstn (length src) (skipn (Z.to_nat os) sblk) = map VInt src
  | OpStr bs o s => bs <> p /\ sbuf_datab m0 p <> Some bs /\ str_at m0 bs s /\ nonul s /\ (o <= length s)%nat /\
      Z.of_nat (length s) <= 2147483647
  end.

Lemma step_src m0 m p bs : sbuf_step m0 m p -> (bs < length m0)%nat -> bs <> p -> sbuf_datab m0 p <> Some bs ->
  nth_error m bs = nth_error m0 bs /\ sbuf_datab m p <> Some bs.
Proof.
  intros [L [D F]] Hl Hp Hd. split; [apply F; assumption|].
  destruct D as [D|[b [D Hb]]]; rewrite D; [exact Hd|]. intro E. injection E as E. lia.
Qed.

Lemma tr_sbuf_ops_gen m0 p ops d fuel : forall m cs sz,
  sbuf_step m0 m p -> sbuf_rep m p cs sz -> Forall (op_src_ok m0 p) ops -> ops_fit (sb_model cs sz) ops ->
  let sbk := fold_left op_model ops (sb_model cs sz) in
  let csk := cs ++ flat_map op_cells ops in
  exists m', run_ops fuel (S (S (S d))) p ops m = Ok m' /\
    sbuf_rep m' p csk (sb_sz sbk) /\ sbk = sb_model csk (sb_sz sbk) /\ sbuf_step m m' p.
Proof.
  induction ops as [|op ops IH]; intros m cs sz S0 R Hsrc Hfit sbk csk.
  - exists m. unfold sbk, csk. cbn [fold_left flat_map run_ops sb_model sb_sz]. rewrite app_nil_r.
    split; [reflexivity|]. split; [exact R|]. split; [reflexivity|apply sbuf_step_refl].
  - inversion Hsrc as [|? ? Hop Hrest]; subst. destruct Hfit as [Hf1 Hfr]. cbn [sb_sz sb_model] in Hf1.
    assert (Step : exists m1, run_op fuel (S (S (S d))) p op m = Ok (VUndef, m1) /\
               sbuf_rep m1 p (cs ++ op_cells op) (sb_sz (op_model (sb_model cs sz) op)) /\
               op_model (sb_model cs sz) op = sb_model (cs ++ op_cells op) (sb_sz (op_model (sb_model cs sz) op)) /\
               sbuf_step m m1 p).
    { destruct op as [c|bs os src|bs o s]; cbn [run_op op_cells op_model op_need] in *.
      - apply (tr_sbuf_chr m p cs sz c (S d) fuel R Hf1).
      - destruct Hop as [Hbs [Hbd [Hos [sblk [Hs [Hsl Hsrc1]]]]]].
        assert (Hl : (bs < length m0)%nat) by (apply nth_error_Some; congruence).
        destruct (step_src m0 m p bs S0 Hl Hbs Hbd) as [E1 E2].
        apply (tr_sbuf_mem m p cs sz bs os sblk src (S d) fuel R Hbs E2); try assumption. rewrite E1. exact Hs.
      - destruct Hop as [Hbs [Hbd [Hs [Hnn [Ho Hlen]]]]].
        assert (Hl : (bs < length m0)%nat) by (apply nth_error_Some; unfold str_at in Hs; congruence).
        destruct (step_src m0 m p bs S0 Hl Hbs Hbd) as [E1 E2].
        apply (tr_sbuf_str m p cs sz bs s o d fuel R Hbs E2); try assumption. unfold str_at. rewrite E1. exact Hs. }
    destruct Step as [m1 [E1 [R1 [M1 S1]]]].
    rewrite M1 in Hfr.
    destruct (IH m1 _ _ (sbuf_step_trans _ _ _ _ S0 S1) R1 Hrest Hfr) as [m' [E' [R' [M' S']]]].
    exists m'. cbn [run_ops]. rewrite E1. split; [exact E'|].
    unfold sbk, csk. cbn [fold_left flat_map]. rewrite M1, app_assoc.
    split; [exact R'|]. split; [exact M'|]. apply (sbuf_step_trans _ m1); assumption.
Qed.

Theorem tr_sbuf_ops m p cs sz ops d fuel :
  sbuf_rep m p cs sz -> Forall (op_src_ok m p) ops -> ops_fit (sb_model cs sz) ops ->
  let sbk := fold_left op_model ops (sb_model cs sz) in
  let csk := cs ++ flat_map op_cells ops in
  exists m', run_ops fuel (S (S (S d))) p ops m = Ok m' /\
    sbuf_rep m' p csk (sb_sz sbk) /\ sbk = sb_model csk (sb_sz sbk) /\ sbuf_step m m' p.
Proof. intros R Hs Hf. apply (tr_sbuf_ops_gen m p ops d fuel m cs sz (sbuf_step_refl m p) R Hs Hf). Qed.

(* C01_capacity on the C text: after ANY sequence of sbuf_chr / sbuf_mem / sbuf_str calls, sbuf_buf's store of the terminator
   is inside the allocation: the call returns Ok (a store outside its block is Err EOob), the data block holds the cells
   followed by the terminator, and the block is exactly as large as the model's capacity says *)
Theorem tr_sbuf_terminator_inside m p cs sz ops d fuel :
  sbuf_rep m p cs sz -> Forall (op_src_ok m p) ops -> ops_fit (sb_model cs sz) ops ->
  let sbk := IoDefs.sbuf_buf (fold_left op_model ops (sb_model cs sz)) in
  let csk := cs ++ flat_map op_cells ops in
  exists m1 b m2 rest, run_ops fuel (S (S (S d))) p ops m = Ok m1 /\
    callf cprog fuel (S (S d)) F_sbuf_buf [VPtr p 0] m1 = Ok (VPtr b 0, m2) /\
    nth_error m2 b = Some (map VInt csk ++ VInt 0 :: rest) /\
    Z.of_nat (length (map VInt csk ++ VInt 0 :: rest)) = sb_sz sbk /\ sb_n sbk = Z.of_nat (length csk) /\ 0 <= sb_n sbk < sb_sz sbk /\
    sbuf_rep m2 p csk (sb_sz sbk) /\ sbuf_step m m2 p /\ sbuf_datab m2 p = Some b /\ sbk = sb_model csk (sb_sz sbk).
Proof.
  intros R Hs Hf sbk csk.
  destruct (tr_sbuf_ops m p cs sz ops d fuel R Hs Hf) as [m1 [E1 [R1 [M1 S1]]]]. fold csk in R1, M1.
  destruct (tr_sbuf_buf m1 p csk _ d fuel R1) as [b [m2 [rest [E2 [R2 [D2 [Hd2 [Hl2 [Hn2 [S2 _]]]]]]]]]].
  rewrite <- M1 in *. fold sbk in R2, Hl2, Hn2.
  exists m1, b, m2, rest. split; [exact E1|]. split; [exact E2|]. split; [exact Hd2|].
  split; [rewrite app_length, map_length; cbn [length]; exact Hl2|].
  assert (Hn : sb_n sbk = Z.of_nat (length csk)) by (unfold sbk; rewrite M1, buf_sz_model; reflexivity).
  split; [exact Hn|]. split; [lia|]. split; [exact R2|]. split; [apply (sbuf_step_trans _ m1); assumption|].
  split; [exact D2|]. unfold sbk. rewrite M1, buf_sz_model. reflexivity.
Qed.

(* ------------------------------------------------------------------ sizes stay small: no overflow below 500 MB *)
Definition sz_small (n sz : Z) : Prop := 0 <= n /\ 0 <= sz <= 2 * n + 2 * SBUFSZ.
Lemma SBUFSZ_range : 1 <= SBUFSZ <= 1024.
Proof. split; discriminate. Qed.
Lemma mem_sz_small n sz len : sz_small n sz -> 0 <= len ->
  sz_small (n + len) (if sz <=? n + len + 1 then NEXTSZ sz (len + 1) else sz).
Proof.
  intros [Hn Hsz] Hlen. unfold sz_small. pose proof SBUFSZ_range.
  destruct (Z.leb_spec sz (n + len + 1)); [|lia].
  pose proof (NEXTSZ_ge sz (len + 1) ltac:(lia) ltac:(lia)). pose proof (NEXTSZ_le sz (len + 1) ltac:(lia) ltac:(lia)). lia.
Qed.
Lemma chr_sz_small n sz : sz_small n sz -> sz_small (n + 1) (chr_sz n sz).
Proof.
  intros [Hn Hsz]. unfold sz_small, chr_sz. pose proof SBUFSZ_range.
  destruct (Z.leb_spec sz (n + 2)); [|lia].
  pose proof (NEXTSZ_ge sz 1 ltac:(lia) ltac:(lia)). pose proof (NEXTSZ_le sz 1 ltac:(lia) ltac:(lia)). lia.
Qed.
Lemma fits_small n sz r : sz_small n sz -> 0 <= r -> n + r <= 500000001 -> sbuf_fits sz r.
Proof. intros [Hn Hsz] Hr Hb. unfold sbuf_fits. pose proof SBUFSZ_range. lia. Qed.
Lemma make_small : sz_small 0 0.
Proof. unfold sz_small. pose proof SBUFSZ_range. lia. Qed.

Definition op_len (op : sop) : Z := Z.of_nat (length (op_cells op)).
Definition ops_total (ops : list sop) : Z := fold_right (fun op a => op_len op + a) 0 ops.
Lemma op_need_len op : 1 <= op_need op <= op_len op + 1 /\ 0 <= op_len op.
Proof. destruct op; unfold op_len; cbn [op_need op_cells length]; unfold zb; rewrite ?map_length; lia. Qed.
Lemma op_model_small sb op : sz_small (sb_n sb) (sb_sz sb) ->
  sz_small (sb_n (op_model sb op)) (sb_sz (op_model sb op)) /\ sb_n (op_model sb op) = sb_n sb + op_len op.
Proof.
  intro H. destruct op as [c|bs os src|bs o s]; unfold op_len; cbn [op_model op_cells length]; unfold zb; rewrite ?map_length.
  - unfold IoDefs.sbuf_chr. cbn [sb_n sb_sz]. rewrite Z.geb_leb. split; [apply (chr_sz_small _ _ H)|lia].
  - unfold IoDefs.sbuf_mem. cbn [sb_n sb_sz]. rewrite Z.geb_leb, map_length. split; [apply mem_sz_small; [exact H|lia]|lia].
  - unfold IoDefs.sbuf_mem. cbn [sb_n sb_sz]. rewrite Z.geb_leb. split; [apply mem_sz_small; [exact H|lia]|lia].
Qed.
Lemma ops_fit_small ops : forall sb, sz_small (sb_n sb) (sb_sz sb) -> sb_n sb + ops_total ops <= 500000000 -> ops_fit sb ops.
Proof.
  induction ops as [|op ops IH]; intros sb H Ht; [exact I|]. cbn [ops_fit ops_total fold_right] in *.
  fold (ops_total ops) in Ht. pose proof (op_need_len op).
  assert (0 <= ops_total ops) by (clear; induction ops as [|o r IHr]; cbn [ops_total fold_right]; [lia|pose proof (op_need_len o); fold (ops_total r); lia]).
  destruct (op_model_small sb op H) as [Hsm Esm].
  split; [apply (fits_small (sb_n sb)); [exact H|lia|lia]|]. apply IH; [exact Hsm|lia].
Qed.

(* from sbuf_make on: below 500 MB of text no hypothesis about sizes is left *)
Theorem tr_sbuf_from_make (m0 : mem) ops d fuel :
  let p := length m0 in
  let m : mem := m0 ++ [[VInt 0; VInt 0; VInt 0]] in
  Forall (op_src_ok m p) ops -> ops_total ops <= 500000000 ->
  let sbk := IoDefs.sbuf_buf (fold_left op_model ops IoDefs.sbuf_make) in
  let csk := flat_map op_cells ops in
  callf cprog fuel (S d) F_sbuf_make [] m0 = Ok (VPtr p 0, m) /\
  exists m1 b m2 rest, run_ops fuel (S (S (S d))) p ops m = Ok m1 /\
    callf cprog fuel (S (S d)) F_sbuf_buf [VPtr p 0] m1 = Ok (VPtr b 0, m2) /\
    nth_error m2 b = Some (map VInt csk ++ VInt 0 :: rest) /\
    Z.of_nat (length (map VInt csk ++ VInt 0 :: rest)) = sb_sz sbk /\ sb_data sbk = map byte_of csk /\ 0 <= sb_n sbk < sb_sz sbk /\
    (length m0 < b)%nat /\ forall b', (b' < length m0)%nat -> nth_error m2 b' = nth_error m0 b'.
Proof.
  intros p m Hs Ht sbk csk. split; [apply tr_sbuf_make|].
  assert (R : sbuf_rep m p [] 0) by apply rep_make.
  assert (Hf : ops_fit (sb_model [] 0) ops) by (apply ops_fit_small; [apply make_small|cbn [sb_model sb_n length]; lia]).
  destruct (tr_sbuf_terminator_inside m p [] 0 ops d fuel R Hs Hf) as [m1 [b [m2 [rest [E1 [E2 [Hd [Hl [Hn [Hr [R2 [S2 [Db M]]]]]]]]]]]]].
  change (sb_model [] 0) with IoDefs.sbuf_make in *. cbn [app] in *. fold sbk in Hl, Hn, Hr, R2, M. fold csk in Hd, Hl, Hn, R2, M.
  exists m1, b, m2, rest. split; [exact E1|]. split; [exact E2|]. split; [exact Hd|]. split; [exact Hl|].
  assert (Dm : sbuf_datab m p = None) by (eapply datab_null; unfold m, p; apply nth_error_app_new).
  assert (Lm : length m = S (length m0)) by (unfold m; rewrite app_length; cbn [length]; lia).
  destruct S2 as [L2 [D2 F2]].
  split; [rewrite M; reflexivity|]. split; [exact Hr|]. split.
  - rewrite Dm in D2. destruct D2 as [D2|[b2 [D2 Hb2]]]; [congruence|]. rewrite Db in D2. injection D2 as <-. lia.
  - intros b' Hb'. rewrite F2.
    + unfold m. apply nth_error_app_old. exact Hb'.
    + rewrite Lm. lia.
    + unfold p. lia.
    + rewrite Dm. discriminate.
Qed.
