(* TrRead.v -- the READ path of /repo/lbuf.c as C TEXT: lbuf_rd (property C01).

   tools/c2clite.py (list tools/c2clite.d/99zzzzz_read.list) turns lbuf_rd into the CLite term cf_lbuf_rd of GenCFuncs.v:

       buf = malloc(1024);  sb = sbuf_make();
       while ((nr = read(fd, buf, 1024)) > 0) sbuf_mem(sb, buf, (int) nr);
       if (!nr) lbuf_edit(lbuf, sbuf_buf(sb), beg, end);
       sbuf_free(sb);  return nr != 0;

   read(2) is not C text of /repo: it is a call to the untranslated index X_read, answered by an ORACLE (CLiteExt.callx), in
   the style coq/TrWrite.v models write(2).  The kernel used here:

     block rs of the memory holds the READ SCHEDULE still to come (IoReadDefs.rout: a chunk of bytes -- a short read of any
              size --, 0 = end of file, -1 = error), consumed one result per read(2) call; exhausted = end of file for ever;
     block rl holds the LOG of the read(2) calls made: fd, the count asked for, the result.
     A call read(fd, p, n) must have its whole n-cell buffer inside one live block (else Err EOob); the bytes delivered are
     stored at p, the other cells keep their value.

   sbuf_make / sbuf_mem / sbuf_buf / sbuf_free are the translated functions proved in coq/TrSbuf.v (used through
   callx_mono); lbuf_edit is the oracle index X_lbuf_edit (`@extern lbuf.c lbuf_edit`; lbuf_edit itself is proved in
   coq/TrUndoEdit.v relative to the splice, the splice in coq/TrSplice*.v).

   The theorems hold for EVERY oracle that answers X_read as that kernel, EVERY schedule whose chunks are what
   read(fd, buf, 1024) can return (1..1024 bytes), every memory:

     tr_lbuf_rd_ok     the schedule reaches end of file before an error: lbuf_rd makes exactly the read(fd, buf, 1024) calls
                       of the schedule up to that result, then calls lbuf_edit(lb, text, beg, end) ONCE with a pointer to the
                       start of a block holding exactly the concatenation of the chunks delivered followed by the
                       terminator, beg and end as given; for whatever the oracle answers (keeping the two sbuf blocks) lbuf_rd
                       returns 0, the sbuf is freed, nothing else changes.
     tr_lbuf_rd_fail   the schedule reaches an error first: lbuf_rd returns 1, lbuf_edit is NOT called (the statement holds
                       for every oracle, also one that fails on X_lbuf_edit): the partial text is dropped, every block that
                       existed before the call other than the two kernel blocks is unchanged, the sbuf is freed. *)
From Coq Require Import List ZArith NArith Bool Lia.
From NV Require Import Bytes GenConsts IoDefs IoProps CLite CLiteProps GenCFuncs CLiteTac CLiteExt TrSbuf IoReadDefs.
Import ListNotations.
Local Open Scope Z_scope.

Notation rsched := (list rout).

(* ------------------------------------------------------------------ the kernel: read schedule and log as cells *)
Inductive revent := EvRead (fd n r : Z).

Definition enc_rout (o : rout) : list val :=
  match o with
  | RChunk bs => VInt (Z.of_nat (length bs)) :: map VInt (zb bs)
  | REof => [VInt 0]
  | RErr => [VInt (-1)]
  end.
Definition enc_rs (s : rsched) : block := flat_map enc_rout s.
Definition enc_rev (e : revent) : list val := match e with EvRead fd n r => [VInt 5; VInt fd; VInt n; VInt r] end.
Definition enc_rlog (lg : list revent) : block := flat_map enc_rev lg.

(* read(fd, p, n) under the schedule whose cells are sblk: the result, the cells delivered, the schedule left.  A chunk
   longer than n is delivered in part, the rest stays first in the schedule. *)
Definition rd_answer (sblk : block) (n : Z) : Z * list val * block :=
  match sblk with
  | VInt k :: rest =>
      if k <? 0 then (-1, [], rest)
      else let k' := Z.min k n in
           (k', firstn (Z.to_nat k') rest,
            if k' <? k then VInt (k - k') :: skipn (Z.to_nat k') rest else skipn (Z.to_nat k') rest)
  | _ => (0, [], [])
  end.
Definition sys_read (rs rl : nat) (args : list val) (m : mem) : res (val * mem) :=
  match args with
  | [VInt fd; VPtr b o; VInt n] =>
      match nth_error m rs, nth_error m rl, nth_error m b with
      | Some sblk, Some lblk, Some blk =>
          if (n <? 0) || (o <? 0) then Err EOob else
          if (Z.to_nat o + Z.to_nat n <=? length blk)%nat then
            let '(r, data, sblk') := rd_answer sblk n in
            Ok (VInt r, upd (upd (upd m b (put_cells blk (Z.to_nat o) data)) rs sblk') rl
                            (lblk ++ [VInt 5; VInt fd; VInt n; VInt r]))
          else Err EOob
      | _, _, _ => Err EOob
      end
  | _ => Err EShape
  end.

(* a result read(fd, buf, n) can have: 1..n bytes, 0, -1 *)
Definition rout_ok (n : nat) (o : rout) : Prop :=
  match o with RChunk bs => (0 < length bs <= n)%nat /\ bytes_lt256 bs | _ => True end.

(* the first result of a schedule *)
Definition r_val (s : rsched) : Z :=
  match s with RChunk bs :: _ => Z.of_nat (length bs) | RErr :: _ => -1 | _ => 0 end.
Definition r_data (s : rsched) : bytes := match s with RChunk bs :: _ => bs | _ => [] end.

Lemma zb_length (t : bytes) : length (zb t) = length t.
Proof. unfold zb. apply map_length. Qed.
Lemma zb_app (a b : bytes) : zb (a ++ b) = zb a ++ zb b.
Proof. unfold zb. apply map_app. Qed.

Lemma firstn_len_app {A} (a b : list A) n : n = length a -> firstn n (a ++ b) = a.
Proof. intros ->. rewrite firstn_app, Nat.sub_diag, firstn_all. cbn [firstn]. apply app_nil_r. Qed.
Lemma skipn_len_app {A} (a b : list A) n : n = length a -> skipn n (a ++ b) = b.
Proof. intros ->. rewrite skipn_app, Nat.sub_diag, skipn_all. reflexivity. Qed.

Lemma rd_answer_enc s n : Forall (rout_ok n) s ->
  rd_answer (enc_rs s) (Z.of_nat n) = (r_val s, map VInt (zb (r_data s)), enc_rs (tl s)).
Proof.
  intro H. destruct s as [|[bs| |] s]; [reflexivity| | |reflexivity].
  - apply Forall_inv in H. destruct H as [[H0 Hn] _].
    cbn [enc_rs flat_map enc_rout app rd_answer r_val r_data tl].
    destruct (Z.ltb_spec (Z.of_nat (length bs)) 0); [lia|]. cbv zeta.
    rewrite Z.min_l by lia. rewrite Z.ltb_irrefl, Nat2Z.id.
    assert (L : length bs = length (map VInt (zb bs))) by (rewrite map_length; symmetry; apply zb_length).
    rewrite (firstn_len_app _ _ _ L), (skipn_len_app _ _ _ L). reflexivity.
  - cbn [enc_rs flat_map enc_rout app rd_answer r_val r_data tl]. cbn [Z.ltb Z.compare]. cbv zeta.
    rewrite Z.min_l by lia. reflexivity.
Qed.

Lemma x_read_none : nth_error cprog X_read = None.
Proof. vm_compute. reflexivity. Qed.
Lemma x_lbuf_edit_none : nth_error cprog X_lbuf_edit = None.
Proof. vm_compute. reflexivity. Qed.
Ltac enterx f cf :=
  rewrite callx_S; cbn [nth_error cprog f cf fn_nparams fn_nlocals fn_body length Nat.eqb Nat.sub repeat app].

Lemma nth_some_lt {A} (l : list A) k x : nth_error l k = Some x -> (k < length l)%nat.
Proof. intro H. apply nth_error_Some. rewrite H. discriminate. Qed.
Lemma nth_error_ext_r {A} (l1 l2 : list A) : (forall i, nth_error l1 i = nth_error l2 i) -> l1 = l2.
Proof.
  revert l2; induction l1 as [|a l1 IH]; intros [|b l2] H; try reflexivity.
  - specialize (H O). discriminate.
  - specialize (H O). discriminate.
  - pose proof (H O) as H0. cbn in H0. injection H0 as ->. f_equal. apply IH. intro i. exact (H (S i)).
Qed.

(* sbuf_rep looks at the struct and its data block only *)
Lemma rep_ext (m m' : mem) p cs sz : sbuf_rep m p cs sz -> nth_error m' p = nth_error m p ->
  (forall b, sbuf_datab m p = Some b -> nth_error m' b = nth_error m b) -> sbuf_rep m' p cs sz.
Proof.
  intros [[-> [-> Hp]]|[b [rest [Hb [Hp [Hd R]]]]]] E1 E2.
  - left. split; [reflexivity|]. split; [reflexivity|]. rewrite E1. exact Hp.
  - right. exists b, rest. split; [exact Hb|]. split; [rewrite E1; exact Hp|]. split; [|exact R].
    rewrite (E2 b) by (eapply datab_of; exact Hp). exact Hd.
Qed.
Lemma datab_ext (m m' : mem) p : nth_error m' p = nth_error m p -> sbuf_datab m' p = sbuf_datab m p.
Proof. intro E. unfold sbuf_datab. rewrite E. reflexivity. Qed.

Section Read.
  Variable ext : nat -> list val -> mem -> res (val * mem).
  Variables rs rl : nat.
  Hypothesis Hrsrl : rs <> rl.
  Hypothesis ext_read : forall args m, ext X_read args m = sys_read rs rl args m.

  Definition rworld_at (m : mem) (s : rsched) (lg : list revent) : Prop :=
    nth_error m rs = Some (enc_rs s) /\ nth_error m rl = Some (enc_rlog lg).
  (* the memory after a read(2): the buffer block, the schedule and the log rewritten *)
  Definition rmem (m : mem) (b : nat) (blk : block) (s : rsched) (lg : list revent) : mem :=
    upd (upd (upd m b blk) rs (enc_rs s)) rl (enc_rlog lg).

  Lemma rmem_length m b blk s lg : (b < length m)%nat -> (rs < length m)%nat -> (rl < length m)%nat ->
    length (rmem m b blk s lg) = length m.
  Proof.
    intros L1 L2 L3. unfold rmem.
    assert (E1 : length (upd m b blk) = length m) by (apply upd_length; exact L1).
    assert (E2 : length (upd (upd m b blk) rs (enc_rs s)) = length m) by (rewrite upd_length; rewrite E1; [reflexivity|assumption]).
    rewrite upd_length; rewrite E2; [reflexivity|exact L3].
  Qed.
  Lemma rmem_nth m b blk s lg k : (b < length m)%nat -> (rs < length m)%nat -> (rl < length m)%nat -> b <> rs -> b <> rl ->
    nth_error (rmem m b blk s lg) k =
    if Nat.eqb k rl then Some (enc_rlog lg) else if Nat.eqb k rs then Some (enc_rs s)
    else if Nat.eqb k b then Some blk else nth_error m k.
  Proof.
    intros L1 L2 L3 N1 N2. unfold rmem.
    assert (E1 : length (upd m b blk) = length m) by (apply upd_length; exact L1).
    assert (E2 : length (upd (upd m b blk) rs (enc_rs s)) = length m) by (rewrite upd_length; rewrite E1; [reflexivity|assumption]).
    destruct (Nat.eqb_spec k rl) as [->|K1]; [apply mem_upd_same; rewrite E2; exact L3|].
    rewrite mem_upd_other by (rewrite ?E2; assumption).
    destruct (Nat.eqb_spec k rs) as [->|K2]; [apply mem_upd_same; rewrite E1; exact L2|].
    rewrite mem_upd_other by (rewrite ?E1; assumption).
    destruct (Nat.eqb_spec k b) as [->|K3]; [apply mem_upd_same; assumption|]. apply mem_upd_other; assumption.
  Qed.

  (* one read(fd, buf, n) into a block of exactly n cells *)
  Lemma sys_read_ok m s lg fd b (blk : block) (n : nat) d fuel :
    rworld_at m s lg -> nth_error m b = Some blk -> length blk = n -> b <> rs -> b <> rl -> Forall (rout_ok n) s ->
    callx ext cprog fuel (S d) X_read [VInt fd; VPtr b 0; VInt (Z.of_nat n)] m
    = Ok (VInt (r_val s),
          rmem m b (put_cells blk 0 (map VInt (zb (r_data s)))) (tl s) (lg ++ [EvRead fd (Z.of_nat n) (r_val s)])).
  Proof.
    intros [Hs Hl] Hb Hlen N1 N2 Hok. rewrite callx_S, x_read_none, ext_read. unfold sys_read.
    rewrite Hs, Hl, Hb. destruct (Z.ltb_spec (Z.of_nat n) 0); [lia|]. cbn [Z.ltb Z.compare orb].
    rewrite Nat2Z.id. change (Z.to_nat 0) with 0%nat. cbn [Nat.add].
    destruct (Nat.leb_spec n (length blk)); [|lia].
    rewrite rd_answer_enc by exact Hok. unfold rmem, enc_rlog. rewrite flat_map_app. cbn [flat_map enc_rev app].
    reflexivity.
  Qed.

  (* ---------------------------------------------------------------- lbuf_rd *)
  Definition rd_loop : stmt := match fn_body cf_lbuf_rd with SSeq _ (SSeq _ (SSeq w _)) => w | _ => SSkip end.
  Definition rd_tail : stmt := match fn_body cf_lbuf_rd with SSeq _ (SSeq _ (SSeq _ t)) => t | _ => SSkip end.

  (* the read(2) calls lbuf_rd makes under a schedule *)
  Fixpoint rd_log (fd : Z) (s : rsched) : list revent :=
    match s with
    | RChunk bs :: r => EvRead fd 1024 (Z.of_nat (length bs)) :: rd_log fd r
    | RErr :: _ => [EvRead fd 1024 (-1)]
    | _ => [EvRead fd 1024 0]
    end.

  Section Rd.
    Variable m0 : mem.
    Variable lb : nat.
    Variable lo : Z.
    Variables fd beg en : Z.
    Variables d fuel : nat.
    Hypothesis Hrs : (rs < length m0)%nat.
    Hypothesis Hrl : (rl < length m0)%nat.
    Let n0 : nat := length m0.
    Let p : nat := S n0.
    Let call := callx ext cprog fuel (S (S d)).
    Definition rd_st (nr : val) (M : mem) : state :=
      mkst [VPtr lb lo; VInt fd; VInt beg; VInt en; VPtr n0 0; VPtr p 0; nr] M.

    (* while lbuf_rd runs: block n0 is the local buf[1024], block n0 + 1 the struct sbuf, its data block (if any) is younger;
       the blocks of the caller other than the two kernel blocks are as they were *)
    Record rd_inv (M : mem) (cs : list Z) (sz : Z) (s : rsched) (lg : list revent) : Prop := mk_rd_inv {
      ri_len : (n0 + 2 <= length M)%nat;
      ri_buf : exists blk, nth_error M n0 = Some blk /\ length blk = 1024%nat;
      ri_rep : sbuf_rep M p cs sz;
      ri_dat : forall b, sbuf_datab M p = Some b -> (n0 + 2 <= b)%nat;
      ri_small : sz_small (Z.of_nat (length cs)) sz;
      ri_world : rworld_at M s lg;
      ri_old : forall k, (k < n0)%nat -> k <> rs -> k <> rl -> nth_error M k = nth_error m0 k
    }.

    (* a read(2) keeps the invariant *)
    Lemma rd_inv_read M cs sz s lg (blk' : block) s' lg' : rd_inv M cs sz s lg -> length blk' = 1024%nat ->
      rd_inv (rmem M n0 blk' s' lg') cs sz s' lg' /\ nth_error (rmem M n0 blk' s' lg') n0 = Some blk'.
    Proof.
      intros [I1 I2 I3 I4 I5 I6 I7] Hl.
      assert (Q : forall k, nth_error (rmem M n0 blk' s' lg') k =
                  if Nat.eqb k rl then Some (enc_rlog lg') else if Nat.eqb k rs then Some (enc_rs s')
                  else if Nat.eqb k n0 then Some blk' else nth_error M k)
        by (intro k; apply rmem_nth; unfold n0 in *; lia).
      assert (Qo : forall k, k <> rl -> k <> rs -> k <> n0 -> nth_error (rmem M n0 blk' s' lg') k = nth_error M k).
      { intros k K1 K2 K3. rewrite Q. destruct (Nat.eqb_spec k rl); [contradiction|]. destruct (Nat.eqb_spec k rs); [contradiction|].
        destruct (Nat.eqb_spec k n0); [contradiction|]. reflexivity. }
      assert (Qb : nth_error (rmem M n0 blk' s' lg') n0 = Some blk').
      { rewrite Q. destruct (Nat.eqb_spec n0 rl); [unfold n0 in *; lia|]. destruct (Nat.eqb_spec n0 rs); [unfold n0 in *; lia|].
        rewrite Nat.eqb_refl. reflexivity. }
      assert (Ep : nth_error (rmem M n0 blk' s' lg') p = nth_error M p) by (apply Qo; unfold p, n0 in *; lia).
      split; [|exact Qb]. constructor.
      - rewrite rmem_length; unfold n0 in *; lia.
      - exists blk'. split; [exact Qb|exact Hl].
      - apply (rep_ext M); [exact I3|exact Ep|]. intros b Hb. specialize (I4 b Hb). apply Qo; unfold n0 in *; lia.
      - intros b Hb. rewrite (datab_ext M) in Hb by exact Ep. apply I4. exact Hb.
      - exact I5.
      - split; rewrite Q; [|rewrite Nat.eqb_refl; reflexivity].
        destruct (Nat.eqb_spec rs rl); [contradiction|]. rewrite Nat.eqb_refl. reflexivity.
      - intros k K1 K2 K3. rewrite Qo by (unfold n0 in *; lia). apply I7; assumption.
    Qed.

    (* the condition of the loop: one read(fd, buf, 1024) *)
    Lemma rd_cond M cs sz s lg nr : rd_inv M cs sz s lg -> Forall (rout_ok 1024) s ->
      exists blk, nth_error M n0 = Some blk /\ length blk = 1024%nat /\
      eval call (EBin OGt I64 (ESetLocal 6 (ECall X_read [ELocal 1; ELocal 4; EConst 1024])) (ECast I64 (EConst 0))) (rd_st nr M)
      = Ok (VInt (b2z (0 <? r_val s)), rd_st (VInt (r_val s))
                                  (rmem M n0 (put_cells blk 0 (map VInt (zb (r_data s)))) (tl s) (lg ++ [EvRead fd 1024 (r_val s)]))).
    Proof.
      intros I Hok. destruct (ri_buf _ _ _ _ _ I) as (blk & Hb & Hl). exists blk. split; [exact Hb|]. split; [exact Hl|].
      unfold rd_st. xstep. unfold call.
      change 1024 with (Z.of_nat 1024).
      rewrite (sys_read_ok M s lg fd n0 blk 1024 (S d) fuel (ri_world _ _ _ _ _ I) Hb Hl) by (try exact Hok; unfold n0; lia).
      xstep. reflexivity.
    Qed.

    Lemma rd_loop_eq : rd_loop = SWhile (EBin OGt I64 (ESetLocal 6 (ECall X_read [ELocal 1; ELocal 4; EConst 1024])) (ECast I64 (EConst 0)))
                                        (SExpr (ECall F_sbuf_mem [ELocal 5; ELocal 4; ECast I32 (ELocal 6)])).
    Proof. reflexivity. Qed.

    (* a result <= 0 leaves the loop *)
    Lemma rd_exit M cs sz s lg nr f' : rd_inv M cs sz s lg -> Forall (rout_ok 1024) s -> r_val s <= 0 -> r_data s = [] ->
      exists M', exec call (S f') rd_loop (rd_st nr M) = ONormal (rd_st (VInt (r_val s)) M') /\
                 rd_inv M' cs sz (tl s) (lg ++ [EvRead fd 1024 (r_val s)]).
    Proof.
      intros I Hok Hr Hd. destruct (rd_cond M cs sz s lg nr I Hok) as (blk & Hb & Hl & C).
      rewrite Hd in C. cbn [zb map] in C. rewrite put_cells_nil in C.
      eexists. split.
      - rewrite rd_loop_eq, exec_while. rewrite C. xstep.
        destruct (Z.ltb_spec 0 (r_val s)); [lia|]. xstep. reflexivity.
      - apply (rd_inv_read M cs sz s lg blk _ _ I Hl).
    Qed.

    (* a chunk: appended to the sbuf by sbuf_mem, the loop goes on *)
    Lemma rd_iter M cs sz (bs : bytes) s lg nr f' : rd_inv M cs sz (RChunk bs :: s) lg -> Forall (rout_ok 1024) (RChunk bs :: s) ->
      Z.of_nat (length cs) + Z.of_nat (length bs) <= 500000000 ->
      exists M' sz', exec call (S f') rd_loop (rd_st nr M) = exec call f' rd_loop (rd_st (VInt (Z.of_nat (length bs))) M') /\
                     rd_inv M' (cs ++ zb bs) sz' s (lg ++ [EvRead fd 1024 (Z.of_nat (length bs))]).
    Proof.
      intros I Hok Hsz. destruct (rd_cond M cs sz _ lg nr I Hok) as (blk & Hb & Hl & C).
      cbn [r_val r_data tl] in C.
      pose proof (Forall_inv Hok) as [[Hb0 Hb1] H256]. cbn [rout_ok] in *.
      set (blk' := put_cells blk 0 (map VInt (zb bs))) in *.
      assert (Lz : length (map VInt (zb bs)) = length bs) by (rewrite map_length; apply zb_length).
      assert (Hl' : length blk' = 1024%nat) by (unfold blk'; rewrite put_cells_length; [exact Hl|rewrite Lz; lia]).
      set (lg' := lg ++ [EvRead fd 1024 (Z.of_nat (length bs))]) in *.
      destruct (rd_inv_read M cs sz _ lg blk' s lg' I Hl') as [I1 Hb1'].
      set (M1 := rmem M n0 blk' s lg') in *.
      destruct I1 as [J1 J2 J3 J4 J5 J6 J7].
      (* sbuf_mem(sb, buf, nr) *)
      assert (Hsrc : firstn (length (zb bs)) (skipn (Z.to_nat 0) blk') = map VInt (zb bs)).
      { change (Z.to_nat 0) with 0%nat. cbn [skipn]. unfold blk'. rewrite put_cells_0. apply firstn_len_app. rewrite map_length. reflexivity. }
      destruct (tr_sbuf_mem M1 p cs sz n0 0 blk' (zb bs) d fuel J3) as (M2 & E2 & R2 & _ & S2).
      { unfold p. lia. }
      { intro X. apply J4 in X. lia. }
      { exact Hb1'. }
      { lia. }
      { rewrite zb_length, Hl'. lia. }
      { exact Hsrc. }
      { apply (fits_small (Z.of_nat (length cs))); [exact J5|lia|rewrite zb_length; lia]. }
      cbv zeta in R2. rewrite zb_length in E2.
      set (sz' := sb_sz (IoDefs.sbuf_mem (sb_model cs sz) (map byte_of (zb bs)))) in *.
      exists M2, sz'. split.
      - rewrite rd_loop_eq, exec_while. rewrite C. unfold rd_st. xstep.
        destruct (Z.ltb_spec 0 (Z.of_nat (length bs))); [|lia]. xstep.
        rewrite wrap_I32_id by lia. unfold call. rewrite (callx_mono ext _ _ _ _ _ _ _ E2). xstep. reflexivity.
      - destruct S2 as (L2 & D2 & F2). constructor.
        + lia.
        + exists blk'. split; [|exact Hl']. rewrite F2; [exact Hb1'|lia|unfold p; lia|]. intro X. apply J4 in X. lia.
        + exact R2.
        + intros b Hb'. destruct D2 as [D2|(b2 & D2 & Lb2)]; [rewrite D2 in Hb'; apply J4; exact Hb'|].
          rewrite D2 in Hb'. injection Hb' as <-. lia.
        + unfold sz'. unfold IoDefs.sbuf_mem, sb_model. cbn [sb_sz sb_n sb_data]. rewrite Z.geb_leb, !map_length, app_length, Nat2Z.inj_add.
          apply mem_sz_small; [exact J5|lia].
        + destruct J6 as [W1 W2]. split; (rewrite F2; [assumption|lia|unfold p; lia|]); intro X; apply J4 in X; lia.
        + intros k K1 K2 K3. rewrite F2; [apply J7; assumption|lia|unfold p; lia|]. intro X. apply J4 in X. lia.
    Qed.

    (* the whole loop, under any schedule *)
    Lemma rd_loop_ok : forall s cs sz lg M nr f', rd_inv M cs sz s lg -> Forall (rout_ok 1024) s ->
      Z.of_nat (length cs) + Z.of_nat (length (concat (rd_chunks s))) <= 500000000 -> (length s + 1 <= f')%nat ->
      exists M' sz', exec call f' rd_loop (rd_st nr M) = ONormal (rd_st (VInt (if rd_ok s then 0 else -1)) M') /\
                     rd_inv M' (cs ++ zb (concat (rd_chunks s))) sz' (rd_rest s) (lg ++ rd_log fd s).
    Proof.
      induction s as [|o s IH]; intros cs sz lg M nr f' I Hok Hsz Hf; (destruct f' as [|f']; [cbn [length] in Hf; lia|]).
      - destruct (rd_exit M cs sz [] lg nr f' I Hok ltac:(cbn; lia) eq_refl) as (M' & E & I').
        exists M', sz. cbn [rd_ok rd_chunks concat rd_rest rd_log]. change (zb []) with (@nil Z). rewrite app_nil_r.
        split; [exact E|exact I'].
      - destruct o as [bs| |].
        + cbn [rd_chunks concat] in Hsz. rewrite app_length in Hsz.
          destruct (rd_iter M cs sz bs s lg nr f' I Hok ltac:(lia)) as (M1 & sz1 & E1 & I1).
          destruct (IH (cs ++ zb bs) sz1 _ M1 (VInt (Z.of_nat (length bs))) f' I1 (Forall_inv_tail Hok)) as (M' & sz' & E & I').
          { rewrite app_length, zb_length. lia. }
          { cbn [length] in Hf. lia. }
          exists M', sz'. cbn [rd_ok rd_chunks concat rd_rest rd_log]. rewrite E1, E. split; [reflexivity|].
          rewrite zb_app, app_assoc. rewrite <- (app_assoc lg) in I'. exact I'.
        + destruct (rd_exit M cs sz (REof :: s) lg nr f' I Hok ltac:(cbn; lia) eq_refl) as (M' & E & I').
          exists M', sz. cbn [rd_ok rd_chunks concat rd_rest rd_log]. change (zb []) with (@nil Z). rewrite app_nil_r.
          split; [exact E|exact I'].
        + destruct (rd_exit M cs sz (RErr :: s) lg nr f' I Hok ltac:(cbn; lia) eq_refl) as (M' & E & I').
          exists M', sz. cbn [rd_ok rd_chunks concat rd_rest rd_log]. change (zb []) with (@nil Z). rewrite app_nil_r.
          split; [exact E|exact I'].
    Qed.

    Lemma rd_tail_eq : rd_tail =
      SSeq (SIf (ELNot (ELocal 6)) (SExpr (ECall X_lbuf_edit [ELocal 0; ECall F_sbuf_buf [ELocal 5]; ELocal 2; ELocal 3])) SSkip)
           (SSeq (SExpr (ECall F_sbuf_free [ELocal 5])) (SReturn (Some (EBin ONe I64 (ELocal 6) (ECast I64 (EConst 0)))))).
    Proof. reflexivity. Qed.

    (* nr < 0: no lbuf_edit; sbuf_free(sb); return 1 *)
    Lemma rd_tail_fail M cs sz s lg f2 : rd_inv M cs sz s lg ->
      exists mf, exec call f2 rd_tail (rd_st (VInt (-1)) M) = OReturn (VInt 1) (rd_st (VInt (-1)) mf) /\
        rworld_at mf s lg /\ length mf = length M /\ nth_error mf p = Some [] /\
        (forall k, (k < n0)%nat -> k <> rs -> k <> rl -> nth_error mf k = nth_error m0 k).
    Proof.
      intros [I1 I2 I3 I4 I5 I6 I7].
      destruct (tr_sbuf_free M p cs sz (S d) fuel I3) as (mf & E & F1 & F2 & F3 & F4).
      exists mf. split.
      - rewrite rd_tail_eq. unfold rd_st. xstep. change (-1 =? 0) with false. cbn [negb]. xstep.
        unfold call. rewrite (callx_mono ext _ _ _ _ _ _ _ E). xstep. change (-1 =? 0) with false. cbn [negb b2z]. reflexivity.
      - assert (Q : forall k, (k < n0)%nat -> nth_error mf k = nth_error M k).
        { intros k K. apply F4; [unfold p; lia|]. intro X. apply I4 in X. lia. }
        split; [destruct I6 as [W1 W2]; split; rewrite Q by (unfold n0; lia); assumption|].
        split; [exact F3|]. split; [exact F1|]. intros k K1 K2 K3. rewrite Q by exact K1. apply I7; assumption.
    Qed.

    (* nr == 0: lbuf_edit(lbuf, sbuf_buf(sb), beg, end); sbuf_free(sb); return 0 *)
    Lemma rd_tail_ok M cs sz s lg f2 : rd_inv M cs sz s lg ->
      exists m1 tb rest,
        nth_error m1 tb = Some (map VInt cs ++ VInt 0 :: rest) /\ (n0 + 2 <= tb)%nat /\ (n0 + 2 <= length m1)%nat /\
        (exists sblk, nth_error m1 p = Some sblk /\ sblk <> []) /\
        rworld_at m1 s lg /\ (forall k, (k < n0)%nat -> k <> rs -> k <> rl -> nth_error m1 k = nth_error m0 k) /\
        forall u m2, ext X_lbuf_edit [VPtr lb lo; VPtr tb 0; VInt beg; VInt en] m1 = Ok (u, m2) ->
          nth_error m2 p = nth_error m1 p -> nth_error m2 tb = nth_error m1 tb ->
          exec call f2 rd_tail (rd_st (VInt 0) M) = OReturn (VInt 0) (rd_st (VInt 0) (upd (upd m2 tb []) p [])).
    Proof.
      intros [I1 I2 I3 I4 I5 I6 I7].
      destruct (tr_sbuf_buf M p cs sz d fuel I3) as (tb & m1 & rest & E1 & R1 & D1 & Hd1 & _ & _ & S1 & Hb).
      assert (Htb : (n0 + 2 <= tb)%nat) by (destruct Hb as [Hb|Hb]; [apply I4; exact Hb|lia]).
      destruct S1 as (L1 & _ & F1).
      assert (Q : forall k, (k < n0)%nat -> nth_error m1 k = nth_error M k).
      { intros k K. apply F1; [lia|unfold p; lia|]. intro X. apply I4 in X. lia. }
      exists m1, tb, rest. split; [exact Hd1|]. split; [exact Htb|]. split; [exact (Nat.le_trans _ _ _ I1 L1)|].
      split.
      { destruct R1 as [[_ [_ Hp]]|[b1 [rest1 [_ [Hp _]]]]]; eexists; (split; [exact Hp|discriminate]). }
      split; [destruct I6 as [W1 W2]; split; rewrite Q by (unfold n0; lia); assumption|].
      split; [intros k K1 K2 K3; rewrite Q by exact K1; apply I7; assumption|].
      intros u m2 E2 Kp Kt.
      assert (R2 : sbuf_rep m2 p cs (sb_sz (IoDefs.sbuf_buf (sb_model cs sz)))).
      { apply (rep_ext m1); [exact R1|exact Kp|]. intros b Hb'. rewrite D1 in Hb'. injection Hb' as <-. exact Kt. }
      assert (D2 : sbuf_datab m2 p = Some tb) by (rewrite (datab_ext m1) by exact Kp; exact D1).
      destruct (tr_sbuf_free m2 p _ _ (S d) fuel R2) as (m3 & E3 & G1 & G2 & G3 & G4).
      assert (Lp : (p < length m2)%nat) by (apply (rep_p_lt _ _ _ _ R2)).
      assert (Lt : (tb < length m2)%nat) by (apply nth_error_Some; rewrite (eq_trans Kt Hd1); discriminate).
      assert (Em3 : m3 = upd (upd m2 tb []) p []).
      { apply nth_error_ext_r. intro i.
        destruct (Nat.eq_dec i p) as [->|Np]; [rewrite G1; symmetry; apply mem_upd_same; rewrite upd_length; assumption|].
        rewrite mem_upd_other by (rewrite ?upd_length; assumption).
        destruct (Nat.eq_dec i tb) as [->|Nt]; [rewrite (G2 tb D2); symmetry; apply mem_upd_same; exact Lt|].
        rewrite mem_upd_other by assumption. apply G4; [exact Np|]. rewrite D2. intro X. injection X as X. congruence. }
      rewrite rd_tail_eq. unfold rd_st. xstep. unfold call. rewrite (callx_mono ext _ _ _ _ _ _ _ E1). xstep.
      rewrite callx_S, x_lbuf_edit_none, E2. xstep. rewrite (callx_mono ext _ _ _ _ _ _ _ E3). xstep. rewrite Em3. reflexivity.
    Qed.

    Lemma rd_inv_init s lg : rworld_at m0 s lg ->
      rd_inv ((m0 ++ [repeat VUndef 1024]) ++ [[VInt 0; VInt 0; VInt 0]]) [] 0 s lg.
    Proof.
      intros [W1 W2].
      assert (La : length (m0 ++ [repeat VUndef 1024]) = p) by (rewrite app_length; cbn [length]; unfold p, n0; lia).
      assert (Old : forall k, (k < n0)%nat -> nth_error ((m0 ++ [repeat VUndef 1024]) ++ [[VInt 0; VInt 0; VInt 0]]) k = nth_error m0 k).
      { intros k K. rewrite nth_error_app_old by (rewrite La; unfold p; lia). apply nth_error_app_old. exact K. }
      constructor.
      - rewrite app_length, La. cbn [length]. unfold p. lia.
      - exists (repeat VUndef 1024). split; [|apply repeat_length].
        rewrite nth_error_app_old by (rewrite La; unfold p; lia). apply nth_error_app_new.
      - rewrite <- La. apply rep_make.
      - intros b Hb. rewrite <- La in Hb. rewrite (datab_null _ _ (VInt 0) (VInt 0)) in Hb by apply nth_error_app_new. discriminate.
      - apply make_small.
      - split; rewrite Old by assumption; assumption.
      - intros k K _ _. apply Old. exact K.
    Qed.

    (* lbuf_rd(lb, fd, beg, end) when a read fails: 1 is returned, the text read so far is dropped *)
    Theorem tr_lbuf_rd_fail_sec s lg : rworld_at m0 s lg -> Forall (rout_ok 1024) s -> rd_ok s = false ->
      Z.of_nat (length (concat (rd_chunks s))) <= 500000000 -> (length s + 2 <= fuel)%nat ->
      exists mf, callx ext cprog fuel (S (S (S d))) F_lbuf_rd [VPtr lb lo; VInt fd; VInt beg; VInt en] m0 = Ok (VInt 1, mf) /\
        rworld_at mf (rd_rest s) (lg ++ rd_log fd s) /\ nth_error mf p = Some [] /\
        forall k, (k < n0)%nat -> k <> rs -> k <> rl -> nth_error mf k = nth_error m0 k.
    Proof.
      intros Hw Hok Hfail Hsz Hf.
      destruct (rd_loop_ok s [] 0 lg _ VUndef fuel (rd_inv_init s lg Hw) Hok ltac:(cbn [length]; lia) ltac:(lia)) as (M' & sz' & E & I').
      rewrite Hfail in E.
      destruct (rd_tail_fail M' _ sz' _ _ fuel I') as (mf & E2 & W & _ & Fp & Fo).
      exists mf. split; [|split; [exact W|split; [exact Fp|exact Fo]]].
      enterx F_lbuf_rd cf_lbuf_rd. xstep. rewrite malloc_ok by lia. xstep.
      rewrite (callx_mono ext _ _ _ _ _ _ _ (tr_sbuf_make _ _ _)). xstep.
      change (Z.to_nat 1024) with 1024%nat.
      replace (length (m0 ++ [repeat VUndef 1024])) with (S (length m0)) by (rewrite app_length; cbn [length]; lia).
      unfold rd_loop, rd_tail, rd_st, call, p, n0 in E, E2. cbn [fn_body cf_lbuf_rd] in E, E2.
      rewrite E, E2. reflexivity.
    Qed.

    (* lbuf_rd(lb, fd, beg, end) when end of file is reached: one lbuf_edit with the text read, 0 is returned *)
    Theorem tr_lbuf_rd_ok_sec s lg : rworld_at m0 s lg -> Forall (rout_ok 1024) s -> rd_ok s = true ->
      Z.of_nat (length (concat (rd_chunks s))) <= 500000000 -> (length s + 2 <= fuel)%nat ->
      let t := concat (rd_chunks s) in
      exists m1 tb rest,
        nth_error m1 tb = Some (map VInt (zb t) ++ VInt 0 :: rest) /\ (n0 + 2 <= tb)%nat /\ (n0 + 2 <= length m1)%nat /\
        (exists sblk, nth_error m1 p = Some sblk /\ sblk <> []) /\
        rworld_at m1 (rd_rest s) (lg ++ rd_log fd s) /\
        (forall k, (k < n0)%nat -> k <> rs -> k <> rl -> nth_error m1 k = nth_error m0 k) /\
        forall u m2, ext X_lbuf_edit [VPtr lb lo; VPtr tb 0; VInt beg; VInt en] m1 = Ok (u, m2) ->
          nth_error m2 p = nth_error m1 p -> nth_error m2 tb = nth_error m1 tb ->
          callx ext cprog fuel (S (S (S d))) F_lbuf_rd [VPtr lb lo; VInt fd; VInt beg; VInt en] m0
          = Ok (VInt 0, upd (upd m2 tb []) p []).
    Proof.
      intros Hw Hok Hgood Hsz Hf t.
      destruct (rd_loop_ok s [] 0 lg _ VUndef fuel (rd_inv_init s lg Hw) Hok ltac:(cbn [length]; lia) ltac:(lia)) as (M' & sz' & E & I').
      rewrite Hgood in E. cbn [app] in I'. fold t in I'.
      destruct (rd_tail_ok M' _ sz' _ _ fuel I') as (m1 & tb & rest & A1 & A2 & A3 & A4 & A5 & A6 & A7).
      exists m1, tb, rest. split; [exact A1|]. split; [exact A2|]. split; [exact A3|]. split; [exact A4|]. split; [exact A5|].
      split; [exact A6|]. intros u m2 E2 Kp Kt. specialize (A7 u m2 E2 Kp Kt).
      enterx F_lbuf_rd cf_lbuf_rd. xstep. rewrite malloc_ok by lia. xstep.
      rewrite (callx_mono ext _ _ _ _ _ _ _ (tr_sbuf_make _ _ _)). xstep.
      change (Z.to_nat 1024) with 1024%nat.
      replace (length (m0 ++ [repeat VUndef 1024])) with (S (length m0)) by (rewrite app_length; cbn [length]; lia).
      unfold rd_loop, rd_tail, rd_st, call, p, n0 in E, A7. cbn [fn_body cf_lbuf_rd] in E, A7.
      rewrite E, A7. reflexivity.
    Qed.
  End Rd.
End Read.

(* ------------------------------------------------------------------ the statements outside the sections *)
(* an oracle that is the read kernel on read(2) *)
Definition read_oracle (ext : nat -> list val -> mem -> res (val * mem)) (rs rl : nat) : Prop :=
  rs <> rl /\ forall args m, ext X_read args m = sys_read rs rl args m.

(* the schedule is consumed up to its first result <= 0; 0 is returned iff that result is not an error *)
Lemma rd_used_rest s : s = rd_used s ++ rd_rest s.
Proof. induction s as [|[bs| |] s IH]; cbn [rd_used rd_rest app]; [reflexivity|f_equal; exact IH|reflexivity|reflexivity]. Qed.
Lemma rd_ok_iff s : rd_ok s = false <-> In RErr (rd_used s).
Proof.
  induction s as [|[bs| |] s IH]; cbn [rd_ok rd_used In].
  - split; [discriminate|intros []].
  - rewrite IH. split; [intro H; right; exact H|intros [H|H]; [discriminate|exact H]].
  - split; [discriminate|intros [H|[]]; discriminate].
  - split; [intros _; left; reflexivity|reflexivity].
Qed.
Lemma rd_chunks_used s : rd_chunks (rd_used s) = rd_chunks s.
Proof. induction s as [|[bs| |] s IH]; cbn [rd_used rd_chunks]; [reflexivity|f_equal; exact IH|reflexivity|reflexivity]. Qed.
Lemma rd_sched_of chunks last : (forall bs, last <> RChunk bs) ->
  rd_chunks (sched_of chunks last) = chunks /\ rd_rest (sched_of chunks last) = [] /\ rd_used (sched_of chunks last) = sched_of chunks last /\
  rd_ok (sched_of chunks last) = match last with RErr => false | _ => true end.
Proof.
  intro Hl. unfold sched_of. induction chunks as [|c cs IH]; cbn [map app rd_chunks rd_rest rd_ok rd_used].
  - destruct last as [bs| |]; [destruct (Hl bs eq_refl)| |]; repeat split; reflexivity.
  - destruct IH as (A & B & C & D). rewrite A, B, C, D. repeat split; reflexivity.
Qed.

(* the model of lbuf_rd under a schedule, spelled out: the text is the concatenation of the chunks delivered, whatever the
   chunking; a failing read leaves the buffer alone *)
Lemma lbuf_rd_sched_spec lb s b e :
  lbuf_rd_sched lb s b e = if rd_ok s then (IoDefs.lbuf_edit lb (concat (rd_chunks s)) b e, 0) else (Some lb, 1).
Proof. unfold lbuf_rd_sched, IoDefs.lbuf_rd. rewrite rd_sbuf_data. reflexivity. Qed.
Lemma lbuf_rd_sched_lines lb s b e : rd_ok s = true -> (0 <= ln_sz lb) -> (b <= e <= length (ln lb))%nat ->
  exists lb', lbuf_rd_sched lb s b e = (Some lb', 0) /\
    ln lb' = firstn b (ln lb) ++ split_lines (concat (rd_chunks s)) ++ skipn e (ln lb).
Proof.
  intros Hok Hsz Hbe. rewrite lbuf_rd_sched_spec, Hok. unfold IoDefs.lbuf_edit.
  rewrite !Nat.min_l by lia.
  destruct (lbuf_replace_spec lb (concat (rd_chunks s)) b (e - b) Hsz ltac:(lia)) as (lb' & A & B & _).
  exists lb'. rewrite A. split; [reflexivity|]. rewrite B. replace (b + (e - b))%nat with e by lia. reflexivity.
Qed.

(* an lbuf_edit oracle for the text t: called with a pointer to the start of a block (younger than the caller's memory) that
   holds t and its terminator, it returns, relates the memories by E, and leaves the blocks younger than the caller's memory alone *)
Definition edit_oracle (ext : nat -> list val -> mem -> res (val * mem)) (lb : nat) (lo beg en : Z) (n0 : nat) (t : bytes)
                       (E : mem -> mem -> Prop) : Prop :=
  forall (m1 : mem) tb (rest : block), (n0 + 2 <= tb)%nat -> @nth_error block m1 tb = Some (map VInt (zb t) ++ VInt 0 :: rest) ->
    exists u m2, ext X_lbuf_edit [VPtr lb lo; VPtr tb 0; VInt beg; VInt en] m1 = Ok (u, m2) /\ E m1 m2 /\
      forall k, (n0 <= k < length m1)%nat -> nth_error m2 k = nth_error m1 k.

(* lbuf_rd on the C text, for every read schedule and every lbuf_edit oracle *)
Theorem tr_lbuf_rd ext rs rl m0 lb lo fd beg en s lg d fuel E :
  read_oracle ext rs rl -> rworld_at rs rl m0 s lg -> Forall (rout_ok 1024) s ->
  Z.of_nat (length (concat (rd_chunks s))) <= 500000000 -> (length s + 2 <= fuel)%nat ->
  let t := concat (rd_chunks s) in
  (rd_ok s = true -> edit_oracle ext lb lo beg en (length m0) t E) ->
  let old m := forall k, (k < length m0)%nat -> k <> rs -> k <> rl -> nth_error m k = nth_error m0 k in
  if rd_ok s then
    exists m1 m2 tb rest,
      callx ext cprog fuel (S (S (S d))) F_lbuf_rd [VPtr lb lo; VInt fd; VInt beg; VInt en] m0
      = Ok (VInt 0, upd (upd m2 tb []) (S (length m0)) []) /\
      nth_error m1 tb = Some (map VInt (zb t) ++ VInt 0 :: rest) /\ (length m0 + 2 <= tb)%nat /\ (length m0 + 2 <= length m1)%nat /\
      rworld_at rs rl m1 (rd_rest s) (lg ++ rd_log fd s) /\ old m1 /\ E m1 m2 /\
      (forall k, (length m0 <= k < length m1)%nat -> nth_error m2 k = nth_error m1 k)
  else
    exists mf,
      callx ext cprog fuel (S (S (S d))) F_lbuf_rd [VPtr lb lo; VInt fd; VInt beg; VInt en] m0 = Ok (VInt 1, mf) /\
      rworld_at rs rl mf (rd_rest s) (lg ++ rd_log fd s) /\ old mf.
Proof.
  intros (K1 & K2) Hw Hok Hsz Hf t HE old.
  assert (Hrs : (rs < length m0)%nat) by (apply nth_error_Some; rewrite (proj1 Hw); discriminate).
  assert (Hrl : (rl < length m0)%nat) by (apply nth_error_Some; rewrite (proj2 Hw); discriminate).
  destruct (rd_ok s) eqn:Eok.
  - destruct (tr_lbuf_rd_ok_sec ext rs rl K1 K2 m0 lb lo fd beg en d fuel Hrs Hrl s lg Hw Hok Eok Hsz Hf)
      as (m1 & tb & rest & A1 & A2 & A3 & (sblk & A4 & A4') & A5 & A6 & A7).
    destruct (HE eq_refl m1 tb rest A2 A1) as (u & m2 & E2 & HE2 & Keep).
    exists m1, m2, tb, rest. split; [|split; [exact A1|split; [exact A2|split; [exact A3|split; [exact A5|split; [exact A6|split; [exact HE2|exact Keep]]]]]]].
    apply (A7 u m2 E2); apply Keep.
    + split; [lia|]. exact (nth_some_lt _ _ _ A4).
    + split; [lia|]. exact (nth_some_lt _ _ _ A1).
  - destruct (tr_lbuf_rd_fail_sec ext rs rl K1 K2 m0 lb lo fd beg en d fuel Hrs Hrl s lg Hw Hok Eok Hsz Hf) as (mf & A1 & A2 & _ & A4).
    exists mf. split; [exact A1|split; [exact A2|exact A4]].
Qed.

(* ------------------------------------------------------------------ helpers for examples: a logging lbuf_edit *)
(* the cells of a C string: up to the first 0 *)
Fixpoint upto0 (cells : list val) : list val :=
  match cells with
  | VInt 0 :: _ => []
  | v :: r => v :: upto0 r
  | [] => []
  end.
(* lbuf_edit(lb, text, beg, end) as a logger: block el gets 9, beg, end and the cells of the C string at text *)
Definition edit_log (el : nat) (args : list val) (m : mem) : res (val * mem) :=
  match args with
  | [VPtr lb lo; VPtr tb o; VInt b; VInt e] =>
      match nth_error m tb, nth_error m el with
      | Some blk, Some lblk => Ok (VUndef, upd m el (lblk ++ [VInt 9; VInt b; VInt e] ++ upto0 (skipn (Z.to_nat o) blk)))
      | _, _ => Ok (VUndef, m)
      end
  | _ => Err EShape
  end.
Definition rsys (rs rl el : nat) : nat -> list val -> mem -> res (val * mem) :=
  fun f args m => if Nat.eqb f X_read then sys_read rs rl args m
                  else if Nat.eqb f X_lbuf_edit then edit_log el args m else Err EShape.
Lemma rsys_read_oracle rs rl el : rs <> rl -> read_oracle (rsys rs rl el) rs rl.
Proof. intro H. split; [exact H|]. intros args m. unfold rsys. rewrite Nat.eqb_refl. reflexivity. Qed.
Lemma upto0_text (cs : list val) rest : upto0 (cs ++ VInt 0 :: rest) = upto0 (cs ++ [VInt 0]).
Proof.
  induction cs as [|v cs IH]; [reflexivity|]. cbn [app upto0]. rewrite IH.
  destruct v as [|[| |]|b o]; reflexivity.
Qed.
Definition logged (el : nat) (b e : Z) (t : bytes) (m1 m2 : mem) : Prop :=
  m2 = match nth_error m1 el with
       | Some lblk => upd m1 el (lblk ++ [VInt 9; VInt b; VInt e] ++ upto0 (map VInt (zb t) ++ [VInt 0]))
       | None => m1
       end.
Lemma rsys_edit_oracle rs rl el lb lo beg en n0 t : (el < n0)%nat ->
  edit_oracle (rsys rs rl el) lb lo beg en n0 t (logged el beg en t).
Proof.
  intros Hel m1 tb rest Htb Hblk. unfold rsys.
  replace (Nat.eqb X_lbuf_edit X_read) with false by (vm_compute; reflexivity). rewrite Nat.eqb_refl.
  unfold edit_log. rewrite Hblk. change (Z.to_nat 0) with 0%nat. cbn [skipn]. rewrite upto0_text. unfold logged.
  destruct (nth_error m1 el) as [lblk|] eqn:El; eexists; eexists; (split; [reflexivity|]); (split; [reflexivity|]).
  - intros k Hk. apply mem_upd_other; [apply nth_error_Some; congruence|lia].
  - reflexivity.
Qed.

(* lbuf_rd(block 0, 7, 2, 2) run under schedule s with the logging lbuf_edit; block 1 the schedule, 2 the read log, 3 the edit log:
   the value returned, the schedule left, the read log and the edit log *)
Definition ex_rd (s : rsched) : option (val * block * block * block) :=
  match callx (rsys 1 2 3) cprog 10 5 F_lbuf_rd [VPtr 0 0; VInt 7; VInt 2; VInt 2] [[VInt 0]; enc_rs s; []; []] with
  | Ok (v, m') => Some (v, nth 1 m' [], nth 2 m' [], nth 3 m' [])
  | Err _ => None
  end.
