(* ReSem.v -- the specification side of C10: regular expressions in the normal form the emitter
   produces (star, power, plus, optional copies), their set semantics M over an abstract matcher
   state, partial runs of a program, runs confined to a block, and the translation tr of a parse
   tree into this form.  Ported from the design-round prototype (DESIGN.md Appendix E.1).  No proofs. *)
From Coq Require Import List Arith Lia Bool ZArith NArith.
From NV Require Import Bytes GenConsts ReSyntax ReParse ReEmit ReVM.
Import ListNotations.

Inductive re := RAtom (a : atom) | RCat (x y : re) | RAlt (x y : re) | RStar (x : re) | RGrp (g : nat) (x : re)
  | RPow (k : nat) (x : re)      (* k copies in sequence: the mandatory part of x{k,...} *)
  | RPlus (x : re)               (* one copy and the loop-back fork: the tail of x{m,} *)
  | ROpt (j : nat) (x : re).     (* j optional copies that all exit to the common end: the tail of x{m,m+j} *)

Fixpoint len (r : re) : nat :=
  match r with
  | RAtom _ => 1
  | RCat x y => len x + len y
  | RAlt x y => len x + len y + 2
  | RStar x => len x + 2
  | RGrp _ x => len x + 2
  | RPow k x => k * len x
  | RPlus x => len x + 1
  | ROpt j x => j * (1 + len x)
  end.

Fixpoint emit (r : re) (b : nat) : list instr :=
  match r with
  | RAtom a => [IAtom a]
  | RCat x y => emit x b ++ emit y (b + len x)
  | RAlt x y => [IFork (b + 1) (b + 2 + len x)] ++ emit x (b + 1) ++ [IJump (b + 2 + len x + len y)] ++ emit y (b + 2 + len x)
  | RStar x => [IFork (b + 1) (b + 2 + len x)] ++ emit x (b + 1) ++ [IFork (b + 1) (b + 2 + len x)]
  | RGrp g x => [IMark (2 * g)] ++ emit x (b + 1) ++ [IMark (2 * g + 1)]
  | RPow k x => pow (emit x) (len x) k b
  | RPlus x => emit x b ++ [IFork b (b + len x + 1)]
  | ROpt j x => opt (emit x) (len x) j b
  end.

(* rnode_emit for counts (mn, mx) other than (0,0) and (1,1) as a regular expression *)
Definition normal (x : re) (mn : nat) (mx : option nat) : re :=
  match mn, mx with
  | O, None => RStar x
  | S m, None => RCat (RPow m x) (RPlus x)
  | O, Some m => ROpt m x
  | S m, Some k => RCat (RPow (S m) x) (ROpt (k - S m) x)
  end.

(* the regular expression a parse tree stands for *)
Definition rep_re (x : re) (mn mx : Z) : re :=
  if ((mn =? 0) && (mx =? 0))%Z then RPow 0 x
  else if ((mn =? 1) && (mx =? 1))%Z then x
  else normal x (Z.to_nat mn) (if (mx <? 0)%Z then None else Some (Z.to_nat mx)).
Fixpoint tr (t : node) : re :=
  match t with
  | NNil => RPow 0 (RAtom AAny)
  | NAtom a mn mx => rep_re (RAtom a) mn mx
  | NGrp x g mn mx => rep_re (RGrp g (tr x)) mn mx
  | NCat x y => RCat (tr x) (tr y)
  | NAlt x y => RAlt (tr x) (tr y)
  end.

Section Sem.
Variable St : Type.
Variable atom_step : atom -> St -> res (option St).
Variable mark_step : nat -> St -> St.
Variable P : list instr.
Let fetch := ReVM.fetch P.

(* the program contains the code l at base b *)
Definition code_at (b : nat) (l : list instr) : Prop := forall k, k < length l -> fetch (b + k) = nth k l IMatch.

(* partial runs *)
Inductive run : nat -> St -> list bool -> nat -> St -> Prop :=
| r_refl pc s : run pc s [] pc s
| r_atom pc s a s' cs pc' r : fetch pc = IAtom a -> atom_step a s = Ok (Some s') -> run (S pc) s' cs pc' r -> run pc s cs pc' r
| r_mark pc s m cs pc' r : fetch pc = IMark m -> run (S pc) (mark_step m s) cs pc' r -> run pc s cs pc' r
| r_jump pc s t cs pc' r : fetch pc = IJump t -> run t s cs pc' r -> run pc s cs pc' r
| r_left pc s a1 a2 cs pc' r : fetch pc = IFork a1 a2 -> run a1 s cs pc' r -> run pc s (false :: cs) pc' r
| r_right pc s a1 a2 cs pc' r : fetch pc = IFork a1 a2 -> run a2 s cs pc' r -> run pc s (true :: cs) pc' r.

(* set semantics *)
Inductive M : re -> St -> St -> Prop :=
| MAtom a s s' : atom_step a s = Ok (Some s') -> M (RAtom a) s s'
| MCat x y s s1 s2 : M x s s1 -> M y s1 s2 -> M (RCat x y) s s2
| MAltL x y s s' : M x s s' -> M (RAlt x y) s s'
| MAltR x y s s' : M y s s' -> M (RAlt x y) s s'
| MStar0 x s : M (RStar x) s s
| MStarS x s s1 s2 : M x s s1 -> M (RStar x) s1 s2 -> M (RStar x) s s2
| MGrp g x s s' : M x (mark_step (2 * g) s) s' -> M (RGrp g x) s (mark_step (2 * g + 1) s')
| MPow0 x s : M (RPow 0 x) s s
| MPowS k x s s1 s2 : M x s s1 -> M (RPow k x) s1 s2 -> M (RPow (S k) x) s s2
| MPlus1 x s s' : M x s s' -> M (RPlus x) s s'
| MPlusS x s s1 s2 : M x s s1 -> M (RPlus x) s1 s2 -> M (RPlus x) s s2
| MOpt0 j x s : M (ROpt j x) s s
| MOptS j x s s1 s2 : M x s s1 -> M (ROpt j x) s1 s2 -> M (ROpt (S j) x) s s2.

(* a run that stays inside [lo,hi) until it stops at hi *)
Inductive rin (lo hi : nat) : nat -> St -> list bool -> St -> Prop :=
| i_done s : rin lo hi hi s [] s
| i_atom pc s a s' cs r : lo <= pc < hi -> fetch pc = IAtom a -> atom_step a s = Ok (Some s') -> rin lo hi (S pc) s' cs r -> rin lo hi pc s cs r
| i_mark pc s m cs r : lo <= pc < hi -> fetch pc = IMark m -> rin lo hi (S pc) (mark_step m s) cs r -> rin lo hi pc s cs r
| i_jump pc s t cs r : lo <= pc < hi -> fetch pc = IJump t -> rin lo hi t s cs r -> rin lo hi pc s cs r
| i_left pc s a1 a2 cs r : lo <= pc < hi -> fetch pc = IFork a1 a2 -> rin lo hi a1 s cs r -> rin lo hi pc s (false :: cs) r
| i_right pc s a1 a2 cs r : lo <= pc < hi -> fetch pc = IFork a1 a2 -> rin lo hi a2 s cs r -> rin lo hi pc s (true :: cs) r.

Definition closed (lo hi : nat) : Prop :=
  forall pc, lo <= pc < hi ->
    match fetch pc with
    | IJump t => lo <= t <= hi
    | IFork a1 a2 => lo <= a1 <= hi /\ lo <= a2 <= hi
    | IMatch => False
    | _ => True
    end.
End Sem.
