(* RstrProps.v -- C12: the model of rstr.c equals the declarative spec of simple patterns. *)
From Coq Require Import List NArith ZArith Bool Lia ZifyBool ZifyNat ZifyN.
From NV Require Import Bytes GenConsts RstrDefs.
Import ListNotations.
Local Open Scope N_scope.

(* ------------------------------------------------------------------------------------------ *)
(* the classifier *)

Definition nonmeta (c : N) : Prop := in_set c rstr_meta = false.

Lemma span_lit_spec re l r : span_lit re = (l, r) ->
  re = l ++ r /\ Forall nonmeta l /\ match r with [] => True | c :: _ => in_set c rstr_meta = true end.
Proof.
  revert l r; induction re as [|c re IH]; intros l r H; cbn [span_lit] in H.
  - inversion H; subst. repeat split; constructor.
  - destruct (in_set c rstr_meta) eqn:E.
    + inversion H; subst. cbn. repeat split; [constructor|exact E].
    + destruct (span_lit re) as [l' r'] eqn:E'. inversion H; subst.
      destruct (IH _ _ eq_refl) as (H1 & H2 & H3). repeat split.
      * cbn. now rewrite <- H1.
      * constructor; assumption.
      * exact H3.
Qed.

Lemma starts_spec pre re : starts pre re = true -> re = pre ++ skipn (length pre) re.
Proof.
  revert re; induction pre as [|x pre IH]; intros re H; [reflexivity|].
  destruct re as [|y re]; [discriminate|]. cbn [starts] in H. apply andb_true_iff in H. destruct H as [H1 H2].
  apply N.eqb_eq in H1. subst y. cbn. f_equal. apply IH, H2.
Qed.

Lemma strip_spec pre re f re' : strip pre re = (f, re') -> re = (if f then pre else []) ++ re'.
Proof.
  unfold strip. destruct (starts pre re) eqn:E; intro H; inversion H; subst; [|reflexivity].
  apply starts_spec, E.
Qed.

Lemma rstr_simple_sound ic p rs : rstr_simple ic p = Some rs ->
  p = spat_string (spat_of rs) /\ Forall nonmeta (r_str rs) /\ r_icase rs = ic.
Proof.
  unfold rstr_simple. intro H.
  destruct (strip [94] p) as [lbeg re1] eqn:E1.
  destruct (strip [92; 60] re1) as [wbeg re2] eqn:E2.
  destruct (span_lit re2) as [lit re3] eqn:Esp.
  destruct (strip [92; 62] re3) as [wend re4] eqn:E3.
  destruct (strip [36] re4) as [lend re5] eqn:E4.
  destruct re5 as [|c5 r5]; [|discriminate]. inversion H; subst rs; clear H.
  destruct (span_lit_spec _ _ _ Esp) as (H2 & Hnm & _).
  unfold spat_string, spat_of; cbn [p_lbeg p_wbeg p_lit p_wend p_lend r_lbeg r_wbeg r_str r_wend r_lend r_icase].
  split; [|split; [exact Hnm|reflexivity]].
  apply strip_spec in E1, E2, E3, E4. subst p re1 re2 re3 re4. now rewrite app_nil_r.
Qed.

Lemma span_lit_app lit rest : Forall nonmeta lit ->
  match rest with [] => True | c :: _ => in_set c rstr_meta = true end ->
  span_lit (lit ++ rest) = (lit, rest).
Proof.
  intros Hl Hr. induction Hl as [|c l Hc Hl IH].
  - cbn. destruct rest as [|c r]; [reflexivity|]. cbn [span_lit]. now rewrite Hr.
  - cbn [app span_lit]. unfold nonmeta in Hc. rewrite Hc, IH. reflexivity.
Qed.

Lemma strip_yes pre x : strip pre (pre ++ x) = (true, x).
Proof.
  unfold strip. assert (H : starts pre (pre ++ x) = true).
  { induction pre as [|c pre IH]; [reflexivity|]. cbn. now rewrite N.eqb_refl, IH. }
  rewrite H. now rewrite skipn_app, Nat.sub_diag, skipn_all.
Qed.
(* a prefix test that begins with an operator byte fails on text that begins with a non-operator *)
Lemma strip_no x pre lit rest : in_set x rstr_meta = true -> Forall nonmeta lit ->
  starts (x :: pre) rest = false -> strip (x :: pre) (lit ++ rest) = (false, lit ++ rest).
Proof.
  intros Hx Hl Hr. unfold strip. destruct lit as [|c l].
  - cbn [app]. now rewrite Hr.
  - cbn [app starts]. inversion Hl; subst. destruct (N.eqb_spec x c); [|reflexivity].
    subst. unfold nonmeta in *. congruence.
Qed.

(* every pattern of the form [^][\<]lit[\>][$] with an operator-free literal is classified simple,
   with exactly that decomposition *)
Lemma rstr_simple_complete ic p : Forall nonmeta (p_lit p) ->
  rstr_simple ic (spat_string p) = Some (mk_rstr (p_lit p) ic (p_lbeg p) (p_lend p) (p_wbeg p) (p_wend p)).
Proof.
  destruct p as [lbeg wbeg lit wend lend]. cbn [p_lbeg p_wbeg p_lit p_wend p_lend]. intro Hl.
  unfold rstr_simple, spat_string. cbn [p_lbeg p_wbeg p_lit p_wend p_lend].
  set (tailp := (if wend then [92; 62] else []) ++ (if lend then [36] else [])).
  assert (Htail : match tailp with [] => True | c :: _ => in_set c rstr_meta = true end).
  { subst tailp. destruct wend, lend; cbn [app]; try exact I; reflexivity. }
  assert (Ht94 : starts [94] tailp = false) by (subst tailp; destruct wend, lend; reflexivity).
  assert (Ht60 : starts [92; 60] tailp = false) by (subst tailp; destruct wend, lend; reflexivity).
  assert (E1 : strip [94] ((if lbeg then [94] else []) ++ (if wbeg then [92; 60] else []) ++ lit ++ tailp)
               = (lbeg, (if wbeg then [92; 60] else []) ++ lit ++ tailp)).
  { destruct lbeg; [apply strip_yes|]. cbn [app]. destruct wbeg; [reflexivity|]. cbn [app].
    apply strip_no; [reflexivity|assumption|assumption]. }
  rewrite E1.
  assert (E2 : strip [92; 60] ((if wbeg then [92; 60] else []) ++ lit ++ tailp) = (wbeg, lit ++ tailp)).
  { destruct wbeg; [apply strip_yes|]. cbn [app]. apply strip_no; [reflexivity|assumption|assumption]. }
  rewrite E2. rewrite (span_lit_app lit tailp Hl Htail).
  subst tailp. destruct wend, lend; reflexivity.
Qed.

(* the engine's operator bytes are all in the classifier's disqualifying set (values generated
   from regex.c and rstr.c) *)
Lemma re_meta_covered : forall c, In c re_meta \/ In c re_rep -> in_set c rstr_meta = true.
Proof.
  assert (H : forallb (fun c => in_set c rstr_meta) (re_meta ++ re_rep) = true) by (vm_compute; reflexivity).
  intros c Hc. rewrite forallb_forall in H. apply H. apply in_or_app. exact Hc.
Qed.

Lemma classifier ic p rs : rstr_simple ic p = Some rs ->
  p = spat_string (spat_of rs) /\
  Forall (fun c => ~ In c re_meta /\ ~ In c re_rep /\ ~ In c rstr_meta) (r_str rs).
Proof.
  intro H. destruct (rstr_simple_sound _ _ _ H) as (Hp & Hnm & _). split; [exact Hp|].
  eapply Forall_impl; [|exact Hnm]. intros c Hc. unfold nonmeta in Hc.
  assert (Hr : ~ In c rstr_meta).
  { intro Hin. unfold in_set in Hc. assert (existsb (N.eqb c) rstr_meta = true).
    { apply existsb_exists. exists c. split; [exact Hin|apply N.eqb_refl]. } congruence. }
  repeat split; [| |exact Hr]; intro Hin; (rewrite re_meta_covered in Hc; [discriminate|]); auto.
Qed.

(* ------------------------------------------------------------------------------------------ *)
(* find over windows of seq *)

Lemma find_all_false {A} (P : A -> bool) l : (forall x, In x l -> P x = false) -> find P l = None.
Proof.
  induction l as [|x l IH]; intro H; [reflexivity|]. cbn. rewrite (H x (or_introl eq_refl)).
  apply IH. intros y Hy. apply H. now right.
Qed.
Lemma find_app {A} (P : A -> bool) l1 l2 :
  find P (l1 ++ l2) = match find P l1 with Some x => Some x | None => find P l2 end.
Proof. induction l1 as [|x l IH]; [reflexivity|]. cbn. destruct (P x); [reflexivity|exact IH]. Qed.
Lemma find_ext_in {A} (P Q : A -> bool) l : (forall x, In x l -> P x = Q x) -> find P l = find Q l.
Proof.
  induction l as [|x l IH]; intro H; [reflexivity|]. cbn. rewrite (H x (or_introl eq_refl)).
  destruct (Q x); [reflexivity|]. apply IH. intros y Hy. apply H. now right.
Qed.

Lemma find_window (P Q : nat -> bool) b k n : (b + k <= n)%nat ->
  (forall i, (b <= i < b + k)%nat -> Q i = P i) ->
  (forall i, (i < n)%nat -> ~ (b <= i < b + k)%nat -> Q i = false) ->
  find Q (seq 0 n) = find P (seq b k).
Proof.
  intros Hn Hin Hout.
  replace n with (b + (k + (n - b - k)))%nat by lia.
  rewrite seq_app, find_app, seq_app, find_app. cbn [plus].
  rewrite (find_all_false Q (seq 0 b)).
  2:{ intros i Hi. apply in_seq in Hi. apply Hout; lia. }
  rewrite (find_ext_in Q P (seq b k)).
  2:{ intros i Hi. apply in_seq in Hi. apply Hin; lia. }
  destruct (find P (seq b k)); [reflexivity|].
  apply find_all_false. intros i Hi. apply in_seq in Hi. apply Hout; lia.
Qed.

(* ------------------------------------------------------------------------------------------ *)
(* the scan *)

Lemma rd_in s (i : nat) : (i <= length s)%nat -> rd s (Z.of_nat i) = Some (nth i s 0).
Proof.
  intro H. unfold rd. rewrite Nat2Z.id.
  destruct ((Z.of_nat i <? 0)%Z || (Z.of_nat (length s) <? Z.of_nat i)%Z) eqn:E; [lia|reflexivity].
Qed.

Definition wbegc (L : bytes) (i : nat) : bool :=
  ((i =? 0)%nat || negb (isword (nth (i - 1) L 0))) && isword (nth i L 0).
Definition wendc (L : bytes) (j : nat) : bool :=
  negb (j =? 0)%nat && isword (nth (j - 1) L 0) && negb (isword (nth j L 0)).

Lemma wbeg_skip_spec L (r : nat) : (r <= length L)%nat ->
  wbeg_skip L (Z.of_nat r) = Some (negb (wbegc L r)).
Proof.
  intro H. unfold wbeg_skip, wbegc. rewrite (rd_in L r H).
  destruct r as [|r'].
  - cbn. reflexivity.
  - replace (0 <? Z.of_nat (S r'))%Z with true by lia.
    replace (Z.of_nat (S r') - 1)%Z with (Z.of_nat r') by lia.
    rewrite (rd_in L r') by lia. replace (S r' - 1)%nat with r' by lia.
    replace (S r' =? 0)%nat with false by reflexivity.
    destruct (isword (nth r' L 0)); cbn; reflexivity.
Qed.

Lemma wend_skip_spec L (r len : nat) : (r + len <= length L)%nat -> nth (r + len) L 0 <> 0 ->
  wend_skip L (Z.of_nat r) (Z.of_nat len) = Some (negb (wendc L (r + len))).
Proof.
  intros H Hnz. unfold wend_skip, wendc.
  replace (Z.of_nat r + Z.of_nat len)%Z with (Z.of_nat (r + len)) by lia.
  rewrite (rd_in L (r + len) H).
  destruct (N.eqb_spec (nth (r + len) L 0) 0) as [E|_]; [contradiction|].
  destruct (r + len)%nat as [|j'] eqn:Ej.
  - reflexivity.
  - replace (Z.of_nat (S j') =? 0)%Z with false by lia.
    replace (Z.of_nat (S j') - 1)%Z with (Z.of_nat j') by lia.
    rewrite (rd_in L j') by lia. replace (S j' - 1)%nat with j' by lia.
    replace (S j' =? 0)%nat with false by reflexivity.
    destruct (isword (nth j' L 0)); cbn; [|reflexivity].
    now rewrite negb_involutive.
Qed.

Lemma match_case_spec ic lit : forall s,
  match_case s lit ic = eqb_bytes (map (fold_case ic) (firstn (length lit) s)) (map (fold_case ic) lit).
Proof.
  induction lit as [|rc lit IH]; intro s; [reflexivity|].
  destruct s as [|sc s]; [reflexivity|]. cbn [match_case length firstn map eqb_bytes].
  rewrite IH. unfold fold_case. destruct ic; destruct (_ =? _); reflexivity.
Qed.

Definition body_b (rs : rstr) (L : bytes) (i : nat) : bool :=
  implb (r_wbeg rs) (wbegc L i) && implb (r_wend rs) (wendc L (i + length (r_str rs)))
  && lit_at (r_icase rs) (r_str rs) L i.

Lemma find_at_spec rs L (r : nat) :
  (r + length (r_str rs) <= length L)%nat -> nth (r + length (r_str rs)) L 0 <> 0 ->
  find_at rs L (Z.of_nat r) =
  if body_b rs L r then Some (Found (Z.of_nat r) (Z.of_nat r + Z.of_nat (length (r_str rs)))) else None.
Proof.
  intros H Hnz. unfold find_at, body_b.
  rewrite (wend_skip_spec L r _ H Hnz). rewrite (wbeg_skip_spec L r) by lia.
  rewrite (rd_in L r) by lia. rewrite Nat2Z.id, match_case_spec. unfold lit_at.
  destruct (r_wbeg rs), (r_wend rs); cbn [implb];
    destruct (wbegc L r); destruct (wendc L (r + length (r_str rs))); cbn; reflexivity.
Qed.

Lemma scan_spec rs L (e : nat) : forall k r,
  (forall i, (i <= e)%nat -> (i + length (r_str rs) <= length L)%nat /\ nth (i + length (r_str rs)) L 0 <> 0) ->
  (k = 0 \/ r + k <= S e)%nat ->
  scan rs L (Z.of_nat r) k =
  match find (body_b rs L) (seq r k) with
  | Some i => Found (Z.of_nat i) (Z.of_nat (i + length (r_str rs)))
  | None => NotFound
  end.
Proof.
  induction k as [|k IH]; intros r He Hk; [reflexivity|].
  cbn [scan seq find]. destruct (He r) as [H1 H2]; [lia|].
  rewrite (find_at_spec rs L r H1 H2).
  destruct (body_b rs L r).
  - f_equal. lia.
  - replace (Z.of_nat r + 1)%Z with (Z.of_nat (S r)) by lia. apply IH; [exact He|lia].
Qed.

(* ------------------------------------------------------------------------------------------ *)
(* the literal cannot reach the terminating newline *)

Lemma fold_case_10 ic c : fold_case ic c = 10 -> c = 10.
Proof. unfold fold_case, tolower. destruct ic; [|auto]. destruct ((65 <=? c) && (c <=? 90)) eqn:E; lia. Qed.

Lemma eqb_bytes_eq a : forall b, eqb_bytes a b = true -> a = b.
Proof.
  induction a as [|x a IH]; intros [|y b] H; try discriminate; [reflexivity|].
  cbn in H. apply andb_true_iff in H. destruct H as [H1 H2]. apply N.eqb_eq in H1. subst. f_equal. now apply IH.
Qed.

Lemma lit_at_fits ic lit content i : ~ In 10 lit -> (i <= length content)%nat ->
  lit_at ic lit (content ++ [10]) i = true -> (i + length lit <= length content)%nat.
Proof.
  intros Hl Hi H. unfold lit_at in H. apply eqb_bytes_eq in H.
  assert (Hlen : length (firstn (length lit) (skipn i (content ++ [10]))) = length lit).
  { rewrite <- (map_length (fold_case ic)), H, map_length. reflexivity. }
  rewrite firstn_length, skipn_length, app_length in Hlen. cbn [length] in Hlen.
  destruct (Nat.eq_dec (i + length lit) (S (length content))) as [E|]; [|lia].
  exfalso. (* the last byte of the literal would be the newline *)
  destruct lit as [|c0 lit0] eqn:El using rev_ind; [cbn in E; lia|]. clear IHlit0.
  rewrite app_length in E, H. cbn [length] in E, H.
  rewrite firstn_all2 in H by (rewrite skipn_length, app_length; cbn [length]; lia).
  rewrite skipn_app in H. replace (i - length content)%nat with 0%nat in H by lia. cbn [skipn] in H.
  rewrite !map_app in H. cbn [map] in H. apply app_inj_tail in H. destruct H as [_ Hn].
  assert (E10 : fold_case ic 10 = 10) by (destruct ic; reflexivity). rewrite E10 in Hn.
  symmetry in Hn. apply fold_case_10 in Hn. subst c0. apply Hl. apply in_or_app. right. now left.
Qed.

Lemma nth_line_nz content j : ~ In 0 content -> (j <= length content)%nat -> nth j (content ++ [10]) 0 <> 0.
Proof.
  intros Hz Hj. destruct (Nat.eq_dec j (length content)) as [->|Hne].
  - rewrite app_nth2, Nat.sub_diag by lia. cbn. lia.
  - rewrite app_nth1 by lia. intro E. apply Hz. rewrite <- E. apply nth_In. lia.
Qed.
Lemma nth_line_10 content j : ~ In 10 content -> (j <= length content)%nat ->
  (nth j (content ++ [10]) 0 =? 10) = (j =? length content)%nat.
Proof.
  intros Hz Hj. destruct (Nat.eqb_spec j (length content)) as [->|Hne].
  - rewrite app_nth2, Nat.sub_diag by lia. reflexivity.
  - rewrite app_nth1 by lia. apply N.eqb_neq. intro E. apply Hz. rewrite <- E. apply nth_In. lia.
Qed.

(* ------------------------------------------------------------------------------------------ *)
(* model = spec *)

Theorem equiv_spec rs content notbol noteol :
  ~ In 0 content -> ~ In 10 content -> ~ In 10 (r_str rs) ->
  rstr_find rs (content ++ [10]) notbol noteol = spec_res (spat_of rs) (r_icase rs) notbol content.
Proof.
  intros Hz H10 Hl10.
  set (L := content ++ [10]). set (n := length content). set (len := length (r_str rs)).
  assert (HL : length L = S n) by (unfold L, n; rewrite app_length; cbn; lia).
  unfold rstr_find, spec_res, spec_find. fold L. fold n.
  cbn [spat_of p_lit]. fold len.
  assert (Hn10 : forall j, (j <= n)%nat -> (nth j L 0 =? 10) = (j =? n)%nat).
  { intros j Hj. unfold L, n. apply nth_line_10; assumption. }
  (* sat_b in terms of body_b *)
  assert (Hsat : forall i, sat_b (spat_of rs) (r_icase rs) notbol L i =
     body_b rs L i && implb (r_lbeg rs) ((i =? 0)%nat && negb notbol) && implb (r_lend rs) (nth (i + len) L 0 =? 10)).
  { intro i. unfold sat_b, body_b, wbegc, wendc. cbn [spat_of p_lbeg p_wbeg p_lit p_wend p_lend]. fold len.
    destruct (lit_at _ _ _ _), (implb (r_lbeg rs) _), (implb (r_wbeg rs) _), (implb (r_wend rs) _), (implb (r_lend rs) _); reflexivity. }
  destruct (r_lbeg rs && notbol) eqn:Eearly.
  { (* ^ under NOTBOL *)
    rewrite find_all_false; [reflexivity|]. intros i _. rewrite Hsat.
    apply andb_true_iff in Eearly. destruct Eearly as [-> ->]. cbn. now rewrite andb_false_r, andb_false_r. }
  rewrite HL. destruct (Z.of_nat (S n) - Z.of_nat len - 1 <? 0)%Z eqn:Ee.
  { (* literal longer than the content *)
    rewrite find_all_false; [reflexivity|]. intros i Hi. apply in_seq in Hi. rewrite Hsat.
    destruct (body_b rs L i) eqn:Eb; [|reflexivity]. exfalso.
    unfold body_b in Eb. apply andb_true_iff in Eb. destruct Eb as [_ Eb].
    apply lit_at_fits in Eb; [|assumption|fold n; lia]. fold n len in Eb. lia. }
  assert (Hlen : (len <= n)%nat) by lia.
  set (e := (n - len)%nat).
  replace (Z.of_nat (S n) - Z.of_nat len - 1)%Z with (Z.of_nat e) by (unfold e; lia).
  set (b := if r_lend rs then e else 0%nat).
  set (k := if r_lbeg rs then (if r_lend rs then (if (e =? 0)%nat then 1 else 0) else 1)%nat else (if r_lend rs then 1 else S e)%nat).
  replace (if r_lend rs then Z.of_nat e else 0%Z) with (Z.of_nat b) by (unfold b; destruct (r_lend rs); reflexivity).
  replace (Z.to_nat ((if r_lbeg rs then 0%Z else Z.of_nat e) - Z.of_nat b + 1)) with k.
  2:{ unfold k, b. destruct (r_lbeg rs), (r_lend rs); try destruct (Nat.eqb_spec e 0); lia. }
  rewrite (scan_spec rs L e).
  2:{ intros i Hi. fold len. split; [unfold e in Hi; lia|]. apply nth_line_nz; [assumption|fold n; unfold e in Hi; lia]. }
  2:{ unfold k, b. destruct (r_lbeg rs), (r_lend rs); try destruct (Nat.eqb_spec e 0); lia. }
  fold len.
  rewrite (find_window (body_b rs L) (sat_b (spat_of rs) (r_icase rs) notbol L) b k (S n)); [reflexivity| | |].
  - unfold k, b, e. destruct (r_lbeg rs), (r_lend rs); try destruct (Nat.eqb_spec (n - len) 0); lia.
  - (* inside the window the anchors ^ and $ hold *)
    intros i Hi. rewrite Hsat.
    assert (Hie : (i <= e)%nat) by (unfold k, b in Hi; destruct (r_lbeg rs), (r_lend rs); try destruct (Nat.eqb_spec e 0); lia).
    rewrite Hn10 by (unfold e in Hie; lia).
    assert (Hnb : r_lbeg rs = true -> notbol = false) by (intro E; rewrite E in Eearly; exact Eearly).
    unfold k, b in Hi. destruct (r_lbeg rs) eqn:E1, (r_lend rs) eqn:E2; cbn [implb].
    + destruct (Nat.eqb_spec e 0); [|lia]. rewrite Hnb by reflexivity.
      replace (i =? 0)%nat with true by (symmetry; apply Nat.eqb_eq; lia).
      replace (i + len =? n)%nat with true by (symmetry; apply Nat.eqb_eq; unfold e in *; lia).
      now rewrite !andb_true_r.
    + rewrite Hnb by reflexivity. replace (i =? 0)%nat with true by (symmetry; apply Nat.eqb_eq; lia).
      now rewrite !andb_true_r.
    + replace (i + len =? n)%nat with true by (symmetry; apply Nat.eqb_eq; unfold e in *; lia).
      now rewrite !andb_true_r.
    + now rewrite !andb_true_r.
  - (* outside the window: the literal does not fit, or ^ / $ fails *)
    intros i Hi Hout. rewrite Hsat.
    destruct (body_b rs L i) eqn:Eb; [|reflexivity].
    assert (Hfit : (i + len <= n)%nat).
    { unfold body_b in Eb. apply andb_true_iff in Eb. destruct Eb as [_ Eb].
      apply lit_at_fits in Eb; [exact Eb|assumption|fold n; lia]. }
    rewrite Hn10 by lia.
    unfold k, b in Hout. destruct (r_lbeg rs) eqn:E1, (r_lend rs) eqn:E2; cbn [implb andb].
    + destruct (Nat.eqb_spec i 0); cbn [andb]; [|reflexivity].
      destruct (Nat.eqb_spec (i + len) n); [|now rewrite andb_false_r].
      exfalso. apply Hout. subst i. destruct (Nat.eqb_spec e 0); unfold e in *; lia.
    + destruct (Nat.eqb_spec i 0); cbn [andb]; [|reflexivity]. exfalso. apply Hout. lia.
    + destruct (Nat.eqb_spec (i + len) n); [|reflexivity]. exfalso. apply Hout. unfold e. lia.
    + exfalso. apply Hout. unfold e. lia.
Qed.

(* groups *)
Lemma groups_unset n so eo i : (1 <= i < n)%nat -> nth i (rstr_groups n so eo) (0, 0)%Z = ((-1)%Z, (-1)%Z).
Proof.
  intros Hi. destruct n as [|m]; [lia|]. destruct i as [|i']; [lia|]. cbn [rstr_groups nth].
  apply (repeat_spec m ((-1)%Z, (-1)%Z)). apply nth_In. rewrite repeat_length. lia.
Qed.
Lemma groups_whole n so eo : (1 <= n)%nat -> nth 0 (rstr_groups n so eo) (0, 0)%Z = (so, eo) /\ length (rstr_groups n so eo) = n.
Proof. intros Hn. destruct n as [|m]; [lia|]. cbn. now rewrite repeat_length. Qed.

(* no read outside the string: the scan never answers OOB on a newline-terminated line *)
Lemma in_bounds rs content notbol noteol :
  ~ In 0 content -> ~ In 10 content -> ~ In 10 (r_str rs) ->
  rstr_find rs (content ++ [10]) notbol noteol <> OOB.
Proof.
  intros Hz H10 Hl. rewrite (equiv_spec rs content notbol noteol Hz H10 Hl). unfold spec_res.
  destruct (spec_find _ _ _ _); discriminate.
Qed.

(* the theorem in terms of the pattern string *)
Theorem equiv_spec_pat ic p rs content notbol noteol :
  rstr_simple ic p = Some rs ->
  ~ In 0 content -> ~ In 10 content -> ~ In 10 p ->
  rstr_find rs (content ++ [10]) notbol noteol = spec_res (spat_of rs) ic notbol content.
Proof.
  intros Hs Hz H10 Hp. destruct (rstr_simple_sound _ _ _ Hs) as (Ep & _ & Eic).
  rewrite <- Eic. apply equiv_spec; try assumption.
  intro Hin. apply Hp. rewrite Ep. unfold spat_string, spat_of. cbn [p_lit].
  apply in_or_app; right. apply in_or_app; right. apply in_or_app; left. exact Hin.
Qed.
