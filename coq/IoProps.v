(* IoProps.v -- proofs about the read/write model of IoDefs.v (C01). *)
From Coq Require Import List NArith ZArith Bool Arith Lia.
From NV Require Import Bytes GenConsts IoDefs.
Import ListNotations.

Lemma is_nl_spec c : is_nl c = true <-> c = NL.
Proof. unfold is_nl. apply N.eqb_eq. Qed.
Lemma is_nl_NL : is_nl NL = true.
Proof. reflexivity. Qed.

(* ------------------------------------------------------------------ norm / split *)
Lemma norm_app a s : s <> [] -> norm (a ++ s) = a ++ norm s.
Proof.
  intro H. unfold norm. rewrite rev_app_distr. destruct (rev s) as [|c r] eqn:E.
  - apply (f_equal (@rev N)) in E. rewrite rev_involutive in E. contradiction.
  - cbn [app]. destruct (is_nl c); [reflexivity | rewrite app_assoc; reflexivity].
Qed.
Lemma norm_nl a : norm (a ++ [NL]) = a ++ [NL].
Proof. unfold norm. rewrite rev_app_distr. cbn [rev app]. rewrite is_nl_NL. reflexivity. Qed.

Lemma split_concat_aux : forall s cur, no_nl cur -> concat (split_aux cur s) = norm (rev cur ++ s).
Proof.
  induction s as [|c s IH]; intros cur Hc; cbn [split_aux].
  - rewrite app_nil_r. destruct cur as [|x cur']; [reflexivity|].
    cbn [concat]. rewrite app_nil_r. unfold norm. rewrite rev_involutive.
    rewrite (Hc x (or_introl eq_refl)). reflexivity.
  - destruct (is_nl c) eqn:E.
    + apply is_nl_spec in E. subst c. cbn [concat]. rewrite IH by (intros ? []).
      cbn [rev app]. destruct s as [|d s'].
      * unfold norm at 1. cbn [rev]. rewrite app_nil_r. symmetry. apply norm_nl.
      * replace (rev cur ++ NL :: d :: s') with ((rev cur ++ [NL]) ++ d :: s') by (rewrite <- app_assoc; reflexivity).
        rewrite norm_app by discriminate. reflexivity.
    + rewrite IH.
      * cbn [rev]. rewrite <- app_assoc. reflexivity.
      * intros x [<-|Hx]; [exact E | apply Hc; exact Hx].
Qed.
Lemma split_concat s : concat (split_lines s) = norm s.
Proof. unfold split_lines. rewrite split_concat_aux by (intros ? []). reflexivity. Qed.

Lemma split_wf_aux : forall s cur, no_nl cur -> Forall line_wf (split_aux cur s).
Proof.
  induction s as [|c s IH]; intros cur Hc; cbn [split_aux].
  - destruct cur as [|b cur]; constructor; [|constructor]. exists (rev (b :: cur)). split; [reflexivity|].
    intros x Hx. apply Hc. apply in_rev. exact Hx.
  - destruct (is_nl c) eqn:E.
    + constructor; [|apply IH; intros ? []]. exists (rev cur). split; [reflexivity|].
      intros x Hx. apply Hc. apply in_rev. exact Hx.
    + apply IH. intros x [<-|Hx]; [exact E | apply Hc; exact Hx].
Qed.
Lemma split_wf s : Forall line_wf (split_lines s).
Proof. apply split_wf_aux. intros ? []. Qed.

Lemma split_spec s : nonul s -> concat (split_lines s) = norm s /\ Forall line_wf (split_lines s).
Proof. intros _. split; [apply split_concat | apply split_wf]. Qed.

Lemma linecount_aux_len : forall s cur,
  linecount_aux (match cur with [] => false | _ => true end) s = length (split_aux cur s).
Proof.
  induction s as [|c s IH]; intro cur; cbn [linecount_aux split_aux].
  - destruct cur; reflexivity.
  - destruct (is_nl c); [cbn [length]; f_equal; apply (IH []) | apply (IH (c :: cur))].
Qed.
Lemma linecount_len s : linecount s = length (split_lines s).
Proof. apply (linecount_aux_len s []). Qed.

Lemma line_wf_nonempty l : line_wf l -> l <> [].
Proof. intros [b [-> _]]. destruct b; discriminate. Qed.

(* ------------------------------------------------------------------ sbuf / lbuf_rd *)
Lemma fold_sbuf_mem_data : forall chunks sb, sb_data (fold_left sbuf_mem chunks sb) = sb_data sb ++ concat chunks.
Proof.
  induction chunks as [|c cs IH]; intro sb; cbn [fold_left concat]; [rewrite app_nil_r; reflexivity|].
  rewrite IH. cbn [sbuf_mem sb_data]. rewrite app_assoc. reflexivity.
Qed.
Lemma rd_sbuf_data chunks : sb_data (rd_sbuf chunks) = concat chunks.
Proof.
  unfold rd_sbuf, sbuf_buf. destruct (_ =? 0)%Z; cbn [sb_data]; rewrite fold_sbuf_mem_data; reflexivity.
Qed.

Lemma LN_INIT_pos : (0 < LN_INIT)%Z.
Proof. reflexivity. Qed.

Lemma grow_some : forall fuel need sz, (0 <= sz)%Z -> (Z.max 0 (need - sz + 1) < Z.of_nat fuel)%Z ->
  exists sz', grow fuel need sz = Some sz' /\ (need < sz')%Z /\ (sz <= sz')%Z.
Proof.
  pose proof LN_INIT_pos as HL.
  induction fuel as [|f IH]; intros need sz H0 Hf; cbn [grow].
  - exfalso; lia.
  - destruct (Z.geb_spec need sz) as [G|G].
    + destruct (Z.eqb_spec sz 0) as [E|E].
      * destruct (IH need (sz + LN_INIT)%Z) as [s [A [B C]]]; [lia | lia |]. exists s. repeat split; [exact A | exact B | lia].
      * destruct (IH need (sz + sz)%Z) as [s [A [B C]]]; [lia | lia |]. exists s. repeat split; [exact A | exact B | lia].
    + exists sz. repeat split; [lia | lia].
Qed.
Lemma grow_total need sz : (0 <= sz)%Z -> exists sz', grow (grow_fuel need) need sz = Some sz' /\ (need < sz')%Z /\ (sz <= sz')%Z.
Proof. intro H. apply grow_some; [exact H|]. unfold grow_fuel. lia. Qed.

(* lbuf_replace never runs out of fuel, splices the split text in, and leaves a spare slot *)
Lemma lbuf_replace_spec lb s pos n_del : (0 <= ln_sz lb)%Z -> n_del <= length (ln lb) ->
  exists lb', lbuf_replace lb s pos n_del = Some lb' /\
    ln lb' = firstn pos (ln lb) ++ split_lines s ++ skipn (pos + n_del) (ln lb) /\
    (Z.of_nat (length (ln lb)) + Z.of_nat (linecount s) - Z.of_nat n_del < ln_sz lb')%Z /\ (ln_sz lb <= ln_sz lb')%Z.
Proof.
  intros H0 Hd. unfold lbuf_replace.
  destruct (grow_total (Z.of_nat (length (ln lb)) + Z.of_nat (linecount s) - Z.of_nat n_del) (ln_sz lb) H0) as [sz [A [B C]]].
  rewrite A. eexists. split; [reflexivity|]. cbn [ln ln_sz]. repeat split; assumption.
Qed.

Lemma lbuf_rd_empty chunks b e :
  exists lb, lbuf_rd lbuf_make chunks b e = Some lb /\ ln lb = split_lines (concat chunks) /\
             (Z.of_nat (length (ln lb)) < ln_sz lb)%Z.
Proof.
  unfold lbuf_rd, lbuf_edit. cbn [lbuf_make ln length]. rewrite !Nat.min_0_r. cbn [Nat.sub].
  destruct (lbuf_replace_spec lbuf_make (sb_data (rd_sbuf chunks)) 0 0) as [lb [A [B [C D]]]]; [cbn; lia | cbn; lia |].
  exists lb. split; [exact A|]. rewrite rd_sbuf_data in *. cbn [lbuf_make ln firstn skipn app length] in *.
  rewrite app_nil_r in B. split; [exact B|]. rewrite B, <- linecount_len. lia.
Qed.

(* reading into the middle of a buffer (:r): same text whatever the chunking *)
Lemma lbuf_rd_any_chunking lb c1 c2 b e : concat c1 = concat c2 -> lbuf_rd lb c1 b e = lbuf_rd lb c2 b e.
Proof. intro H. unfold lbuf_rd. rewrite !rd_sbuf_data, H. reflexivity. Qed.

Lemma read_any_chunking chunks b e :
  (exists lb, lbuf_rd lbuf_make chunks b e = Some lb /\ ln lb = split_lines (concat chunks)) /\
  (forall lb chunks', concat chunks = concat chunks' -> lbuf_rd lb chunks b e = lbuf_rd lb chunks' b e).
Proof.
  split.
  - destruct (lbuf_rd_empty chunks b e) as [lb [A [B _]]]. exists lb. split; assumption.
  - intros lb c2 H. apply lbuf_rd_any_chunking, H.
Qed.

(* ------------------------------------------------------------------ capacity of sbuf *)
Lemma SBUFSZ_pow2 : SBUFSZ = (2 ^ Z.log2 SBUFSZ)%Z /\ (0 < SBUFSZ)%Z.
Proof. split; reflexivity. Qed.

Lemma ALIGN_div n : (0 <= n)%Z -> ALIGN n SBUFSZ = ((n + SBUFSZ - 1) / SBUFSZ * SBUFSZ)%Z.
Proof.
  intro H. unfold ALIGN. destruct SBUFSZ_pow2 as [E P]. rewrite <- Z.ldiff_land.
  set (k := Z.log2 SBUFSZ) in *. assert (K : (0 <= k)%Z) by apply Z.log2_nonneg.
  replace (SBUFSZ - 1)%Z with (Z.ones k) by (rewrite Z.ones_equiv, <- E; lia).
  rewrite Z.ldiff_ones_r by exact K. rewrite Z.shiftl_mul_pow2, Z.shiftr_div_pow2 by exact K.
  rewrite <- E. reflexivity.
Qed.
Lemma ALIGN_ge n : (0 <= n)%Z -> (n <= ALIGN n SBUFSZ)%Z.
Proof.
  intro H. rewrite ALIGN_div by exact H. destruct SBUFSZ_pow2 as [_ P].
  pose proof (Z.mul_succ_div_gt (n + SBUFSZ - 1) SBUFSZ P). lia.
Qed.
Lemma ALIGN_ge_unit n : (0 < n)%Z -> (SBUFSZ <= ALIGN n SBUFSZ)%Z.
Proof.
  intro H. rewrite ALIGN_div by lia. destruct SBUFSZ_pow2 as [_ P].
  assert (1 <= (n + SBUFSZ - 1) / SBUFSZ)%Z by (apply Z.div_le_lower_bound; lia). nia.
Qed.
Lemma SBUFSZ_ge2 : (2 <= SBUFSZ)%Z.
Proof. discriminate. Qed.
Lemma NEXTSZ_ge o r : (0 <= o)%Z -> (0 <= r)%Z -> (o + r <= NEXTSZ o r)%Z.
Proof. intros. unfold NEXTSZ. pose proof (ALIGN_ge (Z.max (o * 2) (o + r))). lia. Qed.

(* invariant of struct sbuf: the length is what was stored, and there is room for the terminator *)
Definition sbuf_ok (sb : sbuf) : Prop :=
  sb_n sb = Z.of_nat (length (sb_data sb)) /\ ((sb_n sb = 0 /\ sb_sz sb = 0) \/ sb_n sb + 1 <= sb_sz sb)%Z.
Lemma sbuf_make_ok : sbuf_ok sbuf_make.
Proof. split; [reflexivity | left; split; reflexivity]. Qed.
Lemma sbuf_mem_ok sb s : sbuf_ok sb -> sbuf_ok (sbuf_mem sb s) /\ (sb_n (sbuf_mem sb s) + 1 <= sb_sz (sbuf_mem sb s))%Z.
Proof.
  intros [A B]. unfold sbuf_mem, sbuf_ok. cbn [sb_n sb_sz sb_data]. rewrite app_length, Nat2Z.inj_add.
  set (len := Z.of_nat (length s)). assert (0 <= len)%Z by lia.
  assert (0 <= sb_sz sb)%Z by lia.
  destruct (Z.geb_spec (sb_n sb + len + 1) (sb_sz sb)) as [G|G].
  - pose proof (NEXTSZ_ge (sb_sz sb) (len + 1)). split; [split; [lia | right; lia] | lia].
  - split; [split; [lia | right; lia] | lia].
Qed.
Lemma sbuf_chr_ok sb c : sbuf_ok sb -> sbuf_ok (sbuf_chr sb c) /\ (sb_n (sbuf_chr sb c) + 1 <= sb_sz (sbuf_chr sb c))%Z.
Proof.
  intros [A B]. unfold sbuf_chr, sbuf_ok. cbn [sb_n sb_sz sb_data]. rewrite app_length, Nat2Z.inj_add. cbn [length].
  assert (0 <= sb_sz sb)%Z by lia.
  destruct (Z.geb_spec (sb_n sb + 2) (sb_sz sb)) as [G|G].
  - pose proof (NEXTSZ_ge (sb_sz sb) 1). pose proof SBUFSZ_ge2.
    assert (SBUFSZ <= NEXTSZ (sb_sz sb) 1)%Z by (unfold NEXTSZ; apply ALIGN_ge_unit; lia).
    split; [split; [lia | right; lia] | lia].
  - split; [split; [lia | right; lia] | lia].
Qed.
Lemma fold_sbuf_mem_ok : forall chunks sb, sbuf_ok sb -> sbuf_ok (fold_left sbuf_mem chunks sb).
Proof. induction chunks as [|c cs IH]; intros sb H; cbn [fold_left]; [exact H | apply IH, sbuf_mem_ok, H]. Qed.
(* when sbuf_buf stores the terminator at s[s_n] the index is inside the allocation *)
Lemma rd_sbuf_room chunks : (0 <= sb_n (rd_sbuf chunks) < sb_sz (rd_sbuf chunks))%Z.
Proof.
  unfold rd_sbuf, sbuf_buf. destruct (fold_sbuf_mem_ok chunks sbuf_make sbuf_make_ok) as [A B].
  destruct (Z.eqb_spec (sb_sz (fold_left sbuf_mem chunks sbuf_make)) 0) as [E|E]; cbn [sb_n sb_sz]; lia.
Qed.

(* ------------------------------------------------------------------ lbuf_wr *)
Definition group_ok (B : nat) (g : list bytes) : Prop := length (concat g) <= B \/ exists l, g = [l] /\ B <= length l.
Record wr_inv (B : nat) (done : list bytes) (w : wst) (gs : list (list (list N))) (g : list (list N)) : Prop := {
  wi_done : concat gs ++ g = done;
  wi_outp : map (@concat N) gs = outp w;
  wi_pend : concat g = pend w;
  wi_shape : Forall (group_ok B) gs;
  wi_fit : length (pend w) <= B;
  wi_sz : wsz w = length (concat done);
  wi_ovf : ovf w = false }.

Lemma concat_nonempty_nil (g : list bytes) : Forall (fun l => l <> []) g -> concat g = [] -> g = [].
Proof. intros F E. destruct g as [|l g]; [reflexivity|]. inversion F; subst. cbn in E. destruct l; [congruence | discriminate]. Qed.

Lemma wr_line_inv B done w gs g l : l <> [] -> Forall (fun l => l <> []) g -> wr_inv B done w gs g ->
  exists gs' g', wr_inv B (done ++ [l]) (wr_line B w l) gs' g' /\ Forall (fun l => l <> []) g'.
Proof.
  intros Hl Hg [D O P S F Z V]. unfold wr_line. unfold bytes in *.
  assert (SZ : length (concat (done ++ [l])) = length (concat done) + length l)
    by (rewrite concat_app, app_length; cbn [concat]; rewrite app_nil_r; reflexivity).
  destruct ((0 <? length (pend w)) && (B <? length (pend w) + length l)) eqn:FL.
  - (* flush the batch first *)
    apply andb_true_iff in FL. destruct FL as [FL1 FL2]. apply Nat.ltb_lt in FL1, FL2.
    destruct (B <=? length l) eqn:G; cbn [pend outp wsz ovf].
    + apply Nat.leb_le in G. exists (gs ++ [g] ++ [[l]]), []. split; [|constructor].
      constructor; cbn [pend outp wsz ovf].
      * rewrite <- D. rewrite !concat_app. cbn [concat]. rewrite !app_nil_r, <- !app_assoc. reflexivity.
      * rewrite !map_app, O. cbn [map concat]. rewrite app_nil_r, P, <- app_assoc. reflexivity.
      * reflexivity.
      * apply Forall_app. split; [exact S|]. constructor; [left; rewrite P; exact F|].
        constructor; [right; exists l; split; [reflexivity | exact G] | constructor].
      * cbn. lia.
      * rewrite SZ, Z. reflexivity.
      * exact V.
    + apply Nat.leb_gt in G. exists (gs ++ [g]), [l]. split; [|constructor; [exact Hl | constructor]].
      constructor; cbn [pend outp wsz ovf app length].
      * rewrite <- D. rewrite !concat_app. cbn [concat]. rewrite !app_nil_r, <- !app_assoc. reflexivity.
      * rewrite map_app, O. cbn [map]. rewrite P. reflexivity.
      * cbn [concat]. rewrite app_nil_r. reflexivity.
      * apply Forall_app. split; [exact S|]. constructor; [left; rewrite P; exact F | constructor].
      * lia.
      * rewrite SZ, Z. reflexivity.
      * rewrite V. cbn [orb]. apply Nat.ltb_ge. lia.
  - apply andb_false_iff in FL.
    destruct (B <=? length l) eqn:G; cbn [pend outp wsz ovf].
    + (* a long line and no flush: the batch is empty *)
      apply Nat.leb_le in G.
      assert (E : pend w = []).
      { destruct (pend w) as [|x p] eqn:PE; [reflexivity|]. cbn [length] in *.
        destruct FL as [FL|FL]; apply Nat.ltb_ge in FL; lia. }
      assert (E2 : g = []) by (apply concat_nonempty_nil; [exact Hg | rewrite P; exact E]).
      subst g. exists (gs ++ [[l]]), []. split; [|constructor].
      constructor; cbn [pend outp wsz ovf].
      * rewrite <- D. rewrite !concat_app. cbn [concat]. rewrite !app_nil_r. reflexivity.
      * rewrite map_app, O. cbn [map concat]. rewrite app_nil_r. reflexivity.
      * rewrite E. reflexivity.
      * apply Forall_app. split; [exact S|]. constructor; [right; exists l; split; [reflexivity | exact G] | constructor].
      * rewrite E. cbn. lia.
      * rewrite SZ, Z. reflexivity.
      * exact V.
    + apply Nat.leb_gt in G.
      assert (FIT : length (pend w) + length l <= B).
      { destruct FL as [FL|FL]; apply Nat.ltb_ge in FL; lia. }
      exists gs, (g ++ [l]). split; [|apply Forall_app; split; [exact Hg | constructor; [exact Hl | constructor]]].
      constructor; cbn [pend outp wsz ovf].
      * rewrite <- D. rewrite app_assoc. reflexivity.
      * exact O.
      * rewrite concat_app. cbn [concat]. rewrite app_nil_r, P. reflexivity.
      * exact S.
      * rewrite app_length. exact FIT.
      * rewrite SZ, Z. reflexivity.
      * rewrite V. cbn [orb]. apply Nat.ltb_ge. exact FIT.
Qed.

Lemma fold_wr_inv B : forall lines done w gs g, Forall (fun l => l <> []) lines -> Forall (fun l => l <> []) g ->
  wr_inv B done w gs g ->
  exists gs' g', wr_inv B (done ++ lines) (fold_left (wr_line B) lines w) gs' g' /\ Forall (fun l => l <> []) g'.
Proof.
  induction lines as [|l lines IH]; intros done w gs g HL Hg H; cbn [fold_left].
  - rewrite app_nil_r. exists gs, g. split; assumption.
  - inversion HL; subst.
    destruct (wr_line_inv B done w gs g l) as [gs1 [g1 [I1 G1]]]; try assumption.
    replace (done ++ l :: lines) with ((done ++ [l]) ++ lines) by (rewrite <- app_assoc; reflexivity).
    apply (IH _ _ gs1 g1); assumption.
Qed.

Lemma wst0_inv B : wr_inv B [] wst0 [] [].
Proof. constructor; cbn; try reflexivity; [constructor | lia]. Qed.

(* the payloads are a partition of the written lines into consecutive groups, each either a
   batch of at most B bytes or one line of at least B bytes; no memcpy overflows the batch;
   sz is the total *)
Lemma lbuf_wr_groups B lines b e : Forall (fun l => l <> []) lines ->
  let w := lbuf_wr_gen B lines b e in
  ovf w = false /\ wsz w = length (want lines b e) /\
  exists gs, concat gs = slice b e lines /\ map (@concat N) gs = outp w /\ Forall (group_ok B) gs.
Proof.
  intro HL. unfold lbuf_wr_gen, want.
  assert (HS : Forall (fun l => l <> []) (slice b e lines)) by (unfold slice; apply Forall_firstn', Forall_skipn', HL).
  destruct (fold_wr_inv B (slice b e lines) [] wst0 [] [] HS (Forall_nil _) (wst0_inv B)) as [gs [g [[D O P S F Z V] Hg]]].
  cbn [app] in *. unfold wr_finish. unfold bytes in *.
  destruct (0 <? length (pend _)) eqn:E; cbn [ovf wsz outp].
  - split; [exact V|]. split; [exact Z|]. exists (gs ++ [g]). repeat split.
    + rewrite concat_app. cbn [concat]. rewrite app_nil_r. exact D.
    + rewrite map_app, O. cbn [map]. rewrite P. reflexivity.
    + apply Forall_app. split; [exact S|]. constructor; [left; rewrite P; exact F | constructor].
  - split; [exact V|]. split; [exact Z|]. apply Nat.ltb_ge in E.
    assert (g = []).
    { apply concat_nonempty_nil; [exact Hg|]. rewrite P. destruct (pend _); [reflexivity | cbn in E; lia]. }
    subst g. rewrite app_nil_r in D. exists gs. repeat split; assumption.
Qed.

(* the bytes handed to write(), in order, are the lines -- needs no hypothesis on the lines *)
Definition wr_ok (B : nat) (w : wst) (done : list bytes) : Prop :=
  concat (outp w) ++ pend w = concat done /\ wsz w = length (concat done).
Lemma wr_line_ok B w done l : wr_ok B w done -> wr_ok B (wr_line B w l) (done ++ [l]).
Proof.
  intros [H1 H2]. unfold wr_line, wr_ok.
  rewrite concat_app. cbn [concat]. rewrite app_nil_r, app_length, <- H2, <- H1.
  destruct ((0 <? length (pend w)) && (B <? length (pend w) + length l)) eqn:F; cbn [pend outp wsz].
  - destruct (B <=? length l); cbn [pend outp wsz]; rewrite ?concat_app; cbn [concat]; rewrite ?app_nil_r, <- ?app_assoc; split; reflexivity.
  - destruct (B <=? length l) eqn:G; cbn [pend outp wsz].
    + apply Nat.leb_le in G. apply andb_false_iff in F.
      assert (E : pend w = []).
      { destruct (pend w) as [|x p] eqn:P; [reflexivity|]. cbn [length] in *.
        destruct F as [F|F]; apply Nat.ltb_ge in F; lia. }
      rewrite E. rewrite concat_app. cbn [concat]. rewrite !app_nil_r. split; reflexivity.
    + rewrite <- app_assoc. split; reflexivity.
Qed.
Lemma fold_wr_ok B : forall lines w done, wr_ok B w done -> wr_ok B (fold_left (wr_line B) lines w) (done ++ lines).
Proof.
  induction lines as [|l lines IH]; intros w done H; cbn [fold_left]; [rewrite app_nil_r; exact H|].
  replace (done ++ l :: lines) with ((done ++ [l]) ++ lines) by (rewrite <- app_assoc; reflexivity).
  apply IH, wr_line_ok, H.
Qed.
Lemma lbuf_wr_bytes B lines b e :
  concat (outp (lbuf_wr_gen B lines b e)) = want lines b e /\ wsz (lbuf_wr_gen B lines b e) = length (want lines b e).
Proof.
  unfold lbuf_wr_gen, wr_finish, want.
  destruct (fold_wr_ok B (slice b e lines) wst0 []) as [H1 H2]; [split; reflexivity|]. cbn [app] in *.
  destruct (0 <? length (pend _)) eqn:E; cbn [outp wsz].
  - rewrite concat_app. cbn [concat]. rewrite app_nil_r. split; assumption.
  - apply Nat.ltb_ge in E. destruct (pend _) eqn:P; [|cbn in E; lia]. rewrite app_nil_r in H1. split; assumption.
Qed.

(* ------------------------------------------------------------------ the file *)
Lemma write_seq_spec : forall ps pre rest,
  write_seq (pre ++ rest) (length pre) ps = pre ++ concat ps ++ skipn (length (concat ps)) rest.
Proof.
  induction ps as [|p ps IH]; intros pre rest; cbn [write_seq concat]; [reflexivity|].
  assert (E : pwrite (length pre) p (pre ++ rest) = (pre ++ p) ++ skipn (length p) rest).
  { unfold pwrite. rewrite firstn_app_exact. rewrite app_length.
    replace (length pre - (length pre + length rest)) with 0 by lia. cbn [repeat app].
    rewrite <- skipn_skipn, skipn_app_exact, <- app_assoc. reflexivity. }
  rewrite E. replace (length pre + length p) with (length (pre ++ p)) by apply app_length.
  rewrite IH. rewrite skipn_skipn, app_length, <- !app_assoc. reflexivity.
Qed.

Lemma save_file_gen B lines b e old :
  let w := lbuf_wr_gen B lines b e in ftrunc (wsz w) (write_seq old 0 (outp w)) = want lines b e.
Proof.
  cbn zeta. destruct (lbuf_wr_bytes B lines b e) as [H1 H2].
  pose proof (write_seq_spec (outp (lbuf_wr_gen B lines b e)) [] old) as W. cbn [app length] in W. rewrite W.
  rewrite H1, H2. unfold ftrunc. rewrite firstn_app_exact, app_length.
  replace (_ - _) with 0 by lia. apply app_nil_r.
Qed.

Lemma save_file_want lines b e old : b <= e <= length lines -> save_file lines b e old = want lines b e.
Proof. intros _. apply save_file_gen. Qed.

Lemma want_all lines : want lines 0 (length lines) = concat lines.
Proof. unfold want, slice. rewrite Nat.sub_0_r. cbn [skipn]. rewrite firstn_all. reflexivity. Qed.

Lemma roundtrip f chunks old : nonul f -> concat chunks = f -> read_then_write chunks old = Some (norm f).
Proof.
  intros _ <-. unfold read_then_write.
  destruct (lbuf_rd_empty chunks 0 0) as [lb [A [B _]]]. rewrite A.
  rewrite save_file_want by lia. rewrite want_all, B, split_concat. reflexivity.
Qed.

Lemma BATCH_pos : 0 < BATCH.
Proof. unfold BATCH. apply Nat2Z.inj_lt. rewrite Z2Nat.id; reflexivity || discriminate. Qed.

(* ------------------------------------------------------------------ capacity of the line table *)
Definition lbuf_ok (lb : lbuf) : Prop := (0 <= ln_sz lb)%Z /\ (ln lb = [] \/ Z.of_nat (length (ln lb)) < ln_sz lb)%Z.
Lemma lbuf_make_ok : lbuf_ok lbuf_make.
Proof. split; [cbn; lia | left; reflexivity]. Qed.
Lemma lbuf_replace_cap lb s pos n_del : lbuf_ok lb -> pos + n_del <= length (ln lb) ->
  exists lb', lbuf_replace lb s pos n_del = Some lb' /\ lbuf_ok lb' /\ (Z.of_nat (length (ln lb')) < ln_sz lb')%Z.
Proof.
  intros [H0 H1] Hp.
  destruct (lbuf_replace_spec lb s pos n_del H0 ltac:(lia)) as [lb' [A [B [C D]]]].
  exists lb'. split; [exact A|].
  assert (L : length (ln lb') = length (ln lb) + linecount s - n_del).
  { rewrite B, !app_length, firstn_length, skipn_length, <- linecount_len. lia. }
  assert (Z.of_nat (length (ln lb')) < ln_sz lb')%Z by lia.
  split; [split; [lia | right; assumption] | assumption].
Qed.
Lemma line_wf_all_nonempty lines : Forall line_wf lines -> Forall (fun l : list N => l <> []) lines.
Proof. intro H. eapply Forall_impl; [|exact H]. intros l. apply line_wf_nonempty. Qed.
