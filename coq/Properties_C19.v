(* Properties_C19.v -- C19: the terminal shows a true window of the buffer with the cursor on its
   character.  Statements only; every proof is `exact <lemma>` (DrawProps.v); Print Assumptions
   under each.  Rows are abstract (`f i` = what vi_drawrow draws for absolute row i); the terminal
   primitives are the list operations of the emulator (TermEmu.v) that interprets the real stream. *)
From Coq Require Import List Arith ZArith Bool.
From NV Require Import Bytes TermEmu DrawDefs DrawProps DrawPutDefs DrawPutProps TermOutDefs TermOutProps.
Import ListNotations.

(* emulator lemmas of the scroll algebra: delete / insert line in the text region [0,h) of a
   screen text ++ rest (rest = message row) act on the text rows only, as list operations *)
Theorem C19_emu_delete_lines : forall (A : Type) (blank : A) h r n (text rest : list A),
  length text = h -> r < h ->
  del_lines blank 0 h r n (text ++ rest) =
  (firstn r text ++ skipn (r + Nat.min n (h - r)) text ++ repeat blank (Nat.min n (h - r))) ++ rest.
Proof. exact emu_delete_lines. Qed.
Print Assumptions C19_emu_delete_lines.
Theorem C19_emu_insert_lines : forall (A : Type) (blank : A) h r n (text rest : list A),
  length text = h -> r < h ->
  ins_lines blank 0 h r n (text ++ rest) =
  (firstn r text ++ repeat blank (Nat.min n (h - r)) ++ firstn (h - r - Nat.min n (h - r)) (skipn r text)) ++ rest.
Proof. exact emu_insert_lines. Qed.
Print Assumptions C19_emu_insert_lines.

(* vi_drawupdate: scrolling by insert/delete line and drawing only the exposed rows leaves exactly
   the full repaint at the new top -- any old top, new top, window height, row contents *)
Theorem C19_update_is_repaint : forall (R : Type) (blank : R) (f : nat -> R) h otop xtop,
  drawupdate R blank f h otop xtop (win R f otop h) = win R f xtop h.
Proof. exact drawupdate_is_repaint. Qed.
Print Assumptions C19_update_is_repaint.

(* vi_drawfix(r1, e-1, n, 0) after lines r1 .. e-1 were replaced by n lines: the screen that showed
   the old rows shows the full repaint of the new rows, provided the call lies in fix_pre (the
   change starts inside the window -- not a pure insertion on its first row --, or starts above it
   and removes lines or reaches into the window, or lies wholly below it) *)
Theorem C19_fix_is_repaint : forall (R : Type) (blank : R) (old new : nat -> R) W h r1 e n,
  1 <= h -> r1 <= e ->
  (forall i, i < r1 -> new i = old i) ->
  (forall k, new (r1 + n + k) = old (e + k)) ->
  fix_pre W h r1 e n ->
  drawfix R blank new W h (Z.of_nat r1) (Z.of_nat e - 1) (Z.of_nat n) (win R old W h) = win R new W h.
Proof. exact drawfix_is_repaint. Qed.
Print Assumptions C19_fix_is_repaint.
(* the same for a list buffer and its splice *)
Theorem C19_fix_splice_is_repaint : forall (R : Type) (blank : R) (line : Type) (img : option line -> R)
    (buf ins : list line) W h r1 e,
  1 <= h -> r1 <= e -> e <= length buf -> fix_pre W h r1 e (length ins) ->
  let f (b : list line) := fun i => img (nth_error b i) in
  drawfix R blank (f (firstn r1 buf ++ ins ++ skipn e buf)) W h (Z.of_nat r1) (Z.of_nat e - 1) (Z.of_nat (length ins))
          (win R (f buf) W h)
  = win R (f (firstn r1 buf ++ ins ++ skipn e buf)) W h.
Proof. exact drawfix_splice_is_repaint. Qed.
Print Assumptions C19_fix_splice_is_repaint.
(* the precondition is needed: vi_drawfix(0,-1,0,0) -- the call vi_change made after a character-wise change on an
   empty buffer before fix 835c133 -- lies outside fix_pre and damages a correct screen *)
Theorem C19_fix_pre_needed : exists (f : nat -> nat) h, 1 <= h /\
  drawfix nat 0 f 0 h 0%Z (-1)%Z 0%Z (win nat f 0 h) <> win nat f 0 h.
Proof. exact fix_pre_needed. Qed.
Print Assumptions C19_fix_pre_needed.

(* ---- the call sites.  buf: the buffer as a list of lines; img: what vi_drawrow draws for a line (None = the filler); splice
   buf beg en ins = lbuf_edit(xb, ins, beg, en).  Each theorem: the screen shows the buffer's window, the command's own guards
   hold and the cursor line is in the window; then the vi_drawfix call of that command leaves the window of the edited buffer. *)
(* vi_delete, line mode (dd dj dk dG d{ ...): lbuf_edit(NULL, r1, r2+1); vi_drawfix(r1, r2, 0, 0) *)
Theorem C19_site_delete_lines : forall (R : Type) (blank : R) (line : Type) (img : option line -> R) (buf : list line) W h xrow r1 r2,
  W <= xrow < W + h -> r1 <= xrow <= r2 -> r2 < length buf ->
  drawfix R blank (fimg R line img (splice line buf r1 (S r2) [])) W h (Z.of_nat r1) (Z.of_nat r2) 0%Z (win R (fimg R line img buf) W h)
  = win R (fimg R line img (splice line buf r1 (S r2) [])) W h.
Proof. exact site_delete_lines. Qed.
Print Assumptions C19_site_delete_lines.
(* vi_delete, character mode (x X dw d$ D db d/pat ...): lines r1 .. r2 become the one line l; vi_drawfix(r1, r2, 1, 0) *)
Theorem C19_site_delete_chars : forall (R : Type) (blank : R) (line : Type) (img : option line -> R) (buf : list line) (l : line) W h xrow r1 r2,
  W <= xrow < W + h -> r1 <= xrow <= r2 -> r2 < length buf ->
  drawfix R blank (fimg R line img (splice line buf r1 (S r2) [l])) W h (Z.of_nat r1) (Z.of_nat r2) 1%Z (win R (fimg R line img buf) W h)
  = win R (fimg R line img (splice line buf r1 (S r2) [l])) W h.
Proof. exact site_delete_chars. Qed.
Print Assumptions C19_site_delete_chars.
(* vi_case (g~ gu gU ~) and vi_shift (> <): as many new lines as old ones; vi_drawfix(r1, r2, r2-r1+1, 0).  The region may start
   above the window (g~k, >k, <1G on the first row of a scrolled window): true since fix 7ace771 of /repo -- the model before it
   refuted this statement (finding KF-DRAWFIX-ABOVE, corpus/C19-kf-drawfix-above.json, found while stating this theorem) *)
Theorem C19_site_same_count : forall (R : Type) (blank : R) (line : Type) (img : option line -> R) (buf ins : list line) W h xrow r1 r2,
  W <= xrow < W + h -> r1 <= xrow <= r2 -> r2 < length buf -> length ins = S r2 - r1 ->
  drawfix R blank (fimg R line img (splice line buf r1 (S r2) ins)) W h (Z.of_nat r1) (Z.of_nat r2) (Z.of_nat r2 - Z.of_nat r1 + 1)%Z
          (win R (fimg R line img buf) W h)
  = win R (fimg R line img (splice line buf r1 (S r2) ins)) W h.
Proof. exact site_same_count. Qed.
Print Assumptions C19_site_same_count.
(* vc_put of a character-wise register (line xrow becomes the lines of pref ++ register ++ post; vi_drawfix(xrow, xrow, lncnt, 0)
   with lncnt = linecount - 1 = their number) and vc_replace (one line, or cnt+1 lines for r<CR>) *)
Theorem C19_site_replace_line : forall (R : Type) (blank : R) (line : Type) (img : option line -> R) (buf ins : list line) W h xrow,
  W <= xrow < W + h -> xrow < length buf ->
  drawfix R blank (fimg R line img (splice line buf xrow (S xrow) ins)) W h (Z.of_nat xrow) (Z.of_nat xrow) (Z.of_nat (length ins))
          (win R (fimg R line img buf) W h)
  = win R (fimg R line img (splice line buf xrow (S xrow) ins)) W h.
Proof. exact site_replace_line. Qed.
Print Assumptions C19_site_replace_line.
(* vc_join: lines xrow .. xrow+cnt-1 become the line l; vi_drawfix(xrow, xrow + cnt - 1, 1, 0) *)
Theorem C19_site_join : forall (R : Type) (blank : R) (line : Type) (img : option line -> R) (buf : list line) (l : line) W h xrow cnt,
  W <= xrow < W + h -> 2 <= cnt -> xrow + cnt <= length buf ->
  drawfix R blank (fimg R line img (splice line buf xrow (xrow + cnt) [l])) W h (Z.of_nat xrow) (Z.of_nat xrow + Z.of_nat cnt - 1)%Z 1%Z
          (win R (fimg R line img buf) W h)
  = win R (fimg R line img (splice line buf xrow (xrow + cnt) [l])) W h.
Proof. exact site_join. Qed.
Print Assumptions C19_site_join.
(* vc_put of a line-wise register of k >= 1 lines: a pure insertion before line xrow (after `p` incremented it: possibly the row
   just below the window, or one past the last line); vi_drawfix(xrow, xrow, k + 1, 0) since vi.c's linecount is lines + 1 *)
Theorem C19_site_put_lines : forall (R : Type) (blank : R) (line : Type) (img : option line -> R) (buf ins : list line) W h xrow,
  1 <= h -> W <= xrow <= W + h -> xrow <= length buf -> 1 <= length ins ->
  drawfix R blank (fimg R line img (splice line buf xrow xrow ins)) W h (Z.of_nat xrow) (Z.of_nat xrow) (Z.of_nat (length ins) + 1)%Z
          (win R (fimg R line img buf) W h)
  = win R (fimg R line img (splice line buf xrow xrow ins)) W h.
Proof. exact site_put_lines. Qed.
Print Assumptions C19_site_put_lines.

(* ---- vc_put with its count, from the bytes.  DrawPutDefs.v mirrors what vc_put computes: the text handed to lbuf_edit
   (character-wise: pref ++ register * count ++ post, the two parts of the cursor line around the put position; line-wise:
   register * count), the lines lbuf_replace cuts it into (text_lines) and the vi_drawfix arguments -- lncnt = linecount(text) - 1
   resp. linecount(text) with vi.c's linecount = newlines + 1, counted on the text that was PUT, not on the register.
   Character-wise, any register (with or without newlines), any count, any split of the cursor line whose rest keeps the
   line's newline: the call leaves the window of the buffer in which line xrow is replaced by the lines of the text *)
Theorem C19_site_put_chars_count : forall (R : Type) (blank : R) (img : option (list N) -> R) (buf : list (list N)) W h xrow
    (pref post' reg : list N) cnt,
  W <= xrow < W + h -> xrow < length buf ->
  let c := vc_put_chars xrow pref (post' ++ [10%N]) reg cnt in
  let buf' := splice (list N) buf (p_beg c) (p_end c) (text_lines (p_text c)) in
  put_screen R blank (fimg R (list N) img buf') W h c (win R (fimg R (list N) img buf) W h) = win R (fimg R (list N) img buf') W h.
Proof. exact site_put_chars_count. Qed.
Print Assumptions C19_site_put_chars_count.
(* the splice it describes: one line replaced by count * (newlines in the register) + 1 lines, and that is the n of the call *)
Theorem C19_put_chars_linecount : forall xrow (pref post' reg : list N) cnt,
  count_nl pref = 0 -> count_nl post' = 0 ->
  let c := vc_put_chars xrow pref (post' ++ [10%N]) reg cnt in
  length (text_lines (p_text c)) = cnt * count_nl reg + 1 /\ p_n c = Z.of_nat (cnt * count_nl reg + 1).
Proof. exact put_chars_linecount. Qed.
Print Assumptions C19_put_chars_linecount.
(* the same on an EMPTY buffer (ln = "\n"; lbuf_edit clamps the replaced range to an insertion at 0; the screen is the first row,
   drawn blank, over filler rows): the call vi_drawfix(0, 0, lncnt, 0) leaves the window of the lines that were put *)
Theorem C19_site_put_chars_empty : forall (R : Type) (blank : R) (img : option (list N) -> R) (first : R) h (reg : list N) cnt,
  1 <= h ->
  let c := vc_put_chars 0 [] [10%N] reg cnt in
  let buf' := text_lines (p_text c) in
  put_screen R blank (fimg R (list N) img buf') 0 h c (win R (fun i => if i =? 0 then first else img None) 0 h)
  = win R (fimg R (list N) img buf') 0 h.
Proof. exact site_put_chars_empty. Qed.
Print Assumptions C19_site_put_chars_empty.
(* line-wise (the register ends with a newline), any count >= 1, also on the row just below the window and after the last line *)
Theorem C19_site_put_lines_count : forall (R : Type) (blank : R) (img : option (list N) -> R) (buf : list (list N)) W h xrow
    (reg' : list N) cnt,
  1 <= h -> W <= xrow <= W + h -> xrow <= length buf -> 1 <= cnt ->
  let c := vc_put_lines xrow (reg' ++ [10%N]) cnt in
  let buf' := splice (list N) buf (p_beg c) (p_end c) (text_lines (p_text c)) in
  length (text_lines (p_text c)) = cnt * S (count_nl reg') /\
  put_screen R blank (fimg R (list N) img buf') W h c (win R (fimg R (list N) img buf) W h) = win R (fimg R (list N) img buf') W h.
Proof. exact site_put_lines_count. Qed.
Print Assumptions C19_site_put_lines_count.
(* the count is needed: with the row count taken from the register alone (linecount(buf), a "count the register once" rewrite
   of vc_put) the same call damages a correct screen, while the modelled call repaints it *)
Theorem C19_put_count_needed : exists (buf : list (list N)) (pref post reg : list N) cnt W h xrow,
  W <= xrow < W + h /\ xrow < length buf /\
  let c := vc_put_chars xrow pref post reg cnt in
  let f := fimg (option (list N)) (list N) (fun o => o) (splice (list N) buf (p_beg c) (p_end c) (text_lines (p_text c))) in
  put_screen _ None f W h c (win _ (fimg _ (list N) (fun o => o) buf) W h) = win _ f W h /\
  drawfix _ None f W h (p_r1 c) (p_r2 c) (Z.of_nat (vi_linecount reg)) (win _ (fimg _ (list N) (fun o => o) buf) W h) <> win _ f W h.
Proof. exact put_count_needed. Qed.
Print Assumptions C19_put_count_needed.

(* ---- insert mode.  vi_nextline (first thing in `o`, and after every typed newline): the screen that showed the window shows the
   window with an empty line opened after the cursor line, which is the new cursor line and stays inside the window *)
Theorem C19_nextline_opens_line : forall (R : Type) (blank : R) (g : nat -> R) h xtop xrow, 1 <= h -> xtop <= xrow < xtop + h ->
  let '(t, r, rows) := nextline R blank h xtop xrow (win R g xtop h) in
  r = S xrow /\ t <= r < t + h /\ length rows = h /\
  forall k, k < h -> nth k rows blank = if t + k =? r then blank else if t + k <? r then g (t + k) else g (t + k - 1).
Proof. exact nextline_opens_line. Qed.
Print Assumptions C19_nextline_opens_line.
(* vi_drawfix(r1, r2, 1, 1), the preview of vi_change (c cc cw cj ck C s S): the window moves up to r1 if the region starts above
   it, row r1 is the placeholder led_printparts overwrites, all other rows show the buffer without the lines r1+1 .. r2 *)
Theorem C19_preview_is_repaint : forall (R : Type) (blank : R) (g : nat -> R) W h xrow r1 r2, 1 <= h -> W <= xrow < W + h -> r1 <= xrow <= r2 ->
  let '(t, rows) := drawfix_preview R blank g W h (Z.of_nat r1) (Z.of_nat r2) 1%Z (win R g W h) in
  t = Nat.min W r1 /\ t <= r1 < t + h /\ length rows = h /\
  forall k, k < h -> t + k <> r1 -> nth k rows blank = if t + k <? r1 then g (t + k) else g (t + k + (r2 - r1)).
Proof. exact preview_is_repaint. Qed.
Print Assumptions C19_preview_is_repaint.

(* the redraw decision at the tail of vi(): full redraw, one-line redraw, or scroll + highlight rows *)
Theorem C19_tail_is_repaint : forall (R : Type) (blank : R) (g f : nat -> R) h (mr mw lc hll : bool) otop xtop orow xrow,
  xtop <= xrow < xtop + h ->
  (if mr || mw || lc
   then (if mr && negb lc && (xtop =? otop) then forall i, i <> xrow -> i <> orow -> f i = g i else True)
   else forall i, (hll = true /\ xrow <> orow -> i <> xrow /\ i <> orow) -> f i = g i) ->
  redraw_tail R blank f h mr mw lc hll otop xtop orow xrow (win R g otop h) = win R f xtop h.
Proof. exact tail_is_repaint. Qed.
Print Assumptions C19_tail_is_repaint.

(* vi_wfix: afterwards the cursor line is a buffer line inside the window, for every prior state *)
Theorem C19_window_follows : forall xtop xrow h len, (1 <= h)%Z -> (0 <= len)%Z -> (0 <= xtop)%Z ->
  let (t, r) := wfix xtop xrow h len in
  (t <= r < t + h /\ 0 <= t /\ 0 <= r /\ (0 < len -> r < len) /\ (len = 0 -> r = 0))%Z.
Proof. exact wfix_follows. Qed.
Print Assumptions C19_window_follows.
(* the xleft rule (steered by the cursor's own column wcol = vi_off2col(xb, xrow, xoff) since fix 232fd9e): the
   cursor's cell is inside [xleft, xleft + cols) and term_pos puts the terminal cursor exactly on it -- no side
   condition any more (before the fix the rule was steered by the column remembered by j/k, and this failed) *)
Theorem C19_window_follows_horizontal : forall xleft wcol cols, (1 <= cols)%Z -> (0 <= xleft)%Z -> (0 <= wcol)%Z ->
  let l := fix_left xleft wcol cols in (l <= wcol < l + cols)%Z /\ term_col l cols wcol = (wcol - l)%Z.
Proof. exact cursor_cell_visible. Qed.
Print Assumptions C19_window_follows_horizontal.

(* the command loop keeps "the text rows are the repaint of the current rows at the current top and
   the cursor line is in the window", for every sequence of commands whose bodies meet step_ok.
   _partial: step_ok is established for motions/scrolls (motion_step_ok) and for an edit repaired by
   vi_drawfix inside fix_pre (drawfix_step_ok); the C19_site_* theorems above show that the calls of
   vi_delete, vi_case/vi_shift (region starting inside the window), vc_put, vc_join and vc_replace lie
   inside fix_pre and describe the splice made.  Missing: the composition of an insert (preview +
   vi_nextline per newline + led_printparts per key + the final vi_drawfix(r1, r1+row-1, row, 0)) into one
   step -- C19_nextline_opens_line and C19_preview_is_repaint are its two screen-moving parts --, ex
   commands (full repaint, trivially a step), split windows; those are explored by the run against the real
   binary.  Full statement intended: for every key sequence of the C07/C08 command set, coherent holds
   after every command. *)
Theorem C19_loop_partial : forall (R : Type) (blank : R) h (s : vstate R) (cs : list (step R)),
  coherent R h s -> steps_ok R blank h s cs -> coherent R h (run_steps R blank h s cs).
Proof. exact loop_coherent. Qed.
Print Assumptions C19_loop_partial.

(* the hypotheses are satisfiable: a 3-row window over rows 0.., two lines replaced by one at the
   second row, then a scroll by one *)
Example C19_nonvacuous :
  fix_pre 0 3 1 3 1 /\
  drawfix nat 99 (fun i => if i <? 1 then i else if i =? 1 then 77 else i + 1) 0 3 1%Z 2%Z 1%Z (win nat (fun i => i) 0 3)
    = [0; 77; 3] /\
  drawupdate nat 99 (fun i => i) 3 0 1 (win nat (fun i => i) 0 3) = [1; 2; 3].
Proof. split; [left; split; [split; repeat constructor|left; repeat constructor]|split; vm_compute; reflexivity]. Qed.

(* vc_put: `ll y/e 3<CR>` on "line 1 / line 2 / line 3" yanks "ne 1\nline 2\nlin"; 2p after the `l` of "line 6" makes five lines
   of it and the call is vi_drawfix(5, 5, 5, 0) *)
Example C19_nonvacuous_put :
  let reg := [110; 101; 32; 49; 10; 108; 105; 110; 101; 32; 50; 10; 108; 105; 110]%N in
  let c := vc_put_chars 5 [108; 105; 110]%N ([101; 32; 54] ++ [10])%N reg 2 in
  count_nl reg = 2 /\ length (text_lines (p_text c)) = 5 /\ (p_r1 c, p_r2 c, p_n c) = (5, 5, 5)%Z /\
  nth 1 (text_lines (p_text c)) [] = [108; 105; 110; 101; 32; 50]%N.
Proof. vm_compute. repeat split; reflexivity. Qed.

(* ---- the scroll region (term.c term_window / term_done / term_init as the strings they write, TermOutDefs.v, interpreted by the
   emulator).  win_beg / win_rows are only the editor's COPY of the terminal's region. *)
(* term_window(beg, cnt) for a window of at least two rows inside the screen: the emulator's region is exactly [beg, beg + cnt)
   afterwards, the cursor is home, cells and error count are untouched (sprintf("%d") is read back by the CSI parser) *)
Theorem C19_emu_term_window : forall t rows beg cnt, t_st t = Ground -> t_rows t = rows -> 2 <= cnt -> beg + cnt <= rows ->
  run t (term_window_out rows beg cnt) = upd t (t_cells t) 0 0 beg (beg + cnt) Ground (t_err t).
Proof. exact emu_term_window. Qed.
Print Assumptions C19_emu_term_window.
(* term_done: whatever the region was, it is the whole screen afterwards (the copy w is not touched) *)
Theorem C19_emu_term_done_resets_region : forall t rows w, t_st t = Ground -> t_rows t = rows -> 2 <= rows ->
  let t' := run t (term_done rows w) in
  t_top t' = 0 /\ t_bot t' = rows /\ t_rows t' = rows /\ t_cols t' = t_cols t /\ t_err t' = t_err t /\ t_st t' = Ground.
Proof. exact emu_term_done. Qed.
Print Assumptions C19_emu_term_done_resets_region.
(* term_done(); term_init(); -- ^L, and cmd_pipe() around a child that owns the terminal (:!cmd) -- with the copy w = a window of
   at least two rows: the copy is unchanged and the emulator's region equals it again IF AND ONLY IF term_init's term_window
   writes its sequence (cached = false: term.c) or the copy is the whole screen anyway.  With the text rows [0, rows - 1) of a
   single window a term_window that returns early when the request equals the copy leaves the terminal's region at the whole
   screen after every re-initialisation. *)
Theorem C19_reinit_region_iff : forall t rows w (cached : bool),
  t_st t = Ground -> t_rows t = rows -> 2 <= win_rows w -> win_beg w + win_rows w <= rows ->
  let '(w', o) := reinit_out cached rows w in
  let t' := run t o in
  w' = w /\ t_st t' = Ground /\ t_err t' = t_err t /\ t_rows t' = rows /\
  (region_agrees t' w' = true <-> cached = false \/ (win_beg w = 0 /\ win_rows w = rows)).
Proof. exact emu_reinit. Qed.
Print Assumptions C19_reinit_region_iff.
(* why it matters: vi_nextline() on the bottom text row h - 1 of a single window (rows = h + 1) writes '\n' and term_pos(h - 1, 0).
   With the region [0, h) the text rows scroll by one -- del_lines 0 h 0 1, the screen `nextline` of DrawDefs.v computes and
   C19_nextline_opens_line is about --; with the region [0, h + 1) NO row changes and the cursor is back on row h - 1: the text rows
   stay one line behind the buffer *)
Theorem C19_nextline_bottom_needs_region : forall t h (bot : nat),
  t_st t = Ground -> t_rows t = S h -> 2 <= h -> 1 <= t_cols t -> t_top t = 0 -> t_bot t = bot -> t_r t = h - 1 ->
  (bot = h \/ bot = S h) ->
  let t' := run t (nextline_bottom_out (mkTwin 0 h)) in
  t_r t' = h - 1 /\ t_c t' = 0 /\
  t_cells t' = if bot =? h then del_lines (blank_row (t_cols t)) 0 h 0 1 (t_cells t) else t_cells t.
Proof. exact emu_nextline_bottom. Qed.
Print Assumptions C19_nextline_bottom_needs_region.
(* a DEL byte in the stream is ignored (a real terminal gives it no cell and does not move): a row renderer that sends a raw DEL for
   a character which the column mapping counts as one cell draws the rest of the row one cell too far left *)
Theorem C19_emu_del_ignored : forall t pre post, t_st (run t pre) = Ground -> run t (pre ++ 127%N :: post) = run t (pre ++ post).
Proof. exact emu_del_ignored. Qed.
Print Assumptions C19_emu_del_ignored.
(* the hypotheses are satisfiable and the two sides differ: LINES=8 COLUMNS=30 (7 text rows), rows 0..6 hold the characters '0'..'6';
   ^L, then the cursor on row 6, then vi_nextline.  term.c: region [0,7), row 0 shows '1' afterwards.  The variant that trusts the
   copy: region [0,8), row 0 still shows '0'. *)
Example C19_nonvacuous_reinit :
  let w := mkTwin 0 7 in
  let t0 := run (term_new 8 30) (term_window_out 8 0 7 ++
              flat_map (fun i => term_pos_out 0 i 0 ++ [N.of_nat (48 + i)]) (seq 0 7)) in
  let after (cached : bool) := run (run t0 (snd (reinit_out cached 8 w))) (term_pos_out 0 6 0 ++ nextline_bottom_out w) in
  (t_top t0, t_bot t0, t_err t0) = (0, 7, 0) /\
  region_agrees (run t0 (snd (reinit_out false 8 w))) w = true /\
  region_agrees (run t0 (snd (reinit_out true 8 w))) w = false /\
  hd 0%N (hd [] (t_cells (after false))) = 49%N /\ hd 0%N (hd [] (t_cells (after true))) = 48%N /\
  t_err (after false) = 0 /\ t_err (after true) = 0 /\
  run (term_new 2 5) [97; 127; 98]%N = run (term_new 2 5) [97; 98]%N.
Proof. vm_compute. repeat split; reflexivity. Qed.

(* ---------- the window / drawing code of vi.c and led.c ON THE TRANSLATED C TEXT (tools/c2clite.d/99zzzzz_draw.list, coq/GenCFuncs.v) ----------
   Every statement is about CLiteExt.callx for EVERY oracle `ext` that answers the untranslated terminal functions as the kernel of
   coq/TrDrawBase.v does (kernel_ok: term_rows / term_cols / conf_hlline answer h / cols / hl; term_pos, term_room, led_print, syn_context,
   vi_drawmsg, term_record, term_commit append their record to the log block kl -- led_print after READING the two strings it is handed,
   every cell checked), on every memory that holds the window globals and the buffer (draw_mem). *)
From NV Require Import CLite CLiteProps GenCFuncs CLiteExt DrawWinDefs DrawWinProps TrDrawBase TrDrawWin TrDrawRow TrDrawEx TrDrawFix.
Local Open Scope Z_scope.

(* vi_wfix(): xrow and xtop afterwards are DrawDefs.wfix of the values before, for ALL xrow / xtop / xrows / buffer lengths (so, by
   C19_window_follows, the cursor line is a line of the buffer inside the window; xtop is kept when xrow was inside: wfix_stable);
   xoff is what ren_noeol answers for the cursor line *)
Theorem C19_tr_vi_wfix : forall ext kl h cols hl bl bln lbs lines ft d fuel m v o,
  kernel_ok ext kl h cols hl -> 0 <= h <= 2147483647 ->
  draw_mem m kl v bl bln lbs lines ft -> i32b (v_xrow v) -> 0 <= v_xtop v -> v_xtop v + h + h / 2 <= 2147483647 -> i32b (v_xoff v) -> i32b o ->
  let '(t, r) := wfix (v_xtop v) (v_xrow v) h (blen lines) in
  let m2 := CLiteProps.upd (CLiteProps.upd m G_xrow [VInt r]) G_xtop [VInt t] in
  callx ext cprog fuel (S (S d)) F_ren_noeol [line_ptr lbs lines r; VInt (v_xoff v)] m2 = Ok (VInt o, m2) ->
  callx ext cprog fuel (S (S (S d))) F_vi_wfix [] m = Ok (VUndef, CLiteProps.upd m2 G_xoff [VInt o]) /\
  draw_mem (CLiteProps.upd m2 G_xoff [VInt o]) kl (set_xoff (set_xtop (set_xrow v r) t) o) bl bln lbs lines ft.
Proof. intros ext kl h cols hl bl bln lbs lines ft d fuel m v o Hk Hh. exact (tr_vi_wfix ext kl h cols hl Hk bl bln lbs lines ft d fuel Hh m v o). Qed.
Print Assumptions C19_tr_vi_wfix.

(* ^E / ^D / ^F and ^Y / ^U / ^B: the model's new xtop / xrow with the clamping at both ends of the buffer *)
Theorem C19_tr_vi_scrollforward : forall ext kl h cols hl m v bl bln lbs lines ft d fuel cnt,
  kernel_ok ext kl h cols hl -> draw_mem m kl v bl bln lbs lines ft ->
  i32b (v_xtop v) -> i32b (v_xrow v) -> i32b cnt -> i32b (v_xtop v + cnt) ->
  let '(r, t, w) := scroll_fwd (blen lines) (v_xtop v) (v_xrow v) cnt in
  callx ext cprog fuel (S (S d)) F_vi_scrollforward [VInt cnt] m
  = Ok (VInt r, if r =? 0 then CLiteProps.upd (CLiteProps.upd m G_xtop [VInt t]) G_xrow [VInt w] else m).
Proof. intros ext kl h cols hl m v bl bln lbs lines ft d fuel cnt Hk Hm. exact (tr_vi_scrollforward ext kl m v bl bln lbs lines ft Hm d fuel cnt). Qed.
Print Assumptions C19_tr_vi_scrollforward.
Theorem C19_tr_vi_scrollbackward : forall ext kl h cols hl m v bl bln lbs lines ft d fuel cnt,
  kernel_ok ext kl h cols hl -> draw_mem m kl v bl bln lbs lines ft ->
  0 <= v_xtop v <= 2147483647 -> i32b (v_xrow v) -> i32b cnt -> 0 <= cnt -> i32b (v_xtop v - cnt) -> 0 <= h -> i32b (v_xtop v + h) ->
  let '(r, t, w) := scroll_bwd h (v_xtop v) (v_xrow v) cnt in
  callx ext cprog fuel (S (S d)) F_vi_scrollbackward [VInt cnt] m
  = Ok (VInt r, if r =? 0 then CLiteProps.upd (CLiteProps.upd m G_xtop [VInt t]) G_xrow [VInt w] else m).
Proof. intros ext kl h cols hl m v bl bln lbs lines ft d fuel cnt Hk Hm. exact (tr_vi_scrollbackward ext kl h cols hl Hk m v bl bln lbs lines ft Hm d fuel cnt). Qed.
Print Assumptions C19_tr_vi_scrollbackward.

(* led_pos / vi_pos: the column flip of a right-to-left context *)
Theorem C19_tr_led_pos : forall ext m dir pos b e d fuel, i32b (pos - b) -> i32b (e - pos) -> i32b (e - pos - 1) ->
  callx ext cprog fuel (S d) F_led_pos [VInt dir; VInt pos; VInt b; VInt e] m = Ok (VInt (flip_pos dir pos b e), m).
Proof. exact tr_led_pos. Qed.
Print Assumptions C19_tr_led_pos.
Theorem C19_tr_vi_pos : forall ext kl h cols hl m m' s pos dir xleft d fuel, kernel_ok ext kl h cols hl ->
  callx ext cprog fuel (S d) F_dir_context [match s with VInt 0 => VPtr G_lit__0 0 | _ => s end] m = Ok (VInt dir, m') ->
  (s = VInt 0 \/ exists b o, s = VPtr b o) -> cell_at m' G_xleft xleft ->
  i32b xleft -> i32b (pos - xleft) -> i32b (xleft + cols) -> i32b (xleft + cols - pos) -> i32b (xleft + cols - pos - 1) ->
  callx ext cprog fuel (S (S d)) F_vi_pos [s; VInt pos] m = Ok (VInt (DrawWinDefs.vi_pos dir pos xleft cols), m').
Proof. exact tr_vi_pos. Qed.
Print Assumptions C19_tr_vi_pos.

(* vi_drawrow(i): led_print is called with the text of line i (the filler "~" past the end, "" on row 0 of the empty buffer), the screen
   row i - xtop, xleft and the file type name; syn_context(conf_hlline()) before it exactly on the cursor line when xhll is set,
   syn_context(0) after it; nothing else in memory changes *)
Theorem C19_tr_vi_drawrow : forall ext kl h cols hl v bl bln lbs lines ft d fuel m lg i,
  kernel_ok ext kl h cols hl -> v_ok v -> draw_mem m kl v bl bln lbs lines ft -> log_at m kl lg -> i32b i -> i32b (i - v_xtop v) ->
  callx ext cprog fuel (S (S (S d))) F_vi_drawrow [VInt i] m
  = Ok (VUndef, mlog m kl (lg ++ drawrow_evs lines ft (v_xtop v) (v_xrow v) (v_xleft v) (v_xhll v) (v_xhl v) hl i)).
Proof. intros ext kl h cols hl v bl bln lbs lines ft d fuel m lg i Hk Hv. exact (tr_vi_drawrow ext kl h cols hl Hk v bl bln lbs lines ft d fuel Hv m lg i). Qed.
Print Assumptions C19_tr_vi_drawrow.

(* vi_drawagain(xcol, row): exactly the rows xtop .. xtop + xrows - 1, each once, in order (row < 0), or the one row `row`; then vi_drawmsg *)
Theorem C19_tr_vi_drawagain : forall ext kl h cols hl v bl bln lbs lines ft d fuel m lg xcol row,
  kernel_ok ext kl h cols hl -> v_ok v -> draw_mem m kl v bl bln lbs lines ft -> 0 <= h -> 0 <= v_xtop v -> v_xtop v + h <= 2147483647 ->
  log_at m kl lg -> (Z.to_nat h < fuel)%nat ->
  callx ext cprog fuel (S (S (S (S d)))) F_vi_drawagain [xcol; VInt row] m
  = Ok (VUndef, mlog m kl (lg ++ ag_evs (drawrow_evs lines ft (v_xtop v) (v_xrow v) (v_xleft v) (v_xhll v) (v_xhl v) hl) row (v_xtop v) (Z.to_nat h) ++ [TMsg])).
Proof. intros ext kl h cols hl v bl bln lbs lines ft d fuel m lg xcol row Hk Hv Hm Hh Ht Hth. exact (tr_vi_drawagain ext kl h cols hl Hk v bl bln lbs lines ft d fuel Hv m Hm Hh Ht Hth lg xcol row). Qed.
Print Assumptions C19_tr_vi_drawagain.
Theorem C19_tr_drawagain_window : forall ext kl h cols hl v bl bln lbs lines ft d fuel m lg xcol s,
  kernel_ok ext kl h cols hl -> v_ok v -> draw_mem m kl v bl bln lbs lines ft -> 0 <= h -> 0 <= v_xtop v -> v_xtop v + h <= 2147483647 ->
  log_at m kl lg -> (Z.to_nat h < fuel)%nat -> s_ctx s = 0 -> length (s_rows s) = Z.to_nat h ->
  exists evs, callx ext cprog fuel (S (S (S (S d)))) F_vi_drawagain [xcol; VInt (-1)] m = Ok (VUndef, mlog m kl (lg ++ evs)) /\
    s_rows (replay (Z.to_nat h) s evs) = win rowimg (row_img lines ft (v_xrow v) (v_xleft v) (v_xhll v) (v_xhl v) hl) (Z.to_nat (v_xtop v)) (Z.to_nat h).
Proof. intros ext kl h cols hl v bl bln lbs lines ft d fuel m lg xcol s Hk Hv Hm Hh Ht Hth. exact (tr_drawagain_window ext kl h cols hl Hk v bl bln lbs lines ft d fuel Hv m Hm Hh Ht Hth lg xcol s). Qed.
Print Assumptions C19_tr_drawagain_window.

(* vi_drawupdate(otop): term_pos(0, 0), term_room(otop - xtop), then exactly the min(|otop - xtop|, xrows) rows the scroll exposed, then
   vi_drawmsg; nothing when the top did not move *)
Theorem C19_tr_vi_drawupdate : forall ext kl h cols hl v bl bln lbs lines ft d fuel m lg otop,
  kernel_ok ext kl h cols hl -> v_ok v -> draw_mem m kl v bl bln lbs lines ft -> 0 <= h -> 0 <= v_xtop v -> v_xtop v + h <= 2147483647 ->
  log_at m kl lg -> (Z.to_nat h < fuel)%nat -> 0 <= otop <= 2147483647 ->
  callx ext cprog fuel (S (S (S (S d)))) F_vi_drawupdate [VInt otop] m
  = Ok (VUndef, mlog m kl (lg ++ update_evs (drawrow_evs lines ft (v_xtop v) (v_xrow v) (v_xleft v) (v_xhll v) (v_xhl v) hl) h otop (v_xtop v))).
Proof. intros ext kl h cols hl v bl bln lbs lines ft d fuel m lg otop Hk Hv Hm Hh Ht Hth. exact (tr_vi_drawupdate ext kl h cols hl Hk v bl bln lbs lines ft d fuel Hv m Hm Hh Ht Hth lg otop). Qed.
Print Assumptions C19_tr_vi_drawupdate.
(* ... and the invariant: the calls the C text makes turn the text rows that show the window of the buffer at the OLD top into the text
   rows that show the window at the NEW top (term_room scrolling the rows as DrawDefs.term_room does), for every old and new top, and no
   led_print lands outside the text rows *)
Theorem C19_tr_drawupdate_window : forall ext kl h cols hl v bl bln lbs lines ft d fuel m lg otop cur,
  kernel_ok ext kl h cols hl -> v_ok v -> draw_mem m kl v bl bln lbs lines ft -> 0 <= h -> 0 <= v_xtop v -> v_xtop v + h <= 2147483647 ->
  log_at m kl lg -> (Z.to_nat h < fuel)%nat -> 0 <= otop <= 2147483647 ->
  let f := row_img lines ft (v_xrow v) (v_xleft v) (v_xhll v) (v_xhl v) hl in
  exists evs, callx ext cprog fuel (S (S (S (S d)))) F_vi_drawupdate [VInt otop] m = Ok (VUndef, mlog m kl (lg ++ evs)) /\
    s_rows (replay (Z.to_nat h) (mkScr cur 0 (win rowimg f (Z.to_nat otop) (Z.to_nat h))) evs) = win rowimg f (Z.to_nat (v_xtop v)) (Z.to_nat h) /\
    forallb (print_inside (Z.to_nat h)) evs = true.
Proof. intros ext kl h cols hl v bl bln lbs lines ft d fuel m lg otop cur Hk Hv Hm Hh Ht Hth. exact (tr_drawupdate_window ext kl h cols hl Hk v bl bln lbs lines ft d fuel Hv m Hm Hh Ht Hth lg otop cur). Qed.
Print Assumptions C19_tr_drawupdate_window.

(* the hypotheses are satisfiable and the translated text RUNS: three lines "ab" "c" "d", a window of 2 rows; the kernel itself is the oracle *)
Definition retm (r : res (val * mem)) : option block := match r with Ok (_, m) => nth_error m ex_kl | Err _ => None end.
Example C19_tr_draw_runs :
  draw_mem (ex_mem 1 1 1) ex_kl (ex_v 1 1 1) ex_base (ex_base + 1) [ex_base + 2; ex_base + 3; ex_base + 4]%nat ex_lines [] /\
  (* the window moved down by one (otop 0 -> xtop 1): delete one line at the top, draw the bottom row (line 2: "d") *)
  retm (callx (term_kernel ex_kl 2 80 7) cprog 50 10 F_vi_drawupdate [VInt 0] (ex_mem 1 1 0))
    = Some (enc_log [TPos 0 0; TRoom (-1); TPrint [100; 10]%N 1 0 []; TCtx 0; TMsg]) /\
  (* the window moved up by five (otop 6 -> xtop 1): both rows are drawn, the cursor line (1: "c") under the highlight attribute 7 *)
  retm (callx (term_kernel ex_kl 2 80 7) cprog 50 10 F_vi_drawupdate [VInt 6] (ex_mem 1 1 1))
    = Some (enc_log [TPos 0 0; TRoom 5; TCtx 7; TPrint [99; 10]%N 0 0 []; TCtx 0; TPrint [100; 10]%N 1 0 []; TCtx 0; TMsg]) /\
  (* a full repaint at xtop 2: line 2 and the filler *)
  retm (callx (term_kernel ex_kl 2 80 7) cprog 50 10 F_vi_drawagain [VInt 0; VInt (-1)] (ex_mem 2 2 0))
    = Some (enc_log [TPrint [100; 10]%N 0 0 []; TCtx 0; TPrint [126]%N 1 0 []; TCtx 0; TMsg]) /\
  (* vi_scrollforward(5) from the top: clamped to the last line; vi_scrollbackward(1) at the top: refused *)
  option_map fst (match callx (term_kernel ex_kl 2 80 7) cprog 50 10 F_vi_scrollforward [VInt 5] (ex_mem 0 0 0) with Ok (r, m) => Some (r, (nth_error m G_xtop, nth_error m G_xrow)) | _ => None end) = Some (VInt 0) /\
  match callx (term_kernel ex_kl 2 80 7) cprog 50 10 F_vi_scrollforward [VInt 5] (ex_mem 0 0 0) with Ok (_, m) => (nth_error m G_xtop, nth_error m G_xrow) | _ => (None, None) end
    = (Some [VInt 2], Some [VInt 2]) /\
  option_map fst (match callx (term_kernel ex_kl 2 80 7) cprog 50 10 F_vi_scrollbackward [VInt 1] (ex_mem 0 0 0) with Ok (r, m) => Some (r, m) | _ => None end) = Some (VInt 1) /\
  scroll_fwd 3 0 0 5 = (0, 2, 2) /\ wfix 0 2 2 3 = (1, 2).
Proof. split; [exact (ex_draw_mem 1 1 1)|]. vm_compute. repeat split; reflexivity. Qed.
(* vi_drawfix(r1, r2, n, 0) (every call site but the preview of vi_change): term_record, term_pos(r1' - xtop, 0), term_room(r1' - r2' - 1 + n')
   with the clamped r1' r2' and the reduced n' of DrawDefs.drawfix, the rows below when lines disappeared, the replaced rows, term_commit
   (fix_evs, coq/TrDrawFix.v).  PARTIAL towards C19_fix_is_repaint: the calls are proved; that their replay equals DrawDefs.drawfix is
   not proved in Coq yet (the event list is the model's, term for term). *)
Theorem C19_tr_vi_drawfix_partial : forall ext kl h cols hl v bl bln lbs lines ft d fuel m lg r1 r2 n,
  kernel_ok ext kl h cols hl -> v_ok v -> draw_mem m kl v bl bln lbs lines ft -> 1 <= h -> 0 <= v_xtop v -> v_xtop v + h <= 2147483647 ->
  log_at m kl lg -> (Z.to_nat h < fuel)%nat ->
  i32b r1 -> i32b r2 -> 0 <= n -> i32b (r2 - r1) -> i32b (r2 - r1 + 1) -> i32b (n - (r2 - r1 + 1)) -> i32b (v_xtop v - r1) -> i32b (n - (v_xtop v - r1)) ->
  v_xtop v + h + n <= 2147483647 ->
  callx ext cprog fuel (S (S (S (S d)))) F_vi_drawfix [VInt r1; VInt r2; VInt n; VInt 0] m
  = Ok (VUndef, mlog m kl (lg ++ fix_evs (drawrow_evs lines ft (v_xtop v) (v_xrow v) (v_xleft v) (v_xhll v) (v_xhl v) hl) h (v_xtop v) r1 r2 n)).
Proof. intros ext kl h cols hl v bl bln lbs lines ft d fuel m lg r1 r2 n Hk Hv Hm Hh Ht Hth. exact (tr_vi_drawfix ext kl h cols hl Hk v bl bln lbs lines ft d fuel Hv m Hm Hh Ht Hth lg r1 r2 n). Qed.
Print Assumptions C19_tr_vi_drawfix_partial.
(* it runs: vi_drawfix(1, 1, 0, 0) (one line gone at row 1) on the three-line buffer, window of 2 rows at the top: one line deleted at
   row 1, then row 1 redrawn from the buffer as it stands (the example memory is not edited: line 1 is still "c") *)
Example C19_tr_drawfix_runs :
  retm (callx (term_kernel ex_kl 2 80 7) cprog 50 10 F_vi_drawfix [VInt 1; VInt 1; VInt 0; VInt 0] (ex_mem 0 0 0))
    = Some (enc_log [TRecord; TPos 1 0; TRoom (-1); TPrint [99; 10]%N 1 0 []; TCtx 0; TCommit]).
Proof. vm_compute. reflexivity. Qed.
Local Close Scope Z_scope.

(* ================= text direction and prompts; two windows after an ex command that wrote to the terminal =================
   (coq/DrawDirDefs.v DrawDirProps.v DrawSplitDefs.v DrawSplitProps.v; seeds C19i / C19j) *)
From NV Require Import DrawDirDefs DrawDirProps DrawSplitDefs DrawSplitProps.

(* the text direction option `td` is state of the editor; led_prompt() edits its line under td = +2 and puts the old value back
   on EVERY way out: the prompt answered with Enter, cancelled with ESC or ^C, or cut short by the end of the input *)
Theorem C19_prompt_preserves_td : forall pref post (s : ed), e_td (fst (led_prompt pref post s)) = e_td s.
Proof. exact prompt_preserves_td. Qed.
Print Assumptions C19_prompt_preserves_td.
Theorem C19_prompts_preserve_td : forall n (s : ed), e_td (prompts n s) = e_td s.
Proof. exact prompts_preserve_td. Qed.
Print Assumptions C19_prompts_preserve_td.
(* the variant that returns early for the cancelled prompt, before the option is put back, leaves td = +2 after every
   cancelled prompt (every line is then laid out left-to-right) *)
Theorem C19_prompt_early_return_forces_ltr : forall pref post (s : ed),
  snd (led_prompt_early pref post s) = None -> e_td (fst (led_prompt_early pref post s)) = 2%Z.
Proof. exact prompt_early_cancelled_forces_ltr. Qed.
Print Assumptions C19_prompt_early_return_forces_ltr.
Theorem C19_prompt_early_return_loses_td :
  exists s, e_td (fst (led_prompt_early [] [] s)) <> e_td s /\ e_td (fst (led_prompt [] [] s)) = e_td s.
Proof. exact prompt_early_loses_td. Qed.
Print Assumptions C19_prompt_early_return_loses_td.

(* the row image is a function of (td, xleft, xcols, line): after ANY number of prompts, answered or cancelled, the partial
   redraws (vi_drawupdate, vi_drawfix) run under the td the rows on the screen were drawn with and leave the full repaint *)
Theorem C19_update_after_prompts_is_repaint : forall (G : Type) (blank : list (option G)) n (s : ed) xleft xcols
    (lines : nat -> rline G) h otop xtop,
  drawupdate _ blank (row_img G (e_td (prompts n s)) xleft xcols lines) h otop xtop
             (win _ (row_img G (e_td s) xleft xcols lines) otop h)
  = win _ (row_img G (e_td s) xleft xcols lines) xtop h.
Proof. exact update_after_prompts_is_repaint. Qed.
Print Assumptions C19_update_after_prompts_is_repaint.
Theorem C19_fix_after_prompts_is_repaint : forall (G : Type) (blank : list (option G)) k (s : ed) xleft xcols
    (old new : nat -> rline G) W h r1 e n,
  1 <= h -> r1 <= e ->
  (forall i, i < r1 -> new i = old i) ->
  (forall j, new (r1 + n + j) = old (e + j)) ->
  fix_pre W h r1 e n ->
  drawfix _ blank (row_img G (e_td (prompts k s)) xleft xcols new) W h (Z.of_nat r1) (Z.of_nat e - 1) (Z.of_nat n)
          (win _ (row_img G (e_td s) xleft xcols old) W h)
  = win _ (row_img G (e_td s) xleft xcols new) W h.
Proof. exact fix_after_prompts_is_repaint. Qed.
Print Assumptions C19_fix_after_prompts_is_repaint.

(* the terminal cursor (vi_pos of the line's base direction under td) is on the cell led_render's off[] gives the character at
   that visual position -- either base direction, every td, every xleft; lines of single-width characters at distinct positions *)
Theorem C19_cursor_cell_holds_char : forall (G : Type) td xleft xcols (l : rline G) p g,
  (0 <= xcols)%Z -> simple_chars G (l_chars G l) -> In (p, 1%Z, g) (l_chars G l) -> (xleft <= p < xleft + xcols)%Z ->
  nth (Z.to_nat (vi_pos (line_dir G td l) p xleft xcols)) (render_row G td xleft xcols l) None = Some g.
Proof. exact cursor_cell_holds_char. Qed.
Print Assumptions C19_cursor_cell_holds_char.
(* non-vacuity: a line whose first letter makes it right-to-left, 6 columns: under the default td it is drawn from the right
   edge with the cursor of its first character in column 5; under td = +2 from the left edge, cursor in column 0 *)
Example C19_nonvacuous_rtl :
  let l := mkLine N true (Some (-1)%Z) [(0, 1, 97%N); (1, 1, 98%N)]%Z in
  render_row N 0 0 6 l = [None; None; None; None; Some 98%N; Some 97%N] /\
  render_row N 2 0 6 l = [Some 97%N; Some 98%N; None; None; None; None] /\
  vi_pos (line_dir N 0 l) 0 0 6 = 5%Z /\ vi_pos (line_dir N 2 l) 0 0 6 = 0%Z.
Proof. exact rtl_row_depends_on_td. Qed.

(* two windows (^Ws).  An ex command that writes to the terminal itself (`:w !cmd`, `:!cmd`, more than one printed line)
   ends at "[enter to continue]" with the scroll region reset to the whole screen and ANY rows on the screen (junk).  The
   repaint of the tail of vi() (mod = VC_ALL: the other window, then the active one) leaves: each window a true window of
   its buffer at its own top, both cursor lines inside their windows, the scroll region the active window's *)
Theorem C19_split_continue_repaint : forall (R : Type) (fa fo : nat -> R) msga msgo junk (s : sstate R),
  4 <= s_rows R s -> s_cur R s <= 1 -> length junk = s_rows R s ->
  (0 <= v_top (s_act R s))%Z -> (0 <= v_len (s_act R s))%Z -> (0 <= v_top (s_oth R s))%Z -> (0 <= v_len (s_oth R s))%Z ->
  split_inv R fa fo (tail_after_wait R true fa fo msga msgo junk s).
Proof. exact split_continue_repaint. Qed.
Print Assumptions C19_split_continue_repaint.
(* without the repaint (mod = 0) the invariant fails for EVERY screen: the region stays the whole screen *)
Theorem C19_split_continue_needs_repaint : forall (R : Type) (fa fo : nat -> R) msga msgo junk (s : sstate R),
  4 <= s_rows R s -> s_cur R s <= 1 ->
  ~ split_inv R fa fo (tail_after_wait R false fa fo msga msgo junk s).
Proof. exact split_continue_no_repaint. Qed.
Print Assumptions C19_split_continue_needs_repaint.
(* which command lines get it: all but exactly ":w"; `:w !cmd` does, and would not under "starts with :w" *)
Theorem C19_colon_repaints_all_but_w : forall ln, colon_repaints ln = false <-> ln = COLON_W.
Proof. exact colon_repaints_all_but_w. Qed.
Print Assumptions C19_colon_repaints_all_but_w.
Theorem C19_write_to_command_repaints : forall ln, write_to_command ln = true ->
  colon_repaints ln = true /\ colon_repaints_prefix ln = false.
Proof. exact write_to_command_repaints. Qed.
Print Assumptions C19_write_to_command_repaints.
(* non-vacuity: 8 rows, upper window active (top 2, cursor line 9: vi_wfix moves the top to 8), lower at top 0; the screen full of 99s *)
Example C19_nonvacuous_split :
  s_scr nat (tail_after_wait nat true (fun i => 100 + i) (fun i => 200 + i) 1 2 (repeat 99 8)
               (mkS nat 8 0 (mkView 2 9 30) (mkView 0 1 30) (0, 7) [])) = [108; 109; 110; 1; 200; 201; 202; 2] /\
  s_region nat (tail_after_wait nat true (fun i => 100 + i) (fun i => 200 + i) 1 2 (repeat 99 8)
               (mkS nat 8 0 (mkView 2 9 30) (mkView 0 1 30) (0, 7) [])) = (0, 3) /\
  s_region nat (tail_after_wait nat false (fun i => 100 + i) (fun i => 200 + i) 1 2 (repeat 99 8)
               (mkS nat 8 0 (mkView 2 9 30) (mkView 0 1 30) (0, 7) [])) = (0, 7).
Proof. vm_compute. repeat split; reflexivity. Qed.

(* ================= the column of the terminal cursor (fixes 216c15e, 11b9bf2 of /repo; coq/DrawCurDefs.v DrawCurProps.v) ================= *)
From NV Require Import DrawCurDefs DrawCurProps.

(* ren_cursor over ren_position's positions (pos_prev / pos_next as the loops of ren.c, the newline at the largest position).  The tail
   of vi() computes the cursor from the OFFSET: for n single-width characters at the positions 0 .. n-1 in ANY order (any reordering
   dir_reorder makes), the position handed to vi_pos is the position of the character at xoff -- the remembered column xcol, which
   j / k / n| keep, does not occur *)
Theorem C19_cursor_pos_is_char : forall ps xoff, wf_layout ps -> xoff < length ps ->
  cursor_pos ps (Z.of_nat (length ps)) xoff = nth xoff ps 0%Z.
Proof. exact cursor_pos_is_char. Qed.
Print Assumptions C19_cursor_pos_is_char.
(* ... so the terminal cursor is on the cell that shows the character commands act on: every reordering, either base direction,
   every td, xleft, xcols with the character inside the window *)
Theorem C19_cursor_from_offset_holds_char : forall (G : Type) td xleft xcols hi m ps (gs : list G) xoff d,
  wf_layout ps -> length gs = length ps -> xoff < length ps -> (0 <= xcols)%Z ->
  (xleft <= nth xoff ps 0 < xleft + xcols)%Z ->
  let l := mkLine G hi m (chars_of G ps gs) in
  nth (Z.to_nat (vi_pos (line_dir G td l) (cursor_pos ps (Z.of_nat (length ps)) xoff) xleft xcols)) (render_row G td xleft xcols l) None
  = Some (nth xoff gs d).
Proof. exact cursor_from_offset_holds_char. Qed.
Print Assumptions C19_cursor_from_offset_holds_char.
(* before 216c15e (cursor from xcol): on the reversed line "cba" with a remembered column beyond its end the motion ends on offset 2
   (shown at position 0) and the cursor goes to position 2 (character 0); on a line in buffer order the two agree *)
Example C19_cursor_from_xcol_other_char :
  col2off [2; 1; 0]%Z 3 10 = 2 /\ cursor_pos_xcol [2; 1; 0]%Z 3 10 = 2%Z /\ cursor_pos [2; 1; 0]%Z 3 2 = 0%Z /\
  col2off [0; 1; 2]%Z 3 10 = 2 /\ cursor_pos_xcol [0; 1; 2]%Z 3 10 = 2%Z /\ cursor_pos [0; 1; 2]%Z 3 2 = 2%Z.
Proof. exact cursor_from_xcol_other_char. Qed.
(* start-up: the xleft rule before the first paint puts the first character's cell inside the window and term_pos gets its exact
   column; without it a first character at or beyond the right margin gets the clamped column of another cell *)
Theorem C19_init_left_visible : forall xcol xcols, (1 <= xcols)%Z -> (0 <= xcol)%Z ->
  let l := init_left xcol xcols in (0 <= l /\ l <= xcol < l + xcols /\ term_col l xcols xcol = xcol - l)%Z.
Proof. exact init_left_visible. Qed.
Print Assumptions C19_init_left_visible.
Theorem C19_init_without_rule_clamps : forall xcol xcols, (1 <= xcols)%Z -> (xcols <= xcol)%Z ->
  term_col 0 xcols xcol = (xcols - 1)%Z /\ (xcols - 1 <> xcol - 0)%Z.
Proof. exact init_without_rule_clamps. Qed.
Print Assumptions C19_init_without_rule_clamps.

(* ^Wx (fix 9a0f0fa of /repo: the `^W x` case calls vi_switch(w_cur) right after vi_wswap(), so the tail's vi_wfix() works with the height of
   the half the window moved to): afterwards each window is a true window of its buffer, the region is the active window's and the cursor
   line is inside the new half -- any heights, any tops, any cursor rows *)
Theorem C19_wswap_keeps_inv : forall (R : Type) (fa fo : nat -> R) msga msgo (s : sstate R),
  4 <= s_rows R s -> s_cur R s <= 1 -> length (s_scr R s) = s_rows R s ->
  (0 <= v_top (s_act R s))%Z -> (0 <= v_len (s_act R s))%Z -> (0 <= v_top (s_oth R s))%Z -> (0 <= v_len (s_oth R s))%Z ->
  split_inv R fa fo (wswap_tail R true fa fo msga msgo s).
Proof. exact wswap_keeps_inv. Qed.
Print Assumptions C19_wswap_keeps_inv.
(* before it (vi_wfix() with the height of the half the window came from): on 2k+1 rows the halves have k-1 and k text rows; from the lower
   half with the cursor on its last row the invariant fails after ^Wx -- the cursor line is below the upper half *)
Theorem C19_wswap_unfixed_loses_cursor : forall (R : Type) (fa fo : nat -> R) msga msgo (s : sstate R) k,
  2 <= k -> s_rows R s = 2 * k + 1 -> s_cur R s = 1 -> s_region R s = geom (s_rows R s) 2 1 ->
  (0 <= v_top (s_act R s))%Z -> (v_row (s_act R s) = v_top (s_act R s) + Z.of_nat k - 1)%Z -> (v_row (s_act R s) < v_len (s_act R s))%Z ->
  ~ split_inv R fa fo (wswap_tail R false fa fo msga msgo s).
Proof. exact wswap_unfixed_loses_cursor. Qed.
Print Assumptions C19_wswap_unfixed_loses_cursor.
(* non-vacuity: 11 rows, lower window active at top 0 with the cursor on line 5 (its last row): with the fix the top moves to 1 *)
Example C19_nonvacuous_wswap :
  v_top (s_act nat (wswap_tail nat true (fun i => i) (fun i => i) 0 0 (mkS nat 11 1 (mkView 0 4 30) (mkView 0 0 30) (5, 5) (repeat 0 11)))) = 1%Z /\
  v_top (s_act nat (wswap_tail nat false (fun i => i) (fun i => i) 0 0 (mkS nat 11 1 (mkView 0 4 30) (mkView 0 0 30) (5, 5) (repeat 0 11)))) = 0%Z /\
  s_region nat (wswap_tail nat true (fun i => i) (fun i => i) 0 0 (mkS nat 11 1 (mkView 0 4 30) (mkView 0 0 30) (5, 5) (repeat 0 11))) = (0, 4).
Proof. vm_compute. repeat split; reflexivity. Qed.
