(* Properties_C19.v -- C19: the terminal shows a true window of the buffer with the cursor on its
   character.  Statements only; every proof is `exact <lemma>` (DrawProps.v); Print Assumptions
   under each.  Rows are abstract (`f i` = what vi_drawrow draws for absolute row i); the terminal
   primitives are the list operations of the emulator (TermEmu.v) that interprets the real stream. *)
From Coq Require Import List Arith ZArith Bool.
From NV Require Import Bytes TermEmu DrawDefs DrawProps.
Import ListNotations.

(* emulator lemmas of the scroll algebra: delete / insert line in the text region [0,h) of a
   screen text ++ rest (rest = message row) act on the text rows only, as list operations *)
Theorem C19_emu_delete_lines : forall (A : Type) (blank : A) h r n (text rest : list A),
  length text = h -> r < h ->
  del_lines blank 0 h r n (text ++ rest) =
  (firstn r text ++ skipn (r + Nat.min n (h - r)) text ++ repeat blank (Nat.min n (h - r))) ++ rest.
Proof. exact emu_delete_lines. Qed.
Print Assumptions C19_emu_delete_lines.
Theorem C19_emu_insert_lines : forall (A : Type) (blank : A) h r n (text rest : list A),
  length text = h -> r < h ->
  ins_lines blank 0 h r n (text ++ rest) =
  (firstn r text ++ repeat blank (Nat.min n (h - r)) ++ firstn (h - r - Nat.min n (h - r)) (skipn r text)) ++ rest.
Proof. exact emu_insert_lines. Qed.
Print Assumptions C19_emu_insert_lines.

(* vi_drawupdate: scrolling by insert/delete line and drawing only the exposed rows leaves exactly
   the full repaint at the new top -- any old top, new top, window height, row contents *)
Theorem C19_update_is_repaint : forall (R : Type) (blank : R) (f : nat -> R) h otop xtop,
  drawupdate R blank f h otop xtop (win R f otop h) = win R f xtop h.
Proof. exact drawupdate_is_repaint. Qed.
Print Assumptions C19_update_is_repaint.

(* vi_drawfix(r1, e-1, n, 0) after lines r1 .. e-1 were replaced by n lines: the screen that showed
   the old rows shows the full repaint of the new rows, provided the call lies in fix_pre (the
   change starts inside the window -- not a pure insertion on its first row --, or starts above it
   and removes lines, or lies wholly below it) *)
Theorem C19_fix_is_repaint : forall (R : Type) (blank : R) (old new : nat -> R) W h r1 e n,
  1 <= h -> r1 <= e ->
  (forall i, i < r1 -> new i = old i) ->
  (forall k, new (r1 + n + k) = old (e + k)) ->
  fix_pre W h r1 e n ->
  drawfix R blank new W h (Z.of_nat r1) (Z.of_nat e - 1) (Z.of_nat n) (win R old W h) = win R new W h.
Proof. exact drawfix_is_repaint. Qed.
Print Assumptions C19_fix_is_repaint.
(* the same for a list buffer and its splice *)
Theorem C19_fix_splice_is_repaint : forall (R : Type) (blank : R) (line : Type) (img : option line -> R)
    (buf ins : list line) W h r1 e,
  1 <= h -> r1 <= e -> e <= length buf -> fix_pre W h r1 e (length ins) ->
  let f (b : list line) := fun i => img (nth_error b i) in
  drawfix R blank (f (firstn r1 buf ++ ins ++ skipn e buf)) W h (Z.of_nat r1) (Z.of_nat e - 1) (Z.of_nat (length ins))
          (win R (f buf) W h)
  = win R (f (firstn r1 buf ++ ins ++ skipn e buf)) W h.
Proof. exact drawfix_splice_is_repaint. Qed.
Print Assumptions C19_fix_splice_is_repaint.
(* the precondition is needed: vi_drawfix(0,-1,0,0) -- the call vi_change made after a character-wise change on an
   empty buffer before fix 835c133 -- lies outside fix_pre and damages a correct screen *)
Theorem C19_fix_pre_needed : exists (f : nat -> nat) h, 1 <= h /\
  drawfix nat 0 f 0 h 0%Z (-1)%Z 0%Z (win nat f 0 h) <> win nat f 0 h.
Proof. exact fix_pre_needed. Qed.
Print Assumptions C19_fix_pre_needed.

(* the redraw decision at the tail of vi(): full redraw, one-line redraw, or scroll + highlight rows *)
Theorem C19_tail_is_repaint : forall (R : Type) (blank : R) (g f : nat -> R) h (mr mw lc hll : bool) otop xtop orow xrow,
  xtop <= xrow < xtop + h ->
  (if mr || mw || lc
   then (if mr && negb lc && (xtop =? otop) then forall i, i <> xrow -> i <> orow -> f i = g i else True)
   else forall i, (hll = true /\ xrow <> orow -> i <> xrow /\ i <> orow) -> f i = g i) ->
  redraw_tail R blank f h mr mw lc hll otop xtop orow xrow (win R g otop h) = win R f xtop h.
Proof. exact tail_is_repaint. Qed.
Print Assumptions C19_tail_is_repaint.

(* vi_wfix: afterwards the cursor line is a buffer line inside the window, for every prior state *)
Theorem C19_window_follows : forall xtop xrow h len, (1 <= h)%Z -> (0 <= len)%Z -> (0 <= xtop)%Z ->
  let (t, r) := wfix xtop xrow h len in
  (t <= r < t + h /\ 0 <= t /\ 0 <= r /\ (0 < len -> r < len) /\ (len = 0 -> r = 0))%Z.
Proof. exact wfix_follows. Qed.
Print Assumptions C19_window_follows.
(* the xleft rule (steered by the cursor's own column wcol = vi_off2col(xb, xrow, xoff) since fix 232fd9e): the
   cursor's cell is inside [xleft, xleft + cols) and term_pos puts the terminal cursor exactly on it -- no side
   condition any more (before the fix the rule was steered by the column remembered by j/k, and this failed) *)
Theorem C19_window_follows_horizontal : forall xleft wcol cols, (1 <= cols)%Z -> (0 <= xleft)%Z -> (0 <= wcol)%Z ->
  let l := fix_left xleft wcol cols in (l <= wcol < l + cols)%Z /\ term_col l cols wcol = (wcol - l)%Z.
Proof. exact cursor_cell_visible. Qed.
Print Assumptions C19_window_follows_horizontal.

(* the command loop keeps "the text rows are the repaint of the current rows at the current top and
   the cursor line is in the window", for every sequence of commands whose bodies meet step_ok.
   _partial: step_ok is established for motions/scrolls (motion_step_ok) and for an edit repaired by
   vi_drawfix inside fix_pre (drawfix_step_ok); that every vc_* call site passes arguments describing
   the splice it made, and the insert-mode display (led_printparts, vi_nextline), are only explored
   by the run against the real binary.  Full statement intended: for every key sequence of the
   C07/C08 command set, coherent holds after every command. *)
Theorem C19_loop_partial : forall (R : Type) (blank : R) h (s : vstate R) (cs : list (step R)),
  coherent R h s -> steps_ok R blank h s cs -> coherent R h (run_steps R blank h s cs).
Proof. exact loop_coherent. Qed.
Print Assumptions C19_loop_partial.

(* the hypotheses are satisfiable: a 3-row window over rows 0.., two lines replaced by one at the
   second row, then a scroll by one *)
Example C19_nonvacuous :
  fix_pre 0 3 1 3 1 /\
  drawfix nat 99 (fun i => if i <? 1 then i else if i =? 1 then 77 else i + 1) 0 3 1%Z 2%Z 1%Z (win nat (fun i => i) 0 3)
    = [0; 77; 3] /\
  drawupdate nat 99 (fun i => i) 3 0 1 (win nat (fun i => i) 0 3) = [1; 2; 3].
Proof. split; [left; split; [split; repeat constructor|left; repeat constructor]|split; vm_compute; reflexivity]. Qed.
