(* Properties_C14.v -- C14: :s rewrites exactly the leftmost non-overlapping matches.
   Statements only; every proof is `exact <lemma>`.  The matcher is a parameter (any function from
   (rest of the line, NOTBOL) to group offsets); in the correspondence run it is /repo's rstr_find. *)
From Coq Require Import List NArith ZArith Bool.
From NV Require Import Bytes UcDefs UcSpec SubstDefs SubstProps SubstUtf8.
Import ListNotations.
Local Open Scope N_scope.

(* A rewritten line: old = g1 m1 c1 g2 m2 c2 ... tail and new = g1 r1 c1 g2 r2 c2 ... tail, where (Chain) the
   mi are the successive matches reported by the matcher scanning left to right -- the first search
   on the whole line, every later one on the rest of the line with RE_NOTBOL --, ri is the expanded
   replacement, ci is the one character stepped over after an empty match (else empty; see
   C14_empty_match_steps), the scan goes on only with flag g and while the rest is non-empty.
   Without g exactly one match is replaced. *)
Theorem C14_structure : forall find rep gflag line new,
  subst_line find rep gflag line = Changed new ->
  exists segs tail, segs <> [] /\ Chain find rep gflag false line segs tail /\
    line = flat_old segs ++ tail /\ new = flat_new segs ++ tail /\ (gflag = false -> length segs = 1%nat).
Proof. exact structure. Qed.
Print Assumptions C14_structure.

(* a line without a match is not touched (no edit is logged), and only such a line *)
Theorem C14_unchanged : forall find rep gflag line,
  subst_line find rep gflag line = Unchanged <-> find line false = None.
Proof. exact unchanged. Qed.
Print Assumptions C14_unchanged.

(* the scan always terminates within its fuel: every iteration consumes at least one byte *)
Theorem C14_terminates : forall find rep gflag line, subst_line find rep gflag line <> SFuel.
Proof. exact no_fuel. Qed.
Print Assumptions C14_terminates.

(* a line-start anchor matches only at the true line start: a matcher that reports nothing under
   RE_NOTBOL (a pattern anchored with ^) is applied at most once per line, even with g *)
Theorem C14_bol_once : forall find rep gflag line segs tail,
  (forall ln, find ln true = None) ->
  Chain find rep gflag false line segs tail -> (length segs <= 1)%nat.
Proof. exact bol_once. Qed.
Print Assumptions C14_bol_once.

(* \N of a group that did not take part expands to nothing *)
Theorem C14_unset_group : forall d rep2 ln offs, is_digit d = true ->
  nth (N.to_nat (d - 48)) offs unset = unset ->
  expand (92 :: d :: rep2) ln offs = expand rep2 ln offs.
Proof. exact unset_group. Qed.
Print Assumptions C14_unset_group.

(* \c stands for c *)
Theorem C14_escaped_byte : forall d rep2 ln offs, is_digit d = false ->
  expand (92 :: d :: rep2) ln offs = opt_app [d] (expand rep2 ln offs).
Proof. exact escaped_byte. Qed.
Print Assumptions C14_escaped_byte.

(* text that was valid UTF-8 stays valid UTF-8: for a line chars cs (its newline is the last scalar),
   a replacement chars rs and any matcher whose group offsets lie on character boundaries of the
   rest it was given (wf_find), the rewritten line is valid *)
Theorem C14_utf8 : forall find gflag cs rs new,
  wf_find find -> Forall scalar cs -> Forall scalar rs ->
  subst_line find (chars rs) gflag (chars cs) = Changed new -> valid new.
Proof. exact utf8_preserved. Qed.
Print Assumptions C14_utf8.

(* advance by one character after an empty match, and only then: in every segment cut by a match the
   stepped-over text c is one character (MAX(1, uc_len) bytes of the rest) when the matched text is
   empty -- wherever in the searched rest the match lies -- and is empty otherwise *)
Theorem C14_empty_match_steps : forall rep ln offs g m r c rest,
  match_seg rep ln offs (g, m, r, c) rest ->
  (m = [] -> (1 <= length c)%nat /\ step_char (c ++ rest) = Some (c, rest)) /\ (m <> [] -> c = []).
Proof. exact empty_match_steps. Qed.
Print Assumptions C14_empty_match_steps.

(* an empty pattern reuses the previous one: after s<d>p<d>... with a non-empty pattern p (free of the
   delimiter and of backslashes) a later s<d2><d2>... compiles p again; with nothing remembered it
   compiles nothing (error return) *)
Theorem C14_reuse : forall st d p tail d2 tail2, plain d p -> p <> [] ->
  setup_pat (setup_state st (d :: p ++ d :: tail)) (d2 :: d2 :: tail2) = Some p.
Proof. exact reuse. Qed.
Print Assumptions C14_reuse.
Theorem C14_reuse_nothing : forall d tail rep0, setup_pat (mk_sstate None rep0) (d :: d :: tail) = None.
Proof. exact setup_empty_none. Qed.
Print Assumptions C14_reuse_nothing.

(* a matcher that reports the empty match in front of the first "c" (used below) *)
Definition find_c (ln : bytes) (nb : bool) : option (list grp) :=
  (fix go (l : bytes) (i : Z) := match l with
     | [] => None
     | c :: l' => if c =? 99 then Some [(i, i)] else go l' (i + 1)%Z end) ln 0%Z.

(* non-vacuity: with a matcher for the literal "a" (first occurrence in the rest), s/a/[\0\1]/g turns
   "baa\n" into "b[a][a]\n" through a chain of two segments, and "bcd\n" is left alone *)
Definition find_a (ln : bytes) (nb : bool) : option (list grp) :=
  (fix go (l : bytes) (i : Z) := match l with
     | [] => None
     | c :: l' => if c =? 97 then Some [(i, (i + 1)%Z); unset] else go l' (i + 1)%Z end) ln 0%Z.
Example C14_nonvacuous :
  subst_line find_a [91; 92; 48; 92; 49; 93] true [98; 97; 97; 10] = Changed [98; 91; 97; 93; 91; 97; 93; 10] /\
  subst_line find_a [91; 92; 48; 92; 49; 93] false [98; 97; 97; 10] = Changed [98; 91; 97; 93; 97; 10] /\
  subst_line find_a [88] true [98; 99; 100; 10] = Unchanged /\
  (* an empty match to the right of the start of the rest is replaced once: "b c" -> "b Xc" *)
  subst_line find_c [88] true [98; 32; 99; 10] = Changed [98; 32; 88; 99; 10].
Proof. vm_compute. repeat split; reflexivity. Qed.

(* ------------------------------------------------------------------------------------------------
   Composition with the regex model (appended by the composition round; proofs in coq/ComposeSubst.v).
   The matcher is no longer a parameter: ComposeSubst.engine_find d ic pat is the MODEL of
     re = rstr_make(pat, xic ? RE_ICASE : 0);  rstr_find(re, ln, 16, offs, r ? RE_NOTBOL : 0) >= 0
   -- rstr.c's literal fast path (RstrDefs) for a simple pattern, rset_make / rset_find of the regex model
   (RsetDefs, ReVM; recursion limit d, any d) otherwise.  The hypothesis wf_find of C14_utf8 is discharged
   from C11_exec_bounds + C11_char_boundaries (0 <= so <= eo <= |text|, offsets on character boundaries) and,
   for the fast path, through C12_fastpath_engine. *)
From NV Require ComposeSubst RstrDefs.

(* valid UTF-8 in, valid UTF-8 out, with no hypothesis about the matcher: for every pattern chars pcs and replacement
   chars rs (valid UTF-8; the pattern holds no newline -- ex_arg_s ends an ex command at a newline) and every line
   chars cs ++ "\n" of valid UTF-8 whose only newline is the last byte, with or without g / ignore-case, at every
   recursion limit of the engine: the line ec_substitute writes back is valid UTF-8 *)
Theorem C14_utf8_engine : forall d ic gflag pcs rs cs new,
  Forall scalar pcs -> ~ In 10 pcs -> Forall scalar rs -> Forall scalar cs -> ~ In 10 cs ->
  subst_line (ComposeSubst.engine_find d ic (chars pcs)) (chars rs) gflag (chars (cs ++ [10])) = Changed new -> valid new.
Proof. exact ComposeSubst.utf8_engine. Qed.
Print Assumptions C14_utf8_engine.

(* a pattern that is not of the form [^][\<]literal[\>][$] goes to the general engine: there the hypothesis wf_find of
   C14_utf8 holds as it stands (any valid line, no newline conditions) *)
Theorem C14_wf_find_engine : forall d ic pcs, Forall scalar pcs -> RstrDefs.rstr_simple ic (chars pcs) = None ->
  wf_find (ComposeSubst.engine_find d ic (chars pcs)).
Proof. exact ComposeSubst.wf_find_general. Qed.
Print Assumptions C14_wf_find_engine.

Theorem C14_utf8_engine_general : forall d ic gflag pcs rs cs new,
  Forall scalar pcs -> RstrDefs.rstr_simple ic (chars pcs) = None -> Forall scalar rs -> Forall scalar cs ->
  subst_line (ComposeSubst.engine_find d ic (chars pcs)) (chars rs) gflag (chars cs) = Changed new -> valid new.
Proof. exact ComposeSubst.utf8_engine_general. Qed.
Print Assumptions C14_utf8_engine_general.

(* C14_structure over the modelled matcher: the chain of successive matches is a chain of answers of the modelled
   rstr_find (first search on the whole line, later ones on the rest with RE_NOTBOL), and every answer it can give on a
   newline-terminated valid text hands replace() sixteen pairs that are unset or whole-character spans inside that text *)
Theorem C14_structure_engine : forall d ic gflag pcs rep cs new,
  Forall scalar pcs -> ~ In 10 pcs -> Forall scalar cs -> ~ In 10 cs ->
  subst_line (ComposeSubst.engine_find d ic (chars pcs)) rep gflag (chars (cs ++ [10])) = Changed new ->
  (exists segs tail, segs <> [] /\
     Chain (ComposeSubst.engine_find d ic (chars pcs)) rep gflag false (chars (cs ++ [10])) segs tail /\
     chars (cs ++ [10]) = flat_old segs ++ tail /\ new = flat_new segs ++ tail /\ (gflag = false -> length segs = 1%nat)) /\
  (forall l0 nb offs, Forall scalar l0 -> ~ In 10 l0 ->
     ComposeSubst.engine_find d ic (chars pcs) (chars (l0 ++ [10])) nb = Some offs -> Forall (wf_grp (l0 ++ [10])) offs).
Proof. exact ComposeSubst.structure_engine. Qed.
Print Assumptions C14_structure_engine.

(* non-vacuity over the modelled engine: s/a*b/[\0]/g on "xaab ab" (general engine), s/é/e/ on "café" (fast path) *)
Example C14_engine_nonvacuous :
  subst_line (ComposeSubst.engine_find 256 false (chars [97; 42; 98])) (chars [91; 92; 48; 93]) true (chars ([120; 97; 97; 98; 32; 97; 98] ++ [10]))
    = Changed (chars [120; 91; 97; 97; 98; 93; 32; 91; 97; 98; 93; 10]) /\
  subst_line (ComposeSubst.engine_find 256 false (chars [233])) (chars [101]) false (chars ([99; 97; 102; 233] ++ [10]))
    = Changed (chars [99; 97; 102; 101; 10]).
Proof. exact ComposeSubst.engine_nonvacuous. Qed.

(* ------------------------------------------------------------------------------------------------
   RE_NOTBOL (round e/f; proofs in coq/SubstNotbol.v, vocabulary in coq/SubstEngineDefs.v).  ec_substitute hands
   RE_NOTBOL to rstr_find on every search after the first replacement of a line.  The property wants that flag to
   mean "a line-start anchor does not hold at the first byte of this rest" and NOTHING else: every other way to
   match -- an unanchored alternative of  ^A|B , any match further right -- must still be found. *)
From NV Require SubstNotbol SubstEngineDefs ReVM ReSyntax RsetDefs.

(* the atom level, exactly: under REG_NOTBOL the atom ^ at offset 0 fails; every other atom at every offset, and ^ at
   every other offset (after an embedded newline), answers as without the flag -- for every flag word, text, atom, offset *)
Theorem C14_notbol_atom : forall flg line a p,
  ReVM.ratom_match (Z.lor flg GenConsts.REG_NOTBOL) line a p =
  if SubstNotbol.bol_at_0 a p then ReSyntax.Ok None else ReVM.ratom_match flg line a p.
Proof. exact SubstNotbol.ratom_match_notbol. Qed.
Print Assumptions C14_notbol_atom.

(* an attempt of the backtracking machine (re_recmatch: result AND number of depth cuts) that starts to the right of the
   first byte is the same with and without the flag, for every program, recursion limit and text; so is regexec's loop
   over the later start positions *)
Theorem C14_notbol_later_attempt : forall d P flg line o, (1 <= o <= length line)%nat ->
  ReVM.re_recmatch d P (Z.lor flg GenConsts.REG_NOTBOL) line o = ReVM.re_recmatch d P flg line o.
Proof. exact SubstNotbol.recmatch_notbol_later. Qed.
Print Assumptions C14_notbol_later_attempt.
Theorem C14_notbol_later_starts : forall d P flg line k o s, (1 <= s)%nat ->
  ReVM.re_loop d P (Z.lor flg GenConsts.REG_NOTBOL) line k o s = ReVM.re_loop d P flg line k o s.
Proof. exact SubstNotbol.loop_notbol_later. Qed.
Print Assumptions C14_notbol_later_starts.

(* at any start position: the flag only removes choice paths.  An attempt that fails without the flag fails with it, and
   a match whose choice path is a path of the semantics under the flag (no ^ passed at offset 0) is reported unchanged *)
Theorem C14_notbol_keeps_failure : forall d P flg line o c, ReVM.re_recmatch d P flg line o = (ReVM.Fail, c) ->
  exists c', ReVM.re_recmatch d P (Z.lor flg GenConsts.REG_NOTBOL) line o = (ReVM.Fail, c').
Proof. exact SubstNotbol.recmatch_notbol_fail. Qed.
Print Assumptions C14_notbol_keeps_failure.
Theorem C14_notbol_keeps_match : forall d P flg line o cs r c, ReVM.re_recmatch d P flg line o = (ReVM.Found cs r, c) ->
  ReVM.path ReVM.st (ReVM.atom_step (Z.lor flg GenConsts.REG_NOTBOL) line) ReVM.mark_step P 0 (o, repeat (-1)%Z ReVM.nmarks) cs r ->
  exists c', ReVM.re_recmatch d P (Z.lor flg GenConsts.REG_NOTBOL) line o = (ReVM.Found cs r, c').
Proof. exact SubstNotbol.recmatch_notbol_found. Qed.
Print Assumptions C14_notbol_keeps_match.

(* rstr_find: the "anchored at the line start, but not at the line start: no match" shortcut belongs to the literal leg.
   A pattern rstr_simple does not take (an alternation, a group, a repetition, ...) is answered by rset_find with the
   flags untouched, whatever its TEXT begins with *)
Theorem C14_notbol_shortcut_literal_only : forall d ic pat ln nb, RstrDefs.rstr_simple ic pat = None ->
  ComposeSubst.engine_find d ic pat ln nb = SubstEngineDefs.general_find d ic pat ln nb.
Proof. exact SubstNotbol.engine_find_general. Qed.
Print Assumptions C14_notbol_shortcut_literal_only.

(* the matcher of ec_substitute on a compiled pattern: when no match at the first byte of the searched rest needs ^ to
   hold there (SubstEngineDefs.start_indifferent: the attempt there fails even with ^ allowed, or the match it reports is
   reached without passing ^ at offset 0 -- the unanchored alternative of  ^A|B ), the answer under RE_NOTBOL is the
   answer without it: same match, same sixteen group pairs.  Every recursion limit, ignore-case on or off, any text. *)
Theorem C14_notbol_engine : forall d ic pat ln rs, RstrDefs.rstr_simple ic pat = None ->
  RsetDefs.rset_make [Some pat] (SubstEngineDefs.icflag ic) = ReSyntax.Ok (Some rs) -> SubstEngineDefs.start_indifferent d rs ln ->
  ComposeSubst.engine_find d ic pat ln true = ComposeSubst.engine_find d ic pat ln false.
Proof. exact SubstNotbol.engine_find_notbol. Qed.
Print Assumptions C14_notbol_engine.

(* non-vacuity, pattern ^a|b: both cases of start_indifferent occur ("cbab": nothing at the first byte, the b at offset 1
   is found under RE_NOTBOL; "bab": the b AT the first byte is found under RE_NOTBOL, path [true] through the second
   alternative), and through the scan  s/^a|b/X/g  turns "abab" into "XXaX",  s/^ +| +$//g  "  ab cd  " into "ab cd",
   s/^é|ü/_/g  "éaüaü" into "_a_a_", while the wholly anchored  s/^a+/X/g  rewrites "aaa" to "X" *)
Example C14_notbol_nonvacuous :
  (exists rs, RsetDefs.rset_make [Some SubstNotbol.ex_pat] (SubstEngineDefs.icflag false) = ReSyntax.Ok (Some rs) /\
    RstrDefs.rstr_simple false SubstNotbol.ex_pat = None /\
    (exists c, SubstEngineDefs.first_attempt 256 rs [99; 98; 97; 98; 10] = (ReVM.Fail, c)) /\
    ComposeSubst.engine_find 256 false SubstNotbol.ex_pat [99; 98; 97; 98; 10] true = Some ((1, 2)%Z :: repeat unset 15) /\
    SubstEngineDefs.start_indifferent 256 rs [98; 97; 98; 10] /\
    ComposeSubst.engine_find 256 false SubstNotbol.ex_pat [98; 97; 98; 10] true = Some ((0, 1)%Z :: repeat unset 15)) /\
  subst_line (ComposeSubst.engine_find 256 false SubstNotbol.ex_pat) [88] true [97; 98; 97; 98; 10] = Changed [88; 88; 97; 88; 10] /\
  subst_line (ComposeSubst.engine_find 256 false [94; 32; 43; 124; 32; 43; 36]) [] true [32; 32; 97; 98; 32; 99; 100; 32; 32; 10]
    = Changed [97; 98; 32; 99; 100; 10] /\
  subst_line (ComposeSubst.engine_find 256 false (chars [94; 233; 124; 252])) [95] true (chars [233; 97; 252; 97; 252; 10])
    = Changed [95; 97; 95; 97; 95; 10] /\
  subst_line (ComposeSubst.engine_find 256 false [94; 97; 43]) [88] true [97; 97; 97; 10] = Changed [88; 10].
Proof. exact SubstNotbol.notbol_nonvacuous. Qed.

(* ------------------------------------------------------------------------------------------------
   Where the g flag comes from (round g/h; proofs in coq/SubstArgProps.v, vocabulary in coq/SubstArgDefs.v).
   ec_substitute reads  <d>pattern<d>replacement<d>flags  with re_read twice and then looks for the byte g in what is
   left.  units d u: u is a sequence of units -- a byte that is neither the delimiter d nor a backslash, or a backslash
   TOGETHER WITH the byte after it (any byte); unesc d u: what re_read stores for it (\<d> loses its backslash, every
   other unit, \\ included, is copied).  setup_g st arg = the flag the scan loop of SubstDefs.subst_line is run with,
   setup_xrep st arg = the replacement it is run with. *)
From NV Require Import SubstArgDefs.
From NV Require SubstArgProps.

(* re_read: units up to the delimiter give their unescaped text and leave what follows the delimiter *)
Theorem C14_re_read_units : forall d u tail, d <> 92 -> units d u -> re_read_loop d (u ++ d :: tail) = (unesc d u, tail).
Proof. exact SubstArgProps.re_read_loop_units. Qed.
Print Assumptions C14_re_read_units.

(* every text is units, or units and a last lone backslash, or units up to a first unescaped delimiter: the three
   shapes the theorems below speak about cover every argument *)
Theorem C14_arg_shapes : forall d s, d <> 92 ->
  exists u, units d u /\ (s = u \/ s = u ++ [92] \/ exists tail, s = u ++ d :: tail).
Proof. exact SubstArgProps.decompose. Qed.
Print Assumptions C14_arg_shapes.

(* a delimiter behind an even run of backslashes closes (the run is the end of the pattern / of the replacement);
   behind an odd run it is an escaped delimiter and the text goes on *)
Theorem C14_even_backslashes_then_delimiter : forall d u k tail, d <> 92 -> units d u ->
  re_read_loop d (u ++ bs (2 * k) ++ d :: tail) = (unesc d u ++ bs (2 * k), tail).
Proof. exact SubstArgProps.even_run_closes. Qed.
Print Assumptions C14_even_backslashes_then_delimiter.
Theorem C14_odd_backslashes_then_byte : forall d u k tail, d <> 92 -> units d u ->
  re_read_loop d (u ++ bs (2 * k + 1) ++ tail) =
  match tail with
  | [] => (unesc d u ++ bs (2 * k + 1), [])
  | x :: tail' => let (t, r) := re_read_loop d tail' in
                  (unesc d u ++ bs (2 * k) ++ (if x =? d then [x] else [92; x]) ++ t, r)
  end.
Proof. exact SubstArgProps.odd_run_escapes. Qed.
Print Assumptions C14_odd_backslashes_then_byte.

(* the three fields of a complete argument *)
Theorem C14_args_closed : forall d p r flags, d <> 92 -> units d p -> units d r ->
  subst_args (d :: p ++ d :: r ++ d :: flags) = (Some (unesc d p), Some (unesc d r), flags).
Proof. exact SubstArgProps.subst_args_closed. Qed.
Print Assumptions C14_args_closed.

(* THE FLAG: for any pattern p and any replacement r -- whatever bytes they are made of, the letter g included -- the scan
   runs with g exactly when the byte g stands in the text AFTER the closing delimiter of the replacement, and the
   replacement it expands is the unescaped r *)
Theorem C14_gflag_after_replacement : forall st d p r flags, d <> 92 -> units d p -> units d r ->
  setup_g st (d :: p ++ d :: r ++ d :: flags) = has_g flags /\
  setup_xrep st (d :: p ++ d :: r ++ d :: flags) = unesc d r.
Proof. exact SubstArgProps.gflag_closed. Qed.
Print Assumptions C14_gflag_after_replacement.

(* changing the replacement never changes the flag *)
Theorem C14_gflag_indep_of_replacement : forall st d p r r' flags, d <> 92 -> units d p -> units d r -> units d r' ->
  setup_g st (d :: p ++ d :: r ++ d :: flags) = setup_g st (d :: p ++ d :: r' ++ d :: flags).
Proof. exact SubstArgProps.gflag_indep_of_replacement. Qed.
Print Assumptions C14_gflag_indep_of_replacement.

(* no closing delimiter after the replacement (s/p/r, s/p/r\, s/p, s/p\): no g, whatever p and r hold *)
Theorem C14_gflag_needs_closing_delimiter : forall st d p r, d <> 92 -> units d p -> units d r ->
  setup_g st (d :: p ++ d :: r) = false /\ setup_g st (d :: p ++ d :: r ++ [92]) = false /\
  setup_g st (d :: p) = false /\ setup_g st (d :: p ++ [92]) = false.
Proof. exact SubstArgProps.gflag_open. Qed.
Print Assumptions C14_gflag_needs_closing_delimiter.

(* the complete statement, for EVERY argument string whose delimiter is not a backslash *)
Theorem C14_gflag_iff : forall st d s, d <> 92 ->
  (setup_g st (d :: s) = true <->
   exists p r flags, units d p /\ units d r /\ s = p ++ d :: r ++ d :: flags /\ In 103 flags).
Proof. exact SubstArgProps.gflag_iff. Qed.
Print Assumptions C14_gflag_iff.

(* non-vacuity: s/cat/dog/ has no g although the replacement holds one, s/cat/dog/g has; s/a/\g/ , s/x/gg (no closing
   delimiter) and s/g/X/ have none; s/a\\/g/ : the pattern is a\\ , the replacement g, no flag; s/a\\/X/g : flag;
   and through the scan with the literal matcher find_a:  s/a/g/ on "baa" rewrites the first a only *)
Example C14_gflag_nonvacuous :
  let st := mk_sstate None [] in
  setup_g st [47; 99;97;116; 47; 100;111;103; 47] = false /\ setup_g st [47; 99;97;116; 47; 100;111;103; 47; 103] = true /\
  setup_g st [47; 97; 47; 92;103; 47] = false /\ setup_g st [47; 120; 47; 103;103] = false /\
  setup_g st [47; 103; 47; 88; 47] = false /\
  subst_args [47; 97;92;92; 47; 103; 47] = (Some [97;92;92], Some [103], []) /\
  subst_args [47; 97;92;92; 47; 88; 47; 103] = (Some [97;92;92], Some [88], [103]) /\
  units 47 [100;111;103] /\ units 47 [97;92;92] /\
  subst_line find_a (setup_xrep st [47; 97; 47; 103; 47]) (setup_g st [47; 97; 47; 103; 47]) [98; 97; 97; 10] = Changed [98; 103; 97; 10].
Proof.
  vm_compute. repeat split; try reflexivity.
  - repeat (apply U_chr; [discriminate|discriminate|]). apply U_nil.
  - apply U_chr; [discriminate|discriminate|]. apply U_esc. apply U_nil.
Qed.

(* ---- re_read of rset.c (translated: GenCFuncs.F_re_read / cf_re_read) is the model SubstDefs.re_read, coq/TrRset.v ----------
   The theorems above (C14_reuse, the argument theorems) speak about the hand-written re_read / re_read_loop; this one ties
   the model to the C TEXT of re_read: tools/c2clite.py prints clang's AST of the function as a CLite term (CLite.v fixes
   what the term means: checked loads and stores, loops on fuel) and, for EVERY NUL-free command string in memory, every
   offset o where *src points and every delimiter byte below 128, running the body gives
     - NULL and an unchanged memory when *src is at the terminator (model: None);
     - otherwise a block that starts with the cells of the model's text and the terminator, *src moved to the offset o'
       with skipn o' s = the model's rest (behind the closing delimiter, or at the terminator when it is missing), every
       older block other than the one holding *src unchanged; every load was inside the string and its terminator.
   WHICH bytes are appended and WHERE the scan stops is the whole content: a backslash followed by the delimiter drops the
   backslash, a backslash followed by anything else keeps both (and steps over both), the scan stops at the unescaped
   delimiter.  The statement is RELATIVE to the string buffer: `sbuf_iface call m0 p Rep BOUND` says that the calls of
   sbuf_make / sbuf_chr / sbuf_done (whatever `call` runs for them) create a buffer, append one cell to it and hand it
   over, leaving older blocks alone (TrRset.sbuf_iface; the translated sbuf.c itself is the subject of coq/TrSbuf.v).
   A delimiter byte of 128..255 is excluded: the C text compares the plain char *s with the (unsigned char) delimiter, so
   where char is signed such a delimiter is never found again (see design.d/C14.md). *)
From NV Require CLite CLiteProps GenCFuncs TrRset.
Theorem C14_tr_re_read : forall call m0 p Rep BOUND, TrRset.sbuf_iface call m0 p Rep BOUND ->
  forall b (s : bytes) bp op (blk : CLite.block) o fuel,
  CLiteProps.str_at m0 b s -> nonul s ->
  nth_error m0 bp = Some blk -> (0 <= op)%Z -> nth_error blk (Z.to_nat op) = Some (CLite.VPtr b (Z.of_nat o)) ->
  (o <= length s)%nat -> nthb s o < 128 -> (length s <= BOUND)%nat -> (length s < fuel)%nat ->
  match re_read (skipn o s) with
  | None => CLite.exec call fuel (CLite.fn_body GenCFuncs.cf_re_read) (CLite.mkst [CLite.VPtr bp op; CLite.VUndef; CLite.VUndef; CLite.VUndef] m0)
            = CLite.OReturn (CLite.VInt 0) (CLite.mkst [CLite.VPtr bp op; CLite.VUndef; CLite.VPtr b (Z.of_nat o + 1); CLite.VInt 0] m0)
  | Some (txt, rest) =>
      exists bo m' tail o' st',
      CLite.exec call fuel (CLite.fn_body GenCFuncs.cf_re_read) (CLite.mkst [CLite.VPtr bp op; CLite.VUndef; CLite.VUndef; CLite.VUndef] m0)
        = CLite.OReturn (CLite.VPtr bo 0) st' /\
      CLite.memm st' = m' /\
      nth_error m' bo = Some (map TrRset.cell txt ++ CLite.VInt 0 :: tail) /\ (length m0 <= bo)%nat /\
      nth_error m' bp = Some (CLiteProps.upd blk (Z.to_nat op) (CLite.VPtr b (Z.of_nat o'))) /\ (o' <= length s)%nat /\ skipn o' s = rest /\
      forall b', (b' < length m0)%nat -> b' <> bp -> nth_error m' b' = nth_error m0 b'
  end.
Proof. exact TrRset.re_read_scan. Qed.
Print Assumptions C14_tr_re_read.

(* the translated re_read RUNS, with the translated sbuf.c under it (vm_compute of the CLite interpreter on a memory of two
   blocks: the string, the pointer *src; TrRset.rr_run returns the string handed back and the new *src), and agrees with the
   model on:  /a\\/x  (seeded change C13g: the escaped backslash before the closing delimiter must not swallow it: text a\\ ,
   *src behind the second / ),  /a\/b/  (escaped delimiter: a/b),  /a\c  (no closing delimiter: a\c, *src at the terminator),
   and the empty string (NULL, *src unchanged) *)
Example C14_tr_re_read_runs :
  TrRset.rr_run [47; 97; 92; 92; 47; 120] 300 = Some (Some [97; 92; 92]%Z, CLite.VPtr 0 5) /\
  re_read [47; 97; 92; 92; 47; 120] = Some ([97; 92; 92], [120]) /\
  TrRset.rr_run [47; 97; 92; 47; 98; 47] 300 = Some (Some [97; 47; 98]%Z, CLite.VPtr 0 6) /\
  re_read [47; 97; 92; 47; 98; 47] = Some ([97; 47; 98], []) /\
  TrRset.rr_run [47; 97; 92; 99] 300 = Some (Some [97; 92; 99]%Z, CLite.VPtr 0 4) /\
  re_read [47; 97; 92; 99] = Some ([97; 92; 99], []) /\
  TrRset.rr_run [] 300 = Some (None, CLite.VPtr 0 0) /\ re_read [] = None.
Proof. repeat split; vm_compute; reflexivity. Qed.

(* ---- the same on the heap: the interface above is instantiated with the theorems about the translated sbuf.c (coq/TrSbuf.v:
   tr_sbuf_make, tr_sbuf_chr, tr_sbuf_done; adapter coq/TrRsetSbuf.v), so this statement is about the CALL of the translated
   re_read with the real malloc / memcpy / free of sbuf.c under it, for EVERY memory m: block b holds the NUL-free string s,
   cell op of block bp (the caller's `char *s`, whose address is passed) points to offset o of it, the delimiter s[o] is
   below 128, |s| <= 5*10^8 (so that sbuf's NEXTSZ stays inside int).  Model None: NULL, memory unchanged.  Model Some (txt,
   rest): the result points to the start of a FRESH block (index >= length m) that begins with the cells of txt and the
   terminator, *src points to the offset o' with skipn o' s = rest, every other block that existed at the call is unchanged. *)
From NV Require TrRsetSbuf.
Theorem C14_tr_re_read_heap : forall m b (s : bytes) bp op (blk : CLite.block) o d fuel,
  CLiteProps.str_at m b s -> nonul s ->
  nth_error m bp = Some blk -> (0 <= op)%Z -> nth_error blk (Z.to_nat op) = Some (CLite.VPtr b (Z.of_nat o)) ->
  (o <= length s)%nat -> nthb s o < 128 -> (length s <= TrRsetSbuf.RR_BOUND)%nat -> (length s < fuel)%nat ->
  match re_read (skipn o s) with
  | None => CLite.callf GenCFuncs.cprog fuel (S (S (S (S d)))) GenCFuncs.F_re_read [CLite.VPtr bp op] m = CLite.Ok (CLite.VInt 0, m)
  | Some (txt, rest) =>
      exists bo m' tail o',
      CLite.callf GenCFuncs.cprog fuel (S (S (S (S d)))) GenCFuncs.F_re_read [CLite.VPtr bp op] m = CLite.Ok (CLite.VPtr bo 0, m') /\
      nth_error m' bo = Some (map TrRset.cell txt ++ CLite.VInt 0 :: tail) /\ (length m <= bo)%nat /\
      nth_error m' bp = Some (CLiteProps.upd blk (Z.to_nat op) (CLite.VPtr b (Z.of_nat o'))) /\ (o' <= length s)%nat /\ skipn o' s = rest /\
      forall b', (b' < length m)%nat -> b' <> bp -> nth_error m' b' = nth_error m b'
  end.
Proof. exact TrRsetSbuf.tr_re_read. Qed.
Print Assumptions C14_tr_re_read_heap.

(* the hypotheses are satisfiable: the memory of C14_tr_re_read_runs ( /a\\/x in block 0, *src in block 1 ) *)
Example C14_tr_re_read_heap_nonvacuous :
  let s := [47; 97; 92; 92; 47; 120] in let m := [CLite.cstr_block (CLiteProps.zb s); [CLite.VPtr 0 0]] in
  CLiteProps.str_at m 0 s /\ nonul s /\ nth_error m 1 = Some [CLite.VPtr 0 (Z.of_nat 0)] /\ nthb s 0 < 128 /\
  (length s <= TrRsetSbuf.RR_BOUND)%nat /\ Z.of_nat TrRsetSbuf.RR_BOUND = 500000000%Z /\
  re_read (skipn 0 s) = Some ([97; 92; 92], [120]).
Proof.
  cbv zeta. split; [reflexivity|]. split; [repeat constructor|]. split; [reflexivity|]. split; [reflexivity|].
  split; [|split; [exact TrRsetSbuf.RR_BOUND_Z|reflexivity]].
  apply Nat2Z.inj_le. rewrite TrRsetSbuf.RR_BOUND_Z. vm_compute. discriminate.
Qed.

(* ---- replace() and the per-line loop of ec_substitute (ex.c, translated: GenCFuncs.cf_replace / cf_ec_substitute,
   whitelist tools/c2clite.d/99z_subst.list) are SubstDefs.expand and SubstDefs.subst_line, coq/TrSubst.v ----------------------
   Everything above about `expand`, `one_match`, `scan`, `subst_line` speaks about the hand-written model; the two theorems
   below tie that model to the C TEXT of ex.c.  The string buffer under both is the translated sbuf.c (coq/TrSbuf.v: malloc,
   memcpy, free of CLite; every load, store and memcpy is checked against its block), uc_len is the translated uc.c
   (coq/TrUcCode.v).  The matcher stays a parameter on both sides: the calls of rstr_find written in ex.c are calls to the
   untranslated index X_rstr_find, answered by an oracle `ext` (CLiteExt.callx).

   Vocabulary (TrSubst): cstr_in m b o s = block b holds from cell o on the bytes of s and the terminator (anything may
   follow: the array xrep[EXLEN]);  sb_inv m p cs = block p is a live struct sbuf holding the cells cs with sbuf.c's capacity
   rule (the byte the model sees is the cell modulo 256: TrSbuf.byte_of);  apart m p b = block b exists and is neither the
   struct nor its data block;  pairs offl = the int array offs[] read as (so, eo) pairs;  refs rep = the group numbers the
   replacement refers to;  refs_ptr_ok o n rep offs = for every such group the pointer ln + offs[2g] that replace() hands to
   memcpy, and the end of the range, lie inside the block of the line (0 <= o + so, o + eo <= n + 1). *)
From NV Require CLiteExt TrSbuf TrSubst.

(* replace(dst, rep, ln, offs): for EVERY NUL-free replacement in memory (at any cell of any block), every line, every
   offset o of ln into it, every 32 ints of offs and every buffer contents cs: when the model expands the replacement to t
   (backslash-digit = the text of that group, nothing for an empty or unset one; backslash-other = that byte; a lone last
   backslash and every other byte, & included, = itself), the call returns and dst holds cs followed by cells whose bytes are
   t; only the buffer changed.  expand = Some t says that every group referred to has offs[2g+1] - offs[2g] >= 0 and lies,
   when not empty, inside the rest of the line: the NEGATIVE length that the defect repaired by f74e779 handed to memcpy
   makes the model answer None and is outside this theorem (C14_tr_replace_runs shows the translated replace ending in an
   error on such a pair).  refs_ptr_ok is a condition for empty / unset groups only (for a group with text it follows from
   expand = Some): ln + (-1) must still point into the line's block, i.e. ln is not the first byte of its allocation --
   CLite's memcpy, like the C standard, wants a valid pointer even for length 0 (see design.d/C14.md). *)
Theorem C14_tr_replace : forall m p cs br ro rep bl line o bo offl t d fuel,
  TrSubst.sb_inv m p cs -> TrSubst.cstr_in m br ro rep -> nonul rep ->
  CLiteProps.str_at m bl line -> CLiteProps.bytes_lt256 line -> (o <= length line)%nat -> (Z.of_nat (length line) < 2147483647)%Z ->
  CLiteProps.int_arr_at m bo offl -> length offl = 32%nat -> CLiteProps.ints_ok offl ->
  TrSubst.apart m p br -> TrSubst.apart m p bl -> TrSubst.apart m p bo ->
  expand rep (skipn o line) (TrSubst.pairs offl) = Some t -> TrSubst.refs_ptr_ok o (length line) rep (TrSubst.pairs offl) ->
  (Z.of_nat (length cs) + Z.of_nat (length t) <= 500000000)%Z -> (length rep < fuel)%nat ->
  exists m' cells,
    CLite.callf GenCFuncs.cprog fuel (S (S (S d))) GenCFuncs.F_replace
      [CLite.VPtr p 0; CLite.VPtr br ro; CLite.VPtr bl (Z.of_nat o); CLite.VPtr bo 0] m = CLite.Ok (CLite.VUndef, m') /\
    TrSubst.sb_inv m' p (cs ++ cells) /\ map TrSbuf.byte_of cells = t /\ TrSbuf.sbuf_step m m' p.
Proof. exact TrSubst.tr_replace. Qed.
Print Assumptions C14_tr_replace.

(* the translated replace RUNS (vm_compute of the CLite interpreter: sbuf_make, replace, sbuf_buf on the memory
   [rep; line; offs]; TrSubst.rp_run):  <\1&\2>  on "hello world" with offs = (0,11) (0,5) (6,11) and thirteen unset pairs
   gives  <hello&world>  (& is an ordinary byte), the model says the same;  \3 (unset) expands to nothing when ln is at
   offset 1 of the line and is the error EOob of the checked memcpy when ln is the first byte of the block (ln - 1);
   the pair (5,3) -- a negative length, the case of f74e779 -- ends in an error and the model answers None *)
Example C14_tr_replace_runs :
  let line := [104;101;108;108;111;32;119;111;114;108;100;10] in
  let offl := ([0; 11; 0; 5; 6; 11] ++ repeat (-1) 26)%Z in
  TrSubst.rp_run [60;92;49;38;92;50;62] line 0 offl 100 = CLite.Ok [60;104;101;108;108;111;38;119;111;114;108;100;62] /\
  expand [60;92;49;38;92;50;62] line (TrSubst.pairs offl) = Some [60;104;101;108;108;111;38;119;111;114;108;100;62] /\
  TrSubst.rp_run [92;51] line 1 offl 100 = CLite.Ok [] /\ TrSubst.rp_run [92;51] line 0 offl 100 = CLite.Err CLite.EOob /\
  (exists e, TrSubst.rp_run [92;49] line 0 ([0;11;5;3] ++ repeat (-1) 28)%Z 100 = CLite.Err e) /\
  expand [92;49] line (TrSubst.pairs ([0;11;5;3] ++ repeat (-1) 28)%Z) = None.
Proof.
  cbv zeta. do 4 (split; [vm_compute; reflexivity|]). split; [eexists; vm_compute; reflexivity|vm_compute; reflexivity].
Qed.

(* THE LOOP of one line:  while (rstr_find(re, ln, 16, offs, r ? RE_NOTBOL : 0) >= 0) { if (!r) r = sbuf_make();
   sbuf_mem(r, ln, offs[0]); replace(r, xrep, ln, offs); ln += offs[1]; if (offs[1] <= offs[0]) { l = MAX(1, uc_len(ln));
   sbuf_mem(r, ln, l); ln += l; }  if (!*ln || *ln == '\n' || !strchr(s, 'g')) break; }  and then  sbuf_str(r, ln)
   (TrSubst.es_while, es_str; TrSubst.es_shape: the body of ec_substitute's for loop IS these pieces).
   m0 = ANY memory at the entry: the NUL-free line in block bl (at most 500 MB), the NUL-free replacement in the global
   xrep, offs = a block of 32 cells with arbitrary contents, the cell of `s` pointing to the NUL-free flags text; the locals
   the loop does not read are arbitrary.  For EVERY oracle ext and EVERY model matcher find such that the oracle's answer to
   rstr_find(re, ln at offset o, 16, offs, RE_NOTBOL or 0) is find's answer on (the rest of the line from o, notbol) written
   into offs (TrSubst.find_oracle), and the groups the replacement refers to point into the line's block
   (TrSubst.find_ptr_ok, see above), with g = the byte g occurs in the flags text:
     - the model leaves the line alone: the loop ends with r == NULL and ln at the start (the if (r) block is skipped);
     - the model rewrites the line to `new` (<= 500 MB): after the loop and sbuf_str the buffer r, allocated after the entry,
       holds cells whose bytes are exactly `new`
   and (TrSubst.Ctx) memory only grew, every block of the entry other than offs is as it was.  The first search is made
   with flags 0, every later one with RE_NOTBOL; the gap, the replacement and -- after an empty match, and only then --
   MAX(1, uc_len) bytes are appended; without g the loop stops after one match.  The model's outcome SOOB (offsets outside
   the rest, a character cut by the end of the line) is outside the statement. *)
Theorem C14_tr_subst_line : forall ext find m0 bl bo bsp bs rb rz fo (line rep flags : bytes) d fuel a0 a1 a2 a3 a6 a7 a8 a9 a11,
  CLiteProps.str_at m0 bl line -> nonul line -> (Z.of_nat (length line) <= 500000000)%Z ->
  TrSubst.cstr_in m0 GenCFuncs.G_xrep 0 rep -> nonul rep ->
  nth_error m0 bsp = Some [CLite.VPtr bs fo] -> TrSubst.cstr_in m0 bs fo flags -> nonul flags ->
  (bo < length m0)%nat -> (exists blk0, nth_error m0 bo = Some blk0 /\ length blk0 = 32%nat) ->
  bl <> bo /\ GenCFuncs.G_xrep <> bo /\ bsp <> bo /\ bs <> bo ->
  TrSubst.find_oracle ext find bl bo rb rz line -> TrSubst.find_ptr_ok find line rep ->
  forall lv, (S (length line) <= fuel)%nat -> (length rep < fuel)%nat ->
  let st o r l m := CLite.mkst [a0; a1; a2; a3; CLite.VPtr rb rz; CLite.VPtr bo 0; a6; a7; a8; a9; CLite.VPtr bsp 0; a11;
                                CLite.VPtr bl (Z.of_nat o); r; l] m in
  match subst_line find rep (has_g flags) line with
  | Unchanged =>
      exists lv' mk', CLite.exec (CLiteExt.callx ext GenCFuncs.cprog fuel (S (S (S d)))) fuel TrSubst.es_while (st 0%nat (CLite.VInt 0) lv m0)
                      = CLite.ONormal (st 0%nat (CLite.VInt 0) lv' mk') /\ TrSubst.Ctx m0 bo mk'
  | Changed new =>
      (Z.of_nat (length new) <= 500000000)%Z ->
      exists o' p lv' mk' cells,
        CLite.exec (CLiteExt.callx ext GenCFuncs.cprog fuel (S (S (S d)))) fuel (CLite.SSeq TrSubst.es_while TrSubst.es_str) (st 0%nat (CLite.VInt 0) lv m0)
        = CLite.ONormal (st o' (CLite.VPtr p 0) lv' mk') /\ TrSubst.Ctx m0 bo mk' /\
        TrSubst.Rinv m0 mk' p cells /\ map TrSbuf.byte_of cells = new
  | SOOB | SFuel => True
  end.
Proof. exact TrSubst.subst_line_ok. Qed.
Print Assumptions C14_tr_subst_line.

(* the pieces ARE the C text: the body of the for loop of the translated ec_substitute *)
Theorem C14_tr_loop_is_c_text : TrSubst.es_line =
  CLite.SSeq (CLite.SExpr (CLite.ESetLocal 12 (CLite.ECall GenCFuncs.F_lbuf_get [CLite.ECall GenCFuncs.F_ex_lbuf []; CLite.ELocal 11])))
    (CLite.SSeq (CLite.SExpr (CLite.ESetLocal 13 (CLite.EConst 0)))
       (CLite.SSeq TrSubst.es_while
          (CLite.SIf (CLite.ELocal 13)
             (CLite.SSeq TrSubst.es_str (CLite.SSeq TrSubst.es_edit (CLite.SExpr (CLite.ECall GenCFuncs.F_sbuf_free [CLite.ELocal 13])))) CLite.SSkip))).
Proof. exact TrSubst.es_shape. Qed.
Print Assumptions C14_tr_loop_is_c_text.

(* the oracle hypothesis is satisfiable for every matcher that answers with sixteen pairs of ints: TrSubst.ext_find find decodes
   the rest of the line from the memory, asks find and writes the pairs into offs *)
Theorem C14_tr_oracle_exists : forall find bl bo rb rz line, nonul line -> TrSubst.find_wf16 find ->
  TrSubst.find_oracle (TrSubst.ext_find find) find bl bo rb rz line.
Proof. exact TrSubst.ext_find_oracle. Qed.
Print Assumptions C14_tr_oracle_exists.

(* the translated loop RUNS under such an oracle (TrSubst.sl_run: the program's globals with xrep := the replacement, the
   line, offs[32] indeterminate, the flags; loop, sbuf_str, sbuf_buf) and agrees with the model:  s/a/[\0]/g  and  s/a/[\0]/
   on "baa",  s/a/X/g on "bc" (r stays NULL),  an empty match in front of every 0xC3 with g on "x" e-acute e-acute "y" (the
   two-byte characters are stepped over whole: seeded/C14a steps one byte) *)
Example C14_tr_subst_line_runs :
  TrSubst.sl_run (TrSubst.find_byte1 97) [91;92;48;93] [103] [98;97;97;10] 100 = CLite.Ok (Some [98;91;97;93;91;97;93;10]) /\
  subst_line (TrSubst.find_byte1 97) [91;92;48;93] (has_g [103]) [98;97;97;10] = Changed [98;91;97;93;91;97;93;10] /\
  TrSubst.sl_run (TrSubst.find_byte1 97) [91;92;48;93] [] [98;97;97;10] 100 = CLite.Ok (Some [98;91;97;93;97;10]) /\
  subst_line (TrSubst.find_byte1 97) [91;92;48;93] (has_g []) [98;97;97;10] = Changed [98;91;97;93;97;10] /\
  TrSubst.sl_run (TrSubst.find_byte1 97) [88] [103] [98;99;10] 100 = CLite.Ok None /\
  subst_line (TrSubst.find_byte1 97) [88] (has_g [103]) [98;99;10] = Unchanged /\
  TrSubst.sl_run (TrSubst.find_before 195) [45] [103] [120;195;169;195;169;121;10] 100 = CLite.Ok (Some [120;45;195;169;45;195;169;121;10]) /\
  subst_line (TrSubst.find_before 195) [45] (has_g [103]) [120;195;169;195;169;121;10] = Changed [120;45;195;169;45;195;169;121;10] /\
  TrSubst.find_wf16 (TrSubst.find_byte1 97).
Proof.
  do 8 (split; [vm_compute; reflexivity|]). exact (TrSubst.find_byte1_wf16 97).
Qed.

(* ---- the argument handling of ec_substitute on the C text (coq/TrSubstArgs.v): WHERE `s` STANDS when the loop above asks
   strchr(s, 'g').  The three statements   pat = re_read(&s);  if (pat && pat[0]) ex_kwdset(pat, +1);
   if (pat && *s) { s--; rep = re_read(&s); }   (TrSubstArgs.ea_pat, ea_kwd, ea_rep; ea_shape: they ARE statements 5..7 of
   the translated ec_substitute) are run with the translated re_read on the translated sbuf.c (C14_tr_re_read_heap) and an
   oracle for ex_kwdset that writes only its own globals (kblocks).  For EVERY NUL-free argument string (delimiter below 128,
   at most 5*10^8 bytes) the outcome is SubstDefs.subst_args:
     - empty argument: nothing read, `s` untouched;
     - <d>pattern with nothing behind a closing delimiter: pat = the model's pattern text, rep == NULL, `s` at the terminator;
     - <d>pattern<d>replacement...: pat and rep hold the model's texts and `s` points to the offset o2 with
       skipn o2 arg = the third component of subst_args = the text BEHIND the closing delimiter of the replacement (the
       flags) -- so has_g flags in C14_tr_subst_line is C14_gflag_*'s setup_g: a g inside the replacement is never seen
       (seeded/C14h reads the flag between the two re_read calls: ea_shape and es_shape no longer hold).
   The second re_read starts at the closing delimiter of the pattern (s--): arg[o1 - 1] is the delimiter because the first scan
   stopped there (TrRset.rr_stop_at).  Blocks of the entry other than `s`, `pat` and ex_kwdset's globals are unchanged. *)
From NV Require TrSubstArgs.
Theorem C14_tr_subst_args : forall ext m0 ba bsp bp8 kblocks d fuel a0 a1 a2 a3 a4 a5 a6 a7 a11 a12 a13 a14,
  nth_error m0 bsp = Some [CLite.VPtr ba 0] -> nth_error m0 bp8 = Some [CLite.VInt 0] ->
  bsp <> bp8 /\ ba <> bsp /\ ba <> bp8 ->
  ~ In ba kblocks /\ ~ In bsp kblocks /\ ~ In bp8 kblocks /\ Forall (fun b => (b < length m0)%nat) kblocks ->
  (forall args m, exists v m', ext GenCFuncs.X_ex_kwdset args m = CLite.Ok (v, m') /\ length m' = length m /\
                    forall b, ~ In b kblocks -> nth_error m' b = nth_error m b) ->
  forall arg : bytes, CLiteProps.str_at m0 ba arg -> nonul arg -> nthb arg 0 < 128 ->
  (length arg <= TrRsetSbuf.RR_BOUND)%nat -> (length arg < fuel)%nat ->
  let st r m := CLite.mkst [a0; a1; a2; a3; a4; a5; a6; a7; CLite.VPtr bp8 0; r; CLite.VPtr bsp 0; a11; a12; a13; a14] m in
  exists rv m',
    CLite.exec (CLiteExt.callx ext GenCFuncs.cprog fuel (S (S (S (S d))))) fuel
      (CLite.SSeq TrSubstArgs.ea_pat (CLite.SSeq TrSubstArgs.ea_kwd TrSubstArgs.ea_rep)) (st (CLite.VInt 0) m0) = CLite.ONormal (st rv m') /\
    CLiteProps.str_at m' ba arg /\ (length m0 <= length m')%nat /\
    (forall b, (b < length m0)%nat -> b <> bsp -> b <> bp8 -> ~ In b kblocks -> nth_error m' b = nth_error m0 b) /\
    match subst_args arg with
    | (None, _, _) => rv = CLite.VInt 0 /\ nth_error m' bp8 = Some [CLite.VInt 0] /\ nth_error m' bsp = Some [CLite.VPtr ba 0]
    | (Some pat, None, _) =>
        rv = CLite.VInt 0 /\ nth_error m' bsp = Some [CLite.VPtr ba (Z.of_nat (length arg))] /\
        exists bpat tail, nth_error m' bp8 = Some [CLite.VPtr bpat 0] /\ nth_error m' bpat = Some (map TrRset.cell pat ++ CLite.VInt 0 :: tail)
    | (Some pat, Some rep, flags) =>
        exists o2 bpat tail brep tail',
          nth_error m' bsp = Some [CLite.VPtr ba (Z.of_nat o2)] /\ (o2 <= length arg)%nat /\ skipn o2 arg = flags /\
          nth_error m' bp8 = Some [CLite.VPtr bpat 0] /\ nth_error m' bpat = Some (map TrRset.cell pat ++ CLite.VInt 0 :: tail) /\
          rv = CLite.VPtr brep 0 /\ nth_error m' brep = Some (map TrRset.cell rep ++ CLite.VInt 0 :: tail')
    end.
Proof. exact TrSubstArgs.subst_args_ok. Qed.
Print Assumptions C14_tr_subst_args.

Theorem C14_tr_args_are_c_text :
  TrSubstArgs.nth_seq 5 (CLite.fn_body GenCFuncs.cf_ec_substitute) = TrSubstArgs.ea_pat /\
  TrSubstArgs.nth_seq 6 (CLite.fn_body GenCFuncs.cf_ec_substitute) = TrSubstArgs.ea_kwd /\
  TrSubstArgs.nth_seq 7 (CLite.fn_body GenCFuncs.cf_ec_substitute) = TrSubstArgs.ea_rep.
Proof. exact TrSubstArgs.ea_shape. Qed.
Print Assumptions C14_tr_args_are_c_text.

(* what lbuf_edit is handed after the loop: sbuf_buf(r) terminates the text inside the allocation and returns the start of
   the data block, which holds the cells of the new line followed by the terminator (TrSbuf.tr_sbuf_buf under the invariant
   of C14_tr_subst_line's buffer) *)
Theorem C14_tr_buf_handed_over : forall m p cs d fuel, TrSubst.sb_inv m p cs ->
  exists b m' rest, CLite.callf GenCFuncs.cprog fuel (S (S d)) GenCFuncs.F_sbuf_buf [CLite.VPtr p 0] m = CLite.Ok (CLite.VPtr b 0, m') /\
    nth_error m' b = Some (map CLite.VInt cs ++ CLite.VInt 0 :: rest) /\ TrSbuf.sbuf_step m m' p.
Proof. exact TrSubst.sb_buf. Qed.
Print Assumptions C14_tr_buf_handed_over.

(* ------------------------------------------------------------------------------------------------
   Round i/j: the remembered pattern (xkwd, xkwddir) between the ADDRESSES of :s and the command itself
   (model coq/SubstAddrDefs.v, proofs coq/SubstAddrProps.v, order of the C text coq/TrSubstOrder.v).
   ex_region() evaluates a /re/ or ?re? address through ex_search(), which stores re in the same static buffer the command's
   own pattern goes to (ex_kwdset) and from which ec_substitute fetches the pattern it compiles (ex_kwd).  The model mirrors the
   order of the C text -- address first, then the command's own ex_kwdset, then ex_kwd -- for ex_kwd / ex_kwdset / ex_search /
   ex_lineno / ex_region and the head of ec_substitute (SubstAddrDefs.subst_head; its argument handling is SubstDefs.subst_args,
   the function C14_tr_subst_args ties to the C text), and the whole command over the list of lines (SubstAddrDefs.ec_subst: per
   line SubstDefs.subst_line, the function of C14_structure).  valid = rstr_make succeeds, find = the matcher (a parameter as
   everywhere in this file), buf = the lines with their newline; state = (xkwd, xkwddir, xrep, xrow); a_region answers
   Some (rejected, beg, end, state after the address) -- None is the model's out-of-fuel outcome of the address loop. *)
From NV Require Import SubstAddrDefs.
From NV Require SubstAddrProps TrSubstOrder.

(* A NON-EMPTY own pattern: behind ANY accepted address -- whatever searches it contained and whatever they stored -- the pattern
   compiled is the own pattern, the lines are those of the address, and afterwards the own pattern (direction +1) and the own
   replacement are what is remembered.  The state k1 the address left shows in the result only through the current row. *)
Theorem C14_addr_own_pattern : forall valid find buf loc arg k c p rep flags b e k1,
  subst_args arg = (Some (c :: p), rep, flags) ->
  a_region valid find buf loc k = Some (false, b, e, k1) ->
  let r := match rep with Some r => r | None => [] end in
  subst_head valid find buf loc arg k = Some (mk_kst (c :: p) 1 r (k_row k1), Some (b, e, c :: p, has_g flags)) /\
  ec_subst valid find buf loc arg k =
    Some (mk_kst (c :: p) 1 r (k_row k1),
          if valid (c :: p) then subst_rows find 0 b e (c :: p) r (has_g flags) buf else buf,
          if valid (c :: p) then 0%Z else 1%Z).
Proof.
  intros. split; [eapply SubstAddrProps.own_pattern; eassumption | eapply SubstAddrProps.own_pattern_cmd; eassumption].
Qed.
Print Assumptions C14_addr_own_pattern.

(* ... so two addresses that designate the same lines -- one numeric, one made of searches, typed in any state of the remembered
   pattern -- give the same buffer, the same return value and the same remembered pattern, direction and replacement *)
Theorem C14_addr_own_pattern_any_address : forall valid find buf loc loc' arg k k' c p rep flags b e k1 k1',
  subst_args arg = (Some (c :: p), rep, flags) ->
  a_region valid find buf loc k = Some (false, b, e, k1) ->
  a_region valid find buf loc' k' = Some (false, b, e, k1') ->
  exists s s' buf' ret,
    ec_subst valid find buf loc arg k = Some (s, buf', ret) /\
    ec_subst valid find buf loc' arg k' = Some (s', buf', ret) /\
    k_kwd s = c :: p /\ k_kwd s' = c :: p /\ k_dir s = 1%Z /\ k_dir s' = 1%Z /\ k_rep s = k_rep s'.
Proof. exact SubstAddrProps.own_pattern_any_address. Qed.
Print Assumptions C14_addr_own_pattern_any_address.

(* An EMPTY own pattern (s//rep/) and no argument at all (a bare s): what the ADDRESS left behind is compiled and stays remembered
   (nothing remembered = error return); the bare command keeps the remembered replacement as well and has no g flag *)
Theorem C14_addr_empty_pattern : forall valid find buf loc arg k rep flags b e k1,
  subst_args arg = (Some [], rep, flags) ->
  a_region valid find buf loc k = Some (false, b, e, k1) ->
  subst_head valid find buf loc arg k =
    Some (set_rep k1 (match rep with Some r => r | None => [] end),
          if (k_dir k1 =? 0)%Z then None else Some (b, e, k_kwd k1, has_g flags)).
Proof. exact SubstAddrProps.empty_pattern. Qed.
Print Assumptions C14_addr_empty_pattern.
Theorem C14_addr_bare_command : forall valid find buf loc k b e k1,
  a_region valid find buf loc k = Some (false, b, e, k1) ->
  subst_head valid find buf loc [] k = Some (k1, if (k_dir k1 =? 0)%Z then None else Some (b, e, k_kwd k1, false)).
Proof. exact SubstAddrProps.bare_command. Qed.
Print Assumptions C14_addr_bare_command.

(* a rejected address (failed search, lines outside the buffer): the command does nothing and remembers nothing of its own --
   what the searches of the address stored stays stored *)
Theorem C14_addr_rejected : forall valid find buf loc arg k b e k1,
  a_region valid find buf loc k = Some (true, b, e, k1) -> ec_subst valid find buf loc arg k = Some (k1, buf, 1%Z).
Proof. exact SubstAddrProps.rejected_address. Qed.
Print Assumptions C14_addr_rejected.

(* What an address leaves behind.  Without a / or ? in it: the remembered pattern, its direction and the replacement as they were
   (so  Ns//x/  after a substitution reuses that substitution's pattern).  /re/ or ?re? first, re non-empty and free of its
   delimiter and of backslashes, followed by anything without a further search (offsets, ",$", ";+1", ...): re with the direction
   of the delimiter -- found or not, accepted or not. *)
Theorem C14_addr_without_search_keeps : forall valid find buf loc k bad b e k1,
  SubstAddrProps.nosearch loc -> a_region valid find buf loc k = Some (bad, b, e, k1) ->
  k_kwd k1 = k_kwd k /\ k_dir k1 = k_dir k /\ k_rep k1 = k_rep k.
Proof. exact SubstAddrProps.region_nosearch. Qed.
Print Assumptions C14_addr_without_search_keeps.
Theorem C14_addr_search_stores : forall valid find buf k d re tail bad b e k1,
  (d = 47 \/ d = 63) -> plain d re -> re <> [] -> SubstAddrProps.nosearch tail ->
  a_region valid find buf (d :: re ++ d :: tail) k = Some (bad, b, e, k1) ->
  k_kwd k1 = re /\ k_dir k1 = (if d =? 47 then 1%Z else (-1)%Z) /\ k_rep k1 = k_rep k.
Proof. exact SubstAddrProps.region_search_first. Qed.
Print Assumptions C14_addr_search_stores.

(* the idiom /re/s//new/ : the address pattern IS the pattern compiled, and it stays remembered *)
Theorem C14_addr_search_then_empty_pattern : forall valid find buf k d re tail arg rep flags b e k1,
  (d = 47 \/ d = 63) -> plain d re -> re <> [] -> SubstAddrProps.nosearch tail ->
  subst_args arg = (Some [], rep, flags) ->
  a_region valid find buf (d :: re ++ d :: tail) k = Some (false, b, e, k1) ->
  exists k', subst_head valid find buf (d :: re ++ d :: tail) arg k = Some (k', Some (b, e, re, has_g flags)) /\ k_kwd k' = re.
Proof. exact SubstAddrProps.search_then_empty_pattern. Qed.
Print Assumptions C14_addr_search_then_empty_pattern.

(* the search as SECOND address,  <first>,/re/<tail>  or  <first>;/re/<tail>  (N,/re/  N;/re/  .,/re/+1 ...), <first> one address
   without a search: either <first> was refused before the search ran (an unset mark) and everything is as it was, or re is
   what the address leaves behind *)
Theorem C14_addr_search_second : forall valid find buf k c pre sep d re tail bad b e k1,
  SubstAddrProps.nosearch (c :: pre) -> SubstAddrProps.nosep (c :: pre) -> (sep = 44 \/ sep = 59) ->
  (d = 47 \/ d = 63) -> plain d re -> re <> [] -> SubstAddrProps.nosearch tail ->
  a_region valid find buf ((c :: pre) ++ sep :: d :: re ++ d :: tail) k = Some (bad, b, e, k1) ->
  (bad = true /\ k_kwd k1 = k_kwd k /\ k_dir k1 = k_dir k /\ k_rep k1 = k_rep k) \/
  (k_kwd k1 = re /\ k_dir k1 = (if d =? 47 then 1%Z else (-1)%Z) /\ k_rep k1 = k_rep k).
Proof. exact SubstAddrProps.region_search_second. Qed.
Print Assumptions C14_addr_search_second.

(* the model's out-of-fuel outcome does not occur: every round of the address loop consumes at least a separator, so ex_region's
   model and with it the whole command always answer *)
Theorem C14_addr_total : forall valid find buf loc arg k,
  a_region valid find buf loc k <> None /\ ec_subst valid find buf loc arg k <> None.
Proof. intros. split; [apply SubstAddrProps.region_total | apply SubstAddrProps.ec_subst_total]. Qed.
Print Assumptions C14_addr_total.

(* the head behind an accepted address IS SubstDefs.subst_setup (C14_reuse, the C14_gflag theorems) run on the state the address left *)
Theorem C14_addr_head_is_setup : forall valid find buf loc arg k b e k1,
  a_region valid find buf loc k = Some (false, b, e, k1) ->
  exists k', subst_head valid find buf loc arg k =
               Some (k', match snd (fst (subst_setup (to_sstate k1) arg)) with
                         | Some p => Some (b, e, p, snd (subst_setup (to_sstate k1) arg))
                         | None => None
                         end) /\
             to_sstate k' = fst (fst (subst_setup (to_sstate k1) arg)) /\ k_row k' = k_row k1.
Proof. exact SubstAddrProps.head_is_setup. Qed.
Print Assumptions C14_addr_head_is_setup.

(* THE C TEXT has this order: in the translated body of ec_substitute (GenCFuncs.cf_ec_substitute, printed by tools/c2clite.py)
   statement 4 is  if (ex_region(loc, &beg, &end)) return 1;  statements 5-7 read the pattern, call ex_kwdset for a non-empty one
   and read the replacement, 8-10 are the snprintf into xrep and the two free calls, 11 is  if (ex_kwd(&pat, NULL)) return 1;
   and 12 compiles what ex_kwd handed back.  Moving the ex_region call behind the argument handling (seed C14j) breaks this. *)
Theorem C14_tr_head_order :
  TrSubstOrder.nth_seq 4 (CLite.fn_body GenCFuncs.cf_ec_substitute) = TrSubstOrder.eo_region /\
  TrSubstOrder.nth_seq 5 (CLite.fn_body GenCFuncs.cf_ec_substitute) = TrSubstOrder.eo_pat /\
  TrSubstOrder.nth_seq 6 (CLite.fn_body GenCFuncs.cf_ec_substitute) = TrSubstOrder.eo_kwdset /\
  TrSubstOrder.nth_seq 7 (CLite.fn_body GenCFuncs.cf_ec_substitute) = TrSubstOrder.eo_rep /\
  (exists gx gf ge, TrSubstOrder.nth_seq 8 (CLite.fn_body GenCFuncs.cf_ec_substitute) = TrSubstOrder.eo_xrep gx gf ge) /\
  TrSubstOrder.nth_seq 9 (CLite.fn_body GenCFuncs.cf_ec_substitute) = TrSubstOrder.eo_free1 /\
  TrSubstOrder.nth_seq 10 (CLite.fn_body GenCFuncs.cf_ec_substitute) = TrSubstOrder.eo_free2 /\
  TrSubstOrder.nth_seq 11 (CLite.fn_body GenCFuncs.cf_ec_substitute) = TrSubstOrder.eo_kwd /\
  (exists gic, TrSubstOrder.nth_seq 12 (CLite.fn_body GenCFuncs.cf_ec_substitute) = TrSubstOrder.eo_make gic).
Proof. exact TrSubstOrder.head_order. Qed.
Print Assumptions C14_tr_head_order.

(* non-vacuity, with a matcher for literal patterns (first occurrence) on the buffer  top / x foo x / x bar x / x foo x  and nothing
   remembered, current row 0:
     /foo/s/x/y/        -> line 2 becomes "y foo x" (NOT "x y x"), "x" is remembered, direction +1
     /foo/s//y/         -> line 2 becomes "x y x", "foo" stays remembered
     1,/bar/s/x/y/g     -> lines 1-3, every x of them
     /foo/;/bar/s//Z/   -> two searches: the LAST one (bar) is reused; lines 2-3, only line 3 has it
     4;?bar?,.s//Q/     -> backwards: line 3 found from line 4, range 3,4; direction -1 stays
     /baz/s/x/y/        -> the search fails: nothing changes, "baz" is remembered and not "x"
     /foo/s/x/y/ and then 4s//z/  -> the second command reuses "x" on line 4 *)
Fixpoint prefix_b (p s : bytes) : bool :=
  match p, s with [], _ => true | x :: p', y :: s' => (x =? y) && prefix_b p' s' | _ :: _, [] => false end.
Fixpoint find_lit_at (pat ln : bytes) (i : Z) : option (list grp) :=
  match ln with
  | [] => None
  | _ :: r => if prefix_b pat ln then Some [(i, (i + Z.of_nat (length pat))%Z)] else find_lit_at pat r (i + 1)%Z
  end.
Definition find_lit (pat ln : bytes) (nb : bool) : option (list grp) := find_lit_at pat ln 0%Z.
Definition k_none : kst := mk_kst [] 0%Z [] 0%Z.
Definition buf4 : list bytes := [[116; 111; 112; 10]; [120; 32; 102; 111; 111; 32; 120; 10]; [120; 32; 98; 97; 114; 32; 120; 10]; [120; 32; 102; 111; 111; 32; 120; 10]].
Example C14_addr_nonvacuous :
  ec_subst (fun _ => true) find_lit buf4 [47; 102; 111; 111; 47] [47; 120; 47; 121; 47] k_none = Some (mk_kst [120] 1%Z [121] 0%Z, [[116; 111; 112; 10]; [121; 32; 102; 111; 111; 32; 120; 10]; [120; 32; 98; 97; 114; 32; 120; 10]; [120; 32; 102; 111; 111; 32; 120; 10]], 0%Z) /\
  ec_subst (fun _ => true) find_lit buf4 [47; 102; 111; 111; 47] [47; 47; 121; 47] k_none = Some (mk_kst [102; 111; 111] 1%Z [121] 0%Z, [[116; 111; 112; 10]; [120; 32; 121; 32; 120; 10]; [120; 32; 98; 97; 114; 32; 120; 10]; [120; 32; 102; 111; 111; 32; 120; 10]], 0%Z) /\
  ec_subst (fun _ => true) find_lit buf4 [49; 44; 47; 98; 97; 114; 47] [47; 120; 47; 121; 47; 103] k_none = Some (mk_kst [120] 1%Z [121] 0%Z, [[116; 111; 112; 10]; [121; 32; 102; 111; 111; 32; 121; 10]; [121; 32; 98; 97; 114; 32; 121; 10]; [120; 32; 102; 111; 111; 32; 120; 10]], 0%Z) /\
  ec_subst (fun _ => true) find_lit buf4 [47; 102; 111; 111; 47; 59; 47; 98; 97; 114; 47] [47; 47; 90; 47] k_none = Some (mk_kst [98; 97; 114] 1%Z [90] 1%Z, [[116; 111; 112; 10]; [120; 32; 102; 111; 111; 32; 120; 10]; [120; 32; 90; 32; 120; 10]; [120; 32; 102; 111; 111; 32; 120; 10]], 0%Z) /\
  ec_subst (fun _ => true) find_lit buf4 [52; 59; 63; 98; 97; 114; 63; 44; 46] [47; 47; 81; 47] k_none = Some (mk_kst [98; 97; 114] (-1)%Z [81] 3%Z, [[116; 111; 112; 10]; [120; 32; 102; 111; 111; 32; 120; 10]; [120; 32; 81; 32; 120; 10]; [120; 32; 102; 111; 111; 32; 120; 10]], 0%Z) /\
  ec_subst (fun _ => true) find_lit buf4 [47; 98; 97; 122; 47] [47; 120; 47; 121; 47] k_none = Some (mk_kst [98; 97; 122] 1%Z [] 0%Z, buf4, 1%Z) /\
  ec_subst (fun _ => true) find_lit [[116; 111; 112; 10]; [121; 32; 102; 111; 111; 32; 120; 10]; [120; 32; 98; 97; 114; 32; 120; 10]; [120; 32; 102; 111; 111; 32; 120; 10]] [52] [47; 47; 122; 47] (mk_kst [120] 1%Z [121] 0%Z) = Some (mk_kst [120] 1%Z [122] 0%Z, [[116; 111; 112; 10]; [121; 32; 102; 111; 111; 32; 120; 10]; [120; 32; 98; 97; 114; 32; 120; 10]; [122; 32; 102; 111; 111; 32; 120; 10]], 0%Z) /\
  a_region (fun _ => true) find_lit buf4 [47; 102; 111; 111; 47] k_none = Some (false, 1%Z, 2%Z, mk_kst [102; 111; 111] 1%Z [] 0%Z) /\
  a_region (fun _ => true) find_lit buf4 [50] k_none = Some (false, 1%Z, 2%Z, k_none).
Proof. vm_compute. repeat split; reflexivity. Qed.

(* ------------------------------------------------------------------------------------------------
   COMPOSITION: the matcher is the C text too (coq/TrCmp14Loop.v, TrCmp14.v, TrCmp14Full.v).
   C14_tr_subst_line above is relative to an oracle for rstr_find (the calls written in ex.c are on the extern index
   X_rstr_find: `@extern ex.c rstr_find`).  Below the oracle is THE TRANSLATED rstr_find of rstr.c (TrCmp14.ext_is_find:
   ext X_rstr_find args m = callf cprog fuelF _ F_rstr_find args m; TrCmp14.ext_link is the smallest such call semantics), for
   the LITERAL path of rstr.c (rs->rs == NULL: patterns [^][\<]literal[\>][$], with or without ignore-case), where
   Properties_C12.C12_tr_rstr_find proves what rstr_find computes.
   (1) TrSubst.find_oracle is FALSE of the real function: it asks for the model's answer on every memory that holds the line
       and offs[32]; rstr_find also reads *re and re->str.  The strongest true variant is TrCmp14Loop.find_oracle_ctx: the same
       for the memories the loop reaches (TrSubst.Ctx: the entry memory, grown, every old block but offs untouched);
       C14_tr_subst_line_ctx is C14_tr_subst_line under that weaker hypothesis (same loop proof, TrSubst.v unchanged).
   (2) C14_tr_rstr_find_is_oracle: the translated rstr_find satisfies it.
   (3) C14_tr_subst_line_literal_full: pattern string -> rstr_make (C text) -> loop (C text) with rstr_find (C text) = the
       model with SubstEngineDefs.engine_find, the matcher of C14_structure_engine / C14_utf8_engine; C14_tr_literal_chain_spec:
       = the decomposition into successive leftmost matches of C14_structure, every search answered by C12's declarative spec.
   Side conditions, exactly: line <= 5*10^8 bytes, NUL-free; the rewritten line <= 5*10^8; pattern < 2^31 - 1; fuel of the loop
   >= |line| + 1 and > |rep|, of rstr_find > |line| + 17 and > |pattern|, of rstr_make > |pattern|; the first search is made with
   flags 0, every later one with RE_NOTBOL = 2 (es_cond); after an empty match MAX(1, uc_len) bytes are stepped over (es_step);
   TrSubst.find_ptr_ok: the pointers ln + offs[2g] replace() forms stay in the line's block -- on the literal path groups 1..15
   are unset, so \1..\9 in the replacement form ln - 1: excluded when the match is at the very start of the line (the finding
   of fixes/C14-replace-unset-group-pointer.patch); C14_tr_literal_ptr_ok: it holds when the replacement refers to \0 only. *)
From NV Require RstrDefs TrRstr TrRstrMake.
From NV Require Import CLite CLiteProps GenCFuncs CLiteTac CLiteExt TrSbuf TrSubst TrCmp14Loop TrCmp14 TrCmp14Full.
Local Open Scope Z_scope.

Theorem C14_tr_find_oracle_false_of_rstr_find : forall ext fuelF dF find,
  ext_is_find ext fuelF dF -> ~ find_oracle ext find 0 1 2 0 [97; 10]%N.
Proof. exact find_oracle_false. Qed.
Print Assumptions C14_tr_find_oracle_false_of_rstr_find.

Theorem C14_tr_subst_line_ctx : forall ext find (m0 : mem) bl bo bsp bs rb rz fo (line rep flags : bytes) d fuel a0 a1 a2 a3 a6 a7 a8 a9 a11,
  str_at m0 bl line -> nonul line -> Z.of_nat (length line) <= 500000000 ->
  cstr_in m0 G_xrep 0 rep -> nonul rep ->
  nth_error m0 bsp = Some [VPtr bs fo] -> cstr_in m0 bs fo flags -> nonul flags ->
  (bo < length m0)%nat -> (exists blk0, nth_error m0 bo = Some blk0 /\ length blk0 = 32%nat) ->
  bl <> bo /\ G_xrep <> bo /\ bsp <> bo /\ bs <> bo ->
  find_oracle_ctx ext find m0 bl bo rb rz line -> find_ptr_ok find line rep ->
  forall lv, (S (length line) <= fuel)%nat -> (length rep < fuel)%nat ->
  let st o r l m := mkst [a0; a1; a2; a3; VPtr rb rz; VPtr bo 0; a6; a7; a8; a9; VPtr bsp 0; a11; VPtr bl (Z.of_nat o); r; l] m in
  match subst_line find rep (has_g flags) line with
  | Unchanged =>
      exists lv' mk', exec (callx ext cprog fuel (S (S (S d)))) fuel es_while (st 0%nat (VInt 0) lv m0)
                      = ONormal (st 0%nat (VInt 0) lv' mk') /\ Ctx m0 bo mk'
  | Changed new =>
      Z.of_nat (length new) <= 500000000 ->
      exists o' p lv' mk' cells,
        exec (callx ext cprog fuel (S (S (S d)))) fuel (SSeq es_while es_str) (st 0%nat (VInt 0) lv m0)
        = ONormal (st o' (VPtr p 0) lv' mk') /\ Ctx m0 bo mk' /\ Rinv m0 mk' p cells /\ map byte_of cells = new
  | SOOB | SFuel => True
  end.
Proof. exact subst_line_ok_c. Qed.
Print Assumptions C14_tr_subst_line_ctx.

(* the translated rstr_find, on a struct of the fast path that lies in the entry memory outside offs, answers as the model's
   literal matcher (sixteen groups: group 0 = the match, groups 1..15 = -1) on every memory the loop reaches *)
Theorem C14_tr_rstr_find_is_oracle : forall ext fuelF dF (m0 : mem) bl bo rb bsl line lit ic lb le wb we,
  ext_is_find ext fuelF dF ->
  nth_error m0 rb = Some (TrRstr.rstr_block bsl ic lb le wb we) -> str_at m0 bsl lit -> nonul lit -> nonul line ->
  rb <> bo -> bsl <> bo ->
  int_ok ic -> int_ok lb -> int_ok le -> int_ok wb -> int_ok we ->
  Z.of_nat (length lit) <= 2147483647 -> Z.of_nat (length line) <= 500000000 ->
  (length lit < fuelF)%nat -> (length line + 17 < fuelF)%nat ->
  find_oracle_ctx ext (lit_find (TrRstr.rs_of lit ic lb le wb we)) m0 bl bo rb 0 line.
Proof. exact lit_oracle. Qed.
Print Assumptions C14_tr_rstr_find_is_oracle.

Theorem C14_tr_subst_line_literal_full : forall ext fuelF dF (m : mem) bp (pat : bytes) flg rs bl bo bsp bs fo (line rep flags : bytes)
    d fuel dM fuelM dE a0 a1 a2 a3 a6 a7 a8 a9 a11,
  ext_is_find ext fuelF dF ->
  let ic := TrRstr.nz (Z.land flg GenConsts.RE_ICASE) in
  str_at m bp pat -> nonul pat -> nth_error m TrRstrMake.G_meta = Some TrRstrMake.gb_meta -> Z.of_nat (length pat) < 2147483647 ->
  RstrDefs.rstr_simple ic pat = Some rs ->
  str_at m bl line -> nonul line -> Z.of_nat (length line) <= 500000000 ->
  cstr_in m G_xrep 0 rep -> nonul rep ->
  nth_error m bsp = Some [VPtr bs fo] -> cstr_in m bs fo flags -> nonul flags ->
  (bo < length m)%nat -> (exists blk0, nth_error m bo = Some blk0 /\ length blk0 = 32%nat) ->
  bl <> bo /\ G_xrep <> bo /\ bsp <> bo /\ bs <> bo ->
  (length pat < fuelM)%nat -> (length pat < fuelF)%nat -> (length line + 17 < fuelF)%nat ->
  let find := SubstEngineDefs.engine_find dE ic pat in
  find_ptr_ok find line rep ->
  forall lv, (S (length line) <= fuel)%nat -> (length rep < fuel)%nat ->
  let rb := S (length m) in
  let st o r l mm := mkst [a0; a1; a2; a3; VPtr rb 0; VPtr bo 0; a6; a7; a8; a9; VPtr bsp 0; a11; VPtr bl (Z.of_nat o); r; l] mm in
  exists m0,
    callf cprog fuelM (S (S dM)) F_rstr_make [VPtr bp 0; VInt flg] m = Ok (VPtr rb 0, m0) /\
    (length m <= length m0)%nat /\ (forall b, (b < length m)%nat -> nth_error m0 b = nth_error m b) /\
    match subst_line find rep (has_g flags) line with
    | Unchanged =>
        exists lv' mk', exec (callx ext cprog fuel (S (S (S d)))) fuel es_while (st 0%nat (VInt 0) lv m0)
                        = ONormal (st 0%nat (VInt 0) lv' mk') /\ Ctx m0 bo mk'
    | Changed new =>
        Z.of_nat (length new) <= 500000000 ->
        exists o' p lv' mk' cells,
          exec (callx ext cprog fuel (S (S (S d)))) fuel (SSeq es_while es_str) (st 0%nat (VInt 0) lv m0)
          = ONormal (st o' (VPtr p 0) lv' mk') /\ Ctx m0 bo mk' /\ Rinv m0 mk' p cells /\ map byte_of cells = new
    | SOOB | SFuel => True
    end.
Proof. exact tr_subst_line_literal_full. Qed.
Print Assumptions C14_tr_subst_line_literal_full.

(* what `Changed new` means for that matcher: C14_structure's chain for the literal matcher, whose every answer on a rest that ends
   in the line's newline is the LEFTMOST position where C12's declarative spec of the anchored literal holds *)
Theorem C14_tr_literal_chain_spec : forall dE ic pat rs rep gflag line new,
  RstrDefs.rstr_simple ic pat = Some rs ->
  subst_line (SubstEngineDefs.engine_find dE ic pat) rep gflag line = Changed new ->
  (exists segs tail, segs <> [] /\ Chain (lit_find rs) rep gflag false line segs tail /\
     line = flat_old segs ++ tail /\ new = flat_new segs ++ tail /\ (gflag = false -> length segs = 1%nat)) /\
  (forall content nb, ~ In 0%N content -> ~ In 10%N content -> ~ In 10%N (RstrDefs.r_str rs) ->
     lit_find rs (content ++ [10%N]) nb =
     match RstrDefs.spec_find (RstrDefs.spat_of rs) (RstrDefs.r_icase rs) nb content with
     | Some i => Some (RstrDefs.rstr_groups 16 (Z.of_nat i) (Z.of_nat (i + length (RstrDefs.r_str rs))))
     | None => None
     end).
Proof. exact literal_chain_spec. Qed.
Print Assumptions C14_tr_literal_chain_spec.

Theorem C14_tr_literal_ptr_ok : forall rs line rep, Forall (fun g => g = 0%nat) (refs rep) -> find_ptr_ok (lit_find rs) line rep.
Proof. exact lit_find_ptr_ok. Qed.
Print Assumptions C14_tr_literal_ptr_ok.

(* non-vacuity: rstr_make, the loop with rstr_find LINKED IN (ext_link: no matcher oracle anywhere), sbuf_str and sbuf_buf RUN
   (TrCmp14Full.sl_run_linked: the program's globals with xrep := the replacement, the line, offs[32] indeterminate, the cell of `s`,
   the flags, the pattern):  s/ab/X/g on "abcabab" -> "XcXX";  s/ab/X/ -> "Xcabab";  s/^ab/X/g on "abab" -> "Xab" (RE_NOTBOL);
   s/\<ab\>/[\0]/g on "ab abc ab" -> "[ab] abc [ab]";  s/AB/X/g with ignore-case on "abcaB" -> "XcX";  s/zz/X/g: r stays NULL.
   The model agrees, and the hypotheses of C14_tr_subst_line_literal_full are satisfiable. *)
Local Open Scope N_scope.
Example C14_tr_subst_line_linked_runs :
  sl_run_linked [97;98] [88] [103] [97;98;99;97;98;97;98;10] 0%Z 100%nat = Ok (Some [88;99;88;88;10]) /\
  subst_line (SubstEngineDefs.engine_find 256 false [97;98]) [88] (has_g [103]) [97;98;99;97;98;97;98;10] = Changed [88;99;88;88;10] /\
  sl_run_linked [97;98] [88] [] [97;98;99;97;98;97;98;10] 0%Z 100%nat = Ok (Some [88;99;97;98;97;98;10]) /\
  sl_run_linked [94;97;98] [88] [103] [97;98;97;98;10] 0%Z 100%nat = Ok (Some [88;97;98;10]) /\
  subst_line (SubstEngineDefs.engine_find 256 false [94;97;98]) [88] (has_g [103]) [97;98;97;98;10] = Changed [88;97;98;10] /\
  sl_run_linked [92;60;97;98;92;62] [91;92;48;93] [103] [97;98;32;97;98;99;32;97;98;10] 0%Z 100%nat
    = Ok (Some [91;97;98;93;32;97;98;99;32;91;97;98;93;10]) /\
  sl_run_linked [65;66] [88] [103] [97;98;99;97;66;10] 1%Z 100%nat = Ok (Some [88;99;88;10]) /\
  subst_line (SubstEngineDefs.engine_find 256 true [65;66]) [88] (has_g [103]) [97;98;99;97;66;10] = Changed [88;99;88;10] /\
  sl_run_linked [122;122] [88] [103] [97;98;99;10] 0%Z 100%nat = Ok None /\
  ext_is_find (ext_link 100 6) 100 6 /\
  RstrDefs.rstr_simple false [97;98] = Some (RstrDefs.mk_rstr [97;98] false false false false false) /\
  find_ptr_ok (lit_find (RstrDefs.mk_rstr [97;98] false false false false false)) [97;98;99;97;98;97;98;10] [88].
Proof.
  do 9 (split; [vm_compute; reflexivity|]). split; [exact (ext_link_is_find 100 6)|]. split; [vm_compute; reflexivity|].
  apply lit_find_ptr_ok. constructor.
Qed.

(* ---- the loop-side half of the GENERAL path (coq/TrCmp14Ext.v).  find_oracle_ctx still asks for the exact result memory `upd m offs blk'`:
   true of the literal path, which allocates nothing; the general path (rset_find -> regexec) leaves regexec's local state and saved states
   behind as new blocks and subs[] as a freed block (TrRsetFindRx.tr_rset_find_model), so NO statement with an exact result memory can hold of it.
   TrCmp14Ext.find_oracle_ext lets the result memory EXTEND m (grows: at least as long, every block of m other than offs unchanged, offs holds
   the 32 answers); C14_tr_subst_line_ext is C14_tr_subst_line under that hypothesis -- the weakest of the three (C14_tr_oracle_ctx_is_ext).
   The matcher-side half (rset_find at an OFFSET of the line's block, the compiled program carried along the growing memory) is open. *)
From NV Require Import TrCmp14Ext.
Local Open Scope Z_scope.
Theorem C14_tr_subst_line_ext : forall ext find (m0 : mem) bl bo bsp bs rb rz fo (line rep flags : bytes) d fuel a0 a1 a2 a3 a6 a7 a8 a9 a11,
  str_at m0 bl line -> nonul line -> Z.of_nat (length line) <= 500000000 ->
  cstr_in m0 G_xrep 0 rep -> nonul rep ->
  nth_error m0 bsp = Some [VPtr bs fo] -> cstr_in m0 bs fo flags -> nonul flags ->
  (bo < length m0)%nat -> (exists blk0, nth_error m0 bo = Some blk0 /\ length blk0 = 32%nat) ->
  bl <> bo /\ G_xrep <> bo /\ bsp <> bo /\ bs <> bo ->
  find_oracle_ext ext find m0 bl bo rb rz line -> find_ptr_ok find line rep ->
  forall lv, (S (length line) <= fuel)%nat -> (length rep < fuel)%nat ->
  let st o r l m := mkst [a0; a1; a2; a3; VPtr rb rz; VPtr bo 0; a6; a7; a8; a9; VPtr bsp 0; a11; VPtr bl (Z.of_nat o); r; l] m in
  match subst_line find rep (has_g flags) line with
  | Unchanged =>
      exists lv' mk', exec (callx ext cprog fuel (S (S (S d)))) fuel es_while (st 0%nat (VInt 0) lv m0)
                      = ONormal (st 0%nat (VInt 0) lv' mk') /\ Ctx m0 bo mk'
  | Changed new =>
      Z.of_nat (length new) <= 500000000 ->
      exists o' p lv' mk' cells,
        exec (callx ext cprog fuel (S (S (S d)))) fuel (SSeq es_while es_str) (st 0%nat (VInt 0) lv m0)
        = ONormal (st o' (VPtr p 0) lv' mk') /\ Ctx m0 bo mk' /\ Rinv m0 mk' p cells /\ map byte_of cells = new
  | SOOB | SFuel => True
  end.
Proof. exact subst_line_ok_e. Qed.
Print Assumptions C14_tr_subst_line_ext.
Theorem C14_tr_oracle_ctx_is_ext : forall ext find m0 bl bo rb rz line,
  find_oracle_ctx ext find m0 bl bo rb rz line -> find_oracle_ext ext find m0 bl bo rb rz line.
Proof. exact find_oracle_ctx_ext. Qed.
Print Assumptions C14_tr_oracle_ctx_is_ext.
