(* Properties_C04.v -- C04: undo and redo restore exact earlier texts, one step per command.
   Statements only; every proof is `exact <lemma>`; Print Assumptions under each.
   Model: UndoDefs.v (lbuf_opt, lbuf_replace, lbuf_edit, lbuf_undo, lbuf_redo, lbuf_modified of
   /repo/lbuf.c); specs: ustack (stack keyed by command number), cstack (one entry per command). *)
From Coq Require Import List NArith ZArith.
From NV Require Import GenConsts UndoDefs UndoProps.
Import ListNotations.

(* the splice of lbuf_undo is the exact inverse of the splice of lbuf_edit *)
Theorem C04_replace_inverse : forall (new : text) (p nd : nat) (t : text), p + nd <= length t ->
  replace (slice t p nd) p (length new) (replace new p nd t) = t.
Proof. exact (@replace_inverse line). Qed.
Print Assumptions C04_replace_inverse.

(* lbuf_cp followed by the line splitting of lbuf_replace gives the copied lines back *)
Theorem C04_split_concat : forall ls : text, Forall line_wf ls -> lines_of (concat ls) = ls.
Proof. exact lines_of_concat. Qed.
Print Assumptions C04_split_concat.

(* for EVERY list of edit / command-boundary / undo / redo calls on a buffer loaded with any
   well-formed text, the line buffer and the stack machine agree on the text after every call
   and on every success/failure result: undo restores exactly the text before the most recent
   not-yet-undone command number (however many entries it logged), redo reinstates exactly what
   the matching undo removed, an edit after an undo empties the redo branch, undo/redo at the
   ends fail and change nothing *)
Theorem C04_refines : forall (t0 : text) (u0 : Z) (ops : list op), Forall line_wf t0 ->
  run_trace (lbuf_loaded t0 u0) ops = spec_trace (ustack_init t0 u0) ops.
Proof. exact undo_refines. Qed.
Print Assumptions C04_refines.

(* histories in which every command ends with the counter bump (ex_command, the vi() loop): one
   stack entry per modifying command, whatever number of edit calls the command made *)
Theorem C04_disciplined : forall (t0 : text) (u0 : Z) (cs : list cmd), Forall line_wf t0 ->
  run_cmds (lbuf_loaded t0 u0) cs = cspec_trace (cstack_init t0) cs.
Proof. exact undo_disciplined. Qed.
Print Assumptions C04_disciplined.

(* hist_n <= hist_sz after every operation list (growth from HIST_INIT, read from lbuf.c, by doubling) *)
Theorem C04_capacity : forall (t0 : text) (u0 : Z) (ops : list op),
  length (hist (run_ops (lbuf_loaded t0 u0) ops)) <= hist_sz (run_ops (lbuf_loaded t0 u0) ops).
Proof. exact undo_capacity. Qed.
Print Assumptions C04_capacity.

(* the hypotheses are satisfiable and the statement is not vacuous: a compound command, undo,
   redo, an edit that cuts the redo branch, undo/redo failing at the ends *)
Example C04_nonvacuous :
  let a := [97; 10]%N in let b := [98; 10]%N in let c := [99; 10]%N in
  Forall line_wf [a; b] /\
  run_trace (lbuf_loaded [a; b] 1)
    [Edit (Some c) 2 2; Edit None 0 1; Bump; Undo; Undo; Redo; Edit (Some a) 0 0; Redo; Undo; Undo] =
  [([a; b; c], true); ([b; c], true); ([b; c], true); ([a; b], true); ([a; b], false);
   ([b; c], true); ([a; b; c], true); ([a; b; c], false); ([b; c], true); ([a; b], true)].
Proof. split; [repeat constructor | vm_compute; reflexivity]. Qed.
