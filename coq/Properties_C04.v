(* Properties_C04.v -- C04: undo and redo restore exact earlier texts, one step per command.
   Statements only; every proof is `exact <lemma>`; Print Assumptions under each.
   Model: UndoDefs.v (lbuf_opt, lbuf_replace, lbuf_edit, lbuf_undo, lbuf_redo, lbuf_modified of
   /repo/lbuf.c); specs: ustack (stack keyed by command number), cstack (one entry per command). *)
From Coq Require Import List NArith ZArith.
From NV Require Import GenConsts UndoDefs UndoProps.
Import ListNotations.

(* the splice of lbuf_undo is the exact inverse of the splice of lbuf_edit *)
Theorem C04_replace_inverse : forall (new : text) (p nd : nat) (t : text), p + nd <= length t ->
  replace (slice t p nd) p (length new) (replace new p nd t) = t.
Proof. exact (@replace_inverse line). Qed.
Print Assumptions C04_replace_inverse.

(* lbuf_cp followed by the line splitting of lbuf_replace gives the copied lines back *)
Theorem C04_split_concat : forall ls : text, Forall line_wf ls -> lines_of (concat ls) = ls.
Proof. exact lines_of_concat. Qed.
Print Assumptions C04_split_concat.

(* for EVERY list of edit / command-boundary / undo / redo calls on a buffer loaded with any
   well-formed text, the line buffer and the stack machine agree on the text after every call
   and on every success/failure result: undo restores exactly the text before the most recent
   not-yet-undone command number (however many entries it logged), redo reinstates exactly what
   the matching undo removed, an edit after an undo empties the redo branch, undo/redo at the
   ends fail and change nothing *)
Theorem C04_refines : forall (t0 : text) (u0 : Z) (ops : list op), Forall line_wf t0 ->
  run_trace (lbuf_loaded t0 u0) ops = spec_trace (ustack_init t0 u0) ops.
Proof. exact undo_refines. Qed.
Print Assumptions C04_refines.

(* histories in which every command ends with the counter bump (ex_command, the vi() loop): one
   stack entry per modifying command, whatever number of edit calls the command made *)
Theorem C04_disciplined : forall (t0 : text) (u0 : Z) (cs : list cmd), Forall line_wf t0 ->
  run_cmds (lbuf_loaded t0 u0) cs = cspec_trace (cstack_init t0) cs.
Proof. exact undo_disciplined. Qed.
Print Assumptions C04_disciplined.

(* hist_n <= hist_sz after every operation list (growth from HIST_INIT, read from lbuf.c, by doubling) *)
Theorem C04_capacity : forall (t0 : text) (u0 : Z) (ops : list op),
  length (hist (run_ops (lbuf_loaded t0 u0) ops)) <= hist_sz (run_ops (lbuf_loaded t0 u0) ops).
Proof. exact undo_capacity. Qed.
Print Assumptions C04_capacity.

(* the hypotheses are satisfiable and the statement is not vacuous: a compound command, undo,
   redo, an edit that cuts the redo branch, undo/redo failing at the ends *)
Example C04_nonvacuous :
  let a := [97; 10]%N in let b := [98; 10]%N in let c := [99; 10]%N in
  Forall line_wf [a; b] /\
  run_trace (lbuf_loaded [a; b] 1)
    [Edit (Some c) 2 2; Edit None 0 1; Bump; Undo; Undo; Redo; Edit (Some a) 0 0; Redo; Undo; Undo] =
  [([a; b; c], true); ([b; c], true); ([b; c], true); ([a; b], true); ([a; b], false);
   ([b; c], true); ([a; b; c], true); ([a; b; c], false); ([b; c], true); ([a; b], true)].
Proof. split; [repeat constructor | vm_compute; reflexivity]. Qed.

(* ------------------------------------------------------------------------------------------ *)
(* C04 AT THE EX INTERFACE (appended by the ex group; proofs in ExSim.v / ExUndo.v).
   The ex model of ExDefs.v (ex_exec over `|`-joined command lists, global with its command list run per line,
   substitute over a range, a/i/c with text blocks, d pu r ! @ w u ...) is tied to the line buffer of UndoDefs.v by
   the relation ExUndo.Rl: texts equal line by line (newline added), the logs agree on position, counts, deleted text
   and command number entry by entry, the undo cursor and the command counter are equal; marks, ln_glob bits and
   identities are forgotten, UndoDefs' redo text and allocation size have no counterpart (so Rl is a relation).
   Every primitive of ExDefs (lbuf_edit, lbuf_undo, lbuf_modified, the saved-state update of w) preserves Rl against
   the corresponding UndoDefs operation (ExUndo.Rl_edit, Rl_undo, Rl_bump, Rl_saved0). *)
From NV Require ExDefs ExSpec ExSim ExUndo.

(* ANY top-level command line -- ex_command = ex_exec + the closing lbuf_modified --, from any state whose line
   buffer is related to an UndoDefs buffer u: the line buffer afterwards is related to u after a list of UndoDefs
   operations followed by ONE Bump (also for lines with w @ ! u: `w` bumps (lbuf_saved), `@` re-enters ex_command and
   bumps, `!` without writeany asks lbuf_modified first (a bump), `u` inside a `|` line is an Undo in the middle of a step). *)
Theorem C04_ex_command_ops : forall rvalid rfind filter readfile curpath fuel ln s u, ExUndo.Rl (ExDefs.lb s) u ->
  exists ops,
    ExUndo.Rl (ExDefs.lb (fst (ExDefs.ex_command rvalid rfind filter readfile curpath fuel ln s))) (run_ops u (ops ++ [Bump])).
Proof. exact ExUndo.ex_command_ops. Qed.
Print Assumptions C04_ex_command_ops.

(* a QUIET line (ExSim.quiet_line, a pure function of the bytes: every command of the line, also inside the command lists of
   g/v, recursively, is one of a i c d k p pu r rs s y = ec q!, the nameless command or an unknown word; no u w ! @): edit
   calls only -- the line is exactly ONE `CEdits l` of C04_disciplined, however many edits it makes *)
Theorem C04_ex_quiet_line_is_one_command : forall rvalid rfind filter readfile curpath fuel ln s u,
  ExUndo.Rl (ExDefs.lb s) u -> ExSim.quiet_line fuel ln = true ->
  exists l, ExUndo.Rl (ExDefs.lb (fst (ExDefs.ex_command rvalid rfind filter readfile curpath fuel ln s)))
                      (run_ops u (ops_of_cmd (CEdits l))).
Proof. exact ExUndo.ex_command_quiet. Qed.
Print Assumptions C04_ex_quiet_line_is_one_command.

(* the convention about `w` (and `!`) as a theorem: a line without u and @ (ExSim.nou_line: w, w! and ! allowed) is a
   non-empty LIST of CEdits commands -- every bump inside the line (w's lbuf_saved, the modified-question of !) closes an
   undo step, so `s/a/b/|w|s/c/d/` is two steps *)
Theorem C04_ex_line_with_w_is_several_commands : forall rvalid rfind filter readfile curpath fuel ln s u,
  ExUndo.Rl (ExDefs.lb s) u -> ExSim.nou_line fuel ln = true ->
  exists ls, ls <> [] /\
    ExUndo.Rl (ExDefs.lb (fst (ExDefs.ex_command rvalid rfind filter readfile curpath fuel ln s)))
              (run_ops u (concat (map (fun l => ops_of_cmd (CEdits l)) ls))).
Proof. exact ExUndo.ex_command_nou. Qed.
Print Assumptions C04_ex_line_with_w_is_several_commands.

(* after ANY script (any lines, also with w @ ! u) run from the initial state of `vi -s -e file`, a quiet command line
   that changes the text, followed by the command line `u`: the text is exactly what it was before that line, and `u`
   reports success -- however many lines or sub-edits the line made (g with a command list, s on a range,
   multi-line a/i/c, several commands joined by `|`) *)
Theorem C04_ex_command_is_one_step : forall rvalid rfind filter readfile curpath fuel data input wa pre ln, 2 <= fuel ->
  let s := ExUndo.after_lines rvalid rfind filter readfile curpath fuel pre (ExDefs.init_st data input wa) in
  let s1 := fst (ExDefs.ex_command rvalid rfind filter readfile curpath fuel ln s) in
  ExSim.quiet_line fuel ln = true -> ExSpec.texts s1 <> ExSpec.texts s ->
  ExSpec.texts (fst (ExDefs.ex_command rvalid rfind filter readfile curpath fuel ExUndo.line_u s1)) = ExSpec.texts s /\
  snd (ExDefs.ex_command rvalid rfind filter readfile curpath fuel ExUndo.line_u s1) = 0%Z.
Proof. exact ExUndo.ex_u_restores. Qed.
Print Assumptions C04_ex_command_is_one_step.

(* scripts made of quiet lines and `u` lines, of any length: the texts after every line are those of the
   one-entry-per-command stack (cspec_trace): every `u` pops exactly one modifying command LINE, `u` at the bottom fails
   and changes nothing, a quiet line that changes nothing pushes nothing *)
Theorem C04_ex_lines_disciplined : forall rvalid rfind filter readfile curpath fuel data input wa lines, 2 <= fuel ->
  Forall (ExUndo.line_ok fuel) lines ->
  exists cs, Forall2 ExUndo.line_cmd lines cs /\
    map (map ExUndo.addnl) (ExUndo.run_lines rvalid rfind filter readfile curpath fuel lines (ExDefs.init_st data input wa)) =
    map fst (cspec_trace (cstack_init (lines_of data)) cs).
Proof. exact ExUndo.ex_lines_disciplined. Qed.
Print Assumptions C04_ex_lines_disciplined.

(* ANY script keeps the ex line buffer related to a reachable UndoDefs buffer whose history ends every command line
   with Bump (so C04_refines applies to it: the next `u` restores the text before the most recent command NUMBER) *)
Theorem C04_ex_script_reachable : forall rvalid rfind filter readfile curpath fuel data input wa lines,
  exists ops,
    ExUndo.Rl (ExDefs.lb (ExUndo.after_lines rvalid rfind filter readfile curpath fuel lines (ExDefs.init_st data input wa)))
              (run_ops (lbuf_loaded (lines_of data) 3) ops) /\ ExUndo.at_boundary ops.
Proof. exact ExUndo.ex_script_reachable. Qed.
Print Assumptions C04_ex_script_reachable.

(* not vacuous: `g/./s/$/x/|s/$/y/` on the file a b is quiet, makes four substitutions, and one `u` takes all of them back;
   `1d|w`, `u` and `@a` are not quiet *)
Example C04_ex_nonvacuous :
  let rf := fun (pat ln : list N) (_ : bool) =>
              match pat with [36%N] => Some (length ln, length ln) | _ => match ln with [] => None | _ => Some (0, 1) end end in
  let ex := ExDefs.ex_command (fun _ => true) rf (fun _ _ => None) (fun _ => None) [] in
  let gl := [103;47;46;47;115;47;36;47;120;47;124;115;47;36;47;121;47]%N in
  let s0 := ExDefs.init_st [97;10;98;10]%N [] true in
  ExSim.quiet_line 10 gl = true /\
  ExSpec.texts (fst (ex 10 gl s0)) = [[97; 120; 121]; [98; 120; 121]]%N /\
  ExSpec.texts (fst (ex 10 ExUndo.line_u (fst (ex 10 gl s0)))) = [[97]; [98]]%N /\
  ExSim.quiet_line 10 [49;100;124;119]%N = false /\ ExSim.quiet_line 10 [117]%N = false /\ ExSim.quiet_line 10 [64;97]%N = false /\
  ExSim.nou_line 10 [49;100;124;119;124;49;100]%N = true /\ ExSim.nou_line 10 [117]%N = false.
Proof. vm_compute. repeat split. Qed.

(* ------------------------------------------------------------------------------------------ *)
(* C04 OVER SEVERAL BUFFERS (proofs in ExUndoBufs.v; definitions in BufsDefs.v and UndoBufsDefs.v).
   Model: the buffer table of ex.c (BufsDefs: bufs[16], bufs_switch WITH the bump of the buffer being left, bufs_open,
   ec_edit incl. e # / e! / ew and the existing-path shortcut, ec_buffer (list, b N, b + - # ^ %, b !, b ~), next/prev,
   ec_quit with its walk over the modified buffers, ec_write, ex_command over a `|` list with ONE closing
   lbuf_modified(xb)) with the edit log of lbuf.c (UndoDefs.lbuf) as the payload of every slot; a command on the current
   buffer is the list of lbuf calls it makes. *)
From NV Require BufsDefs UndoBufsDefs ExUndoBufs.

(* bufs_switch(idx), any payload: the buffer that is LEFT (slot 0) gets its command counter bumped exactly once
   (lbuf_modified once) and every other buffer -- the one entered, the ones the rotation moves down, the ones behind idx --
   keeps its line buffer as it is, WHATEVER slot the rotation puts it in (dest: idx -> 0, j < idx -> j + 1, j > idx -> j;
   injective, so no two buffers share a slot afterwards) *)
Theorem C04_bufs_switch_bumps_the_buffer_left :
  forall (L Op Out : Type) (Lo : BufsDefs.lops L Op Out) (s : BufsDefs.st L) (idx j : nat) (b bi : BufsDefs.buf L),
  nth_error (BufsDefs.bufs s) idx = Some (Some bi) -> nth_error (BufsDefs.bufs s) j = Some (Some b) ->
  exists b', nth_error (BufsDefs.bufs (BufsDefs.bufs_switch Lo s idx)) (ExUndoBufs.dest idx j) = Some (Some b') /\
             BufsDefs.b_id b' = BufsDefs.b_id b /\ BufsDefs.b_path b' = BufsDefs.b_path b /\
             BufsDefs.b_lb b' = (if Nat.eqb j 0 then fst (BufsDefs.lb_modified Lo (BufsDefs.b_lb b)) else BufsDefs.b_lb b).
Proof. exact (@ExUndoBufs.switch_bumps_left). Qed.
Print Assumptions C04_bufs_switch_bumps_the_buffer_left.

Theorem C04_bufs_switch_slots_distinct : forall idx j k : nat, ExUndoBufs.dest idx j = ExUndoBufs.dest idx k -> j = k.
Proof. exact ExUndoBufs.dest_inj. Qed.
Print Assumptions C04_bufs_switch_slots_distinct.

(* after ANY script of command lines from the initial state of `vi -s -e files` (every line an arbitrary list of commands:
   edits, u, redo, switches in the middle of the line, listings, refused quits, writes ...) EVERY buffer of the table, in
   whatever slot it sits, is at an undo-step boundary: its edit log refines an undo stack (UndoProps.R, the relation of
   C04_refines) all of whose keys are strictly below the buffer's command counter -- every buffer that a command line
   left, and the one it ended in, had its step closed *)
Theorem C04_bufs_every_buffer_is_closed_after_every_line :
  forall files argv (ls : list (list UndoBufsDefs.ucmd)) (j : nat) (b : UndoBufsDefs.ubuf),
  nth_error (BufsDefs.bufs (UndoBufsDefs.u_lines (fst (UndoBufsDefs.u_init files argv)) ls)) j = Some (Some b) ->
  exists sp, UndoProps.R (BufsDefs.b_lb b) sp /\ ExUndo.keys_lt sp.
Proof. exact ExUndoBufs.script_closes_every_buffer. Qed.
Print Assumptions C04_bufs_every_buffer_is_closed_after_every_line.

(* edit calls on a buffer at a step boundary, then ONE bump (the bump of bufs_switch when the buffer is left, or the
   closing bump of ex_command): the buffer is at a boundary again, and if the text changed, lbuf_undo succeeds and gives
   back exactly the text from before the edit calls *)
Theorem C04_bufs_edits_then_one_bump_are_one_step : forall (l : lbuf) (es : list (option (list N) * nat * nat)) (sp : ustack),
  UndoProps.R l sp -> ExUndo.keys_lt sp ->
  let l1 := run_ops l (map UndoProps.mk_edit es ++ [Bump]) in
  (exists sp1, UndoProps.R l1 sp1 /\ ExUndo.keys_lt sp1) /\
  (ln l1 <> ln l -> exists l2, lbuf_undo l1 = Some l2 /\ ln l2 = ln l).
Proof. exact ExUndoBufs.closed_edits_one_step'. Qed.
Print Assumptions C04_bufs_edits_then_one_bump_are_one_step.

(* the multi-buffer version of C04_ex_command_is_one_step: after ANY script, a command line that enters a buffer in any
   way (cs1: any list of commands that are not operations on the text -- e name, e! name, e #, ew, b N, b + - # ^, next,
   prev, b, q, w, se wa ...; possibly empty) and then edits it (any number of edit calls), followed by the line `u`:
   the current buffer is still that buffer, its text is exactly the text it had when it was entered, and the undo reports
   success -- whichever slot of bufs[] the buffer came from and whichever buffers the earlier lines left in mid-line *)
Theorem C04_bufs_command_is_one_step :
  forall files argv (pre : list (list UndoBufsDefs.ucmd)) (cs1 : list UndoBufsDefs.ucmd)
         (es : list (option (list N) * nat * nat)) (v v' : BufsDefs.view) (b : UndoBufsDefs.ubuf),
  let s := UndoBufsDefs.u_lines (fst (UndoBufsDefs.u_init files argv)) pre in
  Forall (fun c => UndoBufsDefs.is_op c = false) cs1 ->
  BufsDefs.slot0 (fst (UndoBufsDefs.u_exec_all s cs1)) = Some b ->
  let s1 := fst (UndoBufsDefs.u_line s (cs1 ++ [UndoBufsDefs.edits_cmd es v])) in
  let s2 := fst (UndoBufsDefs.u_line s1 [UndoBufsDefs.undo_cmd v']) in
  UndoBufsDefs.cur_text s1 <> Some (ln (BufsDefs.b_lb b)) ->
  UndoBufsDefs.cur_text s2 = Some (ln (BufsDefs.b_lb b)) /\
  UndoBufsDefs.cur_id_of s2 = BufsDefs.b_id b /\ UndoBufsDefs.cur_id_of s1 = BufsDefs.b_id b /\
  exists b1, BufsDefs.slot0 s1 = Some b1 /\ snd (run_op (BufsDefs.b_lb b1) Undo) = true.
Proof. exact ExUndoBufs.bufs_command_is_one_step. Qed.
Print Assumptions C04_bufs_command_is_one_step.

(* not vacuous: files fa (a1..a4), fb (b1 b2), fc (c1..c4); `e fb`, `e fc`, `1d|e! fa` (fa sits in bufs[2]: the buffer
   entered is not the alternate one), `e! fc|1d`, `u`: only the second deletion is undone (c2 c3 c4), fc is current, and
   another `u` brings c1 back; the hypotheses of C04_bufs_command_is_one_step hold for the fourth line *)
Example C04_bufs_nonvacuous :
  let ch := fun (c : N) (k : N) => [c; (48 + k)%N] in
  let fa := [102; 97]%N in let fb := [102; 98]%N in let fc := [102; 99]%N in
  let files := [(fa, [ch 97 1; ch 97 2; ch 97 3; ch 97 4]); (fb, [ch 98 1; ch 98 2]); (fc, [ch 99 1; ch 99 2; ch 99 3; ch 99 4])]%N in
  let v := BufsDefs.view0 in
  let e := fun bang p => BufsDefs.CEdit bang false (BufsDefs.PLit p) in
  let d1 := UndoBufsDefs.edits_cmd [(None, 0, 1)] v in
  let s0 := fst (UndoBufsDefs.u_init files [fa]) in
  let pre := [[e false fb]; [e false fc]; [d1; e true fa]] in
  let s := UndoBufsDefs.u_lines s0 pre in
  let s1 := fst (UndoBufsDefs.u_line s [e true fc; d1]) in
  let s2 := fst (UndoBufsDefs.u_line s1 [UndoBufsDefs.undo_cmd v]) in
  let s3 := fst (UndoBufsDefs.u_line s2 [UndoBufsDefs.undo_cmd v]) in
  let nl := fun l => l ++ [NL] in
  option_map (fun b => ln (BufsDefs.b_lb b)) (BufsDefs.slot0 (fst (UndoBufsDefs.u_exec_all s [e true fc]))) = Some (map nl [ch 99 2; ch 99 3; ch 99 4])%N /\
  UndoBufsDefs.cur_text s1 = Some (map nl [ch 99 3; ch 99 4])%N /\
  UndoBufsDefs.cur_text s2 = Some (map nl [ch 99 2; ch 99 3; ch 99 4])%N /\
  UndoBufsDefs.cur_text s3 = Some (map nl [ch 99 1; ch 99 2; ch 99 3; ch 99 4])%N /\
  UndoBufsDefs.cur_id_of s2 = 3%Z /\ ExUndoBufs.dest 2 0 = 1.
Proof. vm_compute. repeat split. Qed.

(* ------------------------------------------------------------------------------------------ *)
(* THE HISTORY IS NEVER TRUNCATED (round g/h seeds; definitions in UndoWalkDefs.v, proofs in UndoWalk.v).
   Corollaries of C04_refines, stated on their own because a bounded history is exactly what they exclude: whatever
   the number of entries the log holds (there is no bound anywhere in the statements), a complete undo walk from the
   state reached by ANY operation list succeeds exactly once per step of the stack, brings back the texts of the stack one
   by one, ends on the text the buffer was loaded with, and only then fails; the same upwards for redo. *)
From NV Require UndoWalkDefs UndoWalk.

Theorem C04_undo_walk_complete : forall (t0 : text) (u0 : Z) (ops : list op), Forall line_wf t0 ->
  let sp := spec_ops (ustack_init t0 u0) ops in
  run_trace (run_ops (lbuf_loaded t0 u0) ops) (repeat Undo (length (past sp)) ++ [Undo]) =
  map (fun x => (snd x, true)) (past sp) ++ [(t0, false)].
Proof. exact UndoWalk.undo_walk_complete. Qed.
Print Assumptions C04_undo_walk_complete.

Theorem C04_redo_walk_complete : forall (t0 : text) (u0 : Z) (ops : list op), Forall line_wf t0 ->
  let sp := spec_ops (ustack_init t0 u0) ops in
  run_trace (run_ops (lbuf_loaded t0 u0) ops) (repeat Redo (length (future sp)) ++ [Redo]) =
  map (fun x => (snd x, true)) (future sp) ++ [(UndoWalkDefs.top sp, false)].
Proof. exact UndoWalk.redo_walk_complete. Qed.
Print Assumptions C04_redo_walk_complete.

(* command level (every command closed by the counter bump): after ANY list of commands -- each making any number of
   edit calls --, the number of undos that succeed is the number of entries of the one-entry-per-command stack, the
   texts they bring back are its texts (the text before each not-yet-undone modifying command, most recent first), the
   last one is the loaded text t0, and one more undo fails leaving t0; the redo walk likewise.  If every editing command
   passes a text in at least one of its calls (`logs`: such a call is never the early return of lbuf_edit), those numbers are
   the ones counted on the command list alone (UndoWalkDefs.live: +1 per editing command, -1 per successful undo, the
   redo count reset by every editing command) -- the number of undoable steps IS the number of modifying commands not yet undone. *)
Theorem C04_history_never_truncated : forall (t0 : text) (u0 : Z) (cs : list cmd), Forall line_wf t0 ->
  let lb := run_ops (lbuf_loaded t0 u0) (UndoWalkDefs.ops_of_cmds cs) in
  let cst := UndoWalkDefs.cspec_cmds (cstack_init t0) cs in
  run_trace lb (repeat Undo (length (cpast cst)) ++ [Undo]) = map (fun t => (t, true)) (cpast cst) ++ [(t0, false)] /\
  run_trace lb (repeat Redo (length (cfuture cst)) ++ [Redo]) =
    map (fun t => (t, true)) (cfuture cst) ++ [(last (cfuture cst) (ccur cst), false)] /\
  (forallb UndoWalkDefs.logs cs = true -> (length (cpast cst), length (cfuture cst)) = UndoWalkDefs.live cs 0 0).
Proof. exact UndoWalk.history_never_truncated. Qed.
Print Assumptions C04_history_never_truncated.

(* not vacuous, and with a log longer than two growth steps of hist[] (HIST_INIT = 128): a command of 300 edit calls, a
   second command, undo, redo, undo: 301 entries in the log, one step undoable and one redoable, the first undo of the
   walk removes all 300 entries at once and gives the loaded text back, the next one fails *)
Example C04_history_nonvacuous :
  let a := [97; 10]%N in let x := [120; 10]%N in
  let cs := [CEdits (repeat (Some x, 0, 0) 300); CEdits [(Some a, 0, 1)]; CUndo; CRedo; CUndo] in
  let lb := run_ops (lbuf_loaded [a] 1) (UndoWalkDefs.ops_of_cmds cs) in
  Forall line_wf [a] /\ forallb UndoWalkDefs.logs cs = true /\ UndoWalkDefs.live cs 0 0 = (1, 1) /\
  length (hist lb) = 301 /\ hist_u lb = 300 /\ length (ln lb) = 301 /\
  run_trace lb [Undo; Undo] = [([a], true); ([a], false)].
Proof. split; [repeat constructor | vm_compute; repeat split]. Qed.

(* ------------------------------------------------------------------------------------------ *)
(* THE MODEL IS THE C TEXT (coq/TrSplice*.v): lbuf_replace of /repo/lbuf.c, the splice that lbuf_edit, lbuf_undo and lbuf_redo go
   through, translated by tools/c2clite.py (coq/GenCFuncs.v, tools/c2clite.d/55_splice.list) and RUN by the checked semantics of
   coq/CLite.v.  C04_tr_lbuf_replace: from any memory holding a line buffer whose line table is `ln ul` (TrSpliceAll.lbuf_at: the
   struct, the pointer array, the ln_glob array, one live block per line, all distinct), for s = NULL or a NUL-terminated text,
   the translated function returns Ok and the new memory holds the line table of UndoDefs.lbuf_replace ul s pos n_del -- the
   `replace` of C04_replace_inverse --, the deleted lines' blocks freed, everything outside the buffer untouched, the history cells
   of the struct (68..74: useq, hist, hist_sz, hist_n, hist_u, useq_zero, useq_last) unchanged.  C04_tr_splice_is_ex: the
   ln_glob cells and the mark rows of that memory are those of ExDefs.lbuf_replace (the first min(n_del, n_ins) rows inherit
   ln_glob, the others are cleared; the three-way mark shift and the marks '[' and ']').
   lbuf_opt / lbuf_edit / lbuf_undo / lbuf_redo themselves stay tied by correspondence (tools/props/c04.py). *)
From NV Require CLite CLiteProps GenCFuncs TrSpliceMarks TrSpliceAll TrSpliceModels.
Section C04_translated_splice.
Import CLite CLiteProps GenCFuncs TrSpliceMarks TrSpliceAll TrSpliceModels.
Local Open Scope Z_scope.

Theorem C04_tr_lbuf_replace : forall (m : mem) lb blk bln bgl lbs (ul : UndoDefs.lbuf) globs mk cap sv (s : option (list N)) pos nd cap' d fuel,
  let n := length (UndoDefs.ln ul) in let ni := UndoDefs.linecount s in
  let need := Z.of_nat n + Z.of_nat ni - Z.of_nat nd in
  lbuf_at m lb blk bln bgl lbs (UndoDefs.ln ul) globs mk cap ->
  s_text m (lb :: bln :: bgl :: lbs) sv (txt s) (is_null s) ->
  (pos + nd <= n)%nat ->
  Z.of_nat n + Z.of_nat ni <= 2147483647 ->
  IoDefs.grow (IoDefs.grow_fuel need) need (Z.of_nat cap) = Some cap' -> cap' <= 2147483647 ->
  Forall (row_fits (Z.of_nat pos) (Z.of_nat nd) (Z.of_nat ni)) mk ->
  (splice_fuel n ni nd <= fuel)%nat ->
  exists m' blk' bln' bgl' base,
    callf cprog fuel (S (S (S d))) F_lbuf_replace [VPtr lb 0; sv; VInt (Z.of_nat pos); VInt (Z.of_nat nd)] m = Ok (VUndef, m')
    /\ lbuf_at m' lb blk' bln' bgl' (splice lbs (List.seq base ni) pos nd) (UndoDefs.ln (UndoDefs.lbuf_replace ul s pos nd))
         (splice_globs globs pos nd ni) (splice_marks (is_null s) pos nd ni mk) (Z.to_nat cap')
    /\ need < cap'
    /\ (length m <= base)%nat /\ (length m <= length m')%nat
    /\ (forall c, (c < length m)%nat -> ~ In c (lb :: bln :: bgl :: lbs) -> nth_error m' c = nth_error m c)
    /\ (forall b, In b (firstn nd (skipn pos lbs)) -> nth_error m' b = Some [])
    /\ (forall j, (68 <= j)%nat -> nth_error blk' j = nth_error blk j).
Proof. exact tr_lbuf_replace_undo. Qed.
Print Assumptions C04_tr_lbuf_replace.

(* the two models of the inserted lines agree: UndoDefs.lines_of = IoDefs.split_lines, and the counts *)
Theorem C04_tr_splice_is_undo : forall (lb : UndoDefs.lbuf) s pos nd,
  UndoDefs.ln (UndoDefs.lbuf_replace lb s pos nd) = splice (UndoDefs.ln lb) (IoDefs.split_lines (txt s)) pos nd
  /\ UndoDefs.linecount s = IoDefs.linecount (txt s).
Proof. exact splice_is_undo. Qed.
Print Assumptions C04_tr_splice_is_undo.

(* the texts (with their newline), the ln_glob values and the mark rows that C04_tr_lbuf_replace leaves in memory are those of
   ExDefs.lbuf_replace *)
Theorem C04_tr_splice_is_ex : forall (xl : ExDefs.lbuf) s pos nd,
  (pos + nd <= length (ExDefs.lns xl))%nat -> length (ExDefs.marks xl) = 32%nat ->
  let xl' := ExDefs.lbuf_replace s pos nd xl in
  let ni := IoDefs.linecount (txt s) in
  map addnl (map ExDefs.ltxt (ExDefs.lns xl')) = splice (map addnl (map ExDefs.ltxt (ExDefs.lns xl))) (IoDefs.split_lines (txt s)) pos nd
  /\ map zgl (ExDefs.lns xl') = splice_globs (map zgl (ExDefs.lns xl)) pos nd ni
  /\ map fst (ExDefs.marks xl') = splice_marks (is_null s) pos nd ni (map fst (ExDefs.marks xl)).
Proof. exact splice_is_ex. Qed.
Print Assumptions C04_tr_splice_is_ex.

(* not vacuous, and the translated function RUNS: the buffer "a\n", "b\n" (capacity 3) of TrSpliceModels.ex_mem, a pure deletion
   lbuf_replace(lb, NULL, 0, 1) -- what lbuf_undo does to take an inserted line back --: no growth (2 + 0 - 1 < 3), the block of
   line 0 (G+3) is freed, the pointer of line 1 moves to cell 0, ln_n = 1; the model deletes the same line *)
Example C04_tr_lbuf_replace_runs :
  let G := ex_G in
  let ul := {| UndoDefs.ln := ex_lines; UndoDefs.hist := []; UndoDefs.hist_u := 0; UndoDefs.hist_sz := 0;
               UndoDefs.useq := 1; UndoDefs.useq_zero := 0; UndoDefs.useq_last := 0 |} in
  lbuf_at ex_mem G ex_blk (G + 1) (G + 2) [G + 3; G + 4]%nat (UndoDefs.ln ul) [0; 2] (repeat (-1) 32) 3 /\
  s_text ex_mem [G; G + 1; G + 2; G + 3; G + 4]%nat (VInt 0) (txt None) (is_null None) /\
  IoDefs.grow (IoDefs.grow_fuel 1) 1 3 = Some 3 /\
  match callf cprog 38 3 F_lbuf_replace [VPtr G 0; VInt 0; VInt 0; VInt 1] ex_mem with
  | Ok (v, m') => Some (v, firstn 4 (skipn (G + 1) m'), firstn 4 (skipn 64 (nth G m' [])), length m')
  | Err _ => None
  end = Some (VUndef,
              [ [VPtr (G + 4) 0; VPtr (G + 4) 0; VUndef]; [VInt 2; VInt 2; VUndef]; []; cstr_block (zb [98; 10]%N) ],
              [VPtr (G + 1) 0; VPtr (G + 2) 0; VInt 1; VInt 3], length ex_mem) /\
  UndoDefs.ln (UndoDefs.lbuf_replace ul None 0 1) = [[98; 10]]%N /\
  UndoDefs.ln (UndoDefs.lbuf_replace ul (Some ex_text) 1 1) = [[97; 10]; [120; 10]; [121; 10]]%N.
Proof.
  cbv zeta. split; [exact ex_at|]. split; [apply st_null|]. vm_compute. repeat split.
Qed.
End C04_translated_splice.

(* ------------------------------------------------------------------------------------------ *)
(* THE UNDO BOOKKEEPING IS THE C TEXT (coq/TrUndoBase.v, TrUndo.v, TrUndoOpt.v, TrUndoEdit.v): lbuf_opt, lbuf_edit, lbuf_undo, lbuf_redo of
   /repo/lbuf.c (and the helpers lbuf_savepos, lbuf_loadpos, lbuf_markcopy, lbuf_savemark, lbuf_loadmark, lopt_done, linecount,
   uc_dup they call), translated by tools/c2clite.py (tools/c2clite.d/56_undo.list) and run by the checked semantics of coq/CLite.v,
   RELATIVE to oracles (CLiteExt.callx) for the splice lbuf_replace (X_lbuf_replace; the splice itself is C04_tr_lbuf_replace above)
   and for lbuf_cp (X_lbuf_cp: the copy of the deleted lines, built through an sbuf).
   `urep T m bl blk bh hblk lb`: block bl of m is the struct lbuf (75 cells; the 64 mark cells hold ints), its cells useq, hist,
   hist_sz, hist_n, hist_u, useq_zero, useq_last, ln_n hold the model's values, hist points to block bh = hblk of 9 * hist_sz cells
   whose first hist_n records of 9 cells represent the model's log entries (ins / del: NULL or the start of a live block that reads
   the model's text; pos, n_ins, n_del, seq: the model's ints; pos_off: an int; mark / mark_off: both NULL or two distinct live blocks of
   32 cells, every mark an int and the offset an int where the mark is set), the blocks the log owns are pairwise distinct and distinct
   from struct and array, and the line table is described by ANY predicate T that reads the memory only through a footprint
   (T_frame) disjoint from all of that.  The theorems hold for every such T.
   Not covered: a buffer whose hist is still NULL (the first lbuf_opt after lbuf_make calls memcpy(hist, NULL, 0): undefined by
   C11 7.24.1p2, rejected by CLite.v -- the same observation as for the line table in C01); the values of marks (no C04 clause reads them). *)
From Coq Require Lia.
From NV Require CLiteExt TrLbufBase TrUndoBase TrUndo TrUndoOpt TrUndoEdit.
Section C04_translated_undo.
Import Lia CLite CLiteProps CLiteExt GenCFuncs TrLbufBase TrUndoBase TrUndo TrUndoOpt TrUndoEdit.
Local Open Scope Z_scope.

(* ONE iteration of the loop of lbuf_undo, for EVERY oracle: the cursor moves first (--hist_u), then lbuf_replace is called with the
   record's inverse arguments (lo->del, lo->pos, lo->n_ins) on exactly that memory, then lbuf_loadpos and the 32 lbuf_loadmark calls
   change mark cells of the struct only: whatever state the oracle's answer represents is still represented *)
Theorem C04_tr_undo_step : forall (ext : nat -> list val -> mem -> res (val * mem)) (T : Tpred), T_frame T ->
  forall (bl bh : nat) (hblk : block) (d fuel : nat) (m : mem) (blk : block) (lb : lbuf) (q : Z) (l2 l3 : val) (fuel' : nat),
  urep T m bl blk bh hblk lb -> (0 < hist_u lb)%nat -> (32 < fuel')%nat ->
  let u := (hist_u lb - 1)%nat in let lo := nth u (hist lb) dflt in
  let blk1 := upd blk L_hist_u (VInt (Z.of_nat u)) in let m1 := upd m bl blk1 in
  urep T m1 bl blk1 bh hblk (set_hu lb u) /\ sarg m1 (hc hblk (9 * u + 1)) (del lo) /\
  forall (r : val) (m2 : mem) (blk2 : block) (lb2 : lbuf),
    ext X_lbuf_replace [VPtr bl 0; hc hblk (9 * u + 1); VInt (Z.of_nat (pos lo)); VInt (Z.of_nat (n_ins lo))] m1 = Ok (r, m2) ->
    urep T m2 bl blk2 bh hblk lb2 -> (u < length (hist lb2))%nat ->
    exists (m3 : mem) (blk3 : block),
      exec (callx ext cprog fuel (S (S (S d)))) fuel' undo_body (mkst [VPtr bl 0; VInt q; l2; l3] m)
      = ONormal (mkst [VPtr bl 0; VInt q; VInt 32; VPtr bh (Z.of_nat (9 * u))] m3) /\
      urep T m3 bl blk3 bh hblk lb2.
Proof. exact undo_step. Qed.
Print Assumptions C04_tr_undo_step.

(* one iteration of the loop of lbuf_redo: hist_u++, then lbuf_replace(lb, lo->ins, lo->pos, lo->n_del), then lbuf_loadpos *)
Theorem C04_tr_redo_step : forall (ext : nat -> list val -> mem -> res (val * mem)) (T : Tpred), T_frame T ->
  forall (bl bh : nat) (hblk : block) (d fuel : nat) (m : mem) (blk : block) (lb : lbuf) (q : Z) (l2 : val) (fuel' : nat),
  urep T m bl blk bh hblk lb -> (hist_u lb < length (hist lb))%nat ->
  let u := hist_u lb in let lo := nth u (hist lb) dflt in
  let blk1 := upd blk L_hist_u (VInt (Z.of_nat (S u))) in let m1 := upd m bl blk1 in
  urep T m1 bl blk1 bh hblk (set_hu lb (S u)) /\ sarg m1 (hc hblk (9 * u)) (ins lo) /\
  forall (r : val) (m2 : mem) (blk2 : block) (lb2 : lbuf),
    ext X_lbuf_replace [VPtr bl 0; hc hblk (9 * u); VInt (Z.of_nat (pos lo)); VInt (Z.of_nat (n_del lo))] m1 = Ok (r, m2) ->
    urep T m2 bl blk2 bh hblk lb2 -> (u < length (hist lb2))%nat ->
    exists (m3 : mem) (blk3 : block),
      exec (callx ext cprog fuel (S (S (S d)))) fuel' redo_body (mkst [VPtr bl 0; VInt q; l2] m)
      = ONormal (mkst [VPtr bl 0; VInt q; VPtr bh (Z.of_nat (9 * u))] m3) /\
      urep T m3 bl blk3 bh hblk lb2.
Proof. exact redo_step. Qed.
Print Assumptions C04_tr_redo_step.

(* lbuf_undo as a whole, for every oracle that IMPLEMENTS THE MODEL'S SPLICE on the represented state (replace_oracle: called on a
   memory that represents lb with a string that reads s, inside the table (splice_ok), it returns a memory that represents
   lbuf_replace lb s pos n_del with the same hist array): the loop runs over exactly the records of the newest not-yet-undone sequence
   number, newest first (UndoDefs.undo_loop), the memory afterwards represents the model's state (hist_u moved as in the model), the
   result is 0; when the model fails (hist_u == 0) the result is 1 and the memory is untouched.  undo_ok lb: every splice of the group
   is one the oracle is obliged to answer (range inside the table, line count inside int). *)
Theorem C04_tr_lbuf_undo : forall (ext : nat -> list val -> mem -> res (val * mem)) (T : Tpred), T_frame T ->
  forall (bl bh : nat) (hblk : block) (d fuel : nat), replace_oracle ext T bl ->
  forall (m : mem) (blk : block) (lb : lbuf), urep T m bl blk bh hblk lb -> undo_ok lb -> (hist_u lb + 33 < fuel)%nat ->
  match lbuf_undo lb with
  | Some lb' => exists (m' : mem) (blk' : block),
      callx ext cprog fuel (S (S (S (S d)))) F_lbuf_undo [VPtr bl 0] m = Ok (VInt 0, m') /\ urep T m' bl blk' bh hblk lb'
  | None => callx ext cprog fuel (S (S (S (S d)))) F_lbuf_undo [VPtr bl 0] m = Ok (VInt 1, m)
  end.
Proof. exact tr_lbuf_undo. Qed.
Print Assumptions C04_tr_lbuf_undo.

Theorem C04_tr_lbuf_redo : forall (ext : nat -> list val -> mem -> res (val * mem)) (T : Tpred), T_frame T ->
  forall (bl bh : nat) (hblk : block) (d fuel : nat), replace_oracle ext T bl ->
  forall (m : mem) (blk : block) (lb : lbuf), urep T m bl blk bh hblk lb -> redo_ok lb -> (length (hist lb) - hist_u lb < fuel)%nat ->
  match lbuf_redo lb with
  | Some lb' => exists (m' : mem) (blk' : block),
      callx ext cprog fuel (S (S (S (S d)))) F_lbuf_redo [VPtr bl 0] m = Ok (VInt 0, m') /\ urep T m' bl blk' bh hblk lb'
  | None => callx ext cprog fuel (S (S (S (S d)))) F_lbuf_redo [VPtr bl 0] m = Ok (VInt 1, m)
  end.
Proof. exact tr_lbuf_redo. Qed.
Print Assumptions C04_tr_lbuf_redo.

(* lbuf_opt, for every oracle for lbuf_cp that returns a fresh block reading the model's copy of the lines and leaves every older block
   alone (cp_oracle): the memory afterwards represents UndoDefs.lbuf_opt -- the redo branch dropped (every block its records own freed
   exactly once through lopt_done: the call returning Ok excludes a double free, and those blocks are empty afterwards), hist[] grown by
   the model's rule when hist_n == hist_sz (a fresh array of 2 * hist_sz records, the first hist_n records copied, the old array freed,
   hist and hist_sz stored), one record appended with the model's fields (pos, n_del, del = lbuf_cp or NULL, n_ins = linecount(buf),
   ins = a fresh copy of buf or NULL, seq = lb->useq), hist_n = hist_u = old hist_u + 1.  Nothing outside the struct, the hist array
   and the dropped records changes. *)
Theorem C04_tr_lbuf_opt : forall (ext : nat -> list val -> mem -> res (val * mem)) (d fuel : nat) (T : Tpred), T_frame T ->
  forall (m : mem) (bl : nat) (blk : block) (bh : nat) (hblk : block) (lb : lbuf) (bufv : val) (buf : option (list N)) (p nd : nat),
  cp_oracle ext T bl -> urep T m bl blk bh hblk lb -> bufarg m bl bh bufv buf ->
  (forall (bb : nat) (o : Z), bufv = VPtr bb o -> ~ In bb (log_blocks hblk 0 (length (hist lb)))) ->
  i31 (p + nd) -> Z.of_nat (hist_sz lb) * 2 <= 2147483647 ->
  (length (hist lb) - hist_u lb < fuel)%nat -> (linecount buf < fuel)%nat -> (28 < fuel)%nat ->
  exists (m' : mem) (blk' : block) (bh' : nat) (hblk' : block),
    callx ext cprog fuel (S (S (S (S d)))) F_lbuf_opt [VPtr bl 0; bufv; VInt (Z.of_nat p); VInt (Z.of_nat nd)] m = Ok (VUndef, m') /\
    urep T m' bl blk' bh' hblk' (lbuf_opt lb buf p nd) /\
    (length m <= length m')%nat /\
    (forall b : nat, (b < length m)%nat -> ~ In b (owned bl bh hblk (length (hist lb))) -> nth_error m' b = nth_error m b) /\
    (forall b : nat, In b (log_blocks hblk (hist_u lb) (length (hist lb) - hist_u lb)) -> nth_error m' b = Some []) /\
    (bh' = bh \/ (length m <= bh')%nat /\ nth_error m' bh = Some []).
Proof. exact tr_lbuf_opt. Qed.
Print Assumptions C04_tr_lbuf_opt.

(* lbuf_edit: the clamping of beg and end to ln_n, the early return exactly when the model returns its argument (beg == end after the
   clamping and no text: the memory is untouched), otherwise lbuf_opt and then the splice with the clamped arguments *)
Theorem C04_tr_lbuf_edit : forall (ext : nat -> list val -> mem -> res (val * mem)) (d fuel : nat) (T : Tpred), T_frame T ->
  forall (m : mem) (bl : nat) (blk : block) (bh : nat) (hblk : block) (lb : lbuf) (bufv : val) (buf : option (list N)) (b e : nat),
  replace_oracle ext T bl -> cp_oracle ext T bl -> urep T m bl blk bh hblk lb -> bufarg m bl bh bufv buf ->
  (forall (bb : nat) (o : Z), bufv = VPtr bb o -> ~ In bb (log_blocks hblk 0 (length (hist lb)))) ->
  (b <= e)%nat -> i31 e -> i31 (length (ln lb) + linecount buf) -> Z.of_nat (hist_sz lb) * 2 <= 2147483647 ->
  (length (hist lb) - hist_u lb < fuel)%nat -> (linecount buf < fuel)%nat -> (28 < fuel)%nat ->
  let b' := Nat.min b (length (ln lb)) in let e' := Nat.min e (length (ln lb)) in
  if andb (Nat.eqb b' e') (is_none buf)
  then callx ext cprog fuel (S (S (S (S (S d))))) F_lbuf_edit [VPtr bl 0; bufv; VInt (Z.of_nat b); VInt (Z.of_nat e)] m = Ok (VUndef, m)
  else exists (m' : mem) (blk' : block) (bh' : nat) (hblk' : block),
         callx ext cprog fuel (S (S (S (S (S d))))) F_lbuf_edit [VPtr bl 0; bufv; VInt (Z.of_nat b); VInt (Z.of_nat e)] m = Ok (VUndef, m') /\
         urep T m' bl blk' bh' hblk' (lbuf_edit lb buf b e).
Proof. exact tr_lbuf_edit. Qed.
Print Assumptions C04_tr_lbuf_edit.

(* not vacuous, and the translated lbuf_undo RUNS: a log of two records with one sequence number (5) -- record 0 inserted "x\n" at
   line 0, record 1 deleted "a\n" at line 1 -- in the first blocks behind the program's globals (G = struct, G+1 = hist[4], G+2 / G+3 =
   the two texts), the lines themselves nowhere (T0: the trivial table predicate), and a TABLE oracle for lbuf_replace that knows the two
   calls an undo of this group must make, (lo->del, lo->pos, lo->n_ins) of record 1 and then of record 0, answers each by the change of
   ln_n the splice makes, and logs the arguments of every call in block G+4.  The run returns 0, hist_u is 0, ln_n is 2 + 1 - 1, and the
   log shows the two calls with the inverse arguments in the model's order (newest record first); the state satisfies urep, the model
   undoes the same two records, and T0 satisfies T_frame. *)
Definition ux_G : nat := Eval vm_compute in length cglobals.
Definition ux_struct : block :=
  repeat (VInt (-1)) 32 ++ repeat (VInt 0) 32 ++
  [VInt 0; VInt 0; VInt 2; VInt 4; VInt 6; VPtr (ux_G + 1) 0; VInt 4; VInt 2; VInt 2; VInt 0; VInt 4].
Definition ux_hist : block :=
  [VPtr (ux_G + 2) 0; VInt 0; VInt 0; VInt 1; VInt 0; VInt 0; VInt 5; VInt 0; VInt 0;
   VInt 0; VPtr (ux_G + 3) 0; VInt 1; VInt 0; VInt 1; VInt 0; VInt 5; VInt 0; VInt 0] ++ repeat VUndef 18.
Definition ux_mem : mem := cglobals ++ [ux_struct; ux_hist; cstr_block [120; 10]; cstr_block [97; 10]; repeat (VInt 0) 10].
Definition ux_lb : lbuf :=
  {| ln := [[120; 10]; [98; 10]]%N;
     hist := [ {| pos := 0; n_ins := 1; n_del := 0; del := None; ins := Some [120; 10]%N; seq := 5 |};
               {| pos := 1; n_ins := 0; n_del := 1; del := Some [97; 10]%N; ins := None; seq := 5 |} ];
     hist_u := 2; hist_sz := 4; useq := 6; useq_zero := 0; useq_last := 4 |}.
Definition val_eqb (a b : val) : bool :=
  match a, b with
  | VInt x, VInt y => x =? y
  | VPtr b1 o1, VPtr b2 o2 => andb (Nat.eqb b1 b2) (o1 =? o2)
  | VUndef, VUndef => true
  | _, _ => false
  end.
(* (string argument, pos, n_del) -> change of ln_n *)
Definition ux_table : list (val * Z * Z * Z) := [(VPtr (ux_G + 3) 0, 1, 0, 1); (VInt 0, 0, 1, -1)].
Definition ux_ext : nat -> list val -> mem -> res (val * mem) := fun f args m =>
  if Nat.eqb f X_lbuf_replace then
    match args with
    | [VPtr b 0; sv; VInt p; VInt n] =>
        match find (fun e => match e with (s0, p0, n0, _) => andb (andb (val_eqb s0 sv) (p0 =? p)) (n0 =? n) end) ux_table with
        | Some (_, _, _, dl) =>
            do k <- load m (ux_G + 4) 0; do kz <- as_int k; do c <- load m b 66; do cz <- as_int c;
            do m1 <- store m (ux_G + 4) (1 + 3 * kz) sv; do m2 <- store m1 (ux_G + 4) (2 + 3 * kz) (VInt p);
            do m3 <- store m2 (ux_G + 4) (3 + 3 * kz) (VInt n); do m4 <- store m3 (ux_G + 4) 0 (VInt (kz + 1));
            do m5 <- store m4 b 66 (VInt (cz + dl)); Ok (VUndef, m5)
        | None => Err EShape
        end
    | _ => Err EShape
    end
  else Err EShape.
Definition T0 : Tpred := fun _ _ fp _ => fp = [].

Example C04_tr_lbuf_undo_runs :
  match callx ux_ext cprog 100 6 F_lbuf_undo [VPtr ux_G 0] ux_mem with
  | Ok (v, m') => Some (v, firstn 7 (nth (ux_G + 4) m' []), nth 66 (nth ux_G m' []) VUndef, nth 72 (nth ux_G m' []) VUndef)
  | Err _ => None
  end = Some (VInt 0, [VInt 2; VPtr (ux_G + 3) 0; VInt 1; VInt 0; VInt 0; VInt 0; VInt 1], VInt 2, VInt 0) /\
  T_frame T0 /\ urep T0 ux_mem ux_G ux_struct (ux_G + 1) ux_hist ux_lb /\ undo_ok ux_lb /\
  option_map (fun l => (hist_u l, ln l)) (lbuf_undo ux_lb) = Some (0%nat, [[97; 10]; [98; 10]]%N) /\
  map (fun lo => (del lo, pos lo, n_ins lo)) (rev (hist ux_lb)) = [(Some [97; 10]%N, 1%nat, 0%nat); (None, 0%nat, 1%nat)].
Proof.
  split; [vm_compute; reflexivity|]. split; [intros m m' cs fp t H _; exact H|]. split; [|split; [|split; vm_compute; reflexivity]].
  - constructor; try reflexivity.
    + intros j Hj. do 64 (destruct j as [|j]; [eexists; reflexivity|]). lia.
    + unfold i31. cbn. lia.
    + unfold i32, i31. cbn. repeat split; lia.
    + intros i Hi. cbn [ux_lb hist length] in Hi. destruct i as [|[|i]]; [| |lia].
      * constructor; unfold hc; cbn [ux_lb hist nth ins del pos n_ins n_del seq]; try reflexivity.
        -- cbn [sown]. split; [repeat constructor; lia|]. exists (ux_G + 2)%nat. split; [reflexivity|]. eexists. split; [reflexivity|]. split; [lia|reflexivity].
        -- eexists. reflexivity.
        -- left. split; reflexivity.
        -- unfold i31, i32. cbn. repeat split; lia.
      * constructor; unfold hc; cbn [ux_lb hist nth ins del pos n_ins n_del seq]; try reflexivity.
        -- cbn [sown]. split; [repeat constructor; lia|]. exists (ux_G + 3)%nat. split; [reflexivity|]. eexists. split; [reflexivity|]. split; [lia|reflexivity].
        -- eexists. reflexivity.
        -- left. split; reflexivity.
        -- unfold i31, i32. cbn. repeat split; lia.
    + vm_compute. repeat constructor; cbn; intuition discriminate.
    + exists []. split; [reflexivity|]. intros b [].
  - unfold undo_ok. cbn. unfold splice_ok, i31. cbn. repeat split; lia.
Qed.
End C04_translated_undo.

(* the case the theorems above leave out, as a theorem: on the struct lbuf_make makes (hist == NULL, hist_sz == hist_n == hist_u == 0) the translated
   lbuf_opt takes the growth branch, allocates 9 * HIST_INIT cells, and stops in memcpy(hist, lb->hist, 0) with lb->hist == NULL -- undefined by
   C11 7.24.1p2, an error (EShape) of CLite.v's memcpy, harmless with every libc.  For every oracle. *)
Theorem C04_tr_lbuf_opt_null_hist : forall ext (m : CLite.mem) bl (blk : CLite.block) (bufv : CLite.val) p nd d fuel,
  nth_error m bl = Some blk -> length blk = TrLbufBase.LBUF_CELLS ->
  nth_error blk TrLbufBase.L_hist = Some (CLite.VInt 0) -> nth_error blk TrLbufBase.L_hist_sz = Some (CLite.VInt 0) ->
  nth_error blk TrLbufBase.L_hist_n = Some (CLite.VInt 0) -> nth_error blk TrLbufBase.L_hist_u = Some (CLite.VInt 0) -> 0 < fuel ->
  CLiteExt.callx ext GenCFuncs.cprog fuel (S (S (S (S d)))) GenCFuncs.F_lbuf_opt [CLite.VPtr bl 0; bufv; CLite.VInt p; CLite.VInt nd] m = CLite.Err CLite.EShape.
Proof. exact TrUndoEdit.tr_lbuf_opt_null_hist. Qed.
Print Assumptions C04_tr_lbuf_opt_null_hist.

(* ---- the two halves of the undo machinery COMPOSED on the translated C text (TrCmp4Str.v, TrCmp4Rep.v, TrCmp4.v, TrCmp4Loop.v,
   TrCmp4Edit.v, TrCmp4Ex.v): lbuf_replace is no longer an oracle.
   * C04_tr_lbuf_replace_long: the theorem C04_tr_lbuf_replace for a text argument at the start of a block that is LONGER than the
     string (what lbuf_cp hands out through sbuf_done, i.e. what the log's `del` strings are), plus: the cells mark_off[] of the
     struct hold integers afterwards (urep needs it).
   * Tc: the abstract table predicate T of urep instantiated with the concrete line table of lbuf_at (pointer array, ln_glob array,
     one live block per line, all distinct, capacity > 0, i.e. ln != NULL); C04_tr_Tc_frame: it satisfies T_frame.
   * C04_tr_replace_discharged: what replace_oracle ASSUMES of its oracle, PROVED of the translated lbuf_replace: a memory that
     represents a model state, log and text (urep Tc), goes to a memory that represents UndoDefs.lbuf_replace of it, same hist
     array.  Side conditions (the theorem says exactly which): the text argument is NULL or lies in a block outside the struct and
     the table that starts with the string, shorter than 2 GB (text_arg); the range is inside the table and the new line count
     inside int (splice_ok); every mark row is an int and its shift does not overflow (row_fits); the capacity the growth loop
     reaches is inside int (fits); fuel.  ln == NULL (a buffer lbuf_make just made: memcpy(nln, NULL, 0)) is outside Tc.
   * C04_tr_lbuf_undo_full / C04_tr_lbuf_redo_full: the translated lbuf_undo / lbuf_redo for every call semantics whose answer for
     X_lbuf_replace IS the run of the translated lbuf_replace (ext_is_replace) leave a memory that represents UndoDefs.lbuf_undo /
     lbuf_redo -- log AND text; result 1 and memory untouched exactly when the model fails.  Side conditions: undo_ok / redo_ok (model)
     and, at the start of every iteration, on the memory the run has reached, step_ok (marks, capacity, text length, fuel):
     undo_run_ok / redo_run_ok.  They are stated on the memory of the run because TrUndo.v proves that lbuf_loadpos / lbuf_loadmark leave
     integers in the mark cells, not which.  For a group of ONE record they are conditions on the entry memory only:
     C04_tr_undo_run_one / C04_tr_redo_run_one.
   * C04_tr_lbuf_edit_full: lbuf_edit likewise (lbuf_cp stays an oracle, cp_oracle: it is not translated); the mark rows are those
     lbuf_opt leaves, stated on the memory it returns.
   * C04_tr_edit_undo_redo_model and C04_tr_undo_inverts_edit: the property on the C text -- translated lbuf_edit, then translated
     lbuf_undo, then translated lbuf_redo: the memory after the undo represents the ORIGINAL text (Tc: the line blocks hold the
     original lines byte for byte), the memory after the redo the edited text; for an edit that is a change and the only one of
     its command, on newline-terminated lines.
   * C04_tr_ec_undo_full / C04_tr_ec_redo_full: the ex commands `u` / `redo` (return lbuf_undo(xb) / lbuf_redo(xb)). *)
From NV Require TrCmp4Str TrCmp4Rep TrCmp4 TrCmp4Loop TrCmp4Edit TrCmp4Ex.
Section C04_translated_composed.
Import Lia CLite CLiteProps CLiteExt GenCFuncs TrLbufBase TrUndoBase TrUndo TrUndoOpt TrUndoEdit TrSpliceMarks TrSpliceAll TrSpliceModels.
Import TrCmp4Str TrCmp4Rep TrCmp4 TrCmp4Loop TrCmp4Edit TrCmp4Ex.
Local Open Scope Z_scope.

Theorem C04_tr_lbuf_replace_long : forall (m : mem) lb blk bln bgl lbs (lines : list (list N)) globs mk cap sv (t : list N) nul pos nd cap' d fuel,
  let n := length lines in let ni := IoDefs.linecount t in
  let need := Z.of_nat n + Z.of_nat ni - Z.of_nat nd in
  lbuf_at m lb blk bln bgl lbs lines globs mk cap ->
  s_textp m (lb :: bln :: bgl :: lbs) sv t nul ->
  (pos + nd <= n)%nat ->
  Z.of_nat n + Z.of_nat ni <= 2147483647 ->
  IoDefs.grow (IoDefs.grow_fuel need) need (Z.of_nat cap) = Some cap' -> cap' <= 2147483647 ->
  Forall (row_fits (Z.of_nat pos) (Z.of_nat nd) (Z.of_nat ni)) mk ->
  (splice_fuel n ni nd <= fuel)%nat ->
  exists m' blk' bln' bgl' base,
    callf cprog fuel (S (S (S d))) F_lbuf_replace [VPtr lb 0; sv; VInt (Z.of_nat pos); VInt (Z.of_nat nd)] m = Ok (VUndef, m')
    /\ lbuf_at m' lb blk' bln' bgl' (splice lbs (List.seq base ni) pos nd) (splice lines (IoDefs.split_lines t) pos nd)
         (splice_globs globs pos nd ni) (splice_marks nul pos nd ni mk) (Z.to_nat cap')
    /\ need < cap' /\ Z.of_nat cap <= cap'
    /\ (length m <= base)%nat /\ (length m <= length m')%nat
    /\ (forall c, (c < length m)%nat -> ~ In c (lb :: bln :: bgl :: lbs) -> nth_error m' c = nth_error m c)
    /\ (forall b, In b (firstn nd (skipn pos lbs)) -> nth_error m' b = Some [])
    /\ TrSplice.arr_kept m m' bln bln' /\ TrSplice.arr_kept m m' bgl bgl'
    /\ (forall j, (68 <= j)%nat -> nth_error blk' j = nth_error blk j)
    /\ (forall j, (32 <= j < 64)%nat -> (exists z, nth_error blk j = Some (VInt z)) -> exists z, nth_error blk' j = Some (VInt z)).
Proof. exact tr_lbuf_replace_p. Qed.
Print Assumptions C04_tr_lbuf_replace_long.

Theorem C04_tr_Tc_frame : T_frame Tc.
Proof. exact Tc_frame. Qed.
Print Assumptions C04_tr_Tc_frame.

Theorem C04_tr_replace_discharged : forall (m : mem) bl (blk : block) bh (hblk : block) (lb : lbuf) fp sv (s : option (list N)) p nd cap' d fuel,
  urep Tc m bl blk bh hblk lb ->
  Tc m (tcells blk) fp (ln lb) -> (forall b, In b fp -> ~ In b (owned bl bh hblk (length (hist lb)))) ->
  text_arg m bl fp sv s -> splice_ok lb s p nd -> fits blk (length (ln lb)) s p nd cap' ->
  (splice_fuel (length (ln lb)) (linecount s) nd <= fuel)%nat ->
  exists (m' : mem) (blk' : block) fp',
    callf cprog fuel (S (S (S d))) F_lbuf_replace [VPtr bl 0; sv; VInt (Z.of_nat p); VInt (Z.of_nat nd)] m = Ok (VUndef, m') /\
    urep Tc m' bl blk' bh hblk (lbuf_replace lb s p nd) /\
    Tc m' (tcells blk') fp' (ln (lbuf_replace lb s p nd)) /\
    (forall b, In b fp' -> ~ In b (owned bl bh hblk (length (hist lb))) /\ (b < length m')%nat) /\
    (length m <= length m')%nat /\
    (forall c, (c < length m)%nat -> c <> bl -> ~ In c fp -> nth_error m' c = nth_error m c) /\
    nth_error blk' L_ln_sz = Some (VInt cap') /\
    (forall k, (k < 32)%nat -> nth_error blk' k = Some (VInt (nth k (splice_marks (is_null s) p nd (linecount s) (marks_of blk)) 0))).
Proof. exact replace_sim. Qed.
Print Assumptions C04_tr_replace_discharged.

Theorem C04_tr_lbuf_undo_full : forall (ext : nat -> list val -> mem -> res (val * mem)) (fuelR dR : nat), ext_is_replace ext fuelR dR ->
  forall (bl bh : nat) (hblk : block) (d fuel : nat) (m : mem) (blk : block) (lb : lbuf),
  urep Tc m bl blk bh hblk lb -> undo_ok lb -> undo_run_ok ext fuelR bl d fuel m lb -> (hist_u lb + 33 < fuel)%nat ->
  match lbuf_undo lb with
  | Some lb' => exists (m' : mem) (blk' : block),
      callx ext cprog fuel (S (S (S (S d)))) F_lbuf_undo [VPtr bl 0] m = Ok (VInt 0, m') /\ urep Tc m' bl blk' bh hblk lb'
  | None => callx ext cprog fuel (S (S (S (S d)))) F_lbuf_undo [VPtr bl 0] m = Ok (VInt 1, m)
  end.
Proof. exact tr_lbuf_undo_full. Qed.
Print Assumptions C04_tr_lbuf_undo_full.

Theorem C04_tr_lbuf_redo_full : forall (ext : nat -> list val -> mem -> res (val * mem)) (fuelR dR : nat), ext_is_replace ext fuelR dR ->
  forall (bl bh : nat) (hblk : block) (d fuel : nat) (m : mem) (blk : block) (lb : lbuf),
  urep Tc m bl blk bh hblk lb -> redo_ok lb -> redo_run_ok ext fuelR bl d fuel m lb -> (length (hist lb) - hist_u lb < fuel)%nat ->
  match lbuf_redo lb with
  | Some lb' => exists (m' : mem) (blk' : block),
      callx ext cprog fuel (S (S (S (S d)))) F_lbuf_redo [VPtr bl 0] m = Ok (VInt 0, m') /\ urep Tc m' bl blk' bh hblk lb'
  | None => callx ext cprog fuel (S (S (S (S d)))) F_lbuf_redo [VPtr bl 0] m = Ok (VInt 1, m)
  end.
Proof. exact tr_lbuf_redo_full. Qed.
Print Assumptions C04_tr_lbuf_redo_full.

(* a group of one record (a command that made one lbuf_edit call): the side conditions are about the memory the call starts from *)
Theorem C04_tr_undo_run_one : forall (ext : nat -> list val -> mem -> res (val * mem)) (fuelR bl : nat) (hblk : block) (d fuel : nat) (m : mem) (lb : lbuf),
  one_undo lb ->
  (let lo := nth (hist_u lb - 1) (hist lb) dflt in step_ok fuelR bl m (length (ln lb)) (del lo) (pos lo) (n_ins lo)) ->
  undo_run_ok ext fuelR bl d fuel m lb.
Proof. exact undo_run_fits_one. Qed.
Print Assumptions C04_tr_undo_run_one.
Theorem C04_tr_redo_run_one : forall (ext : nat -> list val -> mem -> res (val * mem)) (fuelR bl d fuel : nat) (m : mem) (lb : lbuf),
  one_redo lb ->
  (let lo := nth (hist_u lb) (hist lb) dflt in step_ok fuelR bl m (length (ln lb)) (ins lo) (pos lo) (n_del lo)) ->
  redo_run_ok ext fuelR bl d fuel m lb.
Proof. exact redo_run_fits_one. Qed.
Print Assumptions C04_tr_redo_run_one.

Theorem C04_tr_lbuf_edit_full : forall (ext : nat -> list val -> mem -> res (val * mem)) (fuelR dR : nat), ext_is_replace ext fuelR dR ->
  forall (d fuel : nat) (m : mem) (bl : nat) (blk : block) (bh : nat) (hblk : block) (lb : lbuf) (bufv : val) (buf : option (list N)) (b e cap0 : nat) (cap' : Z),
  cp_oracle ext Tc bl -> urep Tc m bl blk bh hblk lb -> bufarg m bl bh bufv buf ->
  (forall (bb : nat) (o : Z), bufv = VPtr bb o -> ~ In bb (log_blocks hblk 0 (length (hist lb)))) ->
  (forall (bb : nat) (o : Z) fp, bufv = VPtr bb o -> Tc m (tcells blk) fp (ln lb) -> ~ In bb fp) ->
  (forall (bb : nat) s (o : Z), bufv = VPtr bb o -> str_at m bb s -> Z.of_nat (length s) + 2 <= 2147483647) ->
  (b <= e)%nat -> i31 e -> i31 (length (ln lb) + linecount buf) -> Z.of_nat (hist_sz lb) * 2 <= 2147483647 ->
  (length (hist lb) - hist_u lb < fuel)%nat -> (linecount buf < fuel)%nat -> (28 < fuel)%nat ->
  let b' := Nat.min b (length (ln lb)) in let e' := Nat.min e (length (ln lb)) in
  let need := Z.of_nat (length (ln lb)) + Z.of_nat (linecount buf) - Z.of_nat (e' - b') in
  nth_error blk L_ln_sz = Some (VInt (Z.of_nat cap0)) -> IoDefs.grow (IoDefs.grow_fuel need) need (Z.of_nat cap0) = Some cap' -> cap' <= 2147483647 ->
  (splice_fuel (length (ln lb)) (linecount buf) (e' - b') <= fuelR)%nat ->
  (forall (m1 : mem) (blk1 : block),
     callx ext cprog fuel (S (S (S (S d)))) F_lbuf_opt [VPtr bl 0; bufv; VInt (Z.of_nat b'); VInt (Z.of_nat (e' - b'))] m = Ok (VUndef, m1) ->
     nth_error m1 bl = Some blk1 ->
     forall k, (k < 32)%nat -> exists z, nth_error blk1 k = Some (VInt z) /\ row_fits (Z.of_nat b') (Z.of_nat (e' - b')) (Z.of_nat (linecount buf)) z) ->
  if andb (Nat.eqb b' e') (is_none buf)
  then callx ext cprog fuel (S (S (S (S (S d))))) F_lbuf_edit [VPtr bl 0; bufv; VInt (Z.of_nat b); VInt (Z.of_nat e)] m = Ok (VUndef, m)
  else exists (m' : mem) (blk' : block) (bh' : nat) (hblk' : block),
         callx ext cprog fuel (S (S (S (S (S d))))) F_lbuf_edit [VPtr bl 0; bufv; VInt (Z.of_nat b); VInt (Z.of_nat e)] m = Ok (VUndef, m') /\
         urep Tc m' bl blk' bh' hblk' (lbuf_edit lb buf b e).
Proof. exact tr_lbuf_edit_full. Qed.
Print Assumptions C04_tr_lbuf_edit_full.

(* the model: undo inverts the one edit of a command (the deleted lines, concatenated by lbuf_cp and split again, are the lines), redo repeats it *)
Theorem C04_tr_edit_undo_redo_model : forall (lb : lbuf) (buf : option (list N)) (b e : nat),
  Forall line_wf (ln lb) -> (hist_u lb <= length (hist lb))%nat -> lone_edit lb ->
  let b' := Nat.min b (length (ln lb)) in let e' := Nat.min e (length (ln lb)) in
  (b <= e)%nat -> andb (Nat.eqb b' e') (is_none buf) = false ->
  let lb1 := lbuf_edit lb buf b e in
  exists lb2 lb3, lbuf_undo lb1 = Some lb2 /\ ln lb2 = ln lb /\ lbuf_redo lb2 = Some lb3 /\ ln lb3 = ln lb1 /\
    one_undo lb1 /\ one_redo lb2 /\ hist lb2 = hist lb1 /\ hist_u lb2 = hist_u lb /\
    hist lb1 = firstn (hist_u lb) (hist lb) ++ [new_entry lb buf b' (e' - b')] /\
    hist_u lb1 = S (hist_u lb) /\ lb2 = undo1 lb1 /\ lb3 = redo1 lb2.
Proof. exact edit_then_undo_redo. Qed.
Print Assumptions C04_tr_edit_undo_redo_model.

Theorem C04_tr_undo_inverts_edit : forall (ext : nat -> list val -> mem -> res (val * mem)) (fuelR dR : nat), ext_is_replace ext fuelR dR ->
  forall (d fuel : nat) (m : mem) (bl : nat) (blk : block) (bh : nat) (hblk : block) (lb : lbuf) (bufv : val) (buf : option (list N)) (b e cap0 : nat) (cap' : Z),
  cp_oracle ext Tc bl -> urep Tc m bl blk bh hblk lb -> bufarg m bl bh bufv buf ->
  (forall (bb : nat) (o : Z), bufv = VPtr bb o -> ~ In bb (log_blocks hblk 0 (length (hist lb)))) ->
  (forall (bb : nat) (o : Z) fp, bufv = VPtr bb o -> Tc m (tcells blk) fp (ln lb) -> ~ In bb fp) ->
  (forall (bb : nat) s (o : Z), bufv = VPtr bb o -> str_at m bb s -> Z.of_nat (length s) + 2 <= 2147483647) ->
  (b <= e)%nat -> i31 e -> i31 (length (ln lb) + linecount buf) -> Z.of_nat (hist_sz lb) * 2 <= 2147483647 ->
  (length (hist lb) + 35 < fuel)%nat -> (linecount buf < fuel)%nat ->
  let b' := Nat.min b (length (ln lb)) in let e' := Nat.min e (length (ln lb)) in
  let need := Z.of_nat (length (ln lb)) + Z.of_nat (linecount buf) - Z.of_nat (e' - b') in
  nth_error blk L_ln_sz = Some (VInt (Z.of_nat cap0)) -> IoDefs.grow (IoDefs.grow_fuel need) need (Z.of_nat cap0) = Some cap' -> cap' <= 2147483647 ->
  (splice_fuel (length (ln lb)) (linecount buf) (e' - b') <= fuelR)%nat ->
  (forall (m1 : mem) (blk1 : block),
     callx ext cprog fuel (S (S (S (S d)))) F_lbuf_opt [VPtr bl 0; bufv; VInt (Z.of_nat b'); VInt (Z.of_nat (e' - b'))] m = Ok (VUndef, m1) ->
     nth_error m1 bl = Some blk1 ->
     forall k, (k < 32)%nat -> exists z, nth_error blk1 k = Some (VInt z) /\ row_fits (Z.of_nat b') (Z.of_nat (e' - b')) (Z.of_nat (linecount buf)) z) ->
  andb (Nat.eqb b' e') (is_none buf) = false -> lone_edit lb -> Forall line_wf (ln lb) ->
  let lb1 := lbuf_edit lb buf b e in let lb2 := undo1 lb1 in
  undo_ok lb1 -> redo_ok lb2 ->
  (forall m1, callx ext cprog fuel (S (S (S (S (S d))))) F_lbuf_edit [VPtr bl 0; bufv; VInt (Z.of_nat b); VInt (Z.of_nat e)] m = Ok (VUndef, m1) ->
     let lo := nth (hist_u lb1 - 1) (hist lb1) dflt in step_ok fuelR bl m1 (length (ln lb1)) (del lo) (pos lo) (n_ins lo)) ->
  (forall m1 m2, callx ext cprog fuel (S (S (S (S (S d))))) F_lbuf_edit [VPtr bl 0; bufv; VInt (Z.of_nat b); VInt (Z.of_nat e)] m = Ok (VUndef, m1) ->
     callx ext cprog fuel (S (S (S (S d)))) F_lbuf_undo [VPtr bl 0] m1 = Ok (VInt 0, m2) ->
     let lo := nth (hist_u lb2) (hist lb2) dflt in step_ok fuelR bl m2 (length (ln lb2)) (ins lo) (pos lo) (n_del lo)) ->
  exists (m1 m2 m3 : mem) (blk2 blk3 : block) (bh' : nat) (hblk' : block),
    callx ext cprog fuel (S (S (S (S (S d))))) F_lbuf_edit [VPtr bl 0; bufv; VInt (Z.of_nat b); VInt (Z.of_nat e)] m = Ok (VUndef, m1) /\
    callx ext cprog fuel (S (S (S (S d)))) F_lbuf_undo [VPtr bl 0] m1 = Ok (VInt 0, m2) /\
    callx ext cprog fuel (S (S (S (S d)))) F_lbuf_redo [VPtr bl 0] m2 = Ok (VInt 0, m3) /\
    urep Tc m2 bl blk2 bh' hblk' lb2 /\ ln lb2 = ln lb /\
    urep Tc m3 bl blk3 bh' hblk' (redo1 lb2) /\ ln (redo1 lb2) = edit_text (ln lb) buf b e.
Proof. exact tr_undo_inverts_edit. Qed.
Print Assumptions C04_tr_undo_inverts_edit.

Theorem C04_tr_ec_undo_full : forall (ext : nat -> list val -> mem -> res (val * mem)) (fuelR dR : nat) (m : mem) (gbufs : block) (bl : nat) (blk : block) (bh : nat)
    (hblk : block) (lb : lbuf) (a0 a1 a2 a3 : val) (d fuel : nat), ext_is_replace ext fuelR dR ->
  nth_error m G_bufs = Some gbufs -> nth_error gbufs BUFS_LB = Some (VPtr bl 0) ->
  urep Tc m bl blk bh hblk lb -> undo_ok lb -> undo_run_ok ext fuelR bl d fuel m lb -> (hist_u lb + 33 < fuel)%nat ->
  match lbuf_undo lb with
  | None => callx ext cprog fuel (S (S (S (S (S d))))) F_ec_undo [a0; a1; a2; a3] m = Ok (VInt 1, m)
  | Some lb' => exists (m' : mem) (blk' : block),
                  callx ext cprog fuel (S (S (S (S (S d))))) F_ec_undo [a0; a1; a2; a3] m = Ok (VInt 0, m') /\ urep Tc m' bl blk' bh hblk lb'
  end.
Proof. exact tr_ec_undo_full. Qed.
Print Assumptions C04_tr_ec_undo_full.
Theorem C04_tr_ec_redo_full : forall (ext : nat -> list val -> mem -> res (val * mem)) (fuelR dR : nat) (m : mem) (gbufs : block) (bl : nat) (blk : block) (bh : nat)
    (hblk : block) (lb : lbuf) (a0 a1 a2 a3 : val) (d fuel : nat), ext_is_replace ext fuelR dR ->
  nth_error m G_bufs = Some gbufs -> nth_error gbufs BUFS_LB = Some (VPtr bl 0) ->
  urep Tc m bl blk bh hblk lb -> redo_ok lb -> redo_run_ok ext fuelR bl d fuel m lb -> (length (hist lb) - hist_u lb < fuel)%nat ->
  match lbuf_redo lb with
  | None => callx ext cprog fuel (S (S (S (S (S d))))) F_ec_redo [a0; a1; a2; a3] m = Ok (VInt 1, m)
  | Some lb' => exists (m' : mem) (blk' : block),
                  callx ext cprog fuel (S (S (S (S (S d))))) F_ec_redo [a0; a1; a2; a3] m = Ok (VInt 0, m') /\ urep Tc m' bl blk' bh hblk lb'
  end.
Proof. exact tr_ec_redo_full. Qed.
Print Assumptions C04_tr_ec_redo_full.

(* not vacuous, and the three translated functions RUN on a concrete buffer with the translated lbuf_replace linked in: two lines "a\n", "b\n"
   (capacity 3, an empty log of 4 records, all blocks behind the program's globals), the text "x\ny" in a block of its own; lbuf_cp is an
   oracle that hands out the copied lines in a block LONGER than the string (as sbuf_done's buffers are).  lbuf_edit(lb, "x\ny", 1, 2) leaves
   the lines a, x, y (the table grows 3 -> 6); lbuf_undo returns 0 and leaves a, b -- the ORIGINAL text, from the record's del string
   [98; 10; 0; ?; ?]; lbuf_redo returns 0 and leaves a, x, y.  The starting memory satisfies urep Tc, the oracle satisfies ext_is_replace, the
   text argument satisfies bufarg, the model says the same three texts. *)
Definition cx_G : nat := Eval vm_compute in length cglobals.
Definition cx_struct : block :=
  repeat (VInt (-1)) 32 ++ repeat (VInt 0) 32 ++
  [VPtr (cx_G + 1) 0; VPtr (cx_G + 2) 0; VInt 2; VInt 3; VInt 6; VPtr (cx_G + 5) 0; VInt 4; VInt 0; VInt 0; VInt 0; VInt 4].
Definition cx_mem : mem :=
  cglobals ++ [cx_struct; [VPtr (cx_G + 3) 0; VPtr (cx_G + 4) 0; VUndef]; [VInt 0; VInt 0; VUndef];
               cstr_block [97; 10]; cstr_block [98; 10]; repeat VUndef 36; cstr_block [120; 10; 121]].
Definition cx_lb : lbuf :=
  {| ln := [[97; 10]; [98; 10]]%N; hist := []; hist_u := 0; hist_sz := 4; useq := 6; useq_zero := 0; useq_last := 4 |}.
Definition cx_cp (m : mem) (bl : nat) (b e : Z) : res (val * mem) :=
  match nth_error m bl with
  | Some blk =>
      match nth 64 blk VUndef, nth 66 blk VUndef with
      | VPtr bln _, VInt n =>
          let lnblk := nth bln m [] in
          let cells := flat_map (fun i => match nth i lnblk VUndef with VPtr lb _ => removelast (nth lb m []) | _ => [] end)
                                (List.seq (Z.to_nat b) (Z.to_nat (Z.min e n) - Z.to_nat b)) in
          Ok (VPtr (length m) 0, m ++ [cells ++ [VInt 0; VUndef; VUndef]])
      | _, _ => Err EShape
      end
  | None => Err EShape
  end.
Definition cx_ext : nat -> list val -> mem -> res (val * mem) := fun f args m =>
  if Nat.eqb f X_lbuf_replace then callf cprog 100 (S (S (S 3))) F_lbuf_replace args m
  else if Nat.eqb f X_lbuf_cp then match args with [VPtr bl _; VInt b; VInt e] => cx_cp m bl b e | _ => Err EShape end
  else Err EShape.
Definition cx_lines (m : mem) : list (list val) :=
  match nth 64 (nth cx_G m []) VUndef, nth 66 (nth cx_G m []) VUndef with
  | VPtr bln _, VInt n => map (fun i => match nth i (nth bln m []) VUndef with VPtr lb _ => nth lb m [] | _ => [] end) (List.seq 0 (Z.to_nat n))
  | _, _ => []
  end.
Definition cx_run : option (list (list val) * Z * list (list val) * Z * list (list val)) :=
  match callx cx_ext cprog 100 9 F_lbuf_edit [VPtr cx_G 0; VPtr (cx_G + 6) 0; VInt 1; VInt 2] cx_mem with
  | Ok (_, m1) =>
      match callx cx_ext cprog 100 8 F_lbuf_undo [VPtr cx_G 0] m1 with
      | Ok (VInt r2, m2) =>
          match callx cx_ext cprog 100 8 F_lbuf_redo [VPtr cx_G 0] m2 with
          | Ok (VInt r3, m3) => Some (cx_lines m1, r2, cx_lines m2, r3, cx_lines m3)
          | _ => None
          end
      | _ => None
      end
  | Err _ => None
  end.

Example C04_tr_edit_undo_redo_runs :
  cx_run = Some ([cstr_block [97; 10]; cstr_block [120; 10]; cstr_block [121; 10]], 0,
                 [cstr_block [97; 10]; cstr_block [98; 10]], 0,
                 [cstr_block [97; 10]; cstr_block [120; 10]; cstr_block [121; 10]]) /\
  urep Tc cx_mem cx_G cx_struct (cx_G + 5) (repeat VUndef 36) cx_lb /\ ext_is_replace cx_ext 100 3 /\
  bufarg cx_mem cx_G (cx_G + 5) (VPtr (cx_G + 6) 0) (Some [120; 10; 121]%N) /\ lone_edit cx_lb /\ Forall line_wf (ln cx_lb) /\
  (let lb1 := lbuf_edit cx_lb (Some [120; 10; 121]%N) 1 2 in
   ln lb1 = [[97; 10]; [120; 10]; [121; 10]]%N /\ option_map ln (lbuf_undo lb1) = Some (ln cx_lb) /\
   option_map ln (lbuf_redo (undo1 lb1)) = Some (ln lb1) /\ undo_ok lb1 /\ redo_ok (undo1 lb1)).
Proof.
  split; [vm_compute; reflexivity|]. split; [|split; [intros args m; reflexivity|split; [|split; [|split]]]].
  - constructor; try reflexivity.
    + intros j Hj. do 64 (destruct j as [|j]; [eexists; reflexivity|]). lia.
    + unfold i31. cbn. lia.
    + unfold i32, i31. cbn. repeat split; lia.
    + intros i Hi. cbn in Hi. lia.
    + vm_compute. repeat constructor; cbn; intuition discriminate.
    + exists [cx_G + 1; cx_G + 2; cx_G + 3; cx_G + 4]%nat. split.
      * exists (cx_G + 1)%nat, (cx_G + 2)%nat, [cx_G + 3; cx_G + 4]%nat, [VPtr (cx_G + 3) 0; VPtr (cx_G + 4) 0; VUndef], [VInt 0; VInt 0; VUndef], 3%nat, [0; 0].
        repeat (split; [reflexivity|]).
        split; [intros i Hi; destruct i as [|[|i]]; [reflexivity|reflexivity|cbn in Hi; lia]|].
        split; [intros i Hi; destruct i as [|[|i]]; [reflexivity|reflexivity|cbn in Hi; lia]|].
        split; [reflexivity|]. split; [reflexivity|].
        split; [intros i Hi; destruct i as [|[|i]]; [reflexivity|reflexivity|cbn in Hi; lia]|].
        split; [vm_compute; repeat constructor; cbn; intuition discriminate|]. cbn. lia.
      * intros b Hb. vm_compute in Hb. split; [vm_compute; intuition (subst; discriminate)|vm_compute; intuition (subst; lia)].
  - exists (cx_G + 6)%nat, [120; 10; 121]%N, 0%nat. repeat split; try reflexivity; try (cbn; lia); try (vm_compute; discriminate).
    repeat constructor; lia.
  - left. reflexivity.
  - repeat constructor.
  - cbv zeta. split; [vm_compute; reflexivity|]. split; [vm_compute; reflexivity|]. split; [vm_compute; reflexivity|].
    split; [unfold undo_ok|unfold redo_ok]; cbn; unfold splice_ok, i31; cbn; repeat split; lia.
Qed.
End C04_translated_composed.

(* ---- the corollary once more with undo_ok / redo_ok of the chain DERIVED from the ranges of the edit (edit_undo_redo_ok), and a sufficient
   condition for `fits` that does not mention the growth loop: every mark row r is an int with r + n_ins inside int, the capacity is positive and
   inside int, twice the new line count is inside int (the growth loop doubles: grow_le). *)
Section C04_translated_composed2.
Import Lia CLite CLiteProps CLiteExt GenCFuncs TrLbufBase TrUndoBase TrUndo TrUndoOpt TrUndoEdit TrSpliceMarks TrSpliceAll TrSpliceModels.
Import TrCmp4Str TrCmp4Rep TrCmp4 TrCmp4Loop TrCmp4Edit TrCmp4Ex.
Local Open Scope Z_scope.

Theorem C04_tr_undo_inverts_edit_ranges : forall (ext : nat -> list val -> mem -> res (val * mem)) (fuelR dR : nat), ext_is_replace ext fuelR dR ->
  forall (d fuel : nat) (m : mem) (bl : nat) (blk : block) (bh : nat) (hblk : block) (lb : lbuf) (bufv : val) (buf : option (list N)) (b e cap0 : nat) (cap' : Z),
  cp_oracle ext Tc bl -> urep Tc m bl blk bh hblk lb -> bufarg m bl bh bufv buf ->
  (forall (bb : nat) (o : Z), bufv = VPtr bb o -> ~ In bb (log_blocks hblk 0 (length (hist lb)))) ->
  (forall (bb : nat) (o : Z) fp, bufv = VPtr bb o -> Tc m (tcells blk) fp (ln lb) -> ~ In bb fp) ->
  (forall (bb : nat) s (o : Z), bufv = VPtr bb o -> str_at m bb s -> Z.of_nat (length s) + 2 <= 2147483647) ->
  (b <= e)%nat -> i31 e -> i31 (length (ln lb) + linecount buf) -> Z.of_nat (hist_sz lb) * 2 <= 2147483647 ->
  (length (hist lb) + 35 < fuel)%nat -> (linecount buf < fuel)%nat ->
  let b' := Nat.min b (length (ln lb)) in let e' := Nat.min e (length (ln lb)) in
  let need := Z.of_nat (length (ln lb)) + Z.of_nat (linecount buf) - Z.of_nat (e' - b') in
  nth_error blk L_ln_sz = Some (VInt (Z.of_nat cap0)) -> IoDefs.grow (IoDefs.grow_fuel need) need (Z.of_nat cap0) = Some cap' -> cap' <= 2147483647 ->
  (splice_fuel (length (ln lb)) (linecount buf) (e' - b') <= fuelR)%nat ->
  (forall (m1 : mem) (blk1 : block),
     callx ext cprog fuel (S (S (S (S d)))) F_lbuf_opt [VPtr bl 0; bufv; VInt (Z.of_nat b'); VInt (Z.of_nat (e' - b'))] m = Ok (VUndef, m1) ->
     nth_error m1 bl = Some blk1 ->
     forall k, (k < 32)%nat -> exists z, nth_error blk1 k = Some (VInt z) /\ row_fits (Z.of_nat b') (Z.of_nat (e' - b')) (Z.of_nat (linecount buf)) z) ->
  andb (Nat.eqb b' e') (is_none buf) = false -> lone_edit lb -> Forall line_wf (ln lb) ->
  let lb1 := lbuf_edit lb buf b e in let lb2 := undo1 lb1 in
  (forall m1, callx ext cprog fuel (S (S (S (S (S d))))) F_lbuf_edit [VPtr bl 0; bufv; VInt (Z.of_nat b); VInt (Z.of_nat e)] m = Ok (VUndef, m1) ->
     let lo := nth (hist_u lb1 - 1) (hist lb1) dflt in step_ok fuelR bl m1 (length (ln lb1)) (del lo) (pos lo) (n_ins lo)) ->
  (forall m1 m2, callx ext cprog fuel (S (S (S (S (S d))))) F_lbuf_edit [VPtr bl 0; bufv; VInt (Z.of_nat b); VInt (Z.of_nat e)] m = Ok (VUndef, m1) ->
     callx ext cprog fuel (S (S (S (S d)))) F_lbuf_undo [VPtr bl 0] m1 = Ok (VInt 0, m2) ->
     let lo := nth (hist_u lb2) (hist lb2) dflt in step_ok fuelR bl m2 (length (ln lb2)) (ins lo) (pos lo) (n_del lo)) ->
  exists (m1 m2 m3 : mem) (blk2 blk3 : block) (bh' : nat) (hblk' : block),
    callx ext cprog fuel (S (S (S (S (S d))))) F_lbuf_edit [VPtr bl 0; bufv; VInt (Z.of_nat b); VInt (Z.of_nat e)] m = Ok (VUndef, m1) /\
    callx ext cprog fuel (S (S (S (S d)))) F_lbuf_undo [VPtr bl 0] m1 = Ok (VInt 0, m2) /\
    callx ext cprog fuel (S (S (S (S d)))) F_lbuf_redo [VPtr bl 0] m2 = Ok (VInt 0, m3) /\
    urep Tc m2 bl blk2 bh' hblk' lb2 /\ ln lb2 = ln lb /\
    urep Tc m3 bl blk3 bh' hblk' (redo1 lb2) /\ ln (redo1 lb2) = edit_text (ln lb) buf b e.
Proof. exact tr_undo_inverts_edit_ranges. Qed.
Print Assumptions C04_tr_undo_inverts_edit_ranges.

Theorem C04_tr_fits_of_bounds : forall (blk : block) (n : nat) (s : option (list N)) (p nd cap : nat), (nd <= n)%nat ->
  (forall k, (k < 32)%nat -> exists z, nth_error blk k = Some (VInt z) /\ i32 z /\ z + Z.of_nat (linecount s) <= 2147483647) ->
  nth_error blk L_ln_sz = Some (VInt (Z.of_nat cap)) -> (0 < cap)%nat -> Z.of_nat cap <= 2147483647 ->
  2 * (Z.of_nat n + Z.of_nat (linecount s)) <= 2147483647 ->
  exists cap', fits blk n s p nd cap'.
Proof. exact fits_of_bounds. Qed.
Print Assumptions C04_tr_fits_of_bounds.
End C04_translated_composed2.

(* ---- the hypotheses of C04_tr_undo_inverts_edit_ranges that are stated on the memories of the run (the mark rows lbuf_opt leaves; step_ok at the entry of
   the undo and of the redo) HOLD on the concrete run of C04_tr_edit_undo_redo_runs: the memories are computed by vm_compute from the three translated calls,
   all 32 rows are -1 or small, the capacity goes 3 -> 6 and stays. *)
Section C04_translated_composed3.
Import Lia CLite CLiteProps CLiteExt GenCFuncs TrLbufBase TrUndoBase TrUndo TrUndoOpt TrUndoEdit TrSpliceMarks TrSpliceAll TrSpliceModels.
Import TrCmp4Str TrCmp4Rep TrCmp4 TrCmp4Loop TrCmp4Edit TrCmp4Ex.
Local Open Scope Z_scope.

Ltac marks32 := let k := fresh "k" in let Hk := fresh "Hk" in intros k Hk;
  do 32 (destruct k as [|k]; [eexists; split; [reflexivity|unfold row_fits, i32; cbn; split; [lia|intro; lia]]|]); lia.

Example C04_tr_chain_hypotheses_hold :
  (forall (m1 : mem) (blk1 : block),
     callx cx_ext cprog 100 (S (S (S (S 3)))) F_lbuf_opt [VPtr cx_G 0; VPtr (cx_G + 6) 0; VInt 1; VInt 1] cx_mem = Ok (VUndef, m1) ->
     nth_error m1 cx_G = Some blk1 ->
     forall k, (k < 32)%nat -> exists z, nth_error blk1 k = Some (VInt z) /\ row_fits 1 1 2 z) /\
  (let lb1 := lbuf_edit cx_lb (Some [120; 10; 121]%N) 1 2 in let lb2 := undo1 lb1 in
   (forall m1, callx cx_ext cprog 100 (S (S (S (S (S 3))))) F_lbuf_edit [VPtr cx_G 0; VPtr (cx_G + 6) 0; VInt 1; VInt 2] cx_mem = Ok (VUndef, m1) ->
     let lo := nth (hist_u lb1 - 1) (hist lb1) dflt in step_ok 100 cx_G m1 (length (ln lb1)) (del lo) (pos lo) (n_ins lo)) /\
   (forall m1 m2, callx cx_ext cprog 100 (S (S (S (S (S 3))))) F_lbuf_edit [VPtr cx_G 0; VPtr (cx_G + 6) 0; VInt 1; VInt 2] cx_mem = Ok (VUndef, m1) ->
     callx cx_ext cprog 100 (S (S (S (S 3)))) F_lbuf_undo [VPtr cx_G 0] m1 = Ok (VInt 0, m2) ->
     let lo := nth (hist_u lb2) (hist lb2) dflt in step_ok 100 cx_G m2 (length (ln lb2)) (ins lo) (pos lo) (n_del lo))).
Proof.
  split; [|split].
  - intros m1 blk1 C Hb. vm_compute in C. injection C as <-. vm_compute in Hb. injection Hb as <-.
    marks32.
  - intros m1 C. vm_compute in C. injection C as <-. cbv zeta.
    split; [|split].
    + eexists. exists 6. split; [vm_compute; reflexivity|]. split; [|split].
      * marks32.
      * exists 6%nat. split; vm_compute; reflexivity.
      * lia.
    + intros t Ht. vm_compute in Ht. injection Ht as <-. cbn. lia.
    + vm_compute. lia.
  - intros m1 m2 C1 C2. vm_compute in C1. injection C1 as <-. vm_compute in C2. injection C2 as <-. cbv zeta.
    split; [|split].
    + eexists. exists 6. split; [vm_compute; reflexivity|]. split; [|split].
      * marks32.
      * exists 6%nat. split; vm_compute; reflexivity.
      * lia.
    + intros t Ht. vm_compute in Ht. injection Ht as <-. cbn. lia.
    + vm_compute. lia.
Qed.
End C04_translated_composed3.

(* ---- lbuf_undo / lbuf_redo with the translated lbuf_replace linked in, groups of ANY size, side conditions on the ENTRY memory and the model only
   (TrCmp4Marks.v, TrCmp4Bound.v).  The mark helpers lbuf_markcopy / lbuf_loadpos / lbuf_loadmark are proved once more with the values they leave
   bounded, so one iteration (splice, lbuf_loadpos, 32 x lbuf_loadmark) takes `bnd B` -- every mark row of the struct an int <= B, the line count
   <= B, every mark row saved in a log record <= B, the capacity cell <= max K (2 B) -- to `bnd (B + n_ins)`.  undo_sizes / redo_sizes are
   conditions on the MODEL: at every record of the group 2 (B + n_ins) <= INT_MAX for the bound reached so far, B + n_ins + 34 <= fuelR, the
   record's text shorter than 2 GB.  With undo_ok / redo_ok (ranges) these are all the side conditions: no hypothesis about intermediate memories. *)
From NV Require TrCmp4Marks TrCmp4Bound.
Section C04_translated_bounded.
Import Lia CLite CLiteProps CLiteExt GenCFuncs TrLbufBase TrUndoBase TrUndo TrSpliceMarks TrSpliceAll TrSpliceModels.
Import TrCmp4 TrCmp4Loop TrCmp4Edit TrCmp4Marks TrCmp4Bound.
Local Open Scope Z_scope.

Theorem C04_tr_lbuf_undo_bounded : forall (ext : nat -> list val -> mem -> res (val * mem)) (fuelR dR : nat), ext_is_replace ext fuelR dR ->
  forall (bl bh : nat) (hblk : block) (d fuel : nat) (K : Z), K <= 2147483647 ->
  forall (m : mem) (blk : block) (lb : lbuf) (B : Z),
  urep Tc m bl blk bh hblk lb -> undo_ok lb -> 0 <= B -> bnd B K m blk hblk lb ->
  undo_sizes fuelR (hist_u lb) (seq_at (hist lb) (hist_u lb - 1)) B lb -> (hist_u lb + 33 < fuel)%nat ->
  match lbuf_undo lb with
  | Some lb' => exists (m' : mem) (blk' : block),
      callx ext cprog fuel (S (S (S (S d)))) F_lbuf_undo [VPtr bl 0] m = Ok (VInt 0, m') /\ urep Tc m' bl blk' bh hblk lb'
  | None => callx ext cprog fuel (S (S (S (S d)))) F_lbuf_undo [VPtr bl 0] m = Ok (VInt 1, m)
  end.
Proof. exact tr_lbuf_undo_bounded. Qed.
Print Assumptions C04_tr_lbuf_undo_bounded.

Theorem C04_tr_lbuf_redo_bounded : forall (ext : nat -> list val -> mem -> res (val * mem)) (fuelR dR : nat), ext_is_replace ext fuelR dR ->
  forall (bl bh : nat) (hblk : block) (d fuel : nat) (K : Z), K <= 2147483647 ->
  forall (m : mem) (blk : block) (lb : lbuf) (B : Z),
  urep Tc m bl blk bh hblk lb -> redo_ok lb -> 0 <= B -> bnd B K m blk hblk lb ->
  redo_sizes fuelR (length (hist lb) - hist_u lb) (seq_at (hist lb) (hist_u lb)) B lb -> (length (hist lb) - hist_u lb < fuel)%nat ->
  match lbuf_redo lb with
  | Some lb' => exists (m' : mem) (blk' : block),
      callx ext cprog fuel (S (S (S (S d)))) F_lbuf_redo [VPtr bl 0] m = Ok (VInt 0, m') /\ urep Tc m' bl blk' bh hblk lb'
  | None => callx ext cprog fuel (S (S (S (S d)))) F_lbuf_redo [VPtr bl 0] m = Ok (VInt 1, m)
  end.
Proof. exact tr_lbuf_redo_bounded. Qed.
Print Assumptions C04_tr_lbuf_redo_bounded.

(* the bound is satisfiable: the concrete buffer of C04_tr_edit_undo_redo_runs with B = 2 (two lines, every row -1, an empty log, capacity 3) *)
Example C04_tr_bound_nonvacuous : bnd 2 3 cx_mem cx_struct (repeat VUndef 36) cx_lb /\ size_ok 100 2 (Some [120; 10; 121]%N).
Proof.
  split.
  - split; [|split; [cbn; lia|split]].
    + intros k Hk. do 32 (destruct k as [|k]; [exists (-1); split; [reflexivity|unfold i32; lia]|]). lia.
    + intros i Hi. cbn in Hi. lia.
    + intros cap Hc. change (nth_error cx_struct L_ln_sz) with (Some (VInt 3)) in Hc. injection Hc as Hc. lia.
  - split; [cbn; lia|split; [cbn; lia|]]. intros t Ht. injection Ht as <-. cbn. lia.
Qed.
End C04_translated_bounded.

(* ---- the bounded loops also say which bound they leave (undo_bound / redo_bound), so calls compose; lbuf_edit with the bound; and the edit-undo-redo
   corollary once more with ONE hypothesis about an intermediate memory instead of three: `bnd B K` in the memory lbuf_opt returns (TrUndoOpt.tr_lbuf_opt
   does not expose the struct block it leaves).  The splice of the edit, the undo and the redo then follow from conditions on the model (size_ok). *)
From NV Require TrCmp4Chain.
Section C04_translated_chain.
Import Lia CLite CLiteProps CLiteExt GenCFuncs TrLbufBase TrUndoBase TrUndo TrUndoOpt TrUndoEdit TrSpliceMarks TrSpliceAll TrSpliceModels.
Import TrCmp4 TrCmp4Loop TrCmp4Edit TrCmp4Marks TrCmp4Bound TrCmp4Chain.
Local Open Scope Z_scope.

Theorem C04_tr_lbuf_undo_bounded_b : forall (ext : nat -> list val -> mem -> res (val * mem)) (fuelR dR : nat), ext_is_replace ext fuelR dR ->
  forall (bl bh : nat) (hblk : block) (d fuel : nat) (K : Z), K <= 2147483647 ->
  forall (m : mem) (blk : block) (lb : lbuf) (B : Z),
  urep Tc m bl blk bh hblk lb -> undo_ok lb -> 0 <= B -> bnd B K m blk hblk lb ->
  undo_sizes fuelR (hist_u lb) (seq_at (hist lb) (hist_u lb - 1)) B lb -> (hist_u lb + 33 < fuel)%nat ->
  match lbuf_undo lb with
  | Some lb' => exists (m' : mem) (blk' : block),
      callx ext cprog fuel (S (S (S (S d)))) F_lbuf_undo [VPtr bl 0] m = Ok (VInt 0, m') /\ urep Tc m' bl blk' bh hblk lb' /\
      bnd (undo_bound (hist_u lb) (seq_at (hist lb) (hist_u lb - 1)) B lb) K m' blk' hblk lb'
  | None => callx ext cprog fuel (S (S (S (S d)))) F_lbuf_undo [VPtr bl 0] m = Ok (VInt 1, m)
  end.
Proof. exact tr_lbuf_undo_bounded_b. Qed.
Print Assumptions C04_tr_lbuf_undo_bounded_b.

Theorem C04_tr_lbuf_redo_bounded_b : forall (ext : nat -> list val -> mem -> res (val * mem)) (fuelR dR : nat), ext_is_replace ext fuelR dR ->
  forall (bl bh : nat) (hblk : block) (d fuel : nat) (K : Z), K <= 2147483647 ->
  forall (m : mem) (blk : block) (lb : lbuf) (B : Z),
  urep Tc m bl blk bh hblk lb -> redo_ok lb -> 0 <= B -> bnd B K m blk hblk lb ->
  redo_sizes fuelR (length (hist lb) - hist_u lb) (seq_at (hist lb) (hist_u lb)) B lb -> (length (hist lb) - hist_u lb < fuel)%nat ->
  match lbuf_redo lb with
  | Some lb' => exists (m' : mem) (blk' : block),
      callx ext cprog fuel (S (S (S (S d)))) F_lbuf_redo [VPtr bl 0] m = Ok (VInt 0, m') /\ urep Tc m' bl blk' bh hblk lb' /\
      bnd (redo_bound (length (hist lb) - hist_u lb) (seq_at (hist lb) (hist_u lb)) B lb) K m' blk' hblk lb'
  | None => callx ext cprog fuel (S (S (S (S d)))) F_lbuf_redo [VPtr bl 0] m = Ok (VInt 1, m)
  end.
Proof. exact tr_lbuf_redo_bounded_b. Qed.
Print Assumptions C04_tr_lbuf_redo_bounded_b.

Theorem C04_tr_lbuf_edit_bounded : forall (ext : nat -> list val -> mem -> res (val * mem)) (fuelR dR : nat), ext_is_replace ext fuelR dR ->
  forall (d fuel : nat) (K : Z), K <= 2147483647 ->
  forall (m : mem) (bl : nat) (blk : block) (bh : nat) (hblk : block) (lb : lbuf) (bufv : val) (buf : option (list N)) (b e : nat) (B : Z),
  cp_oracle ext Tc bl -> urep Tc m bl blk bh hblk lb -> bufarg m bl bh bufv buf ->
  (forall (bb : nat) (o : Z), bufv = VPtr bb o -> ~ In bb (log_blocks hblk 0 (length (hist lb)))) ->
  (forall (bb : nat) (o : Z) fp, bufv = VPtr bb o -> Tc m (tcells blk) fp (ln lb) -> ~ In bb fp) ->
  (forall (bb : nat) s (o : Z), bufv = VPtr bb o -> str_at m bb s -> Z.of_nat (length s) + 2 <= 2147483647) ->
  (b <= e)%nat -> i31 e -> i31 (length (ln lb) + linecount buf) -> Z.of_nat (hist_sz lb) * 2 <= 2147483647 ->
  (length (hist lb) - hist_u lb < fuel)%nat -> (linecount buf < fuel)%nat -> (28 < fuel)%nat ->
  let b' := Nat.min b (length (ln lb)) in let e' := Nat.min e (length (ln lb)) in
  0 <= B -> size_ok fuelR B buf ->
  (forall (m1 : mem) (blk1 : block) (bh1 : nat) (hblk1 : block),
     callx ext cprog fuel (S (S (S (S d)))) F_lbuf_opt [VPtr bl 0; bufv; VInt (Z.of_nat b'); VInt (Z.of_nat (e' - b'))] m = Ok (VUndef, m1) ->
     urep Tc m1 bl blk1 bh1 hblk1 (lbuf_opt lb buf b' (e' - b')) -> bnd B K m1 blk1 hblk1 (lbuf_opt lb buf b' (e' - b'))) ->
  andb (Nat.eqb b' e') (is_none buf) = false ->
  exists (m' : mem) (blk' : block) (bh' : nat) (hblk' : block),
    callx ext cprog fuel (S (S (S (S (S d))))) F_lbuf_edit [VPtr bl 0; bufv; VInt (Z.of_nat b); VInt (Z.of_nat e)] m = Ok (VUndef, m') /\
    urep Tc m' bl blk' bh' hblk' (lbuf_edit lb buf b e) /\ bnd (B + Z.of_nat (linecount buf)) K m' blk' hblk' (lbuf_edit lb buf b e).
Proof. exact tr_lbuf_edit_bounded. Qed.
Print Assumptions C04_tr_lbuf_edit_bounded.

Theorem C04_tr_undo_inverts_edit_bounded : forall (ext : nat -> list val -> mem -> res (val * mem)) (fuelR dR : nat), ext_is_replace ext fuelR dR ->
  forall (d fuel : nat) (K : Z), K <= 2147483647 ->
  forall (m : mem) (bl : nat) (blk : block) (bh : nat) (hblk : block) (lb : lbuf) (bufv : val) (buf : option (list N)) (b e : nat) (B : Z),
  cp_oracle ext Tc bl -> urep Tc m bl blk bh hblk lb -> bufarg m bl bh bufv buf ->
  (forall (bb : nat) (o : Z), bufv = VPtr bb o -> ~ In bb (log_blocks hblk 0 (length (hist lb)))) ->
  (forall (bb : nat) (o : Z) fp, bufv = VPtr bb o -> Tc m (tcells blk) fp (ln lb) -> ~ In bb fp) ->
  (forall (bb : nat) s (o : Z), bufv = VPtr bb o -> str_at m bb s -> Z.of_nat (length s) + 2 <= 2147483647) ->
  (b <= e)%nat -> i31 e -> i31 (length (ln lb) + linecount buf) -> Z.of_nat (hist_sz lb) * 2 <= 2147483647 ->
  (length (hist lb) + 35 < fuel)%nat -> (linecount buf < fuel)%nat ->
  let b' := Nat.min b (length (ln lb)) in let e' := Nat.min e (length (ln lb)) in
  0 <= B ->
  (forall (m1 : mem) (blk1 : block) (bh1 : nat) (hblk1 : block),
     callx ext cprog fuel (S (S (S (S d)))) F_lbuf_opt [VPtr bl 0; bufv; VInt (Z.of_nat b'); VInt (Z.of_nat (e' - b'))] m = Ok (VUndef, m1) ->
     urep Tc m1 bl blk1 bh1 hblk1 (lbuf_opt lb buf b' (e' - b')) -> bnd B K m1 blk1 hblk1 (lbuf_opt lb buf b' (e' - b'))) ->
  andb (Nat.eqb b' e') (is_none buf) = false -> lone_edit lb -> Forall line_wf (ln lb) ->
  let lb1 := lbuf_edit lb buf b e in let lb2 := undo1 lb1 in
  size_ok fuelR B buf ->
  (let lo := nth (hist_u lb1 - 1) (hist lb1) dflt in size_ok fuelR (B + Z.of_nat (linecount buf)) (del lo)) ->
  (let lo1 := nth (hist_u lb1 - 1) (hist lb1) dflt in let lo := nth (hist_u lb2) (hist lb2) dflt in
   size_ok fuelR (B + Z.of_nat (linecount buf) + Z.of_nat (linecount (del lo1))) (ins lo)) ->
  exists (m1 m2 m3 : mem) (blk2 blk3 : block) (bh' : nat) (hblk' : block),
    callx ext cprog fuel (S (S (S (S (S d))))) F_lbuf_edit [VPtr bl 0; bufv; VInt (Z.of_nat b); VInt (Z.of_nat e)] m = Ok (VUndef, m1) /\
    callx ext cprog fuel (S (S (S (S d)))) F_lbuf_undo [VPtr bl 0] m1 = Ok (VInt 0, m2) /\
    callx ext cprog fuel (S (S (S (S d)))) F_lbuf_redo [VPtr bl 0] m2 = Ok (VInt 0, m3) /\
    urep Tc m2 bl blk2 bh' hblk' lb2 /\ ln lb2 = ln lb /\
    urep Tc m3 bl blk3 bh' hblk' (redo1 lb2) /\ ln (redo1 lb2) = edit_text (ln lb) buf b e.
Proof. exact tr_undo_inverts_edit_bounded. Qed.
Print Assumptions C04_tr_undo_inverts_edit_bounded.
End C04_translated_chain.

(* ---- the hypotheses of C04_tr_undo_inverts_edit_bounded hold on the concrete run: the bound B = 2, K = 3 in the memory the translated lbuf_opt returns
   (computed by vm_compute; every row is -1, the new record has no saved rows, the capacity is 3), and the three size conditions of the model. *)
Section C04_translated_chain_example.
Import Lia CLite CLiteProps CLiteExt GenCFuncs TrLbufBase TrUndoBase TrUndo TrUndoOpt TrUndoEdit.
Import TrCmp4 TrCmp4Loop TrCmp4Edit TrCmp4Marks TrCmp4Bound TrCmp4Chain.
Local Open Scope Z_scope.

Ltac rows32 := let k := fresh "k" in let Hk := fresh "Hk" in intros k Hk;
  do 32 (destruct k as [|k]; [eexists; split; [reflexivity|split; [split; lia|lia]]|]); lia.

Example C04_tr_chain_bound_holds :
  (forall (m1 : mem) (blk1 : block) (bh1 : nat) (hblk1 : block),
     callx cx_ext cprog 100 (S (S (S (S 3)))) F_lbuf_opt [VPtr cx_G 0; VPtr (cx_G + 6) 0; VInt 1; VInt 1] cx_mem = Ok (VUndef, m1) ->
     urep Tc m1 cx_G blk1 bh1 hblk1 (lbuf_opt cx_lb (Some [120; 10; 121]%N) 1 1) -> bnd 2 3 m1 blk1 hblk1 (lbuf_opt cx_lb (Some [120; 10; 121]%N) 1 1)) /\
  (let lb1 := lbuf_edit cx_lb (Some [120; 10; 121]%N) 1 2 in let lb2 := undo1 lb1 in
   size_ok 100 2 (Some [120; 10; 121]%N) /\
   (let lo := nth (hist_u lb1 - 1) (hist lb1) dflt in size_ok 100 (2 + Z.of_nat (linecount (Some [120; 10; 121]%N))) (del lo)) /\
   (let lo1 := nth (hist_u lb1 - 1) (hist lb1) dflt in let lo := nth (hist_u lb2) (hist lb2) dflt in
    size_ok 100 (2 + Z.of_nat (linecount (Some [120; 10; 121]%N)) + Z.of_nat (linecount (del lo1))) (ins lo))).
Proof.
  split.
  - intros m1 blk1 bh1 hblk1 C R1. vm_compute in C. injection C as <-.
    pose proof (u_blk _ _ _ _ _ _ _ R1) as Hb. vm_compute in Hb. injection Hb as <-.
    pose proof (u_hist _ _ _ _ _ _ _ R1) as Hh. vm_compute in Hh. injection Hh as <-.
    pose proof (u_hblk _ _ _ _ _ _ _ R1) as Hk. vm_compute in Hk. injection Hk as <-. clear R1.
    split; [|split; [cbn; lia|split]].
    + rows32.
    + intros i Hi. cbn in Hi. assert (i = 0)%nat by lia. subst i. intros bm mb j z H7. vm_compute in H7. discriminate.
    + intros cap Hc. unfold L_ln_sz in Hc. cbn [nth_error] in Hc. injection Hc as Hc. lia.
  - cbv zeta. split; [|split]; (split; [vm_compute; discriminate|split; [vm_compute; discriminate|]]); intros t Ht; vm_compute in Ht; injection Ht as <-; cbn; lia.
Qed.
End C04_translated_chain_example.

(* ---- lbuf_cp on the translated C text (coq/TrLbufCp.v; whitelist tools/c2clite.d/99zzzzz_lbufcp.list), and the oracle hypothesis cp_oracle of
   C04_tr_lbuf_opt / C04_tr_lbuf_edit / C04_tr_lbuf_edit_full / the chain theorems discharged with the function itself (coq/TrLbufCpUse.v).
   * C04_tr_lbuf_cp: for EVERY memory that holds a line table (cp_view: the struct's cells ln and ln_n, the pointer array, one block per line
     holding the line as a C string), every beg >= 0 and every end (end < beg: the empty copy; rows >= ln_n are skipped, as the C text's
     `if (i < lb->ln_n)` says) the call returns a pointer to the start of a block that did not exist before; the block starts with exactly the
     rows beg..end-1 one after the other plus the terminator (it is LONGER than the string: sbuf.c's capacity); every block that existed before
     is unchanged; the struct sbuf (the first new block) has been freed.  Side conditions: the copy is at most 500 MB (every size computation of
     sbuf.c then stays inside int), one unit of loop fuel per row.  No oracle is left: sbuf_make / sbuf_str / sbuf_done are coq/TrSbuf.v.
   * C04_tr_cp_discharged: every oracle that answers X_lbuf_cp by running the translated lbuf_cp satisfies the statement of cp_oracle for the
     concrete table predicate Tc, on every state whose lines have no NUL byte, for every copy of at most 500 MB that the fuel covers.  These three
     side conditions are exactly what cp_oracle (stated for ALL memories, rows and sizes with one fixed oracle) leaves out and the real function
     needs: cp_oracle itself is cp_oracle_when with the trivial side condition (C04_tr_cp_oracle_is_when). *)
From NV Require Bytes TrSbuf TrLbufCp TrLbufCpUse.
Section C04_translated_cp.
Import Lia CLite CLiteProps CLiteExt GenCFuncs TrLbufBase TrUndoBase TrUndoOpt TrCmp4.
Local Open Scope Z_scope.

Theorem C04_tr_lbuf_cp : forall (m : mem) (bl : nat) (lines : list (list N)) (b e : Z) (d fuel : nat),
  TrLbufCp.cp_view m bl lines -> 0 <= b -> -2147483648 <= e <= 2147483647 ->
  TrLbufCp.total (TrLbufCp.cp_rows lines b e) <= 500000000 -> (Z.to_nat (e - b) < fuel)%nat ->
  exists (pb : nat) (m' : mem) (rest : block),
    callf cprog fuel (S (S (S (S d)))) F_lbuf_cp [VPtr bl 0; VInt b; VInt e] m = Ok (VPtr pb 0, m') /\
    nth_error m' pb = Some (cstr_block (zb (TrLbufCp.cp_bytes lines b e)) ++ rest) /\
    (length m < pb < length m')%nat /\ nth_error m' (length m) = Some [] /\
    (forall k, (k < length m)%nat -> nth_error m' k = nth_error m k).
Proof. exact TrLbufCp.tr_lbuf_cp. Qed.
Print Assumptions C04_tr_lbuf_cp.

Theorem C04_tr_cp_discharged : forall (ext : nat -> list val -> mem -> res (val * mem)) (fuel d bl : nat),
  (forall args m, ext X_lbuf_cp args m = callf cprog fuel (S (S (S (S d)))) F_lbuf_cp args m) ->
  forall (m : mem) (blk : block) (bh : nat) (hblk : block) (lb : lbuf) (b e : nat),
    urep Tc m bl blk bh hblk lb -> i31 e ->
    Forall Bytes.nonul (ln lb) -> Z.of_nat (length (lbuf_cp lb b e)) <= 500000000 -> (e - b < fuel)%nat ->
    exists bd (m' : mem), ext X_lbuf_cp [VPtr bl 0; VInt (Z.of_nat b); VInt (Z.of_nat e)] m = Ok (VPtr bd 0, m') /\
      (length m <= bd < length m')%nat /\ (forall b', (b' < length m)%nat -> nth_error m' b' = nth_error m b') /\
      cstr_from m' bd 0 (lbuf_cp lb b e) /\ Bytes.nonul (lbuf_cp lb b e).
Proof.
  intros ext fuel d bl X m blk bh hblk lb b e R He Hn Hs Hf.
  exact (TrLbufCpUse.tr_cp_discharged_C04 ext fuel d bl X m blk bh hblk lb b e R He (conj Hn (conj Hs Hf))).
Qed.
Print Assumptions C04_tr_cp_discharged.

Theorem C04_tr_cp_oracle_is_when : forall (ext : nat -> list val -> mem -> res (val * mem)) (T : Tpred) (bl : nat),
  TrLbufCpUse.cp_oracle_when (fun _ _ _ => True) ext T bl <-> cp_oracle ext T bl.
Proof. exact TrLbufCpUse.cp_oracle_when_true. Qed.
Print Assumptions C04_tr_cp_oracle_is_when.

(* not vacuous, and the translated lbuf_cp RUNS: on the buffer of C04_tr_edit_undo_redo_runs (two lines "a\n", "b\n") lbuf_cp(lb, 0, 2) returns
   the block behind the freed struct sbuf; it starts with "a\nb\n" and the terminator (and is 128 cells long); lbuf_cp(lb, 1, 5) copies row 1
   only.  The memory satisfies cp_view and urep Tc, the side conditions of C04_tr_cp_discharged hold, and the oracle TrLbufCpUse.ext_cp is one
   that runs the C text. *)
Example C04_tr_cp_runs :
  (match callf cprog 100 8 F_lbuf_cp [VPtr cx_G 0; VInt 0; VInt 2] cx_mem with
   | Ok (VPtr pb 0, m') => pb = S (length cx_mem) /\ firstn 5 (nth pb m' []) = cstr_block [97; 10; 98; 10] /\ length (nth pb m' []) = 128%nat /\
                           nth_error m' (length cx_mem) = Some [] /\ firstn (length cx_mem) m' = cx_mem
   | _ => False
   end) /\
  (match callf cprog 100 8 F_lbuf_cp [VPtr cx_G 0; VInt 1; VInt 5] cx_mem with
   | Ok (VPtr pb 0, m') => firstn 3 (nth pb m' []) = cstr_block [98; 10]
   | _ => False
   end) /\
  TrLbufCp.cp_view cx_mem cx_G (ln cx_lb) /\ urep Tc cx_mem cx_G cx_struct (cx_G + 5) (repeat VUndef 36) cx_lb /\
  Forall Bytes.nonul (ln cx_lb) /\ Z.of_nat (length (lbuf_cp cx_lb 0 2)) <= 500000000 /\ (2 - 0 < 100)%nat /\
  (forall args m, TrLbufCpUse.ext_cp 100 4 X_lbuf_cp args m = callf cprog 100 8 F_lbuf_cp args m).
Proof.
  assert (N : Forall Bytes.nonul (ln cx_lb)) by (repeat constructor; lia).
  pose proof C04_tr_edit_undo_redo_runs as (_ & R & _).
  split; [vm_compute; repeat split; reflexivity|]. split; [vm_compute; reflexivity|].
  split; [apply (TrLbufCpUse.urep_view _ _ _ _ _ _ R N)|]. split; [exact R|]. split; [exact N|].
  split; [cbn; lia|]. split; [lia|]. exact (TrLbufCpUse.ext_cp_is 100 4).
Qed.
End C04_translated_cp.
