(* ReStrict.v -- with the strict parser (flag re_bad, pattern consumed completely) and the self-containedness
   test of re_groupcount: every pattern set rset_make accepts passes rset_shape, i.e. the hypothesis of
   C10_rset_index / C10_rset_index_semantic holds for every accepted set.
   Method: re_groupcount's scanner gcount is used as the lexer.  Seg pre k: scanning the prefix pre (whatever
   follows it) counts k groups and returns to the depth it started from without ever closing a group it did not
   open.  Every clean (flag not set) call of a parser function consumes such a segment with k = the groups of
   the tree it returns (or runs to the end of the string: an unclosed bracket).  A self-contained pattern is a
   segment; two segments that start at the same place and are both followed by a closing parenthesis coincide. *)
From Coq Require Import List Arith Lia Bool ZArith NArith ZifyN ZifyBool ZifyNat.
From NV Require Import Bytes GenConsts ReSyntax ReParse ReEmit ReVM ReSem RsetDefs ReProps6 ReProps7 ReProps11 ReGroups.
Import ListNotations.
Local Open Scope N_scope.

(* ---- the lexer ---------------------------------------------------------------------------------- *)
Definition plainb (c : N) : bool := negb ((c =? 92) || (c =? 91) || (c =? 40) || (c =? 41)).
Definition Seg (pre : bytes) (k : nat) : Prop :=
  forall r n d, gcount (pre ++ r) 0 n d = gcount r 0 (n + k) d.

Lemma seg_nil : Seg [] 0.
Proof. intros r n d. cbn [app]. rewrite Nat.add_0_r. reflexivity. Qed.
Lemma seg_app a b k1 k2 : Seg a k1 -> Seg b k2 -> Seg (a ++ b) (k1 + k2).
Proof. intros A B r n d. rewrite <- app_assoc, A, B. f_equal. lia. Qed.
Lemma seg_plain1 c : plainb c = true -> Seg [c] 0.
Proof.
  intros P r n d. cbn [app gcount]. unfold plainb in P.
  destruct (c =? 92) eqn:E1; [cbn in P; discriminate|]. destruct (c =? 91) eqn:E2; [cbn in P; discriminate|].
  destruct (c =? 40) eqn:E3; [cbn in P; discriminate|]. destruct (c =? 41) eqn:E4; [cbn in P; discriminate|].
  rewrite Nat.add_0_r. reflexivity.
Qed.
Lemma seg_plain pre : Forall (fun c => plainb c = true) pre -> Seg pre 0.
Proof.
  induction 1 as [|c l Hc _ IH]; [apply seg_nil|]. change (c :: l) with ([c] ++ l). change 0%nat with (0 + 0)%nat.
  apply seg_app; [apply seg_plain1; exact Hc | exact IH].
Qed.
Lemma seg_grp a k : Seg a k -> Seg (40 :: a ++ [41]) (S k).
Proof.
  intros A r n d. change (gcount ((40 :: a ++ [41]) ++ r) 0 n d) with (gcount ((a ++ [41]) ++ r) 0 (S n) (S d)).
  rewrite <- app_assoc, A. change (gcount ([41] ++ r) 0 (S n + k) (S d)) with (gcount r 0 (S n + k) d). f_equal. lia.
Qed.
Lemma seg_esc b : Seg [92; b] 0.
Proof. intros r n d. cbn [app gcount]. rewrite Nat.add_0_r. reflexivity. Qed.

(* skipping *)
Lemma gcount_skip : forall k r n d, (k <= length r)%nat -> gcount r k n d = gcount (skipn k r) 0 n d.
Proof.
  induction k as [|k IH]; intros r n d L; [reflexivity|].
  destruct r as [|c r]; [cbn in L; lia|]. cbn [gcount skipn]. apply IH. cbn in L. lia.
Qed.

(* a ')' at the depth where the scan started is refused *)
Lemma gcount_close0 r n : gcount (41 :: r) 0 n 0 = None.
Proof. reflexivity. Qed.
Lemma gcount_nil n : gcount [] 0 n 0 = Some n.
Proof. reflexivity. Qed.

(* ---- a closed bracket expression is a segment: brk_len only looks at the bytes up to the closing ']' ----- *)
Lemma nth_firstn_lt {A} (l : list A) : forall m i d, (i < m)%nat -> nth i (firstn m l) d = nth i l d.
Proof.
  induction l as [|x l IH]; intros m i d L; [rewrite firstn_nil; reflexivity|].
  destruct m as [|m]; [lia|]. destruct i as [|i]; [reflexivity|]. cbn [firstn nth]. apply IH. lia.
Qed.
Lemma nthb_firstn_eq (u s : bytes) m i : firstn m u = firstn m s -> (i < m)%nat -> nthb u i = nthb s i.
Proof. intros E L. unfold nthb. rewrite <- (nth_firstn_lt u m i 0 L), <- (nth_firstn_lt s m i 0 L), E. reflexivity. Qed.

Lemma hd0_firstn_eq (u s : bytes) m : firstn (S m) u = firstn (S m) s -> hd0 u = hd0 s.
Proof. destruct u, s; cbn [firstn hd0]; intro E; inversion E; reflexivity. Qed.

Lemma brk_body_dep : forall t inner b, brk_body inner t = b -> (b < length t)%nat ->
  forall u, firstn (S b) u = firstn (S b) t -> brk_body inner u = b.
Proof.
  induction t as [|c r IH]; intros inner b E L u F; [cbn in L; lia|].
  destruct u as [|c' r']; [cbn in F; discriminate|]. cbn [firstn] in F. inversion F; subst c'. clear F. rename H1 into F.
  cbn [brk_body] in E |- *. cbn [length] in L.
  destruct inner.
  - destruct (c =? 93); (destruct b as [|b']; [discriminate|]); inversion E as [E']; f_equal; rewrite E'; eapply IH; eauto; lia.
  - destruct (c =? 93); [destruct b; [reflexivity | discriminate]|].
    destruct b as [|b']; [destruct ((c =? 91) && ((hd0 r =? 58) || (hd0 r =? 61))); discriminate|].
    assert (Hh : hd0 r' = hd0 r).
    { destruct r as [|x r0]; [cbn in L; lia|]. destruct r' as [|x' r0']; [cbn in F; discriminate|]. cbn [firstn] in F. inversion F. reflexivity. }
    rewrite Hh. destruct ((c =? 91) && ((hd0 r =? 58) || (hd0 r =? 61))); inversion E as [E']; f_equal; rewrite E'; eapply IH; eauto; lia.
Qed.

Lemma brk_body_lt inner t : nthb t (brk_body inner t) <> 0 -> (brk_body inner t < length t)%nat.
Proof. intro H. destruct (Nat.lt_ge_cases (brk_body inner t) (length t)) as [A|A]; [exact A|]. exfalso. apply H. apply nthb_beyond. exact A. Qed.

Lemma firstn_firstn_le {A} (l : list A) a b : (a <= b)%nat -> firstn a (firstn b l) = firstn a l.
Proof. intro L. rewrite firstn_firstn. f_equal. lia. Qed.

(* the bytes up to and including the closing bracket determine brk_len *)
Lemma brk_dep s : brk_closed s = true -> forall u, firstn (brk_len s) u = firstn (brk_len s) s ->
  brk_closed u = true /\ brk_len u = brk_len s /\ (2 <= brk_len s <= length s)%nat.
Proof.
  unfold brk_closed, brk_len. intros C.
  set (n1 := if nthb s 1 =? 94 then 2%nat else 1%nat) in *.
  set (n2 := if nthb s n1 =? 93 then S n1 else n1) in *.
  set (b := brk_body false (skipn n2 s)) in *.
  rewrite C. intros u F.
  assert (Hn : (1 <= n1 <= n2)%nat) by (subst n1 n2; destruct (nthb s 1 =? 94); destruct (nthb s _ =? 93); lia).
  assert (Hlt : (n2 + b < length s)%nat).
  { destruct (Nat.lt_ge_cases (n2 + b) (length s)) as [A|A]; [exact A|]. rewrite nthb_beyond in C by exact A. discriminate. }
  assert (E1 : nthb u 1 = nthb s 1) by (eapply nthb_firstn_eq; [exact F | lia]).
  assert (En1 : (if nthb u 1 =? 94 then 2%nat else 1%nat) = n1) by (rewrite E1; reflexivity).
  rewrite En1.
  assert (E2 : nthb u n1 = nthb s n1) by (eapply nthb_firstn_eq; [exact F | lia]).
  rewrite E2. fold n2.
  assert (Eb : brk_body false (skipn n2 u) = b).
  { eapply brk_body_dep; [reflexivity | |].
    - rewrite skipn_length. lia.
    - rewrite !firstn_skipn_comm. f_equal. replace (n2 + S b)%nat with (S (n2 + b)) by lia. exact F. }
  rewrite Eb.
  assert (E3 : nthb u (n2 + b) = nthb s (n2 + b)) by (eapply nthb_firstn_eq; [exact F | lia]).
  rewrite E3, C. split; [reflexivity|]. split; [reflexivity | lia].
Qed.

Lemma seg_brk s : hd0 s = 91 -> brk_closed s = true -> Seg (firstn (brk_len s) s) 0.
Proof.
  intros H C r n d.
  destruct (brk_dep s C s eq_refl) as (_ & _ & B).
  destruct (brk_dep s C (firstn (brk_len s) s ++ r)) as (C' & L' & _).
  { rewrite firstn_app. rewrite firstn_length. replace (brk_len s - Nat.min (brk_len s) (length s))%nat with 0%nat by lia.
    cbn [firstn]. rewrite app_nil_r. apply firstn_firstn_le. lia. }
  set (u := firstn (brk_len s) s ++ r) in *.
  assert (Hu : exists r0, u = 91 :: r0).
  { destruct s as [|c s0]; [cbn in H; lia|]. cbn [hd0] in H. subst c. subst u. destruct (brk_len (91 :: s0)) eqn:Q; [lia|]. cbn [firstn app]. eauto. }
  destruct Hu as (r0 & Eu). rewrite Eu. cbn [gcount]. change (91 =? 92) with false. change (91 =? 91) with true. cbv iota.
  rewrite <- Eu. rewrite C', L'. rewrite gcount_skip.
  - f_equal; [|lia]. rewrite Eu in *. change r0 with (skipn 1 (91 :: r0)). rewrite skipn_skipn. rewrite <- Eu.
    replace (1 + (brk_len s - 1))%nat with (brk_len s) by lia. subst u.
    rewrite skipn_app. rewrite firstn_length. replace (brk_len s - Nat.min (brk_len s) (length s))%nat with 0%nat by lia.
    rewrite skipn_all2 by (rewrite firstn_length; lia). reflexivity.
  - assert (length u = S (length r0)) by (rewrite Eu; reflexivity). subst u. rewrite app_length, firstn_length in H0. lia.
Qed.

(* ---- a self-contained pattern is a segment, whatever follows it ---------------------------------- *)
Lemma gcount_ext : forall p skip n0 d0 m, gcount p skip n0 d0 = Some m -> (skip <= length p)%nat ->
  forall r n d, gcount (p ++ r) skip (n0 + n) (d0 + d) = gcount r 0 (m + n) d.
Proof.
  induction p as [|c p IH]; intros skip n0 d0 m H L r n d.
  - cbn [length] in L. assert (skip = 0%nat) by lia. subst skip. cbn [gcount] in H.
    destruct (Nat.eqb d0 0) eqn:E; [|discriminate]. apply Nat.eqb_eq in E. inversion H; subst. reflexivity.
  - destruct skip as [|k].
    + cbn [app]. cbn [gcount] in H |- *.
      destruct (c =? 92) eqn:E1.
      { destruct p as [|c2 p']; [discriminate|]. cbn [app]. apply (IH 1%nat); [exact H | cbn; lia]. }
      destruct (c =? 91) eqn:E2.
      { destruct (brk_closed (c :: p)) eqn:C; [|discriminate].
        destruct (brk_dep (c :: p) C (c :: p)) as (_ & _ & B); [reflexivity|].
        destruct (brk_dep (c :: p) C ((c :: p) ++ r)) as (C' & L' & _).
        { rewrite firstn_app. replace (brk_len (c :: p) - length (c :: p))%nat with 0%nat by lia. cbn [firstn]. apply app_nil_r. }
        cbn [app] in C', L'. rewrite C', L'. apply IH; [exact H | cbn [length] in B; lia]. }
      destruct (c =? 40) eqn:E3.
      { change (S (n0 + n)) with (S n0 + n)%nat. change (S (d0 + d)) with (S d0 + d)%nat. apply IH; [exact H | lia]. }
      destruct (c =? 41) eqn:E4.
      { destruct d0 as [|d0']; [discriminate|]. cbn [Nat.add]. apply IH; [exact H | lia]. }
      apply IH; [exact H | lia].
    + cbn [app gcount] in H |- *. apply IH; [exact H | cbn in L; lia].
Qed.

Definition selfc (p : bytes) (k : nat) : Prop := re_groupcount_opt p = Some k.
Lemma selfc_seg p k : selfc p k -> Seg p k.
Proof.
  intros H r n d. pose proof (gcount_ext p 0 0 0 k H ltac:(lia) r n d) as G. cbn [Nat.add] in G. rewrite G. f_equal. lia.
Qed.
Lemma selfc_count p k : selfc p k -> re_groupcount p = k.
Proof. unfold selfc, re_groupcount. intros ->. reflexivity. Qed.

(* two segments that start at the same place and are both followed by ')' coincide *)
Lemma seg_unique p k pre k' (t s2 : bytes) : Seg p k -> Seg pre k' -> pre ++ s2 = p ++ 41 :: t -> hd0 s2 = 41 ->
  pre = p /\ s2 = 41 :: t.
Proof.
  intros Sp Spre E H.
  destruct (app_eq_app _ _ _ _ E) as (z & [[E1 E2]|[E1 E2]]).
  - (* pre = p ++ z *)
    destruct z as [|c z]; [rewrite app_nil_r in E1; cbn [app] in E2; split; [exact E1 | symmetry; exact E2]|].
    exfalso. cbn [app] in E2. inversion E2; subst c. 
    pose proof (Spre [] 0%nat 0%nat) as G1. rewrite app_nil_r in G1. rewrite E1 in G1. rewrite Sp in G1. cbn in G1. discriminate.
  - (* p = pre ++ z *)
    destruct z as [|c z]; [rewrite app_nil_r in E1; cbn [app] in E2; split; [symmetry; exact E1 | exact E2]|].
    exfalso. rewrite E2 in H. cbn [app hd0] in H. subst c.
    pose proof (Sp [] 0%nat 0%nat) as G1. rewrite app_nil_r in G1. rewrite E1 in G1. rewrite Spre in G1. cbn in G1. discriminate.
Qed.

(* ---- the parser side ---------------------------------------------------------------------------- *)
(* the bytes after the first one of a (possibly multi-byte) character are not special for the lexer: true for
   ASCII strings (every character is one byte) and for valid UTF-8 (they are continuation bytes >= 128) *)
Definition mbok (s : bytes) : Prop :=
  forall i j, (0 < j < re_uclen (skipn i s))%nat -> plainb (nthb s (i + j)) = true.
Lemma mbok_skipn s k : mbok s -> mbok (skipn k s).
Proof. intros H i j L. rewrite skipn_skipn in L. rewrite nthb_skipn. replace (k + (i + j))%nat with ((k + i) + j)%nat by lia. apply H. exact L. Qed.
Lemma mbok_tl s : mbok s -> mbok (tl s).
Proof. intro H. change (tl s) with (skipn 1 s). apply mbok_skipn. exact H. Qed.

Definition plainP (c : N) : Prop := plainb c = true.
Definition ppx (s' s : bytes) : Prop := exists pre, s = pre ++ s' /\ Forall plainP pre.
Lemma ppx_refl s : ppx s s. Proof. exists []. split; [reflexivity | constructor]. Qed.
Lemma ppx_trans a b c : ppx a b -> ppx b c -> ppx a c.
Proof. intros (p & -> & Hp) (q & -> & Hq). exists (q ++ p). split; [rewrite app_assoc; reflexivity | apply Forall_app; split; assumption]. Qed.
Lemma ppx_tl s : plainb (hd0 s) = true -> ppx (tl s) s.
Proof. destruct s as [|c t]; cbn [hd0 tl]; intro H; [apply ppx_refl|]. exists [c]. split; [reflexivity | constructor; [exact H | constructor]]. Qed.
Lemma ppx_digits t : forall c0, ppx (snd (digits t c0)) t.
Proof.
  induction t as [|b r IH]; intro c0; cbn [digits]; [apply ppx_refl|].
  destruct (isdigit b) eqn:D; [|apply ppx_refl].
  eapply ppx_trans; [apply IH|]. apply (ppx_tl (b :: r)). cbn [hd0]. unfold isdigit in D. unfold plainb. lia.
Qed.
Lemma ppx_seg s' s : ppx s' s -> exists pre, s = pre ++ s' /\ Seg pre 0.
Proof. intros (pre & E & F). exists pre. split; [exact E | apply seg_plain; exact F]. Qed.

Lemma eqb_plain c v : (c =? v) = true -> plainb v = true -> plainb c = true.
Proof. intros E P. apply N.eqb_eq in E. subst. exact P. Qed.

Lemma brace_ppx s mn0 mx0 r s' :
  (if hd0 s =? 123 then
       let s := tl s in
       let '(mn, s) := digits s 0%Z in
       let '(mx, s) := if hd0 s =? 44 then let s := tl s in digits s (if hd0 s =? 125 then (-1)%Z else 0%Z) else (mn, s) in
       if negb (hd0 s =? 125) || (NREPS <? mn)%Z || (NREPS <? mx)%Z || ((0 <=? mx)%Z && (mx <? mn)%Z) then Ok (None, s) else Ok (Some (mn, mx), tl s)
     else Ok (Some (mn0, mx0), s)) = Ok (Some r, s') -> ppx s' s.
Proof.
  destruct (hd0 s =? 123) eqn:E; [|intro H; inversion H; apply ppx_refl].
  cbv zeta.
  pose proof (ppx_digits (tl s) 0%Z) as C1. destruct (digits (tl s) 0) as [mn1 s1]. cbn [snd] in C1.
  assert (T0 : ppx (tl s) s) by (apply ppx_tl; eapply eqb_plain; [exact E | reflexivity]).
  destruct (hd0 s1 =? 44) eqn:E44.
  - pose proof (ppx_digits (tl s1) (if hd0 (tl s1) =? 125 then (-1)%Z else 0%Z)) as C2.
    destruct (digits (tl s1) (if hd0 (tl s1) =? 125 then (-1)%Z else 0%Z)) as [mx1 s2]. cbn [snd] in C2.
    destruct (hd0 s2 =? 125) eqn:E125; cbn [negb orb]; [|discriminate].
    match goal with |- context [if ?c then _ else _] => destruct c end; [discriminate|]. intro H; inversion H; subst.
    eapply ppx_trans; [apply ppx_tl; eapply eqb_plain; [exact E125 | reflexivity]|].
    eapply ppx_trans; [exact C2|]. eapply ppx_trans; [apply ppx_tl; eapply eqb_plain; [exact E44 | reflexivity]|].
    eapply ppx_trans; [exact C1 | exact T0].
  - destruct (hd0 s1 =? 125) eqn:E125; cbn [negb orb]; [|discriminate].
    match goal with |- context [if ?c then _ else _] => destruct c end; [discriminate|]. intro H; inversion H; subst.
    eapply ppx_trans; [apply ppx_tl; eapply eqb_plain; [exact E125 | reflexivity]|].
    eapply ppx_trans; [exact C1 | exact T0].
Qed.

Lemma rep_suffix_ppx s mm s' : rep_suffix s = Ok (Some mm, s') -> ppx s' s.
Proof.
  unfold rep_suffix.
  destruct ((hd0 s =? 42) || (hd0 s =? 63)) eqn:E1.
  - assert (P1 : ppx (tl s) s) by (apply ppx_tl; unfold plainb; lia).
    destruct (hd0 (tl s) =? 43) eqn:E2.
    + intro H. apply brace_ppx in H. eapply ppx_trans; [exact H|]. eapply ppx_trans; [apply ppx_tl; eapply eqb_plain; [exact E2 | reflexivity] | exact P1].
    + intro H. apply brace_ppx in H. eapply ppx_trans; [exact H | exact P1].
  - destruct (hd0 s =? 43) eqn:E2.
    + intro H. apply brace_ppx in H. eapply ppx_trans; [exact H|]. apply ppx_tl; eapply eqb_plain; [exact E2 | reflexivity].
    + intro H. apply brace_ppx in H. exact H.
Qed.

(* ---- literal runs --------------------------------------------------------------------------------- *)
Lemma meta_plain c : memb c re_meta = false -> plainb c = true.
Proof. unfold memb, re_meta, plainb. cbn [existsb]. lia. Qed.

Lemma firstn_plus {A} (l : list A) a b : firstn (a + b) l = firstn a l ++ firstn b (skipn a l).
Proof. revert l. induction a as [|a IH]; intro l; [reflexivity|]. destruct l as [|x l]; [rewrite !firstn_nil; cbn [skipn app]; rewrite ?firstn_nil; reflexivity|]. cbn [Nat.add firstn skipn app]. f_equal. apply IH. Qed.

Lemma forall_firstn_nth (P : N -> Prop) (s : bytes) : forall l, (l <= length s)%nat -> (forall j, (j < l)%nat -> P (nthb s j)) -> Forall P (firstn l s).
Proof.
  revert P. induction s as [|c s IH]; intros P l L H; [rewrite firstn_nil; constructor|].
  destruct l as [|l]; [constructor|]. cbn [firstn]. constructor; [exact (H 0%nat ltac:(lia))|].
  apply IH; [cbn in L; lia|]. intros j Hj. exact (H (S j) ltac:(lia)).
Qed.

(* one whole character whose first byte is plain *)
Lemma char_plain s : mbok s -> plainb (hd0 s) = true -> Forall plainP (firstn (re_uclen s) s).
Proof.
  intros M P. apply forall_firstn_nth; [apply re_uclen_le|]. intros j Hj. destruct j as [|j].
  - destruct s; [cbn in Hj; lia | exact P].
  - exact (M 0%nat (S j) ltac:(cbn [skipn]; lia)).
Qed.
Lemma char_tail_plain s : mbok s -> Forall plainP (tl (firstn (re_uclen s) s)).
Proof.
  intros M. destruct s as [|c s]; [constructor|]. destruct (re_uclen (c :: s)) as [|l] eqn:E; [constructor|]. cbn [firstn tl].
  apply forall_firstn_nth.
  - pose proof (re_uclen_le (c :: s)) as L. rewrite E in L. cbn in L. lia.
  - intros j Hj. pose proof (M 0%nat (S j)) as Q. cbn [skipn Nat.add] in Q. rewrite E in Q. apply Q. lia.
Qed.

Lemma chr_run_plain : forall k s n N, chr_run k false s n = Ok N -> mbok s ->
  (n <= N)%nat /\ (N - n <= length s)%nat /\ Forall plainP (firstn (N - n) s).
Proof.
  induction k as [|k IH]; intros s n N H M; cbn [chr_run] in H; [discriminate|].
  cbn [orb] in H.
  destruct (negb ((hd0 s =? 0) || memb (hd0 s) re_meta)) eqn:C.
  2:{ inversion H; subst. rewrite Nat.sub_diag. split; [lia|]. split; [lia | constructor]. }
  destruct (rdk SUcLen s (re_uclen s)) as [d| |] eqn:R; cbn [bind] in H; try discriminate.
  destruct (negb (d =? 0) && memb d re_rep).
  { inversion H; subst. rewrite Nat.sub_diag. split; [lia|]. split; [lia | constructor]. }
  unfold adv in H. destruct (Nat.leb (re_uclen s) (length s)) eqn:L; cbn [bind] in H; [|discriminate].
  apply Nat.leb_le in L.
  destruct (IH _ _ _ H (mbok_skipn _ _ M)) as (A & B & F). rewrite skipn_length in B.
  split; [lia|]. split; [lia|].
  replace (N - n)%nat with (re_uclen s + (N - (n + re_uclen s)))%nat by lia. rewrite firstn_plus. apply Forall_app. split; [|exact F].
  apply char_plain; [exact M|]. apply meta_plain. apply negb_true_iff in C. apply orb_false_iff in C. apply C.
Qed.

Lemma chr_lit_shape r a s' : chr_lit r = Ok (a, s') -> mbok r -> exists b pre, r = b :: pre ++ s' /\ Forall plainP pre.
Proof.
  unfold chr_lit. destruct (chr_run (S (length r)) true r 0) as [N| |] eqn:H; cbn [bind]; try discriminate.
  intros E M. inversion E; subst; clear E. cbn [chr_run orb] in H.
  destruct (Nat.eqb (re_uclen r) 0) eqn:Z; [discriminate|]. apply Nat.eqb_neq in Z.
  unfold adv in H. destruct (Nat.leb (re_uclen r) (length r)) eqn:L; cbn [bind] in H; [|discriminate]. apply Nat.leb_le in L.
  destruct (chr_run_plain _ _ _ _ H (mbok_skipn _ _ M)) as (A & B & F). cbn [Nat.add] in *. rewrite skipn_length in B.
  destruct r as [|b r0]; [cbn in Z; lia|].
  exists b, (tl (firstn N (b :: r0))). split.
  - rewrite <- (firstn_skipn N (b :: r0)) at 1. destruct N as [|N']; [lia|]. cbn [firstn tl app]. reflexivity.
  - replace N with (re_uclen (b :: r0) + (N - re_uclen (b :: r0)))%nat by lia. rewrite firstn_plus.
    destruct (re_uclen (b :: r0)) as [|l] eqn:El; [lia|].
    pose proof (char_tail_plain (b :: r0) M) as T. rewrite El in T. cbn [firstn tl] in T |- *. cbn [app tl].
    apply Forall_app. split; [exact T|]. cbn [Nat.sub] in F. replace (S l + (N - S l) - S l)%nat with (N - S l)%nat by lia. exact F.
Qed.

(* the scan of a bracket stops early only at a ']' *)
Lemma brk_body_stop : forall t inner, (brk_body inner t < length t)%nat -> inner = false -> nthb t (brk_body inner t) = 93.
Proof.
  assert (G : forall t inner, (brk_body inner t < length t)%nat -> nthb t (brk_body inner t) = 93).
  { induction t as [|c r IH]; intros inner L; [cbn in L; lia|]. cbn [brk_body length] in *.
    destruct inner.
    - destruct (c =? 93); unfold nthb; cbn [nth]; apply IH; lia.
    - destruct (c =? 93) eqn:E; [unfold nthb; cbn [nth]; lia|].
      destruct ((c =? 91) && ((hd0 r =? 58) || (hd0 r =? 61))); unfold nthb; cbn [nth]; apply IH; lia. }
  intros t inner L _. apply G. exact L.
Qed.
Lemma brk_open_end s : brk_closed s = false -> skipn (brk_len s) s = [].
Proof.
  unfold brk_closed, brk_len.
  set (n1 := if nthb s 1 =? 94 then 2%nat else 1%nat). set (n2 := if nthb s n1 =? 93 then S n1 else n1).
  intro C. rewrite C. apply skipn_all2.
  destruct (Nat.lt_ge_cases (n2 + brk_body false (skipn n2 s)) (length s)) as [A|A]; [|exact A]. exfalso.
  assert (L : (brk_body false (skipn n2 s) < length (skipn n2 s))%nat) by (rewrite skipn_length; lia).
  pose proof (brk_body_stop _ _ L eq_refl) as S. rewrite nthb_skipn in S. rewrite S in C. discriminate.
Qed.

(* ratom_read on a byte that is neither a parenthesis nor the terminator *)
Lemma ratom_read_seg s a s' : ratom_read s = Ok (a, s') -> mbok s -> hd0 s <> 40 -> hd0 s <> 41 ->
  (exists pre, s = pre ++ s' /\ Seg pre 0) \/ s' = [].
Proof.
  intros H M N40 N41. destruct s as [|c r]; [cbn [ratom_read] in H; apply chr_lit_shape in H; [destruct H as (b & pre & E & _); discriminate | exact M]|].
  cbn [hd0] in *. cbn [ratom_read] in H.
  destruct (c =? 46) eqn:E1; [inversion H; subst; left; exists [c]; split; [reflexivity | apply seg_plain1; unfold plainb; lia]|].
  destruct (c =? 94) eqn:E2; [inversion H; subst; left; exists [c]; split; [reflexivity | apply seg_plain1; unfold plainb; lia]|].
  destruct (c =? 36) eqn:E3; [inversion H; subst; left; exists [c]; split; [reflexivity | apply seg_plain1; unfold plainb; lia]|].
  destruct (c =? 91) eqn:E4.
  { inversion H; subst; clear H. destruct (brk_closed (c :: r)) eqn:C.
    - left. exists (firstn (brk_len (c :: r)) (c :: r)). split; [symmetry; apply firstn_skipn | apply seg_brk; [cbn [hd0]; lia | exact C]].
    - right. apply brk_open_end. exact C. }
  destruct (c =? 92) eqn:E5.
  { assert (c = 92) by lia. subst c. destruct r as [|d r'].
    - apply chr_lit_shape in H; [destruct H as (b & pre & E & _); discriminate | intros i j L; destruct i; cbn in L; lia].
    - destruct (d =? 60) eqn:D1; [inversion H; subst; left; exists [92; d]; split; [reflexivity | apply seg_esc]|].
      destruct (d =? 62) eqn:D2; [inversion H; subst; left; exists [92; d]; split; [reflexivity | apply seg_esc]|].
      apply chr_lit_shape in H; [|apply (mbok_tl _ M)]. destruct H as (b & pre & E & F). left.
      exists ([92; b] ++ pre). split; [cbn [app]; rewrite E; reflexivity|].
      change 0%nat with (0 + 0)%nat. apply seg_app; [apply seg_esc | apply seg_plain; exact F]. }
  apply chr_lit_shape in H; [|exact M]. destruct H as (b & pre & E & F). left. inversion E; subst b.
  exists (c :: pre). split; [reflexivity|]. apply seg_plain. constructor; [unfold plainP, plainb; lia | exact F].
Qed.

(* ---- every clean call of a parser function consumes a segment ---------------------------------------- *)
Definition ngr (x : option node) : nat := match x with Some t => ngroups t | None => 0%nat end.
Definition Good (s : bytes) (x : option node) (s' : bytes) : Prop :=
  (exists pre, s = pre ++ s' /\ Seg pre (ngr x)) \/ s' = [].
Definition CL (parse : bytes -> res (option node * bytes)) (pbad : bytes -> bool) : Prop :=
  forall s x s', mbok s -> parse s = Ok (x, s') -> pbad s = false -> Good s x s'.

Lemma good_refl s : Good s None s.
Proof. left. exists []. split; [reflexivity | apply seg_nil]. Qed.

Lemma hd0_cons s c : hd0 s = c -> c <> 0 -> exists r, s = c :: r.
Proof. destruct s as [|x r]; cbn [hd0]; intros E N; [congruence | subst; eauto]. Qed.

Lemma mbok_sfx pre s : mbok (pre ++ s) -> mbok s.
Proof. intro M. rewrite <- (skipn_app_exact pre s). apply mbok_skipn. exact M. Qed.

Lemma ngroups_set_rep n mn mx : ngroups (set_rep n mn mx) = ngroups n.
Proof. destruct n; reflexivity. Qed.

Section P.
  Variable parse : bytes -> res (option node * bytes).
  Variable pbad : bytes -> bool.
  Hypothesis Hp : CL parse pbad.

  Lemma CL_grp : CL (rnode_grp parse) (rnode_grp_bad parse pbad).
  Proof.
    intros s x s' M H B. unfold rnode_grp in H. unfold rnode_grp_bad in B.
    destruct (negb (hd0 s =? 40)) eqn:E40; [inversion H; subst; apply good_refl|].
    destruct (hd0_cons s 40 ltac:(lia) ltac:(lia)) as (s1 & ->). cbn [tl] in H, B.
    destruct (negb (hd0 s1 =? 41)) eqn:E41.
    - destruct (parse s1) as [[[x0|] s2]| |] eqn:Ps; cbn [bind] in H; try discriminate.
      apply orb_false_iff in B. destruct B as [B1 B2]. rewrite B2 in H. inversion H; subst; clear H.
      destruct (Hp _ _ _ (mbok_tl _ M) Ps B1) as [(pre & E & Sg)|J]; [|subst s2; cbn in B2; discriminate].
      destruct (hd0_cons s2 41 ltac:(lia) ltac:(lia)) as (s3 & ->). cbn [tl].
      left. exists (40 :: pre ++ [41]). split; [cbn [tl] in E; rewrite E; cbn [app]; rewrite <- app_assoc; reflexivity|].
      cbn [ngr ngroups]. apply seg_grp. exact Sg.
    - cbn [bind] in H. rewrite E41 in H. inversion H; subst; clear H.
      destruct (hd0_cons s1 41 ltac:(lia) ltac:(lia)) as (s3 & ->). cbn [tl].
      left. exists (40 :: [] ++ [41]). split; [reflexivity|]. cbn [ngr ngroups]. apply seg_grp. apply seg_nil.
  Qed.

  Lemma CL_atom : CL (rnode_atom parse) (rnode_atom_bad parse pbad).
  Proof.
    intros s x s' M H B. unfold rnode_atom in H. unfold rnode_atom_bad in B.
    destruct ((hd0 s =? 0) || (hd0 s =? 124) || (hd0 s =? 41)) eqn:T; [inversion H; subst; apply good_refl|].
    destruct (hd0 s =? 40) eqn:E40.
    - destruct (rnode_grp parse s) as [[[n|] s1]| |] eqn:G; cbn [bind] in H; try discriminate.
      + apply orb_false_iff in B. destruct B as [B1 B2]. unfold rep_bad in B2.
        destruct (rep_suffix s1) as [[[[mn mx]|] s2]| |] eqn:R; cbn [bind] in H; try discriminate. inversion H; subst; clear H.
        destruct (CL_grp _ _ _ M G B1) as [(pre & E & Sg)|J].
        * destruct (ppx_seg _ _ (rep_suffix_ppx _ _ _ R)) as (pre2 & E2 & Sg2).
          left. exists (pre ++ pre2). split; [rewrite <- app_assoc, <- E2; exact E|].
          cbn [ngr] in *. rewrite ngroups_set_rep. replace (ngroups n) with (ngroups n + 0)%nat by lia. apply seg_app; assumption.
        * subst s1. right. destruct (rep_suffix_ppx _ _ _ R) as (p2 & E2 & _). destruct p2; [cbn in E2; symmetry; exact E2 | discriminate].
      + inversion H; subst. destruct (CL_grp _ _ _ M G B) as [(pre & E & Sg)|J]; [left; exists pre; split; assumption | right; exact J].
    - destruct (ratom_read s) as [[a s1]| |] eqn:A; cbn [bind fst snd] in H, B; try discriminate.
      unfold rep_bad in B.
      destruct (rep_suffix s1) as [[[[mn mx]|] s2]| |] eqn:R; cbn [bind] in H; try discriminate. inversion H; subst; clear H.
      destruct (ratom_read_seg _ _ _ A M ltac:(lia) ltac:(lia)) as [(pre & E & Sg)|J].
      + destruct (ppx_seg _ _ (rep_suffix_ppx _ _ _ R)) as (pre2 & E2 & Sg2).
        left. exists (pre ++ pre2). split; [rewrite <- app_assoc, <- E2; exact E|].
        cbn [ngr set_rep ngroups]. change 0%nat with (0 + 0)%nat. apply seg_app; assumption.
      + subst s1. right. destruct (rep_suffix_ppx _ _ _ R) as (p2 & E2 & _). destruct p2; [cbn in E2; symmetry; exact E2 | discriminate].
  Qed.

  Lemma good_chain s x s1 y s2 z : Good s x s1 -> Good s1 y s2 -> ngr z = (ngr x + ngr y)%nat -> Good s z s2.
  Proof.
    intros [(p1 & E1 & S1)|J1] [(p2 & E2 & S2)|J2] Hz.
    - left. exists (p1 ++ p2). split; [rewrite <- app_assoc, <- E2; exact E1 | rewrite Hz; apply seg_app; assumption].
    - right. exact J2.
    - subst s1. right. destruct p2; [cbn in E2; symmetry; exact E2 | discriminate].
    - right. exact J2.
  Qed.

  Lemma CL_seq f : CL (rnode_seq parse f) (rnode_seq_bad parse pbad f).
  Proof.
    induction f as [|f IH]; intros s x s' M H B; cbn [rnode_seq] in H; [discriminate|]. cbn [rnode_seq_bad] in B.
    destruct (rnode_atom parse s) as [[[x1|] s1]| |] eqn:A; cbn [bind] in H; try discriminate.
    - apply orb_false_iff in B. destruct B as [B1 B2].
      pose proof (CL_atom _ _ _ M A B1) as G1.
      assert (M1 : mbok s1).
      { destruct G1 as [(p1 & E1 & _)|J]; [subst s; eapply mbok_sfx; exact M | subst s1; intros i j L; destruct i; cbn in L; lia]. }
      destruct (rnode_seq parse f s1) as [[[y|] s2]| |] eqn:S2; cbn [bind] in H; try discriminate; inversion H; subst; clear H.
      + eapply good_chain; [exact G1 | exact (IH _ _ _ M1 S2 B2) | reflexivity].
      + eapply good_chain; [exact G1 | exact (IH _ _ _ M1 S2 B2) | cbn [ngr]; lia].
    - inversion H; subst. exact (CL_atom _ _ _ M A B).
  Qed.
End P.

Lemma CL_parse f : CL (rnode_parse f) (rnode_parse_bad f).
Proof.
  induction f as [|f IH]; intros s x s' M H B; cbn [rnode_parse] in H; [discriminate|]. cbn [rnode_parse_bad] in B.
  destruct (rnode_seq (rnode_parse f) f s) as [[x1 s1]| |] eqn:S1; cbn [bind] in H; try discriminate.
  apply orb_false_iff in B. destruct B as [B1 B2].
  pose proof (CL_seq _ _ IH f _ _ _ M S1 B1) as G1.
  destruct (negb (hd0 s1 =? 124)) eqn:E; [inversion H; subst; exact G1|].
  assert (M1 : mbok (tl s1)).
  { destruct G1 as [(p1 & E1 & _)|J]; [subst s; apply mbok_tl; eapply mbok_sfx; exact M | subst s1; intros i j L; destruct i; cbn in L; lia]. }
  destruct (hd0_cons s1 124 ltac:(lia) ltac:(lia)) as (s1' & ->). cbn [tl] in *.
  assert (Gbar : Good (124 :: s1') None s1') by (left; exists [124]; split; [reflexivity | apply seg_plain1; reflexivity]).
  destruct (rnode_parse f s1') as [[[y|] s2]| |] eqn:P2; cbn [bind] in H; try discriminate; inversion H; subst; clear H.
  - eapply good_chain; [exact G1 | exact (good_chain _ _ _ _ _ (Some y) Gbar (IH _ _ _ M1 P2 B2) eq_refl) | destruct x1; cbn [ngr of_opt ngroups]; lia].
  - eapply good_chain; [exact G1 | exact (good_chain _ _ _ _ _ None Gbar (IH _ _ _ M1 P2 B2) eq_refl) | cbn [ngr]; lia].
Qed.

(* ---- the walk over "(" "(p0)" "|" "(p1)" ... ")" ------------------------------------------------------- *)
Lemma rep_suffix_none r : hd0 r <> 42 -> hd0 r <> 63 -> hd0 r <> 43 -> hd0 r <> 123 -> rep_suffix r = Ok (Some (1%Z, 1%Z), r).
Proof.
  intros A B C D. unfold rep_suffix.
  replace ((hd0 r =? 42) || (hd0 r =? 63)) with false by lia.
  replace (hd0 r =? 43) with false by lia. replace (hd0 r =? 123) with false by lia. reflexivity.
Qed.

Lemma seg_count_unique p k k' : Seg p k -> Seg p k' -> k = k'.
Proof.
  intros A B. pose proof (A [] 0%nat 0%nat) as G1. pose proof (B [] 0%nat 0%nat) as G2. rewrite G1 in G2. cbn in G2. inversion G2. reflexivity.
Qed.

(* one group "(" content ")" followed by ')' , '|' or the end, as the only atom of a sequence *)
Lemma group_step parse pbad (Q : node -> Prop) content rest0 :
  (hd0 rest0 = 41 \/ hd0 rest0 = 124 \/ rest0 = []) ->
  (forall t s2, hd0 (content ++ 41 :: rest0) <> 41 -> parse (content ++ 41 :: rest0) = Ok (Some t, s2) -> pbad (content ++ 41 :: rest0) = false ->
     hd0 s2 = 41 -> s2 = 41 :: rest0 /\ Q t) ->
  (hd0 (content ++ 41 :: rest0) = 41 -> content = [] /\ Q NNil) ->
  forall f x1 s1, rnode_seq parse f (40 :: content ++ 41 :: rest0) = Ok (x1, s1) ->
    rnode_seq_bad parse pbad f (40 :: content ++ 41 :: rest0) = false ->
    s1 = rest0 /\ exists t, x1 = Some (NGrp t 0 1 1) /\ Q t.
Proof.
  intros Hr Hc Hnil f x1 s1 H B.
  assert (Rr : rep_suffix rest0 = Ok (Some (1%Z, 1%Z), rest0)).
  { apply rep_suffix_none; destruct Hr as [E|[E|E]]; try (rewrite E; lia); subst; cbn; lia. }
  assert (Tr : (hd0 rest0 =? 0) || (hd0 rest0 =? 124) || (hd0 rest0 =? 41) = true).
  { destruct Hr as [E|[E|E]]; [rewrite E; reflexivity | rewrite E; reflexivity | subst; reflexivity]. }
  assert (A1 : rnode_atom parse (40 :: content ++ 41 :: rest0) =
               do ns <- rnode_grp parse (40 :: content ++ 41 :: rest0);
               match ns with
               | (None, s1) => Ok (None, s1)
               | (Some n, s1) => do rp <- rep_suffix s1;
                                 match rp with (None, s2) => Ok (None, s2) | (Some (mn, mx), s2) => Ok (Some (set_rep n mn mx), s2) end
               end) by reflexivity.
  assert (A2 : rnode_atom_bad parse pbad (40 :: content ++ 41 :: rest0) =
               match rnode_grp parse (40 :: content ++ 41 :: rest0) with
               | Ok (Some _, s1) => rnode_grp_bad parse pbad (40 :: content ++ 41 :: rest0) || rep_bad s1
               | Ok (None, _) => rnode_grp_bad parse pbad (40 :: content ++ 41 :: rest0)
               | _ => false
               end) by reflexivity.
  (* the group itself *)
  assert (G : forall n s1', rnode_grp parse (40 :: content ++ 41 :: rest0) = Ok (Some n, s1') ->
              rnode_grp_bad parse pbad (40 :: content ++ 41 :: rest0) = false -> s1' = rest0 /\ exists t, n = NGrp t 0 1 1 /\ Q t).
  { intros n s1' G GB. unfold rnode_grp in G. unfold rnode_grp_bad in GB. cbn [hd0 tl] in G, GB.
    change (negb (40 =? 40)) with false in G, GB. cbv iota in G, GB.
    destruct (negb (hd0 (content ++ 41 :: rest0) =? 41)) eqn:E41.
    - destruct (parse (content ++ 41 :: rest0)) as [[[x0|] s2]| |] eqn:Ps; cbn [bind] in G; try discriminate.
      apply orb_false_iff in GB. destruct GB as [Pb E2]. rewrite E2 in G. inversion G; subst; clear G.
      destruct (Hc _ _ ltac:(lia) eq_refl Pb ltac:(lia)) as (-> & Qt). cbn [tl]. split; [reflexivity|]. eauto.
    - destruct (Hnil ltac:(lia)) as (-> & Qn). cbn [app bind hd0 tl] in G. change (negb (41 =? 41)) with false in G. cbv iota in G.
      inversion G; subst. split; [reflexivity|]. eauto. }
  destruct f as [|f]; [discriminate|]. cbn [rnode_seq] in H. cbn [rnode_seq_bad] in B.
  rewrite A1 in H. rewrite A1, A2 in B.
  destruct (rnode_grp parse (40 :: content ++ 41 :: rest0)) as [[[n|] s1']| |] eqn:Gq; cbn [bind] in H, B; try discriminate.
  - destruct (rep_suffix s1') as [[[[mn mx]|] s2]| |] eqn:R; cbn [bind] in H, B; try discriminate.
    + apply orb_false_iff in B. destruct B as [B1 B2]. apply orb_false_iff in B1. destruct B1 as [GB _].
      destruct (G _ _ eq_refl GB) as (-> & t & -> & Qt). rewrite Rr in R. inversion R; subst.
      destruct f as [|f]; [discriminate|]. cbn [rnode_seq] in H. unfold rnode_atom in H at 1. rewrite Tr in H. cbn [bind] in H.
      inversion H; subst. split; [reflexivity|]. eauto.
    + exfalso. unfold rep_bad in B. rewrite R in B. rewrite orb_true_r in B. discriminate.
  - exfalso. inversion H; subst. unfold rnode_grp_bad in B. unfold rnode_grp in Gq. cbn [hd0 tl] in B, Gq.
    change (negb (40 =? 40)) with false in B, Gq. cbv iota in B, Gq.
    destruct (negb (hd0 (content ++ 41 :: rest0) =? 41)) eqn:E41.
    + destruct (parse (content ++ 41 :: rest0)) as [[[x0|] s2]| |] eqn:Ps; cbn [bind] in Gq; try discriminate.
      apply orb_false_iff in B. destruct B as [Pb E2]. rewrite E2 in Gq. discriminate.
    + cbn [bind] in Gq. rewrite E41 in Gq. discriminate.
Qed.

(* "(p0)|(p1)|...|(pk)" *)
Fixpoint altstr (ps : list bytes) : bytes :=
  match ps with
  | [] => []
  | p :: ps' => match ps' with [] => 40 :: p ++ [41] | _ :: _ => 40 :: p ++ 41 :: 124 :: altstr ps' end
  end.

Lemma selfc_hd p k rest : selfc p k -> hd0 (p ++ 41 :: rest) = 41 -> p = [].
Proof.
  intros S H. destruct p as [|c p]; [reflexivity|]. cbn [app hd0] in H. subst c. unfold selfc, re_groupcount_opt in S. cbn in S. discriminate.
Qed.
Lemma selfc_nil k : selfc [] k -> k = 0%nat.
Proof. unfold selfc, re_groupcount_opt. cbn. intro H; inversion H; reflexivity. Qed.

(* a wrapper group "(p)" for a self-contained p, followed by ')' or '|' *)
Lemma wrapper_step f parse pbad p k rest0 : CL parse pbad -> selfc p k -> (hd0 rest0 = 41 \/ hd0 rest0 = 124) ->
  mbok (40 :: p ++ 41 :: rest0) ->
  forall x1 s1, rnode_seq parse f (40 :: p ++ 41 :: rest0) = Ok (x1, s1) ->
    rnode_seq_bad parse pbad f (40 :: p ++ 41 :: rest0) = false ->
    s1 = rest0 /\ exists t, x1 = Some (NGrp t 0 1 1) /\ ngroups t = re_groupcount p.
Proof.
  intros Hp Sc Hr M x1 s1 H B.
  eapply (group_step parse pbad (fun t => ngroups t = re_groupcount p) p rest0); [tauto | | | exact H | exact B].
  - intros t s2 Hn Ps Pb H41.
    destruct (Hp _ _ _ (mbok_tl _ M) Ps Pb) as [(pre & E & Sg)|J]; [|subst s2; cbn in H41; lia].
    destruct (seg_unique p k pre (ngroups t) rest0 s2 (selfc_seg _ _ Sc) Sg (eq_sym E) H41) as (-> & ->).
    split; [reflexivity|]. cbn [ngr] in Sg. rewrite (selfc_count _ _ Sc). exact (seg_count_unique _ _ _ Sg (selfc_seg _ _ Sc)).
  - intro H41. pose proof (selfc_hd _ _ _ Sc H41) as ->. split; [reflexivity|]. cbn [ngroups]. rewrite (selfc_count _ _ Sc). symmetry. apply selfc_nil. exact Sc.
Qed.

Lemma altstr_cons p ps : ps <> [] -> altstr (p :: ps) = 40 :: p ++ 41 :: 124 :: altstr ps.
Proof. destruct ps; [contradiction | reflexivity]. Qed.

Lemma altstr_one p tail : altstr [p] ++ 41 :: tail = 40 :: p ++ 41 :: 41 :: tail.
Proof. cbn [altstr app]. rewrite <- app_assoc. reflexivity. Qed.
Lemma altstr_more p p2 ps tail : altstr (p :: p2 :: ps) ++ 41 :: tail = 40 :: p ++ 41 :: 124 :: altstr (p2 :: ps) ++ 41 :: tail.
Proof. rewrite altstr_cons by discriminate. cbn [app]. rewrite <- app_assoc. reflexivity. Qed.

(* the alternation of wrappers, followed by the ')' of the outer group *)
Lemma alts_walk : forall ps, ps <> [] -> (forall p, In p ps -> exists k, selfc p k) ->
  forall f tail x s2, mbok (altstr ps ++ 41 :: tail) ->
    rnode_parse f (altstr ps ++ 41 :: tail) = Ok (x, s2) -> rnode_parse_bad f (altstr ps ++ 41 :: tail) = false ->
    s2 = 41 :: tail /\ exists t, x = Some t /\ check_alts t ps = true.
Proof.
  induction ps as [|p ps IH]; intros Hne Hsc f tail x s2 M H B; [contradiction|].
  destruct (Hsc p (or_introl eq_refl)) as (k & Sc).
  destruct f as [|f]; [discriminate|]. cbn [rnode_parse] in H. cbn [rnode_parse_bad] in B.
  destruct ps as [|p2 ps].
  - (* the last alternative *)
    rewrite altstr_one in H, B, M.
    destruct (rnode_seq (rnode_parse f) f (40 :: p ++ 41 :: 41 :: tail)) as [[x1 s1]| |] eqn:S1; cbn [bind] in H; try discriminate.
    apply orb_false_iff in B. destruct B as [B1 B2].
    destruct (wrapper_step f _ _ p k (41 :: tail) (CL_parse f) Sc (or_introl eq_refl) M _ _ S1 B1) as (-> & t & -> & Ng).
    cbn [hd0] in H. change (negb (41 =? 124)) with true in H. cbv iota in H. inversion H; subst.
    split; [reflexivity|]. exists (NGrp t 0 1 1). split; [reflexivity|]. cbn [check_alts is_wrap]. rewrite Ng, Nat.eqb_refl. reflexivity.
  - rewrite altstr_more in H, B, M. set (ps' := p2 :: ps) in *.
    destruct (rnode_seq (rnode_parse f) f (40 :: p ++ 41 :: 124 :: altstr ps' ++ 41 :: tail)) as [[x1 s1]| |] eqn:S1; cbn [bind] in H; try discriminate.
    apply orb_false_iff in B. destruct B as [B1 B2].
    destruct (wrapper_step f _ _ p k (124 :: altstr ps' ++ 41 :: tail) (CL_parse f) Sc (or_intror eq_refl) M _ _ S1 B1) as (-> & t & -> & Ng).
    cbn [hd0 tl] in H, B2. change (negb (124 =? 124)) with false in H, B2. cbv iota in H, B2.
    assert (M2 : mbok (altstr ps' ++ 41 :: tail)).
    { change (40 :: p ++ 41 :: 124 :: altstr ps' ++ 41 :: tail) with ((40 :: p) ++ 41 :: 124 :: altstr ps' ++ 41 :: tail) in M.
      apply mbok_sfx in M. change (41 :: 124 :: altstr ps' ++ 41 :: tail) with ([41; 124] ++ altstr ps' ++ 41 :: tail) in M. apply mbok_sfx in M. exact M. }
    destruct (rnode_parse f (altstr ps' ++ 41 :: tail)) as [[y s3]| |] eqn:P2; cbn [bind] in H; try discriminate.
    destruct (IH ltac:(discriminate) (fun q Hq => Hsc q (or_intror Hq)) f tail y s3 M2 P2 B2) as (-> & t' & -> & Ck).
    inversion H; subst. split; [reflexivity|]. exists (NAlt (NGrp t 0 1 1) t'). split; [reflexivity|].
    change (check_alts (NAlt (NGrp t 0 1 1) t') (p :: ps')) with (is_wrap (NGrp t 0 1 1) p && check_alts t' ps').
    rewrite Ck. cbn [is_wrap]. rewrite Ng, Nat.eqb_refl. reflexivity.
Qed.

(* ---- the string rset_make builds ------------------------------------------------------------------- *)
Fixpoint joins (ps : list bytes) : bytes :=
  match ps with [] => [] | p :: r => 124 :: 40 :: p ++ [41] ++ joins r end.
Lemma altstr_joins p ps : altstr (p :: ps) = 40 :: p ++ 41 :: joins ps.
Proof.
  revert p. induction ps as [|q ps IH]; intro p; [reflexivity|].
  rewrite altstr_cons by discriminate. rewrite IH. cbn [joins app]. reflexivity.
Qed.
Lemma build_sb : forall res sb gc, (1 < length sb)%nat ->
  fst (fst (fst (rset_build res sb gc))) = sb ++ joins (somes res).
Proof.
  induction res as [|[p|] rest IH]; intros sb gc L; cbn [rset_build somes joins].
  - rewrite app_nil_r. reflexivity.
  - replace (Nat.ltb 1 (length sb)) with true by (symmetry; apply Nat.ltb_lt; exact L).
    specialize (IH ((sb ++ [124]) ++ [40] ++ p ++ [41]) (gc + 1 + re_groupcount p)%nat).
    destruct (rset_build rest ((sb ++ [124]) ++ [40] ++ p ++ [41]) (gc + 1 + re_groupcount p)) as [[[sb' g] sg] gc']. cbn [fst] in *.
    rewrite IH by (rewrite !app_length; cbn; lia). repeat rewrite <- app_assoc. cbn [app]. repeat rewrite <- app_assoc. reflexivity.
  - specialize (IH sb gc L). destruct (rset_build rest sb gc) as [[[sb' g] sg] gc']. cbn [fst] in *. exact IH.
Qed.
Lemma build_sb0 : forall res gc, somes res <> [] ->
  fst (fst (fst (rset_build res [40] gc))) = 40 :: altstr (somes res).
Proof.
  induction res as [|[p|] rest IH]; intros gc Hne; cbn [rset_build somes] in *; [contradiction| |].
  - change (Nat.ltb 1 (length [40])) with false. cbv iota.
    pose proof (build_sb rest ([40] ++ [40] ++ p ++ [41]) (gc + 1 + re_groupcount p)%nat ltac:(rewrite !app_length; cbn; lia)) as B.
    destruct (rset_build rest ([40] ++ [40] ++ p ++ [41]) (gc + 1 + re_groupcount p)) as [[[sb' g] sg] gc']. cbn [fst] in *.
    rewrite B, altstr_joins. cbn [app]. rewrite <- !app_assoc. reflexivity.
  - specialize (IH gc Hne). destruct (rset_build rest [40] gc) as [[[sb' g] sg] gc']. cbn [fst] in *. exact IH.
Qed.
Lemma rset_pattern_altstr res : somes res <> [] -> rset_pattern res = 40 :: altstr (somes res) ++ [41].
Proof.
  intro Hne. unfold rset_pattern. pose proof (build_sb0 res 2 Hne) as B.
  destruct (rset_build res [40] 2) as [[[sb g] sg] gc]. cbn [fst] in B. rewrite B. reflexivity.
Qed.

Lemma altstr_hd ps : ps <> [] -> exists r, altstr ps = 40 :: r.
Proof. destruct ps as [|p ps]; [contradiction|]. intros _. rewrite altstr_joins. eauto. Qed.

(* ---- every accepted pattern set passes rset_shape -------------------------------------------------- *)
Theorem accepted_shape res flg rs : rset_make res flg = Ok (Some rs) -> mbok (rset_pattern res) -> somes res <> [] ->
  rset_shape res = true.
Proof.
  intros Mk M Hne. unfold rset_make in Mk. pose proof (rset_pattern_altstr res Hne) as Ep. unfold rset_pattern in Ep.
  destruct (rset_build res [40] 2) as [[[sb g] sg] gc] eqn:Bd.
  destruct (existsb _ (somes res)) eqn:Ex; [discriminate|].
  assert (Hsc : forall p, In p (somes res) -> exists k, selfc p k).
  { intros p Hp. unfold selfc. destruct (re_groupcount_opt p) as [k|] eqn:E; [eauto|]. exfalso.
    assert (existsb (fun p0 => match re_groupcount_opt p0 with Some _ => false | None => true end) (somes res) = true) by (apply existsb_exists; exists p; rewrite E; auto).
    congruence. }
  unfold rset_shape, rset_pattern. rewrite Bd. unfold rset_pattern in M. rewrite Bd in M. rewrite Ep in *.
  set (S := 40 :: altstr (somes res) ++ [41]) in *.
  unfold regcomp in Mk. destruct (parse_pat S) as [[[t|] rest]| |] eqn:P; cbn [bind fst snd] in Mk; try discriminate.
  destruct (parse_bad S) eqn:Pb; [discriminate|]. destruct rest as [|c rest]; [|discriminate]. clear Mk.
  unfold parse_pat in P. unfold parse_bad in Pb. destruct (parse_fuel S) as [|F]; [discriminate|].
  cbn [rnode_parse] in P. cbn [rnode_parse_bad] in Pb.
  destruct (rnode_seq (rnode_parse F) F S) as [[x1 s1]| |] eqn:S1; cbn [bind] in P; try discriminate.
  apply orb_false_iff in Pb. destruct Pb as [B1 B2]. subst S.
  destruct (group_step (rnode_parse F) (rnode_parse_bad F) (fun t => check_alts t (somes res) = true) (altstr (somes res)) []
              ltac:(tauto)) with (f := F) (x1 := x1) (s1 := s1) as (-> & t0 & -> & Ck); [ | | exact S1 | exact B1 | ].
  - intros t1 s2 Hn Ps Pbb H41.
    destruct (alts_walk (somes res) Hne Hsc F [] (Some t1) s2 (mbok_tl _ M) Ps Pbb) as (-> & t2 & E & Ck). inversion E; subst. split; [reflexivity | exact Ck].
  - intro H41. destruct (altstr_hd _ Hne) as (r & E). rewrite E in H41. cbn in H41. lia.
  - cbn [hd0] in P. change (negb (0 =? 124)) with true in P. cbv iota in P. inversion P; subst.
    rewrite Ck. reflexivity.
Qed.

(* ASCII patterns: every character is one byte *)
Lemma ascii_uclen c r : c < 128 -> (re_uclen (c :: r) <= 1)%nat.
Proof.
  intro L. cbn [re_uclen].
  assert (B : bit c 128 = false).
  { pose proof (byte_sweep (fun b => implb (b <? 128) (negb (bit b 128))) ltac:(vm_compute; reflexivity) c ltac:(lia)) as Q. cbv beta in Q.
    replace (c <? 128) with true in Q by lia. cbn [implb] in Q. apply negb_true_iff in Q. exact Q. }
  rewrite B. cbn [andb negb]. destruct (c =? 0); lia.
Qed.
Lemma ascii_mbok s : Forall (fun b => b < 128) s -> mbok s.
Proof.
  intros H i j L. exfalso. pose proof (Forall_skipn' _ i _ H) as Hs. destruct (skipn i s) as [|c r]; [cbn in L; lia|].
  inversion Hs; subst. pose proof (ascii_uclen c r ltac:(assumption)). lia.
Qed.

Lemma joins_ascii ps : Forall (Forall (fun b => b < 128)) ps -> Forall (fun b => b < 128) (joins ps).
Proof.
  induction 1 as [|p ps Hp _ IH]; cbn [joins]; [constructor|].
  constructor; [lia|]. constructor; [lia|]. apply Forall_app. split; [exact Hp|]. cbn [app]. constructor; [lia | exact IH].
Qed.
Lemma ascii_patterns_mbok res : Forall (Forall (fun b => b < 128)) (somes res) -> somes res <> [] -> mbok (rset_pattern res).
Proof.
  intros H Hne. apply ascii_mbok. rewrite (rset_pattern_altstr res Hne).
  destruct (somes res) as [|p ps]; [contradiction|]. rewrite altstr_joins. inversion H; subst.
  cbn [app]. constructor; [lia|]. constructor; [lia|]. repeat rewrite <- app_assoc. apply Forall_app. split; [assumption|].
  cbn [app]. constructor; [lia|]. apply Forall_app. split; [apply joins_ascii; assumption | constructor; [lia | constructor]].
Qed.

(* the hypothesis-free forms of C10_rset_index / C10_rset_index_semantic *)
Theorem rset_index_all res flg rs : rset_make res flg = Ok (Some rs) -> mbok (rset_pattern res) -> somes res <> [] ->
  exists body, tree (rs_prog rs) = NGrp body 1 1 1 /\
    wraps body (somes res) (map Z.to_nat (filter nonneg (firstn (rs_n rs) (rs_grp rs)))) /\
    map snd (filter (fun zs => nonneg (fst zs)) (combine (firstn (rs_n rs) (rs_grp rs)) (rs_setgrpcnt rs))) = map re_groupcount (somes res) /\
    rs_grpcnt rs = (1 + ngroups (tree (rs_prog rs)))%nat /\ nth (rs_n rs) (rs_grp rs) 0%Z = Z.of_nat (rs_grpcnt rs) /\
    map Z.to_nat (filter nonneg (firstn (rs_n rs) (rs_grp rs))) = nums 2 (somes res).
Proof. intros Mk M Hne. exact (rset_index_full res flg rs (accepted_shape res flg rs Mk M Hne) Mk). Qed.
