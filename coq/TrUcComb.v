(* TrUcComb.v -- uc_iscomb of uc.c on the translated C text: the model RenDefs.uc_iscomb is what the C text says. *)
From Coq Require Import List ZArith NArith Bool Lia.
From NV Require Import Bytes UcDefs GenUcTables RenDefs CLite CLiteProps GenCFuncs CLiteTac TrUcCode TrUcTab.
Import ListNotations.
Local Open Scope Z_scope.

Lemma iscomb_plain_z : forall c, (c < 256)%N ->
  ((c =? 32)%N || (c =? 9)%N || (c =? 10)%N || (c <=? 127)%N && c_isprint c)
  = ((Z.of_N c =? 32) || (Z.of_N c =? 9) || (Z.of_N c =? 10) || ((Z.of_N c <=? 127) && ct_isprint (Z.of_N c))).
Proof. byte_fact. Qed.

Theorem tr_uc_iscomb m b s o d fuel :
  str_at m b s -> bytes_lt256 s -> (o + uc_len_b (nthb s o) - 1 <= length s)%nat -> (o <= length s)%nat ->
  callf cprog fuel (S (S d)) F_uc_iscomb [VPtr b (Z.of_nat o)] m = Ok (VInt (b2z (uc_iscomb (skipn o s))), m).
Proof.
  intros Hs H256 Hlen Ho. enter F_uc_iscomb cf_uc_iscomb. xstep.
  xload Hs H256 o. unfold uc_iscomb. rewrite hd0_skipn, (iscomb_plain_z _ (nthb_lt256 s o H256)).
  pose proof (uc_code_int_ok (skipn o s) (Forall_skipn' _ o s H256)) as Hc.
  assert (Ha : ct_arg (Z.of_N (nthb s o)) = Ok (Z.of_N (nthb s o))).
  { pose proof (nthb_lt256 s o H256). unfold ct_arg.
    destruct (Z.leb_spec (-1) (Z.of_N (nthb s o))); [|lia]. destruct (Z.leb_spec (Z.of_N (nthb s o)) 255); [|lia]. reflexivity. }
  xif; cbn [do_builtin_m do_builtin bind]; rewrite ?Ha; cbn [bind]; xstep; xif; cbn [orb andb]; try reflexivity; try discriminate; try congruence;
  (rewrite (tr_uc_code m b s o d fuel Hs H256 Hlen Ho); xstep;
   rewrite (tr_uc_acomb m _ d fuel Hc); xstep; reflexivity).
Qed.
