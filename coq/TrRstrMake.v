(* TrRstrMake.v -- the classifier and the constructor of /repo/rstr.c on the translated C text (GenCFuncs.v: cf_rstr_simple, cf_rstr_make,
   cf_rstr_free, cf_rset_free; whitelist tools/c2clite.d/96a_rsetfind.list):
   * rstr_simple(rs, re) is the model RstrDefs.rstr_simple (C12_classifier): for every NUL-free pattern string in memory, read at any
     offset, the four anchor flags written into the struct are the ones the model computes, the loop `while (re[0] && !strchr(META, re[0]))`
     stops where span_lit stops (strchr over the literal "\\.*+?[]{}()$|^" = GenConsts.rstr_meta, the builtin BStrchr of CLite), the
     function returns 0 exactly when the model says Some, and then rs->str is a FRESH block that holds exactly the literal and its
     terminator (malloc(len + 1), memcpy, the store of '\0' inside the block); otherwise 1 and nothing is allocated;
   * rstr_make(re, flg) on a pattern the classifier accepts returns a struct rstr that satisfies the hypotheses of TrRstr.tr_rstr_find
     (C12_tr_rstr_find): rs == NULL, str = the literal, icase = flg & RE_ICASE, the anchor flags as the model says -- so the chain
     pattern string -> rstr_make -> rstr_find on the C text equals the declarative spec without assumptions about the struct
     (tr_rstr_make_find_spec);  on any other pattern it dispatches to rset_make(1, &re, flg) (stated relative to that call's answer,
     for every oracle: CLiteExt.callx) and returns NULL, the struct freed, when rset_make fails;
   * rstr_free frees the literal and the struct (simple patterns), and rset_free -- relative to regfree's oracle -- the three blocks
     of a set.
   struct rstr { struct rset *rs; char *str; int icase; int lbeg, lend; int wbeg, wend; } is a block of 7 cells.  c2clite gives the
   address-taken parameter `re` of rstr_make a cell of its own (a 1-cell block allocated on entry, never freed by the term). *)
From Coq Require Import List ZArith NArith Bool Lia.
From NV Require Import Bytes GenConsts RstrDefs RstrProps CLite CLiteProps CLiteExt GenCFuncs CLiteTac TrRstr.
Import ListNotations.
Local Open Scope Z_scope.

(* ------------------------------------------------------------------ the classifier of the model, read at offsets of the string *)
Definition span_len (re : bytes) : nat := length (fst (span_lit re)).
Lemma span_len_cons c re : span_len (c :: re) = if in_set c rstr_meta then 0%nat else S (span_len re).
Proof. unfold span_len. cbn [span_lit]. destruct (in_set c rstr_meta); [reflexivity|]. destruct (span_lit re); reflexivity. Qed.
Lemma span_lit_len re : span_lit re = (firstn (span_len re) re, skipn (span_len re) re).
Proof.
  induction re as [|c re IH]; [reflexivity|]. rewrite span_len_cons. cbn [span_lit].
  destruct (in_set c rstr_meta); [reflexivity|]. rewrite IH. reflexivity.
Qed.
Lemma span_len_le re : (span_len re <= length re)%nat.
Proof.
  unfold span_len. induction re as [|c re IH]; [cbn; lia|]. cbn [span_lit]. destruct (in_set c rstr_meta); [cbn; lia|].
  destruct (span_lit re) as [l r]. cbn [fst length] in *. lia.
Qed.

Section Off.
  Variable s : bytes.
  Hypothesis Hnn : nonul s.
  Lemma nonul_nz q : (q < length s)%nat -> (nthb s q =? 0)%N = false.
  Proof. apply nonul_nthb_nz. exact Hnn. Qed.
  Lemma nz_lt q : (nthb s q =? 0)%N = false -> (q < length s)%nat.
  Proof. intro H. destruct (Nat.lt_ge_cases q (length s)); [assumption|]. rewrite nthb_end in H by lia. discriminate. Qed.
  Lemma starts1 c q : c <> 0%N -> starts [c] (skipn q s) = (nthb s q =? c)%N.
  Proof.
    intro Hc. destruct (Nat.lt_ge_cases q (length s)) as [L|L].
    - rewrite (skipn_cons_nthb s q L). cbn [starts]. rewrite andb_true_r. apply N.eqb_sym.
    - rewrite skipn_end, nthb_end by lia. cbn [starts]. symmetry. apply N.eqb_neq. congruence.
  Qed.
  Lemma starts2 a b q : a <> 0%N -> b <> 0%N -> starts [a; b] (skipn q s) = ((nthb s q =? a) && (nthb s (S q) =? b))%N.
  Proof.
    intros Ha Hb. destruct (Nat.lt_ge_cases q (length s)) as [L|L].
    - rewrite (skipn_cons_nthb s q L). cbn [starts]. rewrite (N.eqb_sym a). f_equal.
      change (match skipn (S q) s with [] => false | y :: re' => (b =? y)%N && starts [] re' end) with (starts [b] (skipn (S q) s)).
      apply starts1. exact Hb.
    - rewrite skipn_end, nthb_end by lia. cbn [starts]. replace (0 =? a)%N with false by (symmetry; apply N.eqb_neq; congruence). reflexivity.
  Qed.

  Lemma strip1 c q : c <> 0%N -> strip [c] (skipn q s) = ((nthb s q =? c)%N, skipn (if (nthb s q =? c)%N then S q else q) s).
  Proof.
    intro Hc. unfold strip. rewrite starts1 by exact Hc. destruct (nthb s q =? c)%N; [|reflexivity].
    rewrite skipn_skipn. do 2 f_equal. cbn [length]. lia.
  Qed.
  Lemma strip2 a b q : a <> 0%N -> b <> 0%N ->
    strip [a; b] (skipn q s) = (((nthb s q =? a) && (nthb s (S q) =? b))%N, skipn (if ((nthb s q =? a) && (nthb s (S q) =? b))%N then S (S q) else q) s).
  Proof.
    intros Ha Hb. unfold strip. rewrite starts2 by assumption. destruct ((nthb s q =? a) && (nthb s (S q) =? b))%N; [|reflexivity].
    rewrite skipn_skipn. do 2 f_equal. cbn [length]. lia.
  Qed.

  Variable o : nat.
  Definition so_lbeg : bool := (nthb s o =? 94)%N.
  Definition so_1 : nat := if so_lbeg then S o else o.
  Definition so_wbeg : bool := ((nthb s so_1 =? 92) && (nthb s (S so_1) =? 60))%N.
  Definition so_2 : nat := if so_wbeg then S (S so_1) else so_1.
  Definition so_3 : nat := (so_2 + span_len (skipn so_2 s))%nat.
  Definition so_wend : bool := ((nthb s so_3 =? 92) && (nthb s (S so_3) =? 62))%N.
  Definition so_4 : nat := if so_wend then S (S so_3) else so_3.
  Definition so_lend : bool := (nthb s so_4 =? 36)%N.
  Definition so_5 : nat := if so_lend then S so_4 else so_4.
  Definition so_lit : bytes := firstn (so_3 - so_2) (skipn so_2 s).
  Definition so_simple : bool := (nthb s so_5 =? 0)%N.

  Hypothesis Ho : (o <= length s)%nat.
  Lemma eqb_pos_lt q p : (nthb s q =? N.pos p)%N = true -> (q < length s)%nat.
  Proof. intro H. apply nz_lt. apply N.eqb_eq in H. rewrite H. reflexivity. Qed.
  Lemma so_1_le : (so_1 <= length s)%nat.
  Proof. unfold so_1, so_lbeg. destruct (nthb s o =? 94)%N eqn:E; [apply eqb_pos_lt in E; lia|exact Ho]. Qed.
  Lemma so_2_le : (so_2 <= length s)%nat.
  Proof.
    pose proof so_1_le. unfold so_2, so_wbeg. destruct (nthb s so_1 =? 92)%N eqn:E; cbn [andb]; [|assumption].
    destruct (nthb s (S so_1) =? 60)%N eqn:E2; [apply eqb_pos_lt in E2; lia|assumption].
  Qed.
  Lemma so_3_le : (so_2 <= so_3 <= length s)%nat.
  Proof. pose proof so_2_le. unfold so_3. pose proof (span_len_le (skipn so_2 s)) as L. rewrite skipn_length in L. lia. Qed.
  Lemma so_4_le : (so_4 <= length s)%nat.
  Proof.
    pose proof so_3_le. unfold so_4, so_wend. destruct (nthb s so_3 =? 92)%N eqn:E; cbn [andb]; [|lia].
    destruct (nthb s (S so_3) =? 62)%N eqn:E2; [apply eqb_pos_lt in E2; lia|lia].
  Qed.
  Lemma so_5_le : (so_5 <= length s)%nat.
  Proof. pose proof so_4_le. unfold so_5, so_lend. destruct (nthb s so_4 =? 36)%N eqn:E; [apply eqb_pos_lt in E; lia|assumption]. Qed.

  (* RstrDefs.rstr_simple on the suffix at o, in terms of the offsets *)
  Lemma rstr_simple_off ic :
    rstr_simple ic (skipn o s) = if so_simple then Some (mk_rstr so_lit ic so_lbeg so_lend so_wbeg so_wend) else None.
  Proof.
    unfold rstr_simple.
    rewrite strip1 by discriminate. fold so_lbeg. fold so_1.
    rewrite strip2 by discriminate. fold so_wbeg. fold so_2.
    rewrite span_lit_len. rewrite skipn_skipn. fold so_3.
    replace (span_len (skipn so_2 s)) with (so_3 - so_2)%nat by (unfold so_3; lia). fold so_lit.
    rewrite strip2 by discriminate. fold so_wend. fold so_4.
    rewrite strip1 by discriminate. fold so_lend. fold so_5.
    unfold so_simple. pose proof so_5_le as L5.
    destruct (Nat.eq_dec so_5 (length s)) as [E|E].
    - rewrite skipn_end, nthb_end by lia. reflexivity.
    - rewrite (skipn_cons_nthb s so_5) by lia. rewrite nonul_nz by lia. reflexivity.
  Qed.
End Off.

(* ------------------------------------------------------------------ facts about one byte, strchr over the literal *)
Lemma rm_eq_0 : forall c, (c < 256)%N -> (sx c =? 0) = (c =? 0)%N.  Proof. byte_fact. Qed.
Lemma rm_eq_36 : forall c, (c < 256)%N -> (sx c =? 36) = (c =? 36)%N.  Proof. byte_fact. Qed.
Lemma rm_eq_60 : forall c, (c < 256)%N -> (sx c =? 60) = (c =? 60)%N.  Proof. byte_fact. Qed.
Lemma rm_eq_62 : forall c, (c < 256)%N -> (sx c =? 62) = (c =? 62)%N.  Proof. byte_fact. Qed.
Lemma rm_eq_92 : forall c, (c < 256)%N -> (sx c =? 92) = (c =? 92)%N.  Proof. byte_fact. Qed.
Lemma rm_eq_94 : forall c, (c < 256)%N -> (sx c =? 94) = (c =? 94)%N.  Proof. byte_fact. Qed.
Lemma rm_z0 : forall c, (c < 256)%N -> (wrap I8 (Z.of_N c) =? 0) = (c =? 0)%N.  Proof. byte_fact. Qed.
Ltac fold_sx := repeat match goal with |- context [wrap I32 (wrap I8 (Z.of_N ?c))] => change (wrap I32 (wrap I8 (Z.of_N c))) with (sx c) end.
Lemma wrap_b2z x : wrap I32 (b2z x) = b2z x.
Proof. destruct x; reflexivity. Qed.

Notation G_meta := G_lit_5c2e2a2b3f5b5d7b7d2829247c5e_14.
Notation gb_meta := gb_lit_5c2e2a2b3f5b5d7b7d2829247c5e_14.
Lemma gb_meta_is : gb_meta = cstr_block (zb rstr_meta).
Proof. reflexivity. Qed.
Lemma nonul_meta : nonul rstr_meta.
Proof. unfold nonul, rstr_meta. repeat (constructor; [split; reflexivity|]). constructor. Qed.
Lemma find_byte_in_set c l : (match find_byte c l with Some _ => true | None => false end) = in_set c l.
Proof.
  unfold in_set. induction l as [|x l IH]; [reflexivity|]. cbn [find_byte existsb]. rewrite (N.eqb_sym c x).
  destruct (x =? c)%N; [reflexivity|]. cbn [orb]. rewrite <- IH. destruct (find_byte c l); reflexivity.
Qed.

(* ------------------------------------------------------------------ the pieces of rstr_simple *)
Definition rsm_loop : stmt :=
  match fn_body cf_rstr_simple with SSeq _ (SSeq _ (SSeq _ (SSeq _ (SSeq _ (SSeq w _))))) => w | _ => SSkip end.
Definition rsm_tail : stmt :=
  match fn_body cf_rstr_simple with SSeq _ (SSeq _ (SSeq _ (SSeq _ (SSeq _ (SSeq _ t))))) => t | _ => SSkip end.

(* while (re[0] && !strchr("\\.*+?[]{}()$|^", (unsigned char) re[0])) re++; *)
Lemma rsm_loop_ok call (mm : mem) rb b (s : bytes) v2 v3 v4 : str_at mm b s -> nonul s -> nth_error mm G_meta = Some gb_meta ->
  forall k q fuel, (length s - q <= k)%nat -> (q <= length s)%nat -> (k < fuel)%nat ->
  exec call fuel rsm_loop (mkst [VPtr rb 0; VPtr b (Z.of_nat q); v2; v3; v4] mm)
  = ONormal (mkst [VPtr rb 0; VPtr b (Z.of_nat (q + span_len (skipn q s))); v2; v3; v4] mm).
Proof.
  intros Hs Hnn Hlit. pose proof (nonul_lt256 s Hnn) as H256.
  assert (Hmeta : str_at mm G_meta rstr_meta) by (unfold str_at; rewrite Hlit, gb_meta_is; reflexivity).
  induction k as [|k IH]; intros q fuel Hk Hq Hf; (destruct fuel as [|fuel]; [lia|]);
    unfold rsm_loop; cbn [fn_body cf_rstr_simple]; rewrite exec_while; xstep;
    replace (Z.of_nat q + 1 * 0) with (Z.of_nat q) by lia;
    rewrite (load_str mm b s _ q Hs) by lia; xstep; fold_sx;
    pose proof (nthb_lt256 s q H256) as Hc; rewrite (rm_eq_0 _ Hc).
  - assert (q = length s) as -> by lia. rewrite nthb_end by lia. rewrite skipn_end by lia. cbn [N.eqb negb]. xstep.
    change (span_len []) with 0%nat. rewrite Nat.add_0_r. reflexivity.
  - destruct (Nat.eq_dec q (length s)) as [->|Hne].
    { rewrite nthb_end by lia. rewrite skipn_end by lia. cbn [N.eqb negb]. xstep. change (span_len []) with 0%nat. rewrite Nat.add_0_r. reflexivity. }
    rewrite (nonul_nz s Hnn) by lia. cbn [negb]. xstep.
    replace (Z.of_nat q + 1 * 0) with (Z.of_nat q) by lia.
    rewrite (load_str mm b s _ q Hs) by lia. xstep. rewrite wrap_byte_chain by exact Hc.
    assert (Hc0 : nthb s q <> 0%N) by (pose proof (nonul_nz s Hnn q ltac:(lia)) as X; apply N.eqb_neq in X; exact X).
    pose proof (builtin_strchr mm G_meta rstr_meta 0 (nthb s q) Hmeta nonul_meta ltac:(cbn; lia) Hc Hc0) as B.
    change (Z.of_nat 0) with 0 in B. rewrite B. clear B. xstep. cbn [skipn].
    rewrite (skipn_cons_nthb s q) by lia. rewrite span_len_cons. rewrite <- find_byte_in_set.
    destruct (find_byte (nthb s q) rstr_meta) as [j|]; xstep.
    + rewrite Nat.add_0_r. reflexivity.
    + replace (Z.of_nat q + 1) with (Z.of_nat (S q)) by lia. change (SWhile _ _) with rsm_loop.
      rewrite (IH (S q) fuel) by lia. replace (S q + span_len (skipn (S q) s))%nat with (q + S (span_len (skipn (S q) s)))%nat by lia. reflexivity.
Qed.

(* ------------------------------------------------------------------ the struct (7 cells) *)
Lemma ld7 (m : mem) rb c0 c1 c2 c3 c4 c5 c6 : nth_error m rb = Some [c0; c1; c2; c3; c4; c5; c6] ->
  load m rb 0 = Ok c0 /\ load m rb (0 + 1 * 1) = Ok c1 /\ load m rb (0 + 1 * 2) = Ok c2 /\ load m rb (0 + 1 * 3) = Ok c3 /\
  load m rb (0 + 1 * 4) = Ok c4 /\ load m rb (0 + 1 * 5) = Ok c5 /\ load m rb (0 + 1 * 6) = Ok c6.
Proof. intro H. unfold load. rewrite H. repeat split. Qed.
Lemma st7 (m : mem) rb c0 c1 c2 c3 c4 c5 c6 v : nth_error m rb = Some [c0; c1; c2; c3; c4; c5; c6] ->
  store m rb 0 v = Ok (upd m rb [v; c1; c2; c3; c4; c5; c6]) /\
  store m rb (0 + 1 * 1) v = Ok (upd m rb [c0; v; c2; c3; c4; c5; c6]) /\
  store m rb (0 + 1 * 2) v = Ok (upd m rb [c0; c1; v; c3; c4; c5; c6]) /\
  store m rb (0 + 1 * 3) v = Ok (upd m rb [c0; c1; c2; v; c4; c5; c6]) /\
  store m rb (0 + 1 * 4) v = Ok (upd m rb [c0; c1; c2; c3; v; c5; c6]) /\
  store m rb (0 + 1 * 5) v = Ok (upd m rb [c0; c1; c2; c3; c4; v; c6]) /\
  store m rb (0 + 1 * 6) v = Ok (upd m rb [c0; c1; c2; c3; c4; c5; v]).
Proof. intro H. repeat split; rewrite (store_ok m rb [c0; c1; c2; c3; c4; c5; c6]) by (try exact H; cbn; lia); reflexivity. Qed.

Lemma firstn_cstr_lit (t : bytes) k : (k <= length t)%nat -> firstn k (cstr_block (zb t)) = map VInt (zb (firstn k t)).
Proof.
  intro H. unfold cstr_block, zb. rewrite firstn_app, !map_length. replace (k - length t)%nat with 0%nat by lia.
  cbn [firstn]. rewrite app_nil_r, !firstn_map. reflexivity.
Qed.

Definition rsm_r2 : stmt := match fn_body cf_rstr_simple with SSeq _ (SSeq _ t) => t | _ => SSkip end.
Definition rsm_r4 : stmt := match fn_body cf_rstr_simple with SSeq _ (SSeq _ (SSeq _ (SSeq _ t))) => t | _ => SSkip end.
Definition rsm_r9 : stmt :=
  match fn_body cf_rstr_simple with SSeq _ (SSeq _ (SSeq _ (SSeq _ (SSeq _ (SSeq _ (SSeq _ (SSeq _ (SSeq _ t)))))))) => t | _ => SSkip end.
Definition rsm_r11 : stmt :=
  match fn_body cf_rstr_simple with SSeq _ (SSeq _ (SSeq _ (SSeq _ (SSeq _ (SSeq _ (SSeq _ (SSeq _ (SSeq _ (SSeq _ (SSeq _ t)))))))))) => t | _ => SSkip end.

Section Simple.
  Variable call : nat -> list val -> mem -> res (val * mem).
  Variables (rb b : nat) (s : bytes) (c0 c1 c2 : val).
  Hypothesis Hnn : nonul s.
  Hypothesis Hmax : Z.of_nat (length s) < 2147483647.
  Hypothesis Hne : rb <> b.
  Let H256 : bytes_lt256 s := nonul_lt256 s Hnn.

  (* what the call leaves: 0 and the literal in a fresh block, or 1 *)
  Definition rsm_ret (simple : bool) : val := VInt (if simple then 0 else 1).
  Definition rsm_mem (mm : mem) (simple : bool) (f3 f4 f5 f6 : val) (lit : bytes) : mem :=
    if simple then upd mm rb [c0; VPtr (length mm) 0; c2; f3; f4; f5; f6] ++ [cstr_block (zb lit)] else mm.

  (* if (!re[0]) { int len = end - beg; rs->str = malloc(len + 1); memcpy(rs->str, beg, len); rs->str[len] = '\0'; return 0; } return 1; *)
  Lemma rsm_r11_ok fuel (mm : mem) f3 f4 f5 f6 q2 q3 q5 v4 :
    nth_error mm rb = Some [c0; c1; c2; f3; f4; f5; f6] -> str_at mm b s -> (q2 <= q3 <= length s)%nat -> (q5 <= length s)%nat ->
    exists st', exec call fuel rsm_r11 (mkst [VPtr rb 0; VPtr b (Z.of_nat q5); VPtr b (Z.of_nat q2); VPtr b (Z.of_nat q3); v4] mm)
                = OReturn (rsm_ret (nthb s q5 =? 0)%N) st' /\
                memm st' = rsm_mem mm (nthb s q5 =? 0)%N f3 f4 f5 f6 (firstn (q3 - q2) (skipn q2 s)).
  Proof.
    intros Hrb Hs Hq Hq5. unfold rsm_r11; cbn [fn_body cf_rstr_simple]. xstep.
    replace (Z.of_nat q5 + 1 * 0) with (Z.of_nat q5) by lia. rewrite (load_str mm b s _ q5 Hs) by lia. xstep.
    rewrite (rm_z0 _ (nthb_lt256 s q5 H256)). unfold rsm_ret, rsm_mem.
    destruct (nthb s q5 =? 0)%N; cbn [negb b2z]; xstep; [|eexists; split; reflexivity].
    rewrite Nat.eqb_refl. xstep. rewrite Z.quot_1_r.
    set (len := (q3 - q2)%nat). replace (Z.of_nat q3 - Z.of_nat q2) with (Z.of_nat len) by (unfold len; lia).
    assert (Hlen : Z.of_nat len <= Z.of_nat (length s)) by (unfold len; lia).
    rewrite (CLiteProps.wrap_I32_id (Z.of_nat len)) by lia. rewrite (chk_I32 (Z.of_nat len + 1)) by lia. xstep.
    rewrite (wrap_U64_id (Z.of_nat len + 1)) by lia. rewrite (malloc_ok mm (Z.of_nat len + 1)) by lia. xstep.
    assert (Lrb : (rb < length mm)%nat) by (apply nth_error_Some; congruence).
    assert (Lb : (b < length mm)%nat) by (apply nth_error_Some; unfold str_at in Hs; congruence).
    set (N0 := repeat VUndef (Z.to_nat (Z.of_nat len + 1))).
    assert (Hrb1 : nth_error (mm ++ [N0]) rb = Some [c0; c1; c2; f3; f4; f5; f6]) by (rewrite nth_error_app_old by exact Lrb; exact Hrb).
    destruct (st7 _ rb _ _ _ _ _ _ _ (VPtr (length mm) 0) Hrb1) as (_ & S1 & _). rewrite S1. xstep.
    rewrite upd_app_old by exact Lrb.
    set (m1 := upd mm rb [c0; VPtr (length mm) 0; c2; f3; f4; f5; f6]).
    assert (Lm1 : length m1 = length mm) by (unfold m1; apply upd_length; exact Lrb).
    set (M1 := m1 ++ _).
    assert (Hrb2 : nth_error M1 rb = Some [c0; VPtr (length mm) 0; c2; f3; f4; f5; f6])
      by (unfold M1; rewrite nth_error_app_old by lia; apply mem_upd_same; exact Lrb).
    destruct (ld7 _ rb _ _ _ _ _ _ _ Hrb2) as (_ & L1 & _). rewrite L1. xstep.
    rewrite (wrap_U64_id (Z.of_nat len)) by lia.
    assert (HN0 : nth_error M1 (length mm) = Some N0) by (unfold M1; rewrite <- Lm1; apply nth_error_app_new).
    assert (Hb1 : nth_error M1 b = Some (cstr_block (zb s))).
    { unfold M1. rewrite nth_error_app_old by lia. unfold m1. rewrite mem_upd_other by (auto; congruence). exact Hs. }
    assert (LN0 : length N0 = S len) by (unfold N0; rewrite repeat_length; lia).
    rewrite (memcpy_ok M1 (length mm) 0 b (Z.of_nat q2) (Z.of_nat len) N0 (cstr_block (zb s)) HN0 Hb1)
      by (unfold cstr_block, zb; rewrite ?app_length, ?map_length, ?LN0; cbn [length]; lia).
    xstep. rewrite !Nat2Z.id. change (Z.to_nat 0) with 0%nat.
    rewrite skipn_cstr_block by lia. rewrite firstn_cstr_lit by (rewrite skipn_length; lia).
    set (lit := firstn len (skipn q2 s)).
    assert (Llit : length (map VInt (zb lit)) = len).
    { unfold zb, lit. rewrite !map_length, firstn_length, skipn_length. lia. }
    rewrite put_cells_0. rewrite Llit.
    assert (Esk : skipn len N0 = [VUndef]).
    { unfold N0. replace (Z.to_nat (Z.of_nat len + 1)) with (S len) by lia.
      clear. induction len as [|k IH]; [reflexivity|cbn [repeat skipn] in *; exact IH]. }
    rewrite !Esk.
    assert (Eup : forall X : block, upd M1 (length mm) X = m1 ++ [X]) by (intro X; unfold M1; rewrite <- Lm1; apply upd_app_new).
    rewrite !Eup.
    set (M2 := m1 ++ _).
    assert (Hrb3 : nth_error M2 rb = Some [c0; VPtr (length mm) 0; c2; f3; f4; f5; f6])
      by (unfold M2; rewrite nth_error_app_old by lia; apply mem_upd_same; exact Lrb).
    destruct (ld7 _ rb _ _ _ _ _ _ _ Hrb3) as (_ & L1' & _). rewrite L1'. xstep.
    change (wrap I8 (wrap I8 0)) with 0.
    assert (HN1 : nth_error M2 (length mm) = Some (map VInt (zb lit) ++ [VUndef]))
      by (unfold M2; rewrite <- Lm1; apply nth_error_app_new).
    rewrite (store_ok M2 (length mm) _ (0 + 1 * Z.of_nat len) _ HN1) by (rewrite app_length, Llit; cbn [length]; lia). xstep.
    replace (Z.to_nat (0 + 1 * Z.of_nat len)) with (length (map VInt (zb lit))) by (rewrite Llit; lia).
    rewrite upd_app_hd.
    assert (Eup2 : forall X : block, upd M2 (length mm) X = m1 ++ [X]) by (intro X; unfold M2; rewrite <- Lm1; apply upd_app_new).
    rewrite !Eup2.
    eexists. split; [reflexivity|]. reflexivity.
  Qed.

  Lemma str_upd (mm : mem) B : str_at mm b s -> (rb < length mm)%nat -> str_at (upd mm rb B) b s.
  Proof. intros H L. apply str_at_upd_other; [exact L|congruence|exact H]. Qed.
  Lemma pos_lt q p : (nthb s q =? N.pos p)%N = true -> (q < length s)%nat.
  Proof. apply eqb_pos_lt. Qed.

  (* rs->lend = re[0] == '$'; if (rs->lend) re++; ... *)
  Lemma rsm_r9_ok fuel (mm : mem) f3 f4 f5 f6 q2 q3 q4 v4 :
    nth_error mm rb = Some [c0; c1; c2; f3; f4; f5; f6] -> str_at mm b s -> (q2 <= q3 <= length s)%nat -> (q4 <= length s)%nat ->
    let lend := (nthb s q4 =? 36)%N in let q5 := if lend then S q4 else q4 in
    exists st', exec call fuel rsm_r9 (mkst [VPtr rb 0; VPtr b (Z.of_nat q4); VPtr b (Z.of_nat q2); VPtr b (Z.of_nat q3); v4] mm)
                = OReturn (rsm_ret (nthb s q5 =? 0)%N) st' /\
                memm st' = rsm_mem (upd mm rb [c0; c1; c2; f3; VInt (b2z lend); f5; f6]) (nthb s q5 =? 0)%N f3 (VInt (b2z lend)) f5 f6
                             (firstn (q3 - q2) (skipn q2 s)).
  Proof.
    intros Hrb Hs Hq Hq4 lend q5.
    assert (Lrb : (rb < length mm)%nat) by (apply nth_error_Some; congruence).
    set (mm1 := upd mm rb [c0; c1; c2; f3; VInt (b2z lend); f5; f6]).
    assert (Hrb1 : nth_error mm1 rb = Some [c0; c1; c2; f3; VInt (b2z lend); f5; f6]) by (apply mem_upd_same; exact Lrb).
    assert (Hs1 : str_at mm1 b s) by (apply str_upd; assumption).
    assert (Hq5 : (q5 <= length s)%nat).
    { unfold q5, lend. destruct (nthb s q4 =? 36)%N eqn:E; [apply pos_lt in E; lia|exact Hq4]. }
    destruct (rsm_r11_ok fuel mm1 f3 (VInt (b2z lend)) f5 f6 q2 q3 q5 v4 Hrb1 Hs1 Hq Hq5) as [st' [E M]].
    exists st'. split; [|exact M]. etransitivity; [|exact E]. clear E M.
    unfold rsm_r9, rsm_r11; cbn [fn_body cf_rstr_simple]. xstep.
    replace (Z.of_nat q4 + 1 * 0) with (Z.of_nat q4) by lia. rewrite (load_str mm b s _ q4 Hs) by lia. xstep. fold_sx.
    rewrite (rm_eq_36 _ (nthb_lt256 s q4 H256)). fold lend. rewrite wrap_b2z.
    destruct (st7 mm rb _ _ _ _ _ _ _ (VInt (b2z lend)) Hrb) as (_ & _ & _ & _ & S4 & _). rewrite S4. xstep. fold mm1.
    destruct (ld7 mm1 rb _ _ _ _ _ _ _ Hrb1) as (_ & _ & _ & _ & L4 & _). rewrite L4. xstep. rewrite wrap_b2z, ?nb2z.
    unfold q5. subst lend. destruct (nthb s q4 =? 36)%N; xstep; [replace (Z.of_nat q4 + 1) with (Z.of_nat (S q4)) by lia|]; reflexivity.
  Qed.

  (* end = re; rs->wend = re[0] == '\\' && re[1] == '>'; if (rs->wend) re += 2; ... *)
  Lemma rsm_tail_ok fuel (mm : mem) f3 f4 f5 f6 q2 q3 v3 v4 :
    nth_error mm rb = Some [c0; c1; c2; f3; f4; f5; f6] -> str_at mm b s -> (q2 <= q3 <= length s)%nat ->
    let wend := ((nthb s q3 =? 92) && (nthb s (S q3) =? 62))%N in let q4 := if wend then S (S q3) else q3 in
    let lend := (nthb s q4 =? 36)%N in let q5 := if lend then S q4 else q4 in
    exists st', exec call fuel rsm_tail (mkst [VPtr rb 0; VPtr b (Z.of_nat q3); VPtr b (Z.of_nat q2); v3; v4] mm)
                = OReturn (rsm_ret (nthb s q5 =? 0)%N) st' /\
                memm st' = rsm_mem (upd mm rb [c0; c1; c2; f3; VInt (b2z lend); f5; VInt (b2z wend)]) (nthb s q5 =? 0)%N
                             f3 (VInt (b2z lend)) f5 (VInt (b2z wend)) (firstn (q3 - q2) (skipn q2 s)).
  Proof.
    intros Hrb Hs Hq wend q4 lend q5.
    assert (Lrb : (rb < length mm)%nat) by (apply nth_error_Some; congruence).
    set (mm1 := upd mm rb [c0; c1; c2; f3; f4; f5; VInt (b2z wend)]).
    assert (Hrb1 : nth_error mm1 rb = Some [c0; c1; c2; f3; f4; f5; VInt (b2z wend)]) by (apply mem_upd_same; exact Lrb).
    assert (Hs1 : str_at mm1 b s) by (apply str_upd; assumption).
    assert (Hq4 : (q4 <= length s)%nat).
    { unfold q4, wend. destruct (nthb s q3 =? 92)%N; cbn [andb]; [|lia]. destruct (nthb s (S q3) =? 62)%N eqn:E; [apply pos_lt in E; lia|lia]. }
    destruct (rsm_r9_ok fuel mm1 f3 f4 f5 (VInt (b2z wend)) q2 q3 q4 v4 Hrb1 Hs1 Hq Hq4) as [st' [E M]].
    fold lend in E, M. fold q5 in E, M. unfold mm1 in M. rewrite upd_upd in M by exact Lrb.
    exists st'. split; [|exact M]. etransitivity; [|exact E]. clear E M.
    unfold rsm_tail, rsm_r9; cbn [fn_body cf_rstr_simple]. xstep.
    replace (Z.of_nat q3 + 1 * 0) with (Z.of_nat q3) by lia. rewrite (load_str mm b s _ q3 Hs) by lia. xstep. fold_sx.
    rewrite (rm_eq_92 _ (nthb_lt256 s q3 H256)).
    destruct (nthb s q3 =? 92)%N eqn:E92; xstep.
    - assert (Hw : wend = (nthb s (S q3) =? 62)%N) by (unfold wend; rewrite ?E92; reflexivity). clearbody wend. subst wend.
      pose proof (pos_lt _ _ E92) as L3.
      replace (Z.of_nat q3 + 1 * 1) with (Z.of_nat (S q3)) by lia. rewrite (load_str mm b s _ (S q3) Hs) by lia. xstep. fold_sx.
      rewrite (rm_eq_62 _ (nthb_lt256 s (S q3) H256)), ?nb2z, wrap_b2z.
      destruct (st7 mm rb _ _ _ _ _ _ _ (VInt (b2z (nthb s (S q3) =? 62)%N)) Hrb) as (_ & _ & _ & _ & _ & _ & S6). rewrite S6. xstep. fold mm1.
      destruct (ld7 mm1 rb _ _ _ _ _ _ _ Hrb1) as (_ & _ & _ & _ & _ & _ & L6). rewrite L6. xstep. rewrite wrap_b2z, ?nb2z.
      unfold q4. destruct (nthb s (S q3) =? 62)%N; xstep; [replace (Z.of_nat q3 + 1 * 2) with (Z.of_nat (S (S q3))) by lia|]; reflexivity.
    - assert (Hw : wend = false) by (unfold wend; rewrite ?E92; reflexivity). clearbody wend. subst wend.
      change (wrap I32 0) with 0.
      destruct (st7 mm rb _ _ _ _ _ _ _ (VInt 0) Hrb) as (_ & _ & _ & _ & _ & _ & S6). rewrite S6. xstep.
      change (upd mm rb [c0; c1; c2; f3; f4; f5; VInt 0]) with mm1.
      destruct (ld7 mm1 rb _ _ _ _ _ _ _ Hrb1) as (_ & _ & _ & _ & _ & _ & L6). rewrite L6. xstep. cbn [b2z]. change (wrap I32 0) with 0. xstep. reflexivity.
  Qed.

  Hypothesis Hrg : rb <> G_meta.
  Lemma meta_upd (mm : mem) B : nth_error mm G_meta = Some gb_meta -> (rb < length mm)%nat -> nth_error (upd mm rb B) G_meta = Some gb_meta.
  Proof. intros H L. rewrite mem_upd_other by (auto; congruence). exact H. Qed.

  (* beg = re; while (re[0] && !strchr(...)) re++; ... *)
  Lemma rsm_r4_ok fuel (mm : mem) f3 f4 f5 f6 q2 v2 v3 v4 :
    nth_error mm rb = Some [c0; c1; c2; f3; f4; f5; f6] -> str_at mm b s -> nth_error mm G_meta = Some gb_meta ->
    (q2 <= length s)%nat -> (length s < fuel)%nat ->
    let q3 := (q2 + span_len (skipn q2 s))%nat in
    let wend := ((nthb s q3 =? 92) && (nthb s (S q3) =? 62))%N in let q4 := if wend then S (S q3) else q3 in
    let lend := (nthb s q4 =? 36)%N in let q5 := if lend then S q4 else q4 in
    exists st', exec call fuel rsm_r4 (mkst [VPtr rb 0; VPtr b (Z.of_nat q2); v2; v3; v4] mm)
                = OReturn (rsm_ret (nthb s q5 =? 0)%N) st' /\
                memm st' = rsm_mem (upd mm rb [c0; c1; c2; f3; VInt (b2z lend); f5; VInt (b2z wend)]) (nthb s q5 =? 0)%N
                             f3 (VInt (b2z lend)) f5 (VInt (b2z wend)) (firstn (q3 - q2) (skipn q2 s)).
  Proof.
    intros Hrb Hs Hlit Hq2 Hf q3 wend q4 lend q5.
    assert (Hq : (q2 <= q3 <= length s)%nat).
    { unfold q3. pose proof (span_len_le (skipn q2 s)) as L. rewrite skipn_length in L. lia. }
    destruct (rsm_tail_ok fuel mm f3 f4 f5 f6 q2 q3 v3 v4 Hrb Hs Hq) as [st' [E M]].
    exists st'. split; [|exact M]. etransitivity; [|exact E]. clear E M.
    unfold rsm_r4, rsm_tail; cbn [fn_body cf_rstr_simple]. xstep.
    pose proof (rsm_loop_ok call mm rb b s (VPtr b (Z.of_nat q2)) v3 v4 Hs Hnn Hlit (length s) q2 fuel ltac:(lia) Hq2 Hf) as L.
    unfold rsm_loop in L; cbn [fn_body cf_rstr_simple] in L. rewrite L. clear L. fold q3. xstep. reflexivity.
  Qed.

  (* rs->wbeg = re[0] == '\\' && re[1] == '<'; if (rs->wbeg) re += 2; ... *)
  Lemma rsm_r2_ok fuel (mm : mem) f3 f4 f5 f6 q1 v2 v3 v4 :
    nth_error mm rb = Some [c0; c1; c2; f3; f4; f5; f6] -> str_at mm b s -> nth_error mm G_meta = Some gb_meta ->
    (q1 <= length s)%nat -> (length s < fuel)%nat ->
    let wbeg := ((nthb s q1 =? 92) && (nthb s (S q1) =? 60))%N in let q2 := if wbeg then S (S q1) else q1 in
    let q3 := (q2 + span_len (skipn q2 s))%nat in
    let wend := ((nthb s q3 =? 92) && (nthb s (S q3) =? 62))%N in let q4 := if wend then S (S q3) else q3 in
    let lend := (nthb s q4 =? 36)%N in let q5 := if lend then S q4 else q4 in
    exists st', exec call fuel rsm_r2 (mkst [VPtr rb 0; VPtr b (Z.of_nat q1); v2; v3; v4] mm)
                = OReturn (rsm_ret (nthb s q5 =? 0)%N) st' /\
                memm st' = rsm_mem (upd mm rb [c0; c1; c2; f3; VInt (b2z lend); VInt (b2z wbeg); VInt (b2z wend)]) (nthb s q5 =? 0)%N
                             f3 (VInt (b2z lend)) (VInt (b2z wbeg)) (VInt (b2z wend)) (firstn (q3 - q2) (skipn q2 s)).
  Proof.
    intros Hrb Hs Hlit Hq1 Hf wbeg q2.
    assert (Lrb : (rb < length mm)%nat) by (apply nth_error_Some; congruence).
    set (mm1 := upd mm rb [c0; c1; c2; f3; f4; VInt (b2z wbeg); f6]).
    assert (Hrb1 : nth_error mm1 rb = Some [c0; c1; c2; f3; f4; VInt (b2z wbeg); f6]) by (apply mem_upd_same; exact Lrb).
    assert (Hs1 : str_at mm1 b s) by (apply str_upd; assumption).
    assert (Hl1 : nth_error mm1 G_meta = Some gb_meta) by (apply meta_upd; assumption).
    assert (Hq2 : (q2 <= length s)%nat).
    { unfold q2, wbeg. destruct (nthb s q1 =? 92)%N; cbn [andb]; [|lia]. destruct (nthb s (S q1) =? 60)%N eqn:E; [apply pos_lt in E; lia|lia]. }
    pose proof (rsm_r4_ok fuel mm1 f3 f4 (VInt (b2z wbeg)) f6 q2 v2 v3 v4 Hrb1 Hs1 Hl1 Hq2 Hf) as R. cbv zeta in R.
    intros q3 wend q4 lend q5. destruct R as [st' [E M]]. unfold mm1 in M. rewrite upd_upd in M by exact Lrb.
    exists st'. split; [|exact M]. etransitivity; [|exact E]. clear E M.
    unfold rsm_r2, rsm_r4; cbn [fn_body cf_rstr_simple]. xstep.
    replace (Z.of_nat q1 + 1 * 0) with (Z.of_nat q1) by lia. rewrite (load_str mm b s _ q1 Hs) by lia. xstep. fold_sx.
    rewrite (rm_eq_92 _ (nthb_lt256 s q1 H256)).
    destruct (nthb s q1 =? 92)%N eqn:E92; xstep.
    - assert (Hw : wbeg = (nthb s (S q1) =? 60)%N) by (unfold wbeg; rewrite ?E92; reflexivity). clearbody wbeg. subst wbeg.
      pose proof (pos_lt _ _ E92) as L3.
      replace (Z.of_nat q1 + 1 * 1) with (Z.of_nat (S q1)) by lia. rewrite (load_str mm b s _ (S q1) Hs) by lia. xstep. fold_sx.
      rewrite (rm_eq_60 _ (nthb_lt256 s (S q1) H256)), ?nb2z, wrap_b2z.
      destruct (st7 mm rb _ _ _ _ _ _ _ (VInt (b2z (nthb s (S q1) =? 60)%N)) Hrb) as (_ & _ & _ & _ & _ & S5 & _). rewrite S5. xstep. fold mm1.
      destruct (ld7 mm1 rb _ _ _ _ _ _ _ Hrb1) as (_ & _ & _ & _ & _ & L5 & _). rewrite L5. xstep. rewrite wrap_b2z, ?nb2z.
      unfold q2. destruct (nthb s (S q1) =? 60)%N; xstep; [replace (Z.of_nat q1 + 1 * 2) with (Z.of_nat (S (S q1))) by lia|]; reflexivity.
    - assert (Hw : wbeg = false) by (unfold wbeg; rewrite ?E92; reflexivity). clearbody wbeg. subst wbeg.
      change (wrap I32 0) with 0.
      destruct (st7 mm rb _ _ _ _ _ _ _ (VInt 0) Hrb) as (_ & _ & _ & _ & _ & S5 & _). rewrite S5. xstep.
      change (upd mm rb [c0; c1; c2; f3; f4; VInt 0; f6]) with mm1.
      destruct (ld7 mm1 rb _ _ _ _ _ _ _ Hrb1) as (_ & _ & _ & _ & _ & L5 & _). rewrite L5. xstep. cbn [b2z]. change (wrap I32 0) with 0. xstep. reflexivity.
  Qed.

  (* rs->lbeg = re[0] == '^'; if (rs->lbeg) re++; ... : the whole body, at any offset o of the pattern string *)
  Lemma rsm_body_ok fuel (mm : mem) f3 f4 f5 f6 o :
    nth_error mm rb = Some [c0; c1; c2; f3; f4; f5; f6] -> str_at mm b s -> nth_error mm G_meta = Some gb_meta ->
    (o <= length s)%nat -> (length s < fuel)%nat ->
    exists st', exec call fuel (fn_body cf_rstr_simple) (mkst [VPtr rb 0; VPtr b (Z.of_nat o); VUndef; VUndef; VUndef] mm)
                = OReturn (rsm_ret (so_simple s o)) st' /\
                memm st' = rsm_mem (upd mm rb [c0; c1; c2; VInt (b2z (so_lbeg s o)); VInt (b2z (so_lend s o)); VInt (b2z (so_wbeg s o)); VInt (b2z (so_wend s o))])
                             (so_simple s o) (VInt (b2z (so_lbeg s o))) (VInt (b2z (so_lend s o))) (VInt (b2z (so_wbeg s o))) (VInt (b2z (so_wend s o)))
                             (so_lit s o).
  Proof.
    intros Hrb Hs Hlit Ho Hf.
    assert (Lrb : (rb < length mm)%nat) by (apply nth_error_Some; congruence).
    set (lbeg := so_lbeg s o).
    set (mm1 := upd mm rb [c0; c1; c2; VInt (b2z lbeg); f4; f5; f6]).
    assert (Hrb1 : nth_error mm1 rb = Some [c0; c1; c2; VInt (b2z lbeg); f4; f5; f6]) by (apply mem_upd_same; exact Lrb).
    assert (Hs1 : str_at mm1 b s) by (apply str_upd; assumption).
    assert (Hl1 : nth_error mm1 G_meta = Some gb_meta) by (apply meta_upd; assumption).
    pose proof (so_1_le s o Ho) as Hq1.
    pose proof (rsm_r2_ok fuel mm1 (VInt (b2z lbeg)) f4 f5 f6 (so_1 s o) VUndef VUndef VUndef Hrb1 Hs1 Hl1 Hq1 Hf) as R. cbv zeta in R.
    destruct R as [st' [E M]]. unfold mm1 in M. rewrite upd_upd in M by exact Lrb.
    exists st'. split; [|exact M]. etransitivity; [|exact E]. clear E M.
    unfold rsm_r2; cbn [fn_body cf_rstr_simple]. xstep.
    replace (Z.of_nat o + 1 * 0) with (Z.of_nat o) by lia. rewrite (load_str mm b s _ o Hs) by lia. xstep. fold_sx.
    rewrite (rm_eq_94 _ (nthb_lt256 s o H256)). change (nthb s o =? 94)%N with lbeg. rewrite wrap_b2z.
    destruct (st7 mm rb _ _ _ _ _ _ _ (VInt (b2z lbeg)) Hrb) as (_ & _ & _ & S3 & _). rewrite S3. xstep. fold mm1.
    destruct (ld7 mm1 rb _ _ _ _ _ _ _ Hrb1) as (_ & _ & _ & L3 & _). rewrite L3. xstep. rewrite wrap_b2z, ?nb2z.
    unfold so_1. fold lbeg. destruct lbeg; xstep; [replace (Z.of_nat o + 1) with (Z.of_nat (S o)) by lia|]; reflexivity.
  Qed.
End Simple.

(* ------------------------------------------------------------------ rstr_simple: the theorem *)
(* static int rstr_simple(struct rstr *rs, char *re): rs points to any 7-cell block, re into a NUL-free C string at any offset o.
   The four anchor flags are written as the model says (so_lbeg .. so_wend = what RstrDefs.rstr_simple computes on the suffix:
   rstr_simple_off), the result is 0 exactly when the model says Some, and then rs->str points to a FRESH block (index length m) that
   holds exactly the model's literal followed by the terminator; rs->rs and rs->icase are not touched. *)
Theorem tr_rstr_simple (m : mem) rb c0 c1 c2 c3 c4 c5 c6 b (s : bytes) o d fuel :
  nth_error m rb = Some [c0; c1; c2; c3; c4; c5; c6] -> str_at m b s -> nonul s -> (o <= length s)%nat -> rb <> b ->
  nth_error m G_meta = Some gb_meta -> Z.of_nat (length s) < 2147483647 -> (length s < fuel)%nat ->
  let lb := VInt (b2z (so_lbeg s o)) in let le := VInt (b2z (so_lend s o)) in
  let wb := VInt (b2z (so_wbeg s o)) in let we := VInt (b2z (so_wend s o)) in
  callf cprog fuel (S d) F_rstr_simple [VPtr rb 0; VPtr b (Z.of_nat o)] m
  = Ok (VInt (if so_simple s o then 0 else 1),
        if so_simple s o then upd m rb [c0; VPtr (length m) 0; c2; lb; le; wb; we] ++ [cstr_block (zb (so_lit s o))]
        else upd m rb [c0; c1; c2; lb; le; wb; we]).
Proof.
  intros Hrb Hs Hnn Ho Hne Hlit Hmax Hf lb le wb we.
  assert (Hrg : rb <> G_meta).
  { intros ->. rewrite Hlit in Hrb. apply (f_equal (option_map (@length val))) in Hrb. cbn in Hrb. discriminate. }
  assert (Lrb : (rb < length m)%nat) by (apply nth_error_Some; congruence).
  destruct (rsm_body_ok (callf cprog fuel d) rb b s c0 c1 c2 Hnn Hmax Hne Hrg fuel m c3 c4 c5 c6 o Hrb Hs Hlit Ho Hf) as [st' [E M]].
  enter F_rstr_simple cf_rstr_simple. cbn [fn_body cf_rstr_simple] in E. rewrite E, M. unfold rsm_ret, rsm_mem.
  destruct (so_simple s o); [|reflexivity]. rewrite upd_upd by exact Lrb. rewrite upd_length by exact Lrb. reflexivity.
Qed.
Print Assumptions tr_rstr_simple.

(* the same against RstrDefs.rstr_simple (C12_classifier's function) *)
Corollary tr_rstr_simple_model (m : mem) rb c0 c1 c2 c3 c4 c5 c6 b (s : bytes) o ic d fuel :
  nth_error m rb = Some [c0; c1; c2; c3; c4; c5; c6] -> str_at m b s -> nonul s -> (o <= length s)%nat -> rb <> b ->
  nth_error m G_meta = Some gb_meta -> Z.of_nat (length s) < 2147483647 -> (length s < fuel)%nat ->
  match rstr_simple ic (skipn o s) with
  | Some r =>
      callf cprog fuel (S d) F_rstr_simple [VPtr rb 0; VPtr b (Z.of_nat o)] m
      = Ok (VInt 0, upd m rb [c0; VPtr (length m) 0; c2; VInt (b2z (r_lbeg r)); VInt (b2z (r_lend r)); VInt (b2z (r_wbeg r)); VInt (b2z (r_wend r))]
                    ++ [cstr_block (zb (r_str r))]) /\ r_icase r = ic
  | None =>
      exists lb le wb we, callf cprog fuel (S d) F_rstr_simple [VPtr rb 0; VPtr b (Z.of_nat o)] m
                          = Ok (VInt 1, upd m rb [c0; c1; c2; VInt lb; VInt le; VInt wb; VInt we])
  end.
Proof.
  intros Hrb Hs Hnn Ho Hne Hlit Hmax Hf.
  pose proof (tr_rstr_simple m rb c0 c1 c2 c3 c4 c5 c6 b s o d fuel Hrb Hs Hnn Ho Hne Hlit Hmax Hf) as T. cbv zeta in T.
  rewrite (rstr_simple_off s Hnn o Ho ic). destruct (so_simple s o).
  - cbn [r_lbeg r_lend r_wbeg r_wend r_str r_icase]. split; [exact T|reflexivity].
  - eexists _, _, _, _. exact T.
Qed.

(* ------------------------------------------------------------------ rstr_make *)
Ltac has_var z := match z with context [?x] => is_var x end.
Ltac xclosed :=
  repeat match goal with
         | |- context [chk ?t ?z] =>
             tryif has_var z then fail else
             (let v := eval vm_compute in (chk t z) in
              match v with Ok _ => change (chk t z) with v end)
         | |- context [if ?a =? 0 then Err EDivZero else ?x] =>
             tryif has_var a then fail else
             (let v := eval vm_compute in (a =? 0) in
              match v with false => change (if a =? 0 then Err EDivZero else x) with x end)
         end.
Ltac xs := repeat (progress (xstep; xclosed)).

Lemma land1_cases flg : Z.land flg 1 = 0 \/ Z.land flg 1 = 1.
Proof. replace (Z.land flg 1) with (flg mod 2); [pose proof (Z.mod_pos_bound flg 2); lia|]. symmetry. apply (Z.land_ones flg 1). lia. Qed.
Lemma land1_b2z flg : Z.land flg 1 = b2z (nz (Z.land flg 1)).
Proof. destruct (land1_cases flg) as [E|E]; rewrite E; reflexivity. Qed.

(* the memory rstr_make builds before it calls rstr_simple: the cell of `re` and the zeroed struct with icase set *)
Definition rmk_mem0 (m : mem) (b : nat) (o : Z) (flg : Z) : mem :=
  m ++ [[VPtr b o]; [VInt 0; VInt 0; VInt (Z.land flg 1); VInt 0; VInt 0; VInt 0; VInt 0]].
Definition rmk_head : stmt :=
  match fn_body cf_rstr_make with SSeq a (SSeq b (SSeq c (SSeq d (SSeq e _)))) => SSeq a (SSeq b (SSeq c (SSeq d e))) | _ => SSkip end.
Definition rmk_tail : stmt :=
  match fn_body cf_rstr_make with SSeq _ (SSeq _ (SSeq _ (SSeq _ (SSeq _ t)))) => t | _ => SSkip end.

(* struct rstr *rs = malloc(sizeof *rs); memset(rs, 0, sizeof *rs); rs->icase = flg & RE_ICASE; *)
Lemma rmk_head_ok call fuel (m : mem) b o flg :
  exec call fuel (fn_body cf_rstr_make) (mkst [VPtr b o; VInt flg; VUndef; VUndef] m)
  = exec call fuel rmk_tail (mkst [VPtr b o; VInt flg; VPtr (length m) 0; VPtr (S (length m)) 0] (rmk_mem0 m b o flg)).
Proof.
  unfold rmk_tail, rmk_mem0. cbn [fn_body cf_rstr_make]. xs.
  rewrite (malloc_ok m 1) by lia. xs.
  rewrite (store_ok _ (length m) (repeat VUndef (Z.to_nat 1)) 0 _ (nth_error_app_new m _)) by (rewrite repeat_length; lia). xs.
  rewrite upd_app_new. change (upd (repeat VUndef (Z.to_nat 1)) (Z.to_nat 0) (VPtr b o)) with [VPtr b o].
  set (M0 := m ++ _).
  rewrite (malloc_ok M0 7) by lia. xs.
  assert (Ll : length M0 = S (length m)) by (unfold M0; rewrite app_length; cbn [length]; lia). rewrite Ll.
  set (M1 := M0 ++ _).
  assert (H1 : nth_error M1 (S (length m)) = Some (repeat VUndef (Z.to_nat 7))) by (unfold M1; rewrite <- Ll; apply nth_error_app_new).
  rewrite (memset_ok M1 (S (length m)) 0 0 7 _ H1) by (rewrite ?repeat_length; lia). xs.
  change (put_cells (repeat VUndef (Z.to_nat 7)) (Z.to_nat 0) (repeat (VInt (wrap U8 0)) (Z.to_nat 7))) with (repeat (VInt 0) 7).
  assert (Eup : forall X : block, upd M1 (S (length m)) X = M0 ++ [X]) by (intro X; unfold M1; rewrite <- Ll; apply upd_app_new).
  rewrite Eup. set (M2 := M0 ++ _).
  assert (H2 : nth_error M2 (S (length m)) = Some (repeat (VInt 0) 7)) by (unfold M2; rewrite <- Ll; apply nth_error_app_new).
  assert (Hw : wrap I32 (Z.land flg 1) = Z.land flg 1) by (destruct (land1_cases flg) as [E|E]; rewrite E; reflexivity).
  rewrite Hw. rewrite (store_ok M2 (S (length m)) _ (0 + 1 * 2) _ H2) by (cbn; lia). xs.
  assert (Eup2 : forall X : block, upd M2 (S (length m)) X = M0 ++ [X]) by (intro X; unfold M2; rewrite <- Ll; apply upd_app_new).
  rewrite Eup2. unfold M0. rewrite <- app_assoc. reflexivity.
Qed.

(* THE THEOREM for the fast path: a pattern the classifier accepts.  rstr_make returns a pointer to a fresh struct
   [rs = NULL; str -> the literal; icase = flg & RE_ICASE; lbeg; lend; wbeg; wend] = TrRstr.rstr_block, exactly the shape the theorem
   about rstr_find (TrRstr.tr_rstr_find, C12_tr_rstr_find) assumes; the memory only grew: the cell of `re`, the struct, the literal. *)
Theorem tr_rstr_make_simple (m : mem) b (s : bytes) o flg d fuel :
  str_at m b s -> nonul s -> (o <= length s)%nat -> nth_error m G_meta = Some gb_meta ->
  Z.of_nat (length s) < 2147483647 -> (length s < fuel)%nat -> so_simple s o = true ->
  callf cprog fuel (S (S d)) F_rstr_make [VPtr b (Z.of_nat o); VInt flg] m
  = Ok (VPtr (S (length m)) 0,
        m ++ [[VPtr b (Z.of_nat o)];
              rstr_block (S (S (length m))) (Z.land flg 1) (b2z (so_lbeg s o)) (b2z (so_lend s o)) (b2z (so_wbeg s o)) (b2z (so_wend s o));
              cstr_block (zb (so_lit s o))]).
Proof.
  intros Hs Hnn Ho Hlit Hmax Hf Hsim.
  assert (Lb : (b < length m)%nat) by (apply nth_error_Some; unfold str_at in Hs; congruence).
  assert (Lg : (G_meta < length m)%nat) by (apply nth_error_Some; congruence).
  enter F_rstr_make cf_rstr_make. rewrite rmk_head_ok. unfold rmk_tail; cbn [fn_body cf_rstr_make]. xs.
  set (M := rmk_mem0 m b (Z.of_nat o) flg).
  assert (Lm : length M = S (S (length m))) by (unfold M, rmk_mem0; rewrite app_length; cbn [length]; lia).
  assert (H0 : nth_error M (length m) = Some [VPtr b (Z.of_nat o)]) by (unfold M, rmk_mem0; rewrite nth_error_app2 by lia; rewrite Nat.sub_diag; reflexivity).
  assert (H1 : nth_error M (S (length m)) = Some [VInt 0; VInt 0; VInt (Z.land flg 1); VInt 0; VInt 0; VInt 0; VInt 0]).
  { unfold M, rmk_mem0. rewrite nth_error_app2 by lia. replace (S (length m) - length m)%nat with 1%nat by lia. reflexivity. }
  unfold load at 1. rewrite H0. cbn [Z.ltb Z.to_nat nth_error]. xs.
  assert (HsM : str_at M b s) by (unfold str_at, M, rmk_mem0; rewrite nth_error_app1 by exact Lb; exact Hs).
  assert (HlM : nth_error M G_meta = Some gb_meta) by (unfold M, rmk_mem0; rewrite nth_error_app1 by exact Lg; exact Hlit).
  rewrite (tr_rstr_simple M (S (length m)) _ _ _ _ _ _ _ b s o d fuel H1 HsM Hnn Ho ltac:(lia) HlM Hmax Hf). cbv zeta.
  rewrite Hsim. xs. rewrite Lm.
  set (B := [VInt 0; VPtr (S (S (length m))) 0; VInt (Z.land flg 1); VInt (b2z (so_lbeg s o)); VInt (b2z (so_lend s o)); VInt (b2z (so_wbeg s o)); VInt (b2z (so_wend s o))]).
  assert (EM : upd M (S (length m)) B = m ++ [[VPtr b (Z.of_nat o)]; B]).
  { unfold M, rmk_mem0. unfold upd. rewrite firstn_app, skipn_app. rewrite firstn_all2, skipn_all2 by lia.
    replace (S (length m) - length m)%nat with 1%nat by lia. replace (S (S (length m)) - length m)%nat with 2%nat by lia.
    cbn [firstn skipn app]. rewrite <- app_assoc. reflexivity. }
  rewrite EM.
  assert (HB : nth_error ((m ++ [[VPtr b (Z.of_nat o)]; B]) ++ [cstr_block (zb (so_lit s o))]) (S (length m)) = Some B).
  { rewrite nth_error_app1 by (rewrite app_length; cbn [length]; lia). rewrite nth_error_app2 by lia.
    replace (S (length m) - length m)%nat with 1%nat by lia. reflexivity. }
  destruct (ld7 _ _ _ _ _ _ _ _ _ HB) as (L0 & L1 & _). rewrite L0. xs. rewrite L1. xs.
  rewrite <- app_assoc. reflexivity.
Qed.
Print Assumptions tr_rstr_make_simple.

(* ------------------------------------------------------------------ the chain pattern string -> rstr_make -> rstr_find = the declarative spec *)
(* For every pattern string p in memory that the classifier accepts (ignore-case = flg & RE_ICASE), rstr_make returns a struct, and on the
   memory it leaves, for EVERY newline-terminated line in a block that existed before, every group count and flag word, the translated
   rstr_find returns the leftmost position at which the declarative spec holds (group 0; groups >= 1 unset), or -1 with the memory
   unchanged.  No hypothesis about the struct is left: it is the one the C text built. *)
Theorem tr_rstr_make_find_spec (m : mem) bp (p : bytes) flg rs sb gb content n flg2 (gold : block) d fuel :
  let ic := nz (Z.land flg RE_ICASE) in
  str_at m bp p -> nonul p -> ~ In 10%N p -> nth_error m G_meta = Some gb_meta -> rstr_simple ic p = Some rs ->
  nonul content -> ~ In 10%N content -> str_at m sb (content ++ [10%N]) -> nth_error m gb = Some gold -> length gold = (2 * Z.to_nat n)%nat ->
  2 * n <= 2147483647 -> Z.of_nat (length p) < 2147483647 -> Z.of_nat (length content) < 2147483647 ->
  (length p < fuel)%nat -> (length content + Z.to_nat n + 2 < fuel)%nat ->
  exists m',
    callf cprog fuel (S (S d)) F_rstr_make [VPtr bp 0; VInt flg] m = Ok (VPtr (S (length m)) 0, m') /\
    (forall b, (b < length m)%nat -> nth_error m' b = nth_error m b) /\
    callf cprog fuel (S (S d)) F_rstr_find [VPtr (S (length m)) 0; VPtr sb 0; VInt n; VPtr gb 0; VInt flg2] m' =
    match spec_find (spat_of rs) ic (nz (Z.land flg2 RE_NOTBOL)) content with
    | Some i => Ok (VInt 0, upd m' gb (grp_block (rstr_groups (Z.to_nat n) (Z.of_nat i) (Z.of_nat (i + length (r_str rs))))))
    | None => Ok (VInt (-1), m')
    end.
Proof.
  intros ic Hp Hnn Hp10 Hlit Hsim Hc Hc10 Hsb Hgb Hgl Hn2 Hpm Hcm Hf1 Hf2.
  pose proof (rstr_simple_off p Hnn 0 ltac:(lia) ic) as Hoff. cbn [skipn] in Hoff. rewrite Hsim in Hoff.
  destruct (so_simple p 0) eqn:Es; [|discriminate]. injection Hoff as Hrs.
  pose proof (tr_rstr_make_simple m bp p 0 flg d fuel Hp Hnn ltac:(lia) Hlit Hpm Hf1 Es) as T. change (Z.of_nat 0) with 0 in T.
  eexists. split; [exact T|].
  assert (Hold : forall b (blk : block), nth_error m b = Some blk ->
            nth_error (m ++ [[VPtr bp 0]; rstr_block (S (S (length m))) (Z.land flg 1) (b2z (so_lbeg p 0)) (b2z (so_lend p 0)) (b2z (so_wbeg p 0)) (b2z (so_wend p 0));
                             cstr_block (zb (so_lit p 0))]) b = Some blk).
  { intros b blk H. rewrite nth_error_app1; [exact H|]. apply nth_error_Some. congruence. }
  split; [intros b Hb; apply nth_error_app1; exact Hb|].
  apply (tr_rstr_find_spec _ (S (length m)) (S (S (length m))) sb gb ic p rs content n flg2 gold d fuel Hsim Hnn Hp10 Hc Hc10); try assumption; try lia.
  - rewrite nth_error_app2 by lia. replace (S (length m) - length m)%nat with 1%nat by lia. cbn [nth_error].
    rewrite Hrs. cbn [r_icase r_lbeg r_lend r_wbeg r_wend]. unfold ic. change RE_ICASE with 1. rewrite <- land1_b2z. reflexivity.
  - unfold str_at. rewrite nth_error_app2 by lia. replace (S (S (length m)) - length m)%nat with 2%nat by lia. cbn [nth_error].
    rewrite Hrs. reflexivity.
  - apply Hold. exact Hsb.
  - apply Hold. exact Hgb.
Qed.
Print Assumptions tr_rstr_make_find_spec.

(* ------------------------------------------------------------------ rstr_free (simple patterns): the literal and the struct are freed *)
Theorem tr_rstr_free_simple (m : mem) rb bs ic lb le wb we (blk : block) d fuel :
  nth_error m rb = Some (rstr_block bs ic lb le wb we) -> nth_error m bs = Some blk -> blk <> [] -> rb <> bs ->
  callf cprog fuel (S d) F_rstr_free [VPtr rb 0] m = Ok (VUndef, upd (upd m bs []) rb []).
Proof.
  intros Hrb Hbs Hne Hd. assert (Lbs : (bs < length m)%nat) by (apply nth_error_Some; congruence).
  enter F_rstr_free cf_rstr_free. xs.
  destruct (ld7 _ _ _ _ _ _ _ _ _ Hrb) as (L0 & L1 & _). rewrite L0. xs. rewrite L1. xs.
  rewrite (free_ok m bs blk Hbs Hne). xs.
  assert (Hrb1 : nth_error (upd m bs []) rb = Some (rstr_block bs ic lb le wb we)) by (rewrite mem_upd_other by (auto; congruence); exact Hrb).
  rewrite (free_ok _ rb _ Hrb1) by discriminate. xs. reflexivity.
Qed.
Print Assumptions tr_rstr_free_simple.

Lemma upd_app_at {A} (m t : list A) k x : upd (m ++ t) (length m + k) x = m ++ upd t k x.
Proof.
  unfold upd. rewrite firstn_app, skipn_app. rewrite firstn_all2, skipn_all2 by lia.
  replace (length m + k - length m)%nat with k by lia. replace (S (length m + k) - length m)%nat with (S k) by lia.
  cbn [app]. rewrite <- app_assoc. reflexivity.
Qed.

(* make, then free: every block rstr_make allocated for a simple pattern is empty again, except the cell c2clite gives the parameter `re` *)
Corollary tr_rstr_make_free (m : mem) b (s : bytes) o flg d fuel :
  str_at m b s -> nonul s -> (o <= length s)%nat -> nth_error m G_meta = Some gb_meta ->
  Z.of_nat (length s) < 2147483647 -> (length s < fuel)%nat -> so_simple s o = true ->
  exists m', callf cprog fuel (S (S d)) F_rstr_make [VPtr b (Z.of_nat o); VInt flg] m = Ok (VPtr (S (length m)) 0, m') /\
    callf cprog fuel (S d) F_rstr_free [VPtr (S (length m)) 0] m' = Ok (VUndef, m ++ [[VPtr b (Z.of_nat o)]; []; []]).
Proof.
  intros Hs Hnn Ho Hlit Hmax Hf Hsim. eexists. split; [apply (tr_rstr_make_simple m b s o flg d fuel); assumption|].
  rewrite (tr_rstr_free_simple _ (S (length m)) (S (S (length m))) (Z.land flg 1) (b2z (so_lbeg s o)) (b2z (so_lend s o)) (b2z (so_wbeg s o)) (b2z (so_wend s o)) (cstr_block (zb (so_lit s o)))).
  - f_equal. f_equal. replace (S (S (length m))) with (length m + 2)%nat by lia. rewrite upd_app_at.
    replace (S (length m)) with (length m + 1)%nat by lia. rewrite upd_app_at. reflexivity.
  - rewrite nth_error_app2 by lia. replace (S (length m) - length m)%nat with 1%nat by lia. reflexivity.
  - rewrite nth_error_app2 by lia. replace (S (S (length m)) - length m)%nat with 2%nat by lia. reflexivity.
  - unfold cstr_block. destruct (map VInt (zb (so_lit s o))); discriminate.
  - lia.
Qed.

(* ------------------------------------------------------------------ the general path: relative to rset_make / regfree (CLiteExt.callx) *)
Lemma x_regfree_none : nth_error cprog X_regfree = None.
Proof. vm_compute. reflexivity. Qed.
Ltac enterx f cf :=
  rewrite callx_S; cbn [nth_error cprog f cf fn_nparams fn_nlocals fn_body length Nat.eqb Nat.sub repeat app].
Lemma ld_cell (m : mem) b (blk : block) o v : nth_error m b = Some blk -> nth_error blk (Z.to_nat o) = Some v -> 0 <= o -> load m b o = Ok v.
Proof. intros Hm Hv Ho. unfold load. rewrite Hm. destruct (Z.ltb_spec o 0); [lia|]. rewrite Hv. reflexivity. Qed.

(* void rset_free(struct rset *rs): for every oracle of regfree that leaves the struct and the two tables where they are:
   setgrpcnt[], grp[] and the struct are freed, in this order; nothing else changes after regfree *)
Theorem tr_rset_free ext (m m1 : mem) br re nv bg bsg gc (gblk sblk : block) u d fuel :
  ext X_regfree [VPtr br 0] m = Ok (u, m1) ->
  nth_error m1 br = Some [re; nv; VPtr bg 0; VPtr bsg 0; gc] -> nth_error m1 bg = Some gblk -> gblk <> [] ->
  nth_error m1 bsg = Some sblk -> sblk <> [] -> br <> bg -> br <> bsg -> bg <> bsg ->
  callx ext cprog fuel (S (S d)) F_rset_free [VPtr br 0] m = Ok (VUndef, upd (upd (upd m1 bsg []) bg []) br []).
Proof.
  intros Hx Hbr Hbg Hg0 Hbsg Hs0 D1 D2 D3.
  assert (Lbg : (bg < length m1)%nat) by (apply nth_error_Some; congruence).
  assert (Lbsg : (bsg < length m1)%nat) by (apply nth_error_Some; congruence).
  enterx F_rset_free cf_rset_free. xs. rewrite callx_S, x_regfree_none, Hx. xs.
  rewrite (ld_cell m1 br _ (0 + 1 * 3) _ Hbr eq_refl) by lia. xs.
  rewrite (free_ok m1 bsg sblk Hbsg Hs0). xs.
  assert (Hbr1 : nth_error (upd m1 bsg []) br = Some [re; nv; VPtr bg 0; VPtr bsg 0; gc]) by (rewrite mem_upd_other by (auto; congruence); exact Hbr).
  rewrite (ld_cell _ br _ (0 + 1 * 2) _ Hbr1 eq_refl) by lia. xs.
  assert (Hbg1 : nth_error (upd m1 bsg []) bg = Some gblk) by (rewrite mem_upd_other by (auto; congruence); exact Hbg).
  rewrite (free_ok _ bg gblk Hbg1 Hg0). xs.
  assert (Hbr2 : nth_error (upd (upd m1 bsg []) bg []) br = Some [re; nv; VPtr bg 0; VPtr bsg 0; gc]).
  { rewrite mem_upd_other by (rewrite ?upd_length by lia; auto; congruence). exact Hbr1. }
  rewrite (free_ok _ br _ Hbr2) by discriminate. xs. reflexivity.
Qed.
Print Assumptions tr_rset_free.

(* rstr_free on a struct of the general path (rs != NULL, str == NULL): rset_free(rs->rs), free(NULL), free(rs); relative to the call of rset_free *)
Theorem tr_rstr_free_general ext (m m1 : mem) rb br c2 c3 c4 c5 c6 u D fuel :
  nth_error m rb = Some [VPtr br 0; VInt 0; c2; c3; c4; c5; c6] ->
  callx ext cprog fuel D F_rset_free [VPtr br 0] m = Ok (u, m1) ->
  nth_error m1 rb = Some [VPtr br 0; VInt 0; c2; c3; c4; c5; c6] ->
  callx ext cprog fuel (S D) F_rstr_free [VPtr rb 0] m = Ok (VUndef, upd m1 rb []).
Proof.
  intros Hrb Hcall Hrb1. enterx F_rstr_free cf_rstr_free. xs.
  destruct (ld7 _ _ _ _ _ _ _ _ _ Hrb) as (L0 & _). rewrite L0. xs. rewrite L0. xs. rewrite Hcall. xs.
  destruct (ld7 _ _ _ _ _ _ _ _ _ Hrb1) as (_ & L1 & _). rewrite L1. xs. rewrite free_null. xs.
  rewrite (free_ok m1 rb _ Hrb1) by discriminate. xs. reflexivity.
Qed.
Print Assumptions tr_rstr_free_general.

(* rstr_make on a pattern the classifier rejects: it dispatches to rset_make(1, &re, flg) on exactly the memory rstr_simple left (the cell of
   `re`, the struct with the four anchor flags the classifier wrote and str == NULL); stated for EVERY oracle and every answer of that call
   that leaves the struct alone: a set -> the struct with rs = that set is returned; NULL -> the struct is freed and NULL returned. *)
Theorem tr_rstr_make_general ext (m m4 : mem) b (s : bytes) o flg v d fuel :
  str_at m b s -> nonul s -> (o <= length s)%nat -> nth_error m G_meta = Some gb_meta ->
  Z.of_nat (length s) < 2147483647 -> (length s < fuel)%nat -> so_simple s o = false ->
  let S0 := [VInt 0; VInt 0; VInt (Z.land flg 1); VInt (b2z (so_lbeg s o)); VInt (b2z (so_lend s o)); VInt (b2z (so_wbeg s o)); VInt (b2z (so_wend s o))] in
  callx ext cprog fuel (S d) F_rset_make [VInt 1; VPtr (length m) 0; VInt flg] (m ++ [[VPtr b (Z.of_nat o)]; S0]) = Ok (v, m4) ->
  nth_error m4 (S (length m)) = Some S0 -> (v = VInt 0 \/ exists br, v = VPtr br 0) ->
  callx ext cprog fuel (S (S d)) F_rstr_make [VPtr b (Z.of_nat o); VInt flg] m
  = match v with
    | VPtr _ _ => Ok (VPtr (S (length m)) 0,
                      upd m4 (S (length m)) [v; VInt 0; VInt (Z.land flg 1); VInt (b2z (so_lbeg s o)); VInt (b2z (so_lend s o)); VInt (b2z (so_wbeg s o)); VInt (b2z (so_wend s o))])
    | _ => Ok (VInt 0, upd m4 (S (length m)) [])
    end.
Proof.
  intros Hs Hnn Ho Hlit Hmax Hf Hsim S0 Hcall Hst Hv.
  assert (Lb : (b < length m)%nat) by (apply nth_error_Some; unfold str_at in Hs; congruence).
  assert (Lg : (G_meta < length m)%nat) by (apply nth_error_Some; congruence).
  enterx F_rstr_make cf_rstr_make. rewrite rmk_head_ok. unfold rmk_tail; cbn [fn_body cf_rstr_make]. xs.
  set (M := rmk_mem0 m b (Z.of_nat o) flg).
  assert (Lm : length M = S (S (length m))) by (unfold M, rmk_mem0; rewrite app_length; cbn [length]; lia).
  assert (H0 : nth_error M (length m) = Some [VPtr b (Z.of_nat o)]) by (unfold M, rmk_mem0; rewrite nth_error_app2 by lia; rewrite Nat.sub_diag; reflexivity).
  assert (H1 : nth_error M (S (length m)) = Some [VInt 0; VInt 0; VInt (Z.land flg 1); VInt 0; VInt 0; VInt 0; VInt 0]).
  { unfold M, rmk_mem0. rewrite nth_error_app2 by lia. replace (S (length m) - length m)%nat with 1%nat by lia. reflexivity. }
  unfold load at 1. rewrite H0. cbn [Z.ltb Z.to_nat nth_error]. xs.
  assert (HsM : str_at M b s) by (unfold str_at, M, rmk_mem0; rewrite nth_error_app1 by exact Lb; exact Hs).
  assert (HlM : nth_error M G_meta = Some gb_meta) by (unfold M, rmk_mem0; rewrite nth_error_app1 by exact Lg; exact Hlit).
  rewrite (callx_mono ext cprog fuel (S d) F_rstr_simple _ M _
             (tr_rstr_simple M (S (length m)) _ _ _ _ _ _ _ b s o d fuel H1 HsM Hnn Ho ltac:(lia) HlM Hmax Hf)).
  cbv zeta. rewrite Hsim. xs.
  assert (EM : upd M (S (length m)) S0 = m ++ [[VPtr b (Z.of_nat o)]; S0]).
  { unfold M, rmk_mem0. replace (S (length m)) with (length m + 1)%nat by lia. rewrite upd_app_at. reflexivity. }
  fold S0. rewrite EM. rewrite Hcall. xs.
  assert (L4 : (S (length m) < length m4)%nat) by (apply nth_error_Some; congruence).
  destruct Hv as [->|[br ->]].
  - xs. destruct (st7 _ _ _ _ _ _ _ _ _ (VInt 0) Hst) as (S0' & _). rewrite S0'. xs.
    set (M5 := upd m4 _ _).
    assert (Hst' : nth_error M5 (S (length m)) = Some S0) by (unfold M5; apply mem_upd_same; exact L4).
    destruct (ld7 _ _ _ _ _ _ _ _ _ Hst') as (L0 & L1 & _). rewrite L0. xs. rewrite L1. xs.
    rewrite (free_ok M5 _ _ Hst') by discriminate. xs. unfold M5. rewrite upd_upd by exact L4. reflexivity.
  - xs. destruct (st7 _ _ _ _ _ _ _ _ _ (VPtr br 0) Hst) as (S0' & _). rewrite S0'. xs.
    set (S1 := [VPtr br 0; VInt 0; VInt (Z.land flg 1); VInt (b2z (so_lbeg s o)); VInt (b2z (so_lend s o)); VInt (b2z (so_wbeg s o)); VInt (b2z (so_wend s o))]).
    set (M5 := upd m4 _ _).
    assert (Hst' : nth_error M5 (S (length m)) = Some S1) by (unfold M5; apply mem_upd_same; exact L4).
    destruct (ld7 _ _ _ _ _ _ _ _ _ Hst') as (L0 & _). rewrite L0. xs. reflexivity.
Qed.
Print Assumptions tr_rstr_make_general.

(* rstr_make on the fast path, against RstrDefs.rstr_simple: the struct the C text builds is the model's record *)
Corollary tr_rstr_make_model (m : mem) b (s : bytes) o flg ic r d fuel :
  str_at m b s -> nonul s -> (o <= length s)%nat -> nth_error m G_meta = Some gb_meta ->
  Z.of_nat (length s) < 2147483647 -> (length s < fuel)%nat -> rstr_simple ic (skipn o s) = Some r ->
  callf cprog fuel (S (S d)) F_rstr_make [VPtr b (Z.of_nat o); VInt flg] m
  = Ok (VPtr (S (length m)) 0,
        m ++ [[VPtr b (Z.of_nat o)];
              rstr_block (S (S (length m))) (Z.land flg RE_ICASE) (b2z (r_lbeg r)) (b2z (r_lend r)) (b2z (r_wbeg r)) (b2z (r_wend r));
              cstr_block (zb (r_str r))]).
Proof.
  intros Hs Hnn Ho Hlit Hmax Hf Hsim. rewrite (rstr_simple_off s Hnn o Ho ic) in Hsim.
  destruct (so_simple s o) eqn:Es; [|discriminate]. injection Hsim as <-. cbn [r_lbeg r_lend r_wbeg r_wend r_str].
  exact (tr_rstr_make_simple m b s o flg d fuel Hs Hnn Ho Hlit Hmax Hf Es).
Qed.
