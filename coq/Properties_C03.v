(* Properties_C03.v -- C03: writes never clobber foreign or newer files; failures surface and stay dirty.
   Statements only; every proof is `exact <lemma>`; Print Assumptions under each.
   Model: coq/IoDefs.v (lbuf_save with its guards, lbuf_wr + write_fully under a fault schedule = one
   outcome per open/write/close call, ec_write, ec_quit for q/wq/x/xa with or without !). *)
From Coq Require Import List NArith ZArith Bool.
From NV Require Import Bytes GenConsts IoDefs IoProps IoFaultProps IoLinkDefs IoLinkProps IoTableDefs IoTableProps.
Import ListNotations.

(* without `!`: a target that exists (mtime >= 0: the code takes a negative time stamp for "absent") and
   is not the file being edited, or is the edited file with a newer time stamp than recorded, is
   refused: no system call is consumed, the file system and the buffer are untouched.  Also for the
   save of `xa` (lbuf_save with the buffer's recorded time stamp ts; ts <= 0 = file did not exist). *)
Theorem C03_guard :
  (forall now isx rng path bf fs sch c m,
     fs_get fs path = Some (c, m) -> (0 <= m)%Z ->
     (path <> b_path bf \/ (m > b_mtime bf)%Z) -> skips isx bf = false ->
     ec_write now isx false rng path bf fs sch = (SRefused, bf, fs, sch)) /\
  (forall now lines b e path ts fs sch c m,
     fs_get fs path = Some (c, m) -> (0 <= m)%Z -> (ts <= 0 \/ m > ts)%Z ->
     lbuf_save now lines b e path false ts fs sch = (SRefused, fs, sch)).
Proof. exact (conj guard_write guard_save). Qed.
Print Assumptions C03_guard.

(* under ANY fault schedule: if the command reports success the target holds exactly the addressed lines *)
Theorem C03_success_exact : forall now isx force rng path bf fs sch bf' fs' r,
  ec_write now isx force rng path bf fs sch = (SOk, bf', fs', r) -> skips isx bf = false ->
  fs_content fs' path = Some (want (b_lines bf) (fst (rng_of rng (length (b_lines bf)))) (snd (rng_of rng (length (b_lines bf))))).
Proof. exact success_exact. Qed.
Print Assumptions C03_success_exact.

(* under ANY fault schedule: the command reports failure exactly when one of the system calls it
   actually consumed returned an error (short writes are retried; an error placed after the data ran
   out is never reached); whenever it does not report success the buffer (text, recorded time stamp,
   dirty state) is unchanged; and a forced retry on a healthy system succeeds whatever was left behind,
   leaving the lines in the file and, for a whole-buffer write of the own file, a clean buffer *)
Theorem C03_failure_surfaces :
  (forall now isx force rng path bf fs sch st bf' fs' r used,
     ec_write now isx force rng path bf fs sch = (st, bf', fs', r) -> sch = used ++ r ->
     (In OErr used <-> st = SFailed) /\ (st <> SOk -> bf' = bf)) /\
  (forall now rng path bf fs,
     exists bf' fs', ec_write now false true rng path bf fs [] = (SOk, bf', fs', []) /\
       fs_content fs' path = Some (want (b_lines bf) (fst (rng_of rng (length (b_lines bf)))) (snd (rng_of rng (length (b_lines bf))))) /\
       (b_path bf = path -> rng = None -> b_dirty bf' = false /\ b_mtime bf' = fs_mtime fs' path)).
Proof. exact (conj failure_surfaces retry_succeeds). Qed.
Print Assumptions C03_failure_surfaces.

(* q / wq / x / xa (with or without !) over any list of buffers and any schedule: a consumed error
   aborts the quit and is reported; not quitting always comes with a non-success status; `xa` quits
   only if every buffer's file holds that buffer's text (distinct paths); without `a` and `!` the editor
   quits only if no buffer is dirty afterwards; a failing write part leaves every buffer as it was *)
Theorem C03_quit_all :
  (forall now wr isx all bang bufs fs sch q st bufs' fs' r used,
     ec_quit now wr isx all bang bufs fs sch = (q, st, bufs', fs', r) -> sch = used ++ r ->
     (In OErr used -> q = false /\ st = SFailed) /\
     (q = false -> st <> SOk) /\
     (q = true -> all = true -> NoDup (map b_path bufs) -> Forall (holds_text fs') bufs) /\
     (q = true -> all = false -> bang = false -> Forall (fun bf => b_dirty bf = false) bufs')) /\
  (forall now isx all bang b0 rest fs sch st b0' fs1 r1,
     ec_write now isx bang None (b_path b0) b0 fs sch = (st, b0', fs1, r1) -> st <> SOk ->
     ec_quit now true isx all bang (b0 :: rest) fs sch = (false, st, b0 :: rest, fs1, r1)).
Proof. exact (conj ec_quit_spec ec_quit_write_fails). Qed.
Print Assumptions C03_quit_all.

(* the hypotheses are satisfiable and the machine computes: a short write is retried (success), an
   error after a short write fails and leaves the prefix, a foreign file is refused *)
Example C03_nonvacuous :
  let bf := {| b_lines := [[97; 10]; [98; 10]]%N; b_path := 0; b_mtime := 5%Z; b_dirty := true |} in
  let fs := [(0, ([120; 120; 120; 120; 120; 120]%N, 5%Z)); (1, ([121]%N, 0%Z))] in
  (exists bf' fs' r, ec_write 9%Z false false None 0 bf fs [OOk; OShort 1; OOk; OOk] = (SOk, bf', fs', r) /\
      fs_content fs' 0 = Some [97; 10; 98; 10]%N /\ b_dirty bf' = false) /\
  (exists fs' r, ec_write 9%Z false false None 0 bf fs [OOk; OShort 1; OErr] = (SFailed, bf, fs', r) /\
      fs_content fs' 0 = Some [97; 120; 120; 120; 120; 120]%N) /\
  ec_write 9%Z false false None 1 bf fs [] = (SRefused, bf, fs, []) /\
  fst (fst (fst (fst (ec_quit 9%Z true true true false [bf] fs [OOk; OOk; OOk; OErr])))) = false.
Proof.
  cbv zeta. split; [eexists; eexists; eexists; split; [vm_compute; reflexivity | split; reflexivity]|].
  split; [eexists; eexists; split; [vm_compute; reflexivity | reflexivity]|]. split; vm_compute; reflexivity.
Qed.

(* ------------------------------------------------------------------ names, symbolic links, foreign writers *)
(* Model: coq/IoLinkDefs.v.  mtime() is stat(2): a name is resolved through symbolic links (at most
   MAXSYMLINKS, a loop fails) before the time stamp is looked at, and open() follows the same links;
   `target lk fs p` is the file the name p finally denotes.  The guard clause for every recorded time
   stamp, the one of a name that denoted no file when the buffer was loaded (-1) included: without `!`
   a target that exists (stamp >= 0) and is another name, or the own name with a newer stamp, or the own
   name recorded as absent, is refused by :w / :x (first part), by :wq / :x / :xa (no quit; second part)
   and by the save loop of :xa (third part); no system call is consumed, nothing changes. *)
Theorem C03_guard_links :
  (forall now isx rng lk path bf fs sch c m,
     target lk fs path = Some (c, m) -> (0 <= m)%Z ->
     (path <> b_path bf \/ (m > b_mtime bf)%Z \/ b_mtime bf = (-1)%Z) -> skips isx bf = false ->
     ec_write_l now isx false rng lk path bf fs sch = (SRefused, bf, fs, sch)) /\
  (forall now isx all lk b0 rest fs sch c m,
     target lk fs (b_path b0) = Some (c, m) -> (0 <= m)%Z ->
     ((m > b_mtime b0)%Z \/ b_mtime b0 = (-1)%Z) -> skips isx b0 = false ->
     ec_quit_l now true isx all false lk (b0 :: rest) fs sch = (false, SRefused, b0 :: rest, fs, sch)) /\
  (forall now lk bf rest fs sch c m,
     target lk fs (b_path bf) = Some (c, m) -> (0 <= m)%Z -> ((m > b_mtime bf)%Z \/ b_mtime bf = (-1)%Z) ->
     quit_loop_l now true false lk (bf :: rest) fs sch = (false, SRefused, fs, sch)).
Proof. exact (conj guard_write_l (conj guard_quit_l guard_quit_loop_l)). Qed.
Print Assumptions C03_guard_links.

(* What the buffer remembers and what a foreign writer can do about it.
   (1) ec_edit records mtime() of the name, -1 (and no lines) when the name denotes no file.
   (2) a successful write reaches the file the name denotes (exactly the addressed lines) and, for the own
       name, records that file's stamp again.
   (3) the buffer being in step with (lk, fs), after ANY sequence of foreign operations (write through
       links, rename over the name, touch, unlink) whose stamps lie in later seconds, a write of the own name
       without `!` is refused with nothing consumed or changed -- unless the name denotes no file now, or
       denotes the very file (same resolution, same content, same stamp) the editor read or wrote last.
   (4) in particular for a name that denoted no file at load time: whatever exists there now is refused.
   Granularity: st_mtime counts whole seconds, so `later` is a hypothesis (a foreign write within the
   second of the editor's own read/write is invisible to the code). *)
Theorem C03_guard_session :
  (forall lk fs p,
     b_mtime (ec_edit_l lk fs p) = mtime_of lk fs p /\ b_path (ec_edit_l lk fs p) = p /\
     (target lk fs p = None -> b_mtime (ec_edit_l lk fs p) = (-1)%Z /\ b_lines (ec_edit_l lk fs p) = [])) /\
  (forall now isx force rng lk path bf fs sch bf' fs' r,
     ec_write_l now isx force rng lk path bf fs sch = (SOk, bf', fs', r) -> skips isx bf = false ->
     (exists q, resolve lk path = Some q /\
        fs_content fs' q = Some (want (b_lines bf) (fst (rng_of rng (length (b_lines bf)))) (snd (rng_of rng (length (b_lines bf)))))) /\
     (b_path bf = path -> b_mtime bf' = mtime_of lk fs' path /\ b_path bf' = path) /\
     (b_path bf <> path -> bf' = bf)) /\
  (forall now isx rng lk fs bf ops lk' fs' sch,
     b_mtime bf = mtime_of lk fs (b_path bf) ->
     Forall (later_than (b_mtime bf)) ops ->
     foreign_run (lk, fs) ops = (lk', fs') ->
     skips isx bf = false ->
     ec_write_l now isx false rng lk' (b_path bf) bf fs' sch = (SRefused, bf, fs', sch) \/
     target lk' fs' (b_path bf) = None \/
     (resolve lk' (b_path bf) = resolve lk (b_path bf) /\ target lk' fs' (b_path bf) = target lk fs (b_path bf))) /\
  (forall now isx rng lk fs p ops lk' fs' sch text c m,
     target lk fs p = None ->
     Forall (later_than (-1)) ops ->
     foreign_run (lk, fs) ops = (lk', fs') ->
     target lk' fs' p = Some (c, m) ->
     let bf := {| b_lines := text; b_path := p; b_mtime := b_mtime (ec_edit_l lk fs p); b_dirty := true |} in
     ec_write_l now isx false rng lk' p bf fs' sch = (SRefused, bf, fs', sch)).
Proof. exact (conj edit_records (conj success_exact_l (conj guard_session guard_session_absent))). Qed.
Print Assumptions C03_guard_session.

(* without links the model over names is the model of the theorems above, so they all carry over *)
Theorem C03_links_conservative :
  (forall now isx force rng path bf fs sch,
     ec_write_l now isx force rng [] path bf fs sch = ec_write now isx force rng path bf fs sch) /\
  (forall now wr isx all bang bufs fs sch,
     ec_quit_l now wr isx all bang [] bufs fs sch = ec_quit now wr isx all bang bufs fs sch).
Proof. exact (conj ec_write_l_nil ec_quit_l_nil). Qed.
Print Assumptions C03_links_conservative.

(* non-vacuity: name 2 is a link to name 0 (file stamped 5, recorded 5), name 3 denotes nothing.
   A foreign write THROUGH the link stamped 7 makes :w of name 2 refuse; untouched it succeeds and the data
   lands in file 0; name 3 loaded as absent (-1), then created by someone else with stamp 0: :w and :xa refuse;
   a rename over the link (the link becomes a regular file) refuses as well. *)
Example C03_links_nonvacuous :
  let lk := [(2, 0)] in
  let fs := [(0, ([120; 10]%N, 5%Z))] in
  let bf := {| b_lines := [[97; 10]]%N; b_path := 2; b_mtime := b_mtime (ec_edit_l lk fs 2); b_dirty := true |} in
  let b3 := {| b_lines := [[97; 10]]%N; b_path := 3; b_mtime := b_mtime (ec_edit_l lk fs 3); b_dirty := true |} in
  b_mtime bf = 5%Z /\ b_mtime b3 = (-1)%Z /\
  (let '(lk', fs') := foreign_run (lk, fs) [FWrite 2 [121]%N 7%Z] in
   ec_write_l 9%Z false false None lk' 2 bf fs' [] = (SRefused, bf, fs', []) /\ fs_content fs' 0 = Some [121]%N) /\
  (exists bf' fs' r, ec_write_l 9%Z false false None lk 2 bf fs [] = (SOk, bf', fs', r) /\
     fs_content fs' 0 = Some [97; 10]%N /\ fs_content fs' 2 = None /\ b_mtime bf' = 9%Z) /\
  (let '(lk', fs') := foreign_run (lk, fs) [FWrite 3 [121]%N 0%Z] in
   ec_write_l 9%Z false false None lk' 3 b3 fs' [] = (SRefused, b3, fs', []) /\
   ec_quit_l 9%Z true true true false lk' [b3] fs' [] = (false, SRefused, [b3], fs', [])) /\
  (let '(lk', fs') := foreign_run (lk, fs) [FReplace 2 [121]%N 7%Z] in
   ec_write_l 9%Z false false None lk' 2 bf fs' [] = (SRefused, bf, fs', []) /\ resolve lk' 2 = Some 2).
Proof. cbv zeta. vm_compute. repeat split; try reflexivity. eexists; eexists; eexists. repeat split; reflexivity. Qed.

(* ------------------------------------------------------------------ the buffer table *)
(* Model: coq/IoTableDefs.v.  The editor holds a table of buffers (bufs[]: slot 0 = the current buffer, slot 1 =
   the alternate one `#`), every slot with its own path and its own recorded time stamp.  The guard clause over
   ANY table b0 :: rest, for a write without `!` whose target is given as nothing, %, # or a name:
   (1) the command is refused EXACTLY when the guard of lbuf_save fires for `excuse_stamp`: the recorded stamp of
       the CURRENT buffer if the target is the current buffer's own path, 0 (= foreign) for every other target; a
       refusal consumes and changes nothing, and no slot other than slot 0 is ever written to;
   (2) so a target that exists (stamp >= 0) and is not the current buffer's own path, or is it with a newer stamp,
       or is it recorded as absent, is refused -- nothing is assumed about the other slots;
   (3) in particular a target that is the path of ANOTHER open buffer (slot i + 1, by name, or as `#` for the
       alternate slot) is a foreign existing file: the stamp THAT slot remembers (b_mtime bi, unconstrained: it
       normally equals the file's stamp) excuses nothing;
   (4) the same for :wq / :x / :xa with a path argument: no quit, table and directory unchanged. *)
Theorem C03_guard_table :
  (forall now isx force rng lk a b0 rest fs sch path st bufs' fs' r,
     path_of_arg (b0 :: rest) a = Some path -> skips isx b0 = false ->
     ec_write_t now isx force rng lk a (b0 :: rest) fs sch = (st, bufs', fs', r) ->
     (st = SRefused <-> refuses force (excuse_stamp (b0 :: rest) path) (mtime_of lk fs path) = true) /\
     (st = SRefused -> bufs' = b0 :: rest /\ fs' = fs /\ r = sch) /\
     tl bufs' = rest) /\
  (forall now isx rng lk a b0 rest fs sch path c m,
     path_of_arg (b0 :: rest) a = Some path ->
     target lk fs path = Some (c, m) -> (0 <= m)%Z ->
     (path <> b_path b0 \/ (m > b_mtime b0)%Z \/ b_mtime b0 = (-1)%Z) -> skips isx b0 = false ->
     ec_write_t now isx false rng lk a (b0 :: rest) fs sch = (SRefused, b0 :: rest, fs, sch)) /\
  (forall now isx rng lk b0 rest fs sch i bi c m,
     nth_error rest i = Some bi -> b_path bi <> b_path b0 ->
     target lk fs (b_path bi) = Some (c, m) -> (0 <= m)%Z -> skips isx b0 = false ->
     ec_write_t now isx false rng lk (AName (b_path bi)) (b0 :: rest) fs sch = (SRefused, b0 :: rest, fs, sch) /\
     (i = 0 -> ec_write_t now isx false rng lk AAlt (b0 :: rest) fs sch = (SRefused, b0 :: rest, fs, sch))) /\
  (forall now isx all lk a b0 rest fs sch path c m,
     path_of_arg (b0 :: rest) a = Some path ->
     target lk fs path = Some (c, m) -> (0 <= m)%Z ->
     (path <> b_path b0 \/ (m > b_mtime b0)%Z \/ b_mtime b0 = (-1)%Z) -> skips isx b0 = false ->
     ec_quit_t now true isx all false lk a (b0 :: rest) fs sch = (false, SRefused, b0 :: rest, fs, sch)).
Proof. exact (conj write_t_char (conj guard_table (conj guard_table_other_slot guard_quit_table))). Qed.
Print Assumptions C03_guard_table.

(* How a path becomes "the current buffer's own": :e[!] name / % / # makes it slot 0; a buffer that was already
   open is only moved to the front and keeps its record (nothing is read again, its stamp is the one of ITS last
   read or write), a new buffer records mtime() of the name, the slots that were there stay (below the capacity
   of the table); :e! without argument reads the current buffer again and records its stamp again.  With no
   argument the table functions are the functions over names of C03_guard_links / C03_guard_session. *)
Theorem C03_table_edit :
  (forall bang lk fs a bufs p bufs',
     a <> ANone -> path_of_arg bufs a = Some p ->
     ec_edit_t bang lk fs a bufs = (SOk, bufs') ->
     exists b0 rest, bufs' = b0 :: rest /\ b_path b0 = p /\
       (forall i, bufs_find bufs p = Some i -> nth_error bufs i = Some b0 /\ Permutation.Permutation bufs' bufs) /\
       (bufs_find bufs p = None -> b0 = ec_edit_l lk fs p /\ b_mtime b0 = mtime_of lk fs p /\
                                   (length bufs < NB -> rest = bufs))) /\
  (forall lk fs b0 rest,
     exists b0', ec_edit_t true lk fs ANone (b0 :: rest) = (SOk, b0' :: rest) /\
       b_path b0' = b_path b0 /\ b_mtime b0' = mtime_of lk fs (b_path b0) /\ b_dirty b0' = false) /\
  (forall now wr isx all bang lk b0 rest fs sch,
     ec_quit_t now wr isx all bang lk ANone (b0 :: rest) fs sch = ec_quit_l now wr isx all bang lk (b0 :: rest) fs sch) /\
  (forall b0 rest path,
     path = b_path b0 \/ bufs_find rest path = None ->
     stamp_by_find (b0 :: rest) path = excuse_stamp (b0 :: rest) path).
Proof. exact (conj edit_t_current (conj edit_t_reload (conj ec_quit_t_none stamp_by_find_agrees))). Qed.
Print Assumptions C03_table_edit.

(* non-vacuity: start with name 0 (file stamped 5), :e 1 (file stamped 6), :e 2 (absent), :e 0 -- the table is
   0, 2, 1.  From buffer 0 (modified): :w 1, :w # (= 2, created meanwhile by someone else with stamp 7), :x 1 and
   :wq 1 are refused with nothing changed although slot 2 remembers exactly the stamp 6 of file 1; :w! 1 writes it;
   :w (own, unchanged) succeeds.  The stamp looked up through bufs_find (NOT what the code does) would excuse
   file 1: the guard would not fire. *)
Example C03_table_nonvacuous :
  let fs := [(0, ([120; 10]%N, 5%Z)); (1, ([121; 10]%N, 6%Z))] in
  let t1 := snd (ec_edit_t false [] fs (AName 0) []) in
  let t2 := snd (ec_edit_t false [] fs (AName 1) t1) in
  let t3 := snd (ec_edit_t false [] fs (AName 2) t2) in
  let t4 := snd (ec_edit_t false [] fs (AName 0) t3) in
  let fs' := snd (foreign_run ([], fs) [FWrite 2 [122]%N 7%Z]) in
  let tbl := match t4 with b0 :: rest => {| b_lines := [[97; 10]]%N; b_path := b_path b0; b_mtime := b_mtime b0; b_dirty := true |} :: rest
                          | [] => [] end in
  map b_path t4 = [0; 2; 1] /\ map b_mtime t4 = [5; -1; 6]%Z /\
  ec_write_t 9%Z false false None [] (AName 1) tbl fs' [] = (SRefused, tbl, fs', []) /\
  ec_write_t 9%Z false false None [] AAlt tbl fs' [] = (SRefused, tbl, fs', []) /\
  ec_write_t 9%Z true false None [] (AName 1) tbl fs' [] = (SRefused, tbl, fs', []) /\
  ec_quit_t 9%Z true false false false [] (AName 1) tbl fs' [] = (false, SRefused, tbl, fs', []) /\
  (exists t' f' r, ec_write_t 9%Z false true None [] (AName 1) tbl fs' [] = (SOk, t', f', r) /\ fs_content f' 1 = Some [97; 10]%N /\ t' = tbl) /\
  (exists t' f' r, ec_write_t 9%Z false false None [] ANone tbl fs' [] = (SOk, t', f', r) /\ fs_content f' 0 = Some [97; 10]%N /\
                   map b_mtime t' = [9; -1; 6]%Z /\ map b_dirty t' = [false; false; false]) /\
  stamp_by_find tbl 1 = 6%Z /\ excuse_stamp tbl 1 = 0%Z /\
  refuses false (stamp_by_find tbl 1) (mtime_of [] fs' 1) = false /\ refuses false (excuse_stamp tbl 1) (mtime_of [] fs' 1) = true.
Proof.
  cbv zeta. vm_compute. repeat split; try reflexivity.
  - eexists; eexists; eexists. repeat split; reflexivity.
  - eexists; eexists; eexists. repeat split; reflexivity.
Qed.

(* ------------------------------------------------------------------------------------------ *)
(* THE MODEL IS THE C TEXT (coq/TrWrite.v): lbuf_wr and write_fully of /repo/lbuf.c under FAULTS.  The two functions are translated
   by tools/c2clite.py (coq/GenCFuncs.v, whitelist tools/c2clite.d/99a_write.list) and RUN by the checked semantics of coq/CLite.v;
   write(2) and ftruncate(2) are calls to untranslated functions, answered by an oracle (coq/CLiteExt.v: callx) that is the kernel
   of the model: block ks of the memory holds the fault schedule still to come (IoDefs.outcome, one per write(2) call, consumed in
   order; exhausted = every further call succeeds in full), block kl the log of the system calls made (TrWrite.event).
   For EVERY oracle that answers the two calls as that kernel does, EVERY schedule, every buffer in memory (lines_at: struct lbuf,
   line table, one NUL-terminated block per line), every range: lbuf_wr returns, the bytes that reached the file and the schedule
   left over are exactly IoDefs.write_all's over the payloads of IoDefs.lbuf_wr, the return value is 0 exactly when no outcome the
   run consumed was an error (a short count is retried, an error behind the last call is not reached), and the log ends with
   ftruncate(fd, wsz) exactly in that case -- what IoDefs.save_opened assumes of lbuf_wr and C03_failure_surfaces builds on. *)
From NV Require CLite CLiteProps GenCFuncs CLiteExt TrWrite.
Section C03_translated_write.
Import CLite CLiteProps GenCFuncs CLiteExt TrWrite.

Theorem C03_tr_lbuf_wr : forall ext ks kl m lb bln lbs lines fd beg en s lg d fuel,
  kernel_oracle ext ks kl -> world_at ks kl m s lg -> lines_at ks kl m lb bln lbs lines ->
  (en <= length lines)%nat -> (Z.of_nat (length lines) <= 2147483647)%Z ->
  (Z.of_nat (length (concat lines)) <= 4611686018427387904)%Z ->
  (length s + 2 <= fuel)%nat -> (en - beg + 2 <= fuel)%nat ->
  let w := IoDefs.lbuf_wr lines beg en in
  let '(dd, ok, r) := IoDefs.write_all (outp w) s in
  exists ev bufblk' used,
    callx ext cprog fuel (S (S (S d))) F_lbuf_wr [VPtr lb 0; VInt fd; VInt (Z.of_nat beg); VInt (Z.of_nat en)] m
    = Ok (VInt (if ok then 0 else 1),
          wm ks kl m bufblk' r (lg ++ ev ++ if ok then [EvTrunc fd (Z.of_nat (wsz w))] else [])) /\
    reached ev = dd /\ s = used ++ r /\ (ok = false <-> In IoDefs.OErr used).
Proof. exact tr_lbuf_wr_faults. Qed.
Print Assumptions C03_tr_lbuf_wr.

(* not vacuous, and the translated lbuf_wr RUNS under faults (TrWrite.ex_wr: the buffer "ab\n", "c\n", a line of 4096 bytes; fd 7):
   an error behind the last call is not reached (0, truncation); a short count is retried from the advanced pointer; an error on
   the retry surfaces as 1 with the bytes already accepted in the file and no truncation -- as IoDefs.write_all says *)
Example C03_tr_nonvacuous :
  lines_at 5 6 (ex_mem []) 0 1 [2; 3; 4]%nat ex_lines /\ kernel_oracle (sys 5 6) 5 6 /\
  ex_wr [OOk; OOk; IoDefs.OErr]
    = Some (VInt 0, enc_log [EvWrite 7 [97; 98; 10; 99; 10]%N 5; EvWrite 7 ex_long 4096; EvTrunc 7 4101]) /\
  IoDefs.write_all (outp (IoDefs.lbuf_wr ex_lines 0 3)) [OOk; OOk; IoDefs.OErr] = ([97; 98; 10; 99; 10]%N ++ ex_long, true, [IoDefs.OErr]) /\
  ex_wr [OShort 2; OOk; OShort 100; OOk]
    = Some (VInt 0, enc_log [EvWrite 7 [97; 98; 10; 99; 10]%N 2; EvWrite 7 [10; 99; 10]%N 3;
                             EvWrite 7 ex_long 100; EvWrite 7 (skipn 100 ex_long) 3996; EvTrunc 7 4101]) /\
  ex_wr [OShort 2; IoDefs.OErr; OOk] = Some (VInt 1, enc_log [EvWrite 7 [97; 98; 10; 99; 10]%N 2; EvWrite 7 [10; 99; 10]%N (-1)]) /\
  IoDefs.write_all (outp (IoDefs.lbuf_wr ex_lines 0 3)) [OShort 2; IoDefs.OErr; OOk] = ([97; 98]%N, false, [OOk]).
Proof.
  split; [apply ex_lines_at|]. split; [apply sys_kernel; discriminate|]. vm_compute. repeat split.
Qed.
End C03_translated_write.

(* ------------------------------------------------------------------------------------------ *)
(* THE MODEL IS THE C TEXT (coq/TrSave.v): lbuf_save of /repo/ex.c -- the overwrite guard, open, lbuf_wr, close --, translated by
   tools/c2clite.py (whitelist tools/c2clite.d/99zzzz_save.list; `mtime > 0` compares the FUNCTION mtime with 0 and is the constant
   true, as IoDefs.refuses says) and RUN by the checked semantics of coq/CLite.v, calling the translated lbuf_len and lbuf_wr.
   mtime, open, conf_mode and close are answered by the oracle save_oracle, the kernel of C03_tr_lbuf_wr extended by block kt (the
   time stamp stat(2) reports for the path, -1 = absent) and block kf (is the target descriptor open): open consumes one outcome of
   the schedule (error = -1, otherwise descriptor 3); close of the open descriptor consumes one (error = -1) and closes it; close of
   a descriptor that is not open is -1 and consumes nothing -- the way IoDefs.lbuf_save / save_opened read a schedule.
   For EVERY such oracle, schedule s, buffer in memory, range (end < 0 = the whole buffer, read from ln_n), force flag, recorded
   stamp ts, and every file system that reports the stamp of block kt for the path: the translated lbuf_save returns, its status
   (NULL = ok; "file changed" / "file exists" = refused; "cannot create file" / "write failed" = failed) and the schedule it leaves
   are IoDefs.lbuf_save's; a refusal makes no system call but mtime and leaves the memory as it was; the descriptor is closed
   afterwards in every case; no block other than the kernel's is changed. *)
From NV Require CLite CLiteProps GenCFuncs CLiteExt TrLbufBase TrWrite TrSave.
Section C03_translated_save.
Import CLite CLiteProps GenCFuncs CLiteExt TrLbufBase TrWrite TrSave.

Theorem C03_tr_lbuf_save : forall ext ks kl kt kf m lb bln lbs lines (beg : nat) (enZ : Z) pb po force ts s lg mt d fuel now path fs,
  save_oracle ext ks kl kt kf -> world4 ks kl kt kf m s lg mt 0 -> lines_at ks kl m lb bln lbs lines ->
  ~ In kt (lb :: bln :: lbs) -> ~ In kf (lb :: bln :: lbs) ->
  (exists blk, nth_error m lb = Some blk /\ nth_error blk L_ln_n = Some (VInt (Z.of_nat (length lines)))) ->
  let e := if (enZ <? 0)%Z then length lines else Z.to_nat enZ in
  (e <= length lines)%nat -> (-2147483648 <= enZ <= 2147483647)%Z ->
  (Z.of_nat (length lines) <= 2147483647)%Z -> (Z.of_nat (length (concat lines)) <= 4611686018427387904)%Z ->
  (length s + 2 <= fuel)%nat -> (e - beg + 2 <= fuel)%nat ->
  fs_mtime fs path = mt ->
  let '(st, fs', r) := IoDefs.lbuf_save now lines beg e path (negb (force =? 0)%Z) ts fs s in
  exists v ev m',
    callx ext cprog fuel (S (S (S (S d)))) F_ex_lbuf_save
          [VPtr lb 0; VInt (Z.of_nat beg); VInt enZ; VPtr pb po; VInt force; VInt ts] m = Ok (v, m')
    /\ status_of v = st /\ (v = VInt 0 <-> st = SOk)
    /\ world4 ks kl kt kf m' r (lg ++ ev) mt 0
    /\ forall k, (k < length m)%nat -> k <> ks -> k <> kl -> k <> kf -> nth_error m' k = nth_error m k.
Proof. exact tr_lbuf_save_model. Qed.
Print Assumptions C03_tr_lbuf_save.

(* not vacuous, and the translated lbuf_save RUNS (TrSave.ex_save s mt end force ts: the buffer "ab\n", "c\n", a line of 4096 bytes in
   blocks 0..4, the path in block 9; result: value, log block, schedule block).  Healthy: NULL, the log is open, the batch, the long
   line, ftruncate 4101, close.  File newer than recorded / existing foreign file: refused, nothing logged, nothing consumed; with !
   it is written.  open fails; the flush fails (close still consumes its outcome); close fails (closed twice, the second on a dead
   descriptor consumes nothing).  The model gives the same status and schedule. *)
Example C03_tr_save_nonvacuous :
  let fs mt : fsys := [(9%nat, ([120; 10]%N, mt))] in
  let st3 (x : status * fsys * list IoDefs.outcome) := (fst (fst x), snd x) in
  save_oracle (sys_save 5 6 7 8) 5 6 7 8 /\ world4 5 6 7 8 (ex_smem [] 100) [] [] 100 0 /\ lines_at 5 6 (ex_smem [] 100) 0 1 [2; 3; 4]%nat ex_lines /\
  ex_save [] 100 (-1) 0 100
    = Some (VInt 0, enc_log [EvOpen 3; EvWrite 3 [97; 98; 10; 99; 10]%N 5; EvWrite 3 ex_long 4096; EvTrunc 3 4101; EvClose 3 0], []) /\
  st3 (IoDefs.lbuf_save 7 ex_lines 0 3 9 false 100 (fs 100%Z) []) = (SOk, []) /\
  ex_save [IoDefs.OErr] 200 (-1) 0 100 = Some (VPtr L_changed 0, [], enc_sch [IoDefs.OErr]) /\
  st3 (IoDefs.lbuf_save 7 ex_lines 0 3 9 false 100 (fs 200%Z) [IoDefs.OErr]) = (SRefused, [IoDefs.OErr]) /\
  ex_save [] 0 (-1) 0 0 = Some (VPtr L_exists 0, [], []) /\
  st3 (IoDefs.lbuf_save 7 ex_lines 0 3 9 false 0 (fs 0%Z) []) = (SRefused, []) /\
  ex_save [] 200 2 1 100 = Some (VInt 0, enc_log [EvOpen 3; EvWrite 3 [97; 98; 10; 99; 10]%N 5; EvTrunc 3 5; EvClose 3 0], []) /\
  ex_save [IoDefs.OErr; OOk] 100 3 0 100 = Some (VPtr L_create 0, enc_log [EvOpen (-1)], enc_sch [OOk]) /\
  st3 (IoDefs.lbuf_save 7 ex_lines 0 3 9 false 100 (fs 100%Z) [IoDefs.OErr; OOk]) = (SFailed, [OOk]) /\
  ex_save [OOk; IoDefs.OErr; OOk; OOk] 100 2 1 0
    = Some (VPtr L_failed 0, enc_log [EvOpen 3; EvWrite 3 [97; 98; 10; 99; 10]%N (-1); EvClose 3 0], enc_sch [OOk]) /\
  st3 (IoDefs.lbuf_save 7 ex_lines 0 2 9 true 0 (fs 100%Z) [OOk; IoDefs.OErr; OOk; OOk]) = (SFailed, [OOk]) /\
  ex_save [OOk; OOk; IoDefs.OErr; OOk] 100 2 1 0
    = Some (VPtr L_failed 0, enc_log [EvOpen 3; EvWrite 3 [97; 98; 10; 99; 10]%N 5; EvTrunc 3 5; EvClose 3 (-1); EvClose 3 (-1)], enc_sch [OOk]) /\
  st3 (IoDefs.lbuf_save 7 ex_lines 0 2 9 true 0 (fs 100%Z) [OOk; OOk; IoDefs.OErr; OOk]) = (SFailed, [OOk]).
Proof.
  cbv zeta. split; [apply sys_save_oracle; repeat constructor; cbn; intuition discriminate|].
  split; [repeat split|]. split; [apply ex_slines_at|]. vm_compute. repeat split.
Qed.
End C03_translated_save.

(* ================================================================== the autowrite option and the remembered stamp over whole
   histories (coq/IoAwDefs.v, IoAwProps.v; ex.c after 37c81b2).  bufs_modified() of ex.c -- asked by :e :n :b :!cmd :make and by the
   loop of :q -- saves a modified buffer WITHOUT `!` when `:se aw` is on, guarded by bufs[i].mtime; after a save that returned no error,
   and only then, it marks the buffer saved and remembers the file's new stamp (so does the `a` loop of ec_quit).  Every slot carries a
   ghost stamp (not in the C program): the stamp its file had when the editor last read it into the slot or last wrote it successfully
   from that slot as its own path.  A history is any list of: option switches, edits, foreign operations, :w :x [range] [!] [path],
   :q :wq :x :xa [!] [path], :e [!] [path], :b [!] i, :!cmd -- each editor command with its own clock value and its own fault schedule. *)
From NV Require IoAwDefs IoAwProps.
Section C03_autowrite.
Import IoAwDefs IoAwProps.

(* THE REMEMBERED STAMP IS THE GHOST.  After EVERY history from the start of the editor, with the option switched on and off at will,
   any faults, any clock values, any foreign operations: every slot remembers EXACTLY the stamp its file had when the editor last read
   it or last wrote it successfully (no hypothesis; before 37c81b2 only `<=` held, and only for files not dated in the editor's future).
   Hence in the state reached, for the current slot x whose file is newer than that (or exists although there was none):
   (1) any :w / :x [range] / write part of :wq :x :xa without `!` that targets the own path is refused, nothing consumed or changed;
   (2) if x is modified, :e :n :b :!cmd :make without `!` do not leave it -- with autowrite on the save is refused, nothing changes;
   (3) the loop of :q / :xa without `!` stops at the first slot it has to save (xa: the first; q: the first modified one, option on
       or off) whose file is newer, with every record, the directory and the schedule untouched. *)
Theorem C03_aw_history : forall lk fs p h,
  let s := run bufs_modified (start lk fs p) h in
  Forall (fun x : gbuf => b_mtime (fst x) = snd x) (e_tb s) /\
  (forall (x : gbuf) (rest : list gbuf), e_tb s = x :: rest -> newer (e_lk s) (e_fs s) x ->
     (forall now isx rng a sch, skips isx (fst x) = false -> path_of_arg (map fst (x :: rest)) a = Some (b_path (fst x)) ->
        write_g now isx false rng (e_lk s) a (x :: rest) (e_fs s) sch = (SRefused, x :: rest, e_fs s, sch)) /\
     (b_dirty (fst x) = true -> forall now aw sch,
        (forall a, edit_g bufs_modified now aw false (e_lk s) a (x :: rest) (e_fs s) sch = (SRefused, x :: rest, e_fs s, sch)) /\
        (forall i, i < length (x :: rest) ->
           buffer_g bufs_modified now aw false (e_lk s) i (x :: rest) (e_fs s) sch = (SRefused, x :: rest, e_fs s, sch)) /\
        (forall ops, exec_g bufs_modified now aw (e_lk s) ops (x :: rest) (e_fs s) sch = (SRefused, x :: rest, e_lk s, e_fs s, sch)))) /\
  (forall (pre : list gbuf) (x : gbuf) (rest : list gbuf) now aw all sch, e_tb s = pre ++ x :: rest -> newer (e_lk s) (e_fs s) x ->
     Forall (fun y : gbuf => all = false /\ b_dirty (fst y) = false) pre -> (all = true \/ b_dirty (fst x) = true) ->
     quit_scan bufs_modified now aw all false (e_lk s) (pre ++ x :: rest) (e_fs s) sch
       = (Some (length pre), SRefused, pre ++ x :: rest, e_fs s, sch)).
Proof.
  intros lk fs p h s. pose proof (run_inv h (start lk fs p) (start_inv lk fs p)) as I. fold s in I. unfold aw_inv in I.
  split; [exact I|]. split.
  - intros x rest E N. rewrite E in I. inversion I as [|? ? I1 I2]; subst. apply Z.eq_le_incl in I1. split.
    + intros now isx rng a sch SK PA. exact (write_g_newer now isx rng (e_lk s) a x rest (e_fs s) sch I1 N SK PA).
    + intros D now aw sch. exact (leave_newer now aw (e_lk s) x rest (e_fs s) sch I1 N D).
  - intros pre x rest now aw all sch E N P D. rewrite E in I. apply Forall_app in I. destruct I as [_ I].
    inversion I as [|? ? I1 I2]; subst. apply Z.eq_le_incl in I1. exact (quit_scan_newer now aw all (e_lk s) pre x rest (e_fs s) sch P I1 N D).
Qed.
Print Assumptions C03_aw_history.

(* EVERY PATH THAT CALLS lbuf_save, for any table, option on or off, any schedule: saved mark and remembered stamp are updated after the
   save returned no error and only then.  kept_or_saved x x': the slot is what it was, or (after a save that said ok) text and path are
   the same, the saved mark is set and the remembered stamp is the ghost.  (1) ec_write: a non-ok status leaves the whole table (ghosts
   included) unchanged.  (2) the head of :e :n :b :!cmd :make: the buffer must be kept <=> the status is not ok; a non-ok status leaves
   the table unchanged and a refusal also the directory and the schedule; otherwise every slot is kept_or_saved.  (3) an autowrite that
   said ok: saved mark set, remembered stamp = ghost = the stamp the file has now = the editor's clock.  (4) :q :wq :x :xa: no quit <=>
   the status is not ok, and then, after the write part (which is (1)), the slots in front of the one whose save failed are
   kept_or_saved, that slot and all behind it are exactly what they were, and the refused command only brings it to the front
   (bufs_switch).  (5) one command keeps `remembered = ghost` for every slot, unconditionally. *)
Theorem C03_aw_failure_keeps_record :
  (forall now isx force rng lk a tb fs sch st tb' fs' r,
     write_g now isx force rng lk a tb fs sch = (st, tb', fs', r) -> st <> SOk -> tb' = tb) /\
  (forall now aw bang lk tb fs sch blk st tb1 fs1 r1,
     leave0 bufs_modified now aw bang lk tb fs sch = (blk, st, tb1, fs1, r1) ->
     Forall2 kept_or_saved tb tb1 /\ (blk = true <-> st <> SOk) /\ (st <> SOk -> tb1 = tb) /\ (st = SRefused -> fs1 = fs /\ r1 = sch)) /\
  (forall now lk x fs sch blk x' fs' r,
     bm_g bufs_modified now true lk x fs sch = (blk, SOk, x', fs', r) -> b_dirty (fst x) = true ->
     b_dirty (fst x') = false /\ b_mtime (fst x') = snd x' /\ snd x' = mtime_of lk fs' (b_path (fst x)) /\ snd x' = now) /\
  (forall now aw wr isx all bang lk a tb fs sch q st tb' fs' r,
     quit_g bufs_modified now aw wr isx all bang lk a tb fs sch = (q, st, tb', fs', r) ->
     (q = false <-> st <> SOk) /\
     (st <> SOk -> exists tb1 tb2 i,
        ((wr = false /\ tb1 = tb) \/ (wr = true /\ exists st1 fs1 r1, write_g now isx bang None lk a tb fs sch = (st1, tb1, fs1, r1))) /\
        Forall2 kept_or_saved tb1 tb2 /\ skipn i tb2 = skipn i tb1 /\ tb' = sw tb2 i)) /\
  (forall s c, aw_inv (e_tb s) -> aw_inv (e_tb (step bufs_modified s c))).
Proof.
  split; [exact write_g_keeps|]. split; [exact leave0_record|]. split; [exact bm_g_ok_record|]. split; [exact quit_g_record | exact step_inv].
Qed.
Print Assumptions C03_aw_failure_keeps_record.

(* without the ghost, ec_write on the table is IoTableDefs.ec_write_t: C03_guard_table and the fault theorems speak about it *)
Theorem C03_aw_conservative : forall now isx force rng lk a tb fs sch,
  let '(st, tb', fs', r) := write_g now isx force rng lk a tb fs sch in
  ec_write_t now isx force rng lk a (map fst tb) fs sch = (st, map fst tb', fs', r).
Proof. exact write_g_table. Qed.
Print Assumptions C03_aw_conservative.

(* Not vacuous, and the theorems tell the code from a plausible rewrite.  File 0 holds "one" stamped 100; the buffer is edited,
   `:se aw`, somebody rewrites the file (stamp 300), `:q` -- the autowrite is refused, the editor stays --, then a plain `:w`.
   bufs_modified (the code): the :w is refused, the file keeps the foreign bytes, remembered stamp 100 = ghost, still modified.
   bufs_modified_eager (seeded/C03i: the stamp re-read BEFORE the result of lbuf_save is looked at): the :w says ok, the newer file is
   replaced; after the :q its remembered stamp 300 is not the ghost 100. *)
Example C03_aw_nonvacuous :
  let one := [111; 110; 101; 10]%N in let ed := [[69; 10]%N; one] in let fo := [102; 10]%N in
  let h := [AText ed; ASet true; AForeign (FWrite 0 fo 300); AQuit 200 false false false false ANone []; AWrite 200 false false None ANone []] in
  let s0 := start [] [(0, (one, 100%Z))] 0 in
  let view (s : est) := (e_st s, e_quit s, fs_content (e_fs s) 0, map (fun x : gbuf => (b_mtime (fst x), snd x, b_dirty (fst x))) (e_tb s)) in
  view (run bufs_modified s0 h) = (SRefused, false, Some fo, [(100%Z, 100%Z, true)]) /\
  view (run bufs_modified_eager s0 h) = (SOk, false, Some (concat ed), [(200%Z, 200%Z, false)]) /\
  view (run bufs_modified_eager s0 (firstn 4 h)) = (SRefused, false, Some fo, [(300%Z, 100%Z, true)]).
Proof. cbv zeta. repeat split; vm_compute; reflexivity. Qed.
(* The defect repaired by 37c81b2 ("stale stamp").  The file is dated 900, in the editor's future; `:se aw`, edit, `:e 1` autowrites at
   clock 200 -- the file's stamp goes BACK to 200 --, `:e! 0`, edit, somebody writes the file (stamp 300), plain `:w`.
   bufs_modified_stale (ex.c before the fix: nothing recorded after a successful autowrite, the slot keeps 900): the :w says ok and
   replaces the newer file.  bufs_modified (the code): the autowrite recorded stamp 200 and the saved mark; the :w is refused, the foreign
   bytes stay, the buffer stays modified. *)
Example C03_aw_stale_stamp_fixed :
  let one := [111; 110; 101; 10]%N in let ed := [[69; 10]%N; one] in let fo := [102; 10]%N in
  let view (s : est) := (e_st s, e_quit s, fs_content (e_fs s) 0, map (fun x : gbuf => (b_mtime (fst x), snd x, b_dirty (fst x))) (e_tb s)) in
  let h2 := [AText ed; ASet true; AEdit 200 false (AName 1) []; AEdit 200 true (AName 0) []; AText ed; AForeign (FWrite 0 fo 300);
             AWrite 200 false false None ANone []] in
  let s2 := start [] [(0, (one, 900%Z))] 0 in
  view (run bufs_modified_stale s2 h2) = (SOk, false, Some (concat ed), [(200%Z, 200%Z, false); (-1, -1, false)%Z]) /\
  view (run bufs_modified_stale s2 (firstn 4 h2)) = (SOk, false, Some (concat ed), [(900%Z, 200%Z, true); (-1, -1, false)%Z]) /\
  view (run bufs_modified s2 (firstn 4 h2)) = (SOk, false, Some (concat ed), [(200%Z, 200%Z, false); (-1, -1, false)%Z]) /\
  view (run bufs_modified s2 h2) = (SRefused, false, Some fo, [(200%Z, 200%Z, true); (-1, -1, false)%Z]).
Proof. cbv zeta. repeat split; vm_compute; reflexivity. Qed.
End C03_autowrite.

(* ================================================================== the autowrite of bufs_modified ON THE C TEXT (coq/TrQuit.v, tr-quit's
   translation of ex.c's bufs_modified after /repo 37c81b2, whitelist tools/c2clite.d/87_quit.list; lbuf_save is the oracle index
   X_lbuf_save -- its own text is C03_tr_lbuf_save --, mtime the oracle X_mtime, lbuf_saved the translated function).  With xaw != 0, on
   a slot whose buffer lbuf_modified reports modified and whose path is not "": the translated text bumps the command counter of that
   buffer (cell useq: memory m1) and calls lbuf_save(b->lb, 0, -1, b->path, 0, b->mtime) -- WITHOUT force, with the slot's own
   remembered stamp.  The answer r is a MESSAGE: bufs_modified returns 1 and the memory is EXACTLY the memory m2 the save left -- no
   cell of bufs[] (the remembered stamp), no cell of the struct lbuf (the saved mark) is written, mtime / lbuf_saved / ex_show are not
   called.  The answer is NULL: lbuf_saved(b->lb, 0) runs on the memory the save left, then mtime(b->path) is asked and its answer
   is stored into b->mtime -- the one cell of the table that changes (set_cs_mtime) --, 0 is returned.  This is IoAwDefs.bufs_modified:
   `SOk => (false, st, {| .. b_mtime := mtime_of lk fs' path; b_dirty := false |}, ..) | _ => (true, st, bf, ..)`.  A rewrite that re-reads
   the stamp or marks the buffer saved BEFORE looking at r (seeded/C03i) breaks this statement. *)
From NV Require CLite CLiteProps GenCFuncs CLiteTac CLiteExt TrLbufBase TrLbuf TrBufs TrBufsLbuf TrQuit UndoDefs.
Section C03_translated_autowrite.
Import CLite CLiteProps GenCFuncs CLiteTac CLiteExt TrLbufBase TrLbuf TrBufs TrQuit.
Local Open Scope Z_scope.

Theorem C03_tr_bufs_modified_aw : forall ext m t i bl blk lb msg a pb p m2 d fuel, tab_at m t -> tab_ok t -> (i < 16)%nat ->
  cs_lb (nths t i) = VPtr bl 0 -> lbuf_rep m bl blk lb -> lbuf_ints lb -> UndoDefs.useq lb < 2147483647 ->
  snd (UndoDefs.lbuf_modified lb) = true -> bl <> G_xaw -> bl <> G_bufs -> cell_at m G_xaw a -> int_ok a -> a <> 0 -> ptr_val msg ->
  cs_path (nths t i) = VPtr pb 0 -> str_at m pb p -> nonul p -> pb <> bl ->
  let m1 := bump_mem m bl blk lb in
  match p with
  | [] => show_call ext msg m1 m2 ->
          callx ext cprog fuel (S (S (S d))) F_bufs_modified [VInt (Z.of_nat i); msg] m = Ok (VInt 1, m2)
  | _ :: _ => forall r, ptr_val r ->
          ext X_lbuf_save [VPtr bl 0; VInt 0; VInt (-1); VPtr pb 0; VInt 0; VInt (wrap I64 (cs_mtime (nths t i)))] m1 = Ok (r, m2) ->
          if is_null r
          then forall u3 m3 ts m4, tab_at m2 t ->
                 callx ext cprog fuel (S (S d)) F_lbuf_saved [VPtr bl 0; VInt 0] m2 = Ok (u3, m3) -> tab_at m3 t ->
                 ext X_mtime [VPtr pb 0] m3 = Ok (VInt ts, m4) -> tab_at m4 t ->
                 callx ext cprog fuel (S (S (S d))) F_bufs_modified [VInt (Z.of_nat i); msg] m
                 = Ok (VInt 0, upd m4 G_bufs (tab_cells (upd t i (set_cs_mtime (nths t i) (wrap I64 ts)))))
          else callx ext cprog fuel (S (S (S d))) F_bufs_modified [VInt (Z.of_nat i); msg] m = Ok (VInt 1, m2)
  end.
Proof. exact tr_bufs_modified_aw. Qed.
Print Assumptions C03_tr_bufs_modified_aw.
End C03_translated_autowrite.

(* the same guards stated over the REMEMBERED stamp alone -- any table, any state, no history, no ghost, no clock: whenever the file of a
   slot is stamped later than the stamp the slot remembers, (1) a write without `!` of the current slot onto its own path, (2) leaving
   the modified current slot by :e :n :b :!cmd :make without `!` (option on: the autowrite; off: "buffer modified"), (3) the loop of :q /
   :xa without `!` at the first slot it has to save, are refused with table, directory and schedule untouched; and (4) an autowrite that
   lets the command go on has left exactly the buffer's lines in the file its path denotes. *)
Section C03_autowrite_remembered.
Import IoAwDefs IoAwProps.
Theorem C03_aw_guard_remembered :
  (forall now isx rng lk a (x : gbuf) (rest : list gbuf) fs sch,
     newer_rem lk fs x -> skips isx (fst x) = false -> path_of_arg (map fst (x :: rest)) a = Some (b_path (fst x)) ->
     write_g now isx false rng lk a (x :: rest) fs sch = (SRefused, x :: rest, fs, sch)) /\
  (forall now aw lk (x : gbuf) (rest : list gbuf) fs sch, newer_rem lk fs x -> b_dirty (fst x) = true ->
     (forall a, edit_g bufs_modified now aw false lk a (x :: rest) fs sch = (SRefused, x :: rest, fs, sch)) /\
     (forall i, buffer_g bufs_modified now aw false lk i (x :: rest) fs sch = (SRefused, x :: rest, fs, sch)) /\
     (forall ops, exec_g bufs_modified now aw lk ops (x :: rest) fs sch = (SRefused, x :: rest, lk, fs, sch))) /\
  (forall now aw all lk (pre : list gbuf) (x : gbuf) (rest : list gbuf) fs sch,
     Forall (fun y : gbuf => all = false /\ b_dirty (fst y) = false) pre ->
     newer_rem lk fs x -> (all = true \/ b_dirty (fst x) = true) ->
     quit_scan bufs_modified now aw all false lk (pre ++ x :: rest) fs sch = (Some (length pre), SRefused, pre ++ x :: rest, fs, sch)) /\
  (forall now lk x fs sch blk st x' fs' r,
     bm_g bufs_modified now true lk x fs sch = (blk, st, x', fs', r) -> b_dirty (fst x) = true -> blk = false ->
     st = SOk /\ exists q, resolve lk (b_path (fst x)) = Some q /\ fs_content fs' q = Some (concat (b_lines (fst x)))).
Proof.
  split; [exact write_g_newer_rem|]. split; [exact leave_newer_rem|]. split; [exact quit_scan_newer_rem | exact bm_g_ok_exact].
Qed.
Print Assumptions C03_aw_guard_remembered.
End C03_autowrite_remembered.

(* :q / :wq / :x / :xa without `!` NEVER quit over a newer file, wherever its slot stands in bufs[]: if some slot that the loop would
   have to save (xa: any slot; q: a modified slot, autowrite on or off) has a file stamped later than the stamp the slot remembers, and
   the slots in front of it denote other files, then the loop does not run to its end (it stops at that slot or before it with a status
   that is not ok -- so ec_quit does not quit) and what the slot's path denotes (bytes and stamp) is exactly what it was, whatever the
   saves of the slots in front did and whatever faults struck them.  With C03_aw_history (remembered <= ghost after every history) the
   same holds for a file newer than what the editor read or wrote last. *)
Section C03_autowrite_loop.
Import IoAwDefs IoAwProps.
Theorem C03_aw_quit_never_over_newer : forall now aw all lk (pre : list gbuf) (x : gbuf) (rest : list gbuf) fs sch k st tb' fs' r,
  Forall (fun y : gbuf => resolve lk (b_path (fst x)) <> resolve lk (b_path (fst y))) pre ->
  newer_rem lk fs x -> (all = true \/ b_dirty (fst x) = true) ->
  quit_scan bufs_modified now aw all false lk (pre ++ x :: rest) fs sch = (k, st, tb', fs', r) ->
  (exists i, k = Some i /\ i <= length pre) /\ st <> SOk /\ target lk fs' (b_path (fst x)) = target lk fs (b_path (fst x)).
Proof. exact quit_scan_newer_any. Qed.
Print Assumptions C03_aw_quit_never_over_newer.
End C03_autowrite_loop.

(* ------------------------------------------------------------------------------------------ *)
(* ec_write ON THE C TEXT (tools/c2clite.d/99zzzzz_ecwrite.list; coq/TrEcWrite.v, TrEcWriteCmd.v, TrEcWriteThm.v).  The translated
   ec_write of /repo/ex.c, run by CLiteExt.callx on a memory that holds bufs[0] (path, lb, mtime), the buffer's path string, its struct
   lbuf, the command / argument / address strings, for EVERY oracle for ex_pathexpand, lbuf_cp, ex_print, cmd_pipe, lbuf_save, ex_show,
   snprintf, reg_put, mtime and every list K of blocks the oracle calls leave alone, follows TrEcWriteCmd.ecw_run -- the decision
   structure written out:
     path = no argument ? bufs[0].path : ex_pathexpand(arg);  `x` on a buffer lbuf_modified reports clean: 0, nothing else;
     ex_region fails or path == NULL: 1;  no address: the whole buffer;
     a pipe ("!cmd"; "!" alone: 1): lbuf_cp, ex_print, cmd_pipe, free -- no store into bufs[0];
     a file: lbuf_save(xb, beg, end, path, force, ts) with force = the command has a `!` and ts = bufs[0].mtime exactly when path is the
       buffer's own path (else 0); a message: ex_show(message), return 1 AND NOTHING ELSE (no saved mark, no mtime: the buffer stays as
       modified as it was);  NULL: the tail -- snprintf, ex_show; the name is adopted exactly by a buffer without a name for a target
       that is not a pipe; lbuf_saved(xb, 0) exactly for the whole buffer written to the own path, lbuf_unsaved(xb) for a part of it,
       neither for another path; mtime(path) asked and stored exactly for the own path; return 0.
   A rewrite that marks the buffer saved before it looked at lbuf_save's answer, drops the force / mtime argument, or adopts a pipe as
   the name changes the translated term and breaks these statements. *)
From NV Require CLite CLiteProps GenCFuncs CLiteTac CLiteExt TrLbufBase TrLbuf TrEcWrite TrEcWriteCmd TrEcWriteThm UndoDefs.
Section C03_translated_ec_write.
Import CLite CLiteProps GenCFuncs CLiteTac CLiteExt TrLbufBase TrLbuf TrEcWrite TrEcWriteCmd TrEcWriteThm.
Local Open Scope Z_scope.

Theorem C03_tr_ec_write : forall ext d fuel m0 gb pb p bl blk lb ts n cb cmd ab arg lcb loc vtxt K,
  nonul p -> nonul cmd -> i32 n ->
  buf0 m0 gb (VPtr pb 0) bl ts -> str_at m0 pb p -> lbuf_rep m0 bl blk lb -> nth_error blk L_ln_n = Some (VInt n) ->
  str_at m0 cb cmd -> str_at m0 ab arg -> str_at m0 lcb loc -> nonul arg -> nonul loc ->
  lbuf_ints lb -> UndoDefs.useq lb < 2147483646 -> Z.of_nat (length p) <= 2147483647 ->
  (forall x, In x [G_bufs; pb; bl; cb; lcb; S (length m0); S (S (length m0))] -> In x K) ->
  (UndoDefs.hist lb <> [] -> forall bh, hist_ptr blk bh -> In bh K) ->
  NoDup [G_bufs; pb; bl] -> cb <> bl -> lcb <> bl -> (UndoDefs.hist lb <> [] -> forall bh, hist_ptr blk bh -> ~ In bh [G_bufs; pb]) ->
  ecw_run ext d fuel m0 gb pb p bl blk lb ts n cmd ab arg lcb loc K
    (fun r mf => callx ext cprog fuel (S (S (S (S d)))) F_ec_write [VPtr lcb 0; VPtr cb 0; VPtr ab 0; vtxt] m0 = Ok (VInt r, mf)).
Proof. exact tr_ec_write. Qed.
Print Assumptions C03_tr_ec_write.

(* the arguments of the one call of lbuf_save: the overwrite guards of C03 get the force flag of the command and the buffer's stored
   mtime -- for the own path only *)
Theorem C03_tr_save_args : forall bl ts qb path cmd b e p,
  save_args bl ts qb path cmd b e p =
  [VPtr bl 0; VInt b; VInt e; VPtr qb 0; VInt (if has_byte 33 cmd then 1 else 0); VInt (if same_str p path then wrap I64 ts else 0)].
Proof. exact save_args_spec. Qed.
Print Assumptions C03_tr_save_args.

(* failures surface and stay dirty: a message from lbuf_save goes to ex_show, ec_write returns 1, and the memory is what ex_show left *)
Theorem C03_tr_write_save_fails : forall ext m0 gb pb p bl ts n cmd K (Q : Z -> mem -> Prop) qb path blk1 lb1 b e m4 r m5 u m6,
  nthb path 0 <> 33%N -> write_run ext m0 gb pb p bl ts n cmd K Q qb path blk1 lb1 b e m4 ->
  ext X_lbuf_save (save_args bl ts qb path cmd b e p) m4 = Ok (r, m5) -> ptr_val r -> same_on K m4 m5 -> is_null r = false ->
  ext X_ex_show [r] m5 = Ok (u, m6) -> Q 1 m6.
Proof. exact write_run_save_fails. Qed.
Print Assumptions C03_tr_write_save_fails.

(* a write to another path (or to a pipe): nothing is stored behind the message *)
Theorem C03_tr_tail_elsewhere : forall ext bl n bm qb path b e K (Q : Z -> mem -> Prop) m gb pb p blk lb,
  adopts p path = false -> same_str p path = false ->
  (tail_run ext bl n bm qb path b e K Q m gb pb p blk lb <->
   forall u1 m1 u2 m2, ext X_snprintf [VPtr bm 0; VInt 128; VPtr G_wmsg 0; VPtr qb 0; VInt (e - b)] m = Ok (u1, m1) -> same_on K m m1 ->
     ext X_ex_show [VPtr bm 0] m1 = Ok (u2, m2) -> same_on K m1 m2 -> Q 0 m2).
Proof. exact tail_run_elsewhere. Qed.
Print Assumptions C03_tr_tail_elsewhere.

(* the address "" (:w, and wq / x through ec_quit): the hypothesis of ecw_run about the translated ex_region is a fact *)
Theorem C03_tr_region_empty : forall ext m gb pv bl ts blk n x lcb bb be vb ve d fuel,
  buf0 m gb pv bl ts -> nth_error m bl = Some blk -> nth_error blk L_ln_n = Some (VInt n) -> i32 n ->
  str_at m lcb [] -> str_at m G_lit_25_1 [37%N] -> cell_at m G_xrow x -> i32 x -> i32 (x + 1) ->
  nth_error m bb = Some [vb] -> nth_error m be = Some [ve] -> bb <> be ->
  ~ In bb [G_bufs; bl; G_xrow] -> ~ In be [G_bufs; bl; G_xrow] ->
  callx ext cprog fuel (S (S (S d))) F_ex_region [VPtr lcb 0; VPtr bb 0; VPtr be 0] m
  = Ok (VInt (b2z ((x <? 0) || (x >? n))), upd (upd (m ++ [[VPtr lcb 0]]) bb [VInt x]) be [VInt (if x =? n then x else x + 1)]).
Proof. exact region_empty. Qed.
Print Assumptions C03_tr_region_empty.

(* non-vacuity: the hypotheses of C03_tr_ec_write hold of a concrete memory, and the translated ec_write RUNS on it (vm_compute):
   :w with a succeeding lbuf_save (0; mtime := the oracle's 777; saved mark), with a failing one (1; mtime, counter, useq_zero untouched),
   :w to another path (0; nothing marked) *)
Example C03_tr_ec_write_nonvacuous :
  ecw_run (ex_ext (VInt 0)) 6 10 EXM ex_gb PB [102%N] BL ex_lbuf_blk ex_lb 100 2 [119%N] AB [] LCB [] EXK
    (fun r mf => callx (ex_ext (VInt 0)) cprog 10 10 F_ec_write [VPtr LCB 0; VPtr CB 0; VPtr AB 0; VInt 0] EXM = Ok (VInt r, mf)) /\
  run_w (VInt 0) [102%N] [119%N] [] [] = Some (0, Some (VPtr PB 0), Some (VInt 777), Some (VInt 6), Some (VInt 4)) /\
  run_w (VPtr G_lit__0 0) [102%N] [119%N] [] [] = Some (1, Some (VPtr PB 0), Some (VInt 100), Some (VInt 5), Some (VInt 3)) /\
  run_w (VInt 0) [102%N] [119%N] [103%N] [103%N] = Some (0, Some (VPtr PB 0), Some (VInt 100), Some (VInt 5), Some (VInt 3)).
Proof. split; [exact tr_ec_write_nonvacuous|]. split; [exact run_w_own|]. split; [exact run_w_fails|exact run_w_other]. Qed.
End C03_translated_ec_write.
