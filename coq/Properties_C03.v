(* Properties_C03.v -- C03: writes never clobber foreign or newer files; failures surface and stay dirty.
   Statements only; every proof is `exact <lemma>`; Print Assumptions under each.
   Model: coq/IoDefs.v (lbuf_save with its guards, lbuf_wr + write_fully under a fault schedule = one
   outcome per open/write/close call, ec_write, ec_quit for q/wq/x/xa with or without !). *)
From Coq Require Import List NArith ZArith Bool.
From NV Require Import Bytes GenConsts IoDefs IoProps IoFaultProps.
Import ListNotations.

(* without `!`: a target that exists (mtime >= 0: the code takes a negative time stamp for "absent") and
   is not the file being edited, or is the edited file with a newer time stamp than recorded, is
   refused: no system call is consumed, the file system and the buffer are untouched.  Also for the
   save of `xa` (lbuf_save with the buffer's recorded time stamp ts; ts <= 0 = file did not exist). *)
Theorem C03_guard :
  (forall now isx rng path bf fs sch c m,
     fs_get fs path = Some (c, m) -> (0 <= m)%Z ->
     (path <> b_path bf \/ (m > b_mtime bf)%Z) -> skips isx bf = false ->
     ec_write now isx false rng path bf fs sch = (SRefused, bf, fs, sch)) /\
  (forall now lines b e path ts fs sch c m,
     fs_get fs path = Some (c, m) -> (0 <= m)%Z -> (ts <= 0 \/ m > ts)%Z ->
     lbuf_save now lines b e path false ts fs sch = (SRefused, fs, sch)).
Proof. exact (conj guard_write guard_save). Qed.
Print Assumptions C03_guard.

(* under ANY fault schedule: if the command reports success the target holds exactly the addressed lines *)
Theorem C03_success_exact : forall now isx force rng path bf fs sch bf' fs' r,
  ec_write now isx force rng path bf fs sch = (SOk, bf', fs', r) -> skips isx bf = false ->
  fs_content fs' path = Some (want (b_lines bf) (fst (rng_of rng (length (b_lines bf)))) (snd (rng_of rng (length (b_lines bf))))).
Proof. exact success_exact. Qed.
Print Assumptions C03_success_exact.

(* under ANY fault schedule: the command reports failure exactly when one of the system calls it
   actually consumed returned an error (short writes are retried; an error placed after the data ran
   out is never reached); whenever it does not report success the buffer (text, recorded time stamp,
   dirty state) is unchanged; and a forced retry on a healthy system succeeds whatever was left behind,
   leaving the lines in the file and, for a whole-buffer write of the own file, a clean buffer *)
Theorem C03_failure_surfaces :
  (forall now isx force rng path bf fs sch st bf' fs' r used,
     ec_write now isx force rng path bf fs sch = (st, bf', fs', r) -> sch = used ++ r ->
     (In OErr used <-> st = SFailed) /\ (st <> SOk -> bf' = bf)) /\
  (forall now rng path bf fs,
     exists bf' fs', ec_write now false true rng path bf fs [] = (SOk, bf', fs', []) /\
       fs_content fs' path = Some (want (b_lines bf) (fst (rng_of rng (length (b_lines bf)))) (snd (rng_of rng (length (b_lines bf))))) /\
       (b_path bf = path -> rng = None -> b_dirty bf' = false /\ b_mtime bf' = fs_mtime fs' path)).
Proof. exact (conj failure_surfaces retry_succeeds). Qed.
Print Assumptions C03_failure_surfaces.

(* q / wq / x / xa (with or without !) over any list of buffers and any schedule: a consumed error
   aborts the quit and is reported; not quitting always comes with a non-success status; `xa` quits
   only if every buffer's file holds that buffer's text (distinct paths); without `a` and `!` the editor
   quits only if no buffer is dirty afterwards; a failing write part leaves every buffer as it was *)
Theorem C03_quit_all :
  (forall now wr isx all bang bufs fs sch q st bufs' fs' r used,
     ec_quit now wr isx all bang bufs fs sch = (q, st, bufs', fs', r) -> sch = used ++ r ->
     (In OErr used -> q = false /\ st = SFailed) /\
     (q = false -> st <> SOk) /\
     (q = true -> all = true -> NoDup (map b_path bufs) -> Forall (holds_text fs') bufs) /\
     (q = true -> all = false -> bang = false -> Forall (fun bf => b_dirty bf = false) bufs')) /\
  (forall now isx all bang b0 rest fs sch st b0' fs1 r1,
     ec_write now isx bang None (b_path b0) b0 fs sch = (st, b0', fs1, r1) -> st <> SOk ->
     ec_quit now true isx all bang (b0 :: rest) fs sch = (false, st, b0 :: rest, fs1, r1)).
Proof. exact (conj ec_quit_spec ec_quit_write_fails). Qed.
Print Assumptions C03_quit_all.

(* the hypotheses are satisfiable and the machine computes: a short write is retried (success), an
   error after a short write fails and leaves the prefix, a foreign file is refused *)
Example C03_nonvacuous :
  let bf := {| b_lines := [[97; 10]; [98; 10]]%N; b_path := 0; b_mtime := 5%Z; b_dirty := true |} in
  let fs := [(0, ([120; 120; 120; 120; 120; 120]%N, 5%Z)); (1, ([121]%N, 0%Z))] in
  (exists bf' fs' r, ec_write 9%Z false false None 0 bf fs [OOk; OShort 1; OOk; OOk] = (SOk, bf', fs', r) /\
      fs_content fs' 0 = Some [97; 10; 98; 10]%N /\ b_dirty bf' = false) /\
  (exists fs' r, ec_write 9%Z false false None 0 bf fs [OOk; OShort 1; OErr] = (SFailed, bf, fs', r) /\
      fs_content fs' 0 = Some [97; 120; 120; 120; 120; 120]%N) /\
  ec_write 9%Z false false None 1 bf fs [] = (SRefused, bf, fs, []) /\
  fst (fst (fst (fst (ec_quit 9%Z true true true false [bf] fs [OOk; OOk; OOk; OErr])))) = false.
Proof.
  cbv zeta. split; [eexists; eexists; eexists; split; [vm_compute; reflexivity | split; reflexivity]|].
  split; [eexists; eexists; split; [vm_compute; reflexivity | reflexivity]|]. split; vm_compute; reflexivity.
Qed.
