(* Properties_C03.v -- C03: writes never clobber foreign or newer files; failures surface and stay dirty.
   Statements only; every proof is `exact <lemma>`; Print Assumptions under each.
   Model: coq/IoDefs.v (lbuf_save with its guards, lbuf_wr + write_fully under a fault schedule = one
   outcome per open/write/close call, ec_write, ec_quit for q/wq/x/xa with or without !). *)
From Coq Require Import List NArith ZArith Bool.
From NV Require Import Bytes GenConsts IoDefs IoProps IoFaultProps IoLinkDefs IoLinkProps.
Import ListNotations.

(* without `!`: a target that exists (mtime >= 0: the code takes a negative time stamp for "absent") and
   is not the file being edited, or is the edited file with a newer time stamp than recorded, is
   refused: no system call is consumed, the file system and the buffer are untouched.  Also for the
   save of `xa` (lbuf_save with the buffer's recorded time stamp ts; ts <= 0 = file did not exist). *)
Theorem C03_guard :
  (forall now isx rng path bf fs sch c m,
     fs_get fs path = Some (c, m) -> (0 <= m)%Z ->
     (path <> b_path bf \/ (m > b_mtime bf)%Z) -> skips isx bf = false ->
     ec_write now isx false rng path bf fs sch = (SRefused, bf, fs, sch)) /\
  (forall now lines b e path ts fs sch c m,
     fs_get fs path = Some (c, m) -> (0 <= m)%Z -> (ts <= 0 \/ m > ts)%Z ->
     lbuf_save now lines b e path false ts fs sch = (SRefused, fs, sch)).
Proof. exact (conj guard_write guard_save). Qed.
Print Assumptions C03_guard.

(* under ANY fault schedule: if the command reports success the target holds exactly the addressed lines *)
Theorem C03_success_exact : forall now isx force rng path bf fs sch bf' fs' r,
  ec_write now isx force rng path bf fs sch = (SOk, bf', fs', r) -> skips isx bf = false ->
  fs_content fs' path = Some (want (b_lines bf) (fst (rng_of rng (length (b_lines bf)))) (snd (rng_of rng (length (b_lines bf))))).
Proof. exact success_exact. Qed.
Print Assumptions C03_success_exact.

(* under ANY fault schedule: the command reports failure exactly when one of the system calls it
   actually consumed returned an error (short writes are retried; an error placed after the data ran
   out is never reached); whenever it does not report success the buffer (text, recorded time stamp,
   dirty state) is unchanged; and a forced retry on a healthy system succeeds whatever was left behind,
   leaving the lines in the file and, for a whole-buffer write of the own file, a clean buffer *)
Theorem C03_failure_surfaces :
  (forall now isx force rng path bf fs sch st bf' fs' r used,
     ec_write now isx force rng path bf fs sch = (st, bf', fs', r) -> sch = used ++ r ->
     (In OErr used <-> st = SFailed) /\ (st <> SOk -> bf' = bf)) /\
  (forall now rng path bf fs,
     exists bf' fs', ec_write now false true rng path bf fs [] = (SOk, bf', fs', []) /\
       fs_content fs' path = Some (want (b_lines bf) (fst (rng_of rng (length (b_lines bf)))) (snd (rng_of rng (length (b_lines bf))))) /\
       (b_path bf = path -> rng = None -> b_dirty bf' = false /\ b_mtime bf' = fs_mtime fs' path)).
Proof. exact (conj failure_surfaces retry_succeeds). Qed.
Print Assumptions C03_failure_surfaces.

(* q / wq / x / xa (with or without !) over any list of buffers and any schedule: a consumed error
   aborts the quit and is reported; not quitting always comes with a non-success status; `xa` quits
   only if every buffer's file holds that buffer's text (distinct paths); without `a` and `!` the editor
   quits only if no buffer is dirty afterwards; a failing write part leaves every buffer as it was *)
Theorem C03_quit_all :
  (forall now wr isx all bang bufs fs sch q st bufs' fs' r used,
     ec_quit now wr isx all bang bufs fs sch = (q, st, bufs', fs', r) -> sch = used ++ r ->
     (In OErr used -> q = false /\ st = SFailed) /\
     (q = false -> st <> SOk) /\
     (q = true -> all = true -> NoDup (map b_path bufs) -> Forall (holds_text fs') bufs) /\
     (q = true -> all = false -> bang = false -> Forall (fun bf => b_dirty bf = false) bufs')) /\
  (forall now isx all bang b0 rest fs sch st b0' fs1 r1,
     ec_write now isx bang None (b_path b0) b0 fs sch = (st, b0', fs1, r1) -> st <> SOk ->
     ec_quit now true isx all bang (b0 :: rest) fs sch = (false, st, b0 :: rest, fs1, r1)).
Proof. exact (conj ec_quit_spec ec_quit_write_fails). Qed.
Print Assumptions C03_quit_all.

(* the hypotheses are satisfiable and the machine computes: a short write is retried (success), an
   error after a short write fails and leaves the prefix, a foreign file is refused *)
Example C03_nonvacuous :
  let bf := {| b_lines := [[97; 10]; [98; 10]]%N; b_path := 0; b_mtime := 5%Z; b_dirty := true |} in
  let fs := [(0, ([120; 120; 120; 120; 120; 120]%N, 5%Z)); (1, ([121]%N, 0%Z))] in
  (exists bf' fs' r, ec_write 9%Z false false None 0 bf fs [OOk; OShort 1; OOk; OOk] = (SOk, bf', fs', r) /\
      fs_content fs' 0 = Some [97; 10; 98; 10]%N /\ b_dirty bf' = false) /\
  (exists fs' r, ec_write 9%Z false false None 0 bf fs [OOk; OShort 1; OErr] = (SFailed, bf, fs', r) /\
      fs_content fs' 0 = Some [97; 120; 120; 120; 120; 120]%N) /\
  ec_write 9%Z false false None 1 bf fs [] = (SRefused, bf, fs, []) /\
  fst (fst (fst (fst (ec_quit 9%Z true true true false [bf] fs [OOk; OOk; OOk; OErr])))) = false.
Proof.
  cbv zeta. split; [eexists; eexists; eexists; split; [vm_compute; reflexivity | split; reflexivity]|].
  split; [eexists; eexists; split; [vm_compute; reflexivity | reflexivity]|]. split; vm_compute; reflexivity.
Qed.

(* ------------------------------------------------------------------ names, symbolic links, foreign writers *)
(* Model: coq/IoLinkDefs.v.  mtime() is stat(2): a name is resolved through symbolic links (at most
   MAXSYMLINKS, a loop fails) before the time stamp is looked at, and open() follows the same links;
   `target lk fs p` is the file the name p finally denotes.  The guard clause for every recorded time
   stamp, the one of a name that denoted no file when the buffer was loaded (-1) included: without `!`
   a target that exists (stamp >= 0) and is another name, or the own name with a newer stamp, or the own
   name recorded as absent, is refused by :w / :x (first part), by :wq / :x / :xa (no quit; second part)
   and by the save loop of :xa (third part); no system call is consumed, nothing changes. *)
Theorem C03_guard_links :
  (forall now isx rng lk path bf fs sch c m,
     target lk fs path = Some (c, m) -> (0 <= m)%Z ->
     (path <> b_path bf \/ (m > b_mtime bf)%Z \/ b_mtime bf = (-1)%Z) -> skips isx bf = false ->
     ec_write_l now isx false rng lk path bf fs sch = (SRefused, bf, fs, sch)) /\
  (forall now isx all lk b0 rest fs sch c m,
     target lk fs (b_path b0) = Some (c, m) -> (0 <= m)%Z ->
     ((m > b_mtime b0)%Z \/ b_mtime b0 = (-1)%Z) -> skips isx b0 = false ->
     ec_quit_l now true isx all false lk (b0 :: rest) fs sch = (false, SRefused, b0 :: rest, fs, sch)) /\
  (forall now lk bf rest fs sch c m,
     target lk fs (b_path bf) = Some (c, m) -> (0 <= m)%Z -> ((m > b_mtime bf)%Z \/ b_mtime bf = (-1)%Z) ->
     quit_loop_l now true false lk (bf :: rest) fs sch = (false, SRefused, fs, sch)).
Proof. exact (conj guard_write_l (conj guard_quit_l guard_quit_loop_l)). Qed.
Print Assumptions C03_guard_links.

(* What the buffer remembers and what a foreign writer can do about it.
   (1) ec_edit records mtime() of the name, -1 (and no lines) when the name denotes no file.
   (2) a successful write reaches the file the name denotes (exactly the addressed lines) and, for the own
       name, records that file's stamp again.
   (3) the buffer being in step with (lk, fs), after ANY sequence of foreign operations (write through
       links, rename over the name, touch, unlink) whose stamps lie in later seconds, a write of the own name
       without `!` is refused with nothing consumed or changed -- unless the name denotes no file now, or
       denotes the very file (same resolution, same content, same stamp) the editor read or wrote last.
   (4) in particular for a name that denoted no file at load time: whatever exists there now is refused.
   Granularity: st_mtime counts whole seconds, so `later` is a hypothesis (a foreign write within the
   second of the editor's own read/write is invisible to the code). *)
Theorem C03_guard_session :
  (forall lk fs p,
     b_mtime (ec_edit_l lk fs p) = mtime_of lk fs p /\ b_path (ec_edit_l lk fs p) = p /\
     (target lk fs p = None -> b_mtime (ec_edit_l lk fs p) = (-1)%Z /\ b_lines (ec_edit_l lk fs p) = [])) /\
  (forall now isx force rng lk path bf fs sch bf' fs' r,
     ec_write_l now isx force rng lk path bf fs sch = (SOk, bf', fs', r) -> skips isx bf = false ->
     (exists q, resolve lk path = Some q /\
        fs_content fs' q = Some (want (b_lines bf) (fst (rng_of rng (length (b_lines bf)))) (snd (rng_of rng (length (b_lines bf)))))) /\
     (b_path bf = path -> b_mtime bf' = mtime_of lk fs' path /\ b_path bf' = path) /\
     (b_path bf <> path -> bf' = bf)) /\
  (forall now isx rng lk fs bf ops lk' fs' sch,
     b_mtime bf = mtime_of lk fs (b_path bf) ->
     Forall (later_than (b_mtime bf)) ops ->
     foreign_run (lk, fs) ops = (lk', fs') ->
     skips isx bf = false ->
     ec_write_l now isx false rng lk' (b_path bf) bf fs' sch = (SRefused, bf, fs', sch) \/
     target lk' fs' (b_path bf) = None \/
     (resolve lk' (b_path bf) = resolve lk (b_path bf) /\ target lk' fs' (b_path bf) = target lk fs (b_path bf))) /\
  (forall now isx rng lk fs p ops lk' fs' sch text c m,
     target lk fs p = None ->
     Forall (later_than (-1)) ops ->
     foreign_run (lk, fs) ops = (lk', fs') ->
     target lk' fs' p = Some (c, m) ->
     let bf := {| b_lines := text; b_path := p; b_mtime := b_mtime (ec_edit_l lk fs p); b_dirty := true |} in
     ec_write_l now isx false rng lk' p bf fs' sch = (SRefused, bf, fs', sch)).
Proof. exact (conj edit_records (conj success_exact_l (conj guard_session guard_session_absent))). Qed.
Print Assumptions C03_guard_session.

(* without links the model over names is the model of the theorems above, so they all carry over *)
Theorem C03_links_conservative :
  (forall now isx force rng path bf fs sch,
     ec_write_l now isx force rng [] path bf fs sch = ec_write now isx force rng path bf fs sch) /\
  (forall now wr isx all bang bufs fs sch,
     ec_quit_l now wr isx all bang [] bufs fs sch = ec_quit now wr isx all bang bufs fs sch).
Proof. exact (conj ec_write_l_nil ec_quit_l_nil). Qed.
Print Assumptions C03_links_conservative.

(* non-vacuity: name 2 is a link to name 0 (file stamped 5, recorded 5), name 3 denotes nothing.
   A foreign write THROUGH the link stamped 7 makes :w of name 2 refuse; untouched it succeeds and the data
   lands in file 0; name 3 loaded as absent (-1), then created by someone else with stamp 0: :w and :xa refuse;
   a rename over the link (the link becomes a regular file) refuses as well. *)
Example C03_links_nonvacuous :
  let lk := [(2, 0)] in
  let fs := [(0, ([120; 10]%N, 5%Z))] in
  let bf := {| b_lines := [[97; 10]]%N; b_path := 2; b_mtime := b_mtime (ec_edit_l lk fs 2); b_dirty := true |} in
  let b3 := {| b_lines := [[97; 10]]%N; b_path := 3; b_mtime := b_mtime (ec_edit_l lk fs 3); b_dirty := true |} in
  b_mtime bf = 5%Z /\ b_mtime b3 = (-1)%Z /\
  (let '(lk', fs') := foreign_run (lk, fs) [FWrite 2 [121]%N 7%Z] in
   ec_write_l 9%Z false false None lk' 2 bf fs' [] = (SRefused, bf, fs', []) /\ fs_content fs' 0 = Some [121]%N) /\
  (exists bf' fs' r, ec_write_l 9%Z false false None lk 2 bf fs [] = (SOk, bf', fs', r) /\
     fs_content fs' 0 = Some [97; 10]%N /\ fs_content fs' 2 = None /\ b_mtime bf' = 9%Z) /\
  (let '(lk', fs') := foreign_run (lk, fs) [FWrite 3 [121]%N 0%Z] in
   ec_write_l 9%Z false false None lk' 3 b3 fs' [] = (SRefused, b3, fs', []) /\
   ec_quit_l 9%Z true true true false lk' [b3] fs' [] = (false, SRefused, [b3], fs', [])) /\
  (let '(lk', fs') := foreign_run (lk, fs) [FReplace 2 [121]%N 7%Z] in
   ec_write_l 9%Z false false None lk' 2 bf fs' [] = (SRefused, bf, fs', []) /\ resolve lk' 2 = Some 2).
Proof. cbv zeta. vm_compute. repeat split; try reflexivity. eexists; eexists; eexists. repeat split; reflexivity. Qed.
