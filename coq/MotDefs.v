(* MotDefs.v -- C07: executable mirror of the cursor motions of neatvi (mot.c, the motion part of
   vi.c, the cursor helpers of ren.c) over a character view of the buffer.

   A line of the buffer is the list of its characters (each a non-empty byte list, cut by
   uc_next of UcDefs: see [chop]), INCLUDING the final "\n" character, exactly as lbuf keeps it.
   A pointer "uc_chr(ln, off)" is the index off into that list; reading at or past the end gives
   the empty byte list (the NUL terminator / the static "" of uc_chr).  Rows, offsets, columns
   and counts are C ints (Z).  Only definitions here. *)
From Coq Require Import List NArith ZArith Bool.
From NV Require Import Bytes UcDefs GenUcTables GenConf.
Import ListNotations.
Local Open Scope Z_scope.

Definition chr := bytes.
Definition line := list chr.
Definition buf := list line.

(* cut a C string into its characters with uc_next (any bytes; fuel = length) *)
Fixpoint chop_f (fuel : nat) (s : bytes) : list chr :=
  match fuel with
  | O => []
  | S f => match s with
           | [] => []
           | _ => let k := Nat.max 1 (uc_next s) in firstn k s :: chop_f f (skipn k s)
           end
  end.
Definition chop (s : bytes) : line := chop_f (length s) s.

(* split a file image at "\n"; every line keeps its terminator (lbuf adds a missing last one) *)
Fixpoint split_lines_f (s : bytes) (cur : bytes) : list bytes :=
  match s with
  | [] => match cur with [] => [] | _ => [rev (10%N :: cur)] end
  | b :: r => if N.eqb b 10 then rev (b :: cur) :: split_lines_f r [] else split_lines_f r (b :: cur)
  end.
Definition buf_of_bytes (s : bytes) : buf := map chop (split_lines_f s []).

(* ---------- lbuf access ---------- *)
Definition blen (b : buf) : Z := Z.of_nat (length b).
Definition slen (l : line) : Z := Z.of_nat (length l).
Definition getl (b : buf) (r : Z) : option line := if r <? 0 then None else nth_error b (Z.to_nat r).
Definition chr_at (l : line) (o : Z) : chr := if o <? 0 then [] else nth (Z.to_nat o) l [].
(* mot.c: lbuf_chr *)
Definition lchr (b : buf) (r o : Z) : chr := match getl b r with Some l => chr_at l o | None => [] end.
Definition code (c : chr) : N := uc_code c.
Definition is_nl (c : chr) : bool := N.eqb (code c) 10.
Definition b0 (c : chr) : N := hd0 c.

(* ---------- the column model (ren.c, left-to-right lines only) ---------- *)
Definition in_tab (c : Z) (t : list (Z * Z)) : bool := existsb (fun ab => (fst ab <=? c) && (c <=? snd ab)) t.
Definition uc_iszw (c : Z) : bool := (zw_min <=? c) && in_tab c zwchars.
Definition uc_isdw (c : Z) : bool := (dw_min <=? c) && in_tab c dwchars.
Definition uc_wid (c : chr) : Z := let k := Z.of_N (code c) in if uc_iszw k then 0 else if uc_isdw k then 2 else 1.
Definition uc_isbell (c : chr) : bool :=
  let b := Z.of_N (b0 c) in
  if (b =? 32) || (b =? 9) || (b =? 10) || ((32 <=? b) && (b <? 127)) then false
  else let k := Z.of_N (code c) in uc_iszw k || in_tab k bchars.
(* ren_placeholder: common-bits prefilter, then lead byte and code point must agree *)
Definition ph_bits : N := fold_left (fun a p => N.land a (hd0 (fst (fst p)))) placeholders 65535%N.
Definition ren_placeholder_wid (c : chr) : option Z :=
  let hit := if N.eqb (N.land (b0 c) ph_bits) ph_bits
             then find (fun p => N.eqb (hd0 (fst (fst p))) (b0 c) && N.eqb (uc_code (fst (fst p))) (code c)) placeholders
             else None in
  match hit with
  | Some p => Some (snd p)
  | None => if uc_isbell c then Some 1 else None
  end.
(* ren.c: ren_cwid *)
Definition ren_cwid (c : chr) (pos : Z) : Z :=
  if N.eqb (b0 c) 9 then 8 - Z.land pos 7
  else match ren_placeholder_wid c with Some w => w | None => uc_wid c end.
(* ren.c: ren_position (fast version): pos[0..n] *)
Fixpoint ren_position (l : line) (cpos : Z) : list Z :=
  match l with
  | [] => [cpos]
  | c :: r => cpos :: ren_position r (cpos + ren_cwid c cpos)
  end.
Definition positions (l : line) : list Z := firstn (length l) (ren_position l 0).   (* pos[0..n-1] *)

(* ren.c: pos_next / pos_prev (value of the nearest column, -1 if none) *)
Definition pos_next (ps : list Z) (p : Z) (cur : bool) : Z :=
  match fold_left (fun ret x => if (x - (if cur then 0 else 1) >=? p) && (match ret with None => true | Some y => x <? y end)
                                then Some x else ret) ps None with
  | Some v => v | None => -1 end.
Definition pos_prev (ps : list Z) (p : Z) (cur : bool) : Z :=
  match fold_left (fun ret x => if (x + (if cur then 0 else 1) <=? p) && (match ret with None => true | Some y => y <? x end)
                                then Some x else ret) ps None with
  | Some v => v | None => -1 end.
(* last index i with pos[i] = p, -1 if none *)
Fixpoint last_index (ps : list Z) (p : Z) (i : Z) (acc : Z) : Z :=
  match ps with
  | [] => acc
  | x :: r => last_index r p (i + 1) (if x =? p then i else acc)
  end.
(* ren.c: ren_pos (callers pass off >= 0) *)
Definition ren_pos (l : line) (off : Z) : Z :=
  if (0 <=? off) && (off <? slen l) then nth (Z.to_nat off) (positions l) 0 else 0.
(* ren.c: ren_off *)
Definition ren_off (l : line) (p : Z) : Z :=
  let ps := positions l in
  let p' := pos_prev ps p true in
  let off := last_index ps p' 0 (-1) in
  if 0 <=? off then off else 0.
(* ren.c: ren_next *)
Definition ren_next (l : line) (p : Z) (dir : Z) : Z :=
  let ps := positions l in
  let p1 := pos_prev ps p true in
  let p2 := if 0 <=? dir then pos_next ps p1 false else pos_prev ps p1 false in
  if negb (N.eqb (b0 (chr_at l (ren_off l p2))) 10) then p2 else -1.
(* ren.c: ren_noeol (s may be NULL) *)
Definition ren_noeol (ol : option line) (o : Z) : Z :=
  let n := match ol with Some l => slen l | None => 0 end in
  let o := if o >=? n then Z.max 0 (n - 1) else o in
  if (0 <? o) && N.eqb (b0 (match ol with Some l => chr_at l o | None => [] end)) 10 then o - 1 else o.

(* vi.c: vi_col2off / vi_off2col *)
Definition vi_col2off (b : buf) (row col : Z) : Z := match getl b row with Some l => ren_off l col | None => 0 end.
Definition vi_off2col (b : buf) (row off : Z) : Z := match getl b row with Some l => ren_pos l off | None => 0 end.

(* ---------- mot.c ---------- *)
Fixpoint count_space (l : line) : Z :=
  match l with
  | c :: r => if uc_isspace c then 1 + count_space r else 0
  | [] => 0
  end.
Definition lbuf_indents (b : buf) (r : Z) : Z := match getl b r with Some l => count_space l | None => 0 end.
Definition lbuf_eol (b : buf) (r : Z) : Z :=
  let len := match getl b r with Some l => slen l | None => 0 end in if len =? 0 then 0 else len - 1.

(* status true = the C function returned non-zero; the position is what *row, *off hold afterwards *)
Definition st3 := (bool * Z * Z)%type.

Definition lbuf_lnnext (b : buf) (dir r o : Z) : option Z :=
  let off := o + dir in
  match getl b r with
  | None => None
  | Some l => if (off <? 0) || (off >=? slen l) then None else Some off
  end.
Definition lbuf_next (b : buf) (dir r o : Z) : st3 :=
  let r := if (dir <? 0) && (r >=? blen b) then Z.max 0 (blen b - 1) else r in
  match lbuf_lnnext b dir r o with
  | Some o' => (false, r, o')
  | None => match getl b (r + dir) with
            | None => (true, r, o)
            | Some _ => (false, r + dir, if 0 <? dir then 0 else lbuf_eol b (r + dir))
            end
  end.

Definition kindof (b : buf) (r o : Z) : N := uc_kind (lchr b r o).
Definition kmatch (b : buf) (kind : N) (r o : Z) : bool := negb (N.eqb (N.land (kindof b r o) kind) 0).

(* the loops step with lbuf_next; fuel: None = out of fuel *)
Fixpoint wordlast_loop (fuel : nat) (b : buf) (kind : N) (dir r o : Z) : option st3 :=
  match fuel with
  | O => None
  | S f =>
      if kmatch b kind r o then
        match lbuf_next b dir r o with
        | (true, r', o') => Some (true, r', o')
        | (false, r', o') => wordlast_loop f b kind dir r' o'
        end
      else match lbuf_next b (- dir) r o with (_, r', o') => Some (false, r', o') end
  end.
Definition lbuf_wordlast (fuel : nat) (b : buf) (kind : N) (dir r o : Z) : option st3 :=
  if N.eqb kind 0 || negb (kmatch b kind r o) then Some (false, r, o)
  else wordlast_loop fuel b kind dir r o.

Fixpoint wordbeg_loop (fuel : nat) (b : buf) (dir : Z) (nl : Z) (r o : Z) : option st3 :=
  match fuel with
  | O => None
  | S f =>
      if uc_isspace (lchr b r o) then
        let nl := nl + (if is_nl (lchr b r o) then 1 else 0) in
        if nl =? 2 then Some (false, r, o)
        else match lbuf_next b dir r o with
             | (true, r', o') => Some (true, r', o')
             | (false, r', o') => wordbeg_loop f b dir nl r' o'
             end
      else Some (false, r, o)
  end.
Definition lbuf_wordbeg (fuel : nat) (b : buf) (big : bool) (dir r o : Z) : option st3 :=
  match lbuf_wordlast fuel b (if big then 3%N else kindof b r o) dir r o with
  | None => None
  | Some (_, r, o) =>
      let nl := if is_nl (lchr b r o) then 1 else 0 in
      match lbuf_next b dir r o with
      | (true, r', o') => Some (true, r', o')
      | (false, r', o') => wordbeg_loop fuel b dir nl r' o'
      end
  end.

Fixpoint wordend_loop (fuel : nat) (b : buf) (dir : Z) (nl : Z) (r o : Z) : option (bool * st3) :=
  (* outer bool: true = the function returns from inside the loop with this st3 *)
  match fuel with
  | O => None
  | S f =>
      if uc_isspace (lchr b r o) then
        match lbuf_next b dir r o with
        | (true, r', o') => Some (true, (true, r', o'))
        | (false, r', o') =>
            let nl := nl + (if is_nl (lchr b r' o') then 1 else 0) in
            if nl =? 2 then
              (if dir <? 0 then match lbuf_next b (- dir) r' o' with (_, r2, o2) => Some (true, (false, r2, o2)) end
               else Some (true, (false, r', o')))
            else wordend_loop f b dir nl r' o'
        end
      else Some (false, (false, r, o))
  end.
Definition lbuf_wordend (fuel : nat) (b : buf) (big : bool) (dir r o : Z) : option st3 :=
  let start : option (Z * Z * Z) :=        (* None = early return 1 handled below *)
    if negb (uc_isspace (lchr b r o)) then
      match lbuf_next b dir r o with
      | (true, r', o') => None
      | (false, r', o') => Some ((if (dir <? 0) && is_nl (lchr b r' o') then 1 else 0), r', o')
      end
    else Some (0, r, o) in
  match start with
  | None => match lbuf_next b dir r o with (_, r', o') => Some (true, r', o') end
  | Some (nl, r, o) =>
      let nl := nl + (if (0 <? dir) && is_nl (lchr b r o) then 1 else 0) in
      match wordend_loop fuel b dir nl r o with
      | None => None
      | Some (true, res) => Some res
      | Some (false, (_, r, o)) =>
          match lbuf_wordlast fuel b (if big then 3%N else kindof b r o) dir r o with
          | None => None
          | Some (true, r', o') => Some (true, r', o')
          | Some (false, r', o') => Some (false, r', o')
          end
      end
  end.

(* lbuf_paragraphbeg *)
Definition is_blank_line (b : buf) (r : Z) : option bool :=      (* None: row outside the buffer *)
  if (r <? 0) || (r >=? blen b) then None
  else match getl b r with Some l => Some (match l with [c] => if list_eq_dec N.eq_dec c [10%N] then true else false | _ => false end) | None => None end.
Fixpoint para_skip (fuel : nat) (b : buf) (dir : Z) (want : bool) (r : Z) : Z :=
  match fuel with
  | O => r
  | S f => match is_blank_line b r with
           | Some bl => if Bool.eqb bl want then para_skip f b dir want (r + dir) else r
           | None => r
           end
  end.
Definition lbuf_paragraphbeg (b : buf) (dir r : Z) : Z * Z :=
  let fuel := S (length b) in
  let r := para_skip fuel b dir true r in
  let r := para_skip fuel b dir false r in
  (Z.max 0 (Z.min r (blen b - 1)), 0).

(* lbuf_pair *)
Definition pairs : list N := [40; 41; 91; 93; 123; 125]%N.
Fixpoint index_of (x : N) (l : list N) (i : nat) : option nat :=
  match l with [] => None | y :: r => if N.eqb x y then Some i else index_of x r (S i) end.
Fixpoint pair_scan (fuel : nat) (b : buf) (r o : Z) : option (Z * N) :=   (* Some (o, pchr) *)
  match fuel with
  | O => None
  | S f => let c := b0 (lchr b r o) in
           if N.eqb c 0 then None
           else match index_of c pairs 0 with Some _ => Some (o, c) | None => pair_scan f b r (o + 1) end
  end.
Fixpoint pair_loop (fuel : nat) (b : buf) (dir : Z) (opn cls : N) (dep : Z) (r o : Z) : option (option (Z * Z)) :=
  match fuel with
  | O => None
  | S f => match lbuf_next b dir r o with
           | (true, _, _) => Some None
           | (false, r', o') =>
               let c := b0 (lchr b r' o') in
               let dep := if N.eqb c cls then dep - 1 else dep in
               let dep := if N.eqb c opn then dep + 1 else dep in
               if dep =? 0 then Some (Some (r', o')) else pair_loop f b dir opn cls dep r' o'
           end
  end.
Definition lbuf_pair (fuel : nat) (b : buf) (r o : Z) : option (option (Z * Z)) :=
  let n := match getl b r with Some l => S (length l) | None => 1%nat end in
  match pair_scan n b r o with
  | None => Some None
  | Some (o, pchr) =>
      match index_of pchr pairs 0 with
      | None => Some None
      | Some pidx =>
          let odd := Nat.odd pidx in
          let other := nth (if odd then pidx - 1 else pidx + 1)%nat pairs 0%N in
          pair_loop fuel b (if odd then -1 else 1) pchr other 1 r o
      end
  end.

(* lbuf_findchar: the n-th character equal (by code point) to cs in direction dir, t/T one short *)
Fixpoint find_nth (cs : chr) (n : nat) (l : list chr) (i : Z) : option Z :=
  match l with
  | [] => None
  | c :: r => if N.eqb (code c) (code cs)
              then match n with S O | O => Some i | S n' => find_nth cs n' r (i + 1) end
              else find_nth cs n r (i + 1)
  end.
Definition is_ft (cmd : N) : bool := N.eqb cmd 102 || N.eqb cmd 116.       (* f t *)
Definition is_tT (cmd : N) : bool := N.eqb cmd 116 || N.eqb cmd 84.        (* t T *)
Definition lbuf_findchar (b : buf) (cs : chr) (cmd : N) (n : Z) (r o : Z) : option Z :=
  match getl b r with
  | None => None
  | Some l =>
      let dir := if is_ft cmd then 1 else -1 in
      let dir := if n <? 0 then - dir else dir in
      let n := Z.abs n in
      if n =? 0 then Some o       (* cannot happen: counts are >= 1 *)
      else if 0 <? dir then
        match find_nth cs (Z.to_nat n) (skipn (Z.to_nat (o + 1)) l) 0 with
        | None => None
        | Some k => let i := o + 1 + k in Some (if is_tT cmd then i - 1 else i)
        end
      else
        match find_nth cs (Z.to_nat n) (rev (firstn (Z.to_nat o) l)) 0 with
        | None => None
        | Some k => let i := o - 1 - k in Some (if is_tT cmd then i + 1 else i)
        end
  end.

(* ---------- vi.c: motions ---------- *)
Inductive mkey :=
| Kh | Kl | Kj | Kk | K0 | Kcaret | Kdollar | Kbar | Kw | Kb | Ke | KW | KB | KE
| Kf (c : chr) | KF (c : chr) | Kt (c : chr) | KT (c : chr) | Ksemi | Kcomma
| KG | Kplus | Kminus | Kunder | Kpct | Klbrace | Krbrace | KH | KM | KL | Kspace | Kbs.

Record venv := { e_rows : Z }.       (* xrows = LINES - 1 *)

(* vi_motionln: Some (Some row) = a line motion to row; Some None = failed (-1); None = not a line motion *)
Definition vi_motionln (b : buf) (rows top : Z) (has : bool) (cnt : Z) (k : mkey) (row : Z) : option (option Z) :=
  let len := blen b in
  let fix0 (r : Z) := Some (Some (if r <? 0 then 0 else r)) in
  match k with
  | Kplus | Kj => fix0 (Z.min (row + cnt) (len - 1))
  | Kminus | Kk => fix0 (Z.max (row - cnt) 0)
  | Kunder => fix0 (Z.min (row + cnt - 1) (len - 1))
  | KG => fix0 (if has then Z.min (cnt - 1) (len - 1) else len - 1)
  | KH => fix0 (Z.min (top + cnt - 1) (len - 1))
  | KL => fix0 (Z.min (top + rows - 1 - cnt + 1) (len - 1))
  | KM => fix0 (Z.min (top + rows / 2) (len - 1))
  | Kpct => if has then (if 100 <? cnt then Some None else fix0 (Z.max 0 (len - 1) * cnt / 100)) else None
  | _ => None
  end.

(* for (i = 0; i < cnt; i++) if (step) break; *)
Fixpoint iter_break {A} (n : nat) (step : A -> option (bool * A)) (x : A) : option A :=
  match n with
  | O => Some x
  | S n' => match step x with
            | None => None
            | Some (true, y) => Some y
            | Some (false, y) => iter_break n' step y
            end
  end.

Inductive mvres :=
| MvFail (cl : chr) (cc : N)
| MvOk (r o : Z) (cl : chr) (cc : N) (pcol : Z)
| MvFuel.

Definition total_chars (b : buf) : nat := fold_right (fun l a => (length l + a)%nat) 0%nat b.
Definition mfuel (b : buf) : nat := S (S (total_chars b + length b)).

Definition vi_nextoff (b : buf) (dir : Z) (p : Z * Z) : option (bool * (Z * Z)) :=
  let '(r, o) := p in
  match lbuf_lnnext b dir r o with Some o' => Some (false, (r, o')) | None => Some (true, p) end.
Definition vi_nextcol (b : buf) (dir : Z) (p : Z * Z) : option (bool * (Z * Z)) :=
  let '(r, o) := p in
  match getl b r with
  | None => Some (true, p)
  | Some l => let c := ren_next l (ren_pos l o) dir in
              if c <? 0 then Some (true, p) else Some (false, (r, ren_off l c))
  end.
Definition wstep (f : Z -> Z -> option st3) (p : Z * Z) : option (bool * (Z * Z)) :=
  match f (fst p) (snd p) with None => None | Some (s, r, o) => Some (s, (r, o)) end.

(* vi_motion: row, off = the cursor (off already passed through ren_noeol); pcol0 = vi_pcol before *)
Definition vi_motion (b : buf) (rows top : Z) (cl : chr) (cc : N) (pcol0 : Z) (has : bool) (cnt : Z) (k : mkey) (row off : Z) : mvres :=
  match vi_motionln b rows top has cnt k row with
  | Some None => MvFail cl cc
  | Some (Some r) => MvOk r (-1) cl cc pcol0
  | None =>
      let n := Z.to_nat cnt in
      let fuel := mfuel b in
      let ok (p : option (Z * Z)) := match p with Some (r, o) => MvOk r o cl cc pcol0 | None => MvFuel end in
      let fc (cs : chr) (cmd : N) (n : Z) :=
        match lbuf_findchar b cs cmd n row off with
        | Some o => MvOk row o cs cmd pcol0
        | None => MvFail cs cmd
        end in
      match k with
      | Kf c => fc c 102%N cnt
      | KF c => fc c 70%N cnt
      | Kt c => fc c 116%N cnt
      | KT c => fc c 84%N cnt
      | Ksemi => match cl with [] => MvFail cl cc | _ => fc cl cc cnt end
      | Kcomma => match cl with [] => MvFail cl cc | _ => fc cl cc (- cnt) end
      | Kh => ok (iter_break n (vi_nextcol b (-1)) (row, off))
      | Kl => ok (iter_break n (vi_nextcol b 1) (row, off))
      | KB => ok (iter_break n (wstep (lbuf_wordend fuel b true (-1))) (row, off))
      | KE => ok (iter_break n (wstep (lbuf_wordend fuel b true 1)) (row, off))
      | KW => ok (iter_break n (wstep (lbuf_wordbeg fuel b true 1)) (row, off))
      | Kb => ok (iter_break n (wstep (lbuf_wordend fuel b false (-1))) (row, off))
      | Ke => ok (iter_break n (wstep (lbuf_wordend fuel b false 1)) (row, off))
      | Kw => ok (iter_break n (wstep (lbuf_wordbeg fuel b false 1)) (row, off))
      | Klbrace => ok (iter_break n (fun p => Some (false, lbuf_paragraphbeg b (-1) (fst p))) (row, off))
      | Krbrace => ok (iter_break n (fun p => Some (false, lbuf_paragraphbeg b 1 (fst p))) (row, off))
      | K0 => MvOk row 0 cl cc pcol0
      | Kcaret => MvOk row (Z.min (lbuf_indents b row) (lbuf_eol b row)) cl cc pcol0   (* not past the terminator (repo 27e5b4d) *)
      | Kdollar => MvOk row (lbuf_eol b row) cl cc pcol0
      | Kbar => MvOk row (vi_col2off b row (cnt - 1)) cl cc (cnt - 1)
      | Kspace => ok (iter_break n (vi_nextoff b 1) (row, off))
      | Kbs => ok (iter_break n (vi_nextoff b (-1)) (row, off))
      | Kpct => match lbuf_pair fuel b row off with
                | None => MvFuel
                | Some None => MvFail cl cc
                | Some (Some (r, o)) => MvOk r o cl cc pcol0
                end
      | _ => MvFail cl cc      (* line motions were handled above *)
      end
  end.

(* ---------- vi.c: the cursor state and the mv > 0 branch of vi() ---------- *)
Record vst := mk_vst { v_row : Z; v_off : Z; v_col : Z; v_top : Z; v_cl : chr; v_cc : N; v_pcol : Z }.

Definition is_jk (k : mkey) : bool := match k with Kj | Kk => true | _ => false end.
Definition is_bar (k : mkey) : bool := match k with Kbar => true | _ => false end.

(* vi.c: vi_wfix *)
Definition vi_wfix (b : buf) (rows : Z) (s : vst) : vst :=
  let len := blen b in
  let row := if (v_row s <? 0) || (v_row s >=? len) then (if len =? 0 then 0 else len - 1) else v_row s in
  let top := v_top s in
  let top := if row <? top then (if row <? top - rows / 2 then Z.max 0 (row - rows / 2) else row) else top in
  let top := if top + rows <=? row then (if top + rows + rows / 2 <=? row then row - rows / 2 else row - rows + 1) else top in
  mk_vst row (ren_noeol (getl b row) (v_off s)) (v_col s) top (v_cl s) (v_cc s) (v_pcol s).

(* one motion command: count prefix (0 = none), key *)
Definition do_motion (b : buf) (rows : Z) (arg1 arg2 : Z) (k : mkey) (s : vst) : option vst :=
  let cnt := (if arg1 =? 0 then 1 else arg1) * (if arg2 =? 0 then 1 else arg2) in
  let has := negb (arg1 =? 0) || negb (arg2 =? 0) in
  let nrow := v_row s in
  let noff := ren_noeol (getl b (v_row s)) (v_off s) in
  match vi_motion b rows (v_top s) (v_cl s) (v_cc s) (v_pcol s) has cnt k nrow noff with
  | MvFuel => None
  | MvFail cl cc => Some (vi_wfix b rows (mk_vst (v_row s) (v_off s) (v_col s) (v_top s) cl cc (v_pcol s)))
  | MvOk r o cl cc pcol =>
      let o := if (o <? 0) && negb (is_jk k) then lbuf_indents b r else o in
      let o := if is_jk k then vi_col2off b r (v_col s) else o in
      let xoff := ren_noeol (getl b r) o in
      let col := if is_bar k then pcol else if is_jk k then v_col s else vi_off2col b r xoff in
      Some (vi_wfix b rows (mk_vst r xoff col (v_top s) cl cc pcol))
  end.

(* the ex command ":<n>" used to reach a start position (ec_null: xrow = n - 1, xoff = 0;
   then mod != 0: vi_wfix and xcol recomputed); n outside 1..len is an error: nothing changes *)
Definition do_goto (b : buf) (rows : Z) (n : Z) (s : vst) : vst :=
  if (1 <=? n) && (n <=? blen b) then
    let s1 := vi_wfix b rows (mk_vst (n - 1) 0 (v_col s) (v_top s) (v_cl s) (v_cc s) (v_pcol s)) in
    mk_vst (v_row s1) (v_off s1) (vi_off2col b (v_row s1) (v_off s1)) (v_top s1) (v_cl s1) (v_cc s1) (v_pcol s1)
  else s.

Inductive mcmd := Mot (cnt : Z) (k : mkey) | Goto (n : Z).

Definition init_vst : vst := mk_vst 0 0 0 0 [] 0%N 0.

Definition step (b : buf) (rows : Z) (c : mcmd) (s : vst) : option vst :=
  match c with
  | Mot cnt k => do_motion b rows cnt 0 k s
  | Goto n => Some (do_goto b rows n s)
  end.
Fixpoint run (b : buf) (rows : Z) (cs : list mcmd) (s : vst) : option vst :=
  match cs with
  | [] => Some s
  | c :: r => match step b rows c s with Some s' => run b rows r s' | None => None end
  end.
(* motions return no text: the program result pairs the untouched buffer with the final cursor *)
Definition run_prog (b : buf) (rows : Z) (cs : list mcmd) : option (buf * vst) :=
  match run b rows cs init_vst with Some s => Some (b, s) | None => None end.

(* ---------- reference vocabulary used by the characterisation theorems ---------- *)
(* a cursor is valid: on an existing character of an existing line, not on the terminator of a
   non-empty line; in the empty buffer the cursor is (0, 0) *)
Definition cursor_ok (b : buf) (row off : Z) : Prop :=
  match getl b row with
  | Some l => 0 <= off /\ (off < slen l - 1 \/ (slen l = 1 /\ off = 0))
  | None => b = [] /\ row = 0 /\ off = 0
  end.
(* a well-formed line: its last character is "\n" and no other character starts with "\n" *)
Definition line_wf (l : line) : Prop :=
  exists body : list chr, l = body ++ [[10%N] : chr] /\ Forall (fun c : chr => b0 c <> 10%N) body.
Definition buf_wf (b : buf) : Prop := Forall line_wf b.
