(* GlobDepthTr.v -- C15: the depths the interpreter hands to lbuf_globset / lbuf_globget (GlobDepth.ex_main_d_ok: always 1..7)
   meet the hypothesis `dep <= 7` of the translation theorems TrLbufGlob.tr_lbuf_globset / tr_lbuf_globget: for every depth of
   the trace of ANY script from ANY state the translated C functions compute what the model computes. *)
From Coq Require Import List NArith ZArith Bool Lia.
From NV Require Import Bytes ExDefs GlobDepthDefs GlobDepth.
From NV Require Import CLite CLiteProps GenCFuncs TrLbufBase TrLbufGlob.
Import ListNotations.
Local Open Scope Z_scope.

Theorem depths_translated rvalid rfind filter readfile curpath n fuel s dep :
  In dep (snd (ex_main_d rvalid rfind filter readfile curpath n fuel s)) ->
  forall m bl blk bg gblk (l : ExDefs.lbuf) pos x d cf,
  nth_error m bl = Some blk -> nth_error blk L_ln_glob = Some (VPtr bg 0) -> glob_rep m bg gblk (ExDefs.lns l) ->
  nth_error (ExDefs.lns l) pos = Some x ->
  (let gblk' := upd gblk pos (VInt (sb (N.setbit (ExDefs.lgl x) dep))) in
   callf cprog cf (S d) F_lbuf_globset [VPtr bl 0; VInt (Z.of_nat pos); VInt (Z.of_N dep)] m = Ok (VUndef, upd m bg gblk')
   /\ glob_rep (upd m bg gblk') bg gblk' (ExDefs.lns (ExDefs.lbuf_globset l pos dep))) /\
  (let gblk' := upd gblk pos (VInt (sb (N.clearbit (ExDefs.lgl x) dep))) in
   callf cprog cf (S d) F_lbuf_globget [VPtr bl 0; VInt (Z.of_nat pos); VInt (Z.of_N dep)] m
     = Ok (VInt (b2z (snd (ExDefs.lbuf_globget l pos dep))), upd m bg gblk')
   /\ glob_rep (upd m bg gblk') bg gblk' (ExDefs.lns (fst (ExDefs.lbuf_globget l pos dep)))).
Proof.
  intros I m bl blk bg gblk l pos x d cf Hb Hp R Hx.
  pose proof (proj1 (Forall_forall _ _) (ex_main_d_ok rvalid rfind filter readfile curpath n fuel s) dep I) as [_ D].
  split; [apply (tr_lbuf_globset m bl blk bg gblk l pos x dep d cf Hb Hp R Hx D)
         | apply (tr_lbuf_globget m bl blk bg gblk l pos x dep d cf Hb Hp R Hx D)].
Qed.
