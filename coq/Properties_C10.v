(* Properties_C10.v -- regex matches are genuine, leftmost, greedy/left-biased, right group spans.
   Statements only; proofs are in ReProps*.v. *)
From Coq Require Import List NArith ZArith.
From NV Require Import Bytes GenConsts ReSyntax ReParse ReEmit ReVM ReSem RsetDefs ReProps ReProps2 ReProps3.
Import ListNotations.

(* whatever the backtracking machine reports is a genuine run of the program (cut or no cut) *)
Theorem C10_vm_sound : forall St atom_step mark_step P d pc s cs r c,
  rec St atom_step mark_step P d pc s = (Found cs r, c) -> path St atom_step mark_step P pc s cs r.
Proof. exact rec_sound. Qed.
Print Assumptions C10_vm_sound.

(* when no depth cut happened (counter 0): Found is the lexicographically least successful choice
   list (greedy, left-biased), Fail means that no successful choice list exists *)
Theorem C10_vm_first : forall St atom_step mark_step P d pc s o,
  rec St atom_step mark_step P d pc s = (o, 0%N) ->
  match o with
  | Found cs r => path St atom_step mark_step P pc s cs r /\
                  forall cs' r', path St atom_step mark_step P pc s cs' r' -> lexle cs cs'
  | Fail => forall cs' r', ~ path St atom_step mark_step P pc s cs' r'
  | _ => True
  end.
Proof. intros. pose proof (rec_first St atom_step mark_step P d pc s o H) as F. destruct o; exact F. Qed.
Print Assumptions C10_vm_first.

(* the emitted block of a regular expression: a run that stays inside the block and first reaches
   its end is exactly a derivation of the set semantics *)
Theorem C10_emit_sound : forall St atom_step mark_step P r b s cs s',
  code_at P b (emit r b) -> rin St atom_step mark_step P b (b + len r) b s cs s' -> M St atom_step mark_step r s s'.
Proof. exact emit_sound. Qed.
Print Assumptions C10_emit_sound.

Theorem C10_emit_complete : forall St atom_step mark_step P r s s',
  M St atom_step mark_step r s s' -> forall b, code_at P b (emit r b) -> exists cs, run St atom_step mark_step P b s cs (b + len r) s'.
Proof. exact emit_complete. Qed.
Print Assumptions C10_emit_complete.

(* the emitter of the model (mirror of rnode_emit, counted repetitions unrolled) produces literally
   the code of the regular expression tr t *)
Theorem C10_emit_is_tr : forall t, wf_node t -> forall b, emit_n t b = emit (tr t) b.
Proof. exact emit_n_tr. Qed.
Print Assumptions C10_emit_is_tr.

(* the documented backtracking depth is a constant of the specification; the engine's limit is generated *)
Theorem C10_documented_depth : (256 <= NDEPT)%Z.
Proof. exact documented_depth. Qed.
Print Assumptions C10_documented_depth.

Example C10_nonvacuous : exists r, fst (rset_find_d 300 r [120; 97; 98; 10]%N 2 0%Z) = Ok (0%Z, [(1%Z, 3%Z); ((-1)%Z, (-1)%Z)])
  /\ rset_make [Some [97; 98; 42]%N] 0%Z = Ok (Some r).
Proof. eexists. split; [|vm_compute; reflexivity]. vm_compute. reflexivity. Qed.
